(* C07 at descriptor level: the other script-bearing output types and the dispatcher.

   (=>)  "invents no path within the limits": the lift with the COMPUTED verdict succeeded and the
         policy is true for the caller's assets => the satisfier model returns a satisfaction which,
         packaged as the output type's wrapper packages it, passes the output type's validation:
           shwsh_invents_no_path      P2SH-P2WSH   verify_sh + ssig_shwsh
           sh_invents_no_path         P2SH         verify_sh   (520 bytes and 201 ops derived; the
                                                   1650-byte scriptSig rule is a hypothesis, see below)
           bare_invents_no_path       bare         verify_bare (10000 bytes and 201 ops derived)
           tr_invents_no_path         P2TR script path, verify_tr (1000 items derived, 520-byte items
                                                   from the material's sizes; commitment oracle)
           *_dispatch_invents         the same through verify_spend on the scriptPubKey
   (<=)  "hides no path": whatever the validation accepts, with the elements below the script taken
         from the world, makes the policy true:
           shwsh_hides_no_path, sh_hides_no_path, bare_hides_no_path, tr_hides_no_path,
           wsh_dispatch_hides, shwsh_dispatch_hides, sh_dispatch_hides, tr_dispatch_hides. *)
From Verif Require Import Exec Ser Spend Ast Types TypeCheck SatSpec Sat LiftModel LiftLimits TheoremA SatProofs FrameDissat
  CompleteProofs CompleteThresh CompleteNonMall CompleteScript DenotSpec DenotMain DenotTable
  LiftProofs LiftNormProofs LiftMainProofs LiftFullProofs.
From Verif Require Import CodecSpec SerProofs EncProofs DescSpendModel DescSpendPush DescSpendProofs DescSpendBare LiftDescWsh.
From Verif Require CodecExt DescSpendLimits ExtModel ExtProofs ExtBounds ExtSize ExtTyped ExtCodec ExtLemmas.
From Coq Require Import Lia Permutation.
Local Open Scope N_scope.

Arguments N.add : simpl never. Arguments N.mul : simpl never. Arguments N.sub : simpl never.
Arguments N.leb : simpl never. Arguments N.ltb : simpl never. Arguments N.eqb : simpl never.
Arguments N.of_nat : simpl never.

(* ------------------------------------------------------------------ the figures of lift_ctx's context, any context *)
Lemma ctx_figures (c : ctx) (unc : key -> bool) (ke : keyenv) (se : senv) (f : fill) (mall rhs : bool) (m : ms) (t : ty) bs :
  ksort_ok ke -> unc_agrees ke unc -> ms_wf c ke m -> ExtCodec.ctx_frag_ok c m = true -> type_of m = ROk t ->
  ExtProofs.senv_ok (ExtCodec.xctx_of c ke) se ->
  satisfy ke se f mall rhs m = Some bs ->
  let x := ExtModel.ext_of (lx_ctx c unc) m in
  ExtModel.pk_cost x = blen (encode ke m)
  /\ (exists d, ExtModel.sat_data x = Some d /\ N.of_nat (length bs) <= ExtModel.sd_wcount d)
  /\ (is_tap c = false -> count_nonpush_ops (enc ke m) = ExtModel.static_ops x).
Proof.
  intros Hks Hu Hmw Hfr Ht Hsenv Hsat x. unfold x, ExtModel.ext_of.
  rewrite (lx_ext_eq ExtModel.as_written c unc ke m Hu Hmw). fold (ExtModel.ext_of (ExtCodec.xctx_of c ke) m).
  split; [exact (ExtCodec.ext_pk_cost_is_len c ke m Hks Hmw Hfr)|]. split.
  - unfold satisfy in Hsat. destruct (s_stack (snd (sat_dissat ke se mall rhs m))) as [l| |] eqn:El; try discriminate.
    assert (Hsafe : ExtModel.ext_safe ExtModel.as_written (ExtCodec.xctx_of c ke) m = true)
      by (apply (ExtTyped.typed_ext_safe _ m t Ht); apply ms_wf_struct_ok; assumption).
    destruct (ExtBounds.wit_bounds_root ExtModel.as_written _ ke se mall rhs m l Hsenv (ksort_ok_len ke Hks) Hsafe El) as [d [Hd [Hc _]]].
    exists d. split; [exact Hd|]. rewrite (DescSpendLimits.fill_all_length f l bs Hsat). exact Hc.
  - intros Htap. rewrite DescSpendLimits.count_nonpush_is_count_ops.
    apply (ExtSize.static_ops_exact ExtModel.as_written _ ke m). exact (frag_ok_no_multi_a c m Htap Hfr).
Qed.

(* the verdict, context by context *)
Lemma wrl_legacy_inv unc m : within_resource_limits Legacy unc m = true ->
  let x := ExtModel.ext_of (lx_ctx Legacy unc) m in
  ExtModel.pk_cost x <= 520 /\
  exists d, ExtModel.sat_data x = Some d /\ ExtModel.static_ops x + ExtModel.sd_eops d <= 201 /\ ExtModel.sd_ssig d <= 1650.
Proof.
  unfold within_resource_limits. cbv zeta. intros H.
  apply andb_prop in H. destruct H as [H H3]. apply andb_prop in H. destruct H as [H1 H2].
  split; [apply N.leb_le; exact H1|].
  unfold ExtModel.sat_op_count, ole_n in *.
  destruct (ExtModel.sat_data (ExtModel.ext_of (lx_ctx Legacy unc) m)) as [d|]; cbn [option_map] in *; [|discriminate].
  exists d. split; [reflexivity|]. split; [apply N.leb_le; assumption|].
  apply N.leb_le in H3. lia.
Qed.
(* since /repo e37a8a3d the verdict bounds the WHOLE scriptSig: satisfaction items + push of the redeem script *)
Lemma wrl_legacy_inv_scriptsig unc m : within_resource_limits Legacy unc m = true ->
  let x := ExtModel.ext_of (lx_ctx Legacy unc) m in
  exists d, ExtModel.sat_data x = Some d /\ ExtModel.sd_ssig d + ExtModel.pk_cost x + ExtModel.push_opcode_size (ExtModel.pk_cost x) <= 1650.
Proof.
  unfold within_resource_limits. cbv zeta. intros H.
  apply andb_prop in H. destruct H as [_ H3].
  unfold ole_n in H3.
  destruct (ExtModel.sat_data (ExtModel.ext_of (lx_ctx Legacy unc) m)) as [d|]; cbn [option_map] in *; [|discriminate].
  exists d. split; [reflexivity|]. apply N.leb_le. exact H3.
Qed.
Lemma wrl_bare_inv unc m : within_resource_limits Bare unc m = true ->
  let x := ExtModel.ext_of (lx_ctx Bare unc) m in
  ExtModel.pk_cost x <= 10000 /\
  exists d, ExtModel.sat_data x = Some d /\ ExtModel.static_ops x + ExtModel.sd_eops d <= 201.
Proof.
  unfold within_resource_limits. cbv zeta. intros H. apply andb_prop in H. destruct H as [H1 H2].
  split; [apply N.leb_le; exact H1|].
  unfold ExtModel.sat_op_count, ole_n in *.
  destruct (ExtModel.sat_data (ExtModel.ext_of (lx_ctx Bare unc) m)) as [d|]; cbn [option_map] in *; [|discriminate].
  exists d. split; [reflexivity|]. apply N.leb_le; assumption.
Qed.
Lemma wrl_tap_inv unc m : within_resource_limits Tap unc m = true ->
  let x := ExtModel.ext_of (lx_ctx Tap unc) m in
  forall d, ExtModel.sat_data x = Some d -> ExtModel.sd_wcount d + ExtModel.sd_estack d <= 1000.
Proof.
  unfold within_resource_limits. cbv zeta. intros H d Hd. apply andb_prop in H. destruct H as [_ H].
  rewrite Hd in H. apply N.leb_le. exact H.
Qed.

(* ------------------------------------------------------------------ sizes / byte-ness of what fill_all returns *)
Definition material_all (P : bytes -> Prop) (ke : keyenv) (A : assets) : Prop :=
  (forall k, P (kb ke k)) /\ (forall k s, a_sig A k = Some s -> P s) /\
  (forall kd h x, SatProofs.look A kd h = Some x -> P x).

Lemma fill_all_P (P : bytes -> Prop) ke A se f : linked ke A se f -> material_all P ke A ->
  P [] -> P [1] -> P (repeat 0 32) ->
  forall l bs, fill_all f l = Some bs -> Forall P bs.
Proof.
  intros HL (Hk & Hs & Hp) P0 P1 Pz. induction l as [|p r IH]; intros bs H; cbn [fill_all] in H.
  - inversion H. constructor.
  - destruct (fill_ph f p) as [b|] eqn:Ep; [|discriminate]. destruct (fill_all f r) as [bs'|] eqn:E; [|discriminate].
    inversion H; subst. constructor; [|exact (IH bs' eq_refl)].
    destruct p as [k|k|kd h| | |]; cbn [fill_ph] in Ep.
    + inversion Ep; subst. rewrite (lk_kb _ _ _ _ HL). apply Hk.
    + rewrite (lk_sig _ _ _ _ HL) in Ep. exact (Hs k b Ep).
    + rewrite (lk_pre _ _ _ _ HL) in Ep. exact (Hp kd h b Ep).
    + inversion Ep; subst. exact Pz.
    + inversion Ep; subst. exact P1.
    + inversion Ep; subst. exact P0.
Qed.

Lemma satisfy_P (P : bytes -> Prop) ke A se f mall rhs m bs : linked ke A se f -> material_all P ke A ->
  P [] -> P [1] -> P (repeat 0 32) -> satisfy ke se f mall rhs m = Some bs -> Forall P bs.
Proof.
  intros HL HM P0 P1 Pz Hsat. unfold satisfy in Hsat.
  destruct (s_stack (snd (sat_dissat ke se mall rhs m))) as [l| |]; try discriminate.
  exact (fill_all_P P ke A se f HL HM P0 P1 Pz l bs Hsat).
Qed.

Lemma Forall_le_forallb n (l : list bytes) : Forall (fun b => blen b <= n) l -> forallb (fun it => N.leb (blen it) n) (rev l) = true.
Proof.
  intros H. rewrite forallb_rev. induction H as [|x r Hx _ IH]; [reflexivity|]. cbn [forallb]. rewrite IH, andb_true_r. apply N.leb_le, Hx.
Qed.

(* witness_to_scriptsig returns when the items are below 73 bytes and the last one within 520 *)
Lemma scriptsig_instr_some (last : bool) (b : bytes) : (if last then blen b <= 520 else blen b < 73) -> exists i, scriptsig_instr last b = Some i.
Proof.
  intros H. unfold scriptsig_instr. destruct (num_operand 4 b); [eexists; reflexivity|].
  destruct last.
  - replace (N.leb (blen b) 520) with true by (symmetry; apply N.leb_le; exact H). eexists; reflexivity.
  - replace (N.ltb (blen b) 73) with true by (symmetry; apply N.ltb_lt; exact H). eexists; reflexivity.
Qed.
Lemma witness_to_scriptsig_some_last (bs : list bytes) (sb : bytes) :
  Forall (fun b => blen b < 73) bs -> blen sb <= 520 -> exists ss, witness_to_scriptsig (bs ++ [sb]) = Some ss.
Proof.
  intros H Hsb. induction H as [|x r Hx _ IH]; cbn [app witness_to_scriptsig].
  - destruct (scriptsig_instr_some true sb Hsb) as [i ->]. eexists; reflexivity.
  - destruct IH as [ss IH]. rewrite IH.
    destruct (r ++ [sb]) eqn:E; [destruct r; discriminate|].
    destruct (scriptsig_instr_some false x Hx) as [i ->]. eexists; reflexivity.
Qed.
Lemma witness_to_scriptsig_some (bs : list bytes) :
  Forall (fun b => blen b < 73) bs -> exists ss, witness_to_scriptsig bs = Some ss.
Proof.
  intros H. induction H as [|x r Hx _ IH]; cbn [witness_to_scriptsig]; [eexists; reflexivity|].
  destruct IH as [ss IH]. rewrite IH.
  assert (Hi : exists i, scriptsig_instr (match r with [] => true | _ => false end) x = Some i).
  { destruct r; apply scriptsig_instr_some; lia. }
  destruct Hi as [i ->]. eexists; reflexivity.
Qed.

Section Types.
  Variable e : env.
  Variable ke : keyenv.
  Hypothesis Hks : ksort_ok ke.
  Hypothesis Hse : forall kbs, e_sigok e kbs [] = false.

  (* the common part: policy true => the satisfier model returns a satisfaction *)
  Lemma policy_gives_satisfaction sv (A : assets) (se : senv) (f : fill) :
    linked ke A se f -> locks_compatible se ->
    forall c unc rhs m t p, type_of m = ROk t -> wf (with_sv e sv) ke m -> thresh_fit ke se rhs m ->
      lift_ctx c unc m = LOk p -> leval A p = true ->
      no_multi m /\ within_resource_limits c unc m = true /\ exists bs, satisfy ke se f true rhs m = Some bs.
  Proof.
    intros HL HC c unc rhs m t p Ht Hwf Hfit Hl Hev.
    pose proof (lift_ctx_within _ _ _ _ Hl) as Hrl. unfold lift_ctx in Hl. apply lift_iter_some in Hl.
    split; [exact (lift_no_raw _ _ _ Hl)|]. split; [exact Hrl|].
    exact (proj1 (lift_policy_iff_satisfier ke A se f Hks HL HC rhs _ m t p Ht (wf_thresh_ok _ ke m Hwf) Hfit Hl) Hev).
  Qed.

  (* ---------------------------------------------------------------- Segwitv0: P2WSH dispatch, P2SH-P2WSH *)
  Section Segwit.
    Notation e0 := (with_sv e SvWitnessV0).
    Variables (A : assets) (se : senv) (f : fill).
    Hypothesis HL : linked ke A se f.
    Hypothesis HC : locks_compatible se.
    Variables (unc : key -> bool) (rhs : bool) (m : ms) (t : ty) (p : lpolicy).
    Hypothesis Ht : type_of m = ROk t.
    Hypothesis Hbb : c_base (t_corr t) = BB.
    Hypothesis HA : assets_ok e0 ke A.
    Hypothesis Hwf : wf e0 ke m.
    Hypothesis Hmw : ms_wf Segwitv0 ke m.
    Hypothesis Hfr : ExtCodec.ctx_frag_ok Segwitv0 m = true.
    Hypothesis Hu : unc_agrees ke unc.
    Hypothesis Hsenv : ExtProofs.senv_ok (ExtCodec.xctx_of Segwitv0 ke) se.
    Hypothesis Hfit : thresh_fit ke se rhs m.
    Hypothesis Hsm : small_material ke A 80.
    Hypothesis Hl : lift_ctx Segwitv0 unc m = LOk p.
    Hypothesis Hev : leval A p = true.

    Lemma segwit_limits : exists bs, satisfy ke se f true rhs m = Some bs /\ no_multi m /\
      blen (encode ke m) <= 3600 /\ N.of_nat (length bs) <= 100 /\
      forallb (fun it => N.leb (blen it) 80) (rev bs) = true /\ count_nonpush_ops (enc ke m) <= 201.
    Proof.
      destruct (policy_gives_satisfaction SvWitnessV0 A se f HL HC Segwitv0 unc rhs m t p Ht Hwf Hfit Hl Hev) as (Hnm & Hrl & bs & Hsat).
      exists bs. split; [exact Hsat|]. split; [exact Hnm|].
      destruct (wrl_segwit_inv unc m Hrl) as (Hpk & d & Hd & Hops & Hcnt).
      destruct (ctx_figures Segwitv0 unc ke se f true rhs m t bs Hks Hu Hmw Hfr Ht Hsenv Hsat) as (F1 & (d' & Hd' & F2) & F3).
      rewrite Hd in Hd'. inversion Hd'; subst d'.
      split; [rewrite <- F1; exact Hpk|]. split; [lia|]. split; [|rewrite (F3 eq_refl); lia].
      rewrite forallb_rev. unfold satisfy in Hsat.
      destruct (s_stack (snd (sat_dissat ke se true rhs m))) as [l| |]; try discriminate.
      apply (fill_all_small e0 ke A se f 80 HL HA Hsm ltac:(lia) l bs Hsat).
    Qed.

    Theorem shwsh_invents_no_path :
      blen (e_sha256 e (encode ke m)) = 32 ->
      exists bs, satisfy ke se f true rhs m = Some bs /\
        verify_sh e (e_hash160 e (spk_wsh e (encode ke m))) (ssig_shwsh e (encode ke m)) (bs ++ [encode ke m]) = true.
    Proof.
      intros H32. destruct segwit_limits as (bs & Hsat & Hnm & L1 & L2 & L3 & L4). exists bs. split; [exact Hsat|].
      exact (shwsh_spends e ke A se f HL Hks Hse true rhs m t Ht Hbb Hnm bs Hsat HA Hwf Hmw H32 L1 L2 L3 L4).
    Qed.

    Theorem wsh_dispatch_invents (commit_ok : bytes -> bytes -> bool) :
      blen (e_sha256 e (encode ke m)) = 32 ->
      exists bs, satisfy ke se f true rhs m = Some bs /\
        verify_spend e commit_ok (spk_wsh e (encode ke m)) [] (bs ++ [encode ke m]) = true.
    Proof.
      intros H32. destruct segwit_limits as (bs & Hsat & Hnm & L1 & L2 & L3 & L4). exists bs. split; [exact Hsat|].
      exact (wsh_dispatch e ke A se f HL Hks Hse true rhs m t Ht Hbb Hnm bs Hsat commit_ok HA Hwf Hmw H32 L1 L2 L3 L4).
    Qed.

    Theorem shwsh_dispatch_invents (commit_ok : bytes -> bytes -> bool) :
      blen (e_sha256 e (encode ke m)) = 32 -> blen (e_hash160 e (spk_wsh e (encode ke m))) = 20 ->
      exists bs, satisfy ke se f true rhs m = Some bs /\
        verify_spend e commit_ok (spk_shwsh e (encode ke m)) (ssig_shwsh e (encode ke m)) (bs ++ [encode ke m]) = true.
    Proof.
      intros H32 H20. destruct segwit_limits as (bs & Hsat & Hnm & L1 & L2 & L3 & L4). exists bs. split; [exact Hsat|].
      exact (shwsh_dispatch e ke A se f HL Hks Hse true rhs m t Ht Hbb Hnm bs Hsat commit_ok HA Hwf Hmw H32 H20 L1 L2 L3 L4).
    Qed.
  End Segwit.
  (* ---------------------------------------------------------------- pre-segwit: P2SH and bare *)
  Lemma is_bytes_consts : is_bytes [] /\ is_bytes [1] /\ is_bytes (repeat 0 32).
  Proof.
    split; [constructor|]. split; [constructor; [lia | constructor]|].
    apply Forall_forall. intros x Hx. apply repeat_spec in Hx. subst. lia.
  Qed.
  Lemma lt73_consts : blen [] < 73 /\ blen [1] < 73 /\ blen (repeat 0 32) < 73.
  Proof. repeat split; vm_compute; reflexivity. Qed.

  Section Legacy.
    Notation eb := (with_sv e SvBase).
    Variables (A : assets) (se : senv) (f : fill).
    Hypothesis HL : linked ke A se f.
    Hypothesis HC : locks_compatible se.
    Variables (unc : key -> bool) (rhs : bool) (m : ms) (t : ty) (p : lpolicy).
    Hypothesis Ht : type_of m = ROk t.
    Hypothesis Hbb : c_base (t_corr t) = BB.
    Hypothesis HA : assets_ok eb ke A.
    Hypothesis Hwf : wf eb ke m.
    Hypothesis Hu : unc_agrees ke unc.
    Hypothesis Hfit : thresh_fit ke se rhs m.
    Hypothesis Hby : material_all is_bytes ke A.
    Hypothesis Hsz : material_all (fun b => blen b < 73) ke A.   (* the assert of witness_to_scriptsig *)
    Hypothesis Hev : leval A p = true.

    (* P2SH.  The 520-byte redeem-script rule and the 201-opcode rule are DERIVED from the verdict.
       The 1650-byte scriptSig rule is a hypothesis: the library's figure (max_script_sig_size <= 1650,
       Legacy::check_local_policy_validity) counts the items only, not the push of the redeem script
       that Sh::get_satisfaction appends, so the verdict does not imply it. *)
    Theorem sh_invents_no_path :
      ms_wf Legacy ke m -> ExtCodec.ctx_frag_ok Legacy m = true ->
      ExtProofs.senv_ok (ExtCodec.xctx_of Legacy ke) se ->
      is_bytes (encode ke m) ->
      lift_ctx Legacy unc m = LOk p ->
      (forall bs ss, satisfy ke se f true rhs m = Some bs ->
                     witness_to_scriptsig (bs ++ [encode ke m]) = Some ss -> blen (serialize ss) <= 1650) ->
      exists bs ss, satisfy ke se f true rhs m = Some bs /\ witness_to_scriptsig (bs ++ [encode ke m]) = Some ss /\
        verify_sh e (e_hash160 e (encode ke m)) (serialize ss) [] = true.
    Proof.
      intros Hmw Hfr Hsenv Hsb Hl Hssig.
      destruct (policy_gives_satisfaction SvBase A se f HL HC Legacy unc rhs m t p Ht Hwf Hfit Hl Hev) as (Hnm & Hrl & bs & Hsat).
      destruct (wrl_legacy_inv unc m Hrl) as (Hpk & d & Hd & Hops & _).
      destruct (ctx_figures Legacy unc ke se f true rhs m t bs Hks Hu Hmw Hfr Ht Hsenv Hsat) as (F1 & _ & F3).
      destruct is_bytes_consts as (B0 & B1 & Bz). destruct lt73_consts as (S0 & S1 & Sz).
      pose proof (satisfy_P is_bytes ke A se f true rhs m bs HL Hby B0 B1 Bz Hsat) as Hbs.
      pose proof (satisfy_P (fun b => blen b < 73) ke A se f true rhs m bs HL Hsz S0 S1 Sz Hsat) as Hlt.
      destruct (witness_to_scriptsig_some_last bs (encode ke m) Hlt ltac:(rewrite <- F1; exact Hpk)) as [ss Hss].
      exists bs, ss. split; [exact Hsat|]. split; [exact Hss|].
      apply (sh_spends e ke A se f HL Hks Hse true rhs m t Ht Hbb Hnm bs Hsat HA Hwf Hmw Hbs Hsb ss Hss (Hssig bs ss Hsat Hss)).
      rewrite (F3 eq_refl). lia.
    Qed.

    Theorem sh_dispatch_invents (commit_ok : bytes -> bytes -> bool) :
      ms_wf Legacy ke m -> ExtCodec.ctx_frag_ok Legacy m = true ->
      ExtProofs.senv_ok (ExtCodec.xctx_of Legacy ke) se ->
      is_bytes (encode ke m) -> blen (e_hash160 e (encode ke m)) = 20 ->
      lift_ctx Legacy unc m = LOk p ->
      (forall bs ss, satisfy ke se f true rhs m = Some bs ->
                     witness_to_scriptsig (bs ++ [encode ke m]) = Some ss -> blen (serialize ss) <= 1650) ->
      exists bs ss, satisfy ke se f true rhs m = Some bs /\ witness_to_scriptsig (bs ++ [encode ke m]) = Some ss /\
        verify_spend e commit_ok (spk_sh e (encode ke m)) (serialize ss) [] = true.
    Proof.
      intros Hmw Hfr Hsenv Hsb H20 Hl Hssig.
      destruct (sh_invents_no_path Hmw Hfr Hsenv Hsb Hl Hssig) as (bs & ss & H1 & H2 & H3).
      exists bs, ss. split; [exact H1|]. split; [exact H2|].
      rewrite (sh_dispatch_gen e commit_ok _ _ _ H20). exact H3.
    Qed.

    (* bare.  10000 bytes and 201 opcodes derived; the library's Bare context has no scriptSig-size
       rule at all, so Core's 1650-byte rule is a hypothesis *)
    Theorem bare_invents_no_path :
      ms_wf Bare ke m -> ExtCodec.ctx_frag_ok Bare m = true ->
      ExtProofs.senv_ok (ExtCodec.xctx_of Bare ke) se ->
      lift_ctx Bare unc m = LOk p ->
      (forall bs ss, satisfy ke se f true rhs m = Some bs ->
                     witness_to_scriptsig bs = Some ss -> blen (serialize ss) <= 1650) ->
      exists bs ss, satisfy ke se f true rhs m = Some bs /\ witness_to_scriptsig bs = Some ss /\
        verify_bare e (encode ke m) (serialize ss) [] = true.
    Proof.
      intros Hmw Hfr Hsenv Hl Hssig.
      destruct (policy_gives_satisfaction SvBase A se f HL HC Bare unc rhs m t p Ht Hwf Hfit Hl Hev) as (Hnm & Hrl & bs & Hsat).
      destruct (wrl_bare_inv unc m Hrl) as (Hpk & d & Hd & Hops).
      destruct (ctx_figures Bare unc ke se f true rhs m t bs Hks Hu Hmw Hfr Ht Hsenv Hsat) as (F1 & _ & F3).
      destruct is_bytes_consts as (B0 & B1 & Bz). destruct lt73_consts as (S0 & S1 & Sz).
      pose proof (satisfy_P is_bytes ke A se f true rhs m bs HL Hby B0 B1 Bz Hsat) as Hbs.
      pose proof (satisfy_P (fun b => blen b < 73) ke A se f true rhs m bs HL Hsz S0 S1 Sz Hsat) as Hlt.
      destruct (witness_to_scriptsig_some bs Hlt) as [ss Hss].
      exists bs, ss. split; [exact Hsat|]. split; [exact Hss|].
      apply (bare_spends e ke A se f HL Hks Hse true rhs m t Ht Hbb Hnm bs Hsat HA Hwf Hmw Hbs ss Hss (Hssig bs ss Hsat Hss)).
      - rewrite <- F1. exact Hpk.
      - rewrite (F3 eq_refl). lia.
    Qed.
  End Legacy.

  (* ---------------------------------------------------------------- P2TR, script path *)
  Section TapLeaf.
    Notation et := (with_sv e SvTapscript).
    Variables (A : assets) (se : senv) (f : fill).
    Hypothesis HL : linked ke A se f.
    Hypothesis HC : locks_compatible se.
    Variables (unc : key -> bool) (rhs : bool) (m : ms) (t : ty) (p : lpolicy).
    Hypothesis Ht : type_of m = ROk t.
    Hypothesis Hbb : c_base (t_corr t) = BB.
    Hypothesis HA : assets_ok et ke A.
    Hypothesis Hwf : wf et ke m.
    Hypothesis Hmw : ms_wf Tap ke m.
    Hypothesis Hfr : ExtCodec.ctx_frag_ok Tap m = true.
    Hypothesis Hu : unc_agrees ke unc.
    Hypothesis Hsenv : ExtProofs.senv_ok (ExtCodec.xctx_of Tap ke) se.
    Hypothesis Hfit : thresh_fit ke se rhs m.
    Hypothesis Hsm : small_material ke A 520.
    Hypothesis Hl : lift_ctx Tap unc m = LOk p.
    Hypothesis Hev : leval A p = true.

    Lemma tap_limits : exists bs, satisfy ke se f true rhs m = Some bs /\ no_multi m /\
      N.of_nat (length bs) <= 1000 /\ forallb (fun it => N.leb (blen it) 520) (rev bs) = true.
    Proof.
      destruct (policy_gives_satisfaction SvTapscript A se f HL HC Tap unc rhs m t p Ht Hwf Hfit Hl Hev) as (Hnm & Hrl & bs & Hsat).
      exists bs. split; [exact Hsat|]. split; [exact Hnm|].
      destruct (ctx_figures Tap unc ke se f true rhs m t bs Hks Hu Hmw Hfr Ht Hsenv Hsat) as (_ & (d & Hd & F2) & _).
      pose proof (wrl_tap_inv unc m Hrl d Hd) as Hw. split; [lia|].
      rewrite forallb_rev. unfold satisfy in Hsat.
      destruct (s_stack (snd (sat_dissat ke se true rhs m))) as [l| |]; try discriminate.
      apply (fill_all_small et ke A se f 520 HL HA Hsm ltac:(lia) l bs Hsat).
    Qed.

    Theorem tr_invents_no_path (commit_ok : bytes -> bytes -> bool) (outkey cb : bytes) :
      commit_ok (encode ke m) cb = true -> not_annex cb ->
      exists bs, satisfy ke se f true rhs m = Some bs /\
        verify_tr e outkey commit_ok [] (bs ++ [encode ke m; cb]) = true.
    Proof.
      intros Hc Hna. destruct tap_limits as (bs & Hsat & Hnm & L1 & L2). exists bs. split; [exact Hsat|].
      exact (tr_spends e ke A se f HL Hks Hse true rhs m t Ht Hbb Hnm bs Hsat commit_ok outkey cb HA Hwf Hmw Hc Hna L1 L2).
    Qed.

    Theorem tr_dispatch_invents (commit_ok : bytes -> bytes -> bool) (outkey cb : bytes) :
      blen outkey = 32 -> commit_ok (encode ke m) cb = true -> not_annex cb ->
      exists bs, satisfy ke se f true rhs m = Some bs /\
        verify_spend e commit_ok (spk_tr outkey) [] (bs ++ [encode ke m; cb]) = true.
    Proof.
      intros H32 Hc Hna. destruct tap_limits as (bs & Hsat & Hnm & L1 & L2). exists bs. split; [exact Hsat|].
      exact (tr_dispatch e ke A se f HL Hks Hse true rhs m t Ht Hbb Hnm bs Hsat commit_ok outkey cb HA Hwf Hmw H32 Hc Hna L1 L2).
    Qed.
  End TapLeaf.
  (* ================================================================ (<=) hides no path *)
  Lemma final_ok_accepts e' s st : final_ok (exec e' s (mkSt st [])) = true -> accepts e' s st = true.
  Proof. unfold final_ok, accepts. destruct (exec e' s {| stk := st; alt := [] |}); auto. Qed.

  (* what an accepted P2SH spend consists of *)
  Lemma verify_sh_inv h ssig witness : verify_sh e h ssig witness = true ->
    exists ss rb st, parse_script ssig = Some ss /\ pushonly_stack ss [] = Some (rb :: st) /\ e_hash160 e rb = h /\
      match spk_is_p2wsh rb with
      | Some prog => st = [] /\ verify_wsh e prog witness = true
      | None =>
        match spk_is_p2wpkh rb with
        | Some kh' => st = [] /\ verify_wpkh e kh' witness = true
        | None => witness = [] /\ exists s, parse_script rb = Some s /\ count_nonpush_ops s <= 201 /\
                                            accepts (with_sv e SvBase) s st = true
        end
      end.
  Proof.
    unfold verify_sh. intros H. destruct (parse_script ssig) as [ss|] eqn:Eps; [|discriminate].
    apply andb_prop in H. destruct H as [_ H].
    destruct (pushonly_stack ss []) as [[|rb st]|] eqn:Est; try discriminate.
    apply andb_prop in H. destruct H as [H Hm]. apply andb_prop in H. destruct H as [Hh _].
    apply bytes_eqb_eq in Hh. exists ss, rb, st. split; [reflexivity|]. split; [exact Est|]. split; [exact Hh|].
    destruct (spk_is_p2wsh rb) as [prog|].
    - destruct st; [split; [reflexivity | exact Hm] | discriminate].
    - destruct (spk_is_p2wpkh rb) as [kh'|].
      + destruct st; [split; [reflexivity | exact Hm] | discriminate].
      + destruct witness; [|discriminate]. split; [reflexivity|].
        destruct (parse_script rb) as [s|]; [|discriminate]. apply andb_prop in Hm. destruct Hm as [H1 H2].
        exists s. split; [reflexivity|]. split; [apply N.leb_le; exact H1 | apply final_ok_accepts; exact H2].
  Qed.

  Lemma not_annex_dec cb : not_annex cb \/ exists r, cb = 80 :: r.
  Proof.
    destruct cb as [|c r]; [left; exact I|]. destruct (N.eq_dec c 80) as [->|Hn]; [right; eexists; reflexivity|].
    left. unfold not_annex.
    repeat match goal with |- context [match ?q with _ => _ end] => is_var q; destruct q; try exact I end.
    apply Hn. reflexivity.
  Qed.

  Lemma verify_wsh_nil prog : verify_wsh e prog [] = false. Proof. reflexivity. Qed.
  Lemma verify_wpkh_nil kh' : verify_wpkh e kh' [] = false. Proof. reflexivity. Qed.

  Section Hides.
    Variable W : wit.
    Variables (rl : bool) (m : ms) (t : ty) (p : lpolicy).
    Hypothesis Ht : type_of m = ROk t.
    Hypothesis Hbb : c_base (t_corr t) = BB.
    Hypothesis Hl : lift rl m = Some p.
    Notation sb := (encode ke m).

    (* P2SH-P2WSH: ANY scriptSig, ANY last witness item; collision-freeness of hash160 on the redeem
       script (the witness program) and of sha256 on the witness script, each on the one pair *)
    Theorem shwsh_hides_no_path :
      kh_binds (with_sv e SvWitnessV0) ke W -> wf (with_sv e SvWitnessV0) ke m -> ms_wf Segwitv0 ke m ->
      blen (e_sha256 e sb) = 32 ->
      (forall rb, e_hash160 e rb = e_hash160 e (spk_wsh e sb) -> rb = spk_wsh e sb) ->
      forall (ssig : bytes) (items : list bytes) (sb' : bytes),
        (e_sha256 e sb' = e_sha256 e sb -> sb' = sb) -> incl items W ->
        verify_sh e (e_hash160 e (spk_wsh e sb)) ssig (items ++ [sb']) = true ->
        leval (assets_of (with_sv e SvWitnessV0) ke W) p = true.
    Proof.
      intros Hkh Hwf Hmw H32 Hc160 ssig items sb' Hc256 Hin Hv.
      destruct (verify_sh_inv _ _ _ Hv) as (ss & rb & st & _ & _ & Hh & Hm).
      rewrite (Hc160 rb Hh), (spk_wsh_eq e sb H32), (spk_is_p2wsh_intro _ H32) in Hm. destruct Hm as [_ Hw].
      exact (wsh_hides_no_path e ke Hks Hse W rl m t p Hkh Ht Hbb Hwf Hmw Hl items sb' Hc256 Hin Hw).
    Qed.

    (* P2SH (empty witness: a non-empty witness is only looked at when the redeem script is a witness
       program).  The elements the scriptSig pushes below the redeem script come from the world. *)
    Theorem sh_hides_no_path :
      kh_binds (with_sv e SvBase) ke W -> wf (with_sv e SvBase) ke m -> ms_wf Legacy ke m ->
      (forall rb, e_hash160 e rb = e_hash160 e sb -> rb = sb) ->
      forall ssig : bytes,
        (forall ss rb st, parse_script ssig = Some ss -> pushonly_stack ss [] = Some (rb :: st) -> incl st W) ->
        verify_sh e (e_hash160 e sb) ssig [] = true ->
        leval (assets_of (with_sv e SvBase) ke W) p = true.
    Proof.
      intros Hkh Hwf Hmw Hc160 ssig Hin Hv.
      destruct (verify_sh_inv _ _ _ Hv) as (ss & rb & st & Hp & Hst & Hh & Hm).
      specialize (Hin ss rb st Hp Hst). rewrite (Hc160 rb Hh) in Hm.
      destruct (spk_is_p2wsh sb); [destruct Hm as [_ Hm]; rewrite verify_wsh_nil in Hm; discriminate|].
      destruct (spk_is_p2wpkh sb); [destruct Hm as [_ Hm]; rewrite verify_wpkh_nil in Hm; discriminate|].
      destruct Hm as (_ & s & Hps & _ & Hacc).
      rewrite (parse_encode Legacy ke Hks m Hmw) in Hps. inversion Hps; subst s.
      exact (lift_hides_no_path (with_sv e SvBase) ke Hks Hse W rl m t p Hkh Ht Hbb Hwf Hl st Hin Hacc).
    Qed.

    (* bare *)
    Theorem bare_hides_no_path :
      kh_binds (with_sv e SvBase) ke W -> wf (with_sv e SvBase) ke m -> ms_wf Bare ke m ->
      forall (ssig : bytes) (witness : list bytes),
        (forall ss st, parse_script ssig = Some ss -> pushonly_stack ss [] = Some st -> incl st W) ->
        verify_bare e sb ssig witness = true ->
        leval (assets_of (with_sv e SvBase) ke W) p = true.
    Proof.
      intros Hkh Hwf Hmw ssig witness Hin Hv. unfold verify_bare in Hv. destruct witness; [|discriminate].
      rewrite (parse_encode Bare ke Hks m Hmw) in Hv. destruct (parse_script ssig) as [ss|]; [|discriminate].
      apply andb_prop in Hv. destruct Hv as [_ Hv].
      destruct (pushonly_stack ss []) as [st|] eqn:Est; [|discriminate].
      exact (lift_hides_no_path (with_sv e SvBase) ke Hks Hse W rl m t p Hkh Ht Hbb Hwf Hl st (Hin ss st eq_refl Est)
               (final_ok_accepts _ _ _ Hv)).
    Qed.

    (* P2TR script path: the witness ends with (leaf script, control block); [commit_ok] is the BIP341
       commitment oracle; that the committed script under this control block is THIS leaf is the
       binding hypothesis (one pair), the analogue of collision-freeness *)
    Theorem tr_hides_no_path (commit_ok : bytes -> bytes -> bool) (outkey : bytes) :
      kh_binds (with_sv e SvTapscript) ke W -> wf (with_sv e SvTapscript) ke m -> ms_wf Tap ke m ->
      forall (ssig : bytes) (items : list bytes) (sb' cb : bytes),
        (commit_ok sb' cb = true -> sb' = sb) -> incl items W ->
        verify_tr e outkey commit_ok ssig (items ++ [sb'; cb]) = true ->
        leval (assets_of (with_sv e SvTapscript) ke W) p = true.
    Proof.
      intros Hkh Hwf Hmw ssig items sb' cb Hbind Hin Hv. unfold verify_tr in Hv.
      destruct ssig; [|discriminate]. rewrite rev_app_distr in Hv. cbn [rev app] in Hv.
      assert (Hv' : commit_ok sb' cb && forallb (fun it => N.leb (blen it) 520) (rev items)
                    && N.leb (N.of_nat (length (rev items))) 1000
                    && match parse_script sb' with
                       | None => false
                       | Some s => final_ok (exec (with_sv e SvTapscript) s (mkSt (rev items) []))
                       end = true).
      { destruct (not_annex_dec cb) as [Hna|[r ->]]; [|discriminate Hv]. rewrite (annex_match cb _ _ Hna) in Hv. exact Hv. }
      apply andb_prop in Hv'. destruct Hv' as [Hv' Hx]. apply andb_prop in Hv'. destruct Hv' as [Hv' _].
      apply andb_prop in Hv'. destruct Hv' as [Hc _].
      rewrite (Hbind Hc), (parse_encode Tap ke Hks m Hmw) in Hx.
      apply (lift_hides_no_path (with_sv e SvTapscript) ke Hks Hse W rl m t p Hkh Ht Hbb Hwf Hl (rev items)).
      - intros x Hx'. apply Hin, in_rev, Hx'.
      - exact (final_ok_accepts _ _ _ Hx).
    Qed.

    (* ---- through the dispatcher ---- *)
    Theorem wsh_dispatch_hides (commit_ok : bytes -> bytes -> bool) :
      kh_binds (with_sv e SvWitnessV0) ke W -> wf (with_sv e SvWitnessV0) ke m -> ms_wf Segwitv0 ke m ->
      blen (e_sha256 e sb) = 32 ->
      forall (ssig : bytes) (items : list bytes) (sb' : bytes),
        (e_sha256 e sb' = e_sha256 e sb -> sb' = sb) -> incl items W ->
        verify_spend e commit_ok (spk_wsh e sb) ssig (items ++ [sb']) = true ->
        leval (assets_of (with_sv e SvWitnessV0) ke W) p = true.
    Proof.
      intros Hkh Hwf Hmw H32 ssig items sb' Hc Hin Hv. unfold verify_spend in Hv.
      rewrite (spk_wsh_eq e sb H32), (spk_is_p2wsh_intro _ H32) in Hv. destruct ssig; [|discriminate].
      exact (wsh_hides_no_path e ke Hks Hse W rl m t p Hkh Ht Hbb Hwf Hmw Hl items sb' Hc Hin Hv).
    Qed.

    Theorem shwsh_dispatch_hides (commit_ok : bytes -> bytes -> bool) :
      kh_binds (with_sv e SvWitnessV0) ke W -> wf (with_sv e SvWitnessV0) ke m -> ms_wf Segwitv0 ke m ->
      blen (e_sha256 e sb) = 32 -> blen (e_hash160 e (spk_wsh e sb)) = 20 ->
      (forall rb, e_hash160 e rb = e_hash160 e (spk_wsh e sb) -> rb = spk_wsh e sb) ->
      forall (ssig : bytes) (items : list bytes) (sb' : bytes),
        (e_sha256 e sb' = e_sha256 e sb -> sb' = sb) -> incl items W ->
        verify_spend e commit_ok (spk_shwsh e sb) ssig (items ++ [sb']) = true ->
        leval (assets_of (with_sv e SvWitnessV0) ke W) p = true.
    Proof.
      intros Hkh Hwf Hmw H32 H20 Hc160 ssig items sb' Hc Hin Hv. unfold spk_shwsh in Hv.
      rewrite (sh_dispatch_gen e commit_ok _ _ _ H20) in Hv.
      exact (shwsh_hides_no_path Hkh Hwf Hmw H32 Hc160 ssig items sb' Hc Hin Hv).
    Qed.

    Theorem sh_dispatch_hides (commit_ok : bytes -> bytes -> bool) :
      kh_binds (with_sv e SvBase) ke W -> wf (with_sv e SvBase) ke m -> ms_wf Legacy ke m ->
      blen (e_hash160 e sb) = 20 ->
      (forall rb, e_hash160 e rb = e_hash160 e sb -> rb = sb) ->
      forall ssig : bytes,
        (forall ss rb st, parse_script ssig = Some ss -> pushonly_stack ss [] = Some (rb :: st) -> incl st W) ->
        verify_spend e commit_ok (spk_sh e sb) ssig [] = true ->
        leval (assets_of (with_sv e SvBase) ke W) p = true.
    Proof.
      intros Hkh Hwf Hmw H20 Hc160 ssig Hin Hv. rewrite (sh_dispatch_gen e commit_ok _ _ _ H20) in Hv.
      exact (sh_hides_no_path Hkh Hwf Hmw Hc160 ssig Hin Hv).
    Qed.

    Theorem tr_dispatch_hides (commit_ok : bytes -> bytes -> bool) (outkey : bytes) :
      kh_binds (with_sv e SvTapscript) ke W -> wf (with_sv e SvTapscript) ke m -> ms_wf Tap ke m ->
      blen outkey = 32 ->
      forall (ssig : bytes) (items : list bytes) (sb' cb : bytes),
        (commit_ok sb' cb = true -> sb' = sb) -> incl items W ->
        verify_spend e commit_ok (spk_tr outkey) ssig (items ++ [sb'; cb]) = true ->
        leval (assets_of (with_sv e SvTapscript) ke W) p = true.
    Proof.
      intros Hkh Hwf Hmw H32 ssig items sb' cb Hbind Hin Hv. unfold verify_spend in Hv. rewrite (spk_tr_eq outkey H32) in Hv.
      change (spk_is_p2wsh (81 :: 32 :: outkey)) with (@None bytes) in Hv.
      change (spk_is_p2wpkh (81 :: 32 :: outkey)) with (@None bytes) in Hv.
      change (spk_is_p2sh (81 :: 32 :: outkey)) with (@None bytes) in Hv.
      rewrite (spk_is_p2tr_intro _ H32) in Hv.
      exact (tr_hides_no_path commit_ok outkey Hkh Hwf Hmw ssig items sb' cb Hbind Hin Hv).
    Qed.
  End Hides.
End Types.
