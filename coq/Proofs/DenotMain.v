(* Theorem B and Theorem A' in closed, readable form, and their combination:
   execution <=> relation. *)
From Verif Require Import Exec Ser Ast Types TypeCheck SatSpec ExecLemmas Spec TypesSpec ScriptNumProofs TheoremA.
From Verif Require Import FrameBase FrameSound SignedLemmas DenotSpec DenotLemmas DenotComplete DenotSound.
From Coq Require Import Lia.

(* ================= Theorem B ================= *)
Theorem theoremB (e : env) (ke : keyenv) (m : ms) (t : ty) :
  type_of m = ROk t -> wf e ke m ->
  forall st al r, exec e (enc ke m) (mkSt st al) = Ok r ->
  match c_base (t_corr t) with
  | BB => exists w rest v, st = w ++ rest /\ r = mkSt (v :: rest) al /\ R e ke m (truthy v) w v
  | BV => exists w rest, st = w ++ rest /\ r = mkSt rest al /\ R e ke m true w []
  | BK => exists c rest key, st = c ++ rest /\ r = mkSt (key :: rest) al /\
            forall s sg, ksig e s key sg -> R e ke m s (c ++ [sg]) key
  | BW => exists c0 w rest v (above : bool), st = c0 :: w ++ rest /\
            r = mkSt ((if above then [v; c0] else [c0; v]) ++ rest) al /\ R e ke m (truthy v) w v
  end.
Proof.
  intros Ht Hwf st al r H. pose proof (denot_sound_inv e ke m t Ht Hwf) as Hs. unfold snd_ in Hs.
  destruct (c_base (t_corr t)); exact (Hs st al r H).
Qed.

(* B: what is left says which of the two predicates holds *)
Theorem theoremB_B (e : env) (ke : keyenv) (m : ms) (t : ty) :
  type_of m = ROk t -> wf e ke m -> c_base (t_corr t) = BB ->
  forall st al r, exec e (enc ke m) (mkSt st al) = Ok r ->
  exists w rest v, st = w ++ rest /\ r = mkSt (v :: rest) al /\
    (truthy v = true -> Rsat e ke m w) /\ (truthy v = false -> Rdsat e ke m w).
Proof.
  intros Ht Hwf Hb st al r H. pose proof (theoremB e ke m t Ht Hwf st al r H) as HB. rewrite Hb in HB.
  destruct HB as [w [rest [v [H1 [H2 H3]]]]]. exists w, rest, v. split; [exact H1|]. split; [exact H2|].
  split; intros Hv; rewrite Hv in H3; exists v; exact H3.
Qed.

(* V: success is satisfaction *)
Theorem theoremB_V (e : env) (ke : keyenv) (m : ms) (t : ty) :
  type_of m = ROk t -> wf e ke m -> c_base (t_corr t) = BV ->
  forall st al r, exec e (enc ke m) (mkSt st al) = Ok r ->
  exists w rest, st = w ++ rest /\ r = mkSt rest al /\ Rsat e ke m w.
Proof.
  intros Ht Hwf Hb st al r H. pose proof (theoremB e ke m t Ht Hwf st al r H) as HB. rewrite Hb in HB.
  destruct HB as [w [rest [H1 [H2 H3]]]]. exists w, rest. split; [exact H1|]. split; [exact H2|]. exists []. exact H3.
Qed.

(* ================= Theorem A' ================= *)
Theorem theoremA' (e : env) (ke : keyenv) (m : ms) (t : ty) :
  type_of m = ROk t -> wf e ke m ->
  forall s w v, R e ke m s w v ->
  match c_base (t_corr t) with
  | BB => truthy v = s /\
          forall rest al, exec e (enc ke m) (mkSt (w ++ rest) al) = Ok (mkSt (v :: rest) al)
  | BV => s = true /\ v = [] /\
          forall rest al, exec e (enc ke m) (mkSt (w ++ rest) al) = Ok (mkSt rest al)
  | BK => exists c sg, w = c ++ [sg] /\ ksig e s v sg /\
          forall rest al, exec e (enc ke m) (mkSt (c ++ rest) al) = Ok (mkSt (v :: rest) al)
  | BW => truthy v = s /\ exists above : bool,
          forall c0 rest al, exec e (enc ke m) (mkSt (c0 :: w ++ rest) al)
                             = Ok (mkSt ((if above then [v; c0] else [c0; v]) ++ rest) al)
  end.
Proof.
  intros Ht Hwf s w v HR. pose proof (denot_complete_inv e ke m t Ht Hwf) as Hc. unfold dn_comp in Hc.
  destruct (c_base (t_corr t)).
  - destruct (Hc s w v HR) as [H1 H2]. split; [exact H1|]. intros rest al. exact (H2 rest al).
  - destruct (Hc s w v HR) as [c [sg [H1 [H2 H3]]]]. exists c, sg. split; [exact H1|]. split; [exact H2|].
    intros rest al. exact (H3 rest al).
  - destruct (Hc s w v HR) as [H1 [H2 H3]]. split; [exact H1|]. split; [exact H2|]. intros rest al. exact (H3 rest al).
  - destruct Hc as [sw Hc]. destruct (Hc s w v HR) as [H1 H2]. split; [exact H1|]. exists sw.
    intros c0 rest al. pose proof (H2 c0 rest al) as H. destruct sw; exact H.
Qed.

(* ================= execution <=> relation ================= *)
Theorem denot_exact_B (e : env) (ke : keyenv) (m : ms) (t : ty) :
  type_of m = ROk t -> wf e ke m -> c_base (t_corr t) = BB ->
  forall s w v, R e ke m s w v <->
    (truthy v = s /\ forall rest al, exec e (enc ke m) (mkSt (w ++ rest) al) = Ok (mkSt (v :: rest) al)).
Proof.
  intros Ht Hwf Hb s w v. split.
  - intros HR. pose proof (theoremA' e ke m t Ht Hwf s w v HR) as H. rewrite Hb in H. exact H.
  - intros [Hs Hx]. pose proof (theoremB e ke m t Ht Hwf _ _ _ (Hx [] [])) as H. rewrite Hb in H.
    destruct H as [w' [rest [v' [H1 [H2 H3]]]]]. inversion H2; subst v' rest. rewrite !app_nil_r in H1. subst w'.
    rewrite Hs in H3. exact H3.
Qed.

Theorem denot_exact_V (e : env) (ke : keyenv) (m : ms) (t : ty) :
  type_of m = ROk t -> wf e ke m -> c_base (t_corr t) = BV ->
  forall w, R e ke m true w [] <->
    (forall rest al, exec e (enc ke m) (mkSt (w ++ rest) al) = Ok (mkSt rest al)).
Proof.
  intros Ht Hwf Hb w. split.
  - intros HR. pose proof (theoremA' e ke m t Ht Hwf true w [] HR) as H. rewrite Hb in H. apply H.
  - intros Hx. pose proof (theoremB e ke m t Ht Hwf _ _ _ (Hx [] [])) as H. rewrite Hb in H.
    destruct H as [w' [rest [H1 [H2 H3]]]]. inversion H2; subst rest. rewrite !app_nil_r in H1. subst w'. exact H3.
Qed.

(* the script of a B fragment, run as a witness script (clean stack), accepts EXACTLY the
   witnesses of the relation *)
Theorem accepts_iff_Rsat (e : env) (ke : keyenv) (m : ms) (t : ty) :
  type_of m = ROk t -> wf e ke m -> c_base (t_corr t) = BB ->
  forall w, accepts e (enc ke m) w = true <-> Rsat e ke m w.
Proof.
  intros Ht Hwf Hb w. unfold accepts. split.
  - destruct (exec e (enc ke m) (mkSt w [])) as [r|] eqn:Hx; [|discriminate].
    pose proof (theoremB e ke m t Ht Hwf _ _ _ Hx) as H. rewrite Hb in H.
    destruct H as [w' [rest [v [H1 [-> H3]]]]]. cbn [stk]. destruct rest; [|discriminate].
    intros Hv. rewrite app_nil_r in H1. subst w'. rewrite Hv in H3. exists v. exact H3.
  - intros [v HR]. pose proof (theoremA' e ke m t Ht Hwf true w v HR) as H. rewrite Hb in H.
    destruct H as [Hv Hx]. specialize (Hx [] []). rewrite app_nil_r in Hx. rewrite Hx. cbn [stk]. exact Hv.
Qed.

(* a dissatisfaction is exactly an execution that leaves one false value on a clean stack *)
Theorem dissat_iff_Rdsat (e : env) (ke : keyenv) (m : ms) (t : ty) :
  type_of m = ROk t -> wf e ke m -> c_base (t_corr t) = BB ->
  forall w, (exists v, truthy v = false /\ exec e (enc ke m) (mkSt w []) = Ok (mkSt [v] [])) <-> Rdsat e ke m w.
Proof.
  intros Ht Hwf Hb w. split.
  - intros [v [Hv Hx]]. pose proof (theoremB e ke m t Ht Hwf _ _ _ Hx) as H. rewrite Hb in H.
    destruct H as [w' [rest [v' [H1 [H2 H3]]]]]. inversion H2; subst v' rest. rewrite app_nil_r in H1. subst w'.
    rewrite Hv in H3. exists v. exact H3.
  - intros [v HR]. pose proof (theoremA' e ke m t Ht Hwf false w v HR) as H. rewrite Hb in H.
    destruct H as [Hv Hx]. specialize (Hx [] []). rewrite app_nil_r in Hx. exists v. auto.
Qed.

(* a satisfaction and a dissatisfaction are different witnesses, and the value left is a function
   of the witness (the relation is functional) *)
Theorem R_functional (e : env) (ke : keyenv) (m : ms) (t : ty) :
  type_of m = ROk t -> wf e ke m -> c_base (t_corr t) = BB ->
  forall w s1 v1 s2 v2, R e ke m s1 w v1 -> R e ke m s2 w v2 -> s1 = s2 /\ v1 = v2.
Proof.
  intros Ht Hwf Hb w s1 v1 s2 v2 H1 H2.
  apply (denot_exact_B e ke m t Ht Hwf Hb) in H1. apply (denot_exact_B e ke m t Ht Hwf Hb) in H2.
  destruct H1 as [T1 X1], H2 as [T2 X2]. specialize (X1 [] []). specialize (X2 [] []). rewrite X1 in X2.
  inversion X2; subst. auto.
Qed.

(* execution <=> relation for K and W fragments *)
Theorem denot_exact_K (e : env) (ke : keyenv) (m : ms) (t : ty) :
  type_of m = ROk t -> wf e ke m -> c_base (t_corr t) = BK ->
  forall s w v, R e ke m s w v <->
    exists c sg, w = c ++ [sg] /\ ksig e s v sg /\
      forall rest al, exec e (enc ke m) (mkSt (c ++ rest) al) = Ok (mkSt (v :: rest) al).
Proof.
  intros Ht Hwf Hb s w v. split.
  - intros HR. pose proof (theoremA' e ke m t Ht Hwf s w v HR) as H. rewrite Hb in H. exact H.
  - intros [c [sg [-> [Hk Hx]]]]. pose proof (theoremB e ke m t Ht Hwf _ _ _ (Hx [] [])) as H. rewrite Hb in H.
    destruct H as [c' [rest [key [H1 [H2 H3]]]]]. inversion H2; subst key rest. rewrite !app_nil_r in H1. subst c'.
    apply H3, Hk.
Qed.

Theorem denot_exact_W (e : env) (ke : keyenv) (m : ms) (t : ty) :
  type_of m = ROk t -> wf e ke m -> c_base (t_corr t) = BW ->
  forall s w v, R e ke m s w v <->
    (truthy v = s /\ exists above : bool,
       forall c0 rest al, exec e (enc ke m) (mkSt (c0 :: w ++ rest) al)
                          = Ok (mkSt ((if above then [v; c0] else [c0; v]) ++ rest) al)).
Proof.
  intros Ht Hwf Hb s w v. split.
  - intros HR. pose proof (theoremA' e ke m t Ht Hwf s w v HR) as H. rewrite Hb in H. exact H.
  - intros [Hs [above Hx]]. pose proof (theoremB e ke m t Ht Hwf _ _ _ (Hx [] [] [])) as H. rewrite Hb in H.
    destruct H as [c0 [w' [rest [v' [above' [H1 [H2 H3]]]]]]]. inversion H1 as [[Hc Hw]]. subst c0.
    assert (E : rest = [] /\ v' = v).
    { destruct above, above'; cbn [app] in H2; inversion H2; subst; auto. }
    destruct E as [-> ->]. rewrite !app_nil_r in Hw. subst w'. rewrite Hs in H3. exact H3.
Qed.
