(* C01 at descriptor level: what the satisfier MODEL returns, packaged the way each output-type
   wrapper packages it (Ms/DescSpendModel.v), validates under Script/Spend.v:
     P2WSH (parse hypothesis discharged by C04), P2SH, P2SH-P2WSH, bare, P2TR script path,
   plus the key-only P2WPKH / P2SH-P2WPKH. *)
From Verif Require Import Exec Ser Spend Ast Types TypeCheck SatSpec Sat ExecLemmas TheoremA SatProofs.
From Verif Require Import CodecSpec SerProofs EncProofs DescSpendModel DescSpendPush.
From Coq Require Import Lia Permutation.
Local Open Scope N_scope.

Lemma ksort_ok_len ke : ksort_ok ke -> forall ks, length (ksort ke ks) = length ks.
Proof. intros H ks. apply Permutation_length. apply H. Qed.

Lemma leb_true a b : a <= b -> N.leb a b = true.
Proof. intros H. apply N.leb_le. exact H. Qed.

(* ---------------------------------------------------------------- shapes of scriptPubKeys *)
Ltac kill_match H :=
  repeat match type of H with
         | context [match ?p with _ => _ end] => is_var p; destruct p; try discriminate H
         end.

Lemma spk_is_p2wsh_inv spk p : spk_is_p2wsh spk = Some p -> spk = 0 :: 32 :: p /\ blen p = 32.
Proof.
  unfold spk_is_p2wsh. intros H. kill_match H.
  destruct (N.eqb_spec (blen spk) 32) as [E|E]; [|discriminate]. inversion H; subst. auto.
Qed.
Lemma spk_is_p2wpkh_inv spk p : spk_is_p2wpkh spk = Some p -> spk = 0 :: 20 :: p /\ blen p = 20.
Proof.
  unfold spk_is_p2wpkh. intros H. kill_match H.
  destruct (N.eqb_spec (blen spk) 20) as [E|E]; [|discriminate]. inversion H; subst. auto.
Qed.
Lemma spk_is_p2tr_inv spk p : spk_is_p2tr spk = Some p -> spk = 81 :: 32 :: p /\ blen p = 32.
Proof.
  unfold spk_is_p2tr. intros H. kill_match H.
  destruct (N.eqb_spec (blen spk) 32) as [E|E]; [|discriminate]. inversion H; subst. auto.
Qed.

Lemma spk_is_p2wsh_intro p : blen p = 32 -> spk_is_p2wsh (0 :: 32 :: p) = Some p.
Proof. intros H. cbn [spk_is_p2wsh]. rewrite H. reflexivity. Qed.
Lemma spk_is_p2wpkh_intro p : blen p = 20 -> spk_is_p2wpkh (0 :: 20 :: p) = Some p.
Proof. intros H. cbn [spk_is_p2wpkh]. rewrite H. reflexivity. Qed.
Lemma spk_is_p2tr_intro p : blen p = 32 -> spk_is_p2tr (81 :: 32 :: p) = Some p.
Proof. intros H. cbn [spk_is_p2tr]. rewrite H. reflexivity. Qed.
Lemma blen_rev (b : bytes) : blen (rev b) = blen b.
Proof. unfold blen. rewrite rev_length. reflexivity. Qed.
Lemma spk_is_p2sh_intro h : blen h = 20 -> spk_is_p2sh (169 :: 20 :: h ++ [135]) = Some h.
Proof.
  intros H. cbn [spk_is_p2sh]. rewrite rev_app_distr. cbn [rev app].
  rewrite blen_rev, H, rev_involutive. reflexivity.
Qed.

(* the builder forms of the C16 model are the standard templates when the hashes have their length *)
Lemma dblen_eq b : DescWrapModel.blen b = blen b.
Proof. reflexivity. Qed.
Lemma push_slice_short d : blen d <= 75 -> DescWrapModel.push_slice d = blen d :: d.
Proof.
  intros H. unfold DescWrapModel.push_slice, DescWrapModel.push_prefix. rewrite dblen_eq.
  replace (N.ltb (blen d) 76) with true by (symmetry; apply N.ltb_lt; lia). reflexivity.
Qed.
Lemma spk_wsh_eq e sb : blen (e_sha256 e sb) = 32 -> spk_wsh e sb = 0 :: 32 :: e_sha256 e sb.
Proof.
  intros H. unfold spk_wsh, DescWrapModel.to_p2wsh, DescWrapModel.new_witness_program.
  rewrite push_slice_short by lia. rewrite H. reflexivity.
Qed.
Lemma spk_wpkh_eq e k : blen (e_hash160 e k) = 20 -> spk_wpkh e k = 0 :: 20 :: e_hash160 e k.
Proof.
  intros H. unfold spk_wpkh, DescWrapModel.new_witness_program.
  rewrite push_slice_short by lia. rewrite H. reflexivity.
Qed.
Lemma spk_sh_eq e rb : blen (e_hash160 e rb) = 20 -> spk_sh e rb = 169 :: 20 :: e_hash160 e rb ++ [135].
Proof.
  intros H. unfold spk_sh, DescWrapModel.to_p2sh, DescWrapModel.new_p2sh.
  rewrite push_slice_short by lia. rewrite H. reflexivity.
Qed.
Lemma spk_tr_eq outkey : blen outkey = 32 -> spk_tr outkey = 81 :: 32 :: outkey.
Proof.
  intros H. unfold spk_tr, DescWrapModel.new_witness_program.
  rewrite push_slice_short by lia. rewrite H. reflexivity.
Qed.

Lemma blen_cons' x (b : bytes) : blen (x :: b) = blen b + 1.
Proof. unfold blen. cbn [length]. lia. Qed.

(* ---------------------------------------------------------------- witness-program shaped scripts are never accepted *)
Lemma ser_push_short d : blen d <= 75 -> ser_push d = blen d :: d.
Proof. intros H. unfold ser_push. rewrite leb_true by exact H. reflexivity. Qed.

Lemma wf_push_long d : 2 <= blen d -> wf_push d.
Proof. intros H. destruct d as [|x [|y r]]; cbn in *; try exact I. lia. Qed.

Lemma two_pushes_parse (v : bytes) (i : instr) (p : bytes) :
  (i = IPush [] /\ v = [0]) \/ (i = INum 1 /\ v = [81]) -> 2 <= blen p <= 75 ->
  parse_script (v ++ blen p :: p) = Some [i; IPush p].
Proof.
  intros Hi Hp.
  assert (Hs : serialize [i; IPush p] = v ++ blen p :: p).
  { cbn [serialize ser_instr]. rewrite ser_push_short by lia. rewrite app_nil_r.
    destruct Hi as [[-> ->] | [-> ->]]; reflexivity. }
  rewrite <- Hs. apply ser_parse. cbn [wf_script wf_instr]. split; [|split; [apply wf_push_long; lia | exact I]].
  destruct Hi as [[-> _] | [-> _]]; cbn [wf_instr]; [exact I | unfold wf_num; lia].
Qed.

Lemma two_pushes_rejected e' (i : instr) (p : bytes) st :
  i = IPush [] \/ i = INum 1 -> final_ok (exec e' [i; IPush p] (mkSt st [])) = false.
Proof. intros [-> | ->]; reflexivity. Qed.

(* a script that is accepted from some push-only stack does not have the form of a witness program
   or of a taproot output: those leave two elements *)
Lemma accepted_not_wprog e' s sb st : parse_script sb = Some s ->
  final_ok (exec e' s (mkSt st [])) = true ->
  spk_is_p2wsh sb = None /\ spk_is_p2wpkh sb = None /\ spk_is_p2tr sb = None.
Proof.
  intros Hp Hacc.
  assert (K : forall (v : bytes) (i : instr) (p : bytes), sb = v ++ blen p :: p -> (i = IPush [] /\ v = [0]) \/ (i = INum 1 /\ v = [81]) ->
              2 <= blen p <= 75 -> False).
  { intros v i p E Hi Hl. rewrite E, (two_pushes_parse v i p Hi Hl) in Hp. inversion Hp; subst s.
    rewrite two_pushes_rejected in Hacc; [discriminate | tauto]. }
  split; [|split].
  - destruct (spk_is_p2wsh sb) as [p|] eqn:E; [exfalso | reflexivity].
    apply spk_is_p2wsh_inv in E. destruct E as [E Hl].
    apply (K [0] (IPush []) p); [rewrite Hl; exact E | tauto | lia].
  - destruct (spk_is_p2wpkh sb) as [p|] eqn:E; [exfalso | reflexivity].
    apply spk_is_p2wpkh_inv in E. destruct E as [E Hl].
    apply (K [0] (IPush []) p); [rewrite Hl; exact E | tauto | lia].
  - destruct (spk_is_p2tr sb) as [p|] eqn:E; [exfalso | reflexivity].
    apply spk_is_p2tr_inv in E. destruct E as [E Hl].
    apply (K [81] (INum 1) p); [rewrite Hl; exact E | tauto | lia].
Qed.

(* the annex test of verify_tr *)
Lemma annex_match {X} (cb : bytes) (a b : X) : not_annex cb ->
  match cb with 80 :: _ => a | _ => b end = b.
Proof.
  unfold not_annex. intros H. destruct cb as [|c r]; [reflexivity|].
  repeat match goal with
         | |- context [match ?p with _ => _ end] => is_var p; destruct p; try reflexivity
         end.
  exfalso. exact H.
Qed.

(* ---------------------------------------------------------------- the satisfier model, any signature version *)
Section DescSpend.
  Variable e : env.
  Variable ke : keyenv.
  Variable A : assets.
  Variable se : senv.
  Variable f : fill.
  Hypothesis HL : linked ke A se f.
  Hypothesis Hks : ksort_ok ke.
  Hypothesis Hse : forall kbs, e_sigok e kbs [] = false.
  Variables mall rhs : bool.
  Variable m : ms.
  Variable t : ty.
  Hypothesis Ht : type_of m = ROk t.
  Hypothesis Hb : c_base (t_corr t) = BB.
  Hypothesis Hnm : no_multi m.
  Variable bs : list bytes.
  Hypothesis Hsat : satisfy ke se f mall rhs m = Some bs.

  Let sb := encode ke m.

  Lemma model_exec_ok sv : assets_ok (with_sv e sv) ke A -> wf (with_sv e sv) ke m ->
    final_ok (exec (with_sv e sv) (enc ke m) (mkSt (rev bs) [])) = true.
  Proof.
    intros HA Hwf.
    pose proof (model_satisfaction_spends (with_sv e sv) ke A se f HL (ksort_ok_len ke Hks) HA Hse
                  mall rhs m t Ht Hb Hwf Hnm bs Hsat) as Hacc.
    unfold accepts in Hacc. unfold final_ok.
    destruct (exec (with_sv e sv) (enc ke m) {| stk := rev bs; alt := [] |}) as [st|]; [|discriminate].
    exact Hacc.
  Qed.

  (* P2WSH, parse hypothesis discharged *)
  Theorem wsh_spends_v2 :
    assets_ok (with_sv e SvWitnessV0) ke A -> wf (with_sv e SvWitnessV0) ke m -> ms_wf Segwitv0 ke m ->
    blen sb <= 3600 -> N.of_nat (length bs) <= 100 -> forallb (fun it => N.leb (blen it) 80) (rev bs) = true ->
    count_nonpush_ops (enc ke m) <= 201 ->
    verify_wsh e (e_sha256 e sb) (bs ++ [sb]) = true.
  Proof.
    intros HA Hwf Hmw H1 H2 H3 H4.
    exact (model_wsh_spends e ke A se f HL (ksort_ok_len ke Hks) HA Hse mall rhs m t Ht Hb Hwf Hnm bs Hsat
             (parse_encode Segwitv0 ke Hks m Hmw) H1 H2 H3 H4).
  Qed.

  (* P2SH: scriptSig = witness_to_scriptsig (items ++ [redeem script]), no witness *)
  Theorem sh_spends :
    assets_ok (with_sv e SvBase) ke A -> wf (with_sv e SvBase) ke m -> ms_wf Legacy ke m ->
    Forall is_bytes bs -> is_bytes sb ->
    forall ss, witness_to_scriptsig (bs ++ [sb]) = Some ss ->
    blen (serialize ss) <= 1650 -> count_nonpush_ops (enc ke m) <= 201 ->
    verify_sh e (e_hash160 e sb) (serialize ss) [] = true.
  Proof.
    intros HA Hwf Hmw Hbs Hsb ss Hss H1 H2.
    assert (Hall : Forall is_bytes (bs ++ [sb])) by (apply Forall_app; split; [exact Hbs | constructor; [exact Hsb | constructor]]).
    destruct (scriptsig_parse_stack _ _ Hall Hss) as [Hp Hst].
    rewrite rev_app_distr in Hst. cbn [rev app] in Hst.
    pose proof (scriptsig_last_520 _ _ _ Hss) as H520.
    pose proof (parse_encode Legacy ke Hks m Hmw) as Hparse. fold sb in Hparse.
    pose proof (model_exec_ok SvBase HA Hwf) as Hex.
    destruct (accepted_not_wprog _ _ sb _ Hparse Hex) as [N1 [N2 _]].
    unfold verify_sh. rewrite Hp, Hst, (leb_true _ _ H1), bytes_eqb_refl, (leb_true _ _ H520), N1, N2, Hparse,
      (leb_true _ _ H2), Hex. reflexivity.
  Qed.

  (* P2SH-P2WSH: scriptSig = push of the witness program, witness = items ++ [script] *)
  Theorem shwsh_spends :
    assets_ok (with_sv e SvWitnessV0) ke A -> wf (with_sv e SvWitnessV0) ke m -> ms_wf Segwitv0 ke m ->
    blen (e_sha256 e sb) = 32 ->
    blen sb <= 3600 -> N.of_nat (length bs) <= 100 -> forallb (fun it => N.leb (blen it) 80) (rev bs) = true ->
    count_nonpush_ops (enc ke m) <= 201 ->
    verify_sh e (e_hash160 e (spk_wsh e sb)) (ssig_shwsh e sb) (bs ++ [sb]) = true.
  Proof.
    intros HA Hwf Hmw H32 H1 H2 H3 H4.
    pose proof (wsh_spends_v2 HA Hwf Hmw H1 H2 H3 H4) as Hw.
    unfold ssig_shwsh. rewrite (spk_wsh_eq e sb H32).
    set (prog := e_sha256 e sb) in *. set (rb := 0 :: 32 :: prog).
    assert (Hrb : blen rb = 34) by (unfold rb; rewrite !blen_cons'; lia).
    rewrite push_slice_short by lia. rewrite Hrb.
    assert (Hs : 34 :: rb = serialize [IPush rb]).
    { cbn [serialize ser_instr]. rewrite ser_push_short by lia. rewrite Hrb, app_nil_r. reflexivity. }
    unfold verify_sh. rewrite Hs, ser_parse by (cbn [wf_script wf_instr]; split; [apply wf_push_long; lia | exact I]).
    rewrite <- Hs. cbn [pushonly_stack].
    replace (N.leb (blen (34 :: rb)) 1650) with true by (symmetry; apply N.leb_le; rewrite blen_cons'; lia).
    rewrite bytes_eqb_refl. replace (N.leb (blen rb) 520) with true by (symmetry; apply N.leb_le; lia).
    unfold rb at 1. rewrite (spk_is_p2wsh_intro prog H32). exact Hw.
  Qed.

  (* bare: scriptPubKey = the script, scriptSig = witness_to_scriptsig items *)
  Theorem bare_spends :
    assets_ok (with_sv e SvBase) ke A -> wf (with_sv e SvBase) ke m -> ms_wf Bare ke m ->
    Forall is_bytes bs ->
    forall ss, witness_to_scriptsig bs = Some ss ->
    blen (serialize ss) <= 1650 -> blen sb <= 10000 -> count_nonpush_ops (enc ke m) <= 201 ->
    verify_bare e sb (serialize ss) [] = true.
  Proof.
    intros HA Hwf Hmw Hbs ss Hss H1 H2 H3.
    destruct (scriptsig_parse_stack _ _ Hbs Hss) as [Hp Hst].
    pose proof (parse_encode Bare ke Hks m Hmw) as Hparse. fold sb in Hparse.
    pose proof (model_exec_ok SvBase HA Hwf) as Hex.
    unfold verify_bare. rewrite Hp, Hparse, (leb_true _ _ H1), (leb_true _ _ H2), (leb_true _ _ H3), Hst, Hex.
    reflexivity.
  Qed.

  (* P2TR script path: witness = items ++ [leaf script; control block]; the commitment of the
     control block to the output key is the oracle commit_ok (BIP341; C15) *)
  Theorem tr_spends (commit_ok : bytes -> bytes -> bool) (outkey cb : bytes) :
    assets_ok (with_sv e SvTapscript) ke A -> wf (with_sv e SvTapscript) ke m -> ms_wf Tap ke m ->
    commit_ok sb cb = true -> not_annex cb ->
    N.of_nat (length bs) <= 1000 -> forallb (fun it => N.leb (blen it) 520) (rev bs) = true ->
    verify_tr e outkey commit_ok [] (bs ++ [sb; cb]) = true.
  Proof.
    intros HA Hwf Hmw Hc Hna H1 H2.
    pose proof (parse_encode Tap ke Hks m Hmw) as Hparse. fold sb in Hparse.
    pose proof (model_exec_ok SvTapscript HA Hwf) as Hex.
    unfold verify_tr. rewrite rev_app_distr. cbn [rev app].
    rewrite (annex_match cb _ _ Hna), Hc, H2, rev_length, (leb_true _ _ H1), Hparse, Hex. reflexivity.
  Qed.

  (* ------------------------------------------------------------ dispatcher level *)
  Theorem wsh_dispatch commit_ok :
    assets_ok (with_sv e SvWitnessV0) ke A -> wf (with_sv e SvWitnessV0) ke m -> ms_wf Segwitv0 ke m ->
    blen (e_sha256 e sb) = 32 ->
    blen sb <= 3600 -> N.of_nat (length bs) <= 100 -> forallb (fun it => N.leb (blen it) 80) (rev bs) = true ->
    count_nonpush_ops (enc ke m) <= 201 ->
    verify_spend e commit_ok (spk_wsh e sb) [] (bs ++ [sb]) = true.
  Proof.
    intros HA Hwf Hmw H32 H1 H2 H3 H4. unfold verify_spend.
    rewrite (spk_wsh_eq e sb H32), (spk_is_p2wsh_intro _ H32). exact (wsh_spends_v2 HA Hwf Hmw H1 H2 H3 H4).
  Qed.

  Lemma sh_dispatch_gen commit_ok rb ssig wit : blen (e_hash160 e rb) = 20 ->
    verify_spend e commit_ok (spk_sh e rb) ssig wit = verify_sh e (e_hash160 e rb) ssig wit.
  Proof.
    intros H20. unfold verify_spend. rewrite (spk_sh_eq e rb H20).
    change (spk_is_p2wsh (169 :: 20 :: e_hash160 e rb ++ [135])) with (@None bytes).
    change (spk_is_p2wpkh (169 :: 20 :: e_hash160 e rb ++ [135])) with (@None bytes).
    rewrite (spk_is_p2sh_intro _ H20). reflexivity.
  Qed.

  Theorem sh_dispatch commit_ok :
    assets_ok (with_sv e SvBase) ke A -> wf (with_sv e SvBase) ke m -> ms_wf Legacy ke m ->
    blen (e_hash160 e sb) = 20 ->
    Forall is_bytes bs -> is_bytes sb ->
    forall ss, witness_to_scriptsig (bs ++ [sb]) = Some ss ->
    blen (serialize ss) <= 1650 -> count_nonpush_ops (enc ke m) <= 201 ->
    verify_spend e commit_ok (spk_sh e sb) (serialize ss) [] = true.
  Proof.
    intros HA Hwf Hmw H20 Hbs Hsb ss Hss H1 H2. rewrite (sh_dispatch_gen _ _ _ _ H20).
    exact (sh_spends HA Hwf Hmw Hbs Hsb ss Hss H1 H2).
  Qed.

  Theorem shwsh_dispatch commit_ok :
    assets_ok (with_sv e SvWitnessV0) ke A -> wf (with_sv e SvWitnessV0) ke m -> ms_wf Segwitv0 ke m ->
    blen (e_sha256 e sb) = 32 -> blen (e_hash160 e (spk_wsh e sb)) = 20 ->
    blen sb <= 3600 -> N.of_nat (length bs) <= 100 -> forallb (fun it => N.leb (blen it) 80) (rev bs) = true ->
    count_nonpush_ops (enc ke m) <= 201 ->
    verify_spend e commit_ok (spk_shwsh e sb) (ssig_shwsh e sb) (bs ++ [sb]) = true.
  Proof.
    intros HA Hwf Hmw H32 H20 H1 H2 H3 H4. unfold spk_shwsh. rewrite (sh_dispatch_gen _ _ _ _ H20).
    exact (shwsh_spends HA Hwf Hmw H32 H1 H2 H3 H4).
  Qed.

  Theorem tr_dispatch (commit_ok : bytes -> bytes -> bool) (outkey cb : bytes) :
    assets_ok (with_sv e SvTapscript) ke A -> wf (with_sv e SvTapscript) ke m -> ms_wf Tap ke m ->
    blen outkey = 32 ->
    commit_ok sb cb = true -> not_annex cb ->
    N.of_nat (length bs) <= 1000 -> forallb (fun it => N.leb (blen it) 520) (rev bs) = true ->
    verify_spend e commit_ok (spk_tr outkey) [] (bs ++ [sb; cb]) = true.
  Proof.
    intros HA Hwf Hmw H32 Hc Hna H1 H2. unfold verify_spend. rewrite (spk_tr_eq outkey H32).
    change (spk_is_p2wsh (81 :: 32 :: outkey)) with (@None bytes).
    change (spk_is_p2wpkh (81 :: 32 :: outkey)) with (@None bytes).
    change (spk_is_p2sh (81 :: 32 :: outkey)) with (@None bytes).
    rewrite (spk_is_p2tr_intro _ H32). exact (tr_spends commit_ok outkey cb HA Hwf Hmw Hc Hna H1 H2).
  Qed.
End DescSpend.

(* ---------------------------------------------------------------- key-only output types *)
Lemma p2pkh_exec e k sg st : e_keyok e k = true -> e_sigok e k sg = true -> sg <> [] ->
  exec e [IOp OP_DUP; IOp OP_HASH160; IPush (e_hash160 e k); IOp OP_EQUALVERIFY; IOp OP_CHECKSIG]
       (mkSt (k :: sg :: st) []) = Ok (mkSt ([1] :: st) []).
Proof.
  intros Hk Hs Hne. cbn [exec exec_instr exec_op bind stk alt]. rewrite bytes_eqb_refl.
  cbn [bind exec exec_instr exec_op stk alt]. rewrite Hk. cbn [negb].
  destruct sg as [|x r]; [congruence|]. rewrite Hs. reflexivity.
Qed.

Theorem wpkh_spends e k sg : blen k = 33 ->
  e_keyok (with_sv e SvWitnessV0) k = true -> e_sigok e k sg = true -> sg <> [] ->
  verify_wpkh e (e_hash160 e k) [sg; k] = true.
Proof.
  intros H33 Hk Hs Hne. unfold verify_wpkh. rewrite H33. cbn [N.eqb Pos.eqb andb].
  change (e_hash160 e k) with (e_hash160 (with_sv e SvWitnessV0) k).
  rewrite p2pkh_exec; [reflexivity | exact Hk | exact Hs | exact Hne].
Qed.

Theorem wpkh_dispatch e commit_ok k sg : blen k = 33 -> blen (e_hash160 e k) = 20 ->
  e_keyok (with_sv e SvWitnessV0) k = true -> e_sigok e k sg = true -> sg <> [] ->
  verify_spend e commit_ok (spk_wpkh e k) [] [sg; k] = true.
Proof.
  intros H33 H20 Hk Hs Hne. unfold verify_spend. rewrite (spk_wpkh_eq e k H20).
  change (spk_is_p2wsh (0 :: 20 :: e_hash160 e k)) with (@None bytes).
  rewrite (spk_is_p2wpkh_intro _ H20). exact (wpkh_spends e k sg H33 Hk Hs Hne).
Qed.

Theorem shwpkh_spends e k sg : blen k = 33 -> blen (e_hash160 e k) = 20 ->
  e_keyok (with_sv e SvWitnessV0) k = true -> e_sigok e k sg = true -> sg <> [] ->
  verify_sh e (e_hash160 e (spk_wpkh e k)) (ssig_shwpkh e k) [sg; k] = true.
Proof.
  intros H33 H20 Hk Hs Hne. unfold ssig_shwpkh. rewrite (spk_wpkh_eq e k H20).
  set (prog := e_hash160 e k) in *. set (rb := 0 :: 20 :: prog).
  assert (Hrb : blen rb = 22) by (unfold rb; rewrite !blen_cons'; lia).
  rewrite push_slice_short by lia. rewrite Hrb.
  assert (Hser : 22 :: rb = serialize [IPush rb]).
  { cbn [serialize ser_instr]. rewrite ser_push_short by lia. rewrite Hrb, app_nil_r. reflexivity. }
  unfold verify_sh. rewrite Hser, ser_parse by (cbn [wf_script wf_instr]; split; [apply wf_push_long; lia | exact I]).
  rewrite <- Hser. cbn [pushonly_stack].
  replace (N.leb (blen (22 :: rb)) 1650) with true by (symmetry; apply N.leb_le; rewrite blen_cons'; lia).
  rewrite bytes_eqb_refl. replace (N.leb (blen rb) 520) with true by (symmetry; apply N.leb_le; lia).
  change (spk_is_p2wsh rb) with (@None bytes). unfold rb at 1. rewrite (spk_is_p2wpkh_intro prog H20).
  exact (wpkh_spends e k sg H33 Hk Hs Hne).
Qed.

Theorem shwpkh_dispatch e commit_ok k sg : blen k = 33 -> blen (e_hash160 e k) = 20 ->
  blen (e_hash160 e (spk_wpkh e k)) = 20 ->
  e_keyok (with_sv e SvWitnessV0) k = true -> e_sigok e k sg = true -> sg <> [] ->
  verify_spend e commit_ok (spk_shwpkh e k) (ssig_shwpkh e k) [sg; k] = true.
Proof.
  intros H33 H20 H20' Hk Hs Hne. unfold spk_shwpkh. rewrite (sh_dispatch_gen e commit_ok _ _ _ H20').
  exact (shwpkh_spends e k sg H33 H20 Hk Hs Hne).
Qed.
