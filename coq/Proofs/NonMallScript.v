(* C03 at SCRIPT level (U3): the uniqueness invariant of NonMallUnique.v redone over the exact
   denotational relation R (Ms/DenotSpec.v, Theorem B) instead of the specification table.

   The third party is now described by the witness it presents: [okw w] says that every element of
   [w] that is a non-empty signature accepted under a key of the script is the honest party's
   signature for that key AND is visible (its placeholder occurs in the published template [vl]).
   Everything else in [w] is arbitrary (junk, keys, 32-byte strings, numbers).

   Sets of witnesses are predicates [wit -> Prop].  [JS K c T]: for the component [c] the honest
   model returns (keys K) and the set T of third-party witnesses:
     js_ios : c Impossible-or-has_sig -> no visible signature for K -> T is empty among okw-witnesses
     js_stk : c = Stack l (bytes bs) -> the visible signatures for K all occur in l -> every okw-witness
              in T equals rev bs.
   Differences with the table-level invariant (they are exactly the non-canonical clauses of R):
     * "Impossible" is only claimed against a third party that sees no signature of the fragment (an
       and_b whose right side cannot be dissatisfied CAN be dissatisfied by (dsat X, sat Y));
     * dissatisfactions are governed by the STATIC type: f (Dissat::None) -> none without a signature
       of the fragment; e (Dissat::Unique) -> exactly the model's; Unknown -> nothing is claimed
       (hashes: any 32-byte non-preimage; j:pk_h; ...);
     * or_b also accepts "both sides satisfied", and_b / andor / thresh / multi_a / j: have extra
       dissatisfactions: each is shown dead from s / f of the operands.
   Environment hypotheses: MINIMALIF (segwit v0 / tapscript: selectors of or_i / d: are exactly 01 / empty),
   the honest party's lock view is the environment's, no second preimage of a hash the honest party can
   open, no second key with the hash160 of a pk_h key. *)
From Verif Require Import Exec Ser Ast Types TypeCheck SatSpec Sat ExecLemmas TheoremA SatProofs
  CompleteProofs CompleteThresh CompleteNonMall HasSigProofs SignedLemmas DenotSpec DenotLemmas DenotTable
  NonMallUnique NonMallUniqueThresh NonMallUniqueMulti NonMallUniqueMain.
From Coq Require Import Lia Permutation.

Definition hfun (e : env) (kd : hkind) : bytes -> bytes :=
  match kd with HSha256 => e_sha256 e | HHash256 => e_hash256 e | HRipemd160 => e_ripemd160 e | HHash160 => e_hash160 e end.

(* sets of witnesses *)
Definition wset := wit -> Prop.
Definition sprod (Ta Tb : wset) : wset := fun w => exists wa wb, w = wa ++ wb /\ Ta wa /\ Tb wb.
Definition sunion (Ta Tb : wset) : wset := fun w => Ta w \/ Tb w.
Definition spush (v : bytes) (T : wset) : wset := fun w => exists w0, w = v :: w0 /\ T w0.
Definition sempty : wset := fun _ => False.
Definition ssingle (x : wit) : wset := fun w => w = x.

Lemma clean_not_ios c : clean c -> ios c -> False.
Proof. intros [Hs [Hg _]] [Hi|Hi]; [destruct (s_stack c); discriminate | congruence]. Qed.

(* lock values in the range the constructors allow (AbsLockTime / RelLockTime: 1 .. 2^31-1) *)
Fixpoint lwf (m : ms) : Prop :=
  match m with
  | MAfter t | MOlder t => (0 < t < 2147483648)%N
  | MAlt x | MSwap x | MCheck x | MDupIf x | MVerify x | MNonZero x | MZeroNotEqual x => lwf x
  | MAndV x y | MAndB x y | MOrB x y | MOrD x y | MOrC x y | MOrI x y => lwf x /\ lwf y
  | MAndOr a b c => lwf a /\ lwf b /\ lwf c
  | MThresh _ xs => (fix go (l : list ms) : Prop := match l with [] => True | x :: r => lwf x /\ go r end) xs
  | _ => True
  end.

(* selectors of d: / or_i are exactly 01 / empty only under MINIMALIF (segwit v0, tapscript); under the base
   signature version any true / false value selects, so these two fragments are malleable there (the library's
   Legacy / Bare contexts reject them: MalleableDupIf, MalleableOrI) *)
Fixpoint ifsafe (mi : bool) (m : ms) : Prop :=
  match m with
  | MDupIf x => mi = true /\ ifsafe mi x
  | MOrI x y => mi = true /\ ifsafe mi x /\ ifsafe mi y
  | MAlt x | MSwap x | MCheck x | MVerify x | MNonZero x | MZeroNotEqual x => ifsafe mi x
  | MAndV x y | MAndB x y | MOrB x y | MOrD x y | MOrC x y => ifsafe mi x /\ ifsafe mi y
  | MAndOr a b c => ifsafe mi a /\ ifsafe mi b /\ ifsafe mi c
  | MThresh _ xs => (fix go (l : list ms) : Prop := match l with [] => True | x :: r => ifsafe mi x /\ go r end) xs
  | _ => True
  end.
Lemma ifsafe_true : forall m, ifsafe true m.
Proof.
  induction m using ms_ind'; cbn [ifsafe]; try tauto. induction H as [|x r Hx Hr IH]; [exact I | split; assumption].
Qed.

Section Script.
  Variable e : env.
  Variable ke : keyenv.
  Variable A : assets.
  Variable se : senv.
  Variable f : fill.
  Hypothesis L : linked ke A se f.
  Hypothesis Habs_unit : forall t1 t2, se_after se t1 = true -> se_after se t2 = true ->
    Bool.eqb (N.ltb t1 500000000) (N.ltb t2 500000000) = true.
  Hypothesis Hrel_unit : forall t1 t2, se_older se t1 = true -> se_older se t2 = true ->
    Bool.eqb (rel_is_time t1) (rel_is_time t2) = true.
  (* environment *)
  (* the honest party's lock view is the environment's, for lock values in range *)
  Hypothesis Hlock_a : forall t, (0 < t < 2147483648)%N -> a_after A t = check_locktime e (Z.of_N t).
  Hypothesis Hlock_o : forall t, (0 < t < 2147483648)%N -> a_older A t = check_sequence e (Z.of_N t).
  Hypothesis Hpre : forall kd h p x, look A kd h = Some p -> blen x = 32%N -> hfun e kd x = h -> x = p.
  Variable Ktop : list key.
  Hypothesis Hpkh : forall k key, In k Ktop -> e_keyok e key = true -> e_hash160 e key = kh ke k -> key = kb ke k.
  (* the published template (which signatures are visible) *)
  Variable vl : list ph.

  Definition okw (w : wit) : Prop :=
    forall k x, In k Ktop -> In x w -> x <> [] -> e_sigok e (kb ke k) x = true ->
      a_sig A k = Some x /\ In (PhSig k) vl.
  Definition novis (K : list key) : Prop := forall k, In k K -> ~ In (PhSig k) vl.
  Definition vis_in (K : list key) (l : list ph) : Prop := forall k, In k K -> In (PhSig k) vl -> In (PhSig k) l.

  Lemma okw_app a b : okw (a ++ b) -> okw a /\ okw b.
  Proof. intros H. split; intros k x Hk Hx; apply (H k x Hk); apply in_or_app; auto. Qed.
  Lemma okw_tl x w : okw (x :: w) -> okw w.
  Proof. intros H k y Hk Hy. apply (H k y Hk). right. exact Hy. Qed.
  Lemma okw_nil : okw [].
  Proof. intros k x _ []. Qed.
  Lemma novis_incl K K' : incl K' K -> novis K -> novis K'.
  Proof. intros Hi H k Hk. apply H, Hi, Hk. Qed.
  Lemma vis_in_incl K K' l : incl K' K -> vis_in K l -> vis_in K' l.
  Proof. intros Hi H k Hk. apply H, Hi, Hk. Qed.
  Lemma vis_nosig_novis K l : vis_in K l -> Forall nosig l -> novis K.
  Proof. intros Hv Hn k Hk Hin. rewrite Forall_forall in Hn. exact (Hn _ (Hv k Hk Hin)). Qed.
  Lemma vis_disj_novis K K1 K2 l : vis_in K l -> (forall k, In (PhSig k) l -> In k K1) -> disj K1 K2 -> incl K2 K -> novis K2.
  Proof. intros Hv Hl Hd Hi k Hk Hin. exact (Hd k (Hl k (Hv k (Hi k Hk) Hin)) Hk). Qed.
  Lemma incl_app_left (K1 K2 : list key) : incl K1 (K1 ++ K2).
  Proof. intros k Hk. apply in_or_app. left. exact Hk. Qed.
  Lemma incl_app_right (K1 K2 : list key) : incl K2 (K1 ++ K2).
  Proof. intros k Hk. apply in_or_app. right. exact Hk. Qed.

  Lemma mif v b : minimalif (e_sv e) = true -> if_cond e v = Some b -> v = bool_bytes b.
  Proof.
    intros HMIF. unfold if_cond. rewrite HMIF. destruct v as [|x r]; [intros H; inversion H; reflexivity|].
    destruct x as [|p]; try discriminate. destruct p; try discriminate. destruct r; try discriminate.
    intros H. inversion H. reflexivity.
  Qed.

  (* ---------- structural facts about a component ---------- *)
  Definition cok (K : list key) (c : satn) : Prop :=
    held se c /\ P c /\ forall l k, s_stack c = WStack l -> In (PhSig k) l -> In k K.
  Lemma cok_of_J K c T : J A se f K c T -> cok K c.
  Proof. intros H. split; [apply H|]. split; [apply H|]. apply H. Qed.
  Lemma cok_weaken K K' c : incl K K' -> cok K c -> cok K' c.
  Proof. intros Hi [H1 [H2 H3]]. split; [exact H1|]. split; [exact H2|]. intros l k Hl Hk. apply Hi. exact (H3 l k Hl Hk). Qed.
  Lemma cok_concat Ka Kb a b : cok Ka a -> cok Kb b -> cok (Ka ++ Kb) (concatenate_rev a b).
  Proof.
    intros [Ha1 [Ha2 Ha3]] [Hb1 [Hb2 Hb3]]. split; [apply concat_held; assumption|]. split; [apply P_concat; assumption|].
    intros l k Hs Hin. apply concat_stack in Hs. destruct Hs as [la [lb [Ea [Eb ->]]]].
    apply in_or_app. apply in_app_or in Hin. destruct Hin as [Hin|Hin]; [right; exact (Hb3 lb k Eb Hin) | left; exact (Ha3 la k Ea Hin)].
  Qed.
  Lemma cok_push K c p : nosig p -> cok K c -> cok K (pushed c p).
  Proof.
    intros Hp [H1 [H2 H3]]. unfold pushed. split; [destruct H1; split; assumption|]. split; [apply P_with_stack; assumption|].
    intros l k Hl Hk. cbn [with_stack s_stack] in Hl. destruct (s_stack c) as [lc| |] eqn:Ec; cbn in Hl; try discriminate. inversion Hl; subst.
    apply in_app_or in Hk. destruct Hk as [Hk|[Hk|[]]]; [exact (H3 lc k eq_refl Hk)|]. subst p. destruct Hp.
  Qed.
  Lemma cok_clean_keys K c l k : cok K c -> clean c -> s_stack c = WStack l -> In (PhSig k) l -> False.
  Proof.
    intros [_ [Hp _]] Cl Hl Hin. pose proof (clean_nosig_stack c l Cl Hp Hl) as Hn. rewrite Forall_forall in Hn. exact (Hn _ Hin).
  Qed.

  Lemma ios_concat_inv a b : held se a -> held se b -> ios (concatenate_rev a b) -> ios a \/ ios b.
  Proof.
    intros Ha Hb [Hi|Hs].
    - destruct (concat_imp_inv se Habs_unit Hrel_unit a b Ha Hb Hi) as [H|H]; [left; left; exact H | right; left; exact H].
    - destruct (concat_sig_inv a b Hs) as [H|H]; [left; right; exact H | right; right; exact H].
  Qed.
  Lemma ios_min_inv a b : ios (minimum se a b) -> ios a /\ ios b.
  Proof.
    unfold minimum, ios. destruct (is_imp (s_stack a)) eqn:Ia; [intros H; split; [left; reflexivity | exact H]|].
    destruct (is_imp (s_stack b)) eqn:Ib; [intros H; split; [rewrite Ia in H; exact H | left; reflexivity]|].
    destruct (s_has_sig a) eqn:Sa, (s_has_sig b) eqn:Sb; try (destruct (wit_lt se (s_stack a) (s_stack b))); cbn [s_stack s_has_sig UNAVAILABLE is_imp];
      intros [H|H]; try congruence; split; right; reflexivity.
  Qed.
  Lemma min_stack_cases a b l : s_stack (minimum se a b) = WStack l ->
    (s_stack a = WStack l /\ ios b) \/ (s_stack b = WStack l /\ ios a).
  Proof.
    unfold minimum, ios. destruct (is_imp (s_stack a)) eqn:Ia; [intros H; right; split; [exact H | left; reflexivity]|].
    destruct (is_imp (s_stack b)) eqn:Ib; [intros H; left; split; [exact H | left; reflexivity]|].
    destruct (s_has_sig a) eqn:Sa, (s_has_sig b) eqn:Sb; try (destruct (wit_lt se (s_stack a) (s_stack b))); cbn [s_stack UNAVAILABLE];
      intros H; try discriminate; first [left; split; [exact H | right; reflexivity] | right; split; [exact H | right; reflexivity]].
  Qed.
  Lemma min_clean_l a b : clean a -> ios b -> minimum se a b = a.
  Proof.
    intros Ca Hb. pose proof (clean_nimp a Ca) as Na. unfold nimp in Na. destruct Ca as [_ [Ga _]].
    unfold minimum. rewrite Na. destruct (is_imp (s_stack b)) eqn:Ib; [reflexivity|].
    destruct Hb as [Hb|Hb]; [congruence|]. rewrite Ga, Hb. destruct a; cbn in *; subst; reflexivity.
  Qed.
  Lemma min_clean_r a b : ios a -> clean b -> minimum se a b = b.
  Proof.
    intros Ha Cb. pose proof (clean_nimp b Cb) as Nb. unfold nimp in Nb. destruct Cb as [_ [Gb _]].
    unfold minimum. destruct (is_imp (s_stack a)) eqn:Ia; [reflexivity|]. rewrite Nb.
    destruct Ha as [Ha|Ha]; [congruence|]. rewrite Ha, Gb. destruct b; cbn in *; subst; reflexivity.
  Qed.

  (* ---------- the invariant on one component ---------- *)
  Record JS (K : list key) (c : satn) (T : wset) : Prop := mkJS {
    js_ios : ios c -> novis K -> forall w, okw w -> T w -> False;
    js_stk : forall l bs, s_stack c = WStack l -> fill_all f l = Some bs -> vis_in K l ->
             forall w, okw w -> T w -> w = rev bs
  }.

  Lemma JS_sub K c (T T' : wset) : (forall w, T' w -> T w) -> JS K c T -> JS K c T'.
  Proof.
    intros Hs H. constructor.
    - intros Hi Hn w Hw Ht. exact (js_ios _ _ _ H Hi Hn w Hw (Hs w Ht)).
    - intros l bs Hl Hf Hv w Hw Ht. exact (js_stk _ _ _ H l bs Hl Hf Hv w Hw (Hs w Ht)).
  Qed.
  Lemma JS_weaken K K' c T : incl K K' -> JS K c T -> JS K' c T.
  Proof.
    intros Hi H. constructor.
    - intros Hc Hn. exact (js_ios _ _ _ H Hc (novis_incl K' K Hi Hn)).
    - intros l bs Hl Hf Hv. exact (js_stk _ _ _ H l bs Hl Hf (vis_in_incl K' K l Hi Hv)).
  Qed.
  Lemma JS_nospeak K c T : (ios c -> False) -> (forall l, s_stack c <> WStack l) -> JS K c T.
  Proof. intros H1 H2. constructor; [intros Hi; destruct (H1 Hi) | intros l bs Hl; destruct (H2 l Hl)]. Qed.
  Lemma JS_unavail K T : JS K UNAVAILABLE T.
  Proof. apply JS_nospeak; [intros [H|H]; discriminate | discriminate]. Qed.
  Lemma JS_empty K c : JS K c sempty.
  Proof. constructor; [intros _ _ w _ [] | intros l bs _ _ _ w _ []]. Qed.
  (* a constant signature-free, lock-free stack *)
  Lemma JS_const K l bs (T : wset) : fill_all f l = Some bs -> (forall w, T w -> w = rev bs) ->
    JS K (mkSat (WStack l) false None None) T.
  Proof.
    intros Hf H. constructor.
    - intros [Hi|Hi]; discriminate.
    - intros l' bs' Hl Hf' _ w _ Ht. cbn in Hl. inversion Hl; subst. rewrite Hf in Hf'. inversion Hf'; subst. exact (H w Ht).
  Qed.
  (* for a clean component the invariant only speaks to a third party that sees no signature of K:
     any set that is dead for such a party can be added *)
  Lemma JS_clean_dead K c (T1 T2 : wset) : cok K c -> clean c -> JS K c T1 ->
    (novis K -> forall w, okw w -> T2 w -> False) -> JS K c (sunion T1 T2).
  Proof.
    intros Hc Cl H Hd. constructor.
    - intros Hi. destruct (clean_not_ios c Cl Hi).
    - intros l bs Hl Hf Hv w Hw [Ht|Ht]; [exact (js_stk _ _ _ H l bs Hl Hf Hv w Hw Ht)|].
      exfalso. apply (Hd (vis_nosig_novis K l Hv (clean_nosig_stack c l Cl (proj1 (proj2 Hc)) Hl)) w Hw Ht).
  Qed.

  Lemma JS_concat Ka Kb a b Ta Tb : disj Ka Kb -> cok Ka a -> cok Kb b -> JS Ka a Ta -> JS Kb b Tb ->
    JS (Ka ++ Kb) (concatenate_rev a b) (sprod Ta Tb).
  Proof.
    intros Hd Ca Cb Ha Hb. constructor.
    - intros Hi Hn w Hw [wa [wb [-> [Hta Htb]]]]. destruct (okw_app _ _ Hw) as [Hwa Hwb].
      destruct (ios_concat_inv a b (proj1 Ca) (proj1 Cb) Hi) as [H|H].
      + exact (js_ios _ _ _ Ha H (novis_incl _ _ (incl_app_left Ka Kb) Hn) wa Hwa Hta).
      + exact (js_ios _ _ _ Hb H (novis_incl _ _ (incl_app_right Ka Kb) Hn) wb Hwb Htb).
    - intros l bs Hs Hf Hv w Hw [wa [wb [-> [Hta Htb]]]]. destruct (okw_app _ _ Hw) as [Hwa Hwb].
      apply concat_stack in Hs. destruct Hs as [la [lb [Ea [Eb ->]]]].
      apply fill_all_app in Hf. destruct Hf as [bb [ba [Fb [Fa ->]]]]. rewrite rev_app_distr. f_equal.
      + apply (js_stk _ _ _ Ha la ba Ea Fa); [|exact Hwa | exact Hta]. intros k Hk Hin.
        specialize (Hv k (incl_app_left Ka Kb k Hk) Hin). apply in_app_or in Hv. destruct Hv as [Hv|Hv]; [|exact Hv].
        exfalso. exact (Hd k Hk (proj2 (proj2 Cb) lb k Eb Hv)).
      + apply (js_stk _ _ _ Hb lb bb Eb Fb); [|exact Hwb | exact Htb]. intros k Hk Hin.
        specialize (Hv k (incl_app_right Ka Kb k Hk) Hin). apply in_app_or in Hv. destruct Hv as [Hv|Hv]; [exact Hv|].
        exfalso. exact (Hd k (proj2 (proj2 Ca) la k Ea Hv) Hk).
  Qed.

  (* minimum: candidates a, b; Tx: further witnesses the script accepts (or_b: both sides satisfied) *)
  Lemma JS_min K a b (Ta Tb Tx : wset) : JS K a Ta -> JS K b Tb ->
    (ios b -> forall l, s_stack a = WStack l -> vis_in K l -> forall w, okw w -> Tb w \/ Tx w -> False) ->
    (ios a -> forall l, s_stack b = WStack l -> vis_in K l -> forall w, okw w -> Ta w \/ Tx w -> False) ->
    (ios a -> ios b -> novis K -> forall w, okw w -> Tx w -> False) ->
    JS K (minimum se a b) (sunion (sunion Ta Tb) Tx).
  Proof.
    intros Ha Hb Da Db Dx. constructor.
    - intros Hi Hn w Hw Ht. destruct (ios_min_inv a b Hi) as [Ia Ib]. destruct Ht as [[Ht|Ht]|Ht].
      + exact (js_ios _ _ _ Ha Ia Hn w Hw Ht).
      + exact (js_ios _ _ _ Hb Ib Hn w Hw Ht).
      + exact (Dx Ia Ib Hn w Hw Ht).
    - intros l bs Hl Hf Hv w Hw Ht. destruct (min_stack_cases a b l Hl) as [[El Ib]|[El Ia]].
      + destruct Ht as [[Ht|Ht]|Ht]; [exact (js_stk _ _ _ Ha l bs El Hf Hv w Hw Ht) | |];
          exfalso; apply (Da Ib l El Hv w Hw); auto.
      + destruct Ht as [[Ht|Ht]|Ht]; [| exact (js_stk _ _ _ Hb l bs El Hf Hv w Hw Ht) |];
          exfalso; apply (Db Ia l El Hv w Hw); auto.
  Qed.

  Lemma JS_push K c T p v : nosig p -> fill_ph f p = Some v -> JS K c T -> JS K (pushed c p) (spush v T).
  Proof.
    intros Hp Hv H. unfold pushed. constructor.
    - intros Hi Hn w Hw [w0 [-> Ht]]. refine (js_ios _ _ _ H _ Hn _ (okw_tl _ _ Hw) Ht).
      destruct Hi as [Hi|Hi]; [left | right; exact Hi]. cbn [with_stack s_stack] in Hi. destruct (s_stack c); cbn in Hi; try discriminate. reflexivity.
    - intros l bs Hl Hf Hvis w Hw [w0 [-> Ht]]. cbn [with_stack s_stack] in Hl.
      destruct (s_stack c) as [lc| |] eqn:Ec; cbn in Hl; try discriminate. inversion Hl; subst.
      apply fill_all_app in Hf. destruct Hf as [b1 [b2 [F1 [F2 ->]]]]. cbn [fill_all] in F2. rewrite Hv in F2. inversion F2; subst.
      rewrite rev_app_distr. cbn [rev app]. f_equal.
      apply (js_stk _ _ _ H lc b1 Ec F1); [|exact (okw_tl _ _ Hw) | exact Ht].
      intros k Hk Hin. specialize (Hvis k Hk Hin). apply in_app_or in Hvis. destruct Hvis as [G|[G|[]]]; [exact G|]. subst p. destruct Hp.
  Qed.

  (* ---------- the invariant on a fragment ---------- *)
  (* static facts the table-level theorem already provides *)
  Record stat (K : list key) (ds : satn * satn) (ml : mall) : Prop := mkStat {
    st_cd : cok K (fst ds);
    st_cs : cok K (snd ds);
    st_sig : m_signed ml = true -> ios (snd ds);
    st_dn : m_dissat ml = DNone -> ios (fst ds);
    st_du : m_dissat ml = DUnique -> clean (fst ds)
  }.
  Lemma stat_of_uinv K ds TD TS ml : uinv A se f K ds TD TS ml -> m_nm ml = true -> stat K ds ml.
  Proof.
    intros U Hn. constructor.
    - exact (cok_of_J _ _ _ (u_jd _ _ _ _ _ _ _ _ U Hn)).
    - exact (cok_of_J _ _ _ (u_js _ _ _ _ _ _ _ _ U Hn)).
    - exact (u_sig _ _ _ _ _ _ _ _ U).
    - exact (u_dn _ _ _ _ _ _ _ _ U).
    - exact (u_du _ _ _ _ _ _ _ _ U Hn).
  Qed.

  Record finv (K : list key) (ds : satn * satn) (TD TS : wset) (ml : mall) : Prop := mkF {
    f_sat : JS K (snd ds) TS;
    f_dn : m_dissat ml = DNone -> novis K -> forall w, okw w -> TD w -> False;
    f_du : m_dissat ml = DUnique -> JS K (fst ds) TD
  }.
  Lemma finv_sub K ds (TD TS TD' TS' : wset) ml : (forall w, TD' w -> TD w) -> (forall w, TS' w -> TS w) ->
    finv K ds TD TS ml -> finv K ds TD' TS' ml.
  Proof.
    intros H1 H2 H. constructor.
    - exact (JS_sub K _ TS TS' H2 (f_sat _ _ _ _ _ H)).
    - intros E Hn w Hw Ht. exact (f_dn _ _ _ _ _ H E Hn w Hw (H1 w Ht)).
    - intros E. exact (JS_sub K _ TD TD' H1 (f_du _ _ _ _ _ H E)).
  Qed.
  Lemma finv_weaken K K' ds TD TS ml : incl K K' -> finv K ds TD TS ml -> finv K' ds TD TS ml.
  Proof.
    intros Hi H. constructor.
    - exact (JS_weaken K K' _ _ Hi (f_sat _ _ _ _ _ H)).
    - intros E Hn. exact (f_dn _ _ _ _ _ H E (novis_incl K' K Hi Hn)).
    - intros E. exact (JS_weaken K K' _ _ Hi (f_du _ _ _ _ _ H E)).
  Qed.

  (* s: no satisfaction for a third party that sees no signature of the fragment *)
  Lemma sat_dead K ds TD TS ml : stat K ds ml -> finv K ds TD TS ml -> m_signed ml = true ->
    novis K -> forall w, okw w -> TS w -> False.
  Proof. intros S F Hs. exact (js_ios _ _ _ (f_sat _ _ _ _ _ F) (st_sig _ _ _ S Hs)). Qed.
  Lemma push0_JS K (T : wset) : (forall w, T w -> w = [[]]) -> JS K push_0 T.
  Proof. intros H. apply (JS_const K [PhPushZero] [[]]); [reflexivity|]. intros w Hw. rewrite (H w Hw). reflexivity. Qed.

  (* ---------- wrappers ---------- *)
  Lemma ft_dupif K ds TD TS ml : stat K ds ml -> finv K ds TD TS ml ->
    finv K (push_0, pushed (snd ds) PhPushOne) (ssingle [[]]) (spush [1%N] TS) (m_cast_dupif ml).
  Proof.
    intros S F. destruct ml as [d s n]. cbn [m_cast_dupif m_dissat] in *. constructor; cbn [fst snd m_dissat].
    - exact (JS_push K _ TS PhPushOne [1%N] I eq_refl (f_sat _ _ _ _ _ F)).
    - destruct d; discriminate.
    - intros _. apply push0_JS. intros w Hw. exact Hw.
  Qed.
  Lemma ft_verify K ds TD TS ml : finv K ds TD TS ml -> finv K (IMPOSSIBLE, snd ds) sempty TS (m_cast_verify ml).
  Proof.
    intros F. constructor; cbn [fst snd m_cast_verify m_dissat].
    - exact (f_sat _ _ _ _ _ F).
    - intros _ _ w _ [].
    - discriminate.
  Qed.
  (* j:X — also dissatisfied by a dissatisfaction of X with a non-empty top element *)
  Lemma ft_nonzero K ds TD TS ml : finv K ds TD TS ml ->
    finv K (push_0, snd ds) (sunion (ssingle [[]]) TD) TS (m_cast_nonzero ml).
  Proof.
    intros F. destruct ml as [d s n]. cbn [m_cast_nonzero m_dissat] in *. constructor; cbn [fst snd m_dissat].
    - exact (f_sat _ _ _ _ _ F).
    - destruct d; discriminate.
    - intros E. destruct d; try discriminate. apply JS_clean_dead.
      + split; [apply held_const|]. split; [apply P_push0|]. intros l k Hl Hk. cbn in Hl. inversion Hl; subst. destruct Hk as [Hk|[]]. discriminate.
      + apply clean_push0.
      + apply push0_JS. intros w Hw. exact Hw.
      + intros Hn w Hw Ht. exact (f_dn _ _ _ _ _ F eq_refl Hn w Hw Ht).
  Qed.

  (* ---------- and_v ---------- *)
  Lemma ft_and_v Kl Kr l r DL SL DR SR ml mr : disj Kl Kr -> stat Kl l ml -> stat Kr r mr ->
    finv Kl l DL SL ml -> finv Kr r DR SR mr ->
    finv (Kl ++ Kr) (concatenate_rev (snd l) (fst r), concatenate_rev (snd l) (snd r))
         (sprod SL DR) (sprod SL SR) (m_and_v ml mr).
  Proof.
    intros Hd Sl Sr Fl Fr. destruct ml as [dl sl nl], mr as [dr sr nr]. cbn [m_and_v m_dissat m_signed] in *.
    constructor; cbn [fst snd m_dissat].
    - apply JS_concat; [exact Hd | apply Sl | apply Sr | apply Fl | apply Fr].
    - intros E Hn w Hw [wa [wb [-> [Ha Hb]]]]. destruct (okw_app _ _ Hw) as [Hwa Hwb]. destruct dr.
      + exact (f_dn _ _ _ _ _ Fr eq_refl (novis_incl _ _ (incl_app_right Kl Kr) Hn) wb Hwb Hb).
      + destruct sl; [|discriminate]. exact (sat_dead _ _ _ _ _ Sl Fl eq_refl (novis_incl _ _ (incl_app_left Kl Kr) Hn) wa Hwa Ha).
      + destruct sl; [|discriminate]. exact (sat_dead _ _ _ _ _ Sl Fl eq_refl (novis_incl _ _ (incl_app_left Kl Kr) Hn) wa Hwa Ha).
    - intros E. destruct sl, dr; discriminate.
  Qed.

  (* ---------- and_b: dissatisfied as soon as one side is ---------- *)
  Lemma ft_and_b Kl Kr l r DL SL DR SR ml mr : disj Kl Kr -> stat Kl l ml -> stat Kr r mr ->
    finv Kl l DL SL ml -> finv Kr r DR SR mr ->
    finv (Kl ++ Kr) (concatenate_rev (fst l) (fst r), concatenate_rev (snd l) (snd r))
         (sunion (sprod DL DR) (sunion (sprod SL DR) (sprod DL SR))) (sprod SL SR) (m_and_b ml mr).
  Proof.
    intros Hd Sl Sr Fl Fr. destruct ml as [dl sl nl], mr as [dr sr nr]. cbn [m_and_b m_dissat m_signed] in *.
    assert (Il := incl_app_left Kl Kr). assert (Ir := incl_app_right Kl Kr).
    constructor; cbn [fst snd m_dissat].
    - apply JS_concat; [exact Hd | apply Sl | apply Sr | apply Fl | apply Fr].
    - intros E Hn w Hw Ht.
      assert (NDL : dl = DNone -> forall w0, okw w0 -> DL w0 -> False) by (intros ->; exact (f_dn _ _ _ _ _ Fl eq_refl (novis_incl _ _ Il Hn))).
      assert (NDR : dr = DNone -> forall w0, okw w0 -> DR w0 -> False) by (intros ->; exact (f_dn _ _ _ _ _ Fr eq_refl (novis_incl _ _ Ir Hn))).
      assert (NSL : sl = true -> forall w0, okw w0 -> SL w0 -> False) by (intros ->; exact (sat_dead _ _ _ _ _ Sl Fl eq_refl (novis_incl _ _ Il Hn))).
      assert (NSR : sr = true -> forall w0, okw w0 -> SR w0 -> False) by (intros ->; exact (sat_dead _ _ _ _ _ Sr Fr eq_refl (novis_incl _ _ Ir Hn))).
      destruct Ht as [[wa [wb [-> [Ha Hb]]]]|[[wa [wb [-> [Ha Hb]]]]|[wa [wb [-> [Ha Hb]]]]]]; destruct (okw_app _ _ Hw) as [Hwa Hwb];
        destruct dl, dr, sl, sr; cbn in E; try discriminate;
        first [exact (NDL eq_refl wa Hwa Ha) | exact (NDR eq_refl wb Hwb Hb) | exact (NSL eq_refl wa Hwa Ha) | exact (NSR eq_refl wb Hwb Hb)].
    - intros E. assert (dl = DUnique /\ dr = DUnique /\ sl = true /\ sr = true) as [-> [-> [-> ->]]] by (destruct dl, dr, sl, sr; cbn in E; try discriminate; auto).
      pose proof (st_du _ _ _ Sl eq_refl) as Cl. pose proof (st_du _ _ _ Sr eq_refl) as Cr.
      apply JS_clean_dead.
      + apply cok_concat; [apply Sl | apply Sr].
      + apply clean_concat; assumption.
      + apply JS_concat; [exact Hd | apply Sl | apply Sr | exact (f_du _ _ _ _ _ Fl eq_refl) | exact (f_du _ _ _ _ _ Fr eq_refl)].
      + intros Hn w Hw [[wa [wb [-> [Ha Hb]]]]|[wa [wb [-> [Ha Hb]]]]]; destruct (okw_app _ _ Hw) as [Hwa Hwb].
        * exact (sat_dead _ _ _ _ _ Sl Fl eq_refl (novis_incl _ _ Il Hn) wa Hwa Ha).
        * exact (sat_dead _ _ _ _ _ Sr Fr eq_refl (novis_incl _ _ Ir Hn) wb Hwb Hb).
  Qed.

  (* a dissatisfaction component typed e, as a JS usable in concatenations *)
  Lemma ios_clean_concat_l a b : held se a -> held se b -> clean a -> ios (concatenate_rev a b) -> ios b.
  Proof. intros Ha Hb Ca H. destruct (ios_concat_inv a b Ha Hb H) as [G|G]; [destruct (clean_not_ios a Ca G) | exact G]. Qed.
  Lemma ios_clean_concat_r a b : held se a -> held se b -> clean b -> ios (concatenate_rev a b) -> ios a.
  Proof. intros Ha Hb Cb H. destruct (ios_concat_inv a b Ha Hb H) as [G|G]; [exact G | destruct (clean_not_ios b Cb G)]. Qed.
  Lemma concat_keys_clean_l Ka Kb a b l k : cok Ka a -> cok Kb b -> clean a ->
    s_stack (concatenate_rev a b) = WStack l -> In (PhSig k) l -> In k Kb.
  Proof.
    intros Ca Cb Cl Hs Hin. apply concat_stack in Hs. destruct Hs as [la [lb [Ea [Eb ->]]]].
    apply in_app_or in Hin. destruct Hin as [Hin|Hin]; [exact (proj2 (proj2 Cb) lb k Eb Hin) | destruct (cok_clean_keys Ka a la k Ca Cl Ea Hin)].
  Qed.
  Lemma concat_keys_clean_r Ka Kb a b l k : cok Ka a -> cok Kb b -> clean b ->
    s_stack (concatenate_rev a b) = WStack l -> In (PhSig k) l -> In k Ka.
  Proof.
    intros Ca Cb Cl Hs Hin. apply concat_stack in Hs. destruct Hs as [la [lb [Ea [Eb ->]]]].
    apply in_app_or in Hin. destruct Hin as [Hin|Hin]; [destruct (cok_clean_keys Kb b lb k Cb Cl Eb Hin) | exact (proj2 (proj2 Ca) la k Ea Hin)].
  Qed.

  (* ---------- or_d / or_c ---------- *)
  Lemma JS_or_dc Kl Kr l r DL SL DR SR ml mr : disj Kl Kr -> stat Kl l ml -> stat Kr r mr ->
    finv Kl l DL SL ml -> finv Kr r DR SR mr -> m_dissat ml = DUnique ->
    JS (Kl ++ Kr) (minimum se (snd l) (concatenate_rev (fst l) (snd r))) (sunion SL (sprod DL SR)).
  Proof.
    intros Hd Sl Sr Fl Fr El. pose proof (st_du _ _ _ Sl El) as Cl.
    assert (Il := incl_app_left Kl Kr). assert (Ir := incl_app_right Kl Kr).
    assert (Jb : JS (Kl ++ Kr) (concatenate_rev (fst l) (snd r)) (sprod DL SR)).
    { apply JS_concat; [exact Hd | apply Sl | apply Sr | exact (f_du _ _ _ _ _ Fl El) | apply Fr]. }
    pose proof (JS_min (Kl ++ Kr) _ _ SL (sprod DL SR) sempty (JS_weaken Kl _ _ _ Il (f_sat _ _ _ _ _ Fl)) Jb) as G.
    refine (JS_sub _ _ _ _ _ (G _ _ _)).
    - intros w [H|H]; [left; left; exact H | left; right; exact H].
    - (* sat X published: Z's keys invisible *)
      intros Ib l0 Hl0 Hv w Hw [[wa [wb [-> [Ha Hb]]]]|[]]. destruct (okw_app _ _ Hw) as [Hwa Hwb].
      pose proof (ios_clean_concat_l _ _ (proj1 (st_cd _ _ _ Sl)) (proj1 (st_cs _ _ _ Sr)) Cl Ib) as Isr.
      refine (js_ios _ _ _ (f_sat _ _ _ _ _ Fr) Isr _ _ Hwb Hb).
      apply (vis_disj_novis (Kl ++ Kr) Kl Kr l0 Hv); [|exact Hd | exact Ir]. intros k Hk. exact (proj2 (proj2 (st_cs _ _ _ Sl)) l0 k Hl0 Hk).
    - (* dsat X ++ sat Z published: X's keys invisible *)
      intros Ia l0 Hl0 Hv w Hw [Ha|[]].
      refine (js_ios _ _ _ (f_sat _ _ _ _ _ Fl) Ia _ _ Hw Ha).
      apply (vis_disj_novis (Kl ++ Kr) Kr Kl l0 Hv); [|apply disj_sym, Hd | exact Il].
      intros k Hk. exact (concat_keys_clean_l Kl Kr _ _ l0 k (st_cd _ _ _ Sl) (st_cs _ _ _ Sr) Cl Hl0 Hk).
    - intros _ _ _ w _ [].
  Qed.

  Lemma or_dc_nm' (dl : dissat) (sl nl nr sr : bool) :
    nl && dissat_eqb dl DUnique && nr && (sl || sr) = true -> dl = DUnique.
  Proof. intros E. repeat (apply Bool.andb_true_iff in E; destruct E as [E ?]). destruct dl; try discriminate. reflexivity. Qed.

  Lemma ft_or_d Kl Kr l r DL SL DR SR ml mr : disj Kl Kr -> stat Kl l ml -> stat Kr r mr ->
    finv Kl l DL SL ml -> finv Kr r DR SR mr -> m_nm (m_or_d ml mr) = true ->
    finv (Kl ++ Kr) (concatenate_rev (fst l) (fst r), minimum se (snd l) (concatenate_rev (fst l) (snd r)))
         (sprod DL DR) (sunion SL (sprod DL SR)) (m_or_d ml mr).
  Proof.
    intros Hd Sl Sr Fl Fr Hnm. assert (El : m_dissat ml = DUnique) by (destruct ml as [dl sl nl], mr as [dr sr nr]; exact (or_dc_nm' _ _ _ _ _ Hnm)).
    constructor; cbn [fst snd m_or_d m_dissat].
    - exact (JS_or_dc Kl Kr l r DL SL DR SR ml mr Hd Sl Sr Fl Fr El).
    - intros E Hn w Hw [wa [wb [-> [Ha Hb]]]]. destruct (okw_app _ _ Hw) as [Hwa Hwb].
      exact (f_dn _ _ _ _ _ Fr E (novis_incl _ _ (incl_app_right Kl Kr) Hn) wb Hwb Hb).
    - intros E. apply JS_concat; [exact Hd | apply Sl | apply Sr | exact (f_du _ _ _ _ _ Fl El) | exact (f_du _ _ _ _ _ Fr E)].
  Qed.
  Lemma ft_or_c Kl Kr l r DL SL DR SR ml mr : disj Kl Kr -> stat Kl l ml -> stat Kr r mr ->
    finv Kl l DL SL ml -> finv Kr r DR SR mr -> m_nm (m_or_c ml mr) = true ->
    finv (Kl ++ Kr) (IMPOSSIBLE, minimum se (snd l) (concatenate_rev (fst l) (snd r)))
         sempty (sunion SL (sprod DL SR)) (m_or_c ml mr).
  Proof.
    intros Hd Sl Sr Fl Fr Hnm. assert (El : m_dissat ml = DUnique) by (destruct ml as [dl sl nl], mr as [dr sr nr]; exact (or_dc_nm' _ _ _ _ _ Hnm)).
    constructor; cbn [fst snd m_or_c m_dissat].
    - exact (JS_or_dc Kl Kr l r DL SL DR SR ml mr Hd Sl Sr Fl Fr El).
    - intros _ _ w _ [].
    - discriminate.
  Qed.

  (* ---------- or_b: also satisfied when both sides are ---------- *)
  Lemma ft_or_b Kl Kr l r DL SL DR SR ml mr : disj Kl Kr -> stat Kl l ml -> stat Kr r mr ->
    finv Kl l DL SL ml -> finv Kr r DR SR mr -> m_nm (m_or_b ml mr) = true ->
    finv (Kl ++ Kr) (concatenate_rev (fst l) (fst r),
                     minimum se (concatenate_rev (fst l) (snd r)) (concatenate_rev (snd l) (fst r)))
         (sprod DL DR) (sunion (sunion (sprod DL SR) (sprod SL DR)) (sprod SL SR)) (m_or_b ml mr).
  Proof.
    intros Hd Sl Sr Fl Fr Hnm.
    assert (Hty : m_dissat ml = DUnique /\ m_dissat mr = DUnique /\ (m_signed ml = true \/ m_signed mr = true)).
    { destruct ml as [dl sl nl], mr as [dr sr nr]. cbn [m_or_b m_nm m_dissat m_signed] in *.
      repeat (apply Bool.andb_true_iff in Hnm; destruct Hnm as [Hnm ?]). apply Bool.orb_true_iff in H. destruct dl, dr; try discriminate. auto. }
    destruct Hty as [El [Er Hs]]. pose proof (st_du _ _ _ Sl El) as Cl. pose proof (st_du _ _ _ Sr Er) as Cr.
    assert (Il := incl_app_left Kl Kr). assert (Ir := incl_app_right Kl Kr).
    pose proof (st_cd _ _ _ Sl) as Cdl. pose proof (st_cs _ _ _ Sl) as Csl. pose proof (st_cd _ _ _ Sr) as Cdr. pose proof (st_cs _ _ _ Sr) as Csr.
    constructor; cbn [fst snd m_or_b m_dissat].
    - apply JS_min.
      + apply JS_concat; [exact Hd | exact Cdl | exact Csr | exact (f_du _ _ _ _ _ Fl El) | apply Fr].
      + apply JS_concat; [exact Hd | exact Csl | exact Cdr | apply Fl | exact (f_du _ _ _ _ _ Fr Er)].
      + (* dsat X ++ sat Z published: only Z's signatures visible; X cannot be satisfied *)
        intros Ib l0 Hl0 Hv w Hw Ht.
        pose proof (ios_clean_concat_r _ _ (proj1 Csl) (proj1 Cdr) Cr Ib) as Isl.
        assert (Hn : novis Kl).
        { apply (vis_disj_novis (Kl ++ Kr) Kr Kl l0 Hv); [|apply disj_sym, Hd | exact Il].
          intros k Hk. exact (concat_keys_clean_l Kl Kr _ _ l0 k Cdl Csr Cl Hl0 Hk). }
        destruct Ht as [[wa [wb [-> [Ha Hb]]]]|[wa [wb [-> [Ha Hb]]]]]; destruct (okw_app _ _ Hw) as [Hwa Hwb];
          exact (js_ios _ _ _ (f_sat _ _ _ _ _ Fl) Isl Hn wa Hwa Ha).
      + intros Ia l0 Hl0 Hv w Hw Ht.
        pose proof (ios_clean_concat_l _ _ (proj1 Cdl) (proj1 Csr) Cl Ia) as Isr.
        assert (Hn : novis Kr).
        { apply (vis_disj_novis (Kl ++ Kr) Kl Kr l0 Hv); [|exact Hd | exact Ir].
          intros k Hk. exact (concat_keys_clean_r Kl Kr _ _ l0 k Csl Cdr Cr Hl0 Hk). }
        destruct Ht as [[wa [wb [-> [Ha Hb]]]]|[wa [wb [-> [Ha Hb]]]]]; destruct (okw_app _ _ Hw) as [Hwa Hwb];
          exact (js_ios _ _ _ (f_sat _ _ _ _ _ Fr) Isr Hn wb Hwb Hb).
      + intros _ _ Hn w Hw [wa [wb [-> [Ha Hb]]]]. destruct (okw_app _ _ Hw) as [Hwa Hwb]. destruct Hs as [Hs|Hs].
        * exact (sat_dead _ _ _ _ _ Sl Fl Hs (novis_incl _ _ Il Hn) wa Hwa Ha).
        * exact (sat_dead _ _ _ _ _ Sr Fr Hs (novis_incl _ _ Ir Hn) wb Hwb Hb).
    - discriminate.
    - intros _. apply JS_concat; [exact Hd | exact Cdl | exact Cdr | exact (f_du _ _ _ _ _ Fl El) | exact (f_du _ _ _ _ _ Fr Er)].
  Qed.

  (* ---------- or_i ---------- *)
  Lemma JS_or_i Kl Kr a b Ta Tb : disj Kl Kr -> cok Kl a -> cok Kr b -> JS Kl a Ta -> JS Kr b Tb ->
    JS (Kl ++ Kr) (minimum se (pushed a PhPushOne) (pushed b PhPushZero)) (sunion (spush [1%N] Ta) (spush [] Tb)).
  Proof.
    intros Hd Ca Cb Ha Hb. assert (Il := incl_app_left Kl Kr). assert (Ir := incl_app_right Kl Kr).
    pose proof (JS_push Kl a Ta PhPushOne [1%N] I eq_refl Ha) as Ja. pose proof (JS_push Kr b Tb PhPushZero [] I eq_refl Hb) as Jb.
    pose proof (cok_push Kl a PhPushOne I Ca) as Ca'. pose proof (cok_push Kr b PhPushZero I Cb) as Cb'.
    pose proof (JS_min (Kl ++ Kr) _ _ _ _ sempty (JS_weaken Kl _ _ _ Il Ja) (JS_weaken Kr _ _ _ Ir Jb)) as G.
    refine (JS_sub _ _ _ _ _ (G _ _ _)).
    - intros w [H|H]; [left; left; exact H | left; right; exact H].
    - intros Ib l0 Hl0 Hv w Hw [Ht|[]]. refine (js_ios _ _ _ Jb Ib _ _ Hw Ht).
      apply (vis_disj_novis (Kl ++ Kr) Kl Kr l0 Hv); [|exact Hd | exact Ir]. intros k Hk. exact (proj2 (proj2 Ca') l0 k Hl0 Hk).
    - intros Ia l0 Hl0 Hv w Hw [Ht|[]]. refine (js_ios _ _ _ Ja Ia _ _ Hw Ht).
      apply (vis_disj_novis (Kl ++ Kr) Kr Kl l0 Hv); [|apply disj_sym, Hd | exact Il]. intros k Hk. exact (proj2 (proj2 Cb') l0 k Hl0 Hk).
    - intros _ _ _ w _ [].
  Qed.
  Lemma ios_pushed c p : ios c -> ios (pushed c p).
  Proof. apply ios_push. Qed.

  Lemma ft_or_i Kl Kr l r DL SL DR SR ml mr : disj Kl Kr -> stat Kl l ml -> stat Kr r mr ->
    finv Kl l DL SL ml -> finv Kr r DR SR mr ->
    finv (Kl ++ Kr) (minimum se (pushed (fst l) PhPushOne) (pushed (fst r) PhPushZero),
                     minimum se (pushed (snd l) PhPushOne) (pushed (snd r) PhPushZero))
         (sunion (spush [1%N] DL) (spush [] DR)) (sunion (spush [1%N] SL) (spush [] SR)) (m_or_i ml mr).
  Proof.
    intros Hd Sl Sr Fl Fr. assert (Il := incl_app_left Kl Kr). assert (Ir := incl_app_right Kl Kr).
    constructor; cbn [fst snd].
    - apply JS_or_i; [exact Hd | apply Sl | apply Sr | apply Fl | apply Fr].
    - intros E Hn w Hw Ht. destruct ml as [dl sl nl], mr as [dr sr nr]. cbn [m_or_i m_dissat] in *. destruct dl, dr; try discriminate.
      destruct Ht as [[w0 [-> Ht]]|[w0 [-> Ht]]].
      + exact (f_dn _ _ _ _ _ Fl eq_refl (novis_incl _ _ Il Hn) w0 (okw_tl _ _ Hw) Ht).
      + exact (f_dn _ _ _ _ _ Fr eq_refl (novis_incl _ _ Ir Hn) w0 (okw_tl _ _ Hw) Ht).
    - intros E. destruct ml as [dl sl nl], mr as [dr sr nr]. cbn [m_or_i m_dissat] in *. destruct dl, dr; try discriminate.
      + (* left f, right e *)
        pose proof (st_du _ _ _ Sr eq_refl) as Cr. pose proof (st_dn _ _ _ Sl eq_refl) as Il'.
        rewrite (min_clean_r _ _ (ios_push _ PhPushOne Il') (clean_push _ PhPushZero Cr)).
        apply (JS_sub _ _ (sunion (spush [] DR) (spush [1%N] DL))); [intros w [H|H]; [right; exact H | left; exact H]|].
        apply JS_clean_dead.
        * apply (cok_weaken Kr); [exact Ir|]. apply cok_push; [exact I | apply Sr].
        * apply clean_push, Cr.
        * apply (JS_weaken Kr); [exact Ir|]. apply (JS_push Kr _ DR PhPushZero [] I eq_refl). exact (f_du _ _ _ _ _ Fr eq_refl).
        * intros Hn w Hw [w0 [-> Ht]]. exact (f_dn _ _ _ _ _ Fl eq_refl (novis_incl _ _ Il Hn) w0 (okw_tl _ _ Hw) Ht).
      + pose proof (st_du _ _ _ Sl eq_refl) as Cl. pose proof (st_dn _ _ _ Sr eq_refl) as Ir'.
        rewrite (min_clean_l _ _ (clean_push _ PhPushOne Cl) (ios_push _ PhPushZero Ir')).
        apply JS_clean_dead.
        * apply (cok_weaken Kl); [exact Il|]. apply cok_push; [exact I | apply Sl].
        * apply clean_push, Cl.
        * apply (JS_weaken Kl); [exact Il|]. apply (JS_push Kl _ DL PhPushOne [1%N] I eq_refl). exact (f_du _ _ _ _ _ Fl eq_refl).
        * intros Hn w Hw [w0 [-> Ht]]. exact (f_dn _ _ _ _ _ Fr eq_refl (novis_incl _ _ Ir Hn) w0 (okw_tl _ _ Hw) Ht).
  Qed.

  (* ---------- andor: also dissatisfied by (sat a, dsat b) ---------- *)
  Lemma ft_and_or Ka Kb Kc a b c DA SA DB SB DC SC ma mb mc :
    disj Ka Kb -> disj Ka Kc -> disj Kb Kc -> stat Ka a ma -> stat Kb b mb -> stat Kc c mc ->
    finv Ka a DA SA ma -> finv Kb b DB SB mb -> finv Kc c DC SC mc -> m_nm (m_and_or ma mb mc) = true ->
    finv (Ka ++ Kb ++ Kc)
         (concatenate_rev (fst a) (fst c),
          minimum se (concatenate_rev (snd a) (snd b)) (concatenate_rev (fst a) (snd c)))
         (sunion (sprod DA DC) (sprod SA DB)) (sunion (sprod SA SB) (sprod DA SC)) (m_and_or ma mb mc).
  Proof.
    intros Dab Dac Dbc Sa Sb Sc Fa Fb Fc Hnm.
    assert (Ea : m_dissat ma = DUnique).
    { destruct ma as [da sa na], mb as [db sb nb], mc as [dc sc nc]. cbn [m_and_or m_nm m_dissat] in *. repeat (apply Bool.andb_true_iff in Hnm; destruct Hnm as [Hnm ?]). destruct da; try discriminate. reflexivity. }
    pose proof (st_du _ _ _ Sa Ea) as Ca.
    assert (Iab : incl (Ka ++ Kb) (Ka ++ Kb ++ Kc)).
    { intros k Hk. apply in_app_or in Hk. apply in_or_app. destruct Hk; [left; assumption | right; apply in_or_app; left; assumption]. }
    assert (Iac : incl (Ka ++ Kc) (Ka ++ Kb ++ Kc)).
    { intros k Hk. apply in_app_or in Hk. apply in_or_app. destruct Hk; [left; assumption | right; apply in_or_app; right; assumption]. }
    assert (Ia : incl Ka (Ka ++ Kb ++ Kc)) by (intros k Hk; apply in_or_app; left; exact Hk).
    assert (Ib : incl Kb (Ka ++ Kb ++ Kc)) by (intros k Hk; apply in_or_app; right; apply in_or_app; left; exact Hk).
    assert (Ic : incl Kc (Ka ++ Kb ++ Kc)) by (intros k Hk; apply in_or_app; right; apply in_or_app; right; exact Hk).
    pose proof (st_cd _ _ _ Sa) as Cda. pose proof (st_cs _ _ _ Sa) as Csa. pose proof (st_cs _ _ _ Sb) as Csb.
    pose proof (st_cs _ _ _ Sc) as Csc. pose proof (st_cd _ _ _ Sc) as Cdc.
    (* (sat a, dsat b) needs a signature of a or of b *)
    assert (Dead : novis (Ka ++ Kb ++ Kc) -> m_dissat (m_and_or ma mb mc) <> DUnknown -> forall w, okw w -> sprod SA DB w -> False).
    { intros Hn Hd w Hw [wa [wb [-> [Ha Hb]]]]. destruct (okw_app _ _ Hw) as [Hwa Hwb].
      destruct ma as [da sa na], mb as [db sb nb], mc as [dc sc nc]. cbn [m_and_or m_dissat m_signed] in *.
      destruct db.
      - exact (f_dn _ _ _ _ _ Fb eq_refl (novis_incl _ _ Ib Hn) wb Hwb Hb).
      - destruct sa; [exact (sat_dead _ _ _ _ _ Sa Fa eq_refl (novis_incl _ _ Ia Hn) wa Hwa Ha) | destruct dc; congruence].
      - destruct sa; [exact (sat_dead _ _ _ _ _ Sa Fa eq_refl (novis_incl _ _ Ia Hn) wa Hwa Ha) | destruct dc; congruence]. }
    constructor; cbn [fst snd].
    - pose proof (JS_concat Ka Kb _ _ SA SB Dab Csa Csb (f_sat _ _ _ _ _ Fa) (f_sat _ _ _ _ _ Fb)) as J1.
      pose proof (JS_concat Ka Kc _ _ DA SC Dac Cda Csc (f_du _ _ _ _ _ Fa Ea) (f_sat _ _ _ _ _ Fc)) as J2.
      pose proof (JS_min (Ka ++ Kb ++ Kc) _ _ _ _ sempty (JS_weaken _ _ _ _ Iab J1) (JS_weaken _ _ _ _ Iac J2)) as G.
      refine (JS_sub _ _ _ _ _ (G _ _ _)).
      + intros w [H|H]; [left; left; exact H | left; right; exact H].
      + (* sat a ++ sat b published: c's keys invisible *)
        intros I2 l0 Hl0 Hv w Hw [[wa [wb [-> [Ha Hb]]]]|[]]. destruct (okw_app _ _ Hw) as [Hwa Hwb].
        pose proof (ios_clean_concat_l _ _ (proj1 Cda) (proj1 Csc) Ca I2) as Isc.
        refine (js_ios _ _ _ (f_sat _ _ _ _ _ Fc) Isc _ _ Hwb Hb).
        apply (vis_disj_novis (Ka ++ Kb ++ Kc) (Ka ++ Kb) Kc l0 Hv); [|apply disj_app_l; assumption | exact Ic].
        intros k Hk. exact (proj2 (proj2 (cok_concat Ka Kb _ _ Csa Csb)) l0 k Hl0 Hk).
      + (* dsat a ++ sat c published: only c's signatures visible *)
        intros I1 l0 Hl0 Hv w Hw [[wa [wb [-> [Ha Hb]]]]|[]]. destruct (okw_app _ _ Hw) as [Hwa Hwb].
        assert (Hn : novis (Ka ++ Kb)).
        { apply (vis_disj_novis (Ka ++ Kb ++ Kc) Kc (Ka ++ Kb) l0 Hv); [|apply disj_sym; apply disj_app_l; assumption | exact Iab].
          intros k Hk. exact (concat_keys_clean_l Ka Kc _ _ l0 k Cda Csc Ca Hl0 Hk). }
        destruct (ios_concat_inv _ _ (proj1 Csa) (proj1 Csb) I1) as [G1|G1].
        * exact (js_ios _ _ _ (f_sat _ _ _ _ _ Fa) G1 (novis_incl _ _ (incl_app_left Ka Kb) Hn) wa Hwa Ha).
        * exact (js_ios _ _ _ (f_sat _ _ _ _ _ Fb) G1 (novis_incl _ _ (incl_app_right Ka Kb) Hn) wb Hwb Hb).
      + intros _ _ _ w _ [].
    - intros E Hn w Hw [[wa [wb [-> [Ha Hb]]]]|Ht].
      + destruct (okw_app _ _ Hw) as [Hwa Hwb].
        assert (Ec : m_dissat mc = DNone).
        { destruct ma as [da sa na], mb as [db sb nb], mc as [dc sc nc]. cbn [m_and_or m_dissat] in *. destruct sa, db, dc; try discriminate; reflexivity. }
        exact (f_dn _ _ _ _ _ Fc Ec (novis_incl _ _ Ic Hn) wb Hwb Hb).
      + refine (Dead Hn _ w Hw Ht). rewrite E. discriminate.
    - intros E.
      assert (Ec : m_dissat mc = DUnique).
      { destruct ma as [da sa na], mb as [db sb nb], mc as [dc sc nc]. cbn [m_and_or m_dissat] in *. destruct sa, db, dc; try discriminate; reflexivity. }
      apply JS_clean_dead.
      + apply (cok_weaken (Ka ++ Kc)); [exact Iac|]. apply cok_concat; assumption.
      + apply clean_concat; [exact Ca | exact (st_du _ _ _ Sc Ec)].
      + apply (JS_weaken (Ka ++ Kc)); [exact Iac|].
        apply JS_concat; [exact Dac | exact Cda | exact Cdc | exact (f_du _ _ _ _ _ Fa Ea) | exact (f_du _ _ _ _ _ Fc Ec)].
      + intros Hn w Hw Ht. refine (Dead Hn _ w Hw Ht). rewrite E. discriminate.
  Qed.

  (* ---------- leaves ---------- *)
  Lemma okw_sig k sg w : In k Ktop -> okw w -> In sg w -> sg <> [] -> e_sigok e (kb ke k) sg = true ->
    a_sig A k = Some sg /\ In (PhSig k) vl.
  Proof. intros Hk Hw Hin Hne Hok. exact (Hw k sg Hk Hin Hne Hok). Qed.

  Lemma JS_sig k (c : satn) (T : wset) (tl : list ph) (tb : list bytes) : In k Ktop ->
    (forall l, s_stack c = WStack l -> l = PhSig k :: tl) -> fill_all f tl = Some tb ->
    (forall w, T w -> exists sg, w = rev tb ++ [sg] /\ sg <> [] /\ e_sigok e (kb ke k) sg = true) ->
    JS [k] c T.
  Proof.
    intros Hk Hc Hf HT. constructor.
    - intros _ Hnv w Hw Ht. destruct (HT w Ht) as [sg [-> [Hne Hok]]].
      destruct (okw_sig k sg _ Hk Hw ltac:(apply in_or_app; right; left; reflexivity) Hne Hok) as [_ Hv].
      exact (Hnv k (or_introl eq_refl) Hv).
    - intros l bs Hl Hfl _ w Hw Ht. destruct (HT w Ht) as [sg [-> [Hne Hok]]].
      destruct (okw_sig k sg _ Hk Hw ltac:(apply in_or_app; right; left; reflexivity) Hne Hok) as [Ea _].
      rewrite (Hc l Hl) in Hfl. cbn [fill_all fill_ph] in Hfl. rewrite (lk_sig _ _ _ _ L), Ea, Hf in Hfl. inversion Hfl; subst. reflexivity.
  Qed.
  Lemma sig_stack_k k l : s_stack (mkSat (w_signature se k) true None None) = WStack l -> l = PhSig k :: [].
  Proof. cbn [s_stack]. unfold w_signature. destruct (se_sig se k); [intros H; inversion H; reflexivity | discriminate]. Qed.
  Lemma sig_stack_h k l : s_stack (mkSat (wcombine (w_signature se k) (WStack [PhPubkey k])) true None None) = WStack l -> l = PhSig k :: [PhPubkey k].
  Proof. cbn [s_stack]. unfold w_signature. destruct (se_sig se k); cbn [wcombine app]; [intros H; inversion H; reflexivity | discriminate]. Qed.

  Lemma ft_pk_k k : In k Ktop ->
    finv [k] (sd_pk_k se k) (fun w => exists v, R e ke (MPkK k) false w v) (fun w => exists v, R e ke (MPkK k) true w v) m_pk_k.
  Proof.
    intros Hk. unfold sd_pk_k. constructor; cbn [fst snd m_pk_k m_dissat]; try discriminate.
    - apply (JS_sig k _ _ [] [] Hk); [apply sig_stack_k | reflexivity|].
      intros w [v [sg [-> [-> [_ [Hne Hok]]]]]]. exists sg. split; [reflexivity|]. split; assumption.
    - intros _. apply push0_JS. intros w [v [sg [-> [_ [_ ->]]]]]. reflexivity.
  Qed.
  Lemma ft_pk_h k : In k Ktop ->
    finv [k] (sd_pk_h se k) (fun w => exists v, R e ke (MPkH k) false w v) (fun w => exists v, R e ke (MPkH k) true w v) m_pk_h.
  Proof.
    intros Hk. unfold sd_pk_h. constructor; cbn [fst snd m_pk_h m_dissat]; try discriminate.
    - apply (JS_sig k _ _ [PhPubkey k] [kb ke k] Hk); [apply sig_stack_h | cbn; rewrite (lk_kb _ _ _ _ L); reflexivity|].
      intros w [v [sg [-> [Hh [[Hko [Hne Hok]] _]]]]]. rewrite (Hpkh k v Hk Hko Hh) in *. exists sg. split; [reflexivity|]. split; assumption.
    - intros _. cbn [wcombine app]. apply (JS_const [k] [PhPushZero; PhPubkey k] [[]; kb ke k]).
      + cbn. rewrite (lk_kb _ _ _ _ L). reflexivity.
      + intros w [v [sg [-> [Hh [[Hko ->] _]]]]]. rewrite (Hpkh k v Hk Hko Hh). reflexivity.
  Qed.
  Lemma ft_true : finv [] (IMPOSSIBLE, TRIVIAL) (fun w => exists v, R e ke MTrue false w v) (fun w => exists v, R e ke MTrue true w v) m_true.
  Proof.
    constructor; cbn [fst snd m_true m_dissat]; try discriminate.
    - apply (JS_const [] [] []); [reflexivity|]. intros w [v [_ [-> _]]]. reflexivity.
    - intros _ _ w _ [v [H _]]. discriminate.
  Qed.
  Lemma ft_false : finv [] (TRIVIAL, IMPOSSIBLE) (fun w => exists v, R e ke MFalse false w v) (fun w => exists v, R e ke MFalse true w v) m_false.
  Proof.
    constructor; cbn [fst snd m_false m_dissat]; try discriminate.
    - constructor; [intros _ _ w _ [v [H _]]; discriminate | intros l bs Hl; discriminate].
    - intros _. apply (JS_const [] [] []); [reflexivity|]. intros w [v [_ [-> _]]]. reflexivity.
  Qed.
  Lemma ft_time (ok rhs : bool) t (isabs : bool) (TD TS : wset) :
    (forall w, TD w -> False) -> (forall w, TS w -> w = [] /\ ok = true) ->
    finv [] (sd_time ok rhs t isabs) TD TS m_time.
  Proof.
    intros HD HS. unfold sd_time. constructor; cbn [fst snd m_time m_dissat]; try discriminate.
    - constructor.
      + intros Hi _ w _ Ht. destruct (HS w Ht) as [_ ->]. destruct isabs; destruct Hi as [Hi|Hi]; discriminate.
      + intros l bs Hl Hf _ w _ Ht. destruct (HS w Ht) as [-> ->]. destruct isabs; cbn in Hl; inversion Hl; subst; cbn in Hf; inversion Hf; reflexivity.
    - intros _ _ w _ Ht. exact (HD w Ht).
  Qed.
  Lemma ft_hash kd h (TD TS : wset) :
    (forall w, TS w -> exists x, w = [x] /\ blen x = 32%N /\ hfun e kd x = h) ->
    finv [] (sd_hash se kd h) TD TS m_hash.
  Proof.
    intros HS. unfold sd_hash. constructor; cbn [fst snd m_hash m_dissat]; try discriminate.
    unfold w_preimage. destruct (se_pre se kd h); [|apply JS_unavail].
    constructor; [intros [Hi|Hi]; discriminate|].
    intros l bs Hl Hf _ w _ Ht. destruct (HS w Ht) as [x [-> [Hx Hh]]]. cbn in Hl. inversion Hl; subst l.
    cbn [fill_all fill_ph] in Hf. rewrite (lk_pre _ _ _ _ L) in Hf. destruct (look A kd h) as [p|] eqn:Ep; [|discriminate].
    injection Hf as <-. rewrite (Hpre kd h p x Ep Hx Hh). reflexivity.
  Qed.

  (* ---------- transfer from the table-level invariant (used for multi / multi_a) ---------- *)
  Definition ph_is_sig (k : key) (p : ph) : bool := match p with PhSig k' => N.eqb k k' | _ => false end.
  Definition Bv : assets :=
    mkAssets (fun k => if existsb (ph_is_sig k) vl then a_sig A k else None)
             (a_sha256 A) (a_hash256 A) (a_ripemd160 A) (a_hash160 A) (a_after A) (a_older A).
  Lemma vl_in k : existsb (ph_is_sig k) vl = true <-> In (PhSig k) vl.
  Proof.
    rewrite existsb_exists. split.
    - intros [p [Hp E]]. destruct p; try discriminate. cbn in E. apply N.eqb_eq in E. subst. exact Hp.
    - intros H. exists (PhSig k). split; [exact H | cbn; apply N.eqb_refl].
  Qed.
  Lemma Bv_below : below A Bv.
  Proof.
    constructor; cbn [Bv a_sig a_after a_older]; auto.
    - intros k s H. destruct (existsb _ vl); [exact H | discriminate].
    - intros kd h p p' E1 E2. destruct kd; cbn in *; congruence.
  Qed.
  Lemma Bv_sig k x : a_sig A k = Some x -> In (PhSig k) vl -> a_sig Bv k = Some x.
  Proof. intros Ha Hv. cbn [Bv a_sig]. rewrite (proj2 (vl_in k) Hv). exact Ha. Qed.
  Lemma Bv_vis K l : vis_in K l -> vis Bv K l.
  Proof.
    intros H k Hk Hs. apply (H k Hk). cbn [Bv a_sig] in Hs. destruct (existsb (ph_is_sig k) vl) eqn:E; [apply vl_in, E | congruence].
  Qed.
  Lemma Bv_nosigs K : novis K -> nosigs Bv K.
  Proof.
    intros H k Hk. cbn [Bv a_sig]. destruct (existsb (ph_is_sig k) vl) eqn:E; [|reflexivity]. destruct (H k Hk (proj1 (vl_in k) E)).
  Qed.
  Lemma JS_of_J K c (T : assets -> list wit) (T' : wset) : J A se f K c T ->
    (forall w, okw w -> T' w -> In w (T Bv)) -> JS K c T'.
  Proof.
    intros HJ Hemb. constructor.
    - intros Hi Hn w Hw Ht. pose proof (Hemb w Hw Ht) as Hin. destruct Hi as [Hi|Hi].
      + rewrite (j_imp _ _ _ _ _ _ HJ Hi Bv Bv_below) in Hin. exact Hin.
      + rewrite (j_sig _ _ _ _ _ _ HJ Hi Bv Bv_below (Bv_nosigs K Hn)) in Hin. exact Hin.
    - intros l bs Hl Hf Hv w Hw Ht. exact (j_stk _ _ _ _ _ _ HJ l bs Hl Hf Bv Bv_below (Bv_vis K l Hv) w (Hemb w Hw Ht)).
  Qed.

  (* ================= thresh ================= *)
  Variable rhs : bool.
  Notation usd := (usd ke se rhs).
  Definition SatR (m : ms) : wset := fun w => exists v, R e ke m true w v.
  Definition DsatR (m : ms) : wset := fun w => exists v, R e ke m false w v.

  Definition sent := (list key * satn * wset)%type.
  Definition sK (en : sent) : list key := fst (fst en).
  Definition sC (en : sent) : satn := snd (fst en).
  Definition sT (en : sent) : wset := snd en.
  Fixpoint isprod (Ts : list wset) : wset := match Ts with [] => ssingle [] | T :: r => sprod T (isprod r) end.

  Lemma JS_fold (Ls : list sent) : Forall (fun en => cok (sK en) (sC en) /\ JS (sK en) (sC en) (sT en)) Ls -> pdisj (map sK Ls) ->
    forall Kacc acc Tacc, cok Kacc acc -> JS Kacc acc Tacc -> Forall (disj Kacc) (map sK Ls) ->
    cok (Kacc ++ concat (map sK Ls)) (fold_left concatenate_rev (map sC Ls) acc) /\
    JS (Kacc ++ concat (map sK Ls)) (fold_left concatenate_rev (map sC Ls) acc) (sprod Tacc (isprod (map sT Ls))).
  Proof.
    induction Ls as [|en r IH]; intros HJ HP Kacc acc Tacc Cacc Hacc HD; cbn [map fold_left concat isprod].
    - split; [apply (cok_weaken Kacc); [apply incl_app_left | exact Cacc]|].
      apply (JS_weaken Kacc); [apply incl_app_left|]. apply (JS_sub _ _ Tacc); [|exact Hacc].
      intros w [wa [wb [-> [Ha Hb]]]]. unfold ssingle in Hb. subst wb. rewrite app_nil_r. exact Ha.
    - inversion HJ as [|? ? [Ce He] Hr]; subst. destruct HP as [HP1 HP2]. inversion HD as [|? ? Hd1 Hd2]; subst.
      pose proof (JS_concat Kacc (sK en) acc (sC en) Tacc (sT en) Hd1 Cacc Ce Hacc He) as Hc.
      pose proof (cok_concat Kacc (sK en) acc (sC en) Cacc Ce) as Cc.
      assert (HD' : Forall (disj (Kacc ++ sK en)) (map sK r)).
      { rewrite Forall_forall in *. intros K' HK'. apply disj_app_l; [apply Hd2, HK' | apply HP1, HK']. }
      destruct (IH Hr HP2 _ _ _ Cc Hc HD') as [G1 G2].
      assert (Hi : incl ((Kacc ++ sK en) ++ concat (map sK r)) (Kacc ++ sK en ++ concat (map sK r))) by (rewrite <- app_assoc; apply incl_refl).
      split; [exact (cok_weaken _ _ _ Hi G1)|]. apply (JS_weaken _ _ _ _ Hi). revert G2. apply JS_sub.
      intros w [wa [wb [-> [Ha [wb1 [wb2 [-> [Hb1 Hb2]]]]]]]]. exists (wa ++ wb1), wb2. split; [apply app_assoc|]. split; [exists wa, wb1; auto | exact Hb2].
  Qed.
  Lemma cok_trivial : cok [] TRIVIAL.
  Proof. split; [apply held_const|]. split; [apply P_trivial|]. intros l k Hl Hk. cbn in Hl. inversion Hl; subst. destruct Hk. Qed.
  Lemma JS_flatten (Ls : list sent) : Forall (fun en => cok (sK en) (sC en) /\ JS (sK en) (sC en) (sT en)) Ls -> pdisj (map sK Ls) ->
    cok (concat (map sK Ls)) (flatten_rev (map sC Ls)) /\ JS (concat (map sK Ls)) (flatten_rev (map sC Ls)) (isprod (map sT Ls)).
  Proof.
    intros HJ HP. unfold flatten_rev.
    assert (HD : Forall (disj []) (map sK Ls)) by (apply Forall_forall; intros K' _ k []).
    assert (J0 : JS [] TRIVIAL (ssingle [])) by (apply (JS_const [] [] []); [reflexivity | intros w Hw; exact Hw]).
    destruct (JS_fold Ls HJ HP [] TRIVIAL _ cok_trivial J0 HD) as [G1 G2]. cbn [app] in G1, G2. split; [exact G1|].
    revert G2. apply JS_sub. intros w Hw. exists [], w. split; [reflexivity|]. split; [reflexivity | exact Hw].
  Qed.

  Fixpoint mkLs (xs : list ms) (M : list bool) : list sent :=
    match xs, M with
    | x :: r, b :: m => (ukeys x, (if b then snd (usd x) else fst (usd x)), (if b then SatR x else DsatR x)) :: mkLs r m
    | _, _ => []
    end.
  Lemma mkLs_K xs : forall M, length M = length xs -> map sK (mkLs xs M) = map ukeys xs.
  Proof.
    induction xs as [|x r IH]; intros [|b m] Hl; cbn [length] in Hl; try lia; [reflexivity|].
    cbn [mkLs map]. rewrite IH by lia. reflexivity.
  Qed.
  Lemma mkLs_C xs : forall M, map sC (mkLs xs M) = map eC (mkL ke se rhs xs M).
  Proof. induction xs as [|x r IH]; intros [|b m]; try reflexivity. cbn [mkLs mkL map]. rewrite IH. reflexivity. Qed.

  Definition childS (x : ms) : Prop :=
    cok (ukeys x) (fst (usd x)) /\ cok (ukeys x) (snd (usd x)) /\
    JS (ukeys x) (fst (usd x)) (DsatR x) /\ JS (ukeys x) (snd (usd x)) (SatR x).
  Lemma mkLs_ok xs : Forall childS xs -> forall M, Forall (fun en => cok (sK en) (sC en) /\ JS (sK en) (sC en) (sT en)) (mkLs xs M).
  Proof.
    induction 1 as [|x r [C1 [C2 [J1 J2]]] Hr IH]; intros [|b m]; cbn [mkLs]; try constructor; [|apply IH].
    unfold sK, sC, sT. cbn [fst snd]. destruct b; split; assumption.
  Qed.
  Lemma JS_mask xs M : length M = length xs -> Forall childS xs -> pdisj (map ukeys xs) ->
    cok (flat_map ukeys xs) (flatten_rev (map eC (mkL ke se rhs xs M))) /\
    JS (flat_map ukeys xs) (flatten_rev (map eC (mkL ke se rhs xs M))) (isprod (map sT (mkLs xs M))).
  Proof.
    intros Hl HJ HP. rewrite flat_map_concat_map, <- (mkLs_K xs M Hl), <- mkLs_C.
    apply JS_flatten; [apply mkLs_ok, HJ | rewrite (mkLs_K xs M Hl); exact HP].
  Qed.

  (* ---- the relation's thresh clause under a selection mask ---- *)
  Notation PR := (fun x => R e ke x).
  Definition satdead (x : ms) : Prop := forall w, okw w -> SatR x w -> False.
  Lemma rthr_empty xs : forall M j w, Forall2 (fun x (b : bool) => b = false -> satdead x) xs M ->
    (ctrue M < j)%nat -> okw w -> Rthr PR xs w j -> False.
  Proof.
    induction xs as [|x r IH]; intros M j w HF Hj Hw H; inversion HF as [|? b ? m Hb Hr]; subst.
    - destruct H as [_ ->]. cbn in Hj. lia.
    - apply Rthr_cons in H. destruct H as [wx [wr [-> H]]]. destruct (okw_app _ _ Hw) as [Hwx Hwr]. cbn [ctrue] in Hj.
      destruct H as [[j' [-> [H1 H2]]]|[H1 H2]].
      + destruct b.
        * apply (IH m j' wr Hr); [lia | exact Hwr | exact H2].
        * apply (Hb eq_refl wx Hwx). exists [1%N]. exact H1.
      + apply (IH m j wr Hr); [destruct b; lia | exact Hwr | exact H2].
  Qed.
  Lemma rthr_masked xs : forall M w, Forall2 (fun x (b : bool) => b = false -> satdead x) xs M ->
    okw w -> Rthr PR xs w (ctrue M) -> isprod (map sT (mkLs xs M)) w.
  Proof.
    induction xs as [|x r IH]; intros M w HF Hw H; inversion HF as [|? b ? m Hb Hr]; subst.
    - destruct H as [-> _]. reflexivity.
    - apply Rthr_cons in H. destruct H as [wx [wr [-> H]]]. destruct (okw_app _ _ Hw) as [Hwx Hwr].
      cbn [mkLs map isprod]. unfold sT at 1. cbn [snd]. cbn [ctrue] in H.
      destruct H as [[j' [Ej [H1 H2]]]|[H1 H2]].
      + destruct b.
        * exists wx, wr. split; [reflexivity|]. split; [exists [1%N]; exact H1|]. apply IH; [exact Hr | exact Hwr|].
          assert (j' = ctrue m) by lia. subst j'. exact H2.
        * exfalso. apply (Hb eq_refl wx Hwx). exists [1%N]. exact H1.
      + destruct b.
        * exfalso. apply (rthr_empty r m (S (ctrue m)) wr Hr ltac:(lia) Hwr H2).
        * exists wx, wr. split; [reflexivity|]. split; [exists []; exact H1|]. apply IH; [exact Hr | exact Hwr | exact H2].
  Qed.
  Lemma ctrue_repeat_false n : ctrue (repeat false n) = 0%nat.
  Proof. induction n as [|n IH]; [reflexivity|]. cbn [repeat ctrue]. rewrite IH. reflexivity. Qed.
  Lemma nth_repeat {X} (x d : X) n i : (i < n)%nat -> nth i (repeat x n) d = x.
  Proof. revert i. induction n as [|n IH]; intros i Hi; [lia|]. destruct i; [reflexivity|]. cbn [repeat nth]. apply IH. lia. Qed.

  (* all children dissatisfied: every other count needs a satisfied child *)
  Lemma JS_thresh_dis xs : Forall childS xs -> pdisj (map ukeys xs) -> Forall clean (map fst (map usd xs)) ->
    Forall (fun x => novis (ukeys x) -> satdead x) xs ->
    JS (flat_map ukeys xs) (flatten_rev (map fst (map usd xs))) (fun w => exists j, Rthr PR xs w j).
  Proof.
    intros HJ HP Hc Hs. destruct (JS_mask xs (repeat false (length xs)) (repeat_length _ _) HJ HP) as [Ck G].
    rewrite (mkL_C_const ke se rhs false) in G, Ck.
    assert (Cl : clean (flatten_rev (map fst (map usd xs)))) by (unfold flatten_rev; apply fold_clean; [exact Hc | apply clean_trivial]).
    assert (HF : novis (flat_map ukeys xs) -> Forall2 (fun x (b : bool) => b = false -> satdead x) xs (repeat false (length xs))).
    { intros Hn. apply (Forall2_of_nth _ MTrue false); [rewrite repeat_length; reflexivity|]. intros i Hi _.
      rewrite Forall_forall in Hs. apply (Hs _ (nth_In xs MTrue Hi)). exact (novis_incl _ _ (tu_keys_in xs i Hi) Hn). }
    constructor.
    - intros Hi. destruct (clean_not_ios _ Cl Hi).
    - intros l bs Hl Hf Hv w Hw [j H].
      assert (Hn : novis (flat_map ukeys xs)) by exact (vis_nosig_novis _ l Hv (clean_nosig_stack _ l Cl (proj1 (proj2 Ck)) Hl)).
      destruct j as [|j'].
      + apply (js_stk _ _ _ G l bs Hl Hf Hv w Hw). apply rthr_masked; [exact (HF Hn) | exact Hw|]. rewrite ctrue_repeat_false. exact H.
      + exfalso. apply (rthr_empty xs _ (S j') w (HF Hn)); [rewrite ctrue_repeat_false; lia | exact Hw | exact H].
  Qed.

  Lemma JS_sub_okw K c (T T' : wset) : (forall w, okw w -> T' w -> T w) -> JS K c T -> JS K c T'.
  Proof.
    intros Hs H. constructor.
    - intros Hi Hn w Hw Ht. exact (js_ios _ _ _ H Hi Hn w Hw (Hs w Hw Ht)).
    - intros l bs Hl Hf Hv w Hw Ht. exact (js_stk _ _ _ H l bs Hl Hf Hv w Hw (Hs w Hw Ht)).
  Qed.

  (* all children satisfied *)
  Lemma JS_thresh_all xs : Forall childS xs -> pdisj (map ukeys xs) ->
    JS (flat_map ukeys xs) (flatten_rev (map snd (map usd xs))) (fun w => Rthr PR xs w (length xs)).
  Proof.
    intros HJ HP. destruct (JS_mask xs (repeat true (length xs)) (repeat_length _ _) HJ HP) as [_ G].
    rewrite (mkL_C_const ke se rhs true) in G. revert G. apply JS_sub_okw.
    intros w Hw H. apply rthr_masked; [|exact Hw | rewrite ctrue_repeat_true; exact H].
    apply (Forall2_of_nth _ MTrue false); [rewrite repeat_length; reflexivity|]. intros i Hi E.
    rewrite (nth_repeat true false (length xs) i Hi) in E. discriminate.
  Qed.

  (* k < n *)
  Lemma JS_thresh_nm xs k : (k < length xs)%nat -> Forall childS xs -> Forall (childJ ke A se f rhs) xs ->
    pdisj (map ukeys xs) -> Forall clean (map fst (map usd xs)) ->
    JS (flat_map ukeys xs) (thresh_nonmall se k (map fst (map usd xs)) (map snd (map usd xs))) (fun w => Rthr PR xs w k).
  Proof.
    intros Hk HS HJ HP Hc. rewrite thresh_nonmall_eq.
    set (dissats := map fst (map usd xs)). set (sats := map snd (map usd xs)). set (order := nm_order se dissats sats).
    assert (Hkth : (nth (k - 1) order 0 < length xs)%nat).
    { apply (tu_lt ke se rhs xs k Hk). apply nth_In. unfold order. rewrite nmo_len, (tu_len_d ke se rhs xs). lia. }
    pose proof (clean_nimp _ (tu_clean ke se rhs xs Hc _ Hkth)) as E1. unfold nimp in E1. fold dissats in E1. rewrite E1.
    destruct (negb _ && negb _) eqn:E2; [apply JS_unavail|].
    set (C := firstn k order). set (Rr := skipn k order). set (ret := swap_in C dissats sats).
    destruct (JS_mask xs (Msel ke se rhs xs k) (Msel_len ke se rhs xs k) HS HP) as [Ck G]. rewrite <- (tu_ret ke se rhs xs k Hk) in G, Ck.
    fold dissats sats order C ret in G, Ck.
    assert (Hchild : forall i, (i < length xs)%nat -> childS (nth i xs MTrue)).
    { intros i Hi. rewrite Forall_forall in HS. apply HS, nth_In, Hi. }
    (* a child whose satisfaction is Impossible-or-signed is dead for a party that sees none of its keys *)
    assert (Hdead : forall i, (i < length xs)%nat -> weak ke se rhs xs i = false -> novis (ukeys (nth i xs MTrue)) -> satdead (nth i xs MTrue)).
    { intros i Hi Hwk Hn w Hw Ht. destruct (Hchild i Hi) as [_ [_ [_ Js]]]. refine (js_ios _ _ _ Js _ Hn w Hw Ht).
      unfold weak in Hwk. rewrite (tu_ns ke se rhs xs i Hi) in Hwk. unfold ios.
      destruct (is_imp (s_stack (snd (usd (nth i xs MTrue))))); [left; reflexivity|]. destruct (s_has_sig (snd (usd (nth i xs MTrue)))); [right; reflexivity | discriminate]. }
    constructor.
    - (* Impossible-or-signed result: a chosen satisfaction is, hence fewer than k weak children *)
      intros Hi Hn w Hw H.
      assert (Hex : exists c, In c ret /\ ios c).
      { unfold flatten_rev in Hi. destruct Hi as [Hi|Hi].
        - destruct (fold_imp_inv se Habs_unit Hrel_unit ret (tu_ret_held ke A se f rhs xs k Hk HJ) TRIVIAL (held_const se _ _) Hi) as [H0|[c [Hc1 Hc2]]]; [cbn in H0; discriminate|].
          exists c. split; [exact Hc1 | left; exact Hc2].
        - destruct (fold_sig_inv ret TRIVIAL Hi) as [H0|[c [Hc1 Hc2]]]; [cbn in H0; discriminate|].
          exists c. split; [exact Hc1 | right; exact Hc2]. }
      destruct Hex as [c [Hcr Hic]]. apply (tu_ret_in ke se rhs xs k Hk) in Hcr. destruct Hcr as [i [Hi' [[HC ->]|[HR ->]]]].
      + assert (Hwi : weak ke se rhs xs i = false).
        { unfold weak. rewrite (tu_ns ke se rhs xs i Hi'). destruct Hic as [G1|G1]; rewrite G1; [reflexivity | apply Bool.andb_false_r]. }
        apply (rthr_empty xs (map (weak ke se rhs xs) (seq 0 (length xs))) k w); [| |exact Hw | exact H].
        * apply (Forall2_of_nth _ MTrue false); [rewrite map_length, seq_length; reflexivity|]. intros j Hj E.
          rewrite (nth_map_d (weak ke se rhs xs) (seq 0 (length xs)) j 0%nat false) in E by (rewrite seq_length; exact Hj). rewrite seq_nth in E by exact Hj.
          exact (Hdead j Hj E (novis_incl _ _ (tu_keys_in xs j Hj) Hn)).
        * rewrite ctrue_map. exact (tu_few ke se rhs xs k Hk (weak ke se rhs xs) i HC Hwi (tu_weak_down ke se rhs xs k i HC Hwi)).
      + exfalso. pose proof (tu_clean ke se rhs xs Hc i Hi') as Cl. rewrite (tu_nd ke se rhs xs i Hi') in Cl. exact (clean_not_ios _ Cl Hic).
    - (* a stack: only the chosen children can be satisfied *)
      intros l bs Hl Hf Hv w Hw H.
      apply (js_stk _ _ _ G l bs Hl Hf Hv w Hw). apply rthr_masked; [|exact Hw | rewrite (Msel_ctrue ke se rhs xs k Hk); exact H].
      apply (Forall2_of_nth _ MTrue false); [rewrite Msel_len; reflexivity|].
      intros i Hi E. rewrite (Msel_nth ke se rhs xs k i Hi) in E. pose proof (sel_false ke se rhs xs k Hk i Hi E) as HR.
      apply (Hdead i Hi (tu_rest_strong ke se rhs xs k Hk E2 i HR)).
      intros k0 Hk0 Hin.
      assert (Hin' : In (PhSig k0) l) by (apply Hv; [apply (tu_keys_in xs i Hi), Hk0 | exact Hin]).
      destruct (tu_sig_chosen ke A se f rhs xs k Hk HJ Hc l k0 Hl Hin') as [c [Hcc Hkc]].
      assert (Hne : c <> i) by (intros ->; exact (tu_C_notR ke se rhs xs k i Hcc HR)).
      exact (tu_disj xs HP c i (tu_lt ke se rhs xs k Hk c (nmo_inC se k dissats sats c Hcc)) Hi Hne k0 Hkc Hk0).
  Qed.

  (* ================= multi / multi_a: through the third party's table ================= *)
  Hypothesis Hse : forall kbs, e_sigok e kbs [] = false.

  Lemma okw_incl w w' : incl w' w -> okw w -> okw w'.
  Proof. intros Hi H k x Hk Hx. apply (H k x Hk), Hi, Hx. Qed.

  Lemma sub_pick_v ks : incl ks Ktop -> forall S, SubV e (map (kb ke) ks) S -> okw S -> In S (pick_sigs Bv (length S) ks).
  Proof.
    induction ks as [|key r IH]; intros Hi S H Hw; cbn [map] in H.
    - inversion H; subst. left. reflexivity.
    - cbn [pick_sigs]. apply in_or_app. inversion H; subst.
      + left. cbn [length]. assert (Hne : s <> []) by (intros ->; rewrite Hse in *; discriminate).
        destruct (Hw key s (Hi key (or_introl eq_refl)) (or_introl eq_refl) Hne ltac:(assumption)) as [Ea Hv].
        rewrite (Bv_sig key s Ea Hv). apply in_map. apply IH; [intros x Hx; apply Hi; right; exact Hx | assumption | exact (okw_tl _ _ Hw)].
      + right. apply IH; [intros x Hx; apply Hi; right; exact Hx | assumption | exact Hw].
  Qed.
  Lemma emb_multi k ks w v : incl ks Ktop -> okw w -> Rcms e k (map (kb ke) ks) true w v ->
    In w (map (fun sigs => rev sigs ++ [[]]) (pick_sigs Bv (N.to_nat k) ks)).
  Proof.
    intros Hi Hw [_ [sigs [-> [Hl [_ Hm]]]]].
    apply (mm_sub_inv e), SubV_rev in Hm. rewrite rev_involutive in Hm.
    apply in_map_iff. exists (rev sigs). split; [rewrite rev_involutive; reflexivity|].
    rewrite <- Hl, <- (rev_length sigs). apply (sub_pick_v ks Hi); [exact Hm|].
    apply (okw_incl _ _ (fun x Hx => in_or_app _ _ x (or_introl (proj2 (in_rev sigs x) Hx))) Hw).
  Qed.
  Lemma emb_multi_a ks : incl ks Ktop -> forall w j, okw w -> Rcsa e ke ks w j -> In w (pick_sigs_a Bv j ks).
  Proof.
    induction ks as [|key r IH]; intros Hi w j Hw H; cbn [Rcsa] in H.
    - destruct H as [-> ->]. left. reflexivity.
    - destruct H as [sg [w' [-> [_ H]]]]. cbn [pick_sigs_a]. apply in_or_app.
      assert (Hi' : incl r Ktop) by (intros x Hx; apply Hi; right; exact Hx).
      destruct H as [[-> H]|[Hne [Hok [j' [-> H]]]]].
      + right. apply in_map. apply IH; [exact Hi' | exact (okw_tl _ _ Hw) | exact H].
      + left. destruct (Hw key sg (Hi key (or_introl eq_refl)) (or_introl eq_refl) Hne Hok) as [Ea Hv].
        rewrite (Bv_sig key sg Ea Hv). apply in_map. apply IH; [exact Hi' | exact (okw_tl _ _ Hw) | exact H].
  Qed.
  Lemma csa_novis ks : incl ks Ktop -> novis ks -> forall w j, okw w -> Rcsa e ke ks w j -> w = repeat [] (length ks).
  Proof.
    induction ks as [|key r IH]; intros Hi Hn w j Hw H; cbn [Rcsa] in H.
    - destruct H as [-> _]. reflexivity.
    - destruct H as [sg [w' [-> [_ H]]]].
      assert (Hi' : incl r Ktop) by (intros x Hx; apply Hi; right; exact Hx).
      assert (Hn' : novis r) by (intros x Hx; apply Hn; right; exact Hx).
      destruct H as [[-> H]|[Hne [Hok _]]].
      + cbn [length repeat]. f_equal. exact (IH Hi' Hn' w' j (okw_tl _ _ Hw) H).
      + exfalso. destruct (Hw key sg (Hi key (or_introl eq_refl)) (or_introl eq_refl) Hne Hok) as [_ Hv]. exact (Hn key (or_introl eq_refl) Hv).
  Qed.

  Lemma ft_multi_gen (kN : N) ks : (1 <= kN)%N -> NoDup ks -> incl ks Ktop ->
    finv ks (sd_multi se kN ks) (fun w => exists v, Rcms e kN (map (kb ke) ks) false w v)
         (fun w => exists v, Rcms e kN (map (kb ke) ks) true w v) m_multi.
  Proof.
    intros Hk Hnd Hi. pose proof (ut_multi_gen ke A se f L kN ks Hk Hnd) as U.
    constructor; cbn [m_multi m_dissat]; try discriminate.
    - apply (JS_of_J ks _ _ _ (u_js _ _ _ _ _ _ _ _ U eq_refl)). intros w Hw [v H]. exact (emb_multi kN ks w v Hi Hw H).
    - intros _. unfold sd_multi. cbv zeta.
      assert (G : JS ks (mkSat (WStack (repeat PhPushZero (S (N.to_nat kN)))) false None None)
                     (fun w => exists v, Rcms e kN (map (kb ke) ks) false w v)).
      { apply (JS_const ks _ (repeat [] (S (N.to_nat kN)))); [apply fill_repeat_zero|].
        intros w [v [_ [sigs [-> [_ [_ [_ ->]]]]]]]. rewrite rev_repeat. apply repeat_snoc. }
      destruct (Nat.ltb _ _); exact G.
  Qed.
  Lemma ft_multi_a_gen (kN : N) ks : (1 <= kN)%N -> NoDup ks -> incl ks Ktop ->
    finv ks (sd_multi_a se kN ks) (fun w => exists j, Rcsa e ke ks w j /\ false = N.eqb (N.of_nat j) kN)
         (fun w => exists j, Rcsa e ke ks w j /\ true = N.eqb (N.of_nat j) kN) m_multi_a.
  Proof.
    intros Hk Hnd Hi. pose proof (ut_multi_a_gen ke A se f L kN ks Hk Hnd) as U.
    constructor; cbn [m_multi_a m_dissat]; try discriminate.
    - apply (JS_of_J ks _ _ _ (u_js _ _ _ _ _ _ _ _ U eq_refl)). intros w Hw [j [H Ej]].
      symmetry in Ej. apply N.eqb_eq in Ej. subst kN. rewrite Nat2N.id. exact (emb_multi_a ks Hi w j Hw H).
    - intros _. unfold sd_multi_a. cbv zeta.
      assert (G : JS ks (mkSat (WStack (repeat PhPushZero (length ks))) false None None)
                     (fun w => exists j, Rcsa e ke ks w j /\ false = N.eqb (N.of_nat j) kN)).
      { constructor; [intros [H|H]; discriminate|].
        intros l bs Hl Hf Hv w Hw [j [H _]]. cbn in Hl. inversion Hl; subst l. rewrite fill_repeat_zero in Hf. inversion Hf; subst bs.
        rewrite rev_repeat. apply (csa_novis ks Hi (vis_nosig_novis ks _ Hv (nosig_repeat (length ks))) w j Hw H). }
      destruct (Nat.ltb _ _); exact G.
  Qed.

  (* ================= the induction ================= *)
  Hypothesis Hksort : forall ks, Permutation (ksort ke ks) ks.

  Definition FInv (m : ms) (t : ty) : Prop := finv (ukeys m) (usd m) (DsatR m) (SatR m) (t_mall t).

  Lemma nm_children2 (ml mr : mall) :
    m_nm (m_and_v ml mr) = true \/ m_nm (m_and_b ml mr) = true \/ m_nm (m_or_b ml mr) = true \/
    m_nm (m_or_d ml mr) = true \/ m_nm (m_or_c ml mr) = true \/ m_nm (m_or_i ml mr) = true ->
    m_nm ml = true /\ m_nm mr = true.
  Proof.
    destruct ml as [dl sl nl], mr as [dr sr nr]. cbn.
    destruct nl, nr; [auto | | |]; intros H; exfalso; repeat (destruct H as [H|H]; [destruct dl, dr, sl, sr; discriminate|]); destruct dl, dr, sl, sr; discriminate.
  Qed.
  Lemma nmc_and_v ml mr : m_nm (m_and_v ml mr) = true -> m_nm ml = true /\ m_nm mr = true.
  Proof. intros H. apply nm_children2. auto. Qed.
  Lemma nmc_and_b ml mr : m_nm (m_and_b ml mr) = true -> m_nm ml = true /\ m_nm mr = true.
  Proof. intros H. apply nm_children2. auto. Qed.
  Lemma nmc_or_b ml mr : m_nm (m_or_b ml mr) = true -> m_nm ml = true /\ m_nm mr = true.
  Proof. intros H. apply nm_children2. auto. Qed.
  Lemma nmc_or_d ml mr : m_nm (m_or_d ml mr) = true -> m_nm ml = true /\ m_nm mr = true.
  Proof. intros H. apply nm_children2. auto. Qed.
  Lemma nmc_or_c ml mr : m_nm (m_or_c ml mr) = true -> m_nm ml = true /\ m_nm mr = true.
  Proof. intros H. apply nm_children2. auto 7. Qed.
  Lemma nmc_or_i ml mr : m_nm (m_or_i ml mr) = true -> m_nm ml = true /\ m_nm mr = true.
  Proof. intros H. apply nm_children2. auto 7. Qed.
  Lemma nm_children3 (ma mb mc : mall) : m_nm (m_and_or ma mb mc) = true -> m_nm ma = true /\ m_nm mb = true /\ m_nm mc = true.
  Proof.
    destruct ma as [da sa na], mb as [db sb nb], mc as [dc sc nc]. cbn. intros H.
    repeat (apply Bool.andb_true_iff in H; destruct H as [H ?]). subst. auto.
  Qed.
  Lemma cnt_full {X} (g : X -> bool) l : cnt g l = length l -> forall x, In x l -> g x = true.
  Proof.
    unfold cnt. induction l as [|y r IH]; intros H x Hx; [destruct Hx|]. cbn [filter length] in H.
    pose proof (cnt_le_len g r) as G. unfold cnt in G. destruct (g y) eqn:E.
    - cbn [length] in H. destruct Hx as [<-|Hx]; [exact E | apply IH; [lia | exact Hx]].
    - lia.
  Qed.

  Ltac bin_start IH1 IH2 Ht Hwf Hlw Hif Hnd Hin Hnm lemnm :=
    apply type2 in Ht; destruct Ht as [tx [ty [Hx [Hy Hc]]]]; apply lift2_mall in Hc; unfold FInv; rewrite Hc in *; destruct Hwf as [W1 W2]; destruct Hlw as [L1 L2]; destruct Hif as [I1 I2];
    cbn [ukeys] in Hnd, Hin |- *; destruct (nodup_app_disj _ _ Hnd) as [N1 [N2 D]];
    destruct (lemnm (t_mall tx) (t_mall ty) Hnm) as [Nx Ny];
    pose proof (IH1 W1 L1 I1 N1 (fun k Hk => Hin k (in_or_app _ _ k (or_introl Hk))) tx Hx Nx) as F1;
    pose proof (IH2 W2 L2 I2 N2 (fun k Hk => Hin k (in_or_app _ _ k (or_intror Hk))) ty Hy Ny) as F2;
    pose proof (stat_of_uinv _ _ _ _ _ (uniq_inv ke A se f L Habs_unit Hrel_unit Hksort rhs _ W1 N1 tx Hx) Nx) as S1;
    pose proof (stat_of_uinv _ _ _ _ _ (uniq_inv ke A se f L Habs_unit Hrel_unit Hksort rhs _ W2 N2 ty Hy) Ny) as S2;
    unfold FInv, NonMallUniqueThresh.usd in F1, F2 |- *; cbn [sat_dissat];
    destruct (sat_dissat ke se false rhs _) as [ld ls] in F1, S1 |- *; destruct (sat_dissat ke se false rhs _) as [rd rs] in F2, S2 |- *.

  Ltac un1 Ht Hwf Hnd Hin IH :=
    apply type1 in Ht; destruct Ht as [tx [Hx Hc]]; apply lift1_mall in Hc; unfold FInv; rewrite Hc in *.

  Theorem script_inv : forall m, uwf m -> lwf m -> ifsafe (minimalif (e_sv e)) m -> NoDup (ukeys m) -> incl (ukeys m) Ktop ->
    forall t, type_of m = ROk t -> m_nm (t_mall t) = true -> FInv m t.
  Proof.
    induction m using ms_ind'; intros Hwf Hlw Hif Hnd Hin t0 Ht Hnm; cbn [uwf lwf ifsafe type_of] in *.
    - (* 1 *) inversion Ht; subst. exact ft_true.
    - (* 0 *) inversion Ht; subst. exact ft_false.
    - (* pk_k *) inversion Ht; subst. exact (ft_pk_k k (Hin k (or_introl eq_refl))).
    - (* pk_h *) inversion Ht; subst. exact (ft_pk_h k (Hin k (or_introl eq_refl))).
    - contradiction.
    - (* after *) inversion Ht; subst. unfold FInv, NonMallUniqueThresh.usd. cbn [sat_dissat ukeys]. apply ft_time.
      + intros w [v [H _]]. discriminate.
      + intros w [v [_ [-> [_ H]]]]. split; [reflexivity|]. rewrite (lk_after _ _ _ _ L), (Hlock_a t Hlw). exact H.
    - (* older *) inversion Ht; subst. unfold FInv, NonMallUniqueThresh.usd. cbn [sat_dissat ukeys]. apply ft_time.
      + intros w [v [H _]]. discriminate.
      + intros w [v [_ [-> [_ H]]]]. split; [reflexivity|]. rewrite (lk_older _ _ _ _ L), (Hlock_o t Hlw). exact H.
    - inversion Ht; subst. apply (ft_hash HSha256 h). intros w [v [x [-> [Hl [_ [Hh _]]]]]]. exists x. auto.
    - inversion Ht; subst. apply (ft_hash HHash256 h). intros w [v [x [-> [Hl [_ [Hh _]]]]]]. exists x. auto.
    - inversion Ht; subst. apply (ft_hash HRipemd160 h). intros w [v [x [-> [Hl [_ [Hh _]]]]]]. exists x. auto.
    - inversion Ht; subst. apply (ft_hash HHash160 h). intros w [v [x [-> [Hl [_ [Hh _]]]]]]. exists x. auto.
    - (* a *) un1 Ht Hwf Hnd Hin IHm. exact (IHm Hwf Hlw Hif Hnd Hin tx Hx Hnm).
    - (* s *) un1 Ht Hwf Hnd Hin IHm. exact (IHm Hwf Hlw Hif Hnd Hin tx Hx Hnm).
    - (* c *) un1 Ht Hwf Hnd Hin IHm. pose proof (IHm Hwf Hlw Hif Hnd Hin tx Hx Hnm) as F. revert F. unfold FInv. apply finv_sub.
      + intros w [v [_ [key H]]]. exists key. exact H.
      + intros w [v [_ [key H]]]. exists key. exact H.
    - (* d *) destruct Hif as [Hmi Hif]. un1 Ht Hwf Hnd Hin IHm. assert (Nx : m_nm (t_mall tx) = true) by (destruct (t_mall tx); exact Hnm).
      pose proof (IHm Hwf Hlw Hif Hnd Hin tx Hx Nx) as F.
      pose proof (stat_of_uinv _ _ _ _ _ (uniq_inv ke A se f L Habs_unit Hrel_unit Hksort rhs _ Hwf Hnd tx Hx) Nx) as S.
      unfold FInv, NonMallUniqueThresh.usd in F |- *. cbn [sat_dissat ukeys]. destruct (sat_dissat ke se false rhs m) as [d0 sub].
      refine (finv_sub _ _ _ _ _ _ _ _ _ (ft_dupif _ (d0, sub) _ _ _ S F)).
      + intros w [v [-> [Hc' _]]]. rewrite (mif v false Hmi Hc'). reflexivity.
      + intros w [v [-> [Hc' [Hs _]]]]. rewrite (mif v true Hmi Hc'). exists []. split; [reflexivity|]. exists []. exact (Hs eq_refl).
    - (* v *) un1 Ht Hwf Hnd Hin IHm. assert (Nx : m_nm (t_mall tx) = true) by (destruct (t_mall tx); exact Hnm).
      pose proof (IHm Hwf Hlw Hif Hnd Hin tx Hx Nx) as F. unfold FInv, NonMallUniqueThresh.usd in F |- *. cbn [sat_dissat ukeys].
      destruct (sat_dissat ke se false rhs m) as [d0 sub].
      refine (finv_sub _ _ _ _ _ _ _ _ _ (ft_verify _ (d0, sub) _ _ _ F)).
      + intros w [v [H _]]. discriminate.
      + intros w [v [_ [_ [v' H]]]]. exists v'. exact H.
    - (* j *) un1 Ht Hwf Hnd Hin IHm. assert (Nx : m_nm (t_mall tx) = true) by (destruct (t_mall tx); exact Hnm).
      pose proof (IHm Hwf Hlw Hif Hnd Hin tx Hx Nx) as F. unfold FInv, NonMallUniqueThresh.usd in F |- *. cbn [sat_dissat ukeys].
      destruct (sat_dissat ke se false rhs m) as [d0 sub].
      refine (finv_sub _ _ _ _ _ _ _ _ _ (ft_nonzero _ (d0, sub) _ _ _ F)).
      + intros w [v [[_ [-> _]]|[a [r [_ [_ [_ [H _]]]]]]]]; [left; reflexivity | right; exists v; exact H].
      + intros w [v [[H _]|[a [r [_ [_ [_ [H _]]]]]]]]; [discriminate | exists v; exact H].
    - (* n *) un1 Ht Hwf Hnd Hin IHm. pose proof (IHm Hwf Hlw Hif Hnd Hin tx Hx Hnm) as F. revert F. unfold FInv. apply finv_sub.
      + intros w [v [_ [v' [H _]]]]. exists v'. exact H.
      + intros w [v [_ [v' [H _]]]]. exists v'. exact H.
    - (* and_v *) bin_start IHm1 IHm2 Ht Hwf Hlw Hif Hnd Hin Hnm nmc_and_v.
      refine (finv_sub _ _ _ _ _ _ _ _ _ (ft_and_v _ _ (ld, ls) (rd, rs) _ _ _ _ _ _ D S1 S2 F1 F2)).
      + intros w [v [wx [wy [-> [H1 H2]]]]]. exists wx, wy. split; [reflexivity|]. split; [exists []; exact H1 | exists v; exact H2].
      + intros w [v [wx [wy [-> [H1 H2]]]]]. exists wx, wy. split; [reflexivity|]. split; [exists []; exact H1 | exists v; exact H2].
    - (* and_b *) bin_start IHm1 IHm2 Ht Hwf Hlw Hif Hnd Hin Hnm nmc_and_b.
      refine (finv_sub _ _ _ _ _ _ _ _ _ (ft_and_b _ _ (ld, ls) (rd, rs) _ _ _ _ _ _ D S1 S2 F1 F2)).
      + intros w [v [wx [wy [vx [vy [sx [sy [-> [H1 [H2 [_ [_ [Es _]]]]]]]]]]]]].
        destruct sx, sy; try discriminate.
        * right. left. exists wx, wy. split; [reflexivity|]. split; [exists vx; exact H1 | exists vy; exact H2].
        * right. right. exists wx, wy. split; [reflexivity|]. split; [exists vx; exact H1 | exists vy; exact H2].
        * left. exists wx, wy. split; [reflexivity|]. split; [exists vx; exact H1 | exists vy; exact H2].
      + intros w [v [wx [wy [vx [vy [sx [sy [-> [H1 [H2 [_ [_ [Es _]]]]]]]]]]]]].
        destruct sx, sy; try discriminate. exists wx, wy. split; [reflexivity|]. split; [exists vx; exact H1 | exists vy; exact H2].
    - (* andor *) apply rbind_ok in Ht. destruct Ht as [ta [Ha Ht]]. apply rbind_ok in Ht. destruct Ht as [tb [Hb Ht]]. apply rbind_ok in Ht. destruct Ht as [tc [Hc Ht]].
      apply and_or_mall in Ht. unfold FInv. rewrite Ht in *. destruct Hwf as [W1 [W2 W3]]. destruct Hlw as [L1 [L2 L3]]. destruct Hif as [I1' [I2' I3']]. cbn [ukeys] in Hnd, Hin |- *.
      destruct (nodup_app_disj _ _ Hnd) as [N1 [N23 D1]]. destruct (nodup_app_disj _ _ N23) as [N2 [N3 D23]].
      assert (Dab : disj (ukeys m1) (ukeys m2)) by (intros k H1 H2; apply (D1 k H1); apply in_or_app; left; exact H2).
      assert (Dac : disj (ukeys m1) (ukeys m3)) by (intros k H1 H2; apply (D1 k H1); apply in_or_app; right; exact H2).
      destruct (nm_children3 _ _ _ Hnm) as [Na [Nb Nc]].
      assert (I1 : incl (ukeys m1) Ktop) by (intros k Hk; apply Hin; apply in_or_app; left; exact Hk).
      assert (I2 : incl (ukeys m2) Ktop) by (intros k Hk; apply Hin; apply in_or_app; right; apply in_or_app; left; exact Hk).
      assert (I3 : incl (ukeys m3) Ktop) by (intros k Hk; apply Hin; apply in_or_app; right; apply in_or_app; right; exact Hk).
      pose proof (IHm1 W1 L1 I1' N1 I1 ta Ha Na) as F1. pose proof (IHm2 W2 L2 I2' N2 I2 tb Hb Nb) as F2. pose proof (IHm3 W3 L3 I3' N3 I3 tc Hc Nc) as F3.
      pose proof (stat_of_uinv _ _ _ _ _ (uniq_inv ke A se f L Habs_unit Hrel_unit Hksort rhs _ W1 N1 ta Ha) Na) as S1.
      pose proof (stat_of_uinv _ _ _ _ _ (uniq_inv ke A se f L Habs_unit Hrel_unit Hksort rhs _ W2 N2 tb Hb) Nb) as S2.
      pose proof (stat_of_uinv _ _ _ _ _ (uniq_inv ke A se f L Habs_unit Hrel_unit Hksort rhs _ W3 N3 tc Hc) Nc) as S3.
      unfold FInv, NonMallUniqueThresh.usd in F1, F2, F3 |- *. cbn [sat_dissat].
      destruct (sat_dissat ke se false rhs m1) as [ad asat], (sat_dissat ke se false rhs m2) as [bd bs], (sat_dissat ke se false rhs m3) as [cd cs].
      refine (finv_sub _ _ _ _ _ _ _ _ _ (ft_and_or _ _ _ (ad, asat) (bd, bs) (cd, cs) _ _ _ _ _ _ _ _ _ Dab Dac D23 S1 S2 S3 F1 F2 F3 Hnm)).
      + intros w [v [wa [w' [va [-> [[H1 [_ [H2 _]]]|[H1 [_ H2]]]]]]]].
        * right. exists wa, w'. split; [reflexivity|]. split; [exists va; exact H1 | exists v; exact H2].
        * left. exists wa, w'. split; [reflexivity|]. split; [exists va; exact H1 | exists v; exact H2].
      + intros w [v [wa [w' [va [-> [[H1 [_ [H2 _]]]|[H1 [_ H2]]]]]]]].
        * left. exists wa, w'. split; [reflexivity|]. split; [exists va; exact H1 | exists v; exact H2].
        * right. exists wa, w'. split; [reflexivity|]. split; [exists va; exact H1 | exists v; exact H2].
    - (* or_b *) bin_start IHm1 IHm2 Ht Hwf Hlw Hif Hnd Hin Hnm nmc_or_b.
      refine (finv_sub _ _ _ _ _ _ _ _ _ (ft_or_b _ _ (ld, ls) (rd, rs) _ _ _ _ _ _ D S1 S2 F1 F2 Hnm)).
      + intros w [v [wx [wy [vx [vy [sx [sy [-> [H1 [H2 [_ [_ [Es _]]]]]]]]]]]]].
        destruct sx, sy; try discriminate. exists wx, wy. split; [reflexivity|]. split; [exists vx; exact H1 | exists vy; exact H2].
      + intros w [v [wx [wy [vx [vy [sx [sy [-> [H1 [H2 [_ [_ [Es _]]]]]]]]]]]]].
        destruct sx, sy; try discriminate.
        * right. exists wx, wy. split; [reflexivity|]. split; [exists vx; exact H1 | exists vy; exact H2].
        * left. right. exists wx, wy. split; [reflexivity|]. split; [exists vx; exact H1 | exists vy; exact H2].
        * left. left. exists wx, wy. split; [reflexivity|]. split; [exists vx; exact H1 | exists vy; exact H2].
    - (* or_d *) bin_start IHm1 IHm2 Ht Hwf Hlw Hif Hnd Hin Hnm nmc_or_d.
      refine (finv_sub _ _ _ _ _ _ _ _ _ (ft_or_d _ _ (ld, ls) (rd, rs) _ _ _ _ _ _ D S1 S2 F1 F2 Hnm)).
      + intros w [v [[H _]|[wx [wy [vx [-> [H1 [_ H2]]]]]]]]; [discriminate|].
        exists wx, wy. split; [reflexivity|]. split; [exists vx; exact H1 | exists v; exact H2].
      + intros w [v [[_ [H _]]|[wx [wy [vx [-> [H1 [_ H2]]]]]]]]; [left; exists v; exact H|].
        right. exists wx, wy. split; [reflexivity|]. split; [exists vx; exact H1 | exists v; exact H2].
    - (* or_c *) bin_start IHm1 IHm2 Ht Hwf Hlw Hif Hnd Hin Hnm nmc_or_c.
      refine (finv_sub _ _ _ _ _ _ _ _ _ (ft_or_c _ _ (ld, ls) (rd, rs) _ _ _ _ _ _ D S1 S2 F1 F2 Hnm)).
      + intros w [v [H _]]. discriminate.
      + intros w [v [_ [_ [[vx [H _]]|[wx [wy [vx [-> [H1 [_ H2]]]]]]]]]]; [left; exists vx; exact H|].
        right. exists wx, wy. split; [reflexivity|]. split; [exists vx; exact H1 | exists []; exact H2].
    - (* or_i *) destruct Hif as [Hmi Hif]. bin_start IHm1 IHm2 Ht Hwf Hlw Hif Hnd Hin Hnm nmc_or_i.
      refine (finv_sub _ _ _ _ _ _ _ _ _ (ft_or_i _ _ (ld, ls) (rd, rs) _ _ _ _ _ _ D S1 S2 F1 F2)).
      + intros w [v [sel [w' [b [-> [Hc' [H _]]]]]]]. rewrite (mif sel b Hmi Hc'). destruct b; [left | right]; (exists w'; split; [reflexivity | exists v; exact H]).
      + intros w [v [sel [w' [b [-> [Hc' [H _]]]]]]]. rewrite (mif sel b Hmi Hc'). destruct b; [left | right]; (exists w'; split; [reflexivity | exists v; exact H]).
    - (* thresh *) destruct Hwf as [Hk Hwf]. apply rbind_ok in Ht. destruct Ht as [ts [Hts Ht]].
      apply (tys_of_ok xs ts) in Hts. apply threshold_mall in Ht. unfold FInv. rewrite Ht in *. clear Ht.
      cbn [ukeys] in Hnd, Hin |- *. destruct (Forall2_ix _ _ _ MTrue dty Hts) as [Hlen Hty].
      set (n := length xs) in *. set (mls := map t_mall ts) in *.
      assert (Hlm : length mls = n) by (unfold mls; rewrite map_length; lia).
      rewrite m_threshold_closed in Hnm |- *. cbv zeta in Hnm |- *. fold mls in Hnm |- *. rewrite Hlm in Hnm |- *. cbn [m_nm] in Hnm.
      apply Bool.andb_true_iff in Hnm. destruct Hnm as [Hnm Edu]. apply Bool.andb_true_iff in Hnm. destruct Hnm as [Enm Ec].
      rewrite forallb_forall in Edu, Enm.
      assert (Hnmi : forall i, (i < n)%nat -> nth i mls m_true = t_mall (nth i ts dty)) by (intros i Hi; unfold mls; apply nth_map_d; lia).
      assert (G : forall i, (i < n)%nat -> m_nm (t_mall (nth i ts dty)) = true /\ m_dissat (t_mall (nth i ts dty)) = DUnique).
      { intros i Hi. rewrite <- (Hnmi i Hi). assert (Hin' : In (nth i mls m_true) mls) by (apply nth_In; lia). split; [apply Enm, Hin'|].
        specialize (Edu _ Hin'). unfold is_du in Edu. destruct (m_dissat (nth i mls m_true)); try discriminate. reflexivity. }
      assert (HPd : pdisj (map ukeys xs) /\ Forall (@NoDup key) (map ukeys xs)).
      { rewrite flat_map_concat_map in Hnd. apply nodup_concat_pdisj in Hnd. exact Hnd. }
      destruct HPd as [HPd HNd].
      assert (Hwfi : forall i, (i < n)%nat -> uwf (nth i xs MTrue)).
      { intros i Hi. assert (Hin' : In (nth i xs MTrue) xs) by (apply nth_In, Hi). revert Hin'. generalize (nth i xs MTrue). clear -Hwf. intros y Hy.
        induction xs as [|x r IH]; [contradiction|]. destruct Hwf as [W1 W2]. destruct Hy as [<-|Hy]; [exact W1 | apply IH; assumption]. }
      assert (Hlwi : forall i, (i < n)%nat -> lwf (nth i xs MTrue)).
      { intros i Hi. assert (Hin' : In (nth i xs MTrue) xs) by (apply nth_In, Hi). revert Hin'. generalize (nth i xs MTrue). clear -Hlw. intros y Hy.
        induction xs as [|x r IH]; [contradiction|]. destruct Hlw as [W1 W2]. destruct Hy as [<-|Hy]; [exact W1 | apply IH; assumption]. }
      assert (Hifi : forall i, (i < n)%nat -> ifsafe (minimalif (e_sv e)) (nth i xs MTrue)).
      { intros i Hi. assert (Hin' : In (nth i xs MTrue) xs) by (apply nth_In, Hi). revert Hin'. generalize (nth i xs MTrue). clear -Hif. intros y Hy.
        induction xs as [|x r IH]; [contradiction|]. destruct Hif as [W1 W2]. destruct Hy as [<-|Hy]; [exact W1 | apply IH; assumption]. }
      assert (Hndi : forall i, (i < n)%nat -> NoDup (ukeys (nth i xs MTrue))).
      { intros i Hi. rewrite Forall_forall in HNd. apply HNd. apply in_map. apply nth_In, Hi. }
      assert (Hini : forall i, (i < n)%nat -> incl (ukeys (nth i xs MTrue)) Ktop).
      { intros i Hi k0 Hk0. apply Hin. exact (tu_keys_in xs i Hi k0 Hk0). }
      assert (HF : forall i (Hi : (i < n)%nat), FInv (nth i xs MTrue) (nth i ts dty)).
      { intros i Hi. rewrite Forall_forall in H. apply (H _ (nth_In xs MTrue Hi) (Hwfi i Hi) (Hlwi i Hi) (Hifi i Hi) (Hndi i Hi) (Hini i Hi) _ (Hty i Hi)). apply (G i Hi). }
      assert (HU : forall i (Hi : (i < n)%nat), uinv A se f (ukeys (nth i xs MTrue)) (usd (nth i xs MTrue))
                     (fun B => all_dsat ke B (nth i xs MTrue)) (fun B => all_sat ke B (nth i xs MTrue)) (t_mall (nth i ts dty))).
      { intros i Hi. exact (uniq_inv ke A se f L Habs_unit Hrel_unit Hksort rhs _ (Hwfi i Hi) (Hndi i Hi) _ (Hty i Hi)). }
      assert (HS : Forall childS xs).
      { apply (forall_of_nth _ _ MTrue). intros i Hi. destruct (G i Hi) as [G1 G2].
        pose proof (stat_of_uinv _ _ _ _ _ (HU i Hi) G1) as S. pose proof (HF i Hi) as F. unfold FInv in F.
        split; [apply S|]. split; [apply S|]. split; [exact (f_du _ _ _ _ _ F G2) | exact (f_sat _ _ _ _ _ F)]. }
      assert (HJ : Forall (childJ ke A se f rhs) xs).
      { apply (forall_of_nth _ _ MTrue). intros i Hi. destruct (G i Hi) as [G1 _].
        split; [exact (u_jd _ _ _ _ _ _ _ _ (HU i Hi) G1) | exact (u_js _ _ _ _ _ _ _ _ (HU i Hi) G1)]. }
      assert (HC : Forall clean (map fst (map usd xs))).
      { apply (forall_of_nth _ _ IMPOSSIBLE). intros i Hi. rewrite !map_length in Hi. fold (nth_sat (map fst (map usd xs)) i).
        rewrite (tu_nd ke se rhs xs i Hi). destruct (G i Hi) as [G1 G2]. exact (u_du _ _ _ _ _ _ _ _ (HU i Hi) G1 G2). }
      unfold FInv, NonMallUniqueThresh.usd. cbn [sat_dissat]. rewrite ds_thresh. fold n.
      constructor; cbn [fst snd m_dissat].
      + (* satisfaction *)
        apply (JS_sub _ _ (fun w => Rthr PR xs w (N.to_nat k))).
        { intros w [v [_ [j [Hr [Ej _]]]]]. symmetry in Ej. apply N.eqb_eq in Ej. subst k. rewrite Nat2N.id. exact Hr. }
        destruct (N.eqb k (N.of_nat n)) eqn:Ek.
        * apply N.eqb_eq in Ek. replace (N.to_nat k) with (length xs) by (fold n; lia). exact (JS_thresh_all xs HS HPd).
        * apply N.eqb_neq in Ek. apply JS_thresh_nm; [fold n; lia | exact HS | exact HJ | exact HPd | exact HC].
      + intros E. destruct (forallb is_du mls && _); discriminate.
      + intros E. destruct (forallb is_du mls && N.eqb (N.of_nat (cnt m_signed mls)) (N.of_nat n)) eqn:Ed; [|discriminate].
        apply Bool.andb_true_iff in Ed. destruct Ed as [_ Ed]. apply N.eqb_eq in Ed.
        assert (Hall : forall i, (i < n)%nat -> m_signed (t_mall (nth i ts dty)) = true).
        { intros i Hi. rewrite <- (Hnmi i Hi). apply (cnt_full m_signed mls); [lia | apply nth_In; lia]. }
        apply (JS_sub _ _ (fun w => exists j, Rthr PR xs w j)).
        { intros w [v [_ [j [Hr _]]]]. exists j. exact Hr. }
        apply JS_thresh_dis; [exact HS | exact HPd | exact HC|].
        apply (forall_of_nth _ _ MTrue). intros i Hi Hn w Hw Hs. destruct (G i Hi) as [G1 _].
        exact (sat_dead _ _ _ _ _ (stat_of_uinv _ _ _ _ _ (HU i Hi) G1) (HF i Hi) (Hall i Hi) Hn w Hw Hs).
    - (* multi *) inversion Ht; subst. cbn [ukeys] in Hnd, Hin |- *. exact (ft_multi_gen k ks Hwf Hnd Hin).
    - (* sortedmulti *) inversion Ht; subst. cbn [ukeys] in Hnd, Hin |- *.
      assert (Hi' : incl (ksort ke ks) ks) by (intros x Hx; exact (Permutation_in x (Hksort ks) Hx)).
      apply (finv_weaken (ksort ke ks)); [exact Hi'|].
      exact (ft_multi_gen k (ksort ke ks) Hwf (Permutation_NoDup (Permutation_sym (Hksort ks)) Hnd) (fun x Hx => Hin x (Hi' x Hx))).
    - (* multi_a *) inversion Ht; subst. cbn [ukeys] in Hnd, Hin |- *.
      refine (finv_sub _ _ _ _ _ _ _ _ _ (ft_multi_a_gen k ks Hwf Hnd Hin)).
      + intros w [v [_ [j [H [E _]]]]]. exists j. split; assumption.
      + intros w [v [_ [j [H [E _]]]]]. exists j. split; assumption.
    - (* sortedmulti_a *) inversion Ht; subst. cbn [ukeys] in Hnd, Hin |- *.
      assert (Hi' : incl (ksort ke ks) ks) by (intros x Hx; exact (Permutation_in x (Hksort ks) Hx)).
      apply (finv_weaken (ksort ke ks)); [exact Hi'|].
      refine (finv_sub _ _ _ _ _ _ _ _ _ (ft_multi_a_gen k (ksort ke ks) Hwf (Permutation_NoDup (Permutation_sym (Hksort ks)) Hnd) (fun x Hx => Hin x (Hi' x Hx)))).
      + intros w [v [_ [j [H [E _]]]]]. exists j. split; assumption.
      + intros w [v [_ [j [H [E _]]]]]. exists j. split; assumption.
  Qed.
End Script.
