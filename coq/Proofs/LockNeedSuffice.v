(* C17 (L1): the locks a satisfaction of the model reports are ENOUGH.
   [lock_met e oa orl] is phrased with the Script semantics' own CLTV / CSV evaluation
   (Script/Exec.v: check_locktime / check_sequence) for exactly the reported values; nothing is
   asked about any other after() / older() of the fragment, nor about the locks the satisfier
   was allowed to consider.  The cryptographic side of the assets (signatures, preimages, keys) must be
   genuine for the environment ([crypto_ok], the lock-free part of TheoremA.assets_ok). *)
From Verif Require Import Exec Ser Ast Types TypeCheck SatSpec Sat ExecLemmas TheoremA SatProofs PlanProofs.
From Verif Require Import LockNeedExec LockNeedTable.
From Coq Require Import Lia.

(* ---------- CLTV / CSV on N operands ---------- *)
Lemma check_locktime_N e n : check_locktime e (Z.of_N n) =
  Bool.eqb (N.ltb n LOCKTIME_THRESHOLD) (N.ltb (e_locktime e) LOCKTIME_THRESHOLD)
  && N.leb n (e_locktime e) && negb (N.eqb (e_sequence e) SEQ_FINAL).
Proof.
  unfold check_locktime. rewrite N2Z.id.
  replace (0 <=? Z.of_N n)%Z with true by (symmetry; apply Z.leb_le; lia). reflexivity.
Qed.
Lemma check_sequence_N e n : check_sequence e (Z.of_N n) =
  if negb (N.eqb (N.land n SEQ_DISABLE) 0) then true else
  N.leb 2 (e_txversion e) && N.eqb (N.land (e_sequence e) SEQ_DISABLE) 0
  && N.eqb (N.land n SEQ_TYPE) (N.land (e_sequence e) SEQ_TYPE)
  && N.leb (N.land n SEQ_MASK) (N.land (e_sequence e) SEQ_MASK).
Proof.
  unfold check_sequence. rewrite N2Z.id.
  replace (0 <=? Z.of_N n)%Z with true by (symmetry; apply Z.leb_le; lia). reflexivity.
Qed.

Lemma check_locktime_mono e t T : abs_le t T = true ->
  check_locktime e (Z.of_N T) = true -> check_locktime e (Z.of_N t) = true.
Proof.
  rewrite !check_locktime_N. unfold abs_le, LOCKTIME_THRESHOLD. intros Hle H.
  apply andb_prop in Hle. destruct Hle as [E Hle]. apply Bool.eqb_prop in E. apply N.leb_le in Hle.
  apply andb_prop in H. destruct H as [H H3]. apply andb_prop in H. destruct H as [H1 H2]. apply N.leb_le in H2.
  rewrite E, H1, H3. cbn [andb]. rewrite Bool.andb_true_r. apply N.leb_le. lia.
Qed.

Lemma land_pow2 t n : N.land t (2 ^ n) = 0%N \/ N.land t (2 ^ n) = (2 ^ n)%N.
Proof.
  destruct (N.testbit t n) eqn:E; [right | left]; apply N.bits_inj; intros m; rewrite N.land_spec, N.pow2_bits_eqb;
  destruct (N.eqb_spec n m) as [->|Hne]; rewrite ?E, ?Bool.andb_false_r, ?N.bits_0; try reflexivity.
Qed.
Lemma land_type t : N.land t SEQ_TYPE = 0%N \/ N.land t SEQ_TYPE = SEQ_TYPE.
Proof. exact (land_pow2 t 22). Qed.
Lemma rel_is_time_land a b : rel_is_time a = rel_is_time b -> N.land a SEQ_TYPE = N.land b SEQ_TYPE.
Proof.
  unfold rel_is_time. change 4194304%N with SEQ_TYPE.
  destruct (land_type a) as [Ha|Ha], (land_type b) as [Hb|Hb]; rewrite Ha, Hb; intros E; try reflexivity;
  unfold SEQ_TYPE in E; cbn in E; discriminate.
Qed.
Lemma land_disable_small R : (R < 2147483648)%N -> N.land R SEQ_DISABLE = 0%N.
Proof.
  intros H. apply N.bits_inj. intros m. rewrite N.land_spec, N.bits_0. change SEQ_DISABLE with (2 ^ 31)%N.
  rewrite N.pow2_bits_eqb. destruct (N.eqb_spec 31 m) as [<-|Hne]; [|apply Bool.andb_false_r].
  rewrite Bool.andb_true_r. destruct (N.eq_dec R 0) as [->|Hz]; [apply N.bits_0|].
  apply N.bits_above_log2. apply N.log2_lt_pow2; [lia | exact H].
Qed.

Lemma check_sequence_mono e t R : rel_le t R = true -> N.land R SEQ_DISABLE = 0%N ->
  check_sequence e (Z.of_N R) = true -> check_sequence e (Z.of_N t) = true.
Proof.
  rewrite !check_sequence_N. intros Hle HR. rewrite HR. rewrite N.eqb_refl. cbn [negb]. intros H.
  destruct (negb (N.eqb (N.land t SEQ_DISABLE) 0)); [reflexivity|].
  unfold rel_le, rel_val in Hle. apply andb_prop in Hle. destruct Hle as [E Hle]. apply Bool.eqb_prop in E.
  apply rel_is_time_land in E. apply N.leb_le in Hle. change 65535%N with SEQ_MASK in Hle.
  apply andb_prop in H. destruct H as [H H4]. apply andb_prop in H. destruct H as [H H3]. apply andb_prop in H. destruct H as [H1 H2].
  apply N.eqb_eq in H3. apply N.leb_le in H4.
  rewrite H1, H2, E, H3, N.eqb_refl. cbn [andb]. apply N.leb_le. lia.
Qed.

(* ---------- what the environment must provide ---------- *)
Record crypto_ok (e : env) (ke : keyenv) (A : assets) : Prop := {
  co_sig : forall k s, a_sig A k = Some s -> e_sigok e (kb ke k) s = true /\ (0 < blen s < 2147483648)%N;
  co_key : forall k, e_keyok e (kb ke k) = true;
  co_keylen : forall k, (0 < blen (kb ke k) < 2147483648)%N;
  co_kh : forall k, e_hash160 e (kb ke k) = kh ke k;
  co_sha256 : forall h p, a_sha256 A h = Some p -> e_sha256 e p = h /\ blen p = 32%N;
  co_hash256 : forall h p, a_hash256 A h = Some p -> e_hash256 e p = h /\ blen p = 32%N;
  co_ripemd160 : forall h p, a_ripemd160 A h = Some p -> e_ripemd160 e p = h /\ blen p = 32%N;
  co_hash160 : forall h p, a_hash160 A h = Some p -> e_hash160 e p = h /\ blen p = 32%N
}.

Lemma assets_ok_crypto e ke A : assets_ok e ke A -> crypto_ok e ke A.
Proof. intros [H1 H2 H3 H4 H5 H6 H7 H8 _ _]. constructor; assumption. Qed.

Lemma crypto_ok_same e e' ke A : same_oracles e e' -> crypto_ok e ke A -> crypto_ok e' ke A.
Proof.
  intros [S1 S2 S3 S4 S5 S6 S7] [H1 H2 H3 H4 H5 H6 H7 H8]. constructor; rewrite ?S2, ?S3, ?S4, ?S5, ?S6, ?S7; assumption.
Qed.

(* the transaction's nLockTime / nSequence / version pass CLTV resp. CSV for the given operands *)
Definition lock_met (e : env) (oa orl : option N) : Prop :=
  (forall T, oa = Some T -> check_locktime e (Z.of_N T) = true) /\
  (forall R, orl = Some R -> check_sequence e (Z.of_N R) = true).

Definition lock_small (t : N) : Prop := (0 < t < 2147483648)%N.

Lemma restrict_assets_ok e ke A oa orl : crypto_ok e ke A -> lock_met e oa orl ->
  (forall R, orl = Some R -> lock_small R) -> assets_ok e ke (restrict A oa orl).
Proof.
  intros [H1 H2 H3 H4 H5 H6 H7 H8] [Ha Hr] Hb. constructor; try assumption; cbn [restrict a_after a_older]; intros t H;
  apply andb_prop in H; destruct H as [_ H].
  - destruct oa as [T|]; [|discriminate]. cbn [leo] in H. exact (check_locktime_mono e t T H (Ha T eq_refl)).
  - destruct orl as [R|]; [|discriminate]. cbn [leo] in H.
    apply (check_sequence_mono e t R H); [apply land_disable_small, (Hb R eq_refl) | exact (Hr R eq_refl)].
Qed.

(* ---------- every reported lock is one of the fragment's (hence in the legal range) ---------- *)
Definition lkP (P : N -> Prop) (r : satn) : Prop :=
  (forall T, s_abs r = Some T -> P T) /\ (forall R, s_rel r = Some R -> P R).

Lemma lkP_none P w hs : lkP P (mkSat w hs None None).
Proof. split; intros ? H; discriminate. Qed.

Lemma merge_pick (mx : N -> N -> option N) : (forall x y t, mx x y = Some t -> t = x \/ t = y) ->
  forall a b c, merge_lock mx a b = Some c -> c = a \/ c = b.
Proof.
  intros Hmx a b c H. destruct a as [x|], b as [y|]; cbn [merge_lock] in H.
  - destruct (mx x y) as [t|] eqn:E; [|discriminate]. inversion H; subst. destruct (Hmx x y t E) as [->| ->]; auto.
  - inversion H; auto.
  - inversion H; auto.
  - inversion H; auto.
Qed.
Lemma abs_max_pick x y t : abs_max x y = Some t -> t = x \/ t = y.
Proof. intros H. apply abs_max_spec in H. tauto. Qed.
Lemma rel_max_pick x y t : rel_max x y = Some t -> t = x \/ t = y.
Proof.
  unfold rel_max. destruct (Bool.eqb _ _); [|discriminate]. destruct (N.leb _ _); intros H; inversion H; auto.
Qed.

Lemma concat_lkP P a b : lkP P a -> lkP P b -> lkP P (concatenate_rev a b).
Proof.
  intros [Ha1 Ha2] [Hb1 Hb2]. unfold concatenate_rev.
  destruct (is_imp (s_stack a) || is_imp (s_stack b)); [apply lkP_none|].
  destruct (merge_lock rel_max (s_rel a) (s_rel b)) as [r|] eqn:Er; [|apply lkP_none].
  destruct (merge_lock abs_max (s_abs a) (s_abs b)) as [ab|] eqn:Ea; [|apply lkP_none].
  split; cbn [s_abs s_rel]; intros T HT; subst.
  - destruct (merge_pick abs_max abs_max_pick _ _ _ Ea) as [E|E]; [apply Ha1 | apply Hb1]; auto.
  - destruct (merge_pick rel_max rel_max_pick _ _ _ Er) as [E|E]; [apply Ha2 | apply Hb2]; auto.
Qed.

Lemma min_lkP P se (mall : bool) a b : lkP P a -> lkP P b ->
  lkP P ((if mall then minimum_mall se else minimum se) a b).
Proof.
  intros Ha Hb. destruct mall.
  - unfold minimum_mall. destruct (negb (is_stack (s_stack a))); [exact Hb|]. destruct (negb (is_stack (s_stack b))); [exact Ha|].
    destruct (wit_lt se (s_stack a) (s_stack b)); [exact Ha | exact Hb].
  - unfold minimum. destruct (is_imp (s_stack a)); [exact Hb|]. destruct (is_imp (s_stack b)); [exact Ha|].
    destruct (s_has_sig a), (s_has_sig b); try (apply lkP_none); try exact Ha; try exact Hb.
    destruct (wit_lt se (s_stack a) (s_stack b)); [exact Ha | exact Hb].
Qed.

Lemma fold_lkP P Ls : Forall (lkP P) Ls -> forall acc, lkP P acc -> lkP P (fold_left concatenate_rev Ls acc).
Proof.
  induction 1 as [|x r Hx Hr IH]; intros acc Ha; cbn [fold_left]; [exact Ha|]. apply IH, concat_lkP; assumption.
Qed.
Lemma flatten_lkP P Ls : Forall (lkP P) Ls -> lkP P (flatten_rev Ls).
Proof. intros H. apply fold_lkP; [exact H | apply lkP_none]. Qed.

Lemma nth_sat_lkP P sats i : Forall (lkP P) sats -> lkP P (nth_sat sats i).
Proof.
  intros H. unfold nth_sat. destruct (nth_in_or_default i sats IMPOSSIBLE) as [Hin| ->]; [|apply lkP_none].
  rewrite Forall_forall in H. apply H, Hin.
Qed.
Lemma swap_in_lkP P chosen dis sats : Forall (lkP P) dis -> Forall (lkP P) sats -> Forall (lkP P) (swap_in chosen dis sats).
Proof.
  intros Hd Hs. unfold swap_in. apply Forall_forall. intros x Hx. apply in_map_iff in Hx. destruct Hx as [[i d] [<- Hin]].
  cbn [fst snd]. destruct (existsb (Nat.eqb i) chosen); [apply nth_sat_lkP, Hs|].
  apply in_combine_r in Hin. rewrite Forall_forall in Hd. apply Hd, Hin.
Qed.

Section Bounded.
  Variable e : env.
  Variable ke : keyenv.
  Variable se : senv.
  Variable mall rhs : bool.
  Variable P : N -> Prop.
  Hypothesis HP : forall t, lock_small t -> P t.

  Definition both (ds : satn * satn) : Prop := lkP P (fst ds) /\ lkP P (snd ds).

  Lemma time_lkP ok t isabs : lock_small t -> both (sd_time ok rhs t isabs).
  Proof.
    intros Ht. unfold sd_time, both. cbn [fst snd]. split; [apply lkP_none|].
    destruct isabs, ok; split; cbn [s_abs s_rel]; intros ? H; inversion H; subst; apply HP, Ht.
  Qed.

  Theorem locks_bounded : forall m, wf e ke m -> both (sat_dissat ke se mall rhs m).
  Proof.
    unfold both. induction m using ms_ind'; intros Hwf; cbn [sat_dissat wf] in *;
    try (split; apply lkP_none).
    - apply time_lkP, Hwf.
    - apply time_lkP, Hwf.
    - exact (IHm Hwf).
    - exact (IHm Hwf).
    - exact (IHm Hwf).
    - destruct (sat_dissat ke se mall rhs m) as [d0 sub]. destruct (IHm Hwf) as [_ Hs]. split; [apply lkP_none | exact Hs].
    - destruct (sat_dissat ke se mall rhs m) as [d0 sub]. destruct (IHm Hwf) as [_ Hs]. split; [apply lkP_none | exact Hs].
    - destruct (sat_dissat ke se mall rhs m) as [d0 sub]. destruct (IHm Hwf) as [_ Hs]. split; [apply lkP_none | exact Hs].
    - exact (IHm Hwf).
    - destruct Hwf as [H1 H2]. destruct (sat_dissat ke se mall rhs m1) as [ld ls], (sat_dissat ke se mall rhs m2) as [rd rs].
      destruct (IHm1 H1), (IHm2 H2). cbn [fst snd] in *. split; apply concat_lkP; assumption.
    - destruct Hwf as [H1 H2]. destruct (sat_dissat ke se mall rhs m1) as [ld ls], (sat_dissat ke se mall rhs m2) as [rd rs].
      destruct (IHm1 H1), (IHm2 H2). cbn [fst snd] in *. split; apply concat_lkP; assumption.
    - destruct Hwf as [H1 [H2 H3]]. destruct (sat_dissat ke se mall rhs m1) as [ad asat], (sat_dissat ke se mall rhs m2) as [bd bsat],
        (sat_dissat ke se mall rhs m3) as [cd csat].
      destruct (IHm1 H1), (IHm2 H2), (IHm3 H3). cbn [fst snd] in *. split; [|apply min_lkP]; apply concat_lkP; assumption.
    - destruct Hwf as [H1 H2]. destruct (sat_dissat ke se mall rhs m1) as [ld ls], (sat_dissat ke se mall rhs m2) as [rd rs].
      destruct (IHm1 H1), (IHm2 H2). cbn [fst snd] in *. split; [|apply min_lkP]; apply concat_lkP; assumption.
    - destruct Hwf as [H1 H2]. destruct (sat_dissat ke se mall rhs m1) as [ld ls], (sat_dissat ke se mall rhs m2) as [rd rs].
      destruct (IHm1 H1), (IHm2 H2). cbn [fst snd] in *. split; [|apply min_lkP]; try apply concat_lkP; assumption.
    - destruct Hwf as [H1 H2]. destruct (sat_dissat ke se mall rhs m1) as [ld ls], (sat_dissat ke se mall rhs m2) as [rd rs].
      destruct (IHm1 H1), (IHm2 H2). cbn [fst snd] in *. split; [apply lkP_none | apply min_lkP]; try apply concat_lkP; assumption.
    - destruct Hwf as [H1 H2]. destruct (sat_dissat ke se mall rhs m1) as [ld ls], (sat_dissat ke se mall rhs m2) as [rd rs].
      destruct (IHm1 H1), (IHm2 H2). cbn [fst snd] in *. split; apply min_lkP; assumption.
    - (* thresh *) destruct Hwf as [Hk [Hn Hw]]. rewrite ds_thresh.
      set (ds := map (sat_dissat ke se mall rhs) xs).
      assert (HF : Forall (fun d => lkP P (fst d) /\ lkP P (snd d)) ds).
      { unfold ds. clear Hk Hn. induction H as [|x r Hx Hr IHr]; cbn [map]; constructor.
        - apply Hx, Hw. - apply IHr, Hw. }
      assert (Hd : Forall (lkP P) (map fst ds)).
      { clear -HF. induction HF as [|d r [H1 H2] Hr IH]; cbn [map]; constructor; assumption. }
      assert (Hs : Forall (lkP P) (map snd ds)).
      { clear -HF. induction HF as [|d r [H1 H2] Hr IH]; cbn [map]; constructor; assumption. }
      split; cbn [fst snd]; [apply flatten_lkP, Hd|].
      destruct (N.eqb k (N.of_nat (length xs))); [apply flatten_lkP, Hs|]. destruct mall.
      + unfold thresh_mall. apply flatten_lkP, swap_in_lkP; assumption.
      + unfold thresh_nonmall. cbv zeta. destruct (is_imp _); [apply lkP_none|].
        destruct (negb _ && negb _); [apply lkP_none|]. apply flatten_lkP, swap_in_lkP; assumption.
    - unfold sd_multi. cbv zeta. destruct (Nat.ltb _ _); split; apply lkP_none.
    - unfold sd_multi. cbv zeta. destruct (Nat.ltb _ _); split; apply lkP_none.
    - unfold sd_multi_a. cbv zeta. destruct (Nat.ltb _ _); split; apply lkP_none.
    - unfold sd_multi_a. cbv zeta. destruct (Nat.ltb _ _); split; apply lkP_none.
  Qed.
End Bounded.

(* ---------- L1 ---------- *)
Section Suffice.
  Variable e : env.
  Variable ke : keyenv.
  Variable A : assets.
  Variable se : senv.
  Variable f : fill.
  Hypothesis HL : linked ke A se f.
  Hypothesis Hks : forall ks, length (ksort ke ks) = length ks.
  Hypothesis HC : crypto_ok e ke A.
  Hypothesis Hse : forall kbs, e_sigok e kbs [] = false.

  (* Theorem A is available for every result whose reported locks the environment meets *)
  Lemma result_assets_ok mall rhs m (dis : bool) : wf e ke m ->
    let r := (if dis then fst else snd) (sat_dissat ke se mall rhs m) in
    lock_met e (s_abs r) (s_rel r) -> assets_ok e ke (rA A r).
  Proof.
    intros Hwf r Hm. unfold rA. apply restrict_assets_ok; [exact HC | exact Hm|].
    destruct (locks_bounded e ke se mall rhs lock_small (fun t H => H) m Hwf) as [[_ Hd] [_ Hs]].
    unfold r. destruct dis; assumption.
  Qed.

  Theorem reported_locks_run (mall rhs : bool) (m : ms) (t : ty) :
    type_of m = ROk t -> c_base (t_corr t) = BB -> wf e ke m -> no_multi m ->
    let r := snd (sat_dissat ke se mall rhs m) in
    forall l bs, s_stack r = WStack l -> fill_all f l = Some bs -> lock_met e (s_abs r) (s_rel r) ->
    forall below al, exists v, exec e (enc ke m) (mkSt (rev bs ++ below) al) = Ok (mkSt (v :: below) al) /\ truthy v = true.
  Proof.
    intros Ht Hb Hwf Hnm r l bs Hs Hf Hm below al.
    pose proof (result_assets_ok mall rhs m false Hwf Hm) as HA. cbn [snd] in HA. fold r in HA.
    destruct (sat_in_table_locks ke A se f HL Hks mall rhs m (wf_kwf e ke m Hwf)) as [_ Hsat].
    pose proof (Hsat l bs Hs Hf) as Hin. fold r in Hin.
    destruct (theoremA_closed e ke (rA A r) HA Hse m t Ht Hwf Hnm) as [Hg _].
    unfold good in Hg. rewrite Hb in Hg. destruct Hg as [Hg _].
    destruct (Hg (rev bs) below al Hin) as [v [Hr [Htr _]]]. exists v. split; assumption.
  Qed.

  Theorem reported_locks_suffice (mall rhs : bool) (m : ms) (t : ty) :
    type_of m = ROk t -> c_base (t_corr t) = BB -> wf e ke m -> no_multi m ->
    let r := snd (sat_dissat ke se mall rhs m) in
    forall l bs, s_stack r = WStack l -> fill_all f l = Some bs -> lock_met e (s_abs r) (s_rel r) ->
    accepts e (enc ke m) (rev bs) = true.
  Proof.
    intros Ht Hb Hwf Hnm r l bs Hs Hf Hm.
    destruct (reported_locks_run mall rhs m t Ht Hb Hwf Hnm l bs Hs Hf Hm [] []) as [v [Hr Htr]].
    rewrite app_nil_r in Hr. unfold accepts. rewrite Hr. cbn [stk]. exact Htr.
  Qed.
End Suffice.
