(* C09: every well-typed script (with the constructor invariants k <= n and "multi_a only in Tap")
   is in the class [ext_safe as_written] of the witness bounds. Along the way: a fragment of type `d`
   has a dissatisfaction figure; a missing figure means the satisfier never returns a stack. *)
From Coq Require Import Lia Permutation.
From Verif Require Import TypeCheck ExtModel ExtProofs ExtLemmas ExtThresh ExtSatSide ExtBounds.
Local Open Scope N_scope.

Arguments N.add : simpl never. Arguments N.mul : simpl never. Arguments N.sub : simpl never.
Arguments N.max : simpl never. Arguments N.of_nat : simpl never. Arguments N.leb : simpl never.
Arguments N.ltb : simpl never. Arguments N.eqb : simpl never.

(* ------------------------------------------------------------------ inversion of the typing rules *)
Lemma rbind_ok {A B} (r : res A) (f : A -> res B) b : rbind r f = ROk b -> exists a, r = ROk a /\ f a = ROk b.
Proof. destruct r as [a|e]; cbn [rbind]; [eauto|discriminate]. Qed.
Lemma lift1_ok fc fm t t' : lift1 fc fm t = ROk t' -> fc (t_corr t) = ROk (t_corr t').
Proof. unfold lift1. destruct (fc (t_corr t)); [|discriminate]. intros H. inversion H. reflexivity. Qed.
Lemma lift2_ok fc fm l r t' : lift2 fc fm l r = ROk t' -> fc (t_corr l) (t_corr r) = ROk (t_corr t').
Proof. unfold lift2. destruct (fc (t_corr l) (t_corr r)); [|discriminate]. intros H. inversion H. reflexivity. Qed.

Lemma c_alt_d s c' : c_cast_alt s = ROk c' -> c_dissat c' = c_dissat s.
Proof. unfold c_cast_alt. destruct (c_base s); try discriminate. intros H; inversion H; reflexivity. Qed.
Lemma c_swap_d s c' : c_cast_swap s = ROk c' -> c_dissat c' = c_dissat s.
Proof. unfold c_cast_swap. destruct (c_base s), (c_input s); try discriminate; intros H; inversion H; reflexivity. Qed.
Lemma c_check_d s c' : c_cast_check s = ROk c' -> c_dissat c' = c_dissat s.
Proof. unfold c_cast_check. destruct (c_base s); try discriminate. intros H; inversion H; reflexivity. Qed.
Lemma c_zne_d s c' : c_cast_zeronotequal s = ROk c' -> c_dissat c' = c_dissat s.
Proof. unfold c_cast_zeronotequal. destruct (c_base s); try discriminate. intros H; inversion H; reflexivity. Qed.
Lemma c_verify_d s c' : c_cast_verify s = ROk c' -> c_dissat c' = false.
Proof. unfold c_cast_verify. destruct (c_base s); try discriminate. intros H; inversion H; reflexivity. Qed.
Lemma c_and_b_d l r c' : c_and_b l r = ROk c' -> c_dissat c' = c_dissat l && c_dissat r.
Proof. unfold c_and_b. destruct (c_base l), (c_base r); try discriminate. intros H; inversion H; reflexivity. Qed.
Lemma c_and_v_d l r c' : c_and_v l r = ROk c' -> c_dissat c' = false.
Proof. unfold c_and_v. destruct (c_base l), (c_base r); try discriminate; intros H; inversion H; reflexivity. Qed.
Lemma c_or_b_d l r c' : c_or_b l r = ROk c' -> c_dissat l = true /\ c_dissat r = true.
Proof. unfold c_or_b. destruct (c_dissat l), (c_dissat r); cbn; try discriminate. auto. Qed.
Lemma c_or_d_d l r c' : c_or_d l r = ROk c' -> c_dissat l = true /\ c_dissat c' = c_dissat r.
Proof.
  unfold c_or_d. destruct (c_dissat l); cbn; [|discriminate]. destruct (c_unit l); cbn; [|discriminate].
  destruct (c_base l), (c_base r); try discriminate. intros H; inversion H; auto.
Qed.
Lemma c_or_c_d l r c' : c_or_c l r = ROk c' -> c_dissat l = true /\ c_dissat c' = false.
Proof.
  unfold c_or_c. destruct (c_dissat l); cbn; [|discriminate]. destruct (c_unit l); cbn; [|discriminate].
  destruct (c_base l), (c_base r); try discriminate. intros H; inversion H; auto.
Qed.
Lemma c_or_i_d l r c' : c_or_i l r = ROk c' -> c_dissat c' = c_dissat l || c_dissat r.
Proof. unfold c_or_i. destruct (c_base l), (c_base r); try discriminate; intros H; inversion H; reflexivity. Qed.
Lemma c_and_or_d a b c c' : c_and_or a b c = ROk c' -> c_dissat a = true /\ c_dissat c' = c_dissat c.
Proof.
  unfold c_and_or. destruct (c_dissat a); cbn; [|discriminate]. destruct (c_unit a); cbn; [|discriminate].
  destruct (c_base a), (c_base b), (c_base c); try discriminate; intros H; inversion H; auto.
Qed.
Lemma c_thresh_loop_d subs : forall i na n, c_thresh_loop i na subs = ROk n -> Forall (fun s => c_dissat s = true) subs.
Proof.
  induction subs as [|s r IH]; intros i na n H; [constructor|]. cbn [c_thresh_loop] in H.
  destruct ((i =? 0) && negb (base_eqb (c_base s) BB)); [discriminate|].
  destruct (negb (i =? 0) && negb (base_eqb (c_base s) BW)); [discriminate|].
  destruct (c_unit s); cbn in H; [|discriminate]. destruct (c_dissat s) eqn:E; cbn in H; [|discriminate].
  constructor; [exact E|]. eapply IH. exact H.
Qed.
Lemma c_threshold_d k subs c' : c_threshold k subs = ROk c' -> Forall (fun s => c_dissat s = true) subs.
Proof. unfold c_threshold. destruct (c_thresh_loop 0 0 subs) eqn:E; [|discriminate]. intros _. eapply c_thresh_loop_d. exact E. Qed.

(* the nested fixpoint of type_of for thresh *)
Lemma type_of_thresh_children xs : forall ts,
  (fix go (l : list ms) : res (list ty) :=
     match l with
     | [] => ROk []
     | x :: r => rbind (type_of x) (fun t => rbind (go r) (fun ts => ROk (t :: ts)))
     end) xs = ROk ts ->
  Forall2 (fun x t => type_of x = ROk t) xs ts.
Proof.
  induction xs as [|x r IH]; intros ts H.
  - inversion H. constructor.
  - apply rbind_ok in H. destruct H as (t & Ht & H). apply rbind_ok in H. destruct H as (ts' & Hts & H).
    inversion H; subst. constructor; [exact Ht|apply IH, Hts].
Qed.

(* ------------------------------------------------------------------ threshold figures: None-ness *)
Definition osome {A} (o : option A) : bool := match o with Some _ => true | None => false end.
Lemma th_dissat_none_gen (es : list ext) : forall acc,
  fold_left (fun a sub => opt_zip_with sd_concat_v a (dissat_data sub)) es acc = None ->
  acc = None \/ exists e, In e es /\ dissat_data e = None.
Proof.
  induction es as [|e r IH]; intros acc H; cbn [fold_left] in H; [auto|].
  destruct (IH _ H) as [Hn|(e' & Hin & He')]; [|right; exists e'; split; [right; exact Hin|exact He']].
  destruct acc as [a|]; [|auto]. destruct (dissat_data e) eqn:E; [discriminate|]. right. exists e. split; [left; reflexivity|exact E].
Qed.
Lemma th_dissat_none (es : list ext) : th_dissat_data es = None -> exists e, In e es /\ dissat_data e = None.
Proof. intros H. destruct (th_dissat_none_gen es _ H) as [Hn|Hx]; [discriminate|exact Hx]. Qed.

(* mark the first q children that have a satisfaction figure *)
Fixpoint mark (q : nat) (l : list sdpair) : list bool :=
  match l with
  | [] => []
  | (s, d) :: r =>
    match q, s with
    | S q', Some _ => true :: mark q' r
    | _, _ => false :: mark q r
    end
  end.
Fixpoint count_sat (l : list sdpair) : nat :=
  match l with [] => O | (s, _) :: r => Nat.add (if osome s then 1%nat else O) (count_sat r) end.
Lemma mark_length q l : length (mark q l) = length l.
Proof. revert q. induction l as [|[s d] r IH]; intros q; [reflexivity|]. cbn [mark]. destruct q, s; cbn [length]; rewrite IH; reflexivity. Qed.
Lemma mark_nflags q l : nflags (combine l (mark q l)) = Nat.min q (count_sat l).
Proof.
  revert q. induction l as [|[s d] r IH]; intros q; [destruct q; reflexivity|]. cbn [mark count_sat].
  unfold nflags in *. destruct q as [|q'], s as [x|]; cbn [combine filter snd length osome]; rewrite IH; lia.
Qed.
Lemma mark_okT q l : Forall (fun p : sdpair => osome (snd p) = true) l -> Forall okT (combine l (mark q l)).
Proof.
  revert q. induction l as [|[s d] r IH]; intros q HF; [constructor|]. inversion HF as [|? ? Hd HF']; subst.
  cbn [snd] in Hd. destruct d as [dd|]; [|discriminate]. cbn [mark].
  destruct q as [|q'], s as [x|]; cbn [combine]; (constructor; [|apply IH, HF']); split; cbn [fst snd]; eauto; discriminate.
Qed.
Lemma count_sat_le l : (count_sat l <= length l)%nat.
Proof. induction l as [|[s d] r IH]; [cbn; lia|]. cbn [count_sat length]. destruct (osome s); lia. Qed.

Lemma th_sat_some k (l : list sdpair) :
  Forall (fun p : sdpair => osome (snd p) = true) l -> (N.to_nat k <= count_sat l)%nat ->
  exists sd, th_sat_data true k l = Some sd.
Proof.
  intros HF Hk. set (T := combine l (mark (N.to_nat k) l)).
  assert (Hm : map fst T = l) by (apply map_fst_combine; rewrite mark_length; reflexivity).
  destruct (th_sat_data_bound true k T (mark_okT _ _ HF)) as (sd & E & _).
  - unfold T. rewrite mark_nflags. unfold quota. unfold trip. rewrite combine_length, mark_length, Nat.min_id.
    pose proof (count_sat_le l). lia.
  - rewrite Hm in E. eauto.
Qed.

(* ------------------------------------------------------------------ the induction *)
Section Typed.
  Variable c : xctx.
  Notation eo := (ext_of_gen as_written c).

  Definition facts (m : ms) : Prop :=
    ext_safe as_written c m = true
    /\ (dissat_data (eo m) = None -> fst (nostk m) = true)
    /\ (sat_data (eo m) = None -> snd (nostk m) = true).
  Definition Sm (m : ms) : Prop :=
    forall t, type_of m = ROk t -> ext_struct_ok c m = true ->
              facts m /\ (c_dissat (t_corr t) = true -> dtracked (eo m) = true).

  Lemma dtracked_false e : dtracked e = false -> dissat_data e = None.
  Proof. unfold dtracked. destruct (dissat_data e); [discriminate|reflexivity]. Qed.
  Lemma dtracked_some e : dtracked e = true -> dissat_data e <> None.
  Proof. unfold dtracked. destruct (dissat_data e); [discriminate|discriminate]. Qed.

  Lemma cntp_le_count xs :
    Forall (fun x => sat_data (eo x) = None -> snd (nostk x) = true) xs ->
    (cntp xs <= count_sat (map pair_of (map eo xs)))%nat.
  Proof.
    induction 1 as [|x r Hx _ IH]; [cbn; lia|]. cbn [cntp map count_sat pair_of]. unfold possible.
    destruct (sat_data (eo x)) eqn:E; cbn [osome]; [destruct (snd (nostk x)); lia|].
    rewrite (Hx eq_refl). lia.
  Qed.

  Lemma go_struct_forallb xs :
    (fix go (l : list ms) : bool := match l with [] => true | x :: r => ext_struct_ok c x && go r end) xs
    = forallb (ext_struct_ok c) xs.
  Proof. induction xs as [|x r IH]; [reflexivity|]. cbn [forallb]. rewrite <- IH. reflexivity. Qed.

  Lemma children_facts xs : forall ts,
    Forall Sm xs -> Forall2 (fun x t => type_of x = ROk t) xs ts ->
    Forall (fun s => c_dissat s = true) (map t_corr ts) -> forallb (ext_struct_ok c) xs = true ->
    Forall (fun x => facts x /\ dtracked (eo x) = true) xs.
  Proof.
    induction xs as [|x r IH]; intros ts HS HT HD Hst; [constructor|].
    inversion HS as [|? ? Sx HS']; subst. inversion HT as [|? t0 ? ts0 Tx HT']; subst.
    cbn [map] in HD. inversion HD as [|? ? Dx HD']; subst. cbn [forallb] in Hst. apply andb_prop in Hst. destruct Hst as [Hx Hr].
    destruct (Sx t0 Tx Hx) as [F B]. constructor; [split; [exact F|exact (B Dx)]|]. eapply IH; eauto.
  Qed.

  Lemma thresh_typed k xs : Forall Sm xs -> Sm (MThresh k xs).
  Proof.
    intros HS t Ht Hst. cbn [type_of] in Ht. apply rbind_ok in Ht. destruct Ht as (ts & Hts & Ht).
    apply type_of_thresh_children in Hts. unfold t_threshold in Ht.
    destruct (c_threshold k (map t_corr ts)) as [c'|] eqn:Ec; [|discriminate]. apply c_threshold_d in Ec.
    cbn [ext_struct_ok] in Hst. rewrite go_struct_forallb in Hst. apply andb_prop in Hst. destruct Hst as [Hkn Hst].
    pose proof (children_facts xs ts HS Hts Ec Hst) as HF.
    assert (Hdt : Forall (fun e => dtracked e = true) (map eo xs)).
    { apply Forall_forall. intros e He. apply in_map_iff in He. destruct He as (x & <- & Hin).
      rewrite Forall_forall in HF. exact (proj2 (HF x Hin)). }
    assert (Hdis : exists d, dissat_data (eo (MThresh k xs)) = Some d).
    { rewrite ext_of_gen_thresh. unfold ext_threshold. cbn [dissat_data].
      destruct (th_dissat_fold (map eo xs) (mkSD 0 0 0 0 0) Hdt) as (d & Ed & _).
      unfold th_dissat_data. rewrite Ed. cbn [option_map]. eauto. }
    destruct Hdis as [dd Hdd].
    split; [|intros _; unfold dtracked; rewrite Hdd; reflexivity].
    split; [|split].
    - rewrite ext_safe_thresh, Hkn. cbn [fx_thresh as_written andb orb].
      apply forallb_forall. intros x Hin. rewrite Forall_forall in HF. destruct (HF x Hin) as [[A _] B]. rewrite A, B. reflexivity.
    - rewrite Hdd. discriminate.
    - rewrite ext_of_gen_thresh. unfold ext_threshold. cbn [sat_data fx_thresh as_written]. intros Hn.
      change (map (fun s => (sat_data s, dissat_data s)) (map eo xs)) with (map pair_of (map eo xs)) in Hn.
      destruct (th_sat_data true k (map pair_of (map eo xs))) as [sd|] eqn:E; [discriminate|].
      cbn [nostk snd]. rewrite Hkn. cbn [andb].
      change ((fix cnt (l : list ms) : nat :=
                 match l with [] => O | x :: r => Nat.add (if snd (nostk x) then O else 1%nat) (cnt r) end) xs) with (cntp xs).
      apply N.ltb_lt.
      assert (Hc : (cntp xs <= count_sat (map pair_of (map eo xs)))%nat).
      { apply cntp_le_count. eapply Forall_impl; [|exact HF]. intros x [[_ [_ D]] _]. exact D. }
      destruct (Nat.le_gt_cases (N.to_nat k) (count_sat (map pair_of (map eo xs)))) as [Hle|Hgt]; [|lia].
      exfalso. destruct (th_sat_some k (map pair_of (map eo xs))) as (sd & Esd); [| exact Hle | rewrite Esd in E; discriminate].
      apply Forall_forall. intros p Hp. apply in_map_iff in Hp. destruct Hp as (e & <- & He).
      rewrite Forall_forall in Hdt. specialize (Hdt e He). unfold dtracked in Hdt. cbn [pair_of snd].
      destruct (dissat_data e); [reflexivity|discriminate].
  Qed.

  Ltac inv1 Ht tx Hx := cbn [type_of] in Ht; apply rbind_ok in Ht; destruct Ht as (tx & Hx & Ht); apply lift1_ok in Ht.
  Ltac inv2 Ht tx tz Hx Hy :=
    cbn [type_of] in Ht; apply rbind_ok in Ht; destruct Ht as (tx & Hx & Ht);
    apply rbind_ok in Ht; destruct Ht as (tz & Hy & Ht); apply lift2_ok in Ht.
  Ltac osplit := match goal with |- context [opt_zip_with _ ?a ?b] => destruct a eqn:?, b eqn:? end.

  Theorem typed_facts : forall m, Sm m.
  Proof.
    induction m using ms_ind_ext; unfold Sm in *; intros tm Ht Hst.
    - (* 1 *) inversion Ht; subst. cbn. unfold facts. cbn. repeat split; auto; discriminate.
    - (* 0 *) inversion Ht; subst. cbn. unfold facts. cbn. repeat split; auto; discriminate.
    - (* pk_k *) unfold facts, dtracked. cbn [ext_safe ext_of_gen nostk fst snd].
      unfold ext_pk_k. destruct (key_sig_bytes (fx_pkk as_written) (xc_schnorr c) (xc_unc c k)). cbn. repeat split; auto; discriminate.
    - (* pk_h *) unfold facts, dtracked. cbn [ext_safe ext_of_gen nostk fst snd].
      unfold ext_pk_h. destruct (key_sig_bytes as_written (xc_schnorr c) (xc_unc c k)). cbn. repeat split; auto; discriminate.
    - (* raw_pk_h *) unfold facts, dtracked. cbn [ext_safe ext_of_gen nostk fst snd].
      unfold ext_pk_h_none, ext_pk_h. destruct (key_sig_bytes (fx_pkk as_written) (xc_schnorr c) true). cbn. repeat split; auto; discriminate.
    - (* after *) inversion Ht; subst. unfold facts, dtracked. cbn. repeat split; auto; discriminate.
    - (* older *) inversion Ht; subst. unfold facts, dtracked. cbn. repeat split; auto; discriminate.
    - unfold facts, dtracked. cbn. repeat split; auto; discriminate.
    - unfold facts, dtracked. cbn. repeat split; auto; discriminate.
    - unfold facts, dtracked. cbn. repeat split; auto; discriminate.
    - unfold facts, dtracked. cbn. repeat split; auto; discriminate.
    - (* a: *) inv1 Ht tx Hx. apply c_alt_d in Ht. cbn [ext_struct_ok] in Hst. destruct (IHm tx Hx Hst) as [(A & C & D) B].
      unfold facts, dtracked in *. cbn [ext_safe ext_of_gen nostk ext_cast_alt dissat_data sat_data]. rewrite Ht. auto.
    - (* s: *) inv1 Ht tx Hx. apply c_swap_d in Ht. cbn [ext_struct_ok] in Hst. destruct (IHm tx Hx Hst) as [(A & C & D) B].
      unfold facts, dtracked in *. cbn [ext_safe ext_of_gen nostk ext_cast_swap dissat_data sat_data]. rewrite Ht. auto.
    - (* c: *) inv1 Ht tx Hx. apply c_check_d in Ht. cbn [ext_struct_ok] in Hst. destruct (IHm tx Hx Hst) as [(A & C & D) B].
      unfold facts, dtracked in *. cbn [ext_safe ext_of_gen nostk ext_cast_check dissat_data sat_data]. rewrite Ht. auto.
    - (* d: *) inv1 Ht tx Hx. cbn [ext_struct_ok] in Hst. destruct (IHm tx Hx Hst) as [(A & C & D) B].
      unfold facts, dtracked in *. cbn [ext_safe ext_of_gen nostk fst snd]. unfold ext_cast_dupif. cbn [dissat_data sat_data fx_dupif as_written andb].
      repeat split; auto; try discriminate. intros Hn. apply D. destruct (sat_data (eo m)); [discriminate|reflexivity].
    - (* v: *) inv1 Ht tx Hx. apply c_verify_d in Ht. cbn [ext_struct_ok] in Hst. destruct (IHm tx Hx Hst) as [(A & C & D) B].
      unfold facts, dtracked in *. cbn [ext_safe ext_of_gen nostk fst snd]. unfold ext_cast_verify. cbn [dissat_data sat_data].
      rewrite Ht. repeat split; auto; discriminate.
    - (* j: *) inv1 Ht tx Hx. cbn [ext_struct_ok] in Hst. destruct (IHm tx Hx Hst) as [(A & C & D) B].
      unfold facts, dtracked in *. cbn [ext_safe ext_of_gen nostk fst snd ext_cast_nonzero dissat_data sat_data].
      repeat split; auto; discriminate.
    - (* n: *) inv1 Ht tx Hx. apply c_zne_d in Ht. cbn [ext_struct_ok] in Hst. destruct (IHm tx Hx Hst) as [(A & C & D) B].
      unfold facts, dtracked in *. cbn [ext_safe ext_of_gen nostk ext_cast_zeronotequal dissat_data sat_data]. rewrite Ht. auto.
    - (* and_v *) inv2 Ht tx tz Hx Hy. apply c_and_v_d in Ht. cbn [ext_struct_ok] in Hst. apply andb_prop in Hst. destruct Hst as [S1 S2].
      destruct (IHm1 tx Hx S1) as [(A1 & C1 & D1) B1], (IHm2 tz Hy S2) as [(A2 & C2 & D2) B2].
      unfold facts, dtracked in *. cbn [ext_safe ext_of_gen nostk fst snd]. unfold ext_and_v. cbn [dissat_data sat_data fx_andv as_written].
      rewrite A1, A2, Ht. split; [|discriminate]. split; [reflexivity|]. split; intros Hn.
      + destruct (sat_data (eo m1)); [|rewrite (D1 eq_refl); reflexivity].
        destruct (dissat_data (eo m2)); [discriminate|]. rewrite (C2 eq_refl). apply orb_true_r.
      + destruct (sat_data (eo m1)); [|rewrite (D1 eq_refl); reflexivity].
        destruct (sat_data (eo m2)); [discriminate|]. rewrite (D2 eq_refl). apply orb_true_r.
    - (* and_b *) inv2 Ht tx tz Hx Hy. apply c_and_b_d in Ht. cbn [ext_struct_ok] in Hst. apply andb_prop in Hst. destruct Hst as [S1 S2].
      destruct (IHm1 tx Hx S1) as [(A1 & C1 & D1) B1], (IHm2 tz Hy S2) as [(A2 & C2 & D2) B2].
      unfold facts, dtracked in *. cbn [ext_safe ext_of_gen nostk fst snd ext_and_b dissat_data sat_data].
      rewrite A1, A2, Ht. split.
      + split; [reflexivity|]. split; intros Hn.
        * destruct (dissat_data (eo m1)); [|rewrite (C1 eq_refl); reflexivity].
          destruct (dissat_data (eo m2)); [discriminate|]. rewrite (C2 eq_refl). apply orb_true_r.
        * destruct (sat_data (eo m1)); [|rewrite (D1 eq_refl); reflexivity].
          destruct (sat_data (eo m2)); [discriminate|]. rewrite (D2 eq_refl). apply orb_true_r.
      + intros Hd. apply andb_prop in Hd. destruct Hd as [H1 H2]. specialize (B1 H1). specialize (B2 H2).
        destruct (dissat_data (eo m1)), (dissat_data (eo m2)); try discriminate. reflexivity.
    - (* andor *) cbn [type_of] in Ht. apply rbind_ok in Ht. destruct Ht as (ta & Ha & Ht). apply rbind_ok in Ht. destruct Ht as (tb & Hb & Ht).
      apply rbind_ok in Ht. destruct Ht as (tc & Hc & Ht). unfold t_and_or in Ht.
      destruct (c_and_or (t_corr ta) (t_corr tb) (t_corr tc)) as [c'|] eqn:Ec; [|discriminate]. inversion Ht; subst tm. cbn [t_corr].
      apply c_and_or_d in Ec. destruct Ec as [Eda Edc].
      cbn [ext_struct_ok] in Hst. apply andb_prop in Hst. destruct Hst as [S12 S3]. apply andb_prop in S12. destruct S12 as [S1 S2].
      destruct (IHm1 ta Ha S1) as [(A1 & C1 & D1) B1], (IHm2 tb Hb S2) as [(A2 & C2 & D2) B2], (IHm3 tc Hc S3) as [(A3 & C3 & D3) B3].
      specialize (B1 Eda). unfold facts, dtracked in *. cbn [ext_safe ext_of_gen nostk fst snd ext_and_or dissat_data sat_data]. unfold dtracked.
      rewrite A1, A2, A3, Edc. destruct (dissat_data (eo m1)) as [da|] eqn:E1; [|discriminate]. split.
      + split; [reflexivity|]. split; intros Hn.
        * destruct (dissat_data (eo m3)); [discriminate|]. rewrite (C3 eq_refl). apply orb_true_r.
        * destruct (sat_data (eo m1)) as [sa|] eqn:Es1.
          -- destruct (sat_data (eo m2)) as [sb|]; [destruct (sat_data (eo m3)); discriminate|].
             destruct (sat_data (eo m3)) as [sc|]; [discriminate|]. rewrite (D2 eq_refl), (D3 eq_refl). rewrite !orb_true_r. reflexivity.
          -- destruct (sat_data (eo m3)) as [sc|]; [discriminate|]. rewrite (D1 eq_refl), (D3 eq_refl). rewrite !orb_true_r. reflexivity.
      + intros Hd. specialize (B3 Hd). destruct (dissat_data (eo m3)); [reflexivity|discriminate].
    - (* or_b *) inv2 Ht tx tz Hx Hy. apply c_or_b_d in Ht. destruct Ht as [Hd1 Hd2]. cbn [ext_struct_ok] in Hst. apply andb_prop in Hst. destruct Hst as [S1 S2].
      destruct (IHm1 tx Hx S1) as [(A1 & C1 & D1) B1], (IHm2 tz Hy S2) as [(A2 & C2 & D2) B2].
      specialize (B1 Hd1). specialize (B2 Hd2).
      unfold facts, dtracked in *. cbn [ext_safe ext_of_gen nostk fst snd ext_or_b dissat_data sat_data]. unfold dtracked.
      rewrite A1, A2. destruct (dissat_data (eo m1)) as [d1|]; [|discriminate]. destruct (dissat_data (eo m2)) as [d2|]; [|discriminate].
      split; [|reflexivity]. split; [reflexivity|]. split; [discriminate|]. intros Hn.
      destruct (sat_data (eo m1)), (sat_data (eo m2)); try discriminate. rewrite (D1 eq_refl), (D2 eq_refl). rewrite !orb_true_r. reflexivity.
    - (* or_d *) inv2 Ht tx tz Hx Hy. apply c_or_d_d in Ht. destruct Ht as [Hd1 Hd]. cbn [ext_struct_ok] in Hst. apply andb_prop in Hst. destruct Hst as [S1 S2].
      destruct (IHm1 tx Hx S1) as [(A1 & C1 & D1) B1], (IHm2 tz Hy S2) as [(A2 & C2 & D2) B2].
      specialize (B1 Hd1). unfold facts, dtracked in *. cbn [ext_safe ext_of_gen nostk fst snd ext_or_d dissat_data sat_data]. unfold dtracked.
      rewrite A1, A2, Hd. destruct (dissat_data (eo m1)) as [d1|]; [|discriminate]. split.
      + split; [reflexivity|]. split; intros Hn.
        * destruct (dissat_data (eo m2)); [discriminate|]. rewrite (C2 eq_refl). apply orb_true_r.
        * destruct (sat_data (eo m1)); [destruct (sat_data (eo m2)); discriminate|].
          destruct (sat_data (eo m2)); [discriminate|]. rewrite (D1 eq_refl), (D2 eq_refl). rewrite orb_true_r. reflexivity.
      + intros Hd2. specialize (B2 Hd2). destruct (dissat_data (eo m2)); [reflexivity|discriminate].
    - (* or_c *) inv2 Ht tx tz Hx Hy. apply c_or_c_d in Ht. destruct Ht as [Hd1 Hd]. cbn [ext_struct_ok] in Hst. apply andb_prop in Hst. destruct Hst as [S1 S2].
      destruct (IHm1 tx Hx S1) as [(A1 & C1 & D1) B1], (IHm2 tz Hy S2) as [(A2 & C2 & D2) B2].
      specialize (B1 Hd1). unfold facts, dtracked in *. cbn [ext_safe ext_of_gen nostk fst snd ext_or_c dissat_data sat_data]. unfold dtracked.
      rewrite A1, A2, Hd. destruct (dissat_data (eo m1)) as [d1|]; [|discriminate]. split; [|discriminate].
      split; [reflexivity|]. split; [reflexivity|]. intros Hn.
      destruct (sat_data (eo m1)); [destruct (sat_data (eo m2)); discriminate|].
      destruct (sat_data (eo m2)); [discriminate|]. rewrite (D1 eq_refl), (D2 eq_refl). rewrite orb_true_r. reflexivity.
    - (* or_i *) inv2 Ht tx tz Hx Hy. apply c_or_i_d in Ht. cbn [ext_struct_ok] in Hst. apply andb_prop in Hst. destruct Hst as [S1 S2].
      destruct (IHm1 tx Hx S1) as [(A1 & C1 & D1) B1], (IHm2 tz Hy S2) as [(A2 & C2 & D2) B2].
      unfold facts, dtracked in *. cbn [ext_safe ext_of_gen nostk fst snd ext_or_i dissat_data sat_data]. unfold dtracked.
      rewrite A1, A2, Ht. split.
      + split; [|split].
        * destruct (dissat_data (eo m1)) as [d1|]; [|rewrite (C1 eq_refl)];
            (destruct (dissat_data (eo m2)) as [d2|]; [|rewrite (C2 eq_refl)]); cbn; rewrite ?orb_true_r; reflexivity.
        * intros Hn. destruct (dissat_data (eo m1)), (dissat_data (eo m2)); try discriminate. rewrite (C1 eq_refl), (C2 eq_refl). reflexivity.
        * intros Hn. destruct (sat_data (eo m1)), (sat_data (eo m2)); try discriminate. rewrite (D1 eq_refl), (D2 eq_refl). reflexivity.
      + intros Hd. apply orb_prop in Hd. destruct Hd as [Hd|Hd]; [specialize (B1 Hd)|specialize (B2 Hd)];
          destruct (dissat_data (eo m1)), (dissat_data (eo m2)); try discriminate; reflexivity.
    - (* thresh *) apply thresh_typed; assumption.
    - (* multi *) unfold facts, dtracked. cbn. repeat split; auto; discriminate.
    - unfold facts, dtracked. cbn. repeat split; auto; discriminate.
    - (* multi_a *) unfold facts, dtracked. cbn [ext_safe ext_struct_ok] in *. cbn. repeat split; auto; discriminate.
    - unfold facts, dtracked. cbn [ext_safe ext_struct_ok] in *. cbn. repeat split; auto; discriminate.
  Qed.
End Typed.

(* every well-typed script with the constructor invariants is in the class of the witness bounds *)
Theorem typed_ext_safe c m t :
  type_of m = ROk t -> ext_struct_ok c m = true -> ext_safe as_written c m = true.
Proof. intros Ht Hs. exact (proj1 (proj1 (typed_facts c m t Ht Hs))). Qed.
(* type `d` => a dissatisfaction figure exists *)
Theorem typed_d_has_dissat_figure c m t :
  type_of m = ROk t -> ext_struct_ok c m = true -> c_dissat (t_corr t) = true ->
  exists d, dissat_data (ext_of c m) = Some d.
Proof.
  intros Ht Hs Hd. pose proof (proj2 (typed_facts c m t Ht Hs) Hd) as H. apply dtracked_inv in H. exact H.
Qed.

(* C09 (witness part) for EVERY well-typed script, the code as written *)
Theorem wit_bounds_typed :
  forall c ke se mall rhs m t,
    senv_ok c se -> ksort_len_ok ke -> type_of m = ROk t -> ext_struct_ok c m = true ->
    bounded se (sat_data (ext_of c m)) (snd (sat_dissat ke se mall rhs m))
    /\ dbounded se (dissat_data (ext_of c m)) (fst (sat_dissat ke se mall rhs m)).
Proof.
  intros c ke se mall rhs m t Hse Hk Ht Hs.
  exact (wit_bounds_gen as_written c ke se mall rhs m Hse Hk (typed_ext_safe c m t Ht Hs)).
Qed.
