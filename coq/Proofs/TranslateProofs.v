(* C20 — proofs about the translation / key-iteration model (Ms/TranslateModel.v). *)
From Coq Require Import Lia Permutation.
From Verif Require Import TranslateModel TheoremA EqOrdProofs.

Lemma tbind_ret {A} (r : tres A) : tbind r (fun x => TOk x) = r.
Proof. destruct r; reflexivity. Qed.

Lemma tbind_assoc {A B C} (r : tres A) (k : A -> tres B) (h : B -> tres C) :
  tbind (tbind r k) h = tbind r (fun a => tbind (k a) h).
Proof. destruct r; reflexivity. Qed.

(* the inner fixpoints, named *)
Lemma rtl_post_thresh k xs :
  rtl_post (MThresh k xs) = fold_right (fun x acc => acc ++ rtl_post x) [] xs ++ [MThresh k xs].
Proof. reflexivity. Qed.

Section Refinement.
  Variable f : N -> key -> option key.
  Variable chk : ms -> option cerr.

  Notation trec := (translate_rec f chk).
  Notation steps := (run_steps f chk).

  Lemma run_steps_app st l1 l2 : steps st (l1 ++ l2) = tbind (steps st l1) (fun st' => steps st' l2).
  Proof.
    revert st. induction l1 as [|x r IH]; intro st; cbn; [reflexivity|].
    destruct (step f chk st x); cbn; [apply IH | reflexivity | reflexivity].
  Qed.

  (* children of a thresh, right to left *)
  Fixpoint trec_list (n : N) (l : list ms) : tres (list ms * N) :=
    match l with
    | [] => TOk ([], n)
    | x :: r => tbind (trec_list n r) (fun q => tbind (trec (snd q) x) (fun p => TOk (fst p :: fst q, snd p)))
    end.

  Lemma trec_thresh n k xs :
    trec n (MThresh k xs) = tbind (trec_list n xs) (fun p => finish chk (MThresh k (fst p)) (snd p)).
  Proof.
    cbn. f_equal. induction xs as [|x r IH]; cbn; [reflexivity | rewrite IH; reflexivity].
  Qed.

  Lemma trec_list_length : forall l n l' n', trec_list n l = TOk (l', n') -> length l' = length l.
  Proof.
    induction l as [|x r IH]; cbn; intros n l' n' H.
    - injection H as <- _. reflexivity.
    - destruct (trec_list n r) as [[r' n1]| |] eqn:E; cbn in H; try discriminate.
      destruct (trec n1 x) as [[x' n2]| |]; cbn in H; try discriminate.
      injection H as <- _. cbn. f_equal. apply (IH _ _ _ E).
  Qed.

  Lemma popn_app : forall l stk, popn (length l) (l ++ stk) = TOk (l, stk).
  Proof. induction l as [|x r IH]; intro stk; cbn; [reflexivity | rewrite IH; reflexivity]. Qed.

  (* the loop over the rtl post-order of m pushes exactly the recursive translation of m *)
  Lemma run_steps_refines : forall m stk n,
    steps (stk, n) (rtl_post m) = tbind (trec n m) (fun p => TOk (fst p :: stk, snd p)).
  Proof.
    induction m using ms_ind'; intros stk n.
    (* leaves *)
    1-2, 5-11: (cbn; (unfold finish; destruct (chk _); reflexivity)).
    1-2: (cbn; destruct (f n k); [(unfold finish; destruct (chk _); reflexivity) | reflexivity]).
    (* unary *)
    1-7: (cbn [rtl_post]; rewrite run_steps_app, IHm; cbn [translate_rec];
          destruct (trec n m) as [[x' n1]| |]; cbn; [(unfold finish; destruct (chk _); reflexivity) | reflexivity | reflexivity]).
    (* binary: and_v and_b *)
    1-2: (cbn [rtl_post]; rewrite !run_steps_app, IHm2; cbn [translate_rec];
          destruct (trec n m2) as [[y' n1]| |]; cbn; [|reflexivity|reflexivity];
          rewrite IHm1; destruct (trec n1 m1) as [[x' n2]| |]; cbn; [(unfold finish; destruct (chk _); reflexivity) | reflexivity | reflexivity]).
    (* andor *)
    1: (cbn [rtl_post]; rewrite <- !app_assoc; rewrite run_steps_app, IHm3; cbn [translate_rec];
        destruct (trec n m3) as [[c' n1]| |]; cbn; [|reflexivity|reflexivity];
        rewrite run_steps_app, IHm2; destruct (trec n1 m2) as [[b' n2]| |]; cbn; [|reflexivity|reflexivity];
        rewrite run_steps_app, IHm1; destruct (trec n2 m1) as [[a' n3]| |]; cbn;
        [(unfold finish; destruct (chk _); reflexivity) | reflexivity | reflexivity]).
    (* or_b or_d or_c or_i *)
    1-4: (cbn [rtl_post]; rewrite !run_steps_app, IHm2; cbn [translate_rec];
          destruct (trec n m2) as [[y' n1]| |]; cbn; [|reflexivity|reflexivity];
          rewrite IHm1; destruct (trec n1 m1) as [[x' n2]| |]; cbn; [(unfold finish; destruct (chk _); reflexivity) | reflexivity | reflexivity]).
    (* thresh *)
    1: { rewrite rtl_post_thresh, run_steps_app, trec_thresh.
      assert (G : forall stk n, steps (stk, n) (fold_right (fun x acc => acc ++ rtl_post x) [] xs)
                                = tbind (trec_list n xs) (fun q => TOk (fst q ++ stk, snd q))).
      { clear stk n. induction H as [|x r Hx Hr IH]; intros stk n; cbn; [reflexivity|].
        rewrite run_steps_app, IH. destruct (trec_list n r) as [[r' n1]| |]; cbn; [|reflexivity|reflexivity].
        rewrite Hx. destruct (trec n1 x) as [[x' n2]| |]; reflexivity. }
      rewrite G. destruct (trec_list n xs) as [[l' n1]| |] eqn:E; cbn; [|reflexivity|reflexivity].
      rewrite <- (trec_list_length _ _ _ _ E), popn_app. cbn. (unfold finish; destruct (chk _); reflexivity). }
    (* multi forms *)
    1-4: (cbn; destruct (tr_keys f n ks) as [[ks' n1]| |]; cbn; [(unfold finish; destruct (chk _); reflexivity) | reflexivity | reflexivity]).
  Qed.

  (* tr_iter_refines: the algorithm as coded computes the recursive translation (results, errors, no panic) *)
  Theorem translate_iter_refines m : translate_iter f chk m = translate f chk m.
  Proof.
    unfold translate_iter, translate. rewrite run_steps_refines.
    destruct (trec 0 m) as [[m' n']| |]; reflexivity.
  Qed.

  (* the recursive translation has no panic site, hence neither has the loop *)
  Lemma tr_keys_no_panic : forall ks n s, tr_keys f n ks <> TPanic s.
  Proof.
    induction ks as [|k r IH]; intros n s; cbn; [discriminate|].
    destruct (f n k); [|discriminate]. specialize (IH (n + 1)%N s).
    destruct (tr_keys f (n + 1) r); cbn; congruence.
  Qed.

  Lemma trec_no_panic : forall m n s, trec n m <> TPanic s.
  Proof.
    assert (F : forall t n s, finish chk t n <> TPanic s) by (intros; unfold finish; destruct (chk t); discriminate).
    induction m using ms_ind'; intros n s; cbn [translate_rec]; try apply F.
    1-2: (destruct (f n k); [apply F | discriminate]).
    1-7: (specialize (IHm n s); destruct (trec n m) as [[? ?]| |]; cbn; [apply F | discriminate | congruence]).
    1-2: (specialize (IHm2 n s); destruct (trec n m2) as [[? n1]| |]; cbn; [|discriminate|congruence];
          specialize (IHm1 n1 s); destruct (trec n1 m1) as [[? ?]| |]; cbn; [apply F | discriminate | congruence]).
    1: (specialize (IHm3 n s); destruct (trec n m3) as [[? n1]| |]; cbn; [|discriminate|congruence];
        specialize (IHm2 n1 s); destruct (trec n1 m2) as [[? n2]| |]; cbn; [|discriminate|congruence];
        specialize (IHm1 n2 s); destruct (trec n2 m1) as [[? ?]| |]; cbn; [apply F | discriminate | congruence]).
    1-4: (specialize (IHm2 n s); destruct (trec n m2) as [[? n1]| |]; cbn; [|discriminate|congruence];
          specialize (IHm1 n1 s); destruct (trec n1 m1) as [[? ?]| |]; cbn; [apply F | discriminate | congruence]).
    1: { fold (translate_rec f chk). change (trec n (MThresh k xs) <> TPanic s). rewrite trec_thresh.
      assert (G : trec_list n xs <> TPanic s).
      { induction H as [|x r Hx Hr IH]; cbn; [discriminate|].
        destruct (trec_list n r) as [[? n1]| |]; cbn; [|discriminate|congruence].
        specialize (Hx n1 s). destruct (trec n1 x) as [[? ?]| |]; cbn; [discriminate | discriminate | congruence]. }
      destruct (trec_list n xs) as [[? ?]| |]; cbn; [apply F | discriminate | congruence]. }
    1-4: (pose proof (tr_keys_no_panic ks n s); destruct (tr_keys f n ks) as [[? ?]| |]; cbn; [apply F | discriminate | congruence]).
  Qed.

  Theorem translate_iter_no_panic m s : translate_iter f chk m <> TPanic s.
  Proof.
    rewrite translate_iter_refines. unfold translate. pose proof (trec_no_panic m 0%N s).
    destruct (trec 0 m) as [[? ?]| |]; cbn; congruence.
  Qed.

End Refinement.

(* ------------------------------------------------------------------ the iterator as coded yields the rtl post-order
   (independent of translator and re-check, hence outside the section) *)
Definition item_list (it : ms * bool) : list ms := if snd it then [fst it] else rtl_post (fst it).
Definition item_cost (it : ms * bool) : nat := if snd it then 1 else 2 * ms_size (fst it).

Lemma rtl_post_children m :
  rtl_post m = flat_map rtl_post (rev (children m)) ++ [m].
Proof.
  destruct m; try reflexivity; cbn [rtl_post children rev flat_map app]; rewrite ?app_nil_r, <- ?app_assoc; try reflexivity.
  f_equal. induction xs as [|x r IH]; cbn; [reflexivity|]. rewrite flat_map_app, IH. cbn. rewrite app_nil_r. reflexivity.
Qed.

Lemma size_list_rev l : size_list (rev l) = size_list l.
Proof. induction l as [|x r IH]; cbn; [reflexivity | rewrite size_list_app; cbn; lia]. Qed.

Fixpoint stack_cost (st : list (ms * bool)) : nat :=
  match st with [] => 0 | it :: r => item_cost it + stack_cost r end.

Lemma stack_cost_app a b : stack_cost (a ++ b) = stack_cost a + stack_cost b.
Proof. induction a as [|x r IH]; cbn [stack_cost app]; [reflexivity | rewrite IH; lia]. Qed.

Lemma stack_cost_fresh l : stack_cost (map (fun c => (c, false)) l) = 2 * size_list l.
Proof.
  induction l as [|x r IH]; [reflexivity|]. cbn [map stack_cost size_list]. rewrite IH.
  unfold item_cost. cbn [fst snd]. lia.
Qed.

Lemma flat_fresh l : flat_map item_list (map (fun c => (c, false)) l) = flat_map rtl_post l.
Proof. induction l as [|x r IH]; [reflexivity|]. cbn [map flat_map]. rewrite IH. reflexivity. Qed.

Lemma rtl_post_stack_refines : forall fuel stack,
  stack_cost stack <= fuel -> rtl_post_stack fuel stack = Some (flat_map item_list stack).
Proof.
  induction fuel as [|fu IH]; intros [|[m p] rest] Hs; try reflexivity.
  - cbn [stack_cost] in Hs. unfold item_cost in Hs. cbn [fst snd] in Hs.
    destruct p; [lia | rewrite ms_size_children in Hs; lia].
  - cbn [rtl_post_stack]. cbn [stack_cost] in Hs. unfold item_cost in Hs. cbn [fst snd] in Hs. destruct p.
    + rewrite IH by lia. reflexivity.
    + rewrite IH.
      * rewrite flat_map_app, flat_fresh. cbn [flat_map]. f_equal.
        change (item_list (m, true)) with [m]. change (item_list (m, false)) with (rtl_post m).
        rewrite (rtl_post_children m), <- !app_assoc. reflexivity.
      * rewrite stack_cost_app, stack_cost_fresh, size_list_rev. cbn [stack_cost]. unfold item_cost. cbn [fst snd].
        rewrite ms_size_children in Hs. lia.
Qed.

Theorem rtl_post_iter_refines m : rtl_post_stack (2 * ms_size m) [(m, false)] = Some (rtl_post m).
Proof.
  rewrite rtl_post_stack_refines.
  - cbn. rewrite app_nil_r. reflexivity.
  - cbn [stack_cost]. unfold item_cost. cbn [fst snd]. lia.
Qed.


(* ------------------------------------------------------------------ the two key orders are permutations *)
Lemma keys_pre_rtl_perm m : Permutation (keys_pre m) (keys_rtl m).
Proof.
  induction m using ms_ind'; cbn [keys_pre keys_rtl]; try apply Permutation_refl; try assumption.
  1-2: (eapply Permutation_trans; [apply Permutation_app_comm | apply Permutation_app; assumption]).
  1: (eapply Permutation_trans; [apply Permutation_app; [eassumption | apply Permutation_app; eassumption] |];
      eapply Permutation_trans; [apply Permutation_app_comm |]; rewrite app_assoc; apply Permutation_app_tail;
      apply Permutation_app_comm).
  1-4: (eapply Permutation_trans; [apply Permutation_app_comm | apply Permutation_app; assumption]).
  change (Permutation (flat_map keys_pre xs) (fold_right (fun x acc => acc ++ keys_rtl x) [] xs)).
  induction H as [|x r Hx Hr IH]; cbn; [apply Permutation_refl|].
  eapply Permutation_trans; [apply Permutation_app_comm | apply Permutation_app; assumption].
Qed.

(* ------------------------------------------------------------------ pure key maps *)
Lemma subterms_thresh k xs : subterms (MThresh k xs) = MThresh k xs :: flat_map subterms xs.
Proof. reflexivity. Qed.
Lemma keys_rtl_thresh k xs : keys_rtl (MThresh k xs) = fold_right (fun x acc => acc ++ keys_rtl x) [] xs.
Proof. reflexivity. Qed.
Lemma keys_pre_thresh k xs : keys_pre (MThresh k xs) = flat_map keys_pre xs.
Proof. reflexivity. Qed.

Section Pure.
  Variable fp : key -> option key.
  Variable chk : ms -> option cerr.

  (* the total map that agrees with fp where fp is defined *)
  Definition total (k : key) : key := match fp k with Some k' => k' | None => k end.
  Definition mapped (ks : list key) : Prop := Forall (fun k => fp k <> None) ks.
  Definition chk_ok (m : ms) : Prop := Forall (fun s => chk s = None) (subterms m).

  Notation trec := (translate_rec (fun _ => fp) chk).
  Notation tlist := (trec_list (fun _ => fp) chk).

  Lemma total_some k k' : fp k = Some k' -> total k = k'.
  Proof. unfold total. intros ->. reflexivity. Qed.

  Lemma tr_keys_inv : forall ks n ks' n',
    tr_keys (fun _ => fp) n ks = TOk (ks', n') -> ks' = map total ks /\ mapped ks.
  Proof.
    induction ks as [|k r IH]; cbn; intros n ks' n' H.
    - injection H as <- _. split; [reflexivity | constructor].
    - destruct (fp k) as [k'|] eqn:E; [|discriminate].
      destruct (tr_keys (fun _ => fp) (n + 1) r) as [[r' n1]| |] eqn:E2; cbn in H; try discriminate.
      injection H as <- _. destruct (IH _ _ _ E2) as [-> Hm]. split.
      + rewrite (total_some _ _ E). reflexivity.
      + constructor; [congruence | exact Hm].
  Qed.

  Lemma tr_keys_complete : forall ks n, mapped ks -> exists n', tr_keys (fun _ => fp) n ks = TOk (map total ks, n').
  Proof.
    induction ks as [|k r IH]; cbn; intros n Hm; [eexists; reflexivity|].
    inversion Hm; subst. destruct (fp k) as [k'|] eqn:E; [|congruence].
    destruct (IH (n + 1)%N H2) as [n' ->]. cbn. rewrite (total_some _ _ E). eexists; reflexivity.
  Qed.

  Lemma tr_keys_err : forall ks n e,
    tr_keys (fun _ => fp) n ks = TErr e -> exists i k, e = TranslatorErr i /\ In k ks /\ fp k = None.
  Proof.
    induction ks as [|k r IH]; cbn; intros n e H; [discriminate|].
    destruct (fp k) as [k'|] eqn:E.
    - destruct (tr_keys (fun _ => fp) (n + 1) r) as [[r' n1]| |] eqn:E2; cbn in H; try discriminate.
      injection H as <-. destruct (IH _ _ E2) as [i [k0 [-> [Hin Hf]]]]. exists i, k0. auto.
    - injection H as <-. exists n, k. auto.
  Qed.

  Lemma finish_inv t n m' n' : finish chk t n = TOk (m', n') -> m' = t /\ chk t = None.
  Proof. unfold finish. destruct (chk t); [discriminate|]. intro H; injection H as <- _. auto. Qed.

  Ltac split_tb H :=
    repeat match type of H with
           | tbind (translate_rec _ _ ?n ?x) _ = _ =>
             let E := fresh "E" in destruct (translate_rec (fun _ => fp) chk n x) as [[? ?]| |] eqn:E; cbn [tbind fst snd] in H; try discriminate H
           end.

  Lemma tlist_ok_inv xs :
    Forall (fun m => forall n m' n', trec n m = TOk (m', n') ->
                     m' = map_keys total m /\ mapped (keys_rtl m) /\ chk_ok m') xs ->
    forall n l' n', tlist n xs = TOk (l', n') ->
      l' = map (map_keys total) xs /\ mapped (fold_right (fun x acc => acc ++ keys_rtl x) [] xs)
      /\ Forall (fun s => chk s = None) (flat_map subterms l').
  Proof.
    induction 1 as [|x r Hx Hr IH]; intros n l' n' E; cbn in E.
    - injection E as <- _. repeat split; constructor.
    - destruct (tlist n r) as [[r' n2]| |] eqn:E2; cbn [tbind fst snd] in E; try discriminate.
      destruct (trec n2 x) as [[x' n3]| |] eqn:E3; cbn [tbind fst snd] in E; try discriminate.
      injection E as <- _. destruct (IH _ _ _ E2) as [-> [Hm Hk]]. destruct (Hx _ _ _ E3) as [-> [Hmx Hkx]].
      split; [reflexivity|]. split; [apply Forall_app; split; assumption | cbn; apply Forall_app; split; assumption].
  Qed.

  (* success: the result is the substitution, every key was mapped, every rebuilt node passed the re-check *)
  Lemma trec_ok_inv : forall m n m' n', trec n m = TOk (m', n') ->
    m' = map_keys total m /\ mapped (keys_rtl m) /\ chk_ok m'.
  Proof.
    induction m using ms_ind'; intros n m' n' HH; cbn [translate_rec] in HH.
    (* leaves without keys *)
    1-2, 5-11: (apply finish_inv in HH; destruct HH as [-> Hc]; repeat split; [constructor | constructor; [exact Hc | constructor]]).
    (* pk_k, pk_h *)
    1-2: (destruct (fp k) as [k'|] eqn:E; [|discriminate]; apply finish_inv in HH; destruct HH as [-> Hc];
          cbn; rewrite (total_some _ _ E); repeat split; [constructor; [congruence | constructor] | constructor; [exact Hc | constructor]]).
    (* unary *)
    1-7: (split_tb HH; apply finish_inv in HH; destruct HH as [-> Hc];
          destruct (IHm _ _ _ E) as [-> [Hm Hk]]; repeat split; [exact Hm | constructor; [exact Hc | exact Hk]]).
    (* and_v and_b *)
    1-2: (split_tb HH; apply finish_inv in HH; destruct HH as [-> Hc];
          destruct (IHm2 _ _ _ E) as [-> [Hm2 Hk2]]; destruct (IHm1 _ _ _ E0) as [-> [Hm1 Hk1]]; repeat split;
          [apply Forall_app; split; assumption | constructor; [exact Hc | apply Forall_app; split; assumption]]).
    (* andor *)
    1: (split_tb HH; apply finish_inv in HH; destruct HH as [-> Hc];
        destruct (IHm3 _ _ _ E) as [-> [Hm3 Hk3]]; destruct (IHm2 _ _ _ E0) as [-> [Hm2 Hk2]];
        destruct (IHm1 _ _ _ E1) as [-> [Hm1 Hk1]]; repeat split;
        [repeat (apply Forall_app; split); assumption
        | constructor; [exact Hc | repeat (apply Forall_app; split); assumption]]).
    (* or_* *)
    1-4: (split_tb HH; apply finish_inv in HH; destruct HH as [-> Hc];
          destruct (IHm2 _ _ _ E) as [-> [Hm2 Hk2]]; destruct (IHm1 _ _ _ E0) as [-> [Hm1 Hk1]]; repeat split;
          [apply Forall_app; split; assumption | constructor; [exact Hc | apply Forall_app; split; assumption]]).
    (* thresh *)
    1: { change (trec n (MThresh k xs) = TOk (m', n')) in HH. rewrite trec_thresh in HH.
         destruct (tlist n xs) as [[l' n1]| |] eqn:E; cbn [tbind fst snd] in HH; try discriminate.
         apply finish_inv in HH. destruct HH as [-> Hc].
         destruct (tlist_ok_inv xs H _ _ _ E) as [-> [Hm Hk]].
         split; [reflexivity|]. split; [exact Hm|]. unfold chk_ok. rewrite subterms_thresh.
         constructor; [exact Hc | exact Hk]. }
    (* multi forms *)
    1-4: (destruct (tr_keys (fun _ => fp) n ks) as [[ks' n1]| |] eqn:E; cbn [tbind fst snd] in HH; try discriminate;
          apply finish_inv in HH; destruct HH as [-> Hc]; destruct (tr_keys_inv _ _ _ _ E) as [-> Hm];
          repeat split; [exact Hm | constructor; [exact Hc | constructor]]).
  Qed.

  (* ---------------------------------------------------------------- completeness *)
  Lemma finish_ok t n : chk t = None -> finish chk t n = TOk (t, n).
  Proof. unfold finish. intros ->. reflexivity. Qed.

  Lemma chk_ok_head m : chk_ok m -> chk m = None.
  Proof. unfold chk_ok. destruct m; cbn; intro H; inversion H; assumption. Qed.

  Lemma tlist_complete xs :
    Forall (fun m => forall n, mapped (keys_rtl m) -> chk_ok (map_keys total m) ->
                     exists n', trec n m = TOk (map_keys total m, n')) xs ->
    forall n, mapped (fold_right (fun x acc => acc ++ keys_rtl x) [] xs) ->
              Forall (fun s => chk s = None) (flat_map subterms (map (map_keys total) xs)) ->
              exists n', tlist n xs = TOk (map (map_keys total) xs, n').
  Proof.
    induction 1 as [|x r Hx Hr IH]; intros n Hm Hk; cbn; [eexists; reflexivity|].
    cbn in Hm, Hk. apply Forall_app in Hm. destruct Hm as [Hmr Hmx]. apply Forall_app in Hk. destruct Hk as [Hkx Hkr].
    destruct (IH n Hmr Hkr) as [n1 ->]. cbn. destruct (Hx n1 Hmx Hkx) as [n2 ->]. cbn. eexists; reflexivity.
  Qed.

  Lemma trec_complete : forall m n, mapped (keys_rtl m) -> chk_ok (map_keys total m) ->
    exists n', trec n m = TOk (map_keys total m, n').
  Proof.
    induction m using ms_ind'; intros n Hm Hk; cbn [translate_rec map_keys]; pose proof (chk_ok_head _ Hk) as Hc;
      cbn [map_keys] in Hc, Hk; unfold chk_ok in Hk; cbn [subterms] in Hk; inversion Hk as [|? ? _ Hk']; subst; clear Hk.
    1-2, 5-11: (rewrite finish_ok by exact Hc; eexists; reflexivity).
    1-2: (inversion Hm; subst; destruct (fp k) as [k'|] eqn:E; [|congruence]; rewrite (total_some _ _ E) in *;
          rewrite finish_ok by exact Hc; eexists; reflexivity).
    1-7: (destruct (IHm n Hm Hk') as [n1 ->]; cbn; rewrite finish_ok by exact Hc; eexists; reflexivity).
    1-2: (cbn [keys_rtl] in Hm; apply Forall_app in Hm; destruct Hm as [Hm2 Hm1]; apply Forall_app in Hk'; destruct Hk' as [Hk1 Hk2];
          destruct (IHm2 n Hm2 Hk2) as [n1 ->]; cbn; destruct (IHm1 n1 Hm1 Hk1) as [n2 ->]; cbn;
          rewrite finish_ok by exact Hc; eexists; reflexivity).
    1: (cbn [keys_rtl] in Hm; apply Forall_app in Hm; destruct Hm as [Hm3 Hm]; apply Forall_app in Hm; destruct Hm as [Hm2 Hm1];
        apply Forall_app in Hk'; destruct Hk' as [Hk1 Hk']; apply Forall_app in Hk'; destruct Hk' as [Hk2 Hk3];
        destruct (IHm3 n Hm3 Hk3) as [n1 ->]; cbn; destruct (IHm2 n1 Hm2 Hk2) as [n2 ->]; cbn;
        destruct (IHm1 n2 Hm1 Hk1) as [n3 ->]; cbn; rewrite finish_ok by exact Hc; eexists; reflexivity).
    1-4: (cbn [keys_rtl] in Hm; apply Forall_app in Hm; destruct Hm as [Hm2 Hm1]; apply Forall_app in Hk'; destruct Hk' as [Hk1 Hk2];
          destruct (IHm2 n Hm2 Hk2) as [n1 ->]; cbn; destruct (IHm1 n1 Hm1 Hk1) as [n2 ->]; cbn;
          rewrite finish_ok by exact Hc; eexists; reflexivity).
    1: { change (exists n', trec n (MThresh k xs) = TOk (MThresh k (map (map_keys total) xs), n')).
         rewrite trec_thresh. destruct (tlist_complete xs H n Hm Hk') as [n1 ->]. cbn.
         rewrite finish_ok by exact Hc. eexists; reflexivity. }
    1-4: (destruct (tr_keys_complete ks n Hm) as [n1 ->]; cbn; rewrite finish_ok by exact Hc; eexists; reflexivity).
  Qed.

  (* ---------------------------------------------------------------- failure *)
  Definition fail_in (e : terr) (ks : list key) (S : list ms) : Prop :=
    (exists i k, e = TranslatorErr i /\ In k ks /\ fp k = None) \/
    (exists c s, e = OuterErr c /\ In s S /\ mapped (keys_rtl s) /\ chk (map_keys total s) = Some c).

  Lemma fail_mono e ks S ks' S' : fail_in e ks S -> incl ks ks' -> incl S S' -> fail_in e ks' S'.
  Proof.
    intros [[i [k [-> [Hin Hf]]]]|[c [s [-> [Hin [Hm Hc]]]]]] Hk HS.
    - left. exists i, k. auto.
    - right. exists c, s. auto.
  Qed.

  Lemma fail_finish s n e ks S :
    finish chk (map_keys total s) n = TErr e -> mapped (keys_rtl s) -> In s S -> fail_in e ks S.
  Proof.
    unfold finish. destruct (chk (map_keys total s)) as [c|] eqn:E; [|discriminate].
    intro H; injection H as <-. intros Hm Hin. right. exists c, s. auto.
  Qed.

  Lemma tlist_err xs :
    Forall (fun m => forall n e, trec n m = TErr e -> fail_in e (keys_rtl m) (subterms m)) xs ->
    forall n e, tlist n xs = TErr e ->
                fail_in e (fold_right (fun x acc => acc ++ keys_rtl x) [] xs) (flat_map subterms xs).
  Proof.
    induction 1 as [|x r Hx Hr IH]; intros n e E; cbn in E; [discriminate|].
    destruct (tlist n r) as [[r' n2]| |] eqn:E2; cbn [tbind fst snd] in E; try discriminate.
    - destruct (trec n2 x) as [[x' n3]| |] eqn:E3; cbn [tbind fst snd] in E; try discriminate.
      injection E as <-. apply (fail_mono _ _ _ _ _ (Hx _ _ E3)); cbn; [apply incl_appr | apply incl_appl]; apply incl_refl.
    - injection E as <-. apply (fail_mono _ _ _ _ _ (IH _ _ E2)); cbn; [apply incl_appl | apply incl_appr]; apply incl_refl.
  Qed.

  Ltac incl_tac := cbn; repeat first [apply incl_refl | apply incl_tl | apply incl_appl; apply incl_refl
                                      | apply incl_appr | apply incl_appl].

  Lemma trec_err : forall m n e, trec n m = TErr e -> fail_in e (keys_rtl m) (subterms m).
  Proof.
    induction m using ms_ind'; intros n e HH; cbn [translate_rec] in HH.
    1-2, 5-11: (match goal with |- fail_in _ _ (subterms ?s) => apply (fail_finish s n) end; [exact HH | constructor | left; reflexivity]).
    1-2: (destruct (fp k) as [k'|] eqn:E;
          [ match goal with |- fail_in _ _ (subterms ?s) => refine (fail_finish s (n + 1)%N _ _ _ _ _ _) end;
            [cbn [map_keys]; rewrite (total_some _ _ E); exact HH | constructor; [congruence | constructor] | left; reflexivity]
          | injection HH as <-; left; exists n, k; cbn; auto ]).
    1-7: (destruct (trec n m) as [[x' n1]| |] eqn:E; cbn [tbind fst snd] in HH; try discriminate;
          [ destruct (trec_ok_inv _ _ _ _ E) as [-> [Hm _]];
            match goal with |- fail_in _ _ (subterms ?s) => refine (fail_finish s n1 _ _ _ _ _ _) end; [exact HH | exact Hm | left; reflexivity]
          | injection HH as <-; apply (fail_mono _ _ _ _ _ (IHm _ _ E)); incl_tac ]).
    1-2: (destruct (trec n m2) as [[y' n1]| |] eqn:E2; cbn [tbind fst snd] in HH; try discriminate;
          [ destruct (trec n1 m1) as [[x' n2]| |] eqn:E1; cbn [tbind fst snd] in HH; try discriminate;
            [ destruct (trec_ok_inv _ _ _ _ E2) as [-> [Hm2 _]]; destruct (trec_ok_inv _ _ _ _ E1) as [-> [Hm1 _]];
              match goal with |- fail_in _ _ (subterms ?s) => refine (fail_finish s n2 _ _ _ _ _ _) end; [exact HH | apply Forall_app; split; assumption | left; reflexivity]
            | injection HH as <-; apply (fail_mono _ _ _ _ _ (IHm1 _ _ E1)); incl_tac ]
          | injection HH as <-; apply (fail_mono _ _ _ _ _ (IHm2 _ _ E2)); incl_tac ]).
    1: (destruct (trec n m3) as [[c' n1]| |] eqn:E3; cbn [tbind fst snd] in HH; try discriminate;
        [ destruct (trec n1 m2) as [[b' n2]| |] eqn:E2; cbn [tbind fst snd] in HH; try discriminate;
          [ destruct (trec n2 m1) as [[a' n3]| |] eqn:E1; cbn [tbind fst snd] in HH; try discriminate;
            [ destruct (trec_ok_inv _ _ _ _ E3) as [-> [Hm3 _]]; destruct (trec_ok_inv _ _ _ _ E2) as [-> [Hm2 _]];
              destruct (trec_ok_inv _ _ _ _ E1) as [-> [Hm1 _]];
              match goal with |- fail_in _ _ (subterms ?s) => refine (fail_finish s n3 _ _ _ _ _ _) end; [exact HH | repeat (apply Forall_app; split); assumption | left; reflexivity]
            | injection HH as <-; apply (fail_mono _ _ _ _ _ (IHm1 _ _ E1)); incl_tac ]
          | injection HH as <-; apply (fail_mono _ _ _ _ _ (IHm2 _ _ E2)); incl_tac ]
        | injection HH as <-; apply (fail_mono _ _ _ _ _ (IHm3 _ _ E3)); incl_tac ]).
    1-4: (destruct (trec n m2) as [[y' n1]| |] eqn:E2; cbn [tbind fst snd] in HH; try discriminate;
          [ destruct (trec n1 m1) as [[x' n2]| |] eqn:E1; cbn [tbind fst snd] in HH; try discriminate;
            [ destruct (trec_ok_inv _ _ _ _ E2) as [-> [Hm2 _]]; destruct (trec_ok_inv _ _ _ _ E1) as [-> [Hm1 _]];
              match goal with |- fail_in _ _ (subterms ?s) => refine (fail_finish s n2 _ _ _ _ _ _) end; [exact HH | apply Forall_app; split; assumption | left; reflexivity]
            | injection HH as <-; apply (fail_mono _ _ _ _ _ (IHm1 _ _ E1)); incl_tac ]
          | injection HH as <-; apply (fail_mono _ _ _ _ _ (IHm2 _ _ E2)); incl_tac ]).
    1: { change (trec n (MThresh k xs) = TErr e) in HH. rewrite trec_thresh in HH.
         destruct (tlist n xs) as [[l' n1]| |] eqn:E; cbn [tbind fst snd] in HH; try discriminate.
         - assert (Hi : Forall (fun m => forall n m' n', trec n m = TOk (m', n') ->
                                m' = map_keys total m /\ mapped (keys_rtl m) /\ chk_ok m') xs).
           { clear. induction xs as [|x r IH]; constructor; [intros; eapply trec_ok_inv; eassumption | exact IH]. }
           destruct (tlist_ok_inv xs Hi _ _ _ E) as [-> [Hm _]].
           refine (fail_finish (MThresh k xs) n1 _ _ _ _ _ _); [exact HH | exact Hm | left; reflexivity].
         - injection HH as <-. apply (fail_mono _ _ _ _ _ (tlist_err xs H _ _ E)); [apply incl_refl|].
           rewrite subterms_thresh. apply incl_tl, incl_refl. }
    1-4: (destruct (tr_keys (fun _ => fp) n ks) as [[ks' n1]| |] eqn:E; cbn [tbind fst snd] in HH; try discriminate;
          [ destruct (tr_keys_inv _ _ _ _ E) as [-> Hm];
            match goal with |- fail_in _ _ (subterms ?s) => refine (fail_finish s n1 _ _ _ _ _ _) end; [exact HH | exact Hm | left; reflexivity]
          | injection HH as <-; destruct (tr_keys_err _ _ _ E) as [i [k0 [-> [Hin Hf]]]]; left; exists i, k0; auto ]).
  Qed.

  (* ---------------------------------------------------------------- statements about `translate` *)
  Theorem translate_ok m m' : translate (fun _ => fp) chk m = TOk m' ->
    m' = map_keys total m /\ mapped (keys_pre m) /\ chk_ok m'.
  Proof.
    unfold translate. destruct (trec 0 m) as [[x n']| |] eqn:E; cbn; try discriminate.
    intro H; injection H as <-. destruct (trec_ok_inv _ _ _ _ E) as [-> [Hm Hk]].
    repeat split; try assumption. unfold mapped in *. rewrite Forall_forall in *.
    intros k Hin. apply Hm. apply (Permutation_in _ (keys_pre_rtl_perm m) Hin).
  Qed.

  Theorem translate_fail_only m e : translate (fun _ => fp) chk m = TErr e ->
    (exists i k, e = TranslatorErr i /\ In k (keys_pre m) /\ fp k = None) \/
    (exists c s, e = OuterErr c /\ In s (subterms m) /\ mapped (keys_pre s) /\ chk (map_keys total s) = Some c).
  Proof.
    unfold translate. destruct (trec 0 m) as [[x n']| |] eqn:E; cbn; try discriminate.
    intro H; injection H as <-. destruct (trec_err _ _ _ E) as [[i [k [-> [Hin Hf]]]]|[c [s [-> [Hin [Hm Hc]]]]]].
    - left. exists i, k. repeat split; [|exact Hf]. apply (Permutation_in _ (Permutation_sym (keys_pre_rtl_perm m)) Hin).
    - right. exists c, s. repeat split; try assumption. unfold mapped in *. rewrite Forall_forall in *.
      intros k Hk. apply Hm. apply (Permutation_in _ (keys_pre_rtl_perm s) Hk).
  Qed.

  Theorem translate_complete m : mapped (keys_pre m) -> chk_ok (map_keys total m) ->
    translate (fun _ => fp) chk m = TOk (map_keys total m).
  Proof.
    intros Hm Hk. unfold translate. destruct (trec_complete m 0%N) as [n' ->]; [|exact Hk|reflexivity].
    unfold mapped in *. rewrite Forall_forall in *. intros k Hin. apply Hm.
    apply (Permutation_in _ (Permutation_sym (keys_pre_rtl_perm m)) Hin).
  Qed.
End Pure.

(* ------------------------------------------------------------------ substitution lemmas *)
Lemma map_keys_ext g h m : (forall k, In k (keys_pre m) -> g k = h k) -> map_keys g m = map_keys h m.
Proof.
  induction m using ms_ind'; cbn [map_keys keys_pre]; intro Hk; try reflexivity.
  1-2: (f_equal; apply Hk; left; reflexivity).
  1-7: (f_equal; apply IHm; exact Hk).
  1-2: (f_equal; [apply IHm1 | apply IHm2]; intros; apply Hk; apply in_or_app; auto).
  1: (f_equal; [apply IHm1 | apply IHm2 | apply IHm3]; intros; apply Hk; apply in_or_app; [left | right; apply in_or_app; left | right; apply in_or_app; right]; assumption).
  1-4: (f_equal; [apply IHm1 | apply IHm2]; intros; apply Hk; apply in_or_app; auto).
  1: { f_equal. change (forall k0, In k0 (flat_map keys_pre xs) -> g k0 = h k0) in Hk.
       induction H as [|x r Hx Hr IH]; cbn; [reflexivity|]. cbn in Hk. f_equal.
       - apply Hx. intros; apply Hk; apply in_or_app; auto.
       - apply IH. intros; apply Hk; apply in_or_app; auto. }
  1-4: (f_equal; apply map_ext_in; exact Hk).
Qed.

Lemma map_keys_id m : map_keys (fun k => k) m = m.
Proof.
  induction m using ms_ind'; cbn [map_keys]; try congruence; try (rewrite map_id; reflexivity).
  f_equal. induction H as [|x r Hx Hr IH]; cbn; congruence.
Qed.

Lemma map_keys_comp g h m : map_keys h (map_keys g m) = map_keys (fun k => h (g k)) m.
Proof.
  induction m using ms_ind'; cbn [map_keys]; try congruence; try (rewrite map_map; reflexivity).
  f_equal. rewrite map_map. induction H as [|x r Hx Hr IH]; cbn; congruence.
Qed.

Lemma keys_pre_map g m : keys_pre (map_keys g m) = map g (keys_pre m).
Proof.
  induction m using ms_ind'; cbn [map_keys keys_pre]; rewrite ?map_app; try congruence; try reflexivity.
  change (flat_map keys_pre (map (map_keys g) xs) = map g (flat_map keys_pre xs)).
  induction H as [|x r Hx Hr IH]; cbn; [reflexivity|]. rewrite map_app. congruence.
Qed.

(* shape: a translation changes nothing but the keys *)
Theorem shape_map_keys g m : key_shape (map_keys g m) = key_shape m.
Proof. unfold key_shape. apply map_keys_comp. Qed.

(* types do not depend on keys *)
Theorem type_of_map_keys g m : type_of (map_keys g m) = type_of m.
Proof.
  induction m using ms_ind'; cbn [map_keys type_of]; try reflexivity;
    rewrite ?IHm, ?IHm1, ?IHm2, ?IHm3; try reflexivity.
  f_equal. induction H as [|x r Hx Hr IH]; cbn; [reflexivity|]. rewrite Hx, IH. reflexivity.
Qed.

(* ------------------------------------------------------------------ identity and composition *)
Theorem translate_id chk m : chk_ok chk m -> translate (fun _ k => Some k) chk m = TOk m.
Proof.
  intro Hk.
  assert (E : map_keys (total (fun k => Some k)) m = m) by (rewrite <- (map_keys_id m) at 2; apply map_keys_ext; reflexivity).
  rewrite <- E at 2. apply translate_complete.
  - apply Forall_forall. intros k _. discriminate.
  - rewrite E. exact Hk.
Qed.

Definition comp_opt (fp gp : key -> option key) (k : key) : option key :=
  match fp k with Some k' => gp k' | None => None end.

Theorem translate_comp chk fp gp m m1 m2 :
  translate (fun _ => fp) chk m = TOk m1 -> translate (fun _ => gp) chk m1 = TOk m2 ->
  translate (fun _ => comp_opt fp gp) chk m = TOk m2.
Proof.
  intros H1 H2. destruct (translate_ok _ _ _ _ H1) as [-> [Hm1 _]]. destruct (translate_ok _ _ _ _ H2) as [-> [Hm2 Hk2]].
  rewrite keys_pre_map in Hm2. unfold mapped in *. rewrite Forall_forall in Hm1, Hm2.
  assert (A : forall k, In k (keys_pre m) -> exists k' k'', fp k = Some k' /\ gp k' = Some k'').
  { intros k Hin. destruct (fp k) as [k'|] eqn:E; [|elim (Hm1 k Hin E)].
    assert (Hin' : In (total fp k) (map (total fp) (keys_pre m))) by (apply in_map; exact Hin).
    specialize (Hm2 _ Hin'). rewrite (total_some _ _ _ E) in Hm2. destruct (gp k') as [k''|] eqn:E2; [|congruence].
    exists k', k''. auto. }
  assert (E : map_keys (total gp) (map_keys (total fp) m) = map_keys (total (comp_opt fp gp)) m).
  { rewrite map_keys_comp. apply map_keys_ext. intros k Hin. destruct (A k Hin) as [k' [k'' [E1 E2]]].
    unfold total, comp_opt. rewrite E1, E2. reflexivity. }
  rewrite E in *. apply translate_complete; [|exact Hk2].
  apply Forall_forall. intros k Hin. destruct (A k Hin) as [k' [k'' [E1 E2]]]. unfold comp_opt. rewrite E1, E2. discriminate.
Qed.

(* ------------------------------------------------------------------ the script of a translation *)
Section Enc.
  Variables ke ke' : keyenv.
  Variable g : key -> key.
  Hypothesis Hkb : forall k, kb ke' (g k) = kb ke k.             (* the translated key serialises as ... *)
  Hypothesis Hkh : forall k, kh ke' (g k) = kh ke k.
  (* BIP67 sorting is by serialisation, so the sorted pushes agree *)
  Hypothesis Hsort : forall ks, map (kb ke') (ksort ke' (map g ks)) = map (kb ke) (ksort ke ks).

  Definition ma_script (bs : list bytes) : script :=
    match bs with
    | [] => []
    | b0 :: r => [IPush b0; IOp OP_CHECKSIG] ++ flat_map (fun b => [IPush b; IOp OP_CHECKSIGADD]) r
    end.

  Lemma ma_script_keys (e : keyenv) l :
    match l with
    | [] => []
    | k0 :: rest => [IPush (kb e k0); IOp OP_CHECKSIG] ++ flat_map (fun key => [IPush (kb e key); IOp OP_CHECKSIGADD]) rest
    end = ma_script (map (kb e) l).
  Proof.
    destruct l as [|k0 rest]; [reflexivity|]. cbn. do 2 f_equal.
    induction rest as [|x r IH]; cbn; [reflexivity | rewrite IH; reflexivity].
  Qed.

  Lemma push_keys (e : keyenv) l : map (fun key => IPush (kb e key)) l = map IPush (map (kb e) l).
  Proof. rewrite map_map. reflexivity. Qed.

  Lemma kb_map l : map (kb ke') (map g l) = map (kb ke) l.
  Proof. rewrite map_map. apply map_ext. exact Hkb. Qed.

  (* tr_structure (script part): the script of the translated term is the original script with the
     mapped keys' bytes in place of the original keys' bytes *)
  Theorem enc_map_keys m : enc ke' (map_keys g m) = enc ke m.
  Proof.
    induction m using ms_ind'; cbn [map_keys enc]; rewrite ?Hkb, ?Hkh; try congruence.
    - (* thresh *) f_equal. destruct H as [|x r Hx Hr]; [reflexivity|]. cbn [map]. rewrite Hx. f_equal.
      induction Hr as [|y s Hy Hs IH]; cbn; [reflexivity|]. rewrite Hy. do 2 f_equal. exact IH.
    - rewrite !push_keys, kb_map, map_length. reflexivity.
    - rewrite !push_keys, Hsort, map_length. reflexivity.
    - rewrite !ma_script_keys, kb_map. reflexivity.
    - rewrite !ma_script_keys, Hsort. reflexivity.
  Qed.
End Enc.

(* ------------------------------------------------------------------ key iteration *)
Definition node_key_list (x : node) : list key :=
  match n_pl x, n_tag x with
  | PKey k, (TPkK | TPkH) => [k]
  | PKeys _ ks, _ => ks
  | _, _ => []
  end.

Lemma preorder_keys m : flat_map node_key_list (preorder m) = keys_pre m.
Proof.
  induction m using ms_ind'; try rewrite preorder_thresh; cbn [preorder flat_map keys_pre]; rewrite ?flat_map_app;
    try (cbn; rewrite ?app_nil_r; congruence).
  cbn [node_of node_key_list n_pl n_tag app]. change (flat_map node_key_list (flat_map preorder xs) = flat_map keys_pre xs).
  induction H as [|x r Hx Hr IH]; cbn; [reflexivity|]. rewrite flat_map_app. congruence.
Qed.

(* Miniscript::iter_pk yields exactly the keys in pre-order (= the order of the string form) *)
Theorem iter_pk_keys m : iter_pk m (ms_size m) = Some (keys_pre m).
Proof.
  unfold iter_pk. rewrite preorder_iter_refines. cbn [option_map]. f_equal. apply preorder_keys.
Qed.

Lemma all_log_spec p ks :
  fst (all_log p ks) = forallb p ks /\
  exists rest, ks = snd (all_log p ks) ++ rest /\ (fst (all_log p ks) = true -> rest = []).
Proof.
  induction ks as [|k r [IH1 [rest [IH2 IH3]]]]; cbn.
  - split; [reflexivity|]. exists []. auto.
  - destruct (p k) eqn:E.
    + destruct (all_log p r) as [b l] eqn:E2. cbn in *. split; [exact IH1|]. exists rest. split; [congruence | exact IH3].
    + cbn. split; [reflexivity|]. exists r. split; [reflexivity | discriminate].
Qed.

(* for_each_key p = forallb p keys, visiting a prefix of the keys (all of them when the result is true) *)
Theorem for_each_key_spec p m :
  fst (for_each_key p m) = forallb p (keys_pre m) /\
  exists rest, keys_pre m = snd (for_each_key p m) ++ rest /\ (fst (for_each_key p m) = true -> rest = []).
Proof. apply all_log_spec. Qed.

Theorem for_any_key_spec p m : for_any_key p m = existsb p (keys_pre m).
Proof.
  unfold for_any_key. destruct (for_each_key_spec (fun k => negb (p k)) m) as [-> _].
  induction (keys_pre m) as [|k r IH]; cbn; [reflexivity|]. rewrite negb_andb, negb_involutive, IH. reflexivity.
Qed.

(* the keys of the string form: the Key display nodes, in order *)
Definition dkeys (l : list dnode) : list key := flat_map (fun d => match d with DKey k => [k] | _ => [] end) l.

Lemma dkeys_app a b : dkeys (a ++ b) = dkeys a ++ dkeys b.
Proof. apply flat_map_app. Qed.

Lemma is_true_eq' m : is_true m = true -> m = MTrue.
Proof. destruct m; cbn; intro H; try discriminate; reflexivity. Qed.
Lemma is_false_eq' m : is_false m = true -> m = MFalse.
Proof. destruct m; cbn; intro H; try discriminate; reflexivity. Qed.

Lemma dkeys_node f n l : dkeys (DNode f n :: l) = dkeys l.
Proof. reflexivity. Qed.
Lemma dkeys_k k l : dkeys (DThreshK k :: l) = dkeys l.
Proof. reflexivity. Qed.
Lemma dkeys_keys l : dkeys (map DKey l) = l.
Proof. induction l as [|x r IH]; [reflexivity|]. cbn [map]. change (dkeys (DKey x :: map DKey r)) with (x :: dkeys (map DKey r)). rewrite IH. reflexivity. Qed.

Theorem display_keys m : dkeys (dnodes m) = keys_pre m.
Proof.
  induction m using ms_ind'; try reflexivity; cbn [dnodes keys_pre].
  (* a s *)
  1-2: (rewrite dkeys_node; exact IHm).
  (* c *)
  1: (destruct m; try reflexivity; rewrite dkeys_node; exact IHm).
  (* d v j n *)
  1-4: (rewrite dkeys_node; exact IHm).
  (* and_v *)
  1: (destruct (is_true m2) eqn:E; rewrite dkeys_node, ?dkeys_app;
      [apply is_true_eq' in E; subst; cbn [keys_pre]; rewrite app_nil_r; exact IHm1 | congruence]).
  (* and_b *)
  1: (rewrite dkeys_node, dkeys_app; congruence).
  (* andor *)
  1: (destruct (is_false m3) eqn:E; rewrite dkeys_node, ?dkeys_app;
      [apply is_false_eq' in E; subst; cbn [keys_pre]; rewrite app_nil_r; congruence | congruence]).
  (* or_b or_d or_c *)
  1-3: (rewrite dkeys_node, dkeys_app; congruence).
  (* or_i *)
  1: (destruct (is_false m1) eqn:E1; [|destruct (is_false m2) eqn:E2]; rewrite dkeys_node, ?dkeys_app;
      [ apply is_false_eq' in E1; subst; exact IHm2
      | apply is_false_eq' in E2; subst; cbn [keys_pre]; rewrite app_nil_r; exact IHm1
      | congruence ]).
  (* thresh *)
  1: { rewrite dkeys_node, dkeys_k. change (dkeys (flat_map dnodes xs) = flat_map keys_pre xs).
       induction H as [|x r Hx Hr IH]; [reflexivity|]. cbn [flat_map]. rewrite dkeys_app. congruence. }
  (* multi forms *)
  1-4: (rewrite dkeys_node, dkeys_k; apply dkeys_keys).
Qed.

(* keys_exact: iterator, for-each-key and translator visit exactly the keys of the string form *)
Theorem keys_exact m :
  iter_pk m (ms_size m) = Some (dkeys (dnodes m)) /\
  (forall p, fst (for_each_key p m) = forallb p (dkeys (dnodes m))) /\
  Permutation (keys_rtl m) (dkeys (dnodes m)).
Proof.
  rewrite display_keys. split; [apply iter_pk_keys|]. split.
  - intro p. apply for_each_key_spec.
  - apply Permutation_sym, keys_pre_rtl_perm.
Qed.

(* ------------------------------------------------------------------ which re-checks can fail after a translation *)
Lemma check_pks_some c kk ks e : check_pks c kk ks = Some e -> exists k, In k ks /\ check_pk c (kk k) = Some e.
Proof.
  induction ks as [|k r IH]; cbn; [discriminate|].
  destruct (check_pk c (kk k)) eqn:E.
  - intro H; injection H as <-. exists k. auto.
  - intro H. destruct (IH H) as [k0 [Hin Hc]]. exists k0. auto.
Qed.

(* A node that passed from_ast before the translation can be rejected afterwards only because a mapped
   key is of a kind the context forbids, or because of the (key-length dependent) script-size limit. *)
Theorem recheck_fail_only c kk kk' rest size size' g s e :
  (forall t, rest (map_keys g t) = rest t) ->
  from_ast_chk c kk rest size s = None ->
  from_ast_chk c kk' rest size' (map_keys g s) = Some e ->
  (exists k, In k (node_keys s) /\ check_pk c (kk' (g k)) = Some e) \/ size' (map_keys g s) = Some e.
Proof.
  intros Hrest H0 H1. unfold from_ast_chk in *. rewrite type_of_map_keys, Hrest in H1.
  destruct (type_of s); [|discriminate]. destruct (rest s); [discriminate|].
  destruct (node_check c kk' (map_keys g s)) as [e'|] eqn:E; [|right; exact H1].
  injection H1 as <-. left.
  destruct s; cbn in E; try discriminate; cbn [node_keys].
  - exists k. split; [left; reflexivity | exact E].
  - exists k. split; [left; reflexivity | exact E].
  - cbn in H0. destruct (is_tap c); [discriminate|]. destruct (check_pks_some _ _ _ _ E) as [k0 [Hin Hc]].
    apply in_map_iff in Hin. destruct Hin as [k1 [<- Hin]]. exists k1. auto.
  - cbn in H0. destruct (is_tap c); [discriminate|]. destruct (check_pks_some _ _ _ _ E) as [k0 [Hin Hc]].
    apply in_map_iff in Hin. destruct Hin as [k1 [<- Hin]]. exists k1. auto.
  - cbn in H0. destruct (is_tap c); [|discriminate]. destruct (check_pks_some _ _ _ _ E) as [k0 [Hin Hc]].
    apply in_map_iff in Hin. destruct Hin as [k1 [<- Hin]]. exists k1. auto.
  - cbn in H0. destruct (is_tap c); [|discriminate]. destruct (check_pks_some _ _ _ _ E) as [k0 [Hin Hc]].
    apply in_map_iff in Hin. destruct Hin as [k1 [<- Hin]]. exists k1. auto.
Qed.

(* Clone for Miniscript (the same machine with the identity map and no re-check) returns its argument *)
Theorem clone_iter_id m : clone_iter m = TOk m.
Proof.
  unfold clone_iter. rewrite translate_iter_refines. apply translate_id.
  unfold chk_ok. apply Forall_forall. reflexivity.
Qed.


(* ------------------------------------------------------------------ the same facts for the algorithm as coded *)
Theorem iter_id chk m : chk_ok chk m -> translate_iter (fun _ k => Some k) chk m = TOk m.
Proof. intro H. rewrite translate_iter_refines. apply translate_id. exact H. Qed.

Theorem iter_comp chk fp gp m m1 m2 :
  translate_iter (fun _ => fp) chk m = TOk m1 -> translate_iter (fun _ => gp) chk m1 = TOk m2 ->
  translate_iter (fun _ => comp_opt fp gp) chk m = TOk m2.
Proof. rewrite !translate_iter_refines. apply translate_comp. Qed.

Theorem iter_structure chk fp m m' :
  translate_iter (fun _ => fp) chk m = TOk m' ->
  m' = map_keys (total fp) m /\ key_shape m' = key_shape m /\ type_of m' = type_of m /\
  mapped fp (keys_pre m) /\ chk_ok chk m'.
Proof.
  rewrite translate_iter_refines. intro H. destruct (translate_ok _ _ _ _ H) as [-> [Hm Hk]].
  repeat split; try assumption; [apply shape_map_keys | apply type_of_map_keys].
Qed.

Theorem iter_structure_script (ke ke' : keyenv) (g : key -> key) :
  (forall k, kb ke' (g k) = kb ke k) -> (forall k, kh ke' (g k) = kh ke k) ->
  (forall ks, map (kb ke') (ksort ke' (map g ks)) = map (kb ke) (ksort ke ks)) ->
  forall m, enc ke' (map_keys g m) = enc ke m /\ encode ke' (map_keys g m) = encode ke m.
Proof.
  intros H1 H2 H3 m. pose proof (enc_map_keys ke ke' g H1 H2 H3 m) as E. split; [exact E|]. unfold encode. rewrite E. reflexivity.
Qed.

Theorem iter_complete chk fp m :
  mapped fp (keys_pre m) -> chk_ok chk (map_keys (total fp) m) ->
  translate_iter (fun _ => fp) chk m = TOk (map_keys (total fp) m).
Proof. intros H1 H2. rewrite translate_iter_refines. apply translate_complete; assumption. Qed.

Theorem iter_fail_only chk fp m e :
  translate_iter (fun _ => fp) chk m = TErr e ->
  (exists i k, e = TranslatorErr i /\ In k (keys_pre m) /\ fp k = None) \/
  (exists c s, e = OuterErr c /\ In s (subterms m) /\ mapped fp (keys_pre s) /\ chk (map_keys (total fp) s) = Some c).
Proof. rewrite translate_iter_refines. apply translate_fail_only. Qed.

(* non-vacuity: a term, a partial key map and a check under which all three outcomes occur *)
Local Open Scope N_scope.
Example translate_examples :
  let m := MAndOr (MCheck (MPkK 0)) (MCheck (MPkH 1)) (MCheck (MPkK 2)) in
  let chk := from_ast_chk Segwitv0 (fun k => if N.eqb k 12 then KUncompressed else KCompressed) (fun _ => None) (fun _ => None) in
  translate_iter (fun _ k => Some (k + 10)%N) chk m = TErr (OuterErr CUncompressed) /\
  translate_iter (fun _ k => if N.eqb k 1 then None else Some k) chk m = TErr (TranslatorErr 1) /\
  translate_iter (fun _ k => Some (k + 20)%N) chk m = TOk (MAndOr (MCheck (MPkK 20)) (MCheck (MPkH 21)) (MCheck (MPkK 22))).
Proof. vm_compute. repeat split. Qed.
