(* C07 at descriptor level: non-vacuity.  A concrete transaction environment, key table, script
   wsh(or_d(pk(K0),and_v(v:pk(K1),older(10)))) and three worlds in which every hypothesis of
   wsh_spending_condition holds: one holding a signature of K0 (policy true, first branch), one
   holding a signature of K1 with nSequence 12 >= 10 (policy true, second branch), and one without
   signatures (policy false).  The P2WSH validation of the concrete witnesses is ALSO re-established
   by evaluation, independently of the theorems. *)
From Verif Require Import Exec Ser Spend Ast Types TypeCheck SatSpec Sat LiftModel LiftLimits TheoremA SatProofs FrameDissat
  DenotSpec LiftFullProofs CodecSpec LiftDescWsh LiftDescWorld.
From Verif Require CodecExt ExtCodec CompleteThresh.
From Coq Require Import Lia Permutation.
Local Open Scope N_scope.

Definition dx_key (k : N) : bytes := 2 :: repeat k 32.                      (* 33 bytes, compressed form *)
Definition dx_sig (k : N) : bytes := [7; k].                                 (* "signature of key k" *)
Definition dx_hash160 (b : bytes) : bytes :=
  match b with
  | _ :: k :: _ => if bytes_eqb b (dx_key k) then repeat k 20 else []
  | _ => []
  end.
Definition dx_e : env :=
  mkEnv SvBase 0 12 2
        (fun key sg => match sg with [7; k] => bytes_eqb key (dx_key k) | _ => false end)
        (fun _ => true) (fun b => b) (fun b => b) (fun b => b) dx_hash160.
Definition dx_ke : keyenv := mkKeyEnv dx_key (fun k => repeat k 20) (fun ks => ks).
Definition dx_unc : key -> bool := CodecExt.is_uncompressed dx_ke.
Definition dx_m : ms := MOrD (MCheck (MPkK 0)) (MAndV (MVerify (MCheck (MPkK 1))) (MOlder 10)).
Definition dx_pub : wit := [[]; [1]; zeros32; dx_key 0; dx_key 1].
Definition dx_W0 : wit := dx_pub.                           (* no signature *)
Definition dx_WA : wit := dx_pub ++ [dx_sig 0].             (* K0 signs *)
Definition dx_WB : wit := dx_pub ++ [dx_sig 1].             (* K1 signs; nSequence 12 meets older(10) *)
Definition dx_p : lpolicy := LThresh 1 [LKey 0; LThresh 2 [LKey 1; LOlder 10]].

Lemma dx_hash160_key k : dx_hash160 (dx_key k) = repeat k 20.
Proof. unfold dx_hash160, dx_key at 1. cbn [repeat]. change (2 :: k :: repeat k 31) with (dx_key k). rewrite bytes_eqb_refl. reflexivity. Qed.

Lemma dx_hash160_inv b k : dx_hash160 b = repeat k 20 -> b = dx_key k.
Proof.
  unfold dx_hash160. intros H. cbn [repeat] in H.
  destruct b as [|a [|k' r]]; try discriminate H.
  destruct (bytes_eqb (a :: k' :: r) (dx_key k')) eqn:E; [|discriminate H].
  apply bytes_eqb_eq in E. cbn [repeat] in H. inversion H; subst. exact E.
Qed.

Lemma dx_world_ok W : W = dx_W0 \/ W = dx_WA \/ W = dx_WB ->
  ksort_ok dx_ke /\ (forall kbs, e_sigok dx_e kbs [] = false) /\
  wsh_world_ok dx_e dx_ke W dx_m /\ unc_agrees dx_ke dx_unc /\ lift_ctx Segwitv0 dx_unc dx_m = LOk dx_p.
Proof.
  intros HW. split; [intros ks; apply Permutation_refl|]. split; [reflexivity|].
  split; [|split; [intros k; reflexivity | vm_compute; reflexivity]].
  assert (HWin : forall x, In x W -> In x (dx_pub ++ [dx_sig 0; dx_sig 1])).
  { intros x Hx. destruct HW as [->|[->| ->]]; unfold dx_W0, dx_WA, dx_WB in Hx.
    - apply in_or_app. left. exact Hx.
    - apply in_app_or in Hx. apply in_or_app. destruct Hx as [Hx|[<-|[]]]; [left; exact Hx | right; left; reflexivity].
    - apply in_app_or in Hx. apply in_or_app. destruct Hx as [Hx|[<-|[]]]; [left; exact Hx | right; right; left; reflexivity]. }
  assert (Hpub : forall x, In x dx_pub -> In x W).
  { intros x Hx. destruct HW as [->|[->| ->]]; unfold dx_W0, dx_WA, dx_WB; try apply in_or_app; auto. }
  unfold wsh_world_ok. split; [|split; [|split; [|split; [|split; [|split; [|split; [|split; [|split; [|split]]]]]]]]].
  - constructor; intros k.
    + reflexivity.
    + vm_compute. split; reflexivity.
    + cbn [with_sv e_hash160 dx_e dx_ke kb kh]. apply dx_hash160_key.
  - intros k. vm_compute. discriminate.
  - intros x Hx. apply HWin in Hx. cbn in Hx.
    repeat (destruct Hx as [<-|Hx]; [vm_compute; discriminate|]). destruct Hx.
  - split; [apply Hpub; cbn; auto|]. split; [apply Hpub; cbn; auto|]. split; [apply Hpub; cbn; auto|].
    intros k Hk. apply Hpub. cbn in Hk. destruct Hk as [<-|[<-|[]]]; cbn; auto 10.
  - intros k key _ Hh. cbn [with_sv e_hash160 dx_e dx_ke kb kh] in Hh. exact (dx_hash160_inv key k Hh).
  - eexists. split; reflexivity.
  - cbn. repeat split; reflexivity.
  - cbn. repeat split; try reflexivity; try discriminate.
  - reflexivity.
  - vm_compute. reflexivity.
  - intros sb' H. exact H.
Qed.

(* both truth values occur *)
Lemma dx_values :
  leval (assets_of (with_sv dx_e SvWitnessV0) dx_ke dx_WA) dx_p = true /\
  leval (assets_of (with_sv dx_e SvWitnessV0) dx_ke dx_WB) dx_p = true /\
  leval (assets_of (with_sv dx_e SvWitnessV0) dx_ke dx_W0) dx_p = false.
Proof. repeat split; vm_compute; reflexivity. Qed.

(* the validation itself, by evaluation: one accepted witness per true world; with K1's signature
   alone and nSequence too small nothing changes in the world but the environment *)
Lemma dx_verify :
  verify_wsh dx_e (e_sha256 dx_e (encode dx_ke dx_m)) ([dx_sig 0] ++ [encode dx_ke dx_m]) = true /\
  verify_wsh dx_e (e_sha256 dx_e (encode dx_ke dx_m)) ([dx_sig 1; []] ++ [encode dx_ke dx_m]) = true /\
  verify_wsh dx_e (e_sha256 dx_e (encode dx_ke dx_m)) ([[]; []] ++ [encode dx_ke dx_m]) = false.
Proof. repeat split; vm_compute; reflexivity. Qed.

(* by the theorem: the world without signatures cannot spend, whatever witness is tried *)
Lemma dx_unspendable : ~ wsh_spendable dx_e dx_ke dx_W0 dx_m.
Proof.
  destruct (dx_world_ok dx_W0 (or_introl eq_refl)) as (Hks & Hse & Hok & Hu & Hl).
  intros H. apply (wsh_spending_condition dx_e dx_ke Hks Hse dx_W0 dx_unc dx_m dx_p Hok Hu Hl) in H.
  rewrite (proj2 (proj2 dx_values)) in H. discriminate.
Qed.
