(* C01, the two remaining output types:
     pkh(K): scriptSig = push_slice(sig) push_key(K), scriptPubKey = P2PKH; Spend.v has no special
             branch for it - it is an ordinary script validated by verify_bare (the dispatcher falls
             through its four templates);
     taproot KEY PATH: witness = [sig], verified against the output key. *)
From Verif Require Import Exec Ser Spend Ast SerProofs EncProofs TheoremA DescSpendModel DescSpendProofs.
From Coq Require Import Lia.
Local Open Scope N_scope.

(* rust-bitcoin's push_slice and the specification's minimal push opcode agree for every length *)
Lemma push_slice_eq d : DescWrapModel.push_slice d = ser_push d.
Proof.
  unfold DescWrapModel.push_slice, DescWrapModel.push_prefix, ser_push. rewrite dblen_eq.
  set (n := blen d).
  destruct (N.ltb_spec n 76), (N.leb_spec n 75); try lia; [reflexivity|].
  destruct (N.ltb_spec n 256), (N.leb_spec n 255); try lia; [reflexivity|].
  destruct (N.ltb_spec n 65536), (N.leb_spec n 65535); try lia; reflexivity.
Qed.

Definition p2pkh_script (h : bytes) : script :=
  [IOp OP_DUP; IOp OP_HASH160; IPush h; IOp OP_EQUALVERIFY; IOp OP_CHECKSIG].

Lemma spk_pkh_ser e k : spk_pkh e k = serialize (p2pkh_script (e_hash160 e k)).
Proof. unfold spk_pkh, DescWrapModel.new_p2pkh. rewrite push_slice_eq. reflexivity. Qed.
Lemma ssig_pkh_ser sg k : ssig_pkh sg k = serialize [IPush sg; IPush k].
Proof. unfold ssig_pkh. rewrite !push_slice_eq. cbn [serialize ser_instr]. rewrite app_nil_r. reflexivity. Qed.

Lemma p2pkh_wf h : 2 <= blen h -> wf_script (p2pkh_script h).
Proof.
  intros H. cbn [p2pkh_script wf_script wf_instr].
  repeat split; try (apply wf_op_named; exact I). apply wf_push_long. exact H.
Qed.

Lemma spk_pkh_len e k : blen (e_hash160 e k) = 20 -> blen (spk_pkh e k) = 25.
Proof.
  intros H. rewrite spk_pkh_ser. cbn [p2pkh_script serialize ser_instr opcode_byte app].
  rewrite ser_push_short by lia. rewrite H. cbn [app]. rewrite !blen_cons', blen_app, H. reflexivity.
Qed.

Theorem pkh_spends e k sg : blen (e_hash160 e k) = 20 ->
  e_keyok (with_sv e SvBase) k = true -> e_sigok e k sg = true ->
  2 <= blen sg -> 2 <= blen k -> blen (ssig_pkh sg k) <= 1650 ->
  verify_bare e (spk_pkh e k) (ssig_pkh sg k) [] = true.
Proof.
  intros H20 Hk Hs Hsg Hkl Hlen.
  pose proof (spk_pkh_len e k H20) as H25.
  unfold verify_bare. rewrite (leb_true _ _ Hlen). rewrite H25.
  rewrite ssig_pkh_ser, spk_pkh_ser.
  rewrite ser_parse by (cbn [wf_script wf_instr]; repeat split; apply wf_push_long; assumption).
  rewrite ser_parse by (apply p2pkh_wf; lia).
  cbn [pushonly_stack]. unfold p2pkh_script.
  change (e_hash160 e k) with (e_hash160 (with_sv e SvBase) k).
  rewrite p2pkh_exec; [reflexivity | exact Hk | exact Hs |].
  intros ->. cbn in Hsg. lia.
Qed.

Theorem pkh_dispatch e commit_ok k sg : blen (e_hash160 e k) = 20 ->
  e_keyok (with_sv e SvBase) k = true -> e_sigok e k sg = true ->
  2 <= blen sg -> 2 <= blen k -> blen (ssig_pkh sg k) <= 1650 ->
  verify_spend e commit_ok (spk_pkh e k) (ssig_pkh sg k) [] = true.
Proof.
  intros H20 Hk Hs Hsg Hkl Hlen. unfold verify_spend.
  assert (Hform : spk_pkh e k = 118 :: 169 :: 20 :: e_hash160 e k ++ [136; 172]).
  { rewrite spk_pkh_ser. cbn [p2pkh_script serialize ser_instr opcode_byte app].
    rewrite ser_push_short by lia. rewrite H20. reflexivity. }
  (* the first byte OP_DUP matches none of the four templates *)
  assert (Hfall : forall r ssig, verify_spend e commit_ok (118 :: r) ssig [] = verify_bare e (118 :: r) ssig [])
    by reflexivity.
  pose proof (pkh_spends e k sg H20 Hk Hs Hsg Hkl Hlen) as P.
  fold (verify_spend e commit_ok (spk_pkh e k) (ssig_pkh sg k) []).
  rewrite Hform in *. rewrite Hfall. exact P.
Qed.

(* ---- taproot key path ---- *)
Theorem tr_keypath_spends e commit_ok outkey sg : e_sigok e outkey sg = true ->
  verify_tr e outkey commit_ok [] (wit_tr_keypath sg) = true.
Proof. intros H. exact H. Qed.

Theorem tr_keypath_dispatch e commit_ok outkey sg : blen outkey = 32 -> e_sigok e outkey sg = true ->
  verify_spend e commit_ok (spk_tr outkey) [] (wit_tr_keypath sg) = true.
Proof.
  intros H32 H. unfold verify_spend. rewrite (spk_tr_eq outkey H32).
  change (spk_is_p2wsh (81 :: 32 :: outkey)) with (@None bytes).
  change (spk_is_p2wpkh (81 :: 32 :: outkey)) with (@None bytes).
  change (spk_is_p2sh (81 :: 32 :: outkey)) with (@None bytes).
  rewrite (spk_is_p2tr_intro _ H32). exact H.
Qed.

(* Spend.v does not support the annex: a key-path witness followed by an annex (last element
   starting with 0x50) is REJECTED, whatever the signature.  The library never adds one. *)
Theorem tr_keypath_annex_rejected e commit_ok outkey sg a :
  verify_tr e outkey commit_ok [] [sg; 80 :: a] = false.
Proof. reflexivity. Qed.
