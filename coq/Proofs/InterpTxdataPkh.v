(* C13: from_txdata, the P2PKH arm: the scriptPubKey parsed and executed symbolically (composition with
   interp_pk, completeness). *)
From Verif Require Import InterpTxdataModel InterpTxdataProofs InterpTxdataAll InterpTxdataKeys.
From Coq Require Import Lia.
Local Open Scope N_scope.

Definition p2pkh_instrs (h : bytes) : script :=
  [IOp OP_DUP; IOp OP_HASH160; IPush h; IOp OP_EQUALVERIFY; IOp OP_CHECKSIG].

Lemma parse_p2pkh : forall h,
    N.eqb (blen h) 20 = true ->
    parse_script (p2pkh_bytes h) = Some (p2pkh_instrs h) /\ blen (p2pkh_bytes h) = 25.
Proof.
  intros h H. apply N.eqb_eq in H. unfold blen in H.
  assert (L : length h = 20%nat) by lia. clear H.
  do 20 (destruct h as [|? h]; [discriminate L|]). destruct h; [|discriminate L].
  split; vm_compute; reflexivity.
Qed.

Lemma p2pkh_shape : forall spk h,
    spk_is_p2pkh spk = Some h -> spk = p2pkh_bytes h /\ N.eqb (blen h) 20 = true.
Proof.
  intros spk h H. unfold spk_is_p2pkh in H.
  destruct spk as [|a [|b0 [|c0 rest]]]; try discriminate.
  { exfalso. destruct a as [|q]; [discriminate|]. do 7 (destruct q as [q|q|]; try discriminate). }
  { exfalso. destruct a as [|q]; [discriminate|]. do 7 (destruct q as [q|q|]; try discriminate).
    destruct b0 as [|q]; [discriminate|]. do 8 (destruct q as [q|q|]; try discriminate). }
  destruct a as [|q]; [discriminate|]. do 7 (destruct q as [q|q|]; try discriminate).
  destruct b0 as [|q]; [discriminate|]. do 8 (destruct q as [q|q|]; try discriminate).
  destruct c0 as [|q]; [discriminate|]. do 5 (destruct q as [q|q|]; try discriminate).
  destruct (rev rest) as [|x [|y hr]] eqn:R; try discriminate.
  { destruct x as [|q]; [discriminate|]. do 8 (destruct q as [q|q|]; try discriminate). }
  destruct x as [|q]; [discriminate|]. do 8 (destruct q as [q|q|]; try discriminate).
  destruct y as [|q]; [discriminate|]. do 8 (destruct q as [q|q|]; try discriminate).
  destruct (N.eqb (blen hr) 20) eqn:LH; [|discriminate]. injection H as <-.
  split.
  - unfold p2pkh_bytes. do 3 f_equal. rewrite <- (rev_involutive rest), R. cbn [rev]. rewrite <- app_assoc. reflexivity.
  - unfold blen in *. rewrite rev_length. exact LH.
Qed.

(* the P2PKH script under the base signature version *)
Lemma p2pkh_exec_base : forall e h k sg,
    final_ok (exec (with_sv e SvBase) (p2pkh_instrs h) (mkSt [k; sg] []))
    = (bytes_eqb h (e_hash160 e k) && e_keyok e k && match sg with [] => false | _ => e_sigok e k sg end).
Proof.
  intros e h k sg. cbn. destruct (bytes_eqb h (e_hash160 e k)); [|reflexivity]. cbn.
  destruct (e_keyok e k); [|reflexivity]. cbn. destruct sg as [|a r]; [reflexivity|].
  destruct (e_sigok e k (a :: r)); reflexivity.
Qed.

(* (c) P2PKH composed with the evaluator model for key-only outputs *)
Lemma from_txdata_interp_pk_pkh : forall e fe co spk ssig wit k st code cs,
    from_txdata e fe spk ssig wit = FOk (InPk k PtPkh) st code ->
    interp_pk e k st = IAccept cs ->
    e_keyok e k = true -> N.leb (blen ssig) 1650 = true ->
    verify_spend e co spk ssig wit = true.
Proof.
  intros e fe co spk ssig wit k st code cs H I K B.
  destruct (ftx_inv_pkh _ _ _ _ _ _ _ _ H) as (h & el & PKH & _ & SS & _ & _ & _).
  destruct (from_txdata_sound_pkh _ _ co _ _ _ _ _ _ H) as (_ & SPK & ->).
  destruct (p2pkh_shape _ _ PKH) as [SPK2 LH].
  assert (h = e_hash160 e k) as ->.
  { rewrite SPK in SPK2. unfold p2pkh_bytes in SPK2. injection SPK2 as E. apply app_inv_tail in E. symmetry. exact E. }
  destruct (parse_p2pkh _ LH) as [P BL].
  pose proof (ssig_stack_normal _ _ SS) as F. assert (F2 : Forall normal st) by (inversion F; assumption).
  unfold bare_body. rewrite SPK, P, BL, B. cbn [andb]. change (N.leb 25 10000) with true. cbn [andb].
  assert (N.leb (count_nonpush_ops (p2pkh_instrs (e_hash160 e k))) 201 = true) as -> by reflexivity. cbn [andb].
  unfold interp_pk in I.
  destruct st as [|x r]; [discriminate|]. destruct x as [| |s]; try discriminate.
  destruct (e_sigok e k s) eqn:S; [|discriminate]. unfold final_rule in I.
  destruct r as [|y r]; [|destruct y; discriminate].
  cbn [map conc]. rewrite p2pkh_exec_base, ftx_bytes_eqb_refl, K. cbn [andb].
  inversion F2 as [|? ? N _]. unfold normal in N. cbn [conc] in N.
  destruct s; [discriminate N|exact S].
Qed.

(* (b) P2PKH completeness: the scriptSig lexes into pushes / OP_1, its top element is a push the library
   parses as a public key *)
Lemma from_txdata_complete_pkh : forall e fe co spk ssig wit h k r c,
    spk_is_p2pkh spk = Some h ->
    ssig_stack_of ssig = Some (EPush k :: r) -> f_pk fe k = Some c ->
    verify_spend e co spk ssig wit = true ->
    from_txdata e fe spk ssig wit = FOk (InPk k PtPkh) r (Some spk).
Proof.
  intros e fe co spk ssig wit h k r c PKH SS D V.
  destruct (p2pkh_others _ _ PKH) as (WP & W & TR & SH).
  destruct (p2pkh_shape _ _ PKH) as [SPK LH]. destruct (parse_p2pkh _ LH) as [P _].
  assert (PK : spk_is_p2pk spk = None) by (rewrite SPK; reflexivity).
  unfold verify_spend in V. rewrite W, WP, SH, TR in V. unfold verify_bare in V.
  destruct wit; [|discriminate].
  destruct (ssig_bridge _ _ SS) as (ss & PS & PO). rewrite PS in V. rewrite SPK in V at 1. rewrite P in V. rewrite PO in V.
  repeat (apply andb_true_iff in V; destruct V as [V ?]).
  cbn [map conc] in *.
  assert (HB : bytes_eqb h (e_hash160 e k) = true).
  { match goal with X : final_ok _ = true |- _ => rename X into FO end.
    cbn in FO. destruct (bytes_eqb h (e_hash160 e k)); [reflexivity|]. cbn in FO. discriminate FO. }
  apply ftx_bytes_eqb_eq in HB.
  unfold from_txdata. rewrite SS, PK, PKH. cbn [map rev]. unfold pk_from_elem, pk_from_slice. rewrite D. cbn [andb].
  rewrite SPK at 1. rewrite HB, ftx_bytes_eqb_refl. reflexivity.
Qed.

(* ------------------------------------------------------------------ P2PK *)
Definition p2pk_instrs (k : bytes) : script := [IPush k; IOp OP_CHECKSIG].

Lemma p2pk_shape : forall spk k,
    spk_is_p2pk spk = Some k ->
    (spk = 33 :: k ++ [172] /\ length k = 33%nat) \/ (spk = 65 :: k ++ [172] /\ length k = 65%nat).
Proof.
  intros spk k H. unfold spk_is_p2pk in H.
  destruct spk as [|a rest]; [discriminate|].
  destruct a as [|q]; [discriminate|].
  repeat (match goal with q : positive |- _ => destruct q; try discriminate end).
  - right. destruct (rev rest) as [|x kr] eqn:R; [discriminate|].
    destruct x as [|q]; [discriminate|]. do 8 (destruct q as [q|q|]; try discriminate).
    destruct (N.eqb (blen kr) 65) eqn:L; [|discriminate]. injection H as <-. split.
    + f_equal. rewrite <- (rev_involutive rest), R. reflexivity.
    + rewrite rev_length. apply N.eqb_eq in L. unfold blen in L. lia.
  - left. destruct (rev rest) as [|x kr] eqn:R; [discriminate|].
    destruct x as [|q]; [discriminate|]. do 8 (destruct q as [q|q|]; try discriminate).
    destruct (N.eqb (blen kr) 33) eqn:L; [|discriminate]. injection H as <-. split.
    + f_equal. rewrite <- (rev_involutive rest), R. reflexivity.
    + rewrite rev_length. apply N.eqb_eq in L. unfold blen in L. lia.
Qed.

Lemma parse_p2pk : forall spk k,
    spk_is_p2pk spk = Some k ->
    parse_script spk = Some (p2pk_instrs k) /\ N.leb (blen spk) 10000 = true.
Proof.
  intros spk k H. destruct (p2pk_shape _ _ H) as [[-> L]|[-> L]].
  - do 33 (destruct k as [|? k]; [discriminate L|]). destruct k; [|discriminate L]. split; vm_compute; reflexivity.
  - do 65 (destruct k as [|? k]; [discriminate L|]). destruct k; [|discriminate L]. split; vm_compute; reflexivity.
Qed.

Lemma p2pk_exec_base : forall e k sg,
    final_ok (exec (with_sv e SvBase) (p2pk_instrs k) (mkSt [sg] []))
    = (e_keyok e k && match sg with [] => false | _ => e_sigok e k sg end).
Proof.
  intros e k sg. cbn. destruct (e_keyok e k); [|reflexivity]. cbn. destruct sg as [|a r]; [reflexivity|].
  destruct (e_sigok e k (a :: r)); reflexivity.
Qed.

(* (c) P2PK composed with the evaluator model for key-only outputs *)
Lemma from_txdata_interp_pk_pk : forall e fe co spk ssig wit k st code cs,
    from_txdata e fe spk ssig wit = FOk (InPk k PtPk) st code ->
    interp_pk e k st = IAccept cs ->
    e_keyok e k = true -> N.leb (blen ssig) 1650 = true ->
    verify_spend e co spk ssig wit = true.
Proof.
  intros e fe co spk ssig wit k st code cs H I K B.
  destruct (ftx_inv_pk _ _ _ _ _ _ _ _ H) as (PK & _ & SS & _).
  destruct (from_txdata_sound_pk _ _ co _ _ _ _ _ _ H) as (_ & _ & ->).
  destruct (parse_p2pk _ _ PK) as [P BL].
  pose proof (ssig_stack_normal _ _ SS) as F.
  unfold bare_body. rewrite P, BL, B. cbn [andb].
  assert (N.leb (count_nonpush_ops (p2pk_instrs k)) 201 = true) as -> by reflexivity. cbn [andb].
  unfold interp_pk in I.
  destruct st as [|x r]; [discriminate|]. destruct x as [| |s]; try discriminate.
  destruct (e_sigok e k s) eqn:S; [|discriminate]. unfold final_rule in I.
  destruct r as [|y r]; [|destruct y; discriminate].
  cbn [map conc]. rewrite p2pk_exec_base, K. cbn [andb].
  inversion F as [|? ? N _]. unfold normal in N. cbn [conc] in N.
  destruct s; [discriminate N|exact S].
Qed.

(* (c) all key-only kinds in one statement *)
Lemma from_txdata_interp_pk_sound_all : forall e fe co spk ssig wit k t st code cs,
    from_txdata e fe spk ssig wit = FOk (InPk k t) st code ->
    interp_pk e k st = IAccept cs ->
    (t <> PtTr -> e_keyok e k = true /\ N.leb (blen ssig) 1650 = true) ->
    (t = PtWpkh \/ t = PtShWpkh -> N.eqb (blen k) 33 = true) ->
    verify_spend e co spk ssig wit = true.
Proof.
  intros e fe co spk ssig wit k t st code cs H I A L. destruct t.
  - destruct A as [K B]; [discriminate|]. exact (from_txdata_interp_pk_pk _ _ co _ _ _ _ _ _ _ H I K B).
  - destruct A as [K B]; [discriminate|]. exact (from_txdata_interp_pk_pkh _ _ co _ _ _ _ _ _ _ H I K B).
  - destruct A as [K B]; [discriminate|].
    exact (from_txdata_interp_pk_wpkh _ _ co _ _ _ _ _ _ _ _ H (or_introl eq_refl) I (L (or_introl eq_refl)) K B).
  - destruct A as [K B]; [discriminate|].
    exact (from_txdata_interp_pk_wpkh _ _ co _ _ _ _ _ _ _ _ H (or_intror eq_refl) I (L (or_intror eq_refl)) K B).
  - exact (from_txdata_interp_pk_trkey _ _ co _ _ _ _ _ _ _ H I).
Qed.
