(* C09: a traced Theorem A for the executed-opcode count.  For a well-typed fragment and every entry
   of the specification's (dis)satisfaction table (SatSpec.all_sat / all_dsat -- by SatProofs.sat_in_table
   everything the satisfier MODEL returns), the instrumented run of the encoded fragment on that witness
   counts at most [fst (pcms m)] (satisfactions) / [snd (pcms m)] (dissatisfactions) multisig keys.
   [pcms] is PATH-SENSITIVE at the constructors handled below (the IF decision is read off the state
   that Theorem A gives for the sub-fragment run before it) and falls back to the all-paths bound
   [ast_cms] (ExtOps.exec_ops_bound, valid from every state) at the others.  The class
   [ops_traced] (pcms within ExtData's figure) strictly contains [ops_covered]: it contains the script of
   ExtOps.exec_ops_all_executions_refuted. *)
From Coq Require Import Lia.
From Verif Require Import Exec Ser Ast Types TypeCheck SatSpec ExecLemmas Spec TypesSpec ScriptNumProofs TheoremA.
From Verif Require Import ExecTr ExtExec ExtDepthBase ExtModel ExtProofs ExtSize ExtOps OpsTraceBase.
Local Open Scope N_scope.

Arguments N.add : simpl never. Arguments N.max : simpl never. Arguments N.leb : simpl never.

(* thresh: the most expensive choice of exactly j satisfied children among [ps] = (sat, dsat) bounds, in order *)
Fixpoint tbest (j : nat) (ps : list (N * N)) : N :=
  match ps with
  | [] => 0
  | p :: r => N.max (match j with S j' => fst p + tbest j' r | O => 0 end) (snd p + tbest j r)
  end.

(* (bound for table satisfactions, bound for table dissatisfactions) *)
Fixpoint pcms (m : ms) : N * N :=
  match m with
  | MThresh k xs =>
    let ps := (fix go (l : list ms) : list (N * N) := match l with [] => [] | x :: r => pcms x :: go r end) xs in
    (tbest (N.to_nat k) ps, tbest 0 ps)
  | MAlt x | MSwap x | MCheck x | MZeroNotEqual x => pcms x
  | MVerify x => (fst (pcms x), 0)
  | MDupIf x => (fst (pcms x), 0)
  | MNonZero x => (fst (pcms x), 0)
  | MAndV x y => (fst (pcms x) + fst (pcms y), fst (pcms x) + snd (pcms y))
  | MAndB x y => (fst (pcms x) + fst (pcms y), snd (pcms x) + snd (pcms y))
  | MOrB x z => (N.max (snd (pcms x) + fst (pcms z)) (fst (pcms x) + snd (pcms z)), snd (pcms x) + snd (pcms z))
  | MOrC x z => (N.max (fst (pcms x)) (snd (pcms x) + fst (pcms z)), 0)
  | MAndOr a b c => (N.max (fst (pcms a) + fst (pcms b)) (snd (pcms a) + fst (pcms c)), snd (pcms a) + snd (pcms c))
  | MOrD x z => (N.max (fst (pcms x)) (snd (pcms x) + fst (pcms z)), snd (pcms x) + snd (pcms z))
  | MOrI x z => (N.max (fst (pcms x)) (fst (pcms z)), N.max (snd (pcms x)) (snd (pcms z)))
  | _ => (ast_cms m, ast_cms m)
  end.

Lemma pcms_thresh k xs : pcms (MThresh k xs) = (tbest (N.to_nat k) (map pcms xs), tbest 0 (map pcms xs)).
Proof.
  cbn [pcms].
  assert (H : (fix go (l : list ms) : list (N * N) := match l with [] => [] | x :: r => pcms x :: go r end) xs = map pcms xs).
  { induction xs as [|x r IH]; [reflexivity|]. cbn [map]. rewrite <- IH. reflexivity. }
  rewrite H. reflexivity.
Qed.
Lemma tbest_le l : Forall (fun m => fst (pcms m) <= ast_cms m /\ snd (pcms m) <= ast_cms m) l ->
  forall j, tbest j (map pcms l) <= (fix go (l : list ms) : N := match l with [] => 0 | x :: r => ast_cms x + go r end) l.
Proof.
  induction 1 as [|x r [H1 H2] _ IH]; intros j; cbn [map tbest]; [lia|].
  pose proof (IH j). destruct j as [|j']; [lia|]. pose proof (IH j'). lia.
Qed.

Lemma pcms_le_ast m : fst (pcms m) <= ast_cms m /\ snd (pcms m) <= ast_cms m.
Proof.
  induction m using ms_ind'; try (cbn [pcms ast_cms fst snd]; split; lia).
  rewrite pcms_thresh. cbn [fst snd ast_cms]. split; apply tbest_le; assumption.
Qed.

Definition ops_traced (fx : fixes) (c : xctx) (m : ms) : bool :=
  match sat_data (ext_of_gen fx c m) with Some d => fst (pcms m) <=? sd_eops d | None => false end.

Lemma ops_covered_traced fx c m : ops_covered fx c m = true -> ops_traced fx c m = true.
Proof.
  unfold ops_covered, ops_traced. destruct (sat_data (ext_of_gen fx c m)); [|auto].
  intros H. apply N.leb_le in H. apply N.leb_le. pose proof (pcms_le_ast m). lia.
Qed.

Definition instk (b : base) (c : bytes) (w rest : stack) : stack :=
  match b with BW => c :: w ++ rest | _ => w ++ rest end.
Lemma instk_nw b c w rest : b <> BW -> instk b c w rest = w ++ rest.
Proof. destruct b; try reflexivity. intros H. contradiction. Qed.

Section OpsTrace.
  Variable e : env.
  Variable ke : keyenv.
  Variable A : assets.
  Hypothesis HA : assets_ok e ke A.
  Hypothesis Hse : forall kbs, e_sigok e kbs [] = false.

  Notation sat m := (all_sat ke A m).
  Notation dsat m := (all_dsat ke A m).

  Definition TS (m : ms) : Prop :=
    forall t, type_of m = ROk t -> wf e ke m -> no_multi m -> multi_small m = true ->
    forall c w rest al,
      (In w (sat m) -> bnd e (enc ke m) (mkSt (instk (c_base (t_corr t)) c w rest) al) (fst (pcms m))) /\
      (In w (dsat m) -> bnd e (enc ke m) (mkSt (instk (c_base (t_corr t)) c w rest) al) (snd (pcms m))).

  (* constructors without path-sensitive treatment: the all-paths bound, from any state *)
  Lemma ts_fallback m : pcms m = (ast_cms m, ast_cms m) -> TS m.
  Proof.
    intros Hp t _ _ _ Hs c w rest al. rewrite Hp. cbn [fst snd].
    rewrite <- (cbl_enc ke m Hs None). split; intros _; apply bnd_any.
  Qed.

  Ltac unf H := unfold t_cast_alt, t_cast_swap, t_cast_check, t_cast_dupif, t_cast_verify, t_cast_nonzero,
    t_cast_zeronotequal, t_and_v, t_and_b, t_or_b, t_or_c, t_or_d, t_or_i, t_and_or, lift1, lift2,
    c_cast_alt, c_cast_swap, c_cast_check, c_cast_dupif, c_cast_verify, c_cast_nonzero, c_cast_zeronotequal,
    c_and_v, c_and_b, c_or_b, c_or_c, c_or_d, c_or_i, c_and_or in H; cbn [t_corr t_mall c_base c_input c_dissat c_unit] in H.

  (* ---- j:X = SIZE 0NOTEQUAL IF X ENDIF.  Dissatisfied with the empty vector: X is skipped. ---- *)
  Lemma ts_nonzero x : TS x -> TS (MNonZero x).
  Proof.
    intros IH t Ht Hwf Hnm Hms. cbn [type_of] in Ht. apply rbind_ok in Ht. destruct Ht as [tx [Hx Ht]].
    cbn [wf no_multi multi_small] in Hwf, Hnm, Hms.
    destruct (theoremA_closed e ke A HA Hse x tx Hx Hwf Hnm) as [Hg [Hs _]].
    pose proof (IH tx Hx Hwf Hnm Hms) as IHx.
    assert (Hb : c_base (t_corr tx) = BB /\ c_base (t_corr t) = BB /\ forall w, In w (sat x) -> exists a r, w = a :: r /\ nz a).
    { destruct tx as [[bx ix dx ux] mx]. unf Ht. unfold shape in Hs. cbn [t_corr c_input] in Hs.
      destruct ix; cbn in Ht; try discriminate; destruct bx; try discriminate; inversion Ht; subst; clear Ht;
        (split; [reflexivity|split; [reflexivity|]]); intros w Hw; apply Hs in Hw; cbn in Hw.
      - destruct Hw as [Hl Hn]. destruct w as [|a r]; [discriminate|]. exists a, r. split; [reflexivity|apply (Hn eq_refl)].
      - specialize (Hw eq_refl). destruct w as [|a r]; [exfalso; exact Hw|]. exists a, r. split; [reflexivity|exact Hw]. }
    destruct Hb as [Hbx [Hbt Hnz]]. rewrite Hbt. rewrite Hbx in IHx. cbn [instk] in *.
    intros c w rest al. cbn [enc pcms fst snd]. split; intros Hin; cbn [all_sat all_dsat sd fst snd] in Hin.
    - change (In w (sat x)) in Hin. destruct (Hnz w Hin) as [a [r [-> Ha]]]. unfold nz in Ha.
      apply bnd_op; [reflexivity|]. intros st1 E1. cbn [exec_op stk alt app] in E1. inversion E1; subst st1; clear E1.
      apply bnd_op; [reflexivity|]. intros st2 E2. cbn [exec_op stk alt] in E2.
      rewrite (num_roundtrip 4 (Z.of_N (blen a))) in E2 by lia.
      replace (Z.of_N (blen a) =? 0)%Z with false in E2 by (symmetry; apply Z.eqb_neq; lia).
      cbn [negb bool_bytes] in E2. inversion E2; subst st2; clear E2.
      eapply bnd_if; [reflexivity | apply if_cond_one |]. cbn [xorb if_branch stk alt]. rewrite app_nil_r.
      exact (proj1 (IHx c (a :: r) rest al) Hin).
    - destruct Hin as [<-|[]].
      apply bnd_op; [reflexivity|]. intros st1 E1. cbn [exec_op stk alt app blen length] in E1. inversion E1; subst st1; clear E1.
      apply bnd_op; [reflexivity|]. intros st2 E2. cbn in E2. inversion E2; subst st2; clear E2.
      eapply bnd_if; [reflexivity | apply if_cond_empty |]. cbn [xorb if_branch app]. apply bnd_nil.
  Qed.

  (* ---- or_d(X,Z) = X IFDUP NOTIF Z ENDIF.  X satisfied: Z is skipped. ---- *)
  Lemma ts_or_d x z : TS x -> TS z -> TS (MOrD x z).
  Proof.
    intros IHx IHz t Ht Hwf Hnm Hms. cbn [type_of] in Ht. apply rbind_ok in Ht. destruct Ht as [tx [Hx Ht]].
    apply rbind_ok in Ht. destruct Ht as [tz [Hz Ht]].
    cbn [wf no_multi multi_small] in Hwf, Hnm, Hms. destruct Hwf as [Hwx Hwz]. destruct Hnm as [Hnx Hnz].
    apply andb_prop in Hms. destruct Hms as [Hmx Hmz].
    destruct (theoremA_closed e ke A HA Hse x tx Hx Hwx Hnx) as [Hg _].
    pose proof (IHx tx Hx Hwx Hnx Hmx) as Ix. pose proof (IHz tz Hz Hwz Hnz Hmz) as Iz.
    assert (Hb : c_base (t_corr tx) = BB /\ c_unit (t_corr tx) = true /\ c_base (t_corr tz) = BB /\ c_base (t_corr t) = BB).
    { destruct tx as [[bx ix dx ux] mx]; destruct tz as [[b2 i2 d2 u2] m2]; unf Ht.
      destruct dx; cbn [negb] in Ht; try discriminate. destruct ux; cbn [negb] in Ht; try discriminate.
      destruct bx, b2; try discriminate; inversion Ht; subst; auto. }
    destruct Hb as [Hbx [Hux [Hbz Hbt]]]. unfold good in Hg. rewrite Hbx, Hux in Hg. destruct Hg as [Hxs Hxd].
    rewrite Hbt. rewrite Hbx in Ix. rewrite Hbz in Iz. cbn [instk] in *.
    intros c w rest al. cbn [enc pcms fst snd]. unfold all_sat, all_dsat. rewrite sd_or_d. cbn [fst snd].
    assert (Hd : forall a b n, In a (dsat x) -> bnd e (enc ke z) (mkSt (b ++ rest) al) n ->
                 bnd e (enc ke x ++ [IOp OP_IFDUP; IIf true (enc ke z) None]) (mkSt ((a ++ b) ++ rest) al) (snd (pcms x) + n)).
    { intros a b n Ha Hb. rewrite <- app_assoc.
      eapply bnd_app; [exact (Hxd a (b ++ rest) al Ha) | exact (proj2 (Ix c a (b ++ rest) al) Ha) |].
      apply bnd_op; [reflexivity|]. intros st1 E1. cbn [exec_op stk alt truthy] in E1. inversion E1; subst st1; clear E1.
      eapply bnd_if; [reflexivity | apply if_cond_empty |]. cbn [xorb if_branch stk alt]. rewrite app_nil_r. exact Hb. }
    split; intros Hin.
    - apply in_app_or in Hin. destruct Hin as [Hin|Hin].
      + destruct (Hxs w rest al Hin) as [v [Hr [_ [_ Hu]]]]. rewrite (Hu eq_refl) in Hr.
        apply (bnd_le e _ _ (fst (pcms x) + 0)); [|lia]. eapply bnd_app; [exact Hr | exact (proj1 (Ix c w rest al) Hin) |].
        apply bnd_op; [reflexivity|]. intros st1 E1. cbn [exec_op stk alt] in E1. rewrite truthy_one in E1. inversion E1; subst st1; clear E1.
        eapply bnd_if; [reflexivity | apply if_cond_one |]. cbn [xorb if_branch app]. apply bnd_nil.
      + apply in_cross in Hin. destruct Hin as [a [b [Ha [Hb ->]]]].
        eapply bnd_le; [exact (Hd a b _ Ha (proj1 (Iz c b rest al) Hb)) | lia].
    - apply in_cross in Hin. destruct Hin as [a [b [Ha [Hb ->]]]].
      exact (Hd a b _ Ha (proj2 (Iz c b rest al) Hb)).
  Qed.

  (* ---- or_i(X,Z) = IF X ELSE Z ENDIF: the selector on top of the witness decides ---- *)
  Lemma ts_or_i x z : TS x -> TS z -> TS (MOrI x z).
  Proof.
    intros IHx IHz t Ht Hwf Hnm Hms. cbn [type_of] in Ht. apply rbind_ok in Ht. destruct Ht as [tx [Hx Ht]].
    apply rbind_ok in Ht. destruct Ht as [tz [Hz Ht]].
    cbn [wf no_multi multi_small] in Hwf, Hnm, Hms. destruct Hwf as [Hwx Hwz]. destruct Hnm as [Hnx Hnz].
    apply andb_prop in Hms. destruct Hms as [Hmx Hmz].
    pose proof (IHx tx Hx Hwx Hnx Hmx) as Ix. pose proof (IHz tz Hz Hwz Hnz Hmz) as Iz.
    assert (Hb : c_base (t_corr tx) <> BW /\ c_base (t_corr tz) <> BW /\ c_base (t_corr t) <> BW).
    { destruct tx as [[bx ix dx ux] mx]; destruct tz as [[b2 i2 d2 u2] m2]; unf Ht.
      destruct bx, b2; try discriminate; inversion Ht; subst; cbn; repeat split; discriminate. }
    destruct Hb as [Hbx [Hbz Hbt]].
    intros c w rest al. rewrite (instk_nw _ c w rest Hbt). cbn [enc pcms fst snd]. unfold all_sat, all_dsat. rewrite sd_or_i. cbn [fst snd].
    assert (Hl : forall a n, bnd e (enc ke x) (mkSt (a ++ rest) al) n ->
                 bnd e [IIf false (enc ke x) (Some (enc ke z))] (mkSt (([1] :: a) ++ rest) al) n).
    { intros a n Hn. eapply bnd_if; [reflexivity | apply if_cond_one |]. cbn [xorb if_branch stk alt]. rewrite app_nil_r. exact Hn. }
    assert (Hr : forall a n, bnd e (enc ke z) (mkSt (a ++ rest) al) n ->
                 bnd e [IIf false (enc ke x) (Some (enc ke z))] (mkSt (([] :: a) ++ rest) al) n).
    { intros a n Hn. eapply bnd_if; [reflexivity | apply if_cond_empty |]. cbn [xorb if_branch stk alt]. rewrite app_nil_r. exact Hn. }
    split; intros Hin; apply in_app_or in Hin; destruct Hin as [Hin|Hin]; apply in_map_iff in Hin; destruct Hin as [a [<- Ha]].
    - eapply bnd_le; [apply Hl; pose proof (proj1 (Ix c a rest al) Ha) as B; rewrite (instk_nw _ _ _ _ Hbx) in B; exact B | lia].
    - eapply bnd_le; [apply Hr; pose proof (proj1 (Iz c a rest al) Ha) as B; rewrite (instk_nw _ _ _ _ Hbz) in B; exact B | lia].
    - eapply bnd_le; [apply Hl; pose proof (proj2 (Ix c a rest al) Ha) as B; rewrite (instk_nw _ _ _ _ Hbx) in B; exact B | lia].
    - eapply bnd_le; [apply Hr; pose proof (proj2 (Iz c a rest al) Ha) as B; rewrite (instk_nw _ _ _ _ Hbz) in B; exact B | lia].
  Qed.

  (* ---- wrappers ---- *)
  Ltac one_child IH Ht Hwf Hnm Hms tx Hx Ix :=
    cbn [type_of] in Ht; apply rbind_ok in Ht; destruct Ht as [tx [Hx Ht]];
    cbn [wf no_multi multi_small] in Hwf, Hnm, Hms; pose proof (IH tx Hx Hwf Hnm Hms) as Ix.

  Lemma ts_alt x : TS x -> TS (MAlt x).
  Proof.
    intros IH t Ht Hwf Hnm Hms. one_child IH Ht Hwf Hnm Hms tx Hx Ix.
    assert (Hb : c_base (t_corr tx) = BB /\ c_base (t_corr t) = BW).
    { destruct tx as [[bx ix dx ux] mx]. unf Ht. destruct bx; try discriminate; inversion Ht; subst; auto. }
    destruct Hb as [Hbx Hbt]. rewrite Hbt. rewrite Hbx in Ix. cbn [instk] in *.
    intros c w rest al. cbn [enc pcms].
    assert (G : forall n, bnd e (enc ke x) (mkSt (w ++ rest) (c :: al)) n ->
                bnd e ([IOp OP_TOALTSTACK] ++ enc ke x ++ [IOp OP_FROMALTSTACK]) (mkSt (c :: w ++ rest) al) n).
    { intros n Hn. cbn [app]. apply bnd_op; [reflexivity|]. intros st1 E1. cbn [exec_op stk alt] in E1. inversion E1; subst st1.
      apply bnd_app_glue; [reflexivity|exact Hn]. }
    split; intros Hin; apply G; [exact (proj1 (Ix c w rest (c :: al)) Hin) | exact (proj2 (Ix c w rest (c :: al)) Hin)].
  Qed.

  Lemma ts_swap x : TS x -> TS (MSwap x).
  Proof.
    intros IH t Ht Hwf Hnm Hms. one_child IH Ht Hwf Hnm Hms tx Hx Ix.
    destruct (theoremA_closed e ke A HA Hse x tx Hx Hwf Hnm) as [_ [Hs Hd]].
    assert (Hb : c_base (t_corr tx) = BB /\ c_base (t_corr t) = BW
                 /\ (forall w, In w (sat x) -> length w = 1%nat) /\ (forall w, In w (dsat x) -> length w = 1%nat)).
    { destruct tx as [[bx ix dx ux] mx]. unf Ht. cbn [t_corr c_input] in Hs, Hd.
      destruct bx; try discriminate; destruct ix; try discriminate; inversion Ht; subst; clear Ht; cbn in Hs, Hd;
        (split; [reflexivity|split; [reflexivity|split]]); intros w Hw; [apply Hs in Hw|apply Hd in Hw|apply Hs in Hw|apply Hd in Hw];
        first [exact Hw | tauto]. }
    destruct Hb as [Hbx [Hbt [L1 L2]]]. rewrite Hbt. rewrite Hbx in Ix. cbn [instk] in *.
    intros c w rest al. cbn [enc pcms].
    assert (G : forall n, length w = 1%nat -> bnd e (enc ke x) (mkSt (w ++ c :: rest) al) n ->
                bnd e ([IOp OP_SWAP] ++ enc ke x) (mkSt (c :: w ++ rest) al) n).
    { intros n HL Hn. destruct w as [|a [|b r]]; try discriminate. cbn [app] in *.
      apply bnd_op; [reflexivity|]. intros st1 E1. cbn [exec_op stk alt] in E1. inversion E1; subst st1. exact Hn. }
    split; intros Hin; (apply G; [first [exact (L1 w Hin) | exact (L2 w Hin)]|]);
      [exact (proj1 (Ix c w (c :: rest) al) Hin) | exact (proj2 (Ix c w (c :: rest) al) Hin)].
  Qed.

  Lemma ts_check x : TS x -> TS (MCheck x).
  Proof.
    intros IH t Ht Hwf Hnm Hms. one_child IH Ht Hwf Hnm Hms tx Hx Ix.
    assert (Hb : c_base (t_corr tx) = BK /\ c_base (t_corr t) = BB).
    { destruct tx as [[bx ix dx ux] mx]. unf Ht. destruct bx; try discriminate; inversion Ht; subst; auto. }
    destruct Hb as [Hbx Hbt]. rewrite Hbt. rewrite Hbx in Ix. cbn [instk] in *.
    intros c w rest al. cbn [enc pcms].
    split; intros Hin; (apply bnd_app_glue; [reflexivity|]);
      [exact (proj1 (Ix c w rest al) Hin) | exact (proj2 (Ix c w rest al) Hin)].
  Qed.

  Lemma ts_zne x : TS x -> TS (MZeroNotEqual x).
  Proof.
    intros IH t Ht Hwf Hnm Hms. one_child IH Ht Hwf Hnm Hms tx Hx Ix.
    assert (Hb : c_base (t_corr tx) = BB /\ c_base (t_corr t) = BB).
    { destruct tx as [[bx ix dx ux] mx]. unf Ht. destruct bx; try discriminate; inversion Ht; subst; auto. }
    destruct Hb as [Hbx Hbt]. rewrite Hbt. rewrite Hbx in Ix. cbn [instk] in *.
    intros c w rest al. cbn [enc pcms].
    split; intros Hin; (apply bnd_app_glue; [reflexivity|]);
      [exact (proj1 (Ix c w rest al) Hin) | exact (proj2 (Ix c w rest al) Hin)].
  Qed.

  Lemma ts_verify x : TS x -> TS (MVerify x).
  Proof.
    intros IH t Ht Hwf Hnm Hms. one_child IH Ht Hwf Hnm Hms tx Hx Ix.
    assert (Hb : c_base (t_corr tx) = BB /\ c_base (t_corr t) = BV).
    { destruct tx as [[bx ix dx ux] mx]. unf Ht. destruct bx; try discriminate; inversion Ht; subst; auto. }
    destruct Hb as [Hbx Hbt]. rewrite Hbt. rewrite Hbx in Ix. cbn [instk] in *.
    intros c w rest al. cbn [enc pcms fst snd].
    split; intros Hin; cbn [all_sat all_dsat sd fst snd] in Hin; [|contradiction].
    apply bnd_pv. exact (proj1 (Ix c w rest al) Hin).
  Qed.

  (* d:X = DUP IF X ENDIF, X : Vz.  Dissatisfied with the empty vector: X is skipped. *)
  Lemma ts_dupif x : TS x -> TS (MDupIf x).
  Proof.
    intros IH t Ht Hwf Hnm Hms. one_child IH Ht Hwf Hnm Hms tx Hx Ix.
    destruct (theoremA_closed e ke A HA Hse x tx Hx Hwf Hnm) as [_ [Hs _]].
    assert (Hb : c_base (t_corr tx) = BV /\ c_base (t_corr t) = BB /\ (forall w, In w (sat x) -> w = [])).
    { destruct tx as [[bx ix dx ux] mx]. unf Ht. cbn [t_corr c_input] in Hs.
      destruct bx; try discriminate; destruct ix; try discriminate. inversion Ht; subst; clear Ht. cbn in Hs. auto. }
    destruct Hb as [Hbx [Hbt Hz]]. rewrite Hbt. rewrite Hbx in Ix. cbn [instk] in *.
    intros c w rest al. cbn [enc pcms fst snd].
    split; intros Hin; cbn [all_sat all_dsat sd fst snd] in Hin.
    - apply in_map_iff in Hin. destruct Hin as [wx [<- Hwx]]. pose proof (Hz wx Hwx) as ->.
      apply bnd_op; [reflexivity|]. intros st1 E1. cbn [exec_op stk alt app] in E1. inversion E1; subst st1; clear E1.
      eapply bnd_if; [reflexivity | apply if_cond_one |]. cbn [xorb if_branch stk alt]. rewrite app_nil_r.
      exact (proj1 (Ix c [] ([1] :: rest) al) Hwx).
    - destruct Hin as [<-|[]].
      apply bnd_op; [reflexivity|]. intros st1 E1. cbn [exec_op stk alt app] in E1. inversion E1; subst st1; clear E1.
      eapply bnd_if; [reflexivity | apply if_cond_empty |]. cbn [xorb if_branch app]. apply bnd_nil.
  Qed.

  (* ---- two and three children ---- *)
  Definition tsel (d : bool) (m : ms) : list wit := if d then dsat m else sat m.
  Definition msel (d : bool) (p : N * N) : N := if d then snd p else fst p.
  Definition TSi (m : ms) (b : base) : Prop :=
    forall d c w rest al, In w (tsel d m) -> bnd e (enc ke m) (mkSt (instk b c w rest) al) (msel d (pcms m)).
  Lemma tsi_of m b :
    (forall c w rest al,
       (In w (sat m) -> bnd e (enc ke m) (mkSt (instk b c w rest) al) (fst (pcms m))) /\
       (In w (dsat m) -> bnd e (enc ke m) (mkSt (instk b c w rest) al) (snd (pcms m)))) -> TSi m b.
  Proof. intros H d c w rest al Hin. destruct d; [exact (proj2 (H c w rest al) Hin) | exact (proj1 (H c w rest al) Hin)]. Qed.

  Lemma postB x tx : type_of x = ROk tx -> c_base (t_corr tx) = BB -> wf e ke x -> no_multi x ->
    forall d w rest al, In w (tsel d x) -> exists v, exec e (enc ke x) (mkSt (w ++ rest) al) = Ok (mkSt (v :: rest) al).
  Proof.
    intros Hx Hb Hw Hn d w rest al Hin. destruct (theoremA_closed e ke A HA Hse x tx Hx Hw Hn) as [Hg _].
    unfold good in Hg. rewrite Hb in Hg.
    destruct d; [exists []; exact (proj2 Hg _ _ _ Hin) | destruct (proj1 Hg _ rest al Hin) as [v [Hr _]]; eauto].
  Qed.
  Lemma x_exit x tx : type_of x = ROk tx -> c_base (t_corr tx) = BB -> c_unit (t_corr tx) = true -> wf e ke x -> no_multi x ->
    forall d w rest al, In w (tsel d x) ->
    exec e (enc ke x) (mkSt (w ++ rest) al) = Ok (mkSt ((if d then [] else [1]) :: rest) al).
  Proof.
    intros Hx Hb Hu Hw Hn d w rest al Hin. destruct (theoremA_closed e ke A HA Hse x tx Hx Hw Hn) as [Hg _].
    unfold good in Hg. rewrite Hb, Hu in Hg.
    destruct d; [exact (proj2 Hg _ _ _ Hin)|]. destruct (proj1 Hg _ rest al Hin) as [v [Hr [_ [_ Hv]]]].
    rewrite (Hv eq_refl) in Hr. exact Hr.
  Qed.

  (* X : B, then Y : W on top of X's result, then one opcode *)
  Lemma seqBW x y tx o : type_of x = ROk tx -> c_base (t_corr tx) = BB -> wf e ke x -> no_multi x -> is_cms o = false ->
    TSi x BB -> TSi y BW ->
    forall dx dy a b rest al, In a (tsel dx x) -> In b (tsel dy y) ->
    bnd e (enc ke x ++ enc ke y ++ [IOp o]) (mkSt ((a ++ b) ++ rest) al) (msel dx (pcms x) + msel dy (pcms y)).
  Proof.
    intros Hx Hb Hw Hn Ho Ix Iy dx dy a b rest al Ha Hb'. rewrite <- app_assoc.
    destruct (postB x tx Hx Hb Hw Hn dx a (b ++ rest) al Ha) as [v Hr].
    eapply bnd_app; [exact Hr | exact (Ix dx [] a (b ++ rest) al Ha) |].
    apply bnd_app_glue; [cbn [cbl cb_instr]; rewrite Ho; reflexivity | exact (Iy dy v b rest al Hb')].
  Qed.

  (* X : Bdu, then NOTIF T [ELSE E] ENDIF: X dissatisfied runs T, X satisfied runs E *)
  Lemma seq_notif x tx T E : type_of x = ROk tx -> c_base (t_corr tx) = BB -> c_unit (t_corr tx) = true ->
    wf e ke x -> no_multi x -> TSi x BB ->
    forall d a r rest al n, In a (tsel d x) ->
    bnd e (if d then T else match E with Some el => el | None => [] end) (mkSt (r ++ rest) al) n ->
    bnd e (enc ke x ++ [IIf true T E]) (mkSt ((a ++ r) ++ rest) al) (msel d (pcms x) + n).
  Proof.
    intros Hx Hb Hu Hw Hn Ix d a r rest al n Ha Hbr. rewrite <- app_assoc.
    eapply bnd_app; [exact (x_exit x tx Hx Hb Hu Hw Hn d a (r ++ rest) al Ha) | exact (Ix d [] a (r ++ rest) al Ha) |].
    destruct d.
    - eapply bnd_if; [reflexivity | apply if_cond_empty |]. cbn [xorb if_branch stk alt]. rewrite app_nil_r. exact Hbr.
    - eapply bnd_if; [reflexivity | apply if_cond_one |]. cbn [xorb if_branch stk alt]. rewrite app_nil_r. exact Hbr.
  Qed.

  Ltac two_children IHx IHz Ht Hwf Hnm Hms tx tz Hx Hz Hwx Hwz Hnx Hnz Ix Iz :=
    cbn [type_of] in Ht; apply rbind_ok in Ht; destruct Ht as [tx [Hx Ht]];
    apply rbind_ok in Ht; destruct Ht as [tz [Hz Ht]];
    cbn [wf no_multi multi_small] in Hwf, Hnm, Hms; destruct Hwf as [Hwx Hwz]; destruct Hnm as [Hnx Hnz];
    apply andb_prop in Hms; destruct Hms as [?Hmx ?Hmz];
    pose proof (tsi_of _ _ (IHx tx Hx Hwx Hnx Hmx)) as Ix; pose proof (tsi_of _ _ (IHz tz Hz Hwz Hnz Hmz)) as Iz.

  Lemma ts_and_v x y : TS x -> TS y -> TS (MAndV x y).
  Proof.
    intros IHx IHy t Ht Hwf Hnm Hms. two_children IHx IHy Ht Hwf Hnm Hms tx t2 Hx Hy Hwx Hwy Hnx Hny Ix Iy.
    destruct (theoremA_closed e ke A HA Hse x tx Hx Hwx Hnx) as [Hg _].
    assert (Hb : c_base (t_corr tx) = BV /\ c_base (t_corr t2) <> BW /\ c_base (t_corr t) = c_base (t_corr t2)).
    { destruct tx as [[bx ix dx ux] mx]; destruct t2 as [[b2 i2 d2 u2] m2]; unf Ht.
      destruct bx, b2; try discriminate; inversion Ht; subst; cbn; repeat split; first [reflexivity | discriminate]. }
    destruct Hb as [Hbx [Hby Hbt]]. unfold good in Hg. rewrite Hbx in Hg. rewrite Hbt. rewrite Hbx in Ix.
    intros c w rest al. rewrite (instk_nw _ c w rest Hby). cbn [enc pcms fst snd]. rewrite sat_and_v, dsat_and_v.
    split; intros Hin; apply in_cross in Hin; destruct Hin as [a [b [Ha [Hb' ->]]]]; rewrite <- app_assoc;
      (eapply bnd_app; [exact (Hg a (b ++ rest) al Ha) | exact (Ix false c a (b ++ rest) al Ha) |]).
    - pose proof (Iy false c b rest al Hb') as B. rewrite (instk_nw _ _ _ _ Hby) in B. exact B.
    - pose proof (Iy true c b rest al Hb') as B. rewrite (instk_nw _ _ _ _ Hby) in B. exact B.
  Qed.

  Lemma ts_and_b x y : TS x -> TS y -> TS (MAndB x y).
  Proof.
    intros IHx IHy t Ht Hwf Hnm Hms. two_children IHx IHy Ht Hwf Hnm Hms tx t2 Hx Hy Hwx Hwy Hnx Hny Ix Iy.
    assert (Hb : c_base (t_corr tx) = BB /\ c_base (t_corr t2) = BW /\ c_base (t_corr t) = BB).
    { destruct tx as [[bx ix dx ux] mx]; destruct t2 as [[b2 i2 d2 u2] m2]; unf Ht.
      destruct bx, b2; try discriminate; inversion Ht; subst; auto. }
    destruct Hb as [Hbx [Hby Hbt]]. rewrite Hbt. rewrite Hbx in Ix. rewrite Hby in Iy.
    intros c w rest al. cbn [instk enc pcms fst snd]. unfold all_sat, all_dsat. rewrite sd_and_b. cbn [fst snd].
    split; intros Hin; apply in_cross in Hin; destruct Hin as [a [b [Ha [Hb' ->]]]].
    - exact (seqBW x y tx OP_BOOLAND Hx Hbx Hwx Hnx eq_refl Ix Iy false false a b rest al Ha Hb').
    - exact (seqBW x y tx OP_BOOLAND Hx Hbx Hwx Hnx eq_refl Ix Iy true true a b rest al Ha Hb').
  Qed.

  Lemma ts_or_b x y : TS x -> TS y -> TS (MOrB x y).
  Proof.
    intros IHx IHy t Ht Hwf Hnm Hms. two_children IHx IHy Ht Hwf Hnm Hms tx t2 Hx Hy Hwx Hwy Hnx Hny Ix Iy.
    assert (Hb : c_base (t_corr tx) = BB /\ c_base (t_corr t2) = BW /\ c_base (t_corr t) = BB).
    { destruct tx as [[bx ix dx ux] mx]; destruct t2 as [[b2 i2 d2 u2] m2]; unf Ht.
      destruct dx; cbn [negb] in Ht; try discriminate. destruct d2; cbn [negb] in Ht; try discriminate.
      destruct bx, b2; try discriminate; inversion Ht; subst; auto. }
    destruct Hb as [Hbx [Hby Hbt]]. rewrite Hbt. rewrite Hbx in Ix. rewrite Hby in Iy.
    intros c w rest al. cbn [instk enc pcms fst snd]. unfold all_sat, all_dsat. rewrite sd_or_b. cbn [fst snd].
    split; intros Hin.
    - apply in_app_or in Hin. destruct Hin as [Hin|Hin]; apply in_cross in Hin; destruct Hin as [a [b [Ha [Hb' ->]]]].
      + eapply bnd_le; [exact (seqBW x y tx OP_BOOLOR Hx Hbx Hwx Hnx eq_refl Ix Iy true false a b rest al Ha Hb') | cbn [msel]; lia].
      + eapply bnd_le; [exact (seqBW x y tx OP_BOOLOR Hx Hbx Hwx Hnx eq_refl Ix Iy false true a b rest al Ha Hb') | cbn [msel]; lia].
    - apply in_cross in Hin. destruct Hin as [a [b [Ha [Hb' ->]]]].
      exact (seqBW x y tx OP_BOOLOR Hx Hbx Hwx Hnx eq_refl Ix Iy true true a b rest al Ha Hb').
  Qed.

  Lemma ts_or_c x z : TS x -> TS z -> TS (MOrC x z).
  Proof.
    intros IHx IHz t Ht Hwf Hnm Hms. two_children IHx IHz Ht Hwf Hnm Hms tx tz Hx Hz Hwx Hwz Hnx Hnz Ix Iz.
    assert (Hb : c_base (t_corr tx) = BB /\ c_unit (t_corr tx) = true /\ c_base (t_corr tz) = BV /\ c_base (t_corr t) = BV).
    { destruct tx as [[bx ix dx ux] mx]; destruct tz as [[b2 i2 d2 u2] m2]; unf Ht.
      destruct dx; cbn [negb] in Ht; try discriminate. destruct ux; cbn [negb] in Ht; try discriminate.
      destruct bx, b2; try discriminate; inversion Ht; subst; auto. }
    destruct Hb as [Hbx [Hux [Hbz Hbt]]]. rewrite Hbt. rewrite Hbx in Ix. rewrite Hbz in Iz.
    intros c w rest al. cbn [instk enc pcms fst snd].
    split; intros Hin.
    - rewrite sat_or_c in Hin. apply in_app_or in Hin. destruct Hin as [Hin|Hin].
      + pose proof (seq_notif x tx (enc ke z) None Hx Hbx Hux Hwx Hnx Ix false w [] rest al 0 Hin (bnd_nil e _)) as B.
        rewrite app_nil_r in B. eapply bnd_le; [exact B | cbn [msel]; lia].
      + apply in_cross in Hin. destruct Hin as [a [b [Ha [Hb' ->]]]].
        eapply bnd_le; [exact (seq_notif x tx (enc ke z) None Hx Hbx Hux Hwx Hnx Ix true a b rest al _ Ha (Iz false c b rest al Hb')) | cbn [msel]; lia].
    - unfold all_dsat in Hin. cbn [sd] in Hin. destruct (sd ke A x), (sd ke A z). cbn in Hin. contradiction.
  Qed.

  Lemma ts_andor a b c0 : TS a -> TS b -> TS c0 -> TS (MAndOr a b c0).
  Proof.
    intros IHa IHb IHc t Ht Hwf Hnm Hms.
    cbn [type_of] in Ht. apply rbind_ok in Ht. destruct Ht as [ta [Ha Ht]].
    apply rbind_ok in Ht. destruct Ht as [tb [Hb Ht]]. apply rbind_ok in Ht. destruct Ht as [tc [Hc Ht]].
    cbn [wf no_multi multi_small] in Hwf, Hnm, Hms. destruct Hwf as [Hwa [Hwb Hwc]]. destruct Hnm as [Hna [Hnb Hnc]].
    apply andb_prop in Hms. destruct Hms as [Hms Hmc]. apply andb_prop in Hms. destruct Hms as [Hma Hmb].
    pose proof (tsi_of _ _ (IHa ta Ha Hwa Hna Hma)) as Ia. pose proof (tsi_of _ _ (IHb tb Hb Hwb Hnb Hmb)) as Ib.
    pose proof (tsi_of _ _ (IHc tc Hc Hwc Hnc Hmc)) as Ic.
    assert (HB : c_base (t_corr ta) = BB /\ c_unit (t_corr ta) = true /\ c_base (t_corr tb) <> BW /\ c_base (t_corr tc) <> BW
                 /\ c_base (t_corr t) <> BW).
    { destruct ta as [[ba ia da ua] ma], tb as [[bb ib db ub] mb], tc as [[bc ic dc uc] mc]. unf Ht.
      destruct da; cbn [negb] in Ht; try discriminate. destruct ua; cbn [negb] in Ht; try discriminate.
      destruct ba, bb, bc; try discriminate; inversion Ht; subst; cbn; repeat split; first [reflexivity | discriminate]. }
    destruct HB as [Hba [Hua [Hbb [Hbc Hbt]]]]. rewrite Hba in Ia.
    intros c w rest al. rewrite (instk_nw _ c w rest Hbt). cbn [enc pcms fst snd]. unfold all_sat, all_dsat. rewrite sd_andor. cbn [fst snd].
    assert (Jb : forall d w0, In w0 (tsel d b) -> bnd e (enc ke b) (mkSt (w0 ++ rest) al) (msel d (pcms b))).
    { intros d w0 Hw0. pose proof (Ib d c w0 rest al Hw0) as B. rewrite (instk_nw _ _ _ _ Hbb) in B. exact B. }
    assert (Jc : forall d w0, In w0 (tsel d c0) -> bnd e (enc ke c0) (mkSt (w0 ++ rest) al) (msel d (pcms c0))).
    { intros d w0 Hw0. pose proof (Ic d c w0 rest al Hw0) as B. rewrite (instk_nw _ _ _ _ Hbc) in B. exact B. }
    split; intros Hin.
    - apply in_app_or in Hin. destruct Hin as [Hin|Hin]; apply in_cross in Hin; destruct Hin as [x [y [Hx' [Hy' ->]]]].
      + eapply bnd_le; [exact (seq_notif a ta (enc ke c0) (Some (enc ke b)) Ha Hba Hua Hwa Hna Ia false x y rest al _ Hx' (Jb false y Hy')) | cbn [msel]; lia].
      + eapply bnd_le; [exact (seq_notif a ta (enc ke c0) (Some (enc ke b)) Ha Hba Hua Hwa Hna Ia true x y rest al _ Hx' (Jc false y Hy')) | cbn [msel]; lia].
    - apply in_cross in Hin. destruct Hin as [x [y [Hx' [Hy' ->]]]].
      exact (seq_notif a ta (enc ke c0) (Some (enc ke b)) Ha Hba Hua Hwa Hna Ia true x y rest al _ Hx' (Jc true y Hy')).
  Qed.

  (* ---- thresh: X0 X1 ADD ... Xn ADD k EQUAL; every choice of exactly j satisfied children ---- *)
  Lemma thresh_tail_c xs : Forall (fun x => goodW e ke A x true) xs ->
    forall j w s rest al, In w (thresh_comb j (map (sd ke A) xs)) ->
      (0 <= s)%Z -> (s + Z.of_nat (length xs) < 2147483648)%Z ->
      exec e (enc_tail ke xs) (mkSt (num_encode s :: w ++ rest) al) = Ok (mkSt (num_encode (s + Z.of_nat j) :: rest) al).
  Proof.
    apply (thresh_tail e ke A);
      [intros z Hz; apply num_roundtrip; lia | intros z Hz; apply num_roundtrip; lia | apply num_truthy | intros v z; apply num_truthy_iff].
  Qed.

  Lemma tail1 x : goodW e ke A x true -> forall (d : bool) a s rest al, In a (tsel d x) ->
    (0 <= s)%Z -> (s + 1 < 2147483648)%Z ->
    exec e (enc ke x ++ [IOp OP_ADD]) (mkSt (num_encode s :: a ++ rest) al)
    = Ok (mkSt (num_encode (if d then s else s + 1) :: rest) al).
  Proof.
    intros Hg d a s rest al Ha Hs Hb.
    pose proof (thresh_tail_c [x] (Forall_cons (P := fun x => goodW e ke A x true) x Hg (Forall_nil _)) (if d then 0 else 1)%nat (a ++ []) s rest al) as H.
    cbn [enc_tail length] in H. rewrite !app_nil_r in H.
    replace (s + Z.of_nat (if d then 0%nat else 1%nat))%Z with (if d then s else (s + 1)%Z) in H by (destruct d; lia).
    apply H; [|exact Hs|lia]. cbn [map thresh_comb]. unfold tsel, all_sat, all_dsat in Ha.
    destruct (sd ke A x) as [sx dx]. cbn [fst snd] in Ha. destruct d.
    - cbn [thresh_comb app]. apply in_cross. exists a, []. rewrite app_nil_r. repeat split; [exact Ha|left; reflexivity].
    - cbn [thresh_comb]. apply in_or_app. left. apply in_cross. exists a, []. rewrite app_nil_r. repeat split; [exact Ha|left; reflexivity].
  Qed.

  Lemma bnd_tail r : Forall (fun x => goodW e ke A x true /\ TSi x BW) r ->
    forall j w s rest al, In w (thresh_comb j (map (sd ke A) r)) ->
      (0 <= s)%Z -> (s + Z.of_nat (length r) < 2147483648)%Z ->
      bnd e (enc_tail ke r) (mkSt (num_encode s :: w ++ rest) al) (tbest j (map pcms r)).
  Proof.
    induction 1 as [|x r [Hg Ix] Hr IH]; intros j w s rest al Hin Hs Hb.
    - cbn [enc_tail]. eapply bnd_le; [apply bnd_nil | lia].
    - cbn [map thresh_comb] in Hin. destruct (sd ke A x) as [sx dx] eqn:Ex.
      cbn [length] in Hb. cbn [enc_tail map tbest]. rewrite app_assoc.
      apply in_app_or in Hin. destruct Hin as [Hin|Hin].
      + destruct j as [|j']; [contradiction|]. apply in_cross in Hin. destruct Hin as [a [b [Ha [Hb' ->]]]].
        assert (Ha' : In a (tsel false x)) by (unfold tsel, all_sat; rewrite Ex; exact Ha).
        rewrite <- (app_assoc a b rest).
        eapply bnd_le; [eapply bnd_app; [exact (tail1 x Hg false a s (b ++ rest) al Ha' Hs ltac:(lia))
                                        | apply bnd_app_glue; [reflexivity | exact (Ix false (num_encode s) a (b ++ rest) al Ha')]
                                        | apply (IH j' b (s + 1)%Z rest al Hb'); lia] | cbn [msel]; lia].
      + apply in_cross in Hin. destruct Hin as [a [b [Ha [Hb' ->]]]].
        assert (Ha' : In a (tsel true x)) by (unfold tsel, all_dsat; rewrite Ex; exact Ha).
        rewrite <- (app_assoc a b rest).
        eapply bnd_le; [eapply bnd_app; [exact (tail1 x Hg true a s (b ++ rest) al Ha' Hs ltac:(lia))
                                        | apply bnd_app_glue; [reflexivity | exact (Ix true (num_encode s) a (b ++ rest) al Ha')]
                                        | apply (IH j b s rest al Hb'); lia] | cbn [msel]; lia].
  Qed.

  Lemma ts_thresh k xs : Forall TS xs -> TS (MThresh k xs).
  Proof.
    intros IH t Ht Hwf Hnm Hms. cbn [type_of] in Ht. fold (tys_of xs) in Ht.
    apply rbind_ok in Ht. destruct Ht as [ts [Hts Ht]]. apply tys_of_ok in Hts.
    cbn [wf no_multi multi_small] in Hwf, Hnm, Hms. destruct Hwf as [Hk [Hn Hwf]].
    assert (Hall : Forall2 (fun x t => type_of x = ROk t /\ wf e ke x /\ no_multi x /\ good e ke A x t
                                       /\ TSi x (c_base (t_corr t))) xs ts).
    { clear Ht Hk Hn. revert ts Hts Hwf Hnm Hms. induction IH as [|x r Hx Hr IHr]; intros ts Hts Hwf Hnm Hms.
      - inversion Hts. constructor.
      - inversion Hts as [|x' t' r' ts' Hxt Hrt]; subst. destruct Hwf as [Hw1 Hw2]. destruct Hnm as [Hn1 Hn2].
        cbn in Hms. apply andb_prop in Hms. destruct Hms as [Hm1 Hm2].
        constructor; [|apply IHr; assumption].
        split; [exact Hxt|]. split; [exact Hw1|]. split; [exact Hn1|].
        split; [exact (proj1 (theoremA_closed e ke A HA Hse x t' Hxt Hw1 Hn1)) | apply tsi_of; exact (Hx t' Hxt Hw1 Hn1 Hm1)]. }
    unfold t_threshold in Ht. destruct (c_threshold k (map t_corr ts)) as [c0|] eqn:Ec; [|discriminate].
    inversion Ht; subst; clear Ht.
    destruct xs as [|x0 r]; [cbn in Hk; lia|]. inversion Hall as [|x0' t0 r' ts0 H0 Hrest]; subst.
    unfold c_threshold in Ec. cbn [map] in Ec. destruct (loop_first (t_corr t0) (map t_corr ts0)) as [Lt Lf].
    destruct (child_ok true (t_corr t0) && forallb (child_ok false) (map t_corr ts0)) eqn:Eok.
    2:{ destruct (Lf eq_refl) as [err He]. rewrite He in Ec. discriminate. }
    rewrite (Lt eq_refl) in Ec. inversion Ec; subst; clear Ec.
    apply andb_prop in Eok. destruct Eok as [Ok0 Okr].
    destruct H0 as (Hx0 & Hw0 & Hn0 & Hg0 & I0).
    unfold child_ok in Ok0. destruct t0 as [[b0 i0 d0 u0] m0]. cbn [t_corr c_base c_unit c_dissat] in Ok0, I0.
    destruct b0, u0, d0; try discriminate.
    assert (HW : Forall (fun x => goodW e ke A x true /\ TSi x BW) r).
    { clear -Hrest Okr. induction Hrest as [|x t r ts Hx Hr IHr]; [constructor|].
      cbn [map forallb] in Okr. apply andb_prop in Okr. destruct Okr as [O1 O2].
      constructor; [|apply IHr, O2]. unfold child_ok in O1. destruct t as [[b i d u] m].
      cbn [t_corr c_base c_unit c_dissat] in O1. destruct b, u, d; try discriminate.
      destruct Hx as (_ & _ & _ & Hg & Hi). split; [exact Hg | exact Hi]. }
    assert (Hlen : (Z.of_nat (length r) + 1 < 2147483648)%Z) by (cbn [length] in Hn; lia).
    intros c w rest al. cbn [t_corr c_base instk]. rewrite enc_thresh, pcms_thresh.
    cbn [fst snd map tbest]. unfold all_sat, all_dsat. rewrite sd_thresh. cbn [fst snd map thresh_comb].
    destruct (sd ke A x0) as [s0 d0] eqn:E0.
    assert (X0 : forall d a b n s, In a (tsel d x0) -> s = (if d then 0 else 1)%Z ->
                 bnd e (enc_tail ke r) (mkSt (num_encode s :: b ++ rest) al) n ->
                 bnd e (enc ke x0 ++ enc_tail ke r ++ [push_int (Z.of_N k); IOp OP_EQUAL]) (mkSt ((a ++ b) ++ rest) al)
                     (msel d (pcms x0) + n)).
    { intros d a b n s Ha -> Hb. rewrite <- app_assoc.
      eapply bnd_app; [exact (x_exit x0 _ Hx0 eq_refl eq_refl Hw0 Hn0 d a (b ++ rest) al Ha) | exact (I0 d [] a (b ++ rest) al Ha) |].
      apply bnd_app_glue; [cbn [cbl]; rewrite cb_push_int; reflexivity|]. destruct d; exact Hb. }
    split; intros Hin.
    - apply in_app_or in Hin. destruct Hin as [Hin|Hin].
      + destruct (N.to_nat k) as [|k'] eqn:Ek; [contradiction|].
        apply in_cross in Hin. destruct Hin as [a [b [Ha [Hb ->]]]].
        assert (Ha' : In a (tsel false x0)) by (unfold tsel, all_sat; rewrite E0; exact Ha).
        eapply bnd_le; [exact (X0 false a b _ 1%Z Ha' eq_refl (bnd_tail r HW k' b 1%Z rest al Hb ltac:(lia) ltac:(lia))) | cbn [msel]; lia].
      + apply in_cross in Hin. destruct Hin as [a [b [Ha [Hb ->]]]].
        assert (Ha' : In a (tsel true x0)) by (unfold tsel, all_dsat; rewrite E0; exact Ha).
        eapply bnd_le; [exact (X0 true a b _ 0%Z Ha' eq_refl (bnd_tail r HW (N.to_nat k) b 0%Z rest al Hb ltac:(lia) ltac:(lia))) | cbn [msel]; lia].
    - cbn [app] in Hin. apply in_cross in Hin. destruct Hin as [a [b [Ha [Hb ->]]]].
      assert (Ha' : In a (tsel true x0)) by (unfold tsel, all_dsat; rewrite E0; exact Ha).
      eapply bnd_le; [exact (X0 true a b _ 0%Z Ha' eq_refl (bnd_tail r HW 0%nat b 0%Z rest al Hb ltac:(lia) ltac:(lia))) | cbn [msel]; lia].
  Qed.

  Theorem ops_trace_table : forall m, TS m.
  Proof.
    induction m using ms_ind'; try (apply ts_fallback; reflexivity);
      first [ apply ts_alt; assumption | apply ts_swap; assumption | apply ts_check; assumption
            | apply ts_dupif; assumption | apply ts_verify; assumption | apply ts_nonzero; assumption
            | apply ts_zne; assumption | apply ts_or_d; assumption | apply ts_or_i; assumption
            | apply ts_and_v; assumption | apply ts_and_b; assumption | apply ts_or_b; assumption
            | apply ts_or_c; assumption | apply ts_andor; assumption | apply ts_thresh; assumption ].
  Qed.
End OpsTrace.
