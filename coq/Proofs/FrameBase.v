(* Frame soundness of the correctness types, part 1: vocabulary and generic facts.

   [fr e s c out]  : the script [s] maps the stack prefix [c] to [out] in EVERY frame (for every
                     stack below and every alt stack, which is restored).
   [invB/V/K/W]    : what a base type promises about EVERY successful execution of a script
                     (not only about the entries of the satisfaction table, which is Theorem A):
                     the input stack splits into a consumed prefix and an untouched rest, the
                     script is frame-independent on that prefix, the consumed prefix has the size the
                     input class (z / o / n) promises, a unit fragment leaves exactly [1] when it
                     leaves a true value, and (n) a satisfying execution has a non-empty top element.  *)
From Verif Require Import Exec Ser Ast Types TypeCheck SatSpec ExecLemmas Spec TypesSpec ScriptNumProofs TheoremA.
From Coq Require Import Lia.

(* ---------- inversion of successful runs ---------- *)
Lemma bind_ok_inv {A B} (r : result A) (f : A -> result B) b :
  bind r f = Ok b -> exists a, r = Ok a /\ f a = Ok b.
Proof. destruct r as [a|]; cbn; [eauto | discriminate]. Qed.

Lemma exec_app_inv e s1 s2 st r :
  exec e (s1 ++ s2) st = Ok r -> exists r1, exec e s1 st = Ok r1 /\ exec e s2 r1 = Ok r.
Proof. rewrite exec_app. apply bind_ok_inv. Qed.

Lemma exec_cons_inv e i s st r :
  exec e (i :: s) st = Ok r -> exists r1, exec_instr e i st = Ok r1 /\ exec e s r1 = Ok r.
Proof. rewrite exec_cons. apply bind_ok_inv. Qed.

Lemma exec_single e i st : exec e [i] st = exec_instr e i st.
Proof. cbn [exec]. apply bind_ret. Qed.

Lemma exec_if_inv e neg thn els st r : exec_instr e (IIf neg thn els) st = Ok r ->
  exists v rs c, stk st = v :: rs /\ if_cond e v = Some c /\
    (if xorb c neg then exec e thn (mkSt rs (alt st))
     else match els with Some el => exec e el (mkSt rs (alt st)) | None => Ok (mkSt rs (alt st)) end) = Ok r.
Proof.
  rewrite exec_if. destruct (stk st) as [|v rs]; [discriminate|].
  destruct (if_cond e v) as [c|] eqn:Ec; [|discriminate]. intros H. exists v, rs, c. auto.
Qed.

(* ---------- IF conditions ---------- *)
Lemma if_cond_true_truthy e v : if_cond e v = Some true -> truthy v = true.
Proof.
  unfold if_cond. destruct (minimalif (e_sv e)).
  - destruct v as [|x r]; [discriminate|]. destruct x as [|[p|p|]]; destruct r; try discriminate. reflexivity.
  - intros H. inversion H. reflexivity.
Qed.
Lemma if_cond_false_falsy e v : if_cond e v = Some false -> truthy v = false.
Proof.
  unfold if_cond. destruct (minimalif (e_sv e)).
  - destruct v as [|x r]; [reflexivity|]. destruct x as [|[p|p|]]; destruct r; discriminate.
  - intros H. inversion H. reflexivity.
Qed.
Lemma if_cond_bool e b : if_cond e (bool_bytes b) = Some b.
Proof. unfold if_cond. destruct (minimalif (e_sv e)), b; reflexivity. Qed.
Lemma truthy_bool b : truthy (bool_bytes b) = b.
Proof. destruct b; reflexivity. Qed.
Lemma truthy_nonempty v : truthy v = true -> v <> [].
Proof. intros H ->. discriminate. Qed.

(* ---------- numbers ---------- *)
Lemma num_operand_zero n v : num_operand n v = Some 0%Z -> v = [].
Proof.
  intros H. pose proof (num_truthy_iff n v 0%Z H) as Ht. cbn in Ht.
  unfold num_operand in H. destruct (N.leb (blen v) n && num_minimal v) eqn:E; [|discriminate].
  apply Bool.andb_true_iff in E. destruct E as [_ Hm].
  destruct v as [|x r]; [reflexivity|].
  destruct (minimal_nonempty (x :: r) ltac:(discriminate) Hm) as [_ Ht']. congruence.
Qed.
Lemma num_encode_nonempty z : z <> 0%Z -> num_encode z <> [].
Proof.
  intros Hz. unfold num_encode. replace (z =? 0)%Z with false by (symmetry; apply Z.eqb_neq; exact Hz).
  cbn [enc_mag]. destruct (Z.abs z <? 128)%Z; [discriminate|]. destruct (Z.abs z <? 256)%Z; discriminate.
Qed.
Lemma size_zero_empty a : num_operand 4 (num_encode (Z.of_N (blen a))) = Some 0%Z -> a = [].
Proof.
  intros H. apply num_operand_zero in H. destruct a as [|x r]; [reflexivity|]. exfalso.
  apply (num_encode_nonempty (Z.of_N (blen (x :: r)))); [|exact H]. unfold blen. cbn [length]. lia.
Qed.

Lemma take_n_spec {X} n : forall (l a b : list X), take_n n l = Some (a, b) -> l = a ++ b /\ length a = n.
Proof.
  induction n as [|n IH]; intros l a b H; cbn [take_n] in H.
  - inversion H; subst. split; reflexivity.
  - destruct l as [|x r]; [discriminate|]. destruct (take_n n r) as [[a' b']|] eqn:E; [|discriminate].
    inversion H; subst. destruct (IH _ _ _ E) as [-> <-]. split; reflexivity.
Qed.

(* ---------- frames ---------- *)
Definition fr (e : env) (s : script) (c out : stack) : Prop :=
  forall rest al, exec e s (mkSt (c ++ rest) al) = Ok (mkSt (out ++ rest) al).

Lemma fr_app e s1 s2 c1 o1 c2 o2 :
  fr e s1 c1 o1 -> fr e s2 (o1 ++ c2) o2 -> fr e (s1 ++ s2) (c1 ++ c2) o2.
Proof. intros H1 H2 rest al. rewrite exec_app, <- app_assoc, H1. cbn [bind]. rewrite app_assoc. apply H2. Qed.

Lemma fr_det e s c out rest al r :
  fr e s c out -> exec e s (mkSt (c ++ rest) al) = Ok r -> r = mkSt (out ++ rest) al.
Proof. intros H1 H2. rewrite H1 in H2. inversion H2. reflexivity. Qed.

Lemma fr_nil e : fr e [] [] [].
Proof. intros rest al. reflexivity. Qed.

(* ---------- what the input class and the flags promise ---------- *)
Definition top_ne (l : stack) : Prop := match l with a :: _ => a <> [] | [] => False end.
Lemma top_ne_app a b : top_ne a -> top_ne (a ++ b).
Proof. destruct a; cbn; tauto. Qed.
Lemma top_ne_cut a x b : top_ne (a ++ x :: b) -> top_ne (a ++ [x]).
Proof. destruct a; cbn; tauto. Qed.

(* number of elements consumed *)
Definition cnt (i : input) (n : nat) : Prop :=
  match i with
  | IZero => n = 0%nat
  | IOne | IOneNonZero => n = 1%nat
  | IAnyNonZero => (1 <= n)%nat
  | IAny => True
  end.
Definition isn (i : input) : bool := match i with IOneNonZero | IAnyNonZero => true | _ => false end.
Definition uval (u : bool) (v : bytes) : Prop := u = true -> truthy v = true -> v = [1%N].

Lemma uval_bool u b : uval u (bool_bytes b).
Proof. intros _. destruct b; [reflexivity | discriminate]. Qed.
Lemma uval_weaken u u' v : (u' = true -> u = true) -> uval u v -> uval u' v.
Proof. unfold uval. auto. Qed.
Lemma uval_false v : uval false v.
Proof. intros H. discriminate. Qed.

Lemma cnt_and ix iy a b : cnt ix a -> cnt iy b -> cnt (and_input ix iy) (a + b).
Proof. destruct ix, iy; cbn [and_input cnt]; lia. Qed.
Lemma isn_and ix iy : isn (and_input ix iy) = true -> isn ix = true \/ (ix = IZero /\ isn iy = true).
Proof. destruct ix, iy; cbn; auto; discriminate. Qed.
Lemma cnt_zero_nil {X} i (c : list X) : i = IZero -> cnt i (length c) -> c = [].
Proof. intros ->. cbn. destruct c; [reflexivity | discriminate]. Qed.

Section Inv.
  Variable e : env.

  (* hypotheses on the signature checker used ONLY by the [n] predictions:
     an empty signature never verifies (consensus), and the empty string is not an acceptable key *)
  Definition nhyp : Prop := (forall kbs, e_sigok e kbs [] = false) /\ e_keyok e [] = false.

  (* a K fragment is "satisfied" when the CHECKSIG that consumes its key succeeds with a true value *)
  Definition ksat (k : bytes) (rest : stack) : Prop :=
    exists s r, rest = s :: r /\ e_keyok e k = true /\ s <> [] /\ e_sigok e k s = true.

  Definition invB (s : script) (i : input) (u : bool) : Prop :=
    forall st al r, exec e s (mkSt st al) = Ok r ->
    exists c rest v, st = c ++ rest /\ r = mkSt (v :: rest) al /\ fr e s c [v]
      /\ cnt i (length c) /\ uval u v
      /\ (nhyp -> isn i = true -> truthy v = true -> top_ne c).
  Definition invV (s : script) (i : input) : Prop :=
    forall st al r, exec e s (mkSt st al) = Ok r ->
    exists c rest, st = c ++ rest /\ r = mkSt rest al /\ fr e s c []
      /\ cnt i (length c) /\ (nhyp -> isn i = true -> top_ne c).
  (* K: the signature stays on the stack for the CHECKSIG to come, so the count is one more *)
  Definition invK (s : script) (i : input) : Prop :=
    forall st al r, exec e s (mkSt st al) = Ok r ->
    exists c rest k, st = c ++ rest /\ r = mkSt (k :: rest) al /\ fr e s c [k]
      /\ cnt i (S (length c))
      /\ (nhyp -> isn i = true -> ksat k rest -> top_ne (c ++ rest)).
  (* W: the top element [c0] is carried; the value lands above it (swap) or below it (alt) *)
  Definition wout (sw : bool) (v c0 : bytes) : stack := if sw then [v; c0] else [c0; v].
  Definition invW (s : script) (i : input) (u : bool) : Prop :=
    i = IAny /\
    forall st al r, exec e s (mkSt st al) = Ok r ->
    exists c0 w rest v sw, st = c0 :: w ++ rest /\ r = mkSt (wout sw v c0 ++ rest) al
      /\ (forall c0', fr e s (c0' :: w) (wout sw v c0')) /\ uval u v.

  Definition inv (s : script) (t : ty) : Prop :=
    match c_base (t_corr t) with
    | BB => invB s (c_input (t_corr t)) (c_unit (t_corr t))
    | BV => invV s (c_input (t_corr t))
    | BK => invK s (c_input (t_corr t))
    | BW => invW s (c_input (t_corr t)) (c_unit (t_corr t))
    end.
End Inv.
