(* C19 — proofs about the Ord model (EqOrdModel.v: cmp_iter as coded, cmp_iter repaired). *)
From Coq Require Import Lia String.
From Verif Require Import EqOrdModel TheoremA EqOrdProofs.

(* ------------------------------------------------------------------ total orders given by a comparison *)
Record total_order {A} (c : A -> A -> comparison) : Prop := mkTO {
  to_eq : forall a b, c a b = Eq <-> a = b;
  to_antisym : forall a b, c b a = CompOpp (c a b);
  to_trans : forall a b d, c a b = Lt -> c b d = Lt -> c a d = Lt }.

Lemma to_refl {A} (c : A -> A -> comparison) : total_order c -> forall a, c a a = Eq.
Proof. intros T a. apply (to_eq c T). reflexivity. Qed.

Lemma to_N : total_order N.compare.
Proof.
  split.
  - apply N.compare_eq_iff.
  - intros a b. apply N.compare_antisym.
  - intros a b d. rewrite !N.compare_lt_iff. apply N.lt_trans.
Qed.

Definition lexc (c1 c2 : comparison) : comparison := match c1 with Eq => c2 | c => c end.

(* lexicographic product *)
Definition prod_cmp {A B} (c1 : A -> A -> comparison) (c2 : B -> B -> comparison) (p q : A * B) : comparison :=
  lexc (c1 (fst p) (fst q)) (c2 (snd p) (snd q)).

Lemma to_prod {A B} (c1 : A -> A -> comparison) (c2 : B -> B -> comparison) :
  total_order c1 -> total_order c2 -> total_order (prod_cmp c1 c2).
Proof.
  intros T1 T2. unfold prod_cmp. split.
  - intros [a b] [a' b']. cbn. destruct (c1 a a') eqn:E; cbn; split; intro H; try discriminate.
    + apply (to_eq c1 T1) in E. apply (to_eq c2 T2) in H. congruence.
    + injection H as -> ->. apply (to_refl c2 T2).
    + injection H as -> ->. rewrite (to_refl c1 T1) in E. discriminate.
    + injection H as -> ->. rewrite (to_refl c1 T1) in E. discriminate.
  - intros [a b] [a' b']. cbn. rewrite (to_antisym c1 T1 a a'), (to_antisym c2 T2 b b').
    destruct (c1 a a'); reflexivity.
  - intros [a b] [a' b'] [a'' b'']. cbn.
    destruct (c1 a a') eqn:E1; destruct (c1 a' a'') eqn:E2; cbn; try discriminate; intros H1 H2.
    + apply (to_eq c1 T1) in E1, E2. subst. rewrite (to_refl c1 T1). cbn. apply (to_trans c2 T2 _ _ _ H1 H2).
    + apply (to_eq c1 T1) in E1. subst. rewrite E2. reflexivity.
    + apply (to_eq c1 T1) in E2. subst. rewrite E1. reflexivity.
    + rewrite (to_trans c1 T1 _ _ _ E1 E2). reflexivity.
Qed.

(* (non-truncating) lexicographic order on lists *)
Fixpoint list_lex {A} (c : A -> A -> comparison) (a b : list A) : comparison :=
  match a, b with
  | [], [] => Eq
  | [], _ :: _ => Lt
  | _ :: _, [] => Gt
  | x :: r, y :: s => lexc (c x y) (list_lex c r s)
  end.

Lemma to_list {A} (c : A -> A -> comparison) : total_order c -> total_order (list_lex c).
Proof.
  intro T. split.
  - induction a as [|x r IH]; destruct b as [|y s]; cbn; split; intro H; try discriminate; try reflexivity.
    + destruct (c x y) eqn:E; cbn in H; try discriminate. apply (to_eq c T) in E. apply IH in H. congruence.
    + injection H as -> ->. rewrite (to_refl c T). cbn. apply IH. reflexivity.
  - induction a as [|x r IH]; destruct b as [|y s]; cbn; try reflexivity.
    rewrite (to_antisym c T x y), IH. destruct (c x y); reflexivity.
  - induction a as [|x r IH]; destruct b as [|y s]; destruct d as [|z t]; cbn; try discriminate; try reflexivity.
    destruct (c x y) eqn:E1; destruct (c y z) eqn:E2; cbn; try discriminate; intros H1 H2.
    + apply (to_eq c T) in E1, E2. subst. rewrite (to_refl c T). cbn. apply (IH _ _ H1 H2).
    + apply (to_eq c T) in E1. subst. rewrite E2. reflexivity.
    + apply (to_eq c T) in E2. subst. rewrite E1. reflexivity.
    + rewrite (to_trans c T _ _ _ E1 E2). reflexivity.
Qed.

(* pull a total order back along an injection *)
Lemma to_pullback {A B} (c : A -> A -> comparison) (c' : B -> B -> comparison) (enc : A -> B) :
  (forall a b, enc a = enc b -> a = b) -> (forall a b, c a b = c' (enc a) (enc b)) ->
  total_order c' -> total_order c.
Proof.
  intros Hi He T. split.
  - intros a b. rewrite He, (to_eq c' T). split; [apply Hi | congruence].
  - intros a b. rewrite !He. apply (to_antisym c' T).
  - intros a b d. rewrite !He. apply (to_trans c' T).
Qed.

Lemma bytes_cmp_lex a b : bytes_cmp a b = list_lex N.compare a b.
Proof.
  revert b. induction a as [|x r IH]; destruct b as [|y s]; cbn; try reflexivity.
  rewrite IH. destruct (x ?= y)%N; reflexivity.
Qed.

Lemma to_bytes : total_order bytes_cmp.
Proof.
  apply (to_pullback bytes_cmp (list_lex N.compare) (fun x => x)); [auto | apply bytes_cmp_lex | apply to_list, to_N].
Qed.

(* ------------------------------------------------------------------ fragment names: a finite sweep *)
Definition all_fnames : list fname :=
  [F_0; F_1; F_pk_k; F_pk_h; F_expr_raw_pkh; F_after; F_older; F_sha256; F_hash256; F_ripemd160; F_hash160;
   F_a; F_s; F_pk; F_pkh; F_c; F_d; F_v; F_j; F_n; F_t; F_and_v; F_and_n; F_and_b; F_andor;
   F_or_b; F_or_d; F_or_c; F_u; F_l; F_or_i; F_thresh; F_multi; F_sortedmulti; F_multi_a; F_sortedmulti_a].

Lemma in_all_fnames f : In f all_fnames.
Proof. destruct f; unfold all_fnames; repeat (try (left; reflexivity); right). Qed.

Definition is_lt (c : comparison) : bool := match c with Lt => true | _ => false end.
Definition is_eq (c : comparison) : bool := match c with Eq => true | _ => false end.

Lemma fname_sweep :
  forallb (fun f => forallb (fun g =>
     forallb (fun h => implb (is_lt (fname_cmp f g) && is_lt (fname_cmp g h)) (is_lt (fname_cmp f h))) all_fnames)
     all_fnames) all_fnames = true.
Proof. vm_compute. reflexivity. Qed.

Lemma fname_str_inj f g : fname_str f = fname_str g -> f = g.
Proof. destruct f, g; cbn; intro H; try reflexivity; discriminate H. Qed.

Lemma to_fname : total_order fname_cmp.
Proof.
  split.
  - intros f g. unfold fname_cmp. split.
    + intro H. apply String.compare_eq_iff in H. apply fname_str_inj. exact H.
    + intros ->. generalize (fname_str g). induction s as [|a s IH]; cbn; [reflexivity|].
      unfold Ascii.compare. rewrite N.compare_refl. exact IH.
  - intros f g. unfold fname_cmp. apply String.compare_antisym.
  - intros f g h H1 H2. pose proof fname_sweep as S.
    rewrite forallb_forall in S. specialize (S f (in_all_fnames f)).
    rewrite forallb_forall in S. specialize (S g (in_all_fnames g)).
    rewrite forallb_forall in S. specialize (S h (in_all_fnames h)).
    rewrite H1, H2 in S. cbn in S. destruct (fname_cmp f h); [discriminate | reflexivity | discriminate].
Qed.

(* ------------------------------------------------------------------ the per-node comparison *)
Section CmpProofs.
  Variable kcmp : key -> key -> comparison.
  Hypothesis to_key : total_order kcmp.

  (* uniform encoding of display nodes: (kind, name, number, key, bytes) *)
  Definition denc (d : dnode) : N * (fname * (N * (key * bytes))) :=
    match d with
    | DNode f n => (0, (f, (n, (0, []))))
    | DThreshK k => (1, (F_0, (k, (0, []))))
    | DKey k => (2, (F_0, (0, (k, []))))
    | DRawKeyHash h => (3, (F_0, (0, (0, h))))
    | DAfter t => (4, (F_0, (t, (0, []))))
    | DOlder t => (5, (F_0, (t, (0, []))))
    | DSha256 h => (6, (F_0, (0, (0, h))))
    | DHash256 h => (7, (F_0, (0, (0, h))))
    | DRipemd160 h => (8, (F_0, (0, (0, h))))
    | DHash160 h => (9, (F_0, (0, (0, h))))
    end%N.

  Definition tuple_cmp : N * (fname * (N * (key * bytes))) -> N * (fname * (N * (key * bytes))) -> comparison :=
    prod_cmp N.compare (prod_cmp fname_cmp (prod_cmp N.compare (prod_cmp kcmp bytes_cmp))).

  Lemma to_tuple : total_order tuple_cmp.
  Proof.
    unfold tuple_cmp. repeat apply to_prod; auto using to_N, to_fname, to_bytes.
  Qed.

  Lemma denc_inj a b : denc a = denc b -> a = b.
  Proof. destruct a, b; cbn; intro H; try discriminate H; injection H; intros; subst; reflexivity. Qed.

  Lemma dnode_cmp_total_tuple a b : dnode_cmp_total kcmp a b = tuple_cmp (denc a) (denc b).
  Proof.
    pose proof (to_refl kcmp to_key 0%N) as K0.
    destruct a, b; unfold tuple_cmp, prod_cmp, lexc; cbn; rewrite ?K0, ?N.compare_refl; cbn;
      repeat match goal with |- context [match ?c with Eq => _ | Lt => _ | Gt => _ end] => destruct c end;
      reflexivity.
  Qed.

  Lemma to_dnode : total_order (dnode_cmp_total kcmp).
  Proof. apply (to_pullback _ tuple_cmp denc denc_inj dnode_cmp_total_tuple to_tuple). Qed.

  Lemma lex_cmp_list a b : lex_cmp kcmp a b = list_lex (dnode_cmp_total kcmp) a b.
  Proof.
    revert b. induction a as [|x r IH]; destruct b as [|y s]; cbn; try reflexivity.
    rewrite IH. destruct (dnode_cmp_total kcmp x y); reflexivity.
  Qed.

  Lemma to_lex : total_order (lex_cmp kcmp).
  Proof.
    apply (to_pullback _ (list_lex (dnode_cmp_total kcmp)) (fun x => x)); [auto | apply lex_cmp_list | apply to_list, to_dnode].
  Qed.

  (* same kind <-> the code's match has an arm *)
  Lemma same_kind_cmp x y : dnode_kind x = dnode_kind y ->
    dnode_cmp kcmp x y = Some (dnode_cmp_total kcmp x y).
  Proof. destruct x, y; cbn; intro H; try discriminate H; reflexivity. Qed.

  (* ---------------------------------------------------------------- display sequences are well-bracketed *)
  Definition child_kinds (d : dnode) : list N :=
    match d with
    | DNode f n =>
      match f with
      | F_0 | F_1 => []
      | F_pk_k | F_pk_h | F_pk | F_pkh => [2]
      | F_expr_raw_pkh => [3]
      | F_after => [4] | F_older => [5] | F_sha256 => [6] | F_hash256 => [7] | F_ripemd160 => [8] | F_hash160 => [9]
      | F_a | F_s | F_c | F_d | F_v | F_j | F_n | F_t | F_u | F_l => [0]
      | F_and_v | F_and_n | F_and_b | F_or_b | F_or_d | F_or_c | F_or_i => [0; 0]
      | F_andor => [0; 0; 0]
      | F_thresh => 1 :: repeat 0 (N.to_nat n - 1)
      | F_multi | F_sortedmulti | F_multi_a | F_sortedmulti_a => 1 :: repeat 2 (N.to_nat n - 1)
      end
    | _ => []
    end%N.

  (* `closedk ks l`: l is the concatenated pre-order of a forest whose roots have kinds ks *)
  Fixpoint closedk (ks : list N) (l : list dnode) : Prop :=
    match l with
    | [] => ks = []
    | d :: l' => match ks with
                 | [] => False
                 | k :: ks' => dnode_kind d = k /\ closedk (child_kinds d ++ ks') l'
                 end
    end.

  (* two well-bracketed sequences over the same root kinds: the zip neither panics nor truncates *)
  Lemma zip_cmp_lex : forall l1 l2 ks, closedk ks l1 -> closedk ks l2 ->
    zip_cmp (dnode_cmp kcmp) l1 l2 = Ok (lex_cmp kcmp l1 l2).
  Proof.
    induction l1 as [|x r IH]; intros [|y s] ks H1 H2; cbn in *.
    - reflexivity.
    - subst ks. contradiction.
    - subst ks. contradiction.
    - destruct ks as [|k ks]; [contradiction|]. destruct H1 as [K1 H1], H2 as [K2 H2].
      rewrite (same_kind_cmp x y) by congruence.
      destruct (dnode_cmp_total kcmp x y) eqn:E; try reflexivity.
      apply (to_eq _ to_dnode) in E. subst y. apply (IH s _ H1 H2).
  Qed.
End CmpProofs.

(* ------------------------------------------------------------------ the display tree without sugar decisions *)
Inductive dms :=
| D0 | D1 | Dpk_k (k : key) | Dpk_h (k : key) | Draw_pk_h (h : bytes) | Dafter (t : N) | Dolder (t : N)
| Dsha256 (h : bytes) | Dhash256 (h : bytes) | Dripemd160 (h : bytes) | Dhash160 (h : bytes)
| Da (x : dms) | Ds (x : dms) | Dpk (k : key) | Dpkh (k : key) | Dc (x : dms)
| Dd (x : dms) | Dv (x : dms) | Dj (x : dms) | Dn (x : dms) | Dt (x : dms)
| Dand_v (x y : dms) | Dand_n (x y : dms) | Dand_b (x y : dms) | Dandor (a b c : dms)
| Dor_b (x y : dms) | Dor_d (x y : dms) | Dor_c (x y : dms) | Du (x : dms) | Dl (x : dms) | Dor_i (x y : dms)
| Dthresh (k : N) (xs : list dms)
| Dmulti (k : N) (ks : list key) | Dsortedmulti (k : N) (ks : list key)
| Dmulti_a (k : N) (ks : list key) | Dsortedmulti_a (k : N) (ks : list key).

Section DmsInd.
  Variable P : dms -> Prop.
  Hypothesis H0 : P D0. Hypothesis H1 : P D1.
  Hypothesis Hpk_k : forall k, P (Dpk_k k). Hypothesis Hpk_h : forall k, P (Dpk_h k).
  Hypothesis Hraw_pk_h : forall h, P (Draw_pk_h h).
  Hypothesis Hafter : forall t, P (Dafter t). Hypothesis Holder : forall t, P (Dolder t).
  Hypothesis Hsha : forall h, P (Dsha256 h). Hypothesis Hh256 : forall h, P (Dhash256 h).
  Hypothesis Hrip : forall h, P (Dripemd160 h). Hypothesis Hh160 : forall h, P (Dhash160 h).
  Hypothesis Ha : forall x, P x -> P (Da x). Hypothesis Hs : forall x, P x -> P (Ds x).
  Hypothesis Hpk : forall k, P (Dpk k). Hypothesis Hpkh : forall k, P (Dpkh k).
  Hypothesis Hc : forall x, P x -> P (Dc x). Hypothesis Hd : forall x, P x -> P (Dd x).
  Hypothesis Hv : forall x, P x -> P (Dv x). Hypothesis Hj : forall x, P x -> P (Dj x).
  Hypothesis Hn : forall x, P x -> P (Dn x). Hypothesis Ht : forall x, P x -> P (Dt x).
  Hypothesis Hand_v : forall x y, P x -> P y -> P (Dand_v x y).
  Hypothesis Hand_n : forall x y, P x -> P y -> P (Dand_n x y).
  Hypothesis Hand_b : forall x y, P x -> P y -> P (Dand_b x y).
  Hypothesis Handor : forall a b c, P a -> P b -> P c -> P (Dandor a b c).
  Hypothesis Hor_b : forall x y, P x -> P y -> P (Dor_b x y).
  Hypothesis Hor_d : forall x y, P x -> P y -> P (Dor_d x y).
  Hypothesis Hor_c : forall x y, P x -> P y -> P (Dor_c x y).
  Hypothesis Hu : forall x, P x -> P (Du x). Hypothesis Hl : forall x, P x -> P (Dl x).
  Hypothesis Hor_i : forall x y, P x -> P y -> P (Dor_i x y).
  Hypothesis Hthresh : forall k xs, Forall P xs -> P (Dthresh k xs).
  Hypothesis Hmulti : forall k ks, P (Dmulti k ks). Hypothesis Hsmulti : forall k ks, P (Dsortedmulti k ks).
  Hypothesis Hmulti_a : forall k ks, P (Dmulti_a k ks). Hypothesis Hsmulti_a : forall k ks, P (Dsortedmulti_a k ks).
  Fixpoint dms_ind' (d : dms) : P d :=
    match d with
    | D0 => H0 | D1 => H1 | Dpk_k k => Hpk_k k | Dpk_h k => Hpk_h k | Draw_pk_h h => Hraw_pk_h h
    | Dafter t => Hafter t | Dolder t => Holder t | Dsha256 h => Hsha h | Dhash256 h => Hh256 h
    | Dripemd160 h => Hrip h | Dhash160 h => Hh160 h
    | Da x => Ha x (dms_ind' x) | Ds x => Hs x (dms_ind' x) | Dpk k => Hpk k | Dpkh k => Hpkh k
    | Dc x => Hc x (dms_ind' x) | Dd x => Hd x (dms_ind' x)
    | Dv x => Hv x (dms_ind' x) | Dj x => Hj x (dms_ind' x) | Dn x => Hn x (dms_ind' x) | Dt x => Ht x (dms_ind' x)
    | Dand_v x y => Hand_v x y (dms_ind' x) (dms_ind' y) | Dand_n x y => Hand_n x y (dms_ind' x) (dms_ind' y)
    | Dand_b x y => Hand_b x y (dms_ind' x) (dms_ind' y)
    | Dandor a b c => Handor a b c (dms_ind' a) (dms_ind' b) (dms_ind' c)
    | Dor_b x y => Hor_b x y (dms_ind' x) (dms_ind' y) | Dor_d x y => Hor_d x y (dms_ind' x) (dms_ind' y)
    | Dor_c x y => Hor_c x y (dms_ind' x) (dms_ind' y) | Du x => Hu x (dms_ind' x) | Dl x => Hl x (dms_ind' x)
    | Dor_i x y => Hor_i x y (dms_ind' x) (dms_ind' y)
    | Dthresh k xs =>
      Hthresh k xs ((fix go (l : list dms) : Forall P l :=
                       match l with [] => Forall_nil P | x :: r => Forall_cons x (dms_ind' x) (go r) end) xs)
    | Dmulti k ks => Hmulti k ks | Dsortedmulti k ks => Hsmulti k ks
    | Dmulti_a k ks => Hmulti_a k ks | Dsortedmulti_a k ks => Hsmulti_a k ks
    end.
End DmsInd.

(* all sugar decisions of fragment_name / as_node, taken once *)
Fixpoint norm (m : ms) : dms :=
  match m with
  | MTrue => D1 | MFalse => D0 | MPkK k => Dpk_k k | MPkH k => Dpk_h k | MRawPkH h => Draw_pk_h h
  | MAfter t => Dafter t | MOlder t => Dolder t | MSha256 h => Dsha256 h | MHash256 h => Dhash256 h
  | MRipemd160 h => Dripemd160 h | MHash160 h => Dhash160 h
  | MAlt x => Da (norm x) | MSwap x => Ds (norm x)
  | MCheck x => match x with MPkK k => Dpk k | MPkH k => Dpkh k | _ => Dc (norm x) end
  | MDupIf x => Dd (norm x) | MVerify x => Dv (norm x) | MNonZero x => Dj (norm x) | MZeroNotEqual x => Dn (norm x)
  | MAndV l r => if is_true r then Dt (norm l) else Dand_v (norm l) (norm r)
  | MAndB l r => Dand_b (norm l) (norm r)
  | MAndOr a b c => if is_false c then Dand_n (norm a) (norm b) else Dandor (norm a) (norm b) (norm c)
  | MOrB l r => Dor_b (norm l) (norm r) | MOrD l r => Dor_d (norm l) (norm r) | MOrC l r => Dor_c (norm l) (norm r)
  | MOrI l r =>
    if is_false l then (if is_false r then Du (norm r) else Dl (norm r))
    else if is_false r then Du (norm l) else Dor_i (norm l) (norm r)
  | MThresh k xs => Dthresh k (map norm xs)
  | MMulti k ks => Dmulti k ks | MSortedMulti k ks => Dsortedmulti k ks
  | MMultiA k ks => Dmulti_a k ks | MSortedMultiA k ks => Dsortedmulti_a k ks
  end.

Fixpoint denorm (d : dms) : ms :=
  match d with
  | D0 => MFalse | D1 => MTrue | Dpk_k k => MPkK k | Dpk_h k => MPkH k | Draw_pk_h h => MRawPkH h
  | Dafter t => MAfter t | Dolder t => MOlder t | Dsha256 h => MSha256 h | Dhash256 h => MHash256 h
  | Dripemd160 h => MRipemd160 h | Dhash160 h => MHash160 h
  | Da x => MAlt (denorm x) | Ds x => MSwap (denorm x)
  | Dpk k => MCheck (MPkK k) | Dpkh k => MCheck (MPkH k)
  | Dc x => MCheck (denorm x) | Dd x => MDupIf (denorm x) | Dv x => MVerify (denorm x)
  | Dj x => MNonZero (denorm x) | Dn x => MZeroNotEqual (denorm x)
  | Dt x => MAndV (denorm x) MTrue
  | Dand_v x y => MAndV (denorm x) (denorm y) | Dand_n x y => MAndOr (denorm x) (denorm y) MFalse
  | Dand_b x y => MAndB (denorm x) (denorm y) | Dandor a b c => MAndOr (denorm a) (denorm b) (denorm c)
  | Dor_b x y => MOrB (denorm x) (denorm y) | Dor_d x y => MOrD (denorm x) (denorm y)
  | Dor_c x y => MOrC (denorm x) (denorm y)
  | Du x => MOrI (denorm x) MFalse | Dl x => MOrI MFalse (denorm x) | Dor_i x y => MOrI (denorm x) (denorm y)
  | Dthresh k xs => MThresh k (map denorm xs)
  | Dmulti k ks => MMulti k ks | Dsortedmulti k ks => MSortedMulti k ks
  | Dmulti_a k ks => MMultiA k ks | Dsortedmulti_a k ks => MSortedMultiA k ks
  end.

Fixpoint dflat (d : dms) : list dnode :=
  match d with
  | D0 => [DNode F_0 0] | D1 => [DNode F_1 0]
  | Dpk_k k => [DNode F_pk_k 1; DKey k] | Dpk_h k => [DNode F_pk_h 1; DKey k]
  | Draw_pk_h h => [DNode F_expr_raw_pkh 1; DRawKeyHash h]
  | Dafter t => [DNode F_after 1; DAfter t] | Dolder t => [DNode F_older 1; DOlder t]
  | Dsha256 h => [DNode F_sha256 1; DSha256 h] | Dhash256 h => [DNode F_hash256 1; DHash256 h]
  | Dripemd160 h => [DNode F_ripemd160 1; DRipemd160 h] | Dhash160 h => [DNode F_hash160 1; DHash160 h]
  | Da x => DNode F_a 1 :: dflat x | Ds x => DNode F_s 1 :: dflat x
  | Dpk k => [DNode F_pk 1; DKey k] | Dpkh k => [DNode F_pkh 1; DKey k]
  | Dc x => DNode F_c 1 :: dflat x | Dd x => DNode F_d 1 :: dflat x | Dv x => DNode F_v 1 :: dflat x
  | Dj x => DNode F_j 1 :: dflat x | Dn x => DNode F_n 1 :: dflat x | Dt x => DNode F_t 1 :: dflat x
  | Dand_v x y => DNode F_and_v 2 :: dflat x ++ dflat y | Dand_n x y => DNode F_and_n 2 :: dflat x ++ dflat y
  | Dand_b x y => DNode F_and_b 2 :: dflat x ++ dflat y
  | Dandor a b c => DNode F_andor 3 :: dflat a ++ dflat b ++ dflat c
  | Dor_b x y => DNode F_or_b 2 :: dflat x ++ dflat y | Dor_d x y => DNode F_or_d 2 :: dflat x ++ dflat y
  | Dor_c x y => DNode F_or_c 2 :: dflat x ++ dflat y
  | Du x => DNode F_u 1 :: dflat x | Dl x => DNode F_l 1 :: dflat x
  | Dor_i x y => DNode F_or_i 2 :: dflat x ++ dflat y
  | Dthresh k xs => DNode F_thresh (1 + nlen xs) :: DThreshK k :: flat_map dflat xs
  | Dmulti k ks => DNode F_multi (1 + nlen ks) :: DThreshK k :: map DKey ks
  | Dsortedmulti k ks => DNode F_sortedmulti (1 + nlen ks) :: DThreshK k :: map DKey ks
  | Dmulti_a k ks => DNode F_multi_a (1 + nlen ks) :: DThreshK k :: map DKey ks
  | Dsortedmulti_a k ks => DNode F_sortedmulti_a (1 + nlen ks) :: DThreshK k :: map DKey ks
  end%N.

Lemma is_true_eq m : is_true m = true -> m = MTrue.
Proof. destruct m; cbn; intro H; try discriminate; reflexivity. Qed.
Lemma is_false_eq m : is_false m = true -> m = MFalse.
Proof. destruct m; cbn; intro H; try discriminate; reflexivity. Qed.

Lemma denorm_norm m : denorm (norm m) = m.
Proof.
  induction m using ms_ind'; cbn; try congruence.
  - (* check *) destruct m; cbn in *; congruence.
  - destruct (is_true m2) eqn:E; cbn; [apply is_true_eq in E; subst|]; congruence.
  - destruct (is_false m3) eqn:E; cbn; [apply is_false_eq in E; subst|]; congruence.
  - destruct (is_false m1) eqn:E1; destruct (is_false m2) eqn:E2; cbn;
      try (apply is_false_eq in E1); try (apply is_false_eq in E2); subst; cbn in *; congruence.
  - f_equal. induction H as [|x r Hx Hr IH]; cbn; congruence.
Qed.

Lemma norm_inj a b : norm a = norm b -> a = b.
Proof. intro H. rewrite <- (denorm_norm a), <- (denorm_norm b), H. reflexivity. Qed.

Lemma dnodes_thresh k xs :
  dnodes (MThresh k xs) = DNode F_thresh (1 + nlen xs) :: DThreshK k :: flat_map dnodes xs.
Proof. reflexivity. Qed.

Lemma dnodes_norm m : dnodes m = dflat (norm m).
Proof.
  induction m using ms_ind'; try reflexivity; try (cbn; congruence).
  - (* check *) destruct m; cbn in *; try reflexivity; congruence.
  - cbn. destruct (is_true m2); cbn; congruence.
  - cbn. destruct (is_false m3); cbn; congruence.
  - cbn. destruct (is_false m1); destruct (is_false m2); cbn; congruence.
  - rewrite dnodes_thresh. cbn [norm dflat]. unfold nlen. rewrite map_length. do 2 f_equal.
    induction H as [|x r Hx Hr IH]; cbn; congruence.
Qed.

Lemma dnodes_head m : exists n t, dnodes m = DNode (frag_name m) n :: t.
Proof.
  destruct m; try (eexists; eexists; reflexivity).
  - cbn. destruct (is_true m2); eexists; eexists; reflexivity.
  - cbn. destruct (is_false m3); eexists; eexists; reflexivity.
  - cbn. destruct (is_false m1); destruct (is_false m2); eexists; eexists; reflexivity.
Qed.

(* the display pre-order (with the number of children of each Node) is a prefix code *)
Lemma dflat_app_inj : forall a b r1 r2, dflat a ++ r1 = dflat b ++ r2 -> a = b /\ r1 = r2.
Proof.
  induction a using dms_ind'; intros b r1 r2 HH; destruct b; cbn in HH; try discriminate HH.
  all: try (injection HH; intros; subst; split; reflexivity).
  all: try (injection HH as HH; apply IHa in HH; destruct HH; subst; split; reflexivity).
  all: try (injection HH as HH; rewrite <- !app_assoc in HH; apply IHa1 in HH; destruct HH as [-> HH];
            apply IHa2 in HH; destruct HH; subst; split; reflexivity).
  - injection HH as HH. rewrite <- !app_assoc in HH. apply IHa1 in HH. destruct HH as [-> HH].
    apply IHa2 in HH. destruct HH as [-> HH]. apply IHa3 in HH. destruct HH; subst; split; reflexivity.
  - assert (Hn : (1 + nlen xs = 1 + nlen xs0)%N) by (injection HH; auto).
    assert (Hk : k = k0) by (injection HH; auto).
    assert (HH' : flat_map dflat xs ++ r1 = flat_map dflat xs0 ++ r2) by (injection HH; auto).
    clear HH. subst k0. apply N.add_cancel_l in Hn. apply nlen_inj in Hn.
    assert (G : xs = xs0 /\ r1 = r2).
    { revert xs0 Hn HH'. induction H as [|x r Hx Hr IHr]; intros [|y s] Hn HH; cbn in Hn; try discriminate.
      - cbn in HH. split; [reflexivity | exact HH].
      - cbn in HH. rewrite <- !app_assoc in HH. apply Hx in HH. destruct HH as [-> HH].
        injection Hn as Hn. destruct (IHr s Hn HH) as [-> ->]. split; reflexivity. }
    destruct G as [-> ->]. split; reflexivity.
  - assert (Hn : (1 + nlen ks = 1 + nlen ks0)%N) by (injection HH; auto).
    assert (Hk : k = k0) by (injection HH; auto).
    assert (HH' : map DKey ks ++ r1 = map DKey ks0 ++ r2) by (injection HH; auto).
    clear HH. subst k0. apply N.add_cancel_l in Hn. apply nlen_inj in Hn.
    assert (G : ks = ks0 /\ r1 = r2).
    { revert ks0 Hn HH'. induction ks as [|x r IH]; intros [|y s] Hn HH; cbn in Hn; try discriminate.
      - split; [reflexivity | exact HH].
      - cbn in HH. injection HH as -> HH. injection Hn as Hn. destruct (IH s Hn HH) as [-> ->]. split; reflexivity. }
    destruct G as [-> ->]. split; reflexivity.
  - assert (Hn : (1 + nlen ks = 1 + nlen ks0)%N) by (injection HH; auto).
    assert (Hk : k = k0) by (injection HH; auto).
    assert (HH' : map DKey ks ++ r1 = map DKey ks0 ++ r2) by (injection HH; auto).
    clear HH. subst k0. apply N.add_cancel_l in Hn. apply nlen_inj in Hn.
    assert (G : ks = ks0 /\ r1 = r2).
    { revert ks0 Hn HH'. induction ks as [|x r IH]; intros [|y s] Hn HH; cbn in Hn; try discriminate.
      - split; [reflexivity | exact HH].
      - cbn in HH. injection HH as -> HH. injection Hn as Hn. destruct (IH s Hn HH) as [-> ->]. split; reflexivity. }
    destruct G as [-> ->]. split; reflexivity.
  - assert (Hn : (1 + nlen ks = 1 + nlen ks0)%N) by (injection HH; auto).
    assert (Hk : k = k0) by (injection HH; auto).
    assert (HH' : map DKey ks ++ r1 = map DKey ks0 ++ r2) by (injection HH; auto).
    clear HH. subst k0. apply N.add_cancel_l in Hn. apply nlen_inj in Hn.
    assert (G : ks = ks0 /\ r1 = r2).
    { revert ks0 Hn HH'. induction ks as [|x r IH]; intros [|y s] Hn HH; cbn in Hn; try discriminate.
      - split; [reflexivity | exact HH].
      - cbn in HH. injection HH as -> HH. injection Hn as Hn. destruct (IH s Hn HH) as [-> ->]. split; reflexivity. }
    destruct G as [-> ->]. split; reflexivity.
  - assert (Hn : (1 + nlen ks = 1 + nlen ks0)%N) by (injection HH; auto).
    assert (Hk : k = k0) by (injection HH; auto).
    assert (HH' : map DKey ks ++ r1 = map DKey ks0 ++ r2) by (injection HH; auto).
    clear HH. subst k0. apply N.add_cancel_l in Hn. apply nlen_inj in Hn.
    assert (G : ks = ks0 /\ r1 = r2).
    { revert ks0 Hn HH'. induction ks as [|x r IH]; intros [|y s] Hn HH; cbn in Hn; try discriminate.
      - split; [reflexivity | exact HH].
      - cbn in HH. injection HH as -> HH. injection Hn as Hn. destruct (IH s Hn HH) as [-> ->]. split; reflexivity. }
    destruct G as [-> ->]. split; reflexivity.
Qed.

Theorem dnodes_inj a b : dnodes a = dnodes b -> a = b.
Proof.
  rewrite !dnodes_norm. intro H. apply norm_inj. apply (dflat_app_inj _ _ [] []). rewrite !app_nil_r. exact H.
Qed.

Section CmpSpec.
  Variable kcmp : key -> key -> comparison.
  Hypothesis to_key : total_order kcmp.

  Lemma closedk_repeat0 xs ks r :
    Forall (fun d => forall ks r, closedk ks r -> closedk (0%N :: ks) (dflat d ++ r)) xs ->
    closedk ks r -> closedk (repeat 0%N (length xs) ++ ks) (flat_map dflat xs ++ r).
  Proof.
    intros H Hr. induction H as [|x l Hx Hl IH]; cbn; [exact Hr|].
    rewrite <- app_assoc. apply Hx. exact IH.
  Qed.

  Lemma closedk_keys (l : list key) ks r :
    closedk ks r -> closedk (repeat 2%N (length l) ++ ks) (map DKey l ++ r).
  Proof. intro Hr. induction l as [|x l IH]; cbn; [exact Hr | split; [reflexivity | exact IH]]. Qed.

  Lemma nary_len {A} (l : list A) : N.to_nat (1 + nlen l) - 1 = length l.
  Proof. unfold nlen. lia. Qed.

  Lemma dflat_closed : forall d kk rr, closedk kk rr -> closedk (0%N :: kk) (dflat d ++ rr).
  Proof.
    induction d using dms_ind'; intros kk rr Hr; cbn [dflat app closedk dnode_kind child_kinds];
      (split; [reflexivity|]); cbn [app]; rewrite <- ?app_assoc;
      try (split; [reflexivity | exact Hr]); eauto.
    - rewrite nary_len. cbn. split; [reflexivity|]. apply closedk_repeat0; assumption.
    - rewrite nary_len. cbn. split; [reflexivity|]. apply closedk_keys; assumption.
    - rewrite nary_len. cbn. split; [reflexivity|]. apply closedk_keys; assumption.
    - rewrite nary_len. cbn. split; [reflexivity|]. apply closedk_keys; assumption.
    - rewrite nary_len. cbn. split; [reflexivity|]. apply closedk_keys; assumption.
  Qed.

  Lemma dnodes_closed m : closedk [0%N] (dnodes m).
  Proof. rewrite dnodes_norm, <- (app_nil_r (dflat (norm m))). apply dflat_closed. reflexivity. Qed.

  (* the comparison never panics, never truncates, and is the specification order *)
  Theorem cmp_iter_spec a b : cmp_iter kcmp a b = Ok (spec_cmp kcmp a b).
  Proof.
    unfold cmp_iter, spec_cmp. rewrite (zip_cmp_lex kcmp to_key _ _ [0%N] (dnodes_closed a) (dnodes_closed b)).
    destruct (dnodes_head a) as [na [ta Ea]], (dnodes_head b) as [nb [tb Eb]]. rewrite Ea, Eb. cbn.
    unfold dnode_cmp_total. cbn. destruct (fname_cmp (frag_name a) (frag_name b)); reflexivity.
  Qed.

  Theorem spec_cmp_eq a b : spec_cmp kcmp a b = Eq <-> a = b.
  Proof.
    unfold spec_cmp. rewrite (to_eq _ (to_lex kcmp to_key)). split; [apply dnodes_inj | congruence].
  Qed.

  Theorem spec_cmp_antisym a b : spec_cmp kcmp b a = CompOpp (spec_cmp kcmp a b).
  Proof. apply (to_antisym _ (to_lex kcmp to_key)). Qed.

  Theorem spec_cmp_trans a b c : spec_cmp kcmp a b = Lt -> spec_cmp kcmp b c = Lt -> spec_cmp kcmp a c = Lt.
  Proof. apply (to_trans _ (to_lex kcmp to_key)). Qed.

  (* cmp_total_order: a total order whose Equal is structural equality (and ==) *)
  Theorem cmp_total_order :
    (forall a b, exists c, cmp_iter kcmp a b = Ok c) /\
    (forall a b, cmp_iter kcmp a b = Ok Eq <-> a = b) /\
    (forall a b c, cmp_iter kcmp a b = Ok c -> cmp_iter kcmp b a = Ok (CompOpp c)) /\
    (forall a b c, cmp_iter kcmp a b = Ok Lt -> cmp_iter kcmp b c = Ok Lt -> cmp_iter kcmp a c = Ok Lt).
  Proof.
    repeat split.
    - intros a b. eexists. apply cmp_iter_spec.
    - rewrite cmp_iter_spec. intro H. injection H as H. apply spec_cmp_eq. exact H.
    - intros ->. rewrite cmp_iter_spec. f_equal. apply spec_cmp_eq. reflexivity.
    - intros a b c. rewrite !cmp_iter_spec. intro H. injection H as <-. f_equal. apply spec_cmp_antisym.
    - intros a b c. rewrite !cmp_iter_spec. intros H1 H2. injection H1 as H1. injection H2 as H2.
      f_equal. apply (spec_cmp_trans a b c H1 H2).
  Qed.

  Theorem cmp_eq_iff_eq a b : cmp_iter kcmp a b = Ok Eq <-> eq_iter a b = true.
  Proof. rewrite eq_structural. apply cmp_total_order. Qed.

  (* consequences in the vocabulary of Ord *)
  Theorem cmp_iter_refl a : cmp_iter kcmp a a = Ok Eq.
  Proof. destruct cmp_total_order as [_ [H _]]. apply H. reflexivity. Qed.
End CmpSpec.

Local Open Scope N_scope.

(* the pairs on which the code before 32d9f676 panicked / answered Equal *)
Example cmp_regression_witnesses :
  cmp_iter N.compare (MOrB (MMulti 1 [0; 1]) (w_spk 2)) (MOrB (MMulti 1 [0; 1; 2]) (w_spk 0)) = Ok Lt /\
  cmp_iter N.compare (MMulti 1 [0; 1]) (MMulti 1 [0; 1; 2]) = Ok Lt /\
  cmp_iter N.compare (MThresh 1 [w_pk 0; w_spk 1]) (MThresh 2 [w_pk 0; w_spk 1]) = Ok Lt.
Proof. vm_compute. repeat split. Qed.

(* non-vacuity: the key order used in the runs is a total order *)
Example key_order_example : total_order N.compare.
Proof. exact to_N. Qed.
