(* C08: the lock-partition lemma and the correctness of [equivb] / [sem_signedb]
   (worlds only matter up to which atoms they satisfy and which lock constants they meet). *)
From Coq Require Import List Bool NArith ZArith Lia.
From Verif Require Import PolicyVal PolicyValProofs.
Import ListNotations.
Local Open Scope N_scope.

(* ------------------------------------------------------------------ eval depends on atoms only *)
Lemma evals_ext W1 W2 p :
  (forall k, In k (keys_s p) -> w_key W1 k = w_key W2 k) ->
  (forall hk h, In (hk, h) (hashes_s p) -> w_pre W1 hk h = w_pre W2 hk h) ->
  (forall t, In t (abs_s p) -> abs_met W1 t = abs_met W2 t) ->
  (forall t, In t (rel_s p) -> rel_met W1 t = rel_met W2 t) ->
  evals W1 p = evals W2 p.
Proof.
  induction p using spolicy_ind'; cbn [evals keys_s hashes_s abs_s rel_s]; intros HK HH HA HO;
    try reflexivity; try (now (apply HK || apply HH || apply HA || apply HO); left).
  do 2 f_equal. apply map_ext_in. intros x Hx.
  rewrite Forall_forall in H. apply (H x Hx); intros.
  - apply HK. apply in_flat_map. eauto.
  - apply HH. apply in_flat_map. eauto.
  - apply HA. apply in_flat_map. eauto.
  - apply HO. apply in_flat_map. eauto.
Qed.

(* ------------------------------------------------------------------ sub-lists *)
Lemma sublists_filter {A} (f : A -> bool) l : In (filter f l) (sublists l).
Proof.
  induction l as [|x r IH]; simpl; [left; reflexivity|].
  apply in_or_app. destruct (f x); [left; apply in_map; exact IH | right; exact IH].
Qed.

Lemma memb_filter_key (f : key -> bool) k ks : In k ks -> memb N.eqb k (filter f ks) = f k.
Proof.
  intro Hin. destruct (f k) eqn:E.
  - apply (memb_In N.eqb N.eqb_eq). apply filter_In. auto.
  - destruct (memb N.eqb k (filter f ks)) eqn:M; [|reflexivity].
    apply (memb_In N.eqb N.eqb_eq) in M. apply filter_In in M. destruct M; congruence.
Qed.

Lemma memb_filter_hash (f : vhash * bytes -> bool) a hs : In a hs -> memb hatom_eqb a (filter f hs) = f a.
Proof.
  intro Hin. destruct (f a) eqn:E.
  - apply (memb_In hatom_eqb hatom_eqb_spec). apply filter_In. auto.
  - destruct (memb hatom_eqb a (filter f hs)) eqn:M; [|reflexivity].
    apply (memb_In hatom_eqb hatom_eqb_spec) in M. apply filter_In in M. destruct M; congruence.
Qed.

(* ------------------------------------------------------------------ lock partition: nLockTime *)
Definition same_unit (a b : N) : bool := Bool.eqb (N.ltb a LOCK_THRESHOLD) (N.ltb b LOCK_THRESHOLD).

Definition lock_rep (abs : list N) (l : N) : N :=
  fold_right (fun t acc => if same_unit t l && N.leb t l && N.ltb acc t then t else acc)
             (if N.ltb l LOCK_THRESHOLD then 0 else LOCK_THRESHOLD) abs.

Lemma lock_rep_spec abs l :
  In (lock_rep abs l) (lock_reps abs)
  /\ same_unit (lock_rep abs l) l = true
  /\ lock_rep abs l <= l
  /\ (forall t, In t abs -> same_unit t l = true -> t <= l -> t <= lock_rep abs l).
Proof.
  induction abs as [|t r IH].
  - unfold lock_rep, lock_reps, same_unit; cbn [fold_right].
    destruct (N.ltb_spec l LOCK_THRESHOLD) as [L|L].
    + split; [|split; [|split]]; [left; reflexivity | reflexivity | lia | intros ? []].
    + split; [|split; [|split]]; [right; left; reflexivity | reflexivity | exact L | intros ? []].
  - destruct IH as (I1 & I2 & I3 & I4). unfold lock_rep; cbn [fold_right]. fold (lock_rep r l).
    destruct (same_unit t l && (t <=? l) && (lock_rep r l <? t)) eqn:E.
    + apply andb_true_iff in E as [E E3]. apply andb_true_iff in E as [E1 E2].
      apply N.leb_le in E2. apply N.ltb_lt in E3.
      split; [|split; [|split]]; [right; right; left; reflexivity | exact E1 | exact E2 |].
      intros t' [<-|Hin] Hu Hle; [lia|]. specialize (I4 t' Hin Hu Hle). lia.
    + split; [|split; [|split]]; [| exact I2 | exact I3 |].
      * unfold lock_reps in *. cbn [In] in *. tauto.
      * intros t' [<-|Hin] Hu Hle; [|apply I4; assumption].
        rewrite Hu in E. apply N.leb_le in Hle. rewrite Hle in E. cbn [andb] in E. apply N.ltb_ge in E. exact E.
Qed.

Lemma after_ok_rep abs l t : In t abs -> after_ok (Some (lock_rep abs l)) t = after_ok (Some l) t.
Proof.
  intro Hin. destruct (lock_rep_spec abs l) as (_ & H2 & H3 & H4). specialize (H4 t Hin).
  unfold after_ok. change 500000000 with LOCK_THRESHOLD. unfold same_unit in *. apply eqb_prop in H2. rewrite H2.
  destruct (Bool.eqb (t <? LOCK_THRESHOLD) (l <? LOCK_THRESHOLD)) eqn:E; [|reflexivity]. cbn [andb].
  destruct (N.leb_spec t l) as [L|L].
  - apply N.leb_le. apply H4; [reflexivity | exact L].
  - apply N.leb_gt. lia.
Qed.

(* ------------------------------------------------------------------ lock partition: nSequence *)
Definition sfl (s : N) : N := N.land s SEQ_TYPE.
Definition sval (s : N) : N := N.land s SEQ_MASK.

Lemma sfl_cases s : sfl s = 0 \/ sfl s = SEQ_TYPE.
Proof.
  unfold sfl. change SEQ_TYPE with (2 ^ 22). destruct (N.testbit s 22) eqn:E.
  - right. apply N.bits_inj. intro i. rewrite N.land_spec, N.pow2_bits_eqb.
    destruct (N.eqb_spec 22 i) as [<-|]; [rewrite E; reflexivity | apply andb_false_r].
  - left. apply N.bits_inj. intro i. rewrite N.land_spec, N.pow2_bits_eqb, N.bits_0.
    destruct (N.eqb_spec 22 i) as [<-|]; [rewrite E; reflexivity | apply andb_false_r].
Qed.

Lemma keep_dis t : N.land (N.land t SEQ_KEEP) SEQ_DISABLE = 0.
Proof. rewrite <- N.land_assoc. change (N.land SEQ_KEEP SEQ_DISABLE) with 0. apply N.land_0_r. Qed.
Lemma keep_fl t : sfl (N.land t SEQ_KEEP) = sfl t.
Proof. unfold sfl. rewrite <- N.land_assoc. reflexivity. Qed.
Lemma keep_val t : sval (N.land t SEQ_KEEP) = sval t.
Proof. unfold sval. rewrite <- N.land_assoc. reflexivity. Qed.
Lemma fl_dis s : N.land (sfl s) SEQ_DISABLE = 0.
Proof. unfold sfl. rewrite <- N.land_assoc. change (N.land SEQ_TYPE SEQ_DISABLE) with 0. apply N.land_0_r. Qed.
Lemma fl_fl s : sfl (sfl s) = sfl s.
Proof. unfold sfl. rewrite <- N.land_assoc. reflexivity. Qed.
Lemma fl_val s : sval (sfl s) = 0.
Proof. unfold sval, sfl. rewrite <- N.land_assoc. change (N.land SEQ_TYPE SEQ_MASK) with 0. apply N.land_0_r. Qed.

Definition seq_fold (rel : list N) (s : N) : N :=
  fold_right (fun t acc => if N.eqb (sfl t) (sfl s) && N.leb (sval t) (sval s) && N.ltb (sval acc) (sval t)
                           then N.land t SEQ_KEEP else acc) (sfl s) rel.
Definition seq_rep (rel : list N) (s : N) : N :=
  if N.eqb (N.land s SEQ_DISABLE) 0 then seq_fold rel s else SEQ_DISABLE.

Lemma seq_fold_spec rel s :
  In (seq_fold rel s) (sfl s :: map (fun t => N.land t SEQ_KEEP) rel)
  /\ N.land (seq_fold rel s) SEQ_DISABLE = 0
  /\ sfl (seq_fold rel s) = sfl s
  /\ sval (seq_fold rel s) <= sval s
  /\ (forall t, In t rel -> sfl t = sfl s -> sval t <= sval s -> sval t <= sval (seq_fold rel s)).
Proof.
  induction rel as [|t r IH].
  - unfold seq_fold; cbn [fold_right map]. split; [|split; [|split; [|split]]].
    + left; reflexivity.
    + apply fl_dis.
    + apply fl_fl.
    + rewrite fl_val. lia.
    + intros ? [].
  - destruct IH as (I1 & I2 & I3 & I4 & I5). unfold seq_fold; cbn [fold_right]. fold (seq_fold r s).
    destruct ((sfl t =? sfl s) && (sval t <=? sval s) && (sval (seq_fold r s) <? sval t)) eqn:E.
    + apply andb_true_iff in E as [E E3]. apply andb_true_iff in E as [E1 E2].
      apply N.eqb_eq in E1. apply N.leb_le in E2. apply N.ltb_lt in E3.
      split; [|split; [|split; [|split]]].
      * right. left. reflexivity.
      * apply keep_dis.
      * rewrite keep_fl. exact E1.
      * rewrite keep_val. exact E2.
      * rewrite keep_val. intros t' [<-|Hin] Hf Hv; [lia|]. specialize (I5 t' Hin Hf Hv). lia.
    + split; [|split; [|split; [|split]]]; [| exact I2 | exact I3 | exact I4 |].
      * cbn [map]. destruct I1 as [I1|I1]; [left; exact I1 | right; right; exact I1].
      * intros t' [<-|Hin] Hf Hv; [|apply I5; assumption].
        apply N.eqb_eq in Hf. rewrite Hf in E. apply N.leb_le in Hv. rewrite Hv in E. cbn [andb] in E.
        apply N.ltb_ge in E. exact E.
Qed.

Lemma seq_rep_in rel s : In (seq_rep rel s) (seq_reps rel).
Proof.
  unfold seq_rep, seq_reps. destruct (N.land s SEQ_DISABLE =? 0); [|left; reflexivity].
  destruct (seq_fold_spec rel s) as ([H|H] & _).
  - rewrite <- H. destruct (sfl_cases s) as [E|E]; rewrite E; cbn [In]; auto.
  - right. right. right. exact H.
Qed.

Lemma older_ok_rep rel s t : In t rel -> older_ok (Some (seq_rep rel s)) t = older_ok (Some s) t.
Proof.
  intro Hin. unfold seq_rep, older_ok.
  change 2147483648 with SEQ_DISABLE. change 4194304 with SEQ_TYPE. change 65535 with SEQ_MASK.
  destruct (N.land s SEQ_DISABLE =? 0) eqn:D.
  - destruct (seq_fold_spec rel s) as (_ & H2 & H3 & H4 & H5). specialize (H5 t Hin).
    rewrite H2. fold (sfl (seq_fold rel s)) (sfl s) (sfl t) (sval t) (sval (seq_fold rel s)) (sval s). rewrite H3.
    cbn [N.eqb andb].
    destruct (sfl t =? sfl s) eqn:F; [|reflexivity]. cbn [andb]. apply N.eqb_eq in F.
    destruct (N.leb_spec (sval t) (sval s)) as [L|L].
    + apply N.leb_le. apply H5; assumption.
    + apply N.leb_gt. lia.
  - reflexivity.
Qed.

(* ------------------------------------------------------------------ the canonical world *)
Definition canon (ks : list key) (hs : list (vhash * bytes)) (abs rel : list N) (W : world) : fworld :=
  mkF (filter (w_key W) ks) (filter (fun a => w_pre W (fst a) (snd a)) hs)
      (lock_rep abs (w_lock W)) (seq_rep rel (w_seq W)).

Lemma canon_in ks hs abs rel W : In (canon ks hs abs rel W) (fworlds ks hs abs rel).
Proof.
  unfold fworlds, canon. apply in_flat_map. exists (filter (w_key W) ks). split; [apply sublists_filter|].
  apply in_flat_map. exists (filter (fun a => w_pre W (fst a) (snd a)) hs). split; [apply sublists_filter|].
  apply in_flat_map. exists (lock_rep abs (w_lock W)). split; [apply lock_rep_spec|].
  apply in_map_iff. exists (seq_rep rel (w_seq W)). split; [reflexivity | apply seq_rep_in].
Qed.

(* lock_partition: the canonical world of the finite set evaluates p as W does *)
Lemma canon_agree ks hs abs rel W p :
  (forall k, In k (keys_s p) -> In k ks \/ (ks = [] /\ w_key W k = false)) ->
  incl (hashes_s p) hs -> incl (abs_s p) abs -> incl (rel_s p) rel ->
  evals (world_of (canon ks hs abs rel W)) p = evals W p.
Proof.
  intros HK HH HA HO. apply evals_ext; unfold world_of, canon; cbn [w_key w_pre w_lock w_seq fw_keys fw_hashes fw_lock fw_seq].
  - intros k Hk. destruct (HK k Hk) as [Hin|[-> Hf]].
    + apply memb_filter_key. exact Hin.
    + rewrite Hf. reflexivity.
  - intros hk h Hh. apply (memb_filter_hash (fun a => w_pre W (fst a) (snd a)) (hk, h)). apply HH. exact Hh.
  - intros t Ht. unfold abs_met; cbn [w_lock]. apply after_ok_rep. apply HA. exact Ht.
  - intros t Ht. unfold rel_met; cbn [w_seq]. apply older_ok_rep. apply HO. exact Ht.
Qed.

Theorem lock_partition p q W :
  exists f, In f (worlds_of p q)
            /\ evals (world_of f) p = evals W p /\ evals (world_of f) q = evals W q.
Proof.
  set (ks := dedup N.eqb (keys_s p ++ keys_s q)). set (hs := dedup hatom_eqb (hashes_s p ++ hashes_s q)).
  set (ab := dedup N.eqb (abs_s p ++ abs_s q)). set (rl := dedup N.eqb (rel_s p ++ rel_s q)).
  exists (canon ks hs ab rl W). split; [apply canon_in|]. split; apply canon_agree.
  - intros k Hk. left. apply (dedup_In N.eqb N.eqb_eq). apply in_or_app. auto.
  - intros x Hx. apply (dedup_In hatom_eqb hatom_eqb_spec). apply in_or_app. auto.
  - intros x Hx. apply (dedup_In N.eqb N.eqb_eq). apply in_or_app. auto.
  - intros x Hx. apply (dedup_In N.eqb N.eqb_eq). apply in_or_app. auto.
  - intros k Hk. left. apply (dedup_In N.eqb N.eqb_eq). apply in_or_app. auto.
  - intros x Hx. apply (dedup_In hatom_eqb hatom_eqb_spec). apply in_or_app. auto.
  - intros x Hx. apply (dedup_In N.eqb N.eqb_eq). apply in_or_app. auto.
  - intros x Hx. apply (dedup_In N.eqb N.eqb_eq). apply in_or_app. auto.
Qed.

(* ------------------------------------------------------------------ equivb decides equivalence *)
Theorem equivb_ok p q : equivb p q = true <-> forall W, evals W p = evals W q.
Proof.
  unfold equivb. rewrite forallb_forall. split.
  - intros H W. destruct (lock_partition p q W) as (f & Hin & Hp & Hq).
    specialize (H f Hin). unfold agree_on in H. apply eqb_prop in H. congruence.
  - intros H f _. unfold agree_on. rewrite (H (world_of f)). apply eqb_reflx.
Qed.

Lemma find_diff_sound p q f : find_diff p q = Some f -> evals (world_of f) p <> evals (world_of f) q.
Proof.
  unfold find_diff. intro H. apply find_some in H as [_ H]. unfold agree_on in H.
  intro E. rewrite E, eqb_reflx in H. discriminate.
Qed.

Lemma find_diff_complete p q : find_diff p q = None -> equivb p q = true.
Proof.
  unfold find_diff, equivb. intro H. apply forallb_forall. intros f Hf.
  pose proof (find_none _ _ H f Hf) as Hn. apply negb_false_iff in Hn. exact Hn.
Qed.

(* ------------------------------------------------------------------ semantic signedness *)
Lemma countb_map_mono {A} (f g : A -> bool) l :
  (forall x, In x l -> f x = true -> g x = true) -> countb (map f l) <= countb (map g l).
Proof.
  induction l as [|x r IH]; intro H; cbn [map countb]; [lia|].
  assert (Hr : countb (map f r) <= countb (map g r)) by (apply IH; intros; apply H; [right|]; assumption).
  pose proof (H x (or_introl eq_refl)) as Hx.
  destruct (f x), (g x); try lia; specialize (Hx eq_refl); discriminate.
Qed.

(* truth tables are monotone in the keys and the preimages *)
Lemma evals_mono W1 W2 p :
  (forall k, In k (keys_s p) -> w_key W1 k = true -> w_key W2 k = true) ->
  (forall hk h, In (hk, h) (hashes_s p) -> w_pre W1 hk h = true -> w_pre W2 hk h = true) ->
  (forall t, In t (abs_s p) -> abs_met W1 t = abs_met W2 t) ->
  (forall t, In t (rel_s p) -> rel_met W1 t = rel_met W2 t) ->
  evals W1 p = true -> evals W2 p = true.
Proof.
  induction p using spolicy_ind'; cbn [evals keys_s hashes_s abs_s rel_s]; intros HK HH HA HO He;
    try exact He; try discriminate.
  - apply HK; [left; reflexivity | exact He].
  - rewrite <- HA; [exact He | left; reflexivity].
  - rewrite <- HO; [exact He | left; reflexivity].
  - apply HH; [left; reflexivity | exact He].
  - apply N.leb_le in He. apply N.leb_le.
    assert (countb (map (evals W1) l) <= countb (map (evals W2) l)); [|lia].
    apply countb_map_mono. intros x Hx Hx1. rewrite Forall_forall in H. apply (H x Hx); auto; intros.
    + apply HK; [apply in_flat_map; eauto | assumption].
    + apply HH; [apply in_flat_map; eauto | assumption].
    + apply HA. apply in_flat_map. eauto.
    + apply HO. apply in_flat_map. eauto.
Qed.

Lemma sigless_nokeys p f : In f (sigless_worlds p) -> fw_keys f = [] /\ fw_hashes f = hashes_s p.
Proof.
  unfold sigless_worlds. intro H. apply in_flat_map in H as (l & _ & H).
  apply in_map_iff in H as (s & <- & _). split; reflexivity.
Qed.

Theorem sem_signedb_ok p :
  sem_signedb p = true <->
  forall W, evals W p = true -> exists k, In k (keys_s p) /\ w_key W k = true.
Proof.
  unfold sem_signedb. rewrite forallb_forall. split.
  - intros H W HW.
    destruct (existsb (w_key W) (keys_s p)) eqn:E.
    + apply existsb_exists in E. exact E.
    + exfalso.
      set (ab := dedup N.eqb (abs_s p)). set (rl := dedup N.eqb (rel_s p)).
      set (f := mkF [] (hashes_s p) (lock_rep ab (w_lock W)) (seq_rep rl (w_seq W))).
      assert (Hin : In f (sigless_worlds p)).
      { unfold sigless_worlds. apply in_flat_map. exists (lock_rep ab (w_lock W)). split; [apply lock_rep_spec|].
        apply in_map_iff. exists (seq_rep rl (w_seq W)). split; [reflexivity | apply seq_rep_in]. }
      specialize (H f Hin). apply negb_true_iff in H.
      assert (evals (world_of f) p = true); [|congruence].
      apply (evals_mono W); [| | | | exact HW].
      * intros k Hk Hs. assert (existsb (w_key W) (keys_s p) = true) by (apply existsb_exists; eauto). congruence.
      * intros hk h Hh _. unfold world_of, f; cbn [w_pre fw_hashes].
        apply (memb_In hatom_eqb hatom_eqb_spec). exact Hh.
      * intros t Ht. unfold abs_met, world_of, f; cbn [w_lock fw_lock]. symmetry. apply after_ok_rep.
        apply (dedup_In N.eqb N.eqb_eq). exact Ht.
      * intros t Ht. unfold rel_met, world_of, f; cbn [w_seq fw_seq]. symmetry. apply older_ok_rep.
        apply (dedup_In N.eqb N.eqb_eq). exact Ht.
  - intros H f Hf. apply sigless_nokeys in Hf as [Hf _].
    destruct (evals (world_of f) p) eqn:E; [|reflexivity].
    destruct (H _ E) as (k & _ & Hk). unfold world_of in Hk; cbn [w_key] in Hk. rewrite Hf in Hk. discriminate.
Qed.

Lemma find_sigless_sound p f :
  find_sigless p = Some f -> evals (world_of f) p = true /\ forall k, w_key (world_of f) k = false.
Proof.
  unfold find_sigless. intro H. apply find_some in H as [Hin H]. split; [exact H|].
  intro k. apply sigless_nokeys in Hin as [Hin _]. unfold world_of; cbn [w_key]. rewrite Hin. reflexivity.
Qed.
