(* C11 — iter/tree.rs PostOrderIter (the one with child indices and parent stack positions):
   never reaches `nth_child(..).unwrap()` on None nor `self.stack[idx]` out of range, needs no
   more fuel than provided, and yields exactly n = size items. *)
From Coq Require Import List NArith Bool Lia Arith.
From Verif Require Import RobustModel RobustProofs RobustTreeProofs.
Import ListNotations.

Arguments N.of_nat : simpl never. Arguments N.to_nat : simpl never.

(* parents sit strictly below their children in the stack *)
Definition pinv (st : list pitem) : Prop :=
  forall p it q, nth_error st p = Some it -> pi_parent it = Some q -> N.to_nat q < p.

Fixpoint mu (st : list pitem) : nat :=
  match st with [] => 0 | it :: r => (if pi_processed it then 1 else 2 * rsize (pi_elem it)) + mu r end.
Fixpoint nu (st : list pitem) : nat :=
  match st with [] => 0 | it :: r => (if pi_processed it then 1 else rsize (pi_elem it)) + nu r end.

Lemma mu_app : forall a b, mu (a ++ b) = mu a + mu b.
Proof. induction a as [|x r IH]; intros; cbn [app mu]; [reflexivity|rewrite IH; lia]. Qed.
Lemma nu_app : forall a b, nu (a ++ b) = nu a + nu b.
Proof. induction a as [|x r IH]; intros; cbn [app nu]; [reflexivity|rewrite IH; lia]. Qed.

Lemma mu_bound : forall st, mu st <= length st + 2 * rsize_forest (map pi_elem st).
Proof. induction st as [|x r IH]; cbn [mu length map rsize_forest]; [lia|]. destruct (pi_processed x); lia. Qed.

Lemma rsize_forest_rev : forall l, rsize_forest (rev l) = rsize_forest l.
Proof. induction l as [|c r IH]; cbn [rev rsize_forest]; [reflexivity|]. rewrite rsize_forest_app, IH. cbn [rsize_forest]. lia. Qed.

(* ---- pushing the children ---- *)
Definition fresh (cur : N) (c : rtree) : pitem := mkPItem c false [] (Some cur).

Lemma push_children_rev_ok : forall idxs stack cur pe,
  (forall i, In i idxs -> N.to_nat i < length (rchildren pe)) ->
  exists cs, push_children_rev stack cur pe idxs = ROk (stack ++ map (fresh cur) cs) /\
             map Some cs = map (nth_child pe) idxs.
Proof.
  induction idxs as [|i r IH]; intros stack cur pe H.
  - exists []. cbn [push_children_rev map]. now rewrite app_nil_r.
  - cbn [push_children_rev]. unfold nth_child at 1.
    destruct (nth_error (rchildren pe) (N.to_nat i)) as [c|] eqn:E.
    + destruct (IH (stack ++ [fresh cur c]) cur pe) as (cs & H1 & H2); [intros; apply H; now right|].
      exists (c :: cs). unfold fresh at 1 in H1. rewrite H1. split.
      * now rewrite <- app_assoc.
      * cbn [map]. unfold nth_child at 1. now rewrite E, H2.
    + exfalso. apply nth_error_None in E. specialize (H i (or_introl eq_refl)). lia.
Qed.

Lemma nseq_spec : forall len st i, In i (nseq st len) -> (st <= i /\ i < st + N.of_nat len)%N.
Proof. induction len as [|l IH]; intros st i H; cbn [nseq] in H; [contradiction|]. destruct H as [<-|H]; [lia|]. apply IH in H. lia. Qed.

Lemma nth_children_nseq : forall (l : list rtree) (st : nat) pe, rchildren pe = l ->
  forall k, k <= length l -> map (nth_child pe) (nseq (N.of_nat (length l - k)) k) = map Some (skipn (length l - k) l).
Proof.
  intros l st pe Hl. induction k as [|k IH]; intros Hk.
  - cbn [nseq map]. rewrite Nat.sub_0_r, skipn_all. reflexivity.
  - cbn [nseq map]. unfold nth_child at 1. rewrite Hl, Nat2N.id.
    assert (Hlt : length l - S k < length l) by lia.
    destruct (nth_error l (length l - S k)) as [c|] eqn:E; [|apply nth_error_None in E; lia].
    replace (N.of_nat (length l - S k) + 1)%N with (N.of_nat (length l - k)) by lia.
    rewrite IH by lia. clear IH.
    assert (Hs : skipn (length l - S k) l = c :: skipn (length l - k) l).
    { replace (length l - k) with (S (length l - S k)) by lia.
      clear - E. revert E. generalize (length l - S k). intros n. revert l. induction n as [|n IH]; intros l E; destruct l as [|x r]; cbn in *; try discriminate.
      - now inversion E.
      - now apply IH. }
    rewrite Hs. reflexivity.
Qed.

Lemma children_pushed_sizes : forall pe cs,
  map Some cs = map (nth_child pe) (rev (nseq 0 (length (rchildren pe)))) ->
  rsize_forest cs = rsize_forest (rchildren pe).
Proof.
  intros pe cs H. pose proof (nth_children_nseq (rchildren pe) 0 pe eq_refl (length (rchildren pe)) (Nat.le_refl _)) as Hn.
  rewrite Nat.sub_diag in Hn. cbn [skipn N.of_nat] in Hn. change (N.of_nat 0) with 0%N in Hn.
  rewrite map_rev, Hn, <- map_rev in H.
  assert (cs = rev (rchildren pe)).
  { clear - H. revert H. generalize (rev (rchildren pe)). induction cs as [|c r IH]; intros [|d l] H; cbn in H; try discriminate; [reflexivity|].
    inversion H; subst. f_equal. now apply IH. }
  subst cs. apply rsize_forest_rev.
Qed.

Lemma mu_fresh : forall cur cs, mu (map (fresh cur) cs) = 2 * rsize_forest cs.
Proof. induction cs as [|c r IH]; cbn [map mu rsize_forest fresh pi_processed pi_elem]; [reflexivity|]. rewrite IH. lia. Qed.
Lemma nu_fresh : forall cur cs, nu (map (fresh cur) cs) = rsize_forest cs.
Proof. induction cs as [|c r IH]; cbn [map nu rsize_forest fresh pi_processed pi_elem]; [reflexivity|]. rewrite IH. lia. Qed.

(* ---- push_child_index keeps everything but the child list ---- *)
Lemma push_child_index_some : forall st idx v, idx < length st ->
  exists st', push_child_index st idx v = Some st' /\ length st' = length st /\
    (forall p it', nth_error st' p = Some it' -> exists it, nth_error st p = Some it /\
        pi_parent it' = pi_parent it /\ pi_processed it' = pi_processed it /\ pi_elem it' = pi_elem it).
Proof.
  induction st as [|x r IH]; intros idx v H; [cbn in H; lia|].
  destruct idx as [|i]; cbn [push_child_index].
  - eexists; split; [reflexivity|]. split; [reflexivity|]. intros [|p] it' Hn; cbn in Hn.
    + inversion Hn; subst. exists x. cbn. auto.
    + exists it'. cbn. auto.
  - destruct (IH i v) as (st' & -> & Hl & Hp); [cbn in H; lia|]. cbn [option_map].
    eexists; split; [reflexivity|]. split; [cbn; lia|]. intros [|p] it' Hn; cbn in Hn.
    + inversion Hn; subst. exists it'. cbn. auto.
    + apply Hp in Hn. exact Hn.
Qed.

Lemma nu_same : forall st st', length st' = length st ->
  (forall p it', nth_error st' p = Some it' -> exists it, nth_error st p = Some it /\
      pi_parent it' = pi_parent it /\ pi_processed it' = pi_processed it /\ pi_elem it' = pi_elem it) ->
  nu st' = nu st.
Proof.
  induction st as [|x r IH]; intros [|y s] Hl Hp; cbn in Hl; try discriminate; [reflexivity|].
  cbn [nu]. destruct (Hp 0 y eq_refl) as (it & Hi & _ & H2 & H3). cbn in Hi. inversion Hi; subst it.
  rewrite H2, H3. f_equal. apply IH; [lia|]. intros p it' Hn. apply (Hp (S p) it' Hn).
Qed.

Lemma pinv_same : forall st st', pinv st -> length st' = length st ->
  (forall p it', nth_error st' p = Some it' -> exists it, nth_error st p = Some it /\
      pi_parent it' = pi_parent it /\ pi_processed it' = pi_processed it /\ pi_elem it' = pi_elem it) ->
  pinv st'.
Proof.
  intros st st' Hi Hl Hp p it' q Hn Hq. destruct (Hp p it' Hn) as (it & H1 & H2 & _). rewrite H2 in Hq. eapply Hi; eauto.
Qed.

Lemma pinv_app_l : forall a b, pinv (a ++ b) -> pinv a.
Proof. intros a b H p it q Hn Hq. eapply H; eauto. rewrite nth_error_app1; [exact Hn|]. apply nth_error_Some. congruence. Qed.

(* ---- one call of next() ---- *)
Lemma post_next_ok : forall fuel index stack, pinv stack -> mu stack < fuel ->
  (stack = [] /\ post_next fuel index stack = ROk None) \/
  (exists y st', post_next fuel index stack = ROk (Some (y, (index + 1)%N, st')) /\ pinv st' /\ S (nu st') = nu stack).
Proof.
  induction fuel as [|f IH]; intros index stack Hinv Hmu; [lia|].
  cbn [post_next]. destruct (rev stack) as [|cur rest_rev] eqn:Er.
  - left. split; [|reflexivity]. apply (f_equal (@rev _)) in Er. now rewrite rev_involutive in Er.
  - right. assert (Hs : stack = rev rest_rev ++ [cur]).
    { apply (f_equal (@rev _)) in Er. rewrite rev_involutive in Er. exact Er. }
    set (rest := rev rest_rev) in *. clearbody rest. clear Er rest_rev. subst stack.
    destruct (pi_processed cur) eqn:Ep; cbn [negb].
    + (* second visit: yield *)
      assert (Hrest : pinv rest) by (eapply pinv_app_l; exact Hinv).
      destruct (pi_parent cur) as [q|] eqn:Eq.
      * assert (Hq : N.to_nat q < length rest).
        { eapply (Hinv (length rest) cur q); [|exact Eq]. rewrite nth_error_app2 by lia. now rewrite Nat.sub_diag. }
        destruct (push_child_index_some rest (N.to_nat q) index Hq) as (st' & -> & Hl & Hp). cbn [rbind].
        do 2 eexists. split; [reflexivity|]. split; [eapply pinv_same; eauto|].
        rewrite (nu_same rest st' Hl Hp), nu_app. cbn [nu]. rewrite Ep. lia.
      * cbn [rbind]. do 2 eexists. split; [reflexivity|]. split; [exact Hrest|].
        rewrite nu_app. cbn [nu]. rewrite Ep. lia.
    + (* first visit: mark, push the children, go on *)
      set (cur' := mkPItem (pi_elem cur) true (pi_children cur) (pi_parent cur)).
      assert (Hidx : index_partial (rest ++ [cur']) (nlen rest) = ROk cur').
      { unfold index_partial, nlen. rewrite Nat2N.id, nth_error_app2 by lia. now rewrite Nat.sub_diag. }
      rewrite Hidx. cbn [rbind]. subst cur'. cbn [pi_elem].
      destruct (push_children_rev_ok (rev (nseq 0 (length (rchildren (pi_elem cur))))) (rest ++ [mkPItem (pi_elem cur) true (pi_children cur) (pi_parent cur)]) (nlen rest) (pi_elem cur))
        as (cs & Hpush & Hcs).
      { intros i Hi. apply in_rev in Hi. apply nseq_spec in Hi. lia. }
      rewrite Hpush. cbn [rbind].
      pose proof (children_pushed_sizes _ _ Hcs) as Hsz.
      assert (Hsize : rsize (pi_elem cur) = S (rsize_forest (rchildren (pi_elem cur)))).
      { destruct (pi_elem cur) as [x cs0]. now rewrite rsize_node. }
      set (st2 := (rest ++ [mkPItem (pi_elem cur) true (pi_children cur) (pi_parent cur)]) ++ map (fresh (nlen rest)) cs).
      assert (Hmu2 : mu st2 < f).
      { unfold st2. rewrite !mu_app, mu_fresh in *. cbn [mu pi_processed pi_elem] in *. rewrite Ep in Hmu. lia. }
      assert (Hnu2 : nu st2 = nu (rest ++ [cur])).
      { unfold st2. rewrite !nu_app, nu_fresh. cbn [nu pi_processed pi_elem]. rewrite Ep. lia. }
      assert (Hinv2 : pinv st2).
      { intros p it q Hn Hq. unfold st2 in Hn.
        destruct (Nat.lt_ge_cases p (length (rest ++ [mkPItem (pi_elem cur) true (pi_children cur) (pi_parent cur)]))) as [Hlt|Hge].
        - rewrite nth_error_app1 in Hn by exact Hlt.
          destruct (Nat.lt_ge_cases p (length rest)) as [Hl2|Hg2].
          + rewrite nth_error_app1 in Hn by exact Hl2. eapply (Hinv p it q); [|exact Hq]. now rewrite nth_error_app1.
          + rewrite app_length in Hlt. cbn [length] in Hlt. assert (p = length rest) by lia. subst p.
            rewrite nth_error_app2, Nat.sub_diag in Hn by lia. cbn in Hn. inversion Hn; subst it. cbn [pi_parent] in Hq.
            eapply (Hinv (length rest) cur q); [|exact Hq]. rewrite nth_error_app2, Nat.sub_diag by lia. reflexivity.
        - rewrite nth_error_app2 in Hn by exact Hge.
          apply nth_error_In in Hn. apply in_map_iff in Hn. destruct Hn as (c & <- & _). cbn [fresh pi_parent] in Hq. inversion Hq; subst q.
          unfold nlen. rewrite Nat2N.id. rewrite app_length in Hge. cbn [length] in Hge. lia. }
      destruct (IH index st2 Hinv2 Hmu2) as [[He _]|(y & st' & Hn & Hi' & Hnu')].
      * exfalso. unfold st2 in He. destruct rest; cbn in He; discriminate.
      * fold st2. rewrite Hn. do 2 eexists. split; [reflexivity|]. split; [exact Hi'|]. lia.
Qed.

Lemma nu_pos : forall st, st <> [] -> 1 <= nu st.
Proof. intros [|x r] H; [congruence|]. cbn [nu]. destruct (pi_processed x); [lia|]. pose proof (rsize_pos (pi_elem x)). lia. Qed.

Lemma post_run_ok : forall fuel index stack, pinv stack -> nu stack < fuel ->
  exists ys, post_run fuel index stack = ROk ys /\ length ys = nu stack.
Proof.
  induction fuel as [|f IH]; intros index stack Hinv Hnu; [lia|].
  cbn [post_run].
  destruct (post_next_ok (S (S (length stack) + 2 * rsize_forest (map pi_elem stack))) index stack Hinv) as [[-> Hn]|(y & st' & Hn & Hi' & Hnu')].
  - pose proof (mu_bound stack). lia.
  - rewrite Hn. cbn [rbind]. exists []. split; reflexivity.
  - rewrite Hn. cbn [rbind].
    destruct (IH (index + 1)%N st' Hi') as (ys & Hr & Hl); [lia|].
    rewrite Hr. cbn [rbind]. exists (y :: ys). split; [reflexivity|]. cbn [length]. lia.
Qed.

Theorem post_order_iter_total : forall t : rtree,
  exists ys, post_order t = ROk ys /\ length ys = rsize t.
Proof.
  intros t. unfold post_order.
  destruct (post_run_ok (S (rsize t)) 0%N [mkPItem t false [] None]) as (ys & H1 & H2).
  - intros [|p] it q Hn Hq; cbn in Hn; [inversion Hn; subst; discriminate|destruct p; discriminate].
  - cbn [nu pi_processed pi_elem]. lia.
  - exists ys. split; [exact H1|]. rewrite H2. cbn [nu pi_processed pi_elem]. lia.
Qed.
