(* Theorem A: every entry of the specification's (dis)satisfaction table, executed by the
   Script semantics on the encoded fragment, leaves exactly what the fragment's base type
   promises (for every stack below it and every alt stack).  For well-typed fragments. *)
From Verif Require Import Exec Ser Ast Types TypeCheck SatSpec ExecLemmas Spec TypesSpec ScriptNumProofs.
From Coq Require Import Lia.

(* ---------- induction principle for the nested AST ---------- *)
Section MsInd.
  Variable P : ms -> Prop.
  Hypothesis HTrue : P MTrue. Hypothesis HFalse : P MFalse.
  Hypothesis HPkK : forall k, P (MPkK k). Hypothesis HPkH : forall k, P (MPkH k).
  Hypothesis HRaw : forall h, P (MRawPkH h).
  Hypothesis HAfter : forall t, P (MAfter t). Hypothesis HOlder : forall t, P (MOlder t).
  Hypothesis HSha : forall h, P (MSha256 h). Hypothesis HH256 : forall h, P (MHash256 h).
  Hypothesis HRip : forall h, P (MRipemd160 h). Hypothesis HH160 : forall h, P (MHash160 h).
  Hypothesis HAlt : forall x, P x -> P (MAlt x). Hypothesis HSwap : forall x, P x -> P (MSwap x).
  Hypothesis HCheck : forall x, P x -> P (MCheck x). Hypothesis HDupIf : forall x, P x -> P (MDupIf x).
  Hypothesis HVerify : forall x, P x -> P (MVerify x). Hypothesis HNonZero : forall x, P x -> P (MNonZero x).
  Hypothesis HZne : forall x, P x -> P (MZeroNotEqual x).
  Hypothesis HAndV : forall x y, P x -> P y -> P (MAndV x y).
  Hypothesis HAndB : forall x y, P x -> P y -> P (MAndB x y).
  Hypothesis HAndOr : forall a b c, P a -> P b -> P c -> P (MAndOr a b c).
  Hypothesis HOrB : forall x y, P x -> P y -> P (MOrB x y).
  Hypothesis HOrD : forall x y, P x -> P y -> P (MOrD x y).
  Hypothesis HOrC : forall x y, P x -> P y -> P (MOrC x y).
  Hypothesis HOrI : forall x y, P x -> P y -> P (MOrI x y).
  Hypothesis HThresh : forall k xs, Forall P xs -> P (MThresh k xs).
  Hypothesis HMulti : forall k ks, P (MMulti k ks). Hypothesis HSMulti : forall k ks, P (MSortedMulti k ks).
  Hypothesis HMultiA : forall k ks, P (MMultiA k ks). Hypothesis HSMultiA : forall k ks, P (MSortedMultiA k ks).
  Fixpoint ms_ind' (m : ms) : P m :=
    match m with
    | MTrue => HTrue | MFalse => HFalse | MPkK k => HPkK k | MPkH k => HPkH k | MRawPkH h => HRaw h
    | MAfter t => HAfter t | MOlder t => HOlder t
    | MSha256 h => HSha h | MHash256 h => HH256 h | MRipemd160 h => HRip h | MHash160 h => HH160 h
    | MAlt x => HAlt x (ms_ind' x) | MSwap x => HSwap x (ms_ind' x) | MCheck x => HCheck x (ms_ind' x)
    | MDupIf x => HDupIf x (ms_ind' x) | MVerify x => HVerify x (ms_ind' x)
    | MNonZero x => HNonZero x (ms_ind' x) | MZeroNotEqual x => HZne x (ms_ind' x)
    | MAndV x y => HAndV x y (ms_ind' x) (ms_ind' y) | MAndB x y => HAndB x y (ms_ind' x) (ms_ind' y)
    | MAndOr a b c => HAndOr a b c (ms_ind' a) (ms_ind' b) (ms_ind' c)
    | MOrB x y => HOrB x y (ms_ind' x) (ms_ind' y) | MOrD x y => HOrD x y (ms_ind' x) (ms_ind' y)
    | MOrC x y => HOrC x y (ms_ind' x) (ms_ind' y) | MOrI x y => HOrI x y (ms_ind' x) (ms_ind' y)
    | MThresh k xs =>
      HThresh k xs ((fix go (l : list ms) : Forall P l :=
                       match l with [] => Forall_nil P | x :: r => Forall_cons x (ms_ind' x) (go r) end) xs)
    | MMulti k ks => HMulti k ks | MSortedMulti k ks => HSMulti k ks
    | MMultiA k ks => HMultiA k ks | MSortedMultiA k ks => HSMultiA k ks
    end.
End MsInd.

Lemma in_cross (l1 l2 : list wit) w :
  In w (cross l1 l2) <-> exists a b, In a l1 /\ In b l2 /\ w = a ++ b.
Proof.
  unfold cross. rewrite in_flat_map. split.
  - intros [a [Ha Hw]]. apply in_map_iff in Hw. destruct Hw as [b [Hb Hb']]. exists a, b. auto.
  - intros [a [b [Ha [Hb ->]]]]. exists a. split; [exact Ha|]. apply in_map_iff. exists b. auto.
Qed.

Section TheoremA.
  Variable e : env.
  Variable ke : keyenv.
  Variable A : assets.

  (* script numbers round-trip through their minimal encoding (proved in ScriptNumProofs.v) *)
  Hypothesis Hnum4 : forall z, (0 <= z < 2147483648)%Z -> num_operand 4 (num_encode z) = Some z.
  Hypothesis Hnum5 : forall z, (0 <= z < 2147483648)%Z -> num_operand 5 (num_encode z) = Some z.
  Hypothesis Htruthy : forall z, (0 < z < 2147483648)%Z -> truthy (num_encode z) = true.
  Hypothesis Htruthy_num : forall v z, num_operand 4 v = Some z -> truthy v = negb (z =? 0)%Z.

  (* the caller's assets are genuine with respect to the transaction and hash functions *)
  Record assets_ok : Prop := {
    ok_sig : forall k s, a_sig A k = Some s -> e_sigok e (kb ke k) s = true /\ (0 < blen s < 2147483648)%N;
    ok_key : forall k, e_keyok e (kb ke k) = true;
    ok_keylen : forall k, (0 < blen (kb ke k) < 2147483648)%N;
    ok_kh : forall k, e_hash160 e (kb ke k) = kh ke k;
    ok_sha256 : forall h p, a_sha256 A h = Some p -> e_sha256 e p = h /\ blen p = 32%N;
    ok_hash256 : forall h p, a_hash256 A h = Some p -> e_hash256 e p = h /\ blen p = 32%N;
    ok_ripemd160 : forall h p, a_ripemd160 A h = Some p -> e_ripemd160 e p = h /\ blen p = 32%N;
    ok_hash160 : forall h p, a_hash160 A h = Some p -> e_hash160 e p = h /\ blen p = 32%N;
    ok_after : forall t, a_after A t = true -> check_locktime e (Z.of_N t) = true;
    ok_older : forall t, a_older A t = true -> check_sequence e (Z.of_N t) = true
  }.
  Hypothesis HA : assets_ok.

  Definition tap : bool := match e_sv e with SvTapscript => true | _ => false end.

  (* structural well-formedness the constructors guarantee (Threshold::new, AbsLockTime,
     RelLockTime, context rules), plus: no hash image equals the hash of 32 zero bytes *)
  Fixpoint wf (m : ms) : Prop :=
    match m with
    | MTrue | MFalse | MPkK _ | MPkH _ | MRawPkH _ => True
    | MAfter t | MOlder t => (0 < t < 2147483648)%N
    | MSha256 h => e_sha256 e zeros32 <> h
    | MHash256 h => e_hash256 e zeros32 <> h
    | MRipemd160 h => e_ripemd160 e zeros32 <> h
    | MHash160 h => e_hash160 e zeros32 <> h
    | MAlt x | MSwap x | MCheck x | MDupIf x | MVerify x | MNonZero x | MZeroNotEqual x => wf x
    | MAndV x y | MAndB x y | MOrB x y | MOrD x y | MOrC x y | MOrI x y => wf x /\ wf y
    | MAndOr a b c => wf a /\ wf b /\ wf c
    | MThresh k xs =>
      (1 <= k <= N.of_nat (length xs))%N /\ (length xs < 1000)%nat /\
      (fix go (l : list ms) : Prop := match l with [] => True | x :: r => wf x /\ go r end) xs
    | MMulti k ks | MSortedMulti k ks =>
      (1 <= k <= N.of_nat (length ks))%N /\ (length ks <= 20)%nat /\ tap = false
      /\ length (ksort ke ks) = length ks
    | MMultiA k ks | MSortedMultiA k ks =>
      (1 <= k <= N.of_nat (length ks))%N /\ (length ks < 1000)%nat /\ tap = true
      /\ length (ksort ke ks) = length ks
    end.

  Notation sat m := (all_sat ke A m).
  Notation dsat m := (all_dsat ke A m).
  Notation run m st := (exec e (enc ke m) st).

  Definition goodval (u : bool) (v : bytes) : Prop :=
    truthy v = true /\ numeric4 v /\ (u = true -> v = [1%N]).

  Definition goodB (m : ms) (u : bool) : Prop :=
    (forall w rest al, In w (sat m) ->
       exists v, run m (mkSt (w ++ rest) al) = Ok (mkSt (v :: rest) al) /\ goodval u v) /\
    (forall w rest al, In w (dsat m) -> run m (mkSt (w ++ rest) al) = Ok (mkSt ([] :: rest) al)).
  Definition goodV (m : ms) : Prop :=
    forall w rest al, In w (sat m) -> run m (mkSt (w ++ rest) al) = Ok (mkSt rest al).
  Definition goodK (m : ms) : Prop :=
    (forall w rest al, In w (sat m) ->
       exists kbs s, run m (mkSt (w ++ rest) al) = Ok (mkSt (kbs :: s :: rest) al)
                     /\ e_keyok e kbs = true /\ e_sigok e kbs s = true /\ s <> []) /\
    (forall w rest al, In w (dsat m) ->
       exists kbs, run m (mkSt (w ++ rest) al) = Ok (mkSt (kbs :: [] :: rest) al) /\ e_keyok e kbs = true).
  Definition wres (v c : bytes) (rest al : stack) (r : result state) : Prop :=
    r = Ok (mkSt (v :: c :: rest) al) \/ r = Ok (mkSt (c :: v :: rest) al).
  Definition goodW (m : ms) (u : bool) : Prop :=
    (forall w c rest al, In w (sat m) ->
       exists v, wres v c rest al (run m (mkSt (c :: w ++ rest) al)) /\ goodval u v) /\
    (forall w c rest al, In w (dsat m) -> wres [] c rest al (run m (mkSt (c :: w ++ rest) al))).

  Definition good (m : ms) (t : ty) : Prop :=
    match c_base (t_corr t) with
    | BB => goodB m (c_unit (t_corr t))
    | BV => goodV m
    | BK => goodK m
    | BW => goodW m (c_unit (t_corr t))
    end.

  Lemma goodval_one u : goodval u [1%N].
  Proof. repeat split. exists 1%Z. reflexivity. Qed.

  (* ---------- leaves ---------- *)
  Lemma good_true : good MTrue t_true.
  Proof.
    split; cbn; intros w rest al H; [|contradiction].
    destruct H as [<-|[]]. exists [1%N]. split; [reflexivity | apply goodval_one].
  Qed.
  Lemma good_false : good MFalse t_false.
  Proof.
    split; cbn; intros w rest al H; [contradiction|]. destruct H as [<-|[]]. reflexivity.
  Qed.

  Lemma good_pk_k k : good (MPkK k) t_pk_k.
  Proof.
    split; cbn; intros w rest al H.
    - unfold opt_list in H. destruct (a_sig A k) as [s|] eqn:Es; cbn in H; [|contradiction].
      destruct H as [<-|[]]. destruct (ok_sig HA k s Es) as [H1 H2].
      exists (kb ke k), s. repeat split; auto; [apply (ok_key HA) | intros ->; cbn in H2; lia].
    - destruct H as [<-|[]]. exists (kb ke k). split; [reflexivity | apply (ok_key HA)].
  Qed.

  Lemma bytes_eqb_refl b : bytes_eqb b b = true.
  Proof. induction b as [|x r IH]; [reflexivity|]. cbn. rewrite N.eqb_refl, IH. reflexivity. Qed.
  Lemma bytes_eqb_eq a b : bytes_eqb a b = true -> a = b.
  Proof.
    revert b. induction a as [|x r IH]; intros [|y s]; cbn; try discriminate; [reflexivity|].
    intros H. apply andb_prop in H. destruct H as [H1 H2]. apply N.eqb_eq in H1. f_equal; auto.
  Qed.
  Lemma bytes_eqb_neq a b : a <> b -> bytes_eqb a b = false.
  Proof. intros H. destruct (bytes_eqb a b) eqn:E; [|reflexivity]. apply bytes_eqb_eq in E. contradiction. Qed.

  Lemma good_pk_h k : good (MPkH k) t_pk_h.
  Proof.
    split; cbn; intros w rest al H.
    - unfold opt_list in H. destruct (a_sig A k) as [s|] eqn:Es; cbn in H; [|contradiction].
      destruct H as [<-|[]]. destruct (ok_sig HA k s Es) as [H1 H2].
      exists (kb ke k), s. cbn. rewrite (ok_kh HA), bytes_eqb_refl.
      repeat split; auto; [apply (ok_key HA) | intros ->; cbn in H2; lia].
    - destruct H as [<-|[]]. exists (kb ke k). cbn. rewrite (ok_kh HA), bytes_eqb_refl.
      split; [reflexivity | apply (ok_key HA)].
  Qed.

  Lemma exec_push_int z st :
    exec_instr e (push_int z) st = Ok (mkSt (num_encode z :: stk st) (alt st)).
  Proof.
    unfold push_int. destruct (z =? 0)%Z eqn:E0.
    - apply Z.eqb_eq in E0. subst. reflexivity.
    - destruct ((z =? -1)%Z || ((1 <=? z)%Z && (z <=? 16)%Z)); reflexivity.
  Qed.

  Lemma good_after t : wf (MAfter t) -> good (MAfter t) t_time.
  Proof.
    intros Hwf. cbn in Hwf. split; cbn [all_sat all_dsat sd fst snd]; intros w rest al H; [|contradiction].
    destruct (a_after A t) eqn:Ea; [|contradiction]. destruct H as [<-|[]].
    exists (num_encode (Z.of_N t)). cbn [enc app].
    rewrite exec_cons, exec_push_int. cbn [bind stk alt exec exec_instr exec_op].
    rewrite Hnum5 by lia. rewrite (ok_after HA t Ea). cbn [bind]. split; [reflexivity|].
    split; [apply Htruthy; lia|]. split; [exists (Z.of_N t); apply Hnum4; lia | discriminate].
  Qed.
  Lemma good_older t : wf (MOlder t) -> good (MOlder t) t_time.
  Proof.
    intros Hwf. cbn in Hwf. split; cbn [all_sat all_dsat sd fst snd]; intros w rest al H; [|contradiction].
    destruct (a_older A t) eqn:Ea; [|contradiction]. destruct H as [<-|[]].
    exists (num_encode (Z.of_N t)). cbn [enc app].
    rewrite exec_cons, exec_push_int. cbn [bind stk alt exec exec_instr exec_op].
    rewrite Hnum5 by lia. rewrite (ok_older HA t Ea). cbn [bind]. split; [reflexivity|].
    split; [apply Htruthy; lia|]. split; [exists (Z.of_N t); apply Hnum4; lia | discriminate].
  Qed.

  Lemma blen_zeros32 : blen zeros32 = 32%N. Proof. reflexivity. Qed.

  Lemma good_hash_generic (o : opcode) (hf : bytes -> bytes) (look : bytes -> option bytes) (h : bytes) :
    (forall v r al, exec_op e o (mkSt (v :: r) al) = Ok (mkSt (hf v :: r) al)) ->
    (forall p, look h = Some p -> hf p = h /\ blen p = 32%N) ->
    hf zeros32 <> h ->
    (forall w rest al, In w (fst (hash_sd look h)) ->
       exists v, exec e (hash_frag o h) (mkSt (w ++ rest) al) = Ok (mkSt (v :: rest) al) /\ goodval true v) /\
    (forall w rest al, In w (snd (hash_sd look h)) ->
       exec e (hash_frag o h) (mkSt (w ++ rest) al) = Ok (mkSt ([] :: rest) al)).
  Proof.
    intros Hop Hlook Hz. unfold hash_sd, hash_frag. split; cbn [fst snd]; intros w rest al H.
    - unfold opt_list in H. destruct (look h) as [p|] eqn:El; cbn in H; [|contradiction].
      destruct H as [<-|[]]. destruct (Hlook p eq_refl) as [H1 H2].
      exists [1%N]. split; [|apply goodval_one].
      cbn [app]. rewrite exec_op_cons. cbn [exec_op stk alt bind]. rewrite H2.
      rewrite exec_cons, exec_push_int. cbn [bind stk alt].
      rewrite exec_op_cons. cbn [exec_op stk alt]. rewrite bytes_eqb_refl. cbn [bind].
      rewrite exec_op_cons, Hop. cbn [bind]. rewrite exec_push, exec_op_cons. cbn [exec_op stk alt].
      rewrite H1, bytes_eqb_refl. reflexivity.
    - destruct H as [<-|[]]. cbn [app]. rewrite exec_op_cons. cbn [exec_op stk alt bind]. rewrite blen_zeros32.
      rewrite exec_cons, exec_push_int. cbn [bind stk alt].
      rewrite exec_op_cons. cbn [exec_op stk alt]. rewrite bytes_eqb_refl. cbn [bind].
      rewrite exec_op_cons, Hop. cbn [bind]. rewrite exec_push, exec_op_cons. cbn [exec_op stk alt].
      rewrite (bytes_eqb_neq h (hf zeros32)) by (intros E; apply Hz; symmetry; exact E). reflexivity.
  Qed.

  Lemma good_sha256 h : wf (MSha256 h) -> good (MSha256 h) t_hash.
  Proof. intros Hwf. apply (good_hash_generic OP_SHA256 (e_sha256 e) (a_sha256 A) h); auto.
    apply (ok_sha256 HA). Qed.
  Lemma good_hash256 h : wf (MHash256 h) -> good (MHash256 h) t_hash.
  Proof. intros Hwf. apply (good_hash_generic OP_HASH256 (e_hash256 e) (a_hash256 A) h); auto.
    apply (ok_hash256 HA). Qed.
  Lemma good_ripemd160 h : wf (MRipemd160 h) -> good (MRipemd160 h) t_hash.
  Proof. intros Hwf. apply (good_hash_generic OP_RIPEMD160 (e_ripemd160 e) (a_ripemd160 A) h); auto.
    apply (ok_ripemd160 HA). Qed.
  Lemma good_hash160 h : wf (MHash160 h) -> good (MHash160 h) t_hash.
  Proof. intros Hwf. apply (good_hash_generic OP_HASH160 (e_hash160 e) (a_hash160 A) h); auto.
    apply (ok_hash160 HA). Qed.

  (* ---------- wrappers ---------- *)
  Lemma if_cond_one : if_cond e [1%N] = Some true.
  Proof. unfold if_cond. destruct (minimalif (e_sv e)); reflexivity. Qed.
  Lemma if_cond_empty : if_cond e [] = Some false.
  Proof. unfold if_cond. destruct (minimalif (e_sv e)); reflexivity. Qed.

  Lemma A_alt x u : goodB x u -> goodW (MAlt x) u.
  Proof.
    intros [Hs Hd]. split; intros w c rest al Hin; change (In w (sat x)) in Hin || change (In w (dsat x)) in Hin.
    - destruct (Hs w rest (c :: al) Hin) as [v [Hr Hv]]. exists v. split; [|exact Hv]. right.
      cbn [enc]. rewrite exec_app. cbn [exec exec_instr exec_op stk alt bind].
      rewrite exec_app, Hr. reflexivity.
    - pose proof (Hd w rest (c :: al) Hin) as Hr. right.
      cbn [enc]. rewrite exec_app. cbn [exec exec_instr exec_op stk alt bind].
      rewrite exec_app, Hr. reflexivity.
  Qed.

  Lemma A_swap x u : goodB x u ->
    (forall w, In w (sat x) -> length w = 1%nat) -> (forall w, In w (dsat x) -> length w = 1%nat) ->
    goodW (MSwap x) u.
  Proof.
    intros [Hs Hd] L1 L2. split; intros w c rest al Hin; change (In w (sat x)) in Hin || change (In w (dsat x)) in Hin.
    - destruct (Hs w (c :: rest) al Hin) as [v [Hr Hv]]. exists v. split; [|exact Hv]. left.
      pose proof (L1 w Hin) as HL. destruct w as [|a [|b r]]; try discriminate.
      cbn [enc app] in *. rewrite exec_op_cons. cbn [exec_op stk alt bind]. exact Hr.
    - pose proof (Hd w (c :: rest) al Hin) as Hr. left.
      pose proof (L2 w Hin) as HL. destruct w as [|a [|b r]]; try discriminate.
      cbn [enc app] in *. rewrite exec_op_cons. cbn [exec_op stk alt bind]. exact Hr.
  Qed.

  Lemma A_check x : goodK x -> goodB (MCheck x) true.
  Proof.
    intros [Hs Hd]. split; intros w rest al Hin; change (In w (sat x)) in Hin || change (In w (dsat x)) in Hin.
    - destruct (Hs w rest al Hin) as [kbs [sg [Hr [Hk [Hok Hne]]]]]. exists [1%N]. split; [|apply goodval_one].
      cbn [enc]. rewrite exec_app, Hr. cbn [bind exec exec_instr exec_op stk alt]. rewrite Hk. cbn [negb].
      destruct sg as [|b0 sg']; [congruence|]. rewrite Hok. reflexivity.
    - destruct (Hd w rest al Hin) as [kbs [Hr Hk]].
      cbn [enc]. rewrite exec_app, Hr. cbn [bind exec exec_instr exec_op stk alt]. rewrite Hk. reflexivity.
  Qed.

  Lemma A_dupif x : goodV x -> (forall w, In w (sat x) -> w = []) -> goodB (MDupIf x) false.
  Proof.
    intros Hv Hz. split; intros w rest al Hin; cbn [all_sat all_dsat sd fst snd] in Hin.
    - apply in_map_iff in Hin. destruct Hin as [wx [<- Hwx]]. pose proof (Hz wx Hwx) as ->.
      exists [1%N]. split; [|apply goodval_one].
      cbn [enc app]. rewrite exec_op_cons. cbn [exec_op stk alt bind].
      rewrite exec_cons, exec_if. cbn [stk alt]. rewrite if_cond_one. cbn [xorb].
      pose proof (Hv [] ([1%N] :: rest) al Hwx) as Hr. cbn [app] in Hr. erewrite bind_ok by exact Hr. reflexivity.
    - destruct Hin as [<-|[]]. cbn [enc app]. rewrite exec_op_cons. cbn [exec_op stk alt bind].
      rewrite exec_cons, exec_if. cbn [stk alt]. rewrite if_cond_empty. reflexivity.
  Qed.

  (* Builder::push_verify: folding X;VERIFY into the *VERIFY opcode does not change meaning *)
  Lemma verify_form_sound o o' st : verify_form o = Some o' ->
    exec_op e o' st = bind (exec_op e o st) (exec_op e OP_VERIFY).
  Proof.
    destruct st as [s a]. destruct o; cbn [verify_form]; intros H; inversion H; subst; clear H.
    - (* EQUAL *) cbn [exec_op stk alt]. destruct s as [|x [|y r]]; try reflexivity.
      destruct (bytes_eqb x y); reflexivity.
    - (* NUMEQUAL *) cbn [exec_op stk alt]. destruct s as [|x [|y r]]; try reflexivity.
      destruct (num_operand 4 x), (num_operand 4 y); try reflexivity. destruct (_ =? _)%Z; reflexivity.
    - (* CHECKSIG *) cbn [exec_op stk alt]. destruct s as [|k [|sg r]]; try reflexivity.
      destruct (e_keyok e k); cbn [negb]; [|reflexivity].
      destruct sg; [reflexivity|]. destruct (e_sigok e k _); reflexivity.
    - (* CHECKMULTISIG *) cbn [exec_op stk alt]. destruct (e_sv e); try reflexivity;
      (destruct s as [|nb r1]; [reflexivity|]; destruct (num_operand 4 nb) as [n|]; [|reflexivity];
       destruct ((n <? 0)%Z || (20 <? n)%Z); [reflexivity|];
       destruct (take_n (Z.to_nat n) r1) as [[kr r2]|]; [|reflexivity];
       destruct r2 as [|mb r3]; [reflexivity|]; destruct (num_operand 4 mb) as [mm|]; [|reflexivity];
       destruct ((mm <? 0)%Z || (n <? mm)%Z); [reflexivity|];
       destruct (take_n (Z.to_nat mm) r3) as [[sr r4]|]; [|reflexivity];
       destruct r4 as [|dm r5]; [reflexivity|]; destruct dm; [|reflexivity];
       destruct (forallb (e_keyok e) kr); cbn [negb]; [|reflexivity];
       destruct (multisig_match e kr sr); [reflexivity|];
       match goal with |- context [forallb ?f sr] => destruct (forallb f sr) end; reflexivity).
  Qed.

  Lemma push_verify_exec s st :
    exec e (push_verify s) st = bind (exec e s st) (exec_op e OP_VERIFY).
  Proof.
    revert st. induction s as [|i r IH]; intros st.
    - cbn [push_verify exec exec_instr bind]. apply bind_ret.
    - destruct r as [|j r'].
      + assert (Hgen : exec e [i; IOp OP_VERIFY] st = bind (exec e [i] st) (exec_op e OP_VERIFY)).
        { cbn [exec]. destruct (exec_instr e i st) as [s1|]; cbn [bind exec_instr]; [|reflexivity]. apply bind_ret. }
        destruct i as [b|n|o|neg t el]; cbn [push_verify]; try exact Hgen.
        destruct (verify_form o) as [o'|] eqn:Ev; [|exact Hgen].
        cbn [exec exec_instr]. rewrite (verify_form_sound o o' st Ev), !bind_ret.
        destruct (exec_op e o st); reflexivity.
      + assert (Hpv : push_verify (i :: j :: r') = i :: push_verify (j :: r')) by (destruct i; reflexivity).
        rewrite Hpv, !exec_cons. destruct (exec_instr e i st) as [st'|]; cbn [bind]; [apply IH | reflexivity].
  Qed.

  Lemma A_verify x u : goodB x u -> goodV (MVerify x).
  Proof.
    intros [Hs _] w rest al Hin. change (In w (sat x)) in Hin.
    destruct (Hs w rest al Hin) as [v [Hr [Ht _]]].
    cbn [enc]. rewrite push_verify_exec, Hr. cbn [bind exec_op stk alt]. rewrite Ht. reflexivity.
  Qed.

  Definition nz (a : bytes) : Prop := (0 < blen a < 2147483648)%N.

  Lemma A_nonzero x u : goodB x u ->
    (forall w, In w (sat x) -> exists a r, w = a :: r /\ nz a) -> goodB (MNonZero x) u.
  Proof.
    intros [Hs _] Hn. split; intros w rest al Hin; cbn [all_sat all_dsat sd fst snd] in Hin.
    - change (In w (sat x)) in Hin. destruct (Hn w Hin) as [a [r [-> Ha]]].
      destruct (Hs (a :: r) rest al Hin) as [v [Hr Hv]]. exists v. split; [|exact Hv].
      cbn [enc app]. rewrite exec_op_cons. cbn [exec_op stk alt bind].
      rewrite exec_op_cons. cbn [exec_op stk alt]. unfold nz in Ha.
      rewrite Hnum4 by lia. cbn [bind].
      replace (Z.of_N (blen a) =? 0)%Z with false by (symmetry; apply Z.eqb_neq; lia). cbn [negb bool_bytes].
      rewrite exec_cons, exec_if. cbn [stk alt]. rewrite if_cond_one. cbn [xorb]. cbn [app] in Hr. rewrite Hr. reflexivity.
    - destruct Hin as [<-|[]]. cbn [enc app]. rewrite exec_op_cons. cbn [exec_op stk alt bind blen length].
      rewrite exec_op_cons. cbn [exec_op stk alt]. cbn. rewrite if_cond_empty. reflexivity.
  Qed.

  Lemma A_zne x u : goodB x u -> goodB (MZeroNotEqual x) true.
  Proof.
    intros [Hs Hd]. split; intros w rest al Hin; change (In w (sat x)) in Hin || change (In w (dsat x)) in Hin.
    - destruct (Hs w rest al Hin) as [v [Hr [Ht [[z Hz] _]]]]. exists [1%N]. split; [|apply goodval_one].
      cbn [enc]. rewrite exec_app, Hr. cbn [bind exec exec_instr exec_op stk alt]. rewrite Hz.
      rewrite (Htruthy_num v z Hz) in Ht. rewrite Ht. reflexivity.
    - cbn [enc]. rewrite exec_app, (Hd w rest al Hin). reflexivity.
  Qed.

  Ltac brw H := erewrite bind_ok by exact H.

  (* ---------- conjunctions ---------- *)
  Lemma sat_and_v x y : sat (MAndV x y) = cross (sat x) (sat y).
  Proof. unfold all_sat. cbn [sd]. destruct (sd ke A x), (sd ke A y). reflexivity. Qed.
  Lemma dsat_and_v x y : dsat (MAndV x y) = cross (sat x) (dsat y).
  Proof. unfold all_sat, all_dsat. cbn [sd]. destruct (sd ke A x), (sd ke A y). reflexivity. Qed.

  Lemma A_andv_B x y u : goodV x -> goodB y u -> goodB (MAndV x y) u.
  Proof.
    intros Hx [Hs Hd]. split; intros w rest al Hin.
    - rewrite sat_and_v in Hin. apply in_cross in Hin. destruct Hin as [a [b [Ha [Hb ->]]]].
      destruct (Hs b rest al Hb) as [v [Hr Hv]]. exists v. split; [|exact Hv].
      cbn [enc]. rewrite exec_app, <- app_assoc, (Hx a (b ++ rest) al Ha). exact Hr.
    - rewrite dsat_and_v in Hin. apply in_cross in Hin. destruct Hin as [a [b [Ha [Hb ->]]]].
      cbn [enc]. rewrite exec_app, <- app_assoc, (Hx a (b ++ rest) al Ha). apply Hd, Hb.
  Qed.
  Lemma A_andv_V x y : goodV x -> goodV y -> goodV (MAndV x y).
  Proof.
    intros Hx Hy w rest al Hin. rewrite sat_and_v in Hin. apply in_cross in Hin.
    destruct Hin as [a [b [Ha [Hb ->]]]].
    cbn [enc]. rewrite exec_app, <- app_assoc, (Hx a (b ++ rest) al Ha). apply Hy, Hb.
  Qed.
  Lemma A_andv_K x y : goodV x -> goodK y -> goodK (MAndV x y).
  Proof.
    intros Hx [Hs Hd]. split; intros w rest al Hin.
    - rewrite sat_and_v in Hin. apply in_cross in Hin. destruct Hin as [a [b [Ha [Hb ->]]]].
      destruct (Hs b rest al Hb) as [kbs [sg [Hr Hrest]]]. exists kbs, sg. split; [|exact Hrest].
      cbn [enc]. rewrite exec_app, <- app_assoc, (Hx a (b ++ rest) al Ha). exact Hr.
    - rewrite dsat_and_v in Hin. apply in_cross in Hin. destruct Hin as [a [b [Ha [Hb ->]]]].
      destruct (Hd b rest al Hb) as [kbs [Hr Hk]]. exists kbs. split; [|exact Hk].
      cbn [enc]. rewrite exec_app, <- app_assoc, (Hx a (b ++ rest) al Ha). exact Hr.
  Qed.

  Lemma sd_and_b x y : sd ke A (MAndB x y) = (cross (sat x) (sat y), cross (dsat x) (dsat y)).
  Proof. unfold all_sat, all_dsat. cbn [sd]. destruct (sd ke A x), (sd ke A y). reflexivity. Qed.

  (* numeric results of B/W fragments feed BOOLAND / BOOLOR / ADD *)
  Lemma goodval_num u v : goodval u v -> exists z, num_operand 4 v = Some z /\ (z =? 0)%Z = false.
  Proof.
    intros [Ht [[z Hz] _]]. exists z. split; [exact Hz|]. rewrite (Htruthy_num v z Hz) in Ht.
    destruct (z =? 0)%Z; [discriminate | reflexivity].
  Qed.

  Lemma A_andb x y ux uy : goodB x ux -> goodW y uy -> goodB (MAndB x y) true.
  Proof.
    intros [Hxs Hxd] [Hys Hyd]. split; intros w rest al Hin.
    - unfold all_sat in Hin. rewrite sd_and_b in Hin. cbn [fst] in Hin. apply in_cross in Hin.
      destruct Hin as [a [b [Ha [Hb ->]]]].
      destruct (Hxs a (b ++ rest) al Ha) as [vx [Hrx Hvx]].
      destruct (Hys b vx rest al Hb) as [vy [Hry Hvy]].
      destruct (goodval_num _ _ Hvx) as [zx [Hzx Hnx]]. destruct (goodval_num _ _ Hvy) as [zy [Hzy Hny]].
      exists [1%N]. split; [|apply goodval_one].
      cbn [enc]. rewrite exec_app, <- app_assoc, Hrx. cbn [bind]. rewrite exec_app.
      destruct Hry as [Hry|Hry]; brw Hry; cbn [bind exec exec_instr exec_op stk alt];
        rewrite Hzx, Hzy, Hnx, Hny; reflexivity.
    - unfold all_dsat in Hin. rewrite sd_and_b in Hin. cbn [snd] in Hin. apply in_cross in Hin.
      destruct Hin as [a [b [Ha [Hb ->]]]].
      pose proof (Hxd a (b ++ rest) al Ha) as Hrx. pose proof (Hyd b [] rest al Hb) as Hry.
      cbn [enc]. rewrite exec_app, <- app_assoc, Hrx. cbn [bind]. rewrite exec_app.
      destruct Hry as [Hry|Hry]; brw Hry; reflexivity.
  Qed.

  (* ---------- disjunctions ---------- *)
  Lemma sd_or_b x z : sd ke A (MOrB x z) =
    (cross (dsat x) (sat z) ++ cross (sat x) (dsat z), cross (dsat x) (dsat z)).
  Proof. unfold all_sat, all_dsat. cbn [sd]. destruct (sd ke A x), (sd ke A z). reflexivity. Qed.

  Lemma A_orb x z ux uz : goodB x ux -> goodW z uz -> goodB (MOrB x z) true.
  Proof.
    intros [Hxs Hxd] [Hzs Hzd]. split; intros w rest al Hin.
    - unfold all_sat in Hin. rewrite sd_or_b in Hin. cbn [fst] in Hin. apply in_app_or in Hin.
      exists [1%N]. split; [|apply goodval_one].
      destruct Hin as [Hin|Hin]; apply in_cross in Hin; destruct Hin as [a [b [Ha [Hb ->]]]].
      + pose proof (Hxd a (b ++ rest) al Ha) as Hrx.
        destruct (Hzs b [] rest al Hb) as [vz [Hrz Hvz]]. destruct (goodval_num _ _ Hvz) as [zz [Hzz Hnz]].
        cbn [enc]. rewrite exec_app, <- app_assoc, Hrx. cbn [bind]. rewrite exec_app.
        destruct Hrz as [Hrz|Hrz]; brw Hrz; cbn [bind exec exec_instr exec_op stk alt];
          rewrite Hzz, Hnz; cbn; rewrite ?orb_true_r; reflexivity.
      + destruct (Hxs a (b ++ rest) al Ha) as [vx [Hrx Hvx]]. destruct (goodval_num _ _ Hvx) as [zx [Hzx Hnx]].
        pose proof (Hzd b vx rest al Hb) as Hrz.
        cbn [enc]. rewrite exec_app, <- app_assoc, Hrx. cbn [bind]. rewrite exec_app.
        destruct Hrz as [Hrz|Hrz]; brw Hrz; cbn [bind exec exec_instr exec_op stk alt];
          rewrite Hzx, Hnx; cbn; rewrite ?orb_true_r; reflexivity.
    - unfold all_dsat in Hin. rewrite sd_or_b in Hin. cbn [snd] in Hin. apply in_cross in Hin.
      destruct Hin as [a [b [Ha [Hb ->]]]].
      pose proof (Hxd a (b ++ rest) al Ha) as Hrx. pose proof (Hzd b [] rest al Hb) as Hrz.
      cbn [enc]. rewrite exec_app, <- app_assoc, Hrx. cbn [bind]. rewrite exec_app.
      destruct Hrz as [Hrz|Hrz]; brw Hrz; reflexivity.
  Qed.

  Lemma sat_or_c x z : sat (MOrC x z) = sat x ++ cross (dsat x) (sat z).
  Proof. unfold all_sat, all_dsat. cbn [sd]. destruct (sd ke A x), (sd ke A z). reflexivity. Qed.

  Lemma A_orc x z : goodB x true -> goodV z -> goodV (MOrC x z).
  Proof.
    intros [Hxs Hxd] Hz w rest al Hin. rewrite sat_or_c in Hin. apply in_app_or in Hin.
    cbn [enc]. rewrite exec_app. destruct Hin as [Hin|Hin].
    - destruct (Hxs w rest al Hin) as [v [Hr [_ [_ Hu]]]]. rewrite (Hu eq_refl) in Hr. rewrite Hr.
      cbn [bind]. rewrite exec_cons, exec_if. cbn [stk alt]. rewrite if_cond_one. reflexivity.
    - apply in_cross in Hin. destruct Hin as [a [b [Ha [Hb ->]]]].
      rewrite <- app_assoc, (Hxd a (b ++ rest) al Ha). cbn [bind].
      rewrite exec_cons, exec_if. cbn [stk alt]. rewrite if_cond_empty. cbn [xorb].
      rewrite (Hz b rest al Hb). reflexivity.
  Qed.

  Lemma sd_or_d x z : sd ke A (MOrD x z) = (sat x ++ cross (dsat x) (sat z), cross (dsat x) (dsat z)).
  Proof. unfold all_sat, all_dsat. cbn [sd]. destruct (sd ke A x), (sd ke A z). reflexivity. Qed.

  Lemma A_ord x z u : goodB x true -> goodB z u -> goodB (MOrD x z) u.
  Proof.
    intros [Hxs Hxd] [Hzs Hzd]. split; intros w rest al Hin.
    - unfold all_sat in Hin. rewrite sd_or_d in Hin. cbn [fst] in Hin. apply in_app_or in Hin.
      cbn [enc]. rewrite exec_app. destruct Hin as [Hin|Hin].
      + destruct (Hxs w rest al Hin) as [v [Hr [_ [_ Hu]]]]. rewrite (Hu eq_refl) in Hr. rewrite Hr.
        exists [1%N]. split; [|apply goodval_one].
        cbn [bind]. rewrite exec_op_cons. cbn [exec_op stk alt]. rewrite truthy_one. cbn [bind].
        rewrite exec_cons, exec_if. cbn [stk alt]. rewrite if_cond_one. reflexivity.
      + apply in_cross in Hin. destruct Hin as [a [b [Ha [Hb ->]]]].
        destruct (Hzs b rest al Hb) as [v [Hr Hv]]. exists v. split; [|exact Hv].
        rewrite <- app_assoc, (Hxd a (b ++ rest) al Ha). cbn [bind].
        rewrite exec_op_cons. cbn [exec_op stk alt truthy bind].
        rewrite exec_cons, exec_if. cbn [stk alt]. rewrite if_cond_empty. cbn [xorb]. rewrite Hr. reflexivity.
    - unfold all_dsat in Hin. rewrite sd_or_d in Hin. cbn [snd] in Hin. apply in_cross in Hin.
      destruct Hin as [a [b [Ha [Hb ->]]]].
      cbn [enc]. rewrite exec_app, <- app_assoc, (Hxd a (b ++ rest) al Ha). cbn [bind].
      rewrite exec_op_cons. cbn [exec_op stk alt truthy bind].
      rewrite exec_cons, exec_if. cbn [stk alt]. rewrite if_cond_empty. cbn [xorb].
      rewrite (Hzd b rest al Hb). reflexivity.
  Qed.

  Lemma sd_or_i x z : sd ke A (MOrI x z) =
    (map (cons [1%N]) (sat x) ++ map (cons []) (sat z), map (cons [1%N]) (dsat x) ++ map (cons []) (dsat z)).
  Proof. unfold all_sat, all_dsat. cbn [sd]. destruct (sd ke A x), (sd ke A z). reflexivity. Qed.

  Lemma run_or_i_l x z w rest al :
    run (MOrI x z) (mkSt (([1%N] :: w) ++ rest) al) = run x (mkSt (w ++ rest) al).
  Proof. cbn [enc app]. rewrite exec_cons, exec_if. cbn [stk alt]. rewrite if_cond_one. cbn [xorb]. apply bind_ret. Qed.
  Lemma run_or_i_r x z w rest al :
    run (MOrI x z) (mkSt (([] :: w) ++ rest) al) = run z (mkSt (w ++ rest) al).
  Proof. cbn [enc app]. rewrite exec_cons, exec_if. cbn [stk alt]. rewrite if_cond_empty. cbn [xorb]. apply bind_ret. Qed.

  Lemma goodval_weaken u u' v : (u' = true -> u = true) -> goodval u v -> goodval u' v.
  Proof. intros Hi [H1 [H2 H3]]. repeat split; auto. Qed.

  Lemma A_ori_B x z ux uz : goodB x ux -> goodB z uz -> goodB (MOrI x z) (ux && uz).
  Proof.
    intros [Hxs Hxd] [Hzs Hzd]. split; intros w rest al Hin.
    - unfold all_sat in Hin. rewrite sd_or_i in Hin. cbn [fst] in Hin. apply in_app_or in Hin.
      destruct Hin as [Hin|Hin]; apply in_map_iff in Hin; destruct Hin as [w' [<- Hw']].
      + rewrite run_or_i_l. destruct (Hxs w' rest al Hw') as [v [Hr Hv]]. exists v. split; [exact Hr|].
        apply (goodval_weaken ux); [|exact Hv]. intros H; apply andb_prop in H; tauto.
      + rewrite run_or_i_r. destruct (Hzs w' rest al Hw') as [v [Hr Hv]]. exists v. split; [exact Hr|].
        apply (goodval_weaken uz); [|exact Hv]. intros H; apply andb_prop in H; tauto.
    - unfold all_dsat in Hin. rewrite sd_or_i in Hin. cbn [snd] in Hin. apply in_app_or in Hin.
      destruct Hin as [Hin|Hin]; apply in_map_iff in Hin; destruct Hin as [w' [<- Hw']].
      + rewrite run_or_i_l. apply Hxd, Hw'.
      + rewrite run_or_i_r. apply Hzd, Hw'.
  Qed.
  Lemma A_ori_V x z : goodV x -> goodV z -> goodV (MOrI x z).
  Proof.
    intros Hx Hz w rest al Hin. unfold all_sat in Hin. rewrite sd_or_i in Hin. cbn [fst] in Hin.
    apply in_app_or in Hin. destruct Hin as [Hin|Hin]; apply in_map_iff in Hin; destruct Hin as [w' [<- Hw']].
    - rewrite run_or_i_l. apply Hx, Hw'.
    - rewrite run_or_i_r. apply Hz, Hw'.
  Qed.
  Lemma A_ori_K x z : goodK x -> goodK z -> goodK (MOrI x z).
  Proof.
    intros [Hxs Hxd] [Hzs Hzd]. split; intros w rest al Hin.
    - unfold all_sat in Hin. rewrite sd_or_i in Hin. cbn [fst] in Hin. apply in_app_or in Hin.
      destruct Hin as [Hin|Hin]; apply in_map_iff in Hin; destruct Hin as [w' [<- Hw']].
      + rewrite run_or_i_l. apply Hxs, Hw'.
      + rewrite run_or_i_r. apply Hzs, Hw'.
    - unfold all_dsat in Hin. rewrite sd_or_i in Hin. cbn [snd] in Hin. apply in_app_or in Hin.
      destruct Hin as [Hin|Hin]; apply in_map_iff in Hin; destruct Hin as [w' [<- Hw']].
      + rewrite run_or_i_l. apply Hxd, Hw'.
      + rewrite run_or_i_r. apply Hzd, Hw'.
  Qed.

  (* ---------- andor ---------- *)
  Lemma sd_andor a b c : sd ke A (MAndOr a b c) =
    (cross (sat a) (sat b) ++ cross (dsat a) (sat c), cross (dsat a) (dsat c)).
  Proof. unfold all_sat, all_dsat. cbn [sd]. destruct (sd ke A a), (sd ke A b), (sd ke A c). reflexivity. Qed.

  (* after X: NOTIF c ELSE b ENDIF *)
  Lemma run_andor_sat a b c wa wb rest al : goodB a true -> In wa (sat a) ->
    run (MAndOr a b c) (mkSt ((wa ++ wb) ++ rest) al) = run b (mkSt (wb ++ rest) al).
  Proof.
    intros [Has _] Hin. cbn [enc]. rewrite exec_app, <- app_assoc.
    destruct (Has wa (wb ++ rest) al Hin) as [v [Hr [_ [_ Hu]]]]. rewrite (Hu eq_refl) in Hr. rewrite Hr.
    cbn [bind]. rewrite exec_cons, exec_if. cbn [stk alt]. rewrite if_cond_one. cbn [xorb]. apply bind_ret.
  Qed.
  Lemma run_andor_dsat a b c wa wc rest al : goodB a true -> In wa (dsat a) ->
    run (MAndOr a b c) (mkSt ((wa ++ wc) ++ rest) al) = run c (mkSt (wc ++ rest) al).
  Proof.
    intros [_ Had] Hin. cbn [enc]. rewrite exec_app, <- app_assoc, (Had wa (wc ++ rest) al Hin).
    cbn [bind]. rewrite exec_cons, exec_if. cbn [stk alt]. rewrite if_cond_empty. cbn [xorb]. apply bind_ret.
  Qed.

  Lemma A_andor_B a b c ub uc : goodB a true -> goodB b ub -> goodB c uc -> goodB (MAndOr a b c) (ub && uc).
  Proof.
    intros Ha [Hbs _] [Hcs Hcd]. split; intros w rest al Hin.
    - unfold all_sat in Hin. rewrite sd_andor in Hin. cbn [fst] in Hin. apply in_app_or in Hin.
      destruct Hin as [Hin|Hin]; apply in_cross in Hin; destruct Hin as [wa [wx [Hwa [Hwx ->]]]].
      + rewrite (run_andor_sat a b c wa wx rest al Ha Hwa). destruct (Hbs wx rest al Hwx) as [v [Hr Hv]].
        exists v. split; [exact Hr|]. apply (goodval_weaken ub); [|exact Hv]. intros H; apply andb_prop in H; tauto.
      + rewrite (run_andor_dsat a b c wa wx rest al Ha Hwa). destruct (Hcs wx rest al Hwx) as [v [Hr Hv]].
        exists v. split; [exact Hr|]. apply (goodval_weaken uc); [|exact Hv]. intros H; apply andb_prop in H; tauto.
    - unfold all_dsat in Hin. rewrite sd_andor in Hin. cbn [snd] in Hin. apply in_cross in Hin.
      destruct Hin as [wa [wx [Hwa [Hwx ->]]]].
      rewrite (run_andor_dsat a b c wa wx rest al Ha Hwa). apply Hcd, Hwx.
  Qed.
  Lemma A_andor_V a b c : goodB a true -> goodV b -> goodV c -> goodV (MAndOr a b c).
  Proof.
    intros Ha Hb Hc w rest al Hin. unfold all_sat in Hin. rewrite sd_andor in Hin. cbn [fst] in Hin.
    apply in_app_or in Hin.
    destruct Hin as [Hin|Hin]; apply in_cross in Hin; destruct Hin as [wa [wx [Hwa [Hwx ->]]]].
    - rewrite (run_andor_sat a b c wa wx rest al Ha Hwa). apply Hb, Hwx.
    - rewrite (run_andor_dsat a b c wa wx rest al Ha Hwa). apply Hc, Hwx.
  Qed.
  Lemma A_andor_K a b c : goodB a true -> goodK b -> goodK c -> goodK (MAndOr a b c).
  Proof.
    intros Ha [Hbs _] [Hcs Hcd]. split; intros w rest al Hin.
    - unfold all_sat in Hin. rewrite sd_andor in Hin. cbn [fst] in Hin. apply in_app_or in Hin.
      destruct Hin as [Hin|Hin]; apply in_cross in Hin; destruct Hin as [wa [wx [Hwa [Hwx ->]]]].
      + rewrite (run_andor_sat a b c wa wx rest al Ha Hwa). apply Hbs, Hwx.
      + rewrite (run_andor_dsat a b c wa wx rest al Ha Hwa). apply Hcs, Hwx.
    - unfold all_dsat in Hin. rewrite sd_andor in Hin. cbn [snd] in Hin. apply in_cross in Hin.
      destruct Hin as [wa [wx [Hwa [Hwx ->]]]].
      rewrite (run_andor_dsat a b c wa wx rest al Ha Hwa). apply Hcd, Hwx.
  Qed.

  (* ---------- thresh ---------- *)
  Fixpoint enc_tail (l : list ms) : script :=
    match l with [] => [] | x :: r => enc ke x ++ [IOp OP_ADD] ++ enc_tail r end.
  Lemma enc_thresh k x0 r : enc ke (MThresh k (x0 :: r)) = enc ke x0 ++ enc_tail r ++ [push_int (Z.of_N k); IOp OP_EQUAL].
  Proof. cbn [enc]. rewrite <- app_assoc. reflexivity. Qed.
  Lemma sd_thresh k xs : sd ke A (MThresh k xs) =
    (thresh_comb (N.to_nat k) (map (sd ke A) xs), thresh_comb 0 (map (sd ke A) xs)).
  Proof.
    cbn [sd].
    assert (H : (fix go (l : list ms) : list (list wit * list wit) :=
                   match l with [] => [] | x :: r => sd ke A x :: go r end) xs = map (sd ke A) xs).
    { induction xs as [|x r IH]; [reflexivity|]. cbn [map]. rewrite <- IH. reflexivity. }
    rewrite H. reflexivity.
  Qed.

  Lemma num_encode_0 : num_encode 0 = []. Proof. reflexivity. Qed.
  Lemma num_encode_1 : num_encode 1 = [1%N]. Proof. reflexivity. Qed.

  Lemma thresh_tail xs : Forall (fun x => goodW x true) xs ->
    forall j w s rest al, In w (thresh_comb j (map (sd ke A) xs)) ->
      (0 <= s)%Z -> (s + Z.of_nat (length xs) < 2147483648)%Z ->
      exec e (enc_tail xs) (mkSt (num_encode s :: w ++ rest) al)
      = Ok (mkSt (num_encode (s + Z.of_nat j) :: rest) al).
  Proof.
    induction 1 as [|x r Hx Hr IH]; intros j w s rest al Hin Hs Hb.
    - cbn [map thresh_comb] in Hin. destruct j; [|contradiction]. destruct Hin as [<-|[]].
      cbn [enc_tail exec app]. rewrite Z.add_0_r. reflexivity.
    - cbn [map thresh_comb] in Hin. destruct (sd ke A x) as [sx dx] eqn:Ex.
      destruct Hx as [Hxs Hxd]. unfold all_sat, all_dsat in Hxs, Hxd. rewrite Ex in Hxs, Hxd. cbn [fst snd] in Hxs, Hxd.
      cbn [length] in Hb. cbn [enc_tail]. rewrite exec_app.
      apply in_app_or in Hin. destruct Hin as [Hin|Hin].
      + destruct j as [|j']; [contradiction|]. apply in_cross in Hin. destruct Hin as [a [b [Ha [Hb' ->]]]].
        destruct (Hxs a (num_encode s) (b ++ rest) al Ha) as [v [Hrv [_ [_ Hu]]]]. rewrite (Hu eq_refl) in Hrv.
        assert (Hstep : bind (run x (mkSt (num_encode s :: (a ++ b) ++ rest) al)) (exec e ([IOp OP_ADD] ++ enc_tail r))
                        = exec e (enc_tail r) (mkSt (num_encode (s + 1) :: b ++ rest) al)).
        { rewrite <- app_assoc. destruct Hrv as [Hrv|Hrv]; brw Hrv; cbn [app]; rewrite exec_op_cons;
            cbn [exec_op stk alt]; rewrite (Hnum4 s) by lia; rewrite (num_operand_one 4) by lia; cbn [bind];
            rewrite ?(Z.add_comm 1 s); reflexivity. }
        rewrite Hstep. replace (s + Z.of_nat (S j'))%Z with ((s + 1) + Z.of_nat j')%Z by lia.
        apply IH; [exact Hb' | lia | lia].
      + apply in_cross in Hin. destruct Hin as [a [b [Ha [Hb' ->]]]].
        pose proof (Hxd a (num_encode s) (b ++ rest) al Ha) as Hrv.
        assert (Hstep : bind (run x (mkSt (num_encode s :: (a ++ b) ++ rest) al)) (exec e ([IOp OP_ADD] ++ enc_tail r))
                        = exec e (enc_tail r) (mkSt (num_encode s :: b ++ rest) al)).
        { rewrite <- app_assoc. destruct Hrv as [Hrv|Hrv]; brw Hrv; cbn [app]; rewrite exec_op_cons;
            cbn [exec_op stk alt]; rewrite (Hnum4 s) by lia; rewrite num_operand_empty; cbn [bind];
            rewrite ?Z.add_0_r, ?Z.add_0_l; reflexivity. }
        rewrite Hstep. apply IH; [exact Hb' | lia | lia].
  Qed.

  Lemma num_encode_nonzero z : (0 < z < 2147483648)%Z -> num_encode z <> [].
  Proof.
    intros Hz E. pose proof (Hnum4 z) as H. rewrite E, num_operand_empty in H.
    assert (H' : Some 0%Z = Some z) by (apply H; lia). inversion H'. lia.
  Qed.

  Lemma A_thresh k x0 r : goodB x0 true -> Forall (fun x => goodW x true) r ->
    (1 <= k <= N.of_nat (S (length r)))%N -> (S (length r) < 1000)%nat ->
    goodB (MThresh k (x0 :: r)) true.
  Proof.
    intros [H0s H0d] Hr Hk Hn. split; intros w rest al Hin.
    - unfold all_sat in Hin. rewrite sd_thresh in Hin. cbn [fst map thresh_comb] in Hin.
      destruct (sd ke A x0) as [s0 d0] eqn:E0. unfold all_sat, all_dsat in H0s, H0d. rewrite E0 in H0s, H0d.
      cbn [fst snd] in H0s, H0d.
      exists [1%N]. split; [|apply goodval_one]. rewrite enc_thresh, exec_app.
      apply in_app_or in Hin. destruct Hin as [Hin|Hin].
      + destruct (N.to_nat k) as [|k'] eqn:Ek; [contradiction|].
        apply in_cross in Hin. destruct Hin as [a [b [Ha [Hb ->]]]].
        destruct (H0s a (b ++ rest) al Ha) as [v [Hrv [_ [_ Hu]]]]. rewrite (Hu eq_refl) in Hrv.
        rewrite <- app_assoc. brw Hrv. rewrite exec_app.
        erewrite bind_ok by (apply (thresh_tail r Hr k' b 1%Z rest al Hb); lia). rewrite exec_cons, exec_push_int. cbn [bind stk alt]. rewrite exec_op_cons. cbn [exec_op stk alt].
        replace (1 + Z.of_nat k')%Z with (Z.of_N k) by lia. rewrite bytes_eqb_refl. reflexivity.
      + apply in_cross in Hin. destruct Hin as [a [b [Ha [Hb ->]]]].
        pose proof (H0d a (b ++ rest) al Ha) as Hrv.
        rewrite <- app_assoc. brw Hrv. rewrite exec_app.
        erewrite bind_ok by (apply (thresh_tail r Hr (N.to_nat k) b 0%Z rest al Hb); lia). rewrite exec_cons, exec_push_int. cbn [bind stk alt]. rewrite exec_op_cons. cbn [exec_op stk alt].
        replace (0 + Z.of_nat (N.to_nat k))%Z with (Z.of_N k) by lia. rewrite bytes_eqb_refl. reflexivity.
    - unfold all_dsat in Hin. rewrite sd_thresh in Hin. cbn [snd map thresh_comb] in Hin.
      destruct (sd ke A x0) as [s0 d0] eqn:E0. unfold all_sat, all_dsat in H0s, H0d. rewrite E0 in H0s, H0d.
      cbn [fst snd app] in H0s, H0d, Hin.
      apply in_cross in Hin. destruct Hin as [a [b [Ha [Hb ->]]]].
      pose proof (H0d a (b ++ rest) al Ha) as Hrv.
      rewrite enc_thresh, exec_app, <- app_assoc. brw Hrv. rewrite exec_app.
      erewrite bind_ok by (apply (thresh_tail r Hr 0%nat b 0%Z rest al Hb); lia). rewrite exec_cons, exec_push_int. cbn [bind stk alt]. rewrite exec_op_cons. cbn [exec_op stk alt].
      cbn [Z.of_nat Z.add]. rewrite num_encode_0.
      rewrite (bytes_eqb_neq (num_encode (Z.of_N k)) []) by (apply num_encode_nonzero; lia). reflexivity.
  Qed.

  (* ---------- multi (CHECKMULTISIG) ---------- *)
  Hypothesis Hsig_empty : forall kbs, e_sigok e kbs [] = false.

  Inductive SubV : list bytes -> list bytes -> Prop :=
  | SV_nil : SubV [] []
  | SV_take kbs s K S : e_sigok e kbs s = true -> SubV K S -> SubV (kbs :: K) (s :: S)
  | SV_skip kbs K S : SubV K S -> SubV (kbs :: K) S.

  Lemma SubV_length K S : SubV K S -> (length S <= length K)%nat.
  Proof. induction 1; cbn; lia. Qed.
  Lemma SubV_drop K : forall s S, SubV K (s :: S) -> SubV K S.
  Proof.
    induction K as [|kbs K IH]; intros s S H; inversion H; subst.
    - apply SV_skip. assumption.
    - apply SV_skip. eapply IH. eassumption.
  Qed.
  Lemma SubV_nil_l S : SubV [] S -> S = [].
  Proof. intros H. inversion H. reflexivity. Qed.
  Lemma SubV_app K1 S1 K2 S2 : SubV K1 S1 -> SubV K2 S2 -> SubV (K1 ++ K2) (S1 ++ S2).
  Proof. induction 1; intros H2; cbn; [assumption | apply SV_take; auto | apply SV_skip; auto]. Qed.
  Lemma SubV_rev K S : SubV K S -> SubV (rev K) (rev S).
  Proof.
    induction 1; cbn.
    - constructor.
    - apply SubV_app; [assumption|]. apply SV_take; [assumption | constructor].
    - rewrite <- (app_nil_r (rev S)). apply SubV_app; [assumption|]. apply SV_skip. constructor.
  Qed.

  Lemma mm_unfold kbs K s S :
    multisig_match e (kbs :: K) (s :: S) =
    if Nat.ltb (length (kbs :: K)) (length (s :: S)) then false
    else if e_sigok e kbs s then multisig_match e K S else multisig_match e K (s :: S).
  Proof.
    cbn [multisig_match]. destruct (Nat.ltb _ _); [reflexivity|]. destruct (e_sigok e kbs s); [reflexivity|].
    destruct K; reflexivity.
  Qed.

  Lemma mm_sub K : forall S, SubV K S -> multisig_match e K S = true.
  Proof.
    induction K as [|kbs K IH]; intros S H.
    - apply SubV_nil_l in H. subst. reflexivity.
    - destruct S as [|s S']; [reflexivity|]. rewrite mm_unfold.
      pose proof (SubV_length _ _ H) as HL.
      replace (Nat.ltb (length (kbs :: K)) (length (s :: S'))) with false by (symmetry; apply Nat.ltb_ge; exact HL).
      destruct (e_sigok e kbs s) eqn:Es.
      + apply IH. inversion H; subst; [assumption | eapply SubV_drop; eassumption].
      + apply IH. inversion H; subst; [congruence | assumption].
  Qed.

  Lemma mm_empty_sig K : forall S, multisig_match e K ([] :: S) = false.
  Proof.
    induction K as [|kbs K IH]; intros S; [reflexivity|]. rewrite mm_unfold.
    destruct (Nat.ltb _ _); [reflexivity|]. rewrite Hsig_empty. apply IH.
  Qed.

  Lemma take_n_app {X} (a b : list X) : take_n (length a) (a ++ b) = Some (a, b).
  Proof. induction a as [|x a IH]; cbn; [destruct b; reflexivity|]. rewrite IH. reflexivity. Qed.

  Lemma exec_pushes (bs : list bytes) s st :
    exec e (map IPush bs ++ s) st = exec e s (mkSt (rev bs ++ stk st) (alt st)).
  Proof.
    revert st. induction bs as [|b bs IH]; intros st; cbn [map app rev].
    - destruct st; reflexivity.
    - rewrite exec_push, IH. cbn [stk alt]. rewrite <- app_assoc. reflexivity.
  Qed.

  Lemma pick_sigs_sub ks : forall j sigs, In sigs (pick_sigs A j ks) ->
    SubV (map (kb ke) ks) sigs /\ length sigs = j /\ (forall s, In s sigs -> nz s).
  Proof.
    induction ks as [|key r IH]; intros j sigs Hin; cbn [pick_sigs] in Hin.
    - destruct j; [|contradiction]. destruct Hin as [<-|[]]. cbn [map]. split; [apply SV_nil | split; [reflexivity | intros s []]].
    - apply in_app_or in Hin. destruct Hin as [Hin|Hin].
      + destruct j as [|j']; [contradiction|]. destruct (a_sig A key) as [sg|] eqn:Es; [|contradiction].
        apply in_map_iff in Hin. destruct Hin as [sigs' [<- Hin']].
        destruct (IH j' sigs' Hin') as [H1 [H2 H3]]. destruct (ok_sig HA key sg Es) as [Hok Hnz].
        split; [cbn [map]; apply SV_take; assumption|]. split; [cbn; lia|]. intros s [<-|Hs]; [exact Hnz | apply H3, Hs].
      + destruct (IH j sigs Hin) as [H1 [H2 H3]]. split; [cbn [map]; apply SV_skip; assumption|]. split; assumption.
  Qed.

  Lemma A_multi_gen k ks' :
    (1 <= k <= N.of_nat (length ks'))%N -> (length ks' <= 20)%nat -> tap = false ->
    (forall sigs rest al, In sigs (pick_sigs A (N.to_nat k) ks') ->
       exec e ([push_int (Z.of_N k)] ++ map (fun key => IPush (kb ke key)) ks'
               ++ [push_int (Z.of_nat (length ks')); IOp OP_CHECKMULTISIG]) (mkSt ((rev sigs ++ [[]]) ++ rest) al)
       = Ok (mkSt ([1%N] :: rest) al)) /\
    (forall rest al,
       exec e ([push_int (Z.of_N k)] ++ map (fun key => IPush (kb ke key)) ks'
               ++ [push_int (Z.of_nat (length ks')); IOp OP_CHECKMULTISIG]) (mkSt (repeat [] (S (N.to_nat k)) ++ rest) al)
       = Ok (mkSt ([] :: rest) al)).
  Proof.
    intros Hk Hn Htap.
    assert (Hsv : match e_sv e with SvTapscript => False | _ => True end).
    { unfold tap in Htap. destruct (e_sv e); try exact I. discriminate. }
    assert (Hmap : map (fun key => IPush (kb ke key)) ks' = map IPush (map (kb ke) ks')) by (rewrite map_map; reflexivity).
    assert (Hkeys : forallb (e_keyok e) (rev (map (kb ke) ks')) = true).
    { apply forallb_forall. intros x Hx. apply in_rev in Hx. apply in_map_iff in Hx. destruct Hx as [key [<- _]]. apply (ok_key HA). }
    assert (Hlen : length (rev (map (kb ke) ks')) = length ks') by (rewrite rev_length, map_length; reflexivity).
    split.
    - intros sigs rest al Hin. destruct (pick_sigs_sub ks' _ _ Hin) as [Hsub [Hl _]].
      cbn [app]. rewrite exec_cons, exec_push_int. cbn [bind stk alt]. rewrite Hmap, exec_pushes. cbn [stk alt].
      rewrite exec_cons, exec_push_int. cbn [bind stk alt]. rewrite exec_op_cons. cbn [exec_op stk alt].
      destruct (e_sv e); try contradiction;
      (rewrite Hnum4 by lia; replace ((Z.of_nat (length ks') <? 0)%Z || (20 <? Z.of_nat (length ks'))%Z) with false
         by (symmetry; apply Bool.orb_false_iff; split; [apply Z.ltb_ge | apply Z.ltb_ge]; lia);
       rewrite Nat2Z.id, <- Hlen, take_n_app, Hnum4 by lia;
       replace ((Z.of_N k <? 0)%Z || (Z.of_nat (length (rev (map (kb ke) ks'))) <? Z.of_N k)%Z) with false
         by (symmetry; apply Bool.orb_false_iff; split; [apply Z.ltb_ge | apply Z.ltb_ge]; lia);
       replace (Z.to_nat (Z.of_N k)) with (length (rev sigs)) by (rewrite rev_length; lia);
       rewrite <- app_assoc, take_n_app; cbn [app]; rewrite Hkeys; cbn [negb];
       rewrite (mm_sub _ _ (SubV_rev _ _ Hsub)); reflexivity).
    - intros rest al.
      cbn [app]. rewrite exec_cons, exec_push_int. cbn [bind stk alt]. rewrite Hmap, exec_pushes. cbn [stk alt].
      rewrite exec_cons, exec_push_int. cbn [bind stk alt]. rewrite exec_op_cons. cbn [exec_op stk alt].
      assert (Hrep : repeat (@nil byte) (S (N.to_nat k)) ++ rest = repeat [] (N.to_nat k) ++ [] :: rest).
      { clear. induction (N.to_nat k) as [|j IH]; [reflexivity|]. cbn [repeat app] in *. rewrite IH. reflexivity. }
      assert (Hk1 : exists j, N.to_nat k = S j) by (exists (pred (N.to_nat k)); lia). destruct Hk1 as [j Hj].
      destruct (e_sv e); try contradiction;
      (rewrite Hnum4 by lia; replace ((Z.of_nat (length ks') <? 0)%Z || (20 <? Z.of_nat (length ks'))%Z) with false
         by (symmetry; apply Bool.orb_false_iff; split; [apply Z.ltb_ge | apply Z.ltb_ge]; lia);
       rewrite Nat2Z.id, <- Hlen, take_n_app, Hnum4 by lia;
       replace ((Z.of_N k <? 0)%Z || (Z.of_nat (length (rev (map (kb ke) ks'))) <? Z.of_N k)%Z) with false
         by (symmetry; apply Bool.orb_false_iff; split; [apply Z.ltb_ge | apply Z.ltb_ge]; lia);
       rewrite Hrep;
       replace (Z.to_nat (Z.of_N k)) with (length (repeat (@nil byte) (N.to_nat k))) by (rewrite repeat_length; lia);
       rewrite take_n_app; rewrite Hkeys; cbn [negb]; rewrite Hj; cbn [repeat]; rewrite mm_empty_sig;
       cbn [forallb andb];
       match goal with |- context [forallb ?f (repeat [] j)] =>
         replace (forallb f (repeat [] j)) with true by (symmetry; clear; induction j; [reflexivity | cbn; assumption]) end;
       reflexivity).
  Qed.

  (* ---------- multi_a (CHECKSIG / CHECKSIGADD chain) ---------- *)
  Definition csa_tail (ks : list key) : script := flat_map (fun key => [IPush (kb ke key); IOp OP_CHECKSIGADD]) ks.

  Lemma csa_tail_exec ks : tap = true -> forall j w acc rest al, In w (pick_sigs_a A j ks) ->
    (0 <= acc)%Z -> (acc + Z.of_nat (length ks) < 2147483648)%Z ->
    forall s, exec e (csa_tail ks ++ s) (mkSt (num_encode acc :: w ++ rest) al)
            = exec e s (mkSt (num_encode (acc + Z.of_nat j) :: rest) al).
  Proof.
    intros Htap. assert (Hsv : e_sv e = SvTapscript) by (unfold tap in Htap; destruct (e_sv e); congruence).
    induction ks as [|key r IH]; intros j w acc rest al Hin Ha Hb s; cbn [pick_sigs_a] in Hin.
    - destruct j; [|contradiction]. destruct Hin as [<-|[]]. cbn [csa_tail flat_map app]. rewrite Z.add_0_r. reflexivity.
    - cbn [length] in Hb. cbn [csa_tail flat_map app]. fold (csa_tail r).
      rewrite exec_push, exec_op_cons. cbn [stk alt exec_op]. rewrite Hsv.
      apply in_app_or in Hin. destruct Hin as [Hin|Hin].
      + destruct j as [|j']; [contradiction|]. destruct (a_sig A key) as [sg|] eqn:Es; [|contradiction].
        apply in_map_iff in Hin. destruct Hin as [w' [<- Hw']]. destruct (ok_sig HA key sg Es) as [Hok Hnz].
        cbn [app]. rewrite (ok_key HA). cbn [negb]. rewrite Hnum4 by lia.
        destruct sg as [|b0 sg']; [cbn in Hnz; lia|]. rewrite Hok. cbn [bind].
        rewrite (IH j' w' (acc + 1)%Z rest al Hw') by lia. do 4 f_equal. lia.
      + apply in_map_iff in Hin. destruct Hin as [w' [<- Hw']].
        cbn [app]. rewrite (ok_key HA). cbn [negb]. rewrite Hnum4 by lia. cbn [bind].
        rewrite (IH j w' acc rest al Hw') by lia. reflexivity.
  Qed.

  Lemma A_multi_a_gen k ks' : (1 <= k <= N.of_nat (length ks'))%N -> (length ks' < 1000)%nat -> tap = true ->
    let sc := (match ks' with
               | [] => []
               | k0 :: rest => [IPush (kb ke k0); IOp OP_CHECKSIG] ++ csa_tail rest
               end) ++ [push_int (Z.of_N k); IOp OP_NUMEQUAL] in
    (forall w rest al, In w (pick_sigs_a A (N.to_nat k) ks') ->
       exec e sc (mkSt (w ++ rest) al) = Ok (mkSt ([1%N] :: rest) al)) /\
    (forall rest al, exec e sc (mkSt (repeat [] (length ks') ++ rest) al) = Ok (mkSt ([] :: rest) al)).
  Proof.
    intros Hk Hn Htap sc. assert (Hsv : e_sv e = SvTapscript) by (unfold tap in Htap; destruct (e_sv e); congruence).
    destruct ks' as [|k0 r]; [cbn in Hk; lia|]. subst sc. cbn [length] in *.
    assert (Hfin : forall tot rest al, (0 <= tot < 2147483648)%Z ->
       exec e [push_int (Z.of_N k); IOp OP_NUMEQUAL] (mkSt (num_encode tot :: rest) al)
       = Ok (mkSt (bool_bytes (Z.of_N k =? tot)%Z :: rest) al)).
    { intros tot rest al Ht. rewrite exec_cons, exec_push_int. cbn [bind stk alt]. rewrite exec_op_cons.
      cbn [exec_op stk alt]. rewrite !Hnum4 by lia. reflexivity. }
    split.
    - intros w rest al Hin. cbn [pick_sigs_a] in Hin. rewrite <- app_assoc. cbn [app].
      rewrite exec_push, exec_op_cons. cbn [stk alt exec_op]. rewrite (ok_key HA). cbn [negb].
      apply in_app_or in Hin. destruct Hin as [Hin|Hin].
      + destruct (N.to_nat k) as [|j'] eqn:Ek; [contradiction|]. destruct (a_sig A k0) as [sg|] eqn:Es; [|contradiction].
        apply in_map_iff in Hin. destruct Hin as [w' [<- Hw']]. destruct (ok_sig HA k0 sg Es) as [Hok Hnz].
        cbn [app]. destruct sg as [|b0 sg']; [cbn in Hnz; lia|]. rewrite Hok. cbn [bind bool_bytes].
        rewrite <- num_encode_1. rewrite (csa_tail_exec r Htap j' w' 1%Z rest al Hw') by lia.
        rewrite Hfin by lia. replace (Z.of_N k =? 1 + Z.of_nat j')%Z with true by (symmetry; apply Z.eqb_eq; lia). reflexivity.
      + apply in_map_iff in Hin. destruct Hin as [w' [<- Hw']]. cbn [app bind bool_bytes].
        rewrite <- num_encode_0. rewrite (csa_tail_exec r Htap (N.to_nat k) w' 0%Z rest al Hw') by lia.
        rewrite Hfin by lia. replace (Z.of_N k =? 0 + Z.of_nat (N.to_nat k))%Z with true by (symmetry; apply Z.eqb_eq; lia). reflexivity.
    - intros rest al. rewrite <- app_assoc. cbn [app repeat].
      rewrite exec_push, exec_op_cons. cbn [stk alt exec_op]. rewrite (ok_key HA). cbn [negb bind bool_bytes].
      assert (Hz : In (repeat [] (length r)) (pick_sigs_a A 0 r)).
      { clear. induction r as [|key r IH]; [left; reflexivity|]. cbn [pick_sigs_a length repeat].
        apply in_or_app. right. apply in_map. exact IH. }
      rewrite <- num_encode_0. rewrite (csa_tail_exec r Htap 0%nat _ 0%Z rest al Hz) by lia.
      rewrite Hfin by lia. replace (Z.of_N k =? 0 + Z.of_nat 0)%Z with false by (symmetry; apply Z.eqb_neq; lia). reflexivity.
  Qed.

  (* ---------- witness shapes promised by the input property (z, o, n) ---------- *)
  Definition top_nz (w : wit) : Prop := match w with a :: _ => nz a | [] => False end.
  Definition wshape (i : input) (issat : bool) (w : wit) : Prop :=
    match i with
    | IZero => w = []
    | IOne => length w = 1%nat
    | IOneNonZero => length w = 1%nat /\ (issat = true -> top_nz w)
    | IAnyNonZero => issat = true -> top_nz w
    | IAny => True
    end.
  Definition lshape (i : input) (S D : list wit) : Prop :=
    (forall w, In w S -> wshape i true w) /\ (forall w, In w D -> wshape i false w).
  Definition shape (m : ms) (t : ty) : Prop := lshape (c_input (t_corr t)) (sat m) (dsat m).

  Lemma wshape_weaken i w : wshape i true w -> wshape i false w.
  Proof. destruct i; cbn; intuition discriminate. Qed.

  Lemma top_nz_app a b : top_nz a -> top_nz (a ++ b).
  Proof. destruct a; cbn; tauto. Qed.

  Ltac shp :=
    repeat match goal with
    | H : _ /\ _ |- _ => destruct H
    | H : ?w = [] |- _ => subst w
    | |- _ /\ _ => split
    | |- _ -> _ => intro
    end; cbn [app length] in *; rewrite ?app_nil_r, ?app_length in *;
    try solve [ reflexivity | lia | assumption | discriminate | auto using top_nz_app
              | match goal with H : ?P -> top_nz _ |- top_nz _ => apply top_nz_app || idtac; apply H; reflexivity end
              | match goal with H : true = true -> top_nz ?a |- top_nz (?a ++ _) => apply top_nz_app, H; reflexivity end ].

  Lemma wshape_and ix iy b wx wy :
    wshape ix b wx -> wshape iy b wy -> wshape (and_input ix iy) b (wx ++ wy).
  Proof. destruct ix, iy; cbn [and_input wshape]; intros Hx Hy; shp. Qed.

  Lemma lshape_and ix iy Sx Dx Sy Dy :
    lshape ix Sx Dx -> lshape iy Sy Dy -> lshape (and_input ix iy) (cross Sx Sy) (cross Dx Dy).
  Proof.
    intros [H1 H2] [H3 H4]. split; intros w Hin; apply in_cross in Hin; destruct Hin as [a [b [Ha [Hb ->]]]];
      apply wshape_and; auto.
  Qed.
  Lemma lshape_and_sat ix iy Sx Dx Sy Dy :
    lshape ix Sx Dx -> lshape iy Sy Dy -> lshape (and_input ix iy) (cross Sx Sy) (cross Sx Dy).
  Proof.
    intros [H1 H2] [H3 H4]. split; intros w Hin; apply in_cross in Hin;
    destruct Hin as [a [b [Ha [Hb ->]]]]; apply wshape_and; auto using wshape_weaken.
  Qed.

  (* length-only claims (z / o): the flags do not matter *)
  Definition lenshape (i : input) (w : wit) : Prop :=
    match i with IZero => w = [] | IOne | IOneNonZero => length w = 1%nat | _ => True end.
  Lemma wshape_len i b w : wshape i b w -> lenshape i w.
  Proof. destruct i; cbn; tauto. Qed.

  Lemma rbind_ok {X Y} (r : res X) (f : X -> res Y) y : rbind r f = ROk y -> exists a, r = ROk a /\ f a = ROk y.
  Proof. destruct r as [a|err]; cbn; [eauto | discriminate]. Qed.

  (* fragments covered by this theorem: everything except raw_pk_h (which only arises from decoding) *)
  Fixpoint no_multi (m : ms) : Prop :=
    match m with
    | MRawPkH _ => False
    | MAlt x | MSwap x | MCheck x | MDupIf x | MVerify x | MNonZero x | MZeroNotEqual x => no_multi x
    | MAndV x y | MAndB x y | MOrB x y | MOrD x y | MOrC x y | MOrI x y => no_multi x /\ no_multi y
    | MAndOr a b c => no_multi a /\ no_multi b /\ no_multi c
    | MThresh _ xs => (fix go (l : list ms) : Prop := match l with [] => True | x :: r => no_multi x /\ go r end) xs
    | _ => True
    end.

  Definition stmt (m : ms) : Prop :=
    forall t, type_of m = ROk t -> wf m -> no_multi m -> good m t /\ shape m t.

  Ltac unf H := unfold t_cast_alt, t_cast_swap, t_cast_check, t_cast_dupif, t_cast_verify, t_cast_nonzero,
    t_cast_zeronotequal, t_and_v, t_and_b, t_or_b, t_or_c, t_or_d, t_or_i, t_and_or, lift1, lift2,
    c_cast_alt, c_cast_swap, c_cast_check, c_cast_dupif, c_cast_verify, c_cast_nonzero, c_cast_zeronotequal,
    c_and_v, c_and_b, c_or_b, c_or_c, c_or_d, c_or_i, c_and_or in H; cbn [t_corr t_mall c_base c_input c_dissat c_unit] in H.

  Lemma stmt_alt x : stmt x -> stmt (MAlt x).
  Proof.
    intros IH t Ht Hwf Hnm. cbn [type_of] in Ht. apply rbind_ok in Ht. destruct Ht as [tx [Hx Ht]].
    destruct (IH tx Hx Hwf Hnm) as [Hg Hs]. destruct tx as [[bx ix dx ux] mx]. unf Ht.
    destruct bx; try discriminate. inversion Ht; subst; clear Ht. cbn in Hg.
    split; [exact (A_alt x ux Hg) | split; intros w _; exact I].
  Qed.
  Lemma stmt_swap x : stmt x -> stmt (MSwap x).
  Proof.
    intros IH t Ht Hwf Hnm. cbn [type_of] in Ht. apply rbind_ok in Ht. destruct Ht as [tx [Hx Ht]].
    destruct (IH tx Hx Hwf Hnm) as [Hg [Hs Hd]]. destruct tx as [[bx ix dx ux] mx]. unf Ht.
    destruct bx; try discriminate; destruct ix; try discriminate; inversion Ht; subst; clear Ht; cbn in Hg, Hs, Hd.
    - split; [|split; intros w _; exact I]. apply (A_swap x ux Hg); intros w Hw.
      + apply Hs in Hw. exact Hw.
      + apply Hd in Hw. exact Hw.
    - split; [|split; intros w _; exact I]. apply (A_swap x ux Hg); intros w Hw.
      + apply Hs in Hw. tauto.
      + apply Hd in Hw. tauto.
  Qed.
  Lemma stmt_check x : stmt x -> stmt (MCheck x).
  Proof.
    intros IH t Ht Hwf Hnm. cbn [type_of] in Ht. apply rbind_ok in Ht. destruct Ht as [tx [Hx Ht]].
    destruct (IH tx Hx Hwf Hnm) as [Hg Hs]. destruct tx as [[bx ix dx ux] mx]. unf Ht.
    destruct bx; try discriminate. inversion Ht; subst; clear Ht. cbn in Hg.
    split; [exact (A_check x Hg) | exact Hs].
  Qed.
  Lemma stmt_zne x : stmt x -> stmt (MZeroNotEqual x).
  Proof.
    intros IH t Ht Hwf Hnm. cbn [type_of] in Ht. apply rbind_ok in Ht. destruct Ht as [tx [Hx Ht]].
    destruct (IH tx Hx Hwf Hnm) as [Hg Hs]. destruct tx as [[bx ix dx ux] mx]. unf Ht.
    destruct bx; try discriminate. inversion Ht; subst; clear Ht. cbn in Hg.
    split; [exact (A_zne x ux Hg) | exact Hs].
  Qed.
  Lemma stmt_verify x : stmt x -> stmt (MVerify x).
  Proof.
    intros IH t Ht Hwf Hnm. cbn [type_of] in Ht. apply rbind_ok in Ht. destruct Ht as [tx [Hx Ht]].
    destruct (IH tx Hx Hwf Hnm) as [Hg [Hs Hd]]. destruct tx as [[bx ix dx ux] mx]. unf Ht.
    destruct bx; try discriminate. inversion Ht; subst; clear Ht. cbn in Hg.
    split; [exact (A_verify x ux Hg) | split; [exact Hs | intros w []]].
  Qed.
  Lemma nz_one : nz [1%N]. Proof. unfold nz; cbn; lia. Qed.
  Lemma stmt_dupif x : stmt x -> stmt (MDupIf x).
  Proof.
    intros IH t Ht Hwf Hnm. cbn [type_of] in Ht. apply rbind_ok in Ht. destruct Ht as [tx [Hx Ht]].
    destruct (IH tx Hx Hwf Hnm) as [Hg [Hs Hd]]. destruct tx as [[bx ix dx ux] mx]. unf Ht.
    destruct bx; try discriminate; destruct ix; try discriminate. inversion Ht; subst; clear Ht. cbn in Hg, Hs.
    split; [exact (A_dupif x Hg Hs)|]. split; intros w Hin; cbn [all_sat all_dsat sd fst snd] in Hin.
    - apply in_map_iff in Hin. destruct Hin as [wx [<- Hwx]]. rewrite (Hs wx Hwx). cbn. split; [reflexivity|]. intros _. apply nz_one.
    - destruct Hin as [<-|[]]. cbn. split; [reflexivity | discriminate].
  Qed.
  Lemma stmt_nonzero x : stmt x -> stmt (MNonZero x).
  Proof.
    intros IH t Ht Hwf Hnm. cbn [type_of] in Ht. apply rbind_ok in Ht. destruct Ht as [tx [Hx Ht]].
    destruct (IH tx Hx Hwf Hnm) as [Hg [Hs Hd]]. destruct tx as [[bx ix dx ux] mx]. unf Ht.
    destruct ix; cbn in Ht; try discriminate; destruct bx; try discriminate; inversion Ht; subst; clear Ht; cbn in Hg, Hs.
    - split.
      + apply (A_nonzero x ux Hg). intros w Hw. apply Hs in Hw. cbn in Hw. destruct Hw as [Hl Hn].
        destruct w as [|a r]; [discriminate|]. exists a, r. split; [reflexivity|]. apply (Hn eq_refl).
      + split; [exact Hs|]. intros w Hin. destruct Hin as [<-|[]]. cbn. split; [reflexivity | discriminate].
    - split.
      + apply (A_nonzero x ux Hg). intros w Hw. pose proof (Hs w Hw) as Hn. cbn in Hn. specialize (Hn eq_refl).
        destruct w as [|a r]; [exfalso; exact Hn|]. exists a, r. split; [reflexivity | exact Hn].
      + split; [exact Hs|]. intros w Hin. destruct Hin as [<-|[]]. cbn. discriminate.
  Qed.

  Ltac use_in := repeat match goal with
    | Ha : In ?a ?L, H : forall w, In w ?L -> _ |- _ => pose proof (H a Ha); clear Ha
    end.
  Ltac lsolve :=
    intros [?H1 ?H2] [?H3 ?H4]; split; intros w Hin;
    repeat (apply in_app_or in Hin; destruct Hin as [Hin|Hin]);
    try (apply in_cross in Hin; destruct Hin as [?a [?b [?Ha [?Hb ->]]]]);
    try (apply in_map_iff in Hin; destruct Hin as [?a [<- ?Ha]]);
    try contradiction; use_in; cbn [wshape] in *; shp.

  Lemma lshape_or_b ix iz Sx Dx Sz Dz : lshape ix Sx Dx -> lshape iz Sz Dz ->
    lshape (match ix, iz with
            | IZero, IZero => IZero
            | IZero, IOne | IOne, IZero | IZero, IOneNonZero | IOneNonZero, IZero => IOne
            | _, _ => IAny end) (cross Dx Sz ++ cross Sx Dz) (cross Dx Dz).
  Proof. destruct ix, iz; lsolve. Qed.
  Lemma lshape_or_d ix iz Sx Dx Sz Dz : lshape ix Sx Dx -> lshape iz Sz Dz ->
    lshape (or_dc_input ix iz) (Sx ++ cross Dx Sz) (cross Dx Dz).
  Proof. destruct ix, iz; cbn [or_dc_input]; lsolve. Qed.
  Lemma lshape_or_c ix iz Sx Dx Sz Dz : lshape ix Sx Dx -> lshape iz Sz Dz ->
    lshape (or_dc_input ix iz) (Sx ++ cross Dx Sz) [].
  Proof. destruct ix, iz; cbn [or_dc_input]; lsolve. Qed.
  Lemma lshape_or_i ix iz Sx Dx Sz Dz : lshape ix Sx Dx -> lshape iz Sz Dz ->
    lshape (match ix, iz with IZero, IZero => IOne | _, _ => IAny end)
           (map (cons [1%N]) Sx ++ map (cons []) Sz) (map (cons [1%N]) Dx ++ map (cons []) Dz).
  Proof. destruct ix, iz; lsolve. Qed.

  Lemma lshape_andor ia ib ic Sa Da Sb Db Sc Dc : lshape ia Sa Da -> lshape ib Sb Db -> lshape ic Sc Dc ->
    lshape (match ia, ib, ic with
            | IZero, IZero, IZero => IZero
            | IZero, IOne, IOne | IZero, IOne, IOneNonZero | IZero, IOneNonZero, IOne
            | IZero, IOneNonZero, IOneNonZero | IOne, IZero, IZero | IOneNonZero, IZero, IZero => IOne
            | _, _, _ => IAny end) (cross Sa Sb ++ cross Da Sc) (cross Da Dc).
  Proof.
    intros [H1 H2] [H3 H4] [H5 H6]. destruct ia, ib, ic; split; intros w Hin;
    repeat (apply in_app_or in Hin; destruct Hin as [Hin|Hin]);
    try (apply in_cross in Hin; destruct Hin as [?a [?b [?Ha [?Hb ->]]]]);
    try contradiction; use_in; cbn [wshape] in *; shp.
  Qed.

  Ltac two_children IHx IHy Ht Hwf Hnm tx ty Hgx Hsx Hgy Hsy :=
    cbn [type_of] in Ht; apply rbind_ok in Ht; destruct Ht as [tx [Hx Ht]];
    apply rbind_ok in Ht; destruct Ht as [ty [Hy Ht]];
    cbn [wf no_multi] in Hwf, Hnm; destruct Hwf as [Hwx Hwy]; destruct Hnm as [Hnx Hny];
    destruct (IHx tx Hx Hwx Hnx) as [Hgx Hsx]; destruct (IHy ty Hy Hwy Hny) as [Hgy Hsy];
    destruct tx as [[bx ix dx ux] mx]; destruct ty as [[b2 i2 d2 u2] m2]; unf Ht.

  Lemma stmt_and_v x y : stmt x -> stmt y -> stmt (MAndV x y).
  Proof.
    intros IHx IHy t Ht Hwf Hnm. two_children IHx IHy Ht Hwf Hnm t1 t2 Hgx Hsx Hgy Hsy.
    unfold shape in *. cbn [t_corr c_input] in *. rewrite sat_and_v, dsat_and_v.
    destruct bx, b2; try discriminate; inversion Ht; subst; clear Ht; cbn in Hgx, Hgy;
    (split; [| cbn [t_corr c_input]; eapply lshape_and_sat; eassumption]).
    - exact (A_andv_B x y u2 Hgx Hgy).
    - exact (A_andv_K x y Hgx Hgy).
    - exact (A_andv_V x y Hgx Hgy).
  Qed.

  Lemma stmt_and_b x y : stmt x -> stmt y -> stmt (MAndB x y).
  Proof.
    intros IHx IHy t Ht Hwf Hnm. two_children IHx IHy Ht Hwf Hnm t1 t2 Hgx Hsx Hgy Hsy.
    unfold shape in *. cbn [t_corr c_input] in *. unfold all_sat, all_dsat. rewrite sd_and_b. cbn [fst snd].
    destruct bx, b2; try discriminate; inversion Ht; subst; clear Ht; cbn in Hgx, Hgy.
    split; [exact (A_andb x y ux u2 Hgx Hgy) | cbn [t_corr c_input]; apply lshape_and; assumption].
  Qed.

  Lemma stmt_or_b x y : stmt x -> stmt y -> stmt (MOrB x y).
  Proof.
    intros IHx IHy t Ht Hwf Hnm. two_children IHx IHy Ht Hwf Hnm t1 t2 Hgx Hsx Hgy Hsy.
    unfold shape in *. cbn [t_corr c_input] in *. unfold all_sat, all_dsat. rewrite sd_or_b. cbn [fst snd].
    destruct dx; cbn [negb] in Ht; try discriminate. destruct d2; cbn [negb] in Ht; try discriminate.
    destruct bx, b2; try discriminate; inversion Ht; subst; clear Ht; cbn in Hgx, Hgy.
    split; [exact (A_orb x y ux u2 Hgx Hgy) | cbn [t_corr c_input]; apply lshape_or_b; assumption].
  Qed.

  Lemma stmt_or_c x y : stmt x -> stmt y -> stmt (MOrC x y).
  Proof.
    intros IHx IHy t Ht Hwf Hnm. two_children IHx IHy Ht Hwf Hnm t1 t2 Hgx Hsx Hgy Hsy.
    unfold shape in *. cbn [t_corr c_input] in *. rewrite sat_or_c.
    destruct dx; cbn [negb] in Ht; try discriminate. destruct ux; cbn [negb] in Ht; try discriminate.
    destruct bx, b2; try discriminate; inversion Ht; subst; clear Ht; cbn in Hgx, Hgy.
    split; [exact (A_orc x y Hgx Hgy)|]. cbn [t_corr c_input].
    assert (Hd : dsat (MOrC x y) = []).
    { unfold all_dsat. cbn [sd]. destruct (sd ke A x), (sd ke A y). reflexivity. }
    rewrite Hd. eapply lshape_or_c; eassumption.
  Qed.

  Lemma stmt_or_d x y : stmt x -> stmt y -> stmt (MOrD x y).
  Proof.
    intros IHx IHy t Ht Hwf Hnm. two_children IHx IHy Ht Hwf Hnm t1 t2 Hgx Hsx Hgy Hsy.
    unfold shape in *. cbn [t_corr c_input] in *. unfold all_sat, all_dsat. rewrite sd_or_d. cbn [fst snd].
    destruct dx; cbn [negb] in Ht; try discriminate. destruct ux; cbn [negb] in Ht; try discriminate.
    destruct bx, b2; try discriminate; inversion Ht; subst; clear Ht; cbn in Hgx, Hgy.
    split; [exact (A_ord x y u2 Hgx Hgy) | cbn [t_corr c_input]; apply lshape_or_d; assumption].
  Qed.

  Lemma stmt_or_i x y : stmt x -> stmt y -> stmt (MOrI x y).
  Proof.
    intros IHx IHy t Ht Hwf Hnm. two_children IHx IHy Ht Hwf Hnm t1 t2 Hgx Hsx Hgy Hsy.
    unfold shape in *. cbn [t_corr c_input] in *. unfold all_sat, all_dsat. rewrite sd_or_i. cbn [fst snd].
    destruct bx, b2; try discriminate; inversion Ht; subst; clear Ht; cbn in Hgx, Hgy;
    (split; [| cbn [t_corr c_input]; apply lshape_or_i; assumption]).
    - exact (A_ori_B x y ux u2 Hgx Hgy).
    - exact (A_ori_K x y Hgx Hgy).
    - exact (A_ori_V x y Hgx Hgy).
  Qed.

  Lemma stmt_andor a b c : stmt a -> stmt b -> stmt c -> stmt (MAndOr a b c).
  Proof.
    intros IHa IHb IHc t Ht Hwf Hnm.
    cbn [type_of] in Ht. apply rbind_ok in Ht. destruct Ht as [ta [Ha Ht]].
    apply rbind_ok in Ht. destruct Ht as [tb [Hb Ht]]. apply rbind_ok in Ht. destruct Ht as [tc [Hc Ht]].
    cbn [wf no_multi] in Hwf, Hnm. destruct Hwf as [Hwa [Hwb Hwc]]. destruct Hnm as [Hna [Hnb Hnc]].
    destruct (IHa ta Ha Hwa Hna) as [Hga Hsa]. destruct (IHb tb Hb Hwb Hnb) as [Hgb Hsb].
    destruct (IHc tc Hc Hwc Hnc) as [Hgc Hsc].
    destruct ta as [[ba ia da ua] ma], tb as [[bb ib db ub] mb], tc as [[bc ic dc uc] mc]. unf Ht.
    unfold shape in *. cbn [t_corr c_input] in *. unfold all_sat, all_dsat. rewrite sd_andor. cbn [fst snd].
    destruct da; cbn [negb] in Ht; try discriminate. destruct ua; cbn [negb] in Ht; try discriminate.
    destruct ba, bb, bc; try discriminate; inversion Ht; subst; clear Ht; cbn in Hga, Hgb, Hgc;
    (split; [| cbn [t_corr c_input]; eapply lshape_andor; eassumption]).
    - exact (A_andor_B a b c ub uc Hga Hgb Hgc).
    - exact (A_andor_K a b c Hga Hgb Hgc).
    - exact (A_andor_V a b c Hga Hgb Hgc).
  Qed.

  (* ---------- thresh: typing, shapes, assembly ---------- *)
  Definition tys_of (xs : list ms) : res (list ty) :=
    (fix go (l : list ms) : res (list ty) :=
       match l with
       | [] => ROk []
       | x :: r => rbind (type_of x) (fun t => rbind (go r) (fun ts => ROk (t :: ts)))
       end) xs.
  Lemma tys_of_ok xs : forall ts, tys_of xs = ROk ts -> Forall2 (fun x t => type_of x = ROk t) xs ts.
  Proof.
    induction xs as [|x r IH]; intros ts H; cbn in H.
    - inversion H. constructor.
    - apply rbind_ok in H. destruct H as [t [Hx H]]. apply rbind_ok in H. destruct H as [ts' [Hr H]].
      inversion H; subst. constructor; [exact Hx | apply IH, Hr].
  Qed.

  Definition wlen (i : input) : nat := match i with IZero => 0 | IOne | IOneNonZero => 1 | _ => 2 end.
  Lemma weight_wlen c : weight c = N.of_nat (wlen (c_input c)).
  Proof. destruct c as [b i d u]; destruct i; reflexivity. Qed.

  Lemma comb_len xs ts :
    Forall2 (fun x t => lshape (c_input (t_corr t)) (sat x) (dsat x)) xs ts ->
    (sumw (map t_corr ts) <= 1)%N ->
    forall j w, In w (thresh_comb j (map (sd ke A) xs)) -> N.of_nat (length w) = sumw (map t_corr ts).
  Proof.
    induction 1 as [|x t xs' ts' Hx Hr IH]; intros Hs j w Hin.
    - cbn in Hin. destruct j; [|contradiction]. destruct Hin as [<-|[]]. reflexivity.
    - cbn [map sumw] in *. rewrite weight_wlen in *.
      cbn [thresh_comb] in Hin. destruct (sd ke A x) as [sx dx] eqn:Ex.
      destruct Hx as [Hxs Hxd]. unfold all_sat, all_dsat in Hxs, Hxd. rewrite Ex in Hxs, Hxd. cbn [fst snd] in Hxs, Hxd.
      assert (Hle : (sumw (map t_corr ts') <= 1)%N) by lia.
      assert (Hw1 : (wlen (c_input (t_corr t)) <= 1)%nat) by lia.
      assert (Hlen : forall b a, wshape (c_input (t_corr t)) b a -> length a = wlen (c_input (t_corr t))).
      { intros b a Ha. destruct (c_input (t_corr t)); cbn in *; try lia; try (subst; reflexivity); tauto. }
      apply in_app_or in Hin. destruct Hin as [Hin|Hin].
      + destruct j as [|j']; [contradiction|]. apply in_cross in Hin. destruct Hin as [a [b [Ha [Hb ->]]]].
        rewrite app_length, Nat2N.inj_add, (IH Hle j' b Hb), (Hlen true a (Hxs a Ha)). reflexivity.
      + apply in_cross in Hin. destruct Hin as [a [b [Ha [Hb ->]]]].
        rewrite app_length, Nat2N.inj_add, (IH Hle j b Hb), (Hlen false a (Hxd a Ha)). reflexivity.
  Qed.

  Lemma stmt_thresh k xs : Forall stmt xs -> stmt (MThresh k xs).
  Proof.
    intros IH t Ht Hwf Hnm. cbn [type_of] in Ht. fold (tys_of xs) in Ht.
    apply rbind_ok in Ht. destruct Ht as [ts [Hts Ht]]. apply tys_of_ok in Hts.
    cbn [wf no_multi] in Hwf, Hnm. destruct Hwf as [Hk [Hn Hwf]].
    (* children: good and shape *)
    assert (Hall : Forall2 (fun x t => good x t /\ shape x t) xs ts).
    { clear Ht Hk Hn. revert ts Hts Hwf Hnm. induction IH as [|x r Hx Hr IHr]; intros ts Hts Hwf Hnm.
      - inversion Hts. constructor.
      - inversion Hts as [|x' t' r' ts' Hxt Hrt]; subst. destruct Hwf as [Hw1 Hw2]. destruct Hnm as [Hn1 Hn2].
        constructor; [apply Hx; assumption | apply IHr; assumption]. }
    unfold t_threshold in Ht. destruct (c_threshold k (map t_corr ts)) as [c|] eqn:Ec; [|discriminate].
    inversion Ht; subst; clear Ht.
    destruct xs as [|x0 r]; [cbn in Hk; lia|]. inversion Hall as [|x0' t0 r' ts0 [Hg0 Hs0] Hrest]; subst.
    unfold c_threshold in Ec. cbn [map] in Ec. destruct (loop_first (t_corr t0) (map t_corr ts0)) as [Lt Lf].
    destruct (child_ok true (t_corr t0) && forallb (child_ok false) (map t_corr ts0)) eqn:Eok.
    2:{ destruct (Lf eq_refl) as [err He]. rewrite He in Ec. discriminate. }
    rewrite (Lt eq_refl) in Ec. inversion Ec; subst; clear Ec.
    apply andb_prop in Eok. destruct Eok as [Ok0 Okr].
    unfold child_ok in Ok0. destruct t0 as [[b0 i0 d0 u0] m0]. cbn [t_corr c_base c_unit c_dissat] in Ok0.
    destruct b0, u0, d0; try discriminate. cbn in Hg0.
    assert (HW : Forall (fun x => goodW x true) r).
    { clear -Hrest Okr. induction Hrest as [|x t r ts [Hg _] Hr IHr]; [constructor|].
      cbn [map forallb] in Okr. apply andb_prop in Okr. destruct Okr as [O1 O2].
      constructor; [|apply IHr, O2]. unfold child_ok in O1. destruct t as [[b i d u] m].
      cbn [t_corr c_base c_unit c_dissat] in O1. destruct b, u, d; try discriminate. exact Hg. }
    split.
    - cbn. apply A_thresh; auto; cbn [length] in *; lia.
    - unfold shape. cbn [t_corr c_input]. unfold all_sat, all_dsat. rewrite sd_thresh. cbn [fst snd].
      assert (Hsh : Forall2 (fun x t => lshape (c_input (t_corr t)) (sat x) (dsat x)) (x0 :: r)
                            ({| t_corr := {| c_base := BB; c_input := i0; c_dissat := true; c_unit := true |}; t_mall := m0 |} :: ts0)).
      { constructor; [exact Hs0|]. clear -Hrest. induction Hrest as [|x t r ts [_ Hs] Hr IHr]; constructor; auto. }
      pose proof (comb_len _ _ Hsh) as Hcl. cbn [map sumw t_corr] in Hcl.
      match goal with |- lshape (match ?e with _ => _ end) _ _ => remember e as sw eqn:Esw end.
      destruct sw as [|[p|p|]]; split; intros w Hin; cbn [wshape]; try exact I.
      + pose proof (Hcl ltac:(lia) _ _ Hin) as Hl. destruct w; [reflexivity | cbn in Hl; lia].
      + pose proof (Hcl ltac:(lia) _ _ Hin) as Hl. destruct w; [reflexivity | cbn in Hl; lia].
      + pose proof (Hcl ltac:(lia) _ _ Hin) as Hl. lia.
      + pose proof (Hcl ltac:(lia) _ _ Hin) as Hl. lia.
  Qed.

  (* ---------- leaves: shapes, and the theorem ---------- *)
  Lemma shape_hash look h : (forall p, look h = Some p -> blen p = 32%N) ->
    lshape IOneNonZero (fst (hash_sd look h)) (snd (hash_sd look h)).
  Proof.
    intros Hl. unfold hash_sd. cbn [fst snd]. split; intros w Hin.
    - unfold opt_list in Hin. destruct (look h) as [p|] eqn:E; cbn in Hin; [|contradiction].
      destruct Hin as [<-|[]]. cbn. split; [reflexivity|]. intros _. unfold nz. rewrite (Hl p eq_refl). lia.
    - destruct Hin as [<-|[]]. cbn. split; [reflexivity | discriminate].
  Qed.

  Lemma top_rev_nz (sigs : list bytes) tl : length sigs <> 0%nat -> (forall s, In s sigs -> nz s) -> top_nz (rev sigs ++ tl).
  Proof.
    intros Hl Hnz. destruct (rev sigs) as [|a r] eqn:Er.
    - exfalso. apply Hl. rewrite <- rev_length, Er. reflexivity.
    - cbn. apply Hnz. apply in_rev. rewrite Er. left. reflexivity.
  Qed.

  Theorem theoremA : forall m, stmt m.
  Proof.
    induction m using ms_ind'; try (intros t Ht Hwf Hnm; cbn in Hnm; contradiction).
    - (* 1 *) intros t Ht _ _. inversion Ht; subst. split; [apply good_true|].
      split; intros w Hin; cbn in Hin; [destruct Hin as [<-|[]]; reflexivity | contradiction].
    - (* 0 *) intros t Ht _ _. inversion Ht; subst. split; [apply good_false|].
      split; intros w Hin; cbn in Hin; [contradiction | destruct Hin as [<-|[]]; reflexivity].
    - (* pk_k *) intros t Ht _ _. inversion Ht; subst. split; [apply good_pk_k|].
      split; intros w Hin; cbn in Hin.
      + unfold opt_list in Hin. destruct (a_sig A k) as [sg|] eqn:Es; cbn in Hin; [|contradiction].
        destruct Hin as [<-|[]]. cbn. split; [reflexivity|]. intros _. apply (ok_sig HA k sg Es).
      + destruct Hin as [<-|[]]. cbn. split; [reflexivity | discriminate].
    - (* pk_h *) intros t Ht _ _. inversion Ht; subst. split; [apply good_pk_h|].
      split; intros w Hin; cbn in Hin.
      + unfold opt_list in Hin. destruct (a_sig A k) as [sg|] eqn:Es; cbn in Hin; [|contradiction].
        destruct Hin as [<-|[]]. cbn. intros _. apply (ok_keylen HA).
      + cbn. discriminate.
    - (* after *) intros ty0 Ht Hwf _. inversion Ht; subst. split; [apply good_after, Hwf|].
      split; intros w Hin; cbn [all_sat all_dsat sd fst snd] in Hin; [|contradiction].
      destruct (a_after A t); [|contradiction]. destruct Hin as [<-|[]]. reflexivity.
    - (* older *) intros ty0 Ht Hwf _. inversion Ht; subst. split; [apply good_older, Hwf|].
      split; intros w Hin; cbn [all_sat all_dsat sd fst snd] in Hin; [|contradiction].
      destruct (a_older A t); [|contradiction]. destruct Hin as [<-|[]]. reflexivity.
    - intros t Ht Hwf _. inversion Ht; subst. split; [apply good_sha256, Hwf|].
      apply (shape_hash (a_sha256 A) h). intros p Hp. apply (ok_sha256 HA h p Hp).
    - intros t Ht Hwf _. inversion Ht; subst. split; [apply good_hash256, Hwf|].
      apply (shape_hash (a_hash256 A) h). intros p Hp. apply (ok_hash256 HA h p Hp).
    - intros t Ht Hwf _. inversion Ht; subst. split; [apply good_ripemd160, Hwf|].
      apply (shape_hash (a_ripemd160 A) h). intros p Hp. apply (ok_ripemd160 HA h p Hp).
    - intros t Ht Hwf _. inversion Ht; subst. split; [apply good_hash160, Hwf|].
      apply (shape_hash (a_hash160 A) h). intros p Hp. apply (ok_hash160 HA h p Hp).
    - apply stmt_alt; assumption.
    - apply stmt_swap; assumption.
    - apply stmt_check; assumption.
    - apply stmt_dupif; assumption.
    - apply stmt_verify; assumption.
    - apply stmt_nonzero; assumption.
    - apply stmt_zne; assumption.
    - apply stmt_and_v; assumption.
    - apply stmt_and_b; assumption.
    - apply stmt_andor; assumption.
    - apply stmt_or_b; assumption.
    - apply stmt_or_d; assumption.
    - apply stmt_or_c; assumption.
    - apply stmt_or_i; assumption.
    - apply stmt_thresh; assumption.
    - (* multi *) intros t Ht Hwf _. inversion Ht; subst. cbn [wf] in Hwf. destruct Hwf as [Hk [Hn [Htap _]]].
      destruct (A_multi_gen k ks Hk Hn Htap) as [Hs Hd]. split.
      + split; intros w rest al Hin; cbn [all_sat all_dsat sd fst snd] in Hin.
        * apply in_map_iff in Hin. destruct Hin as [sigs [<- Hsg]]. exists [1%N]. split; [apply Hs, Hsg | apply goodval_one].
        * destruct Hin as [<-|[]]. apply Hd.
      + split; intros w Hin; cbn [all_sat all_dsat sd fst snd] in Hin; [|cbn; discriminate].
        apply in_map_iff in Hin. destruct Hin as [sigs [<- Hsg]]. destruct (pick_sigs_sub ks _ _ Hsg) as [_ [Hl Hnz]].
        cbn. intros _. apply top_rev_nz; [rewrite Hl; clear -Hk; lia | exact Hnz].
    - (* sortedmulti *) intros t Ht Hwf _. inversion Ht; subst. cbn [wf] in Hwf. destruct Hwf as [Hk [Hn [Htap Hlen]]].
      destruct (A_multi_gen k (ksort ke ks) ltac:(rewrite Hlen; exact Hk) ltac:(rewrite Hlen; exact Hn) Htap) as [Hs Hd].
      rewrite Hlen in Hs, Hd. split.
      + split; intros w rest al Hin; cbn [all_sat all_dsat sd fst snd] in Hin.
        * apply in_map_iff in Hin. destruct Hin as [sigs [<- Hsg]]. exists [1%N]. split; [apply Hs, Hsg | apply goodval_one].
        * destruct Hin as [<-|[]]. apply Hd.
      + split; intros w Hin; cbn [all_sat all_dsat sd fst snd] in Hin; [|cbn; discriminate].
        apply in_map_iff in Hin. destruct Hin as [sigs [<- Hsg]]. destruct (pick_sigs_sub (ksort ke ks) _ _ Hsg) as [_ [Hl Hnz]].
        cbn. intros _. apply top_rev_nz; [rewrite Hl; clear -Hk; lia | exact Hnz].
    - (* multi_a *) intros t Ht Hwf _. inversion Ht; subst. cbn [wf] in Hwf. destruct Hwf as [Hk [Hn [Htap _]]].
      destruct (A_multi_a_gen k ks Hk Hn Htap) as [Hs Hd]. split.
      + split; intros w rest al Hin; cbn [all_sat all_dsat sd fst snd] in Hin.
        * exists [1%N]. split; [apply Hs, Hin | apply goodval_one].
        * destruct Hin as [<-|[]]. apply Hd.
      + split; intros w Hin; exact I.
    - (* sortedmulti_a *) intros t Ht Hwf _. inversion Ht; subst. cbn [wf] in Hwf. destruct Hwf as [Hk [Hn [Htap Hlen]]].
      destruct (A_multi_a_gen k (ksort ke ks) ltac:(rewrite Hlen; exact Hk) ltac:(rewrite Hlen; exact Hn) Htap) as [Hs Hd].
      rewrite Hlen in Hd. split.
      + split; intros w rest al Hin; cbn [all_sat all_dsat sd fst snd] in Hin.
        * exists [1%N]. split; [apply Hs, Hin | apply goodval_one].
        * destruct Hin as [<-|[]]. apply Hd.
      + split; intros w Hin; exact I.
  Qed.
End TheoremA.

(* the arithmetic hypotheses are theorems (ScriptNumProofs.v) *)
Theorem theoremA_closed (e : env) (ke : keyenv) (A : assets) : assets_ok e ke A ->
  (forall kbs, e_sigok e kbs [] = false) ->
  forall (m : ms) (t : ty), type_of m = ROk t -> wf e ke m -> no_multi m ->
    good e ke A m t /\ shape ke A m t.
Proof.
  intros HA Hse. apply (theoremA e ke A); auto.
  - intros z Hz. apply num_roundtrip; lia.
  - intros z Hz. apply num_roundtrip; lia.
  - apply num_truthy.
  - intros v z. apply num_truthy_iff.
Qed.

(* a table satisfaction of a B-typed script is accepted as witness-script input *)
Lemma witness_script_accepts (e : env) (ke : keyenv) (A : assets) :
  assets_ok e ke A -> (forall kbs, e_sigok e kbs [] = false) ->
  forall (m : ms) (t : ty), type_of m = ROk t -> c_base (t_corr t) = BB -> wf e ke m -> no_multi m ->
  forall w, In w (all_sat ke A m) -> accepts e (enc ke m) w = true.
Proof.
  intros HA Hse m t Ht Hb Hwf Hnm w Hin.
  destruct (theoremA_closed e ke A HA Hse m t Ht Hwf Hnm) as [Hg _].
  unfold good in Hg. rewrite Hb in Hg. destruct Hg as [Hs _].
  destruct (Hs w [] [] Hin) as [v [Hr [Htr _]]]. rewrite app_nil_r in Hr.
  unfold accepts. rewrite Hr. cbn. exact Htr.
Qed.
