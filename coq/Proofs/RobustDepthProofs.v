(* C11 — the depth guard: if every constructor computes tree_height = 0 (leaf) / 1 + max of ALL
   children, the number the guard compares with the limit IS the real nesting depth, so an
   accepted tree is at most DEPTH_LIMIT deep. (The per-constructor formula is what the tie
   checks against the compiled ExtData on every run: Tables/RobustCasesCheck.v height_bad.) *)
From Coq Require Import List NArith Bool Lia Arith.
From Verif Require Import RobustModel RobustTreeProofs.
Import ListNotations.

Arguments N.of_nat : simpl never. Arguments N.max : simpl never. Arguments N.add : simpl never.

Fixpoint lib_heights (l : list rtree) : list N := match l with [] => [] | c :: r => lib_height c :: lib_heights r end.

Lemma lib_height_node : forall x cs, lib_height (RNode x cs) = tree_height_model (lib_heights cs).
Proof. intros. reflexivity. Qed.

Lemma nmax_list_forest : forall cs, (forall c, In c cs -> (lib_height c + 1 = N.of_nat (rheight c))%N) -> cs <> [] ->
  (nmax_list (lib_heights cs) + 1 = N.of_nat (rheight_forest cs))%N.
Proof.
  induction cs as [|c r IH]; intros H Hne; [congruence|].
  cbn [lib_heights nmax_list rheight_forest]. pose proof (H c (or_introl eq_refl)) as Hc.
  destruct r as [|d r'].
  - cbn [lib_heights nmax_list rheight_forest]. pose proof (rheight_pos c). lia.
  - assert (Hr : (nmax_list (lib_heights (d :: r')) + 1 = N.of_nat (rheight_forest (d :: r')))%N).
    { apply IH; [intros; apply H; now right|discriminate]. }
    lia.
Qed.

Lemma rsize_forest_in : forall cs c, In c cs -> rsize c <= rsize_forest cs.
Proof. induction cs as [|d r IH]; intros c []; cbn [rsize_forest]; [subst; lia|]. specialize (IH c H). lia. Qed.

Lemma lib_height_real_n : forall n t, rsize t <= n -> (lib_height t + 1 = N.of_nat (rheight t))%N.
Proof.
  induction n as [|n IH]; intros [x cs] Hs.
  - pose proof (rsize_pos (RNode x cs)). lia.
  - rewrite lib_height_node, rheight_node. rewrite rsize_node in Hs.
    destruct cs as [|c r]; [reflexivity|].
    assert (H : forall c', In c' (c :: r) -> (lib_height c' + 1 = N.of_nat (rheight c'))%N).
    { intros c' Hin. apply IH. pose proof (rsize_forest_in _ _ Hin). lia. }
    pose proof (nmax_list_forest (c :: r) H ltac:(discriminate)) as Hm.
    unfold tree_height_model. cbn [lib_heights] in *. lia.
Qed.

Lemma lib_height_real : forall t, (lib_height t + 1 = N.of_nat (rheight t))%N.
Proof. intros t. apply (lib_height_real_n (rsize t)). lia. Qed.

(* the guard bounds the real depth (in the convention leaf = 0) *)
Theorem depth_guard_sound_proof : forall t, depth_guard (lib_height t) = true -> rheight t <= 403.
Proof.
  intros t H. unfold depth_guard, DEPTH_LIMIT in H. apply N.leb_le in H. pose proof (lib_height_real t). lia.
Qed.

(* and why the guard needs ALL children: with a formula that forgets the last child of a
   ternary node (the shape of seeded change C11-2) a tree of any depth passes *)
Fixpoint forgetful_height (t : rtree) : N :=
  match t with
  | RNode _ [a; b; c] => 1 + N.max (forgetful_height a) (forgetful_height b)
  | RNode _ cs => tree_height_model ((fix go (l : list rtree) : list N := match l with [] => [] | c :: r => forgetful_height c :: go r end) cs)
  end.
Fixpoint chain_c (n : nat) : rtree := match n with O => RNode 1 [] | S k => RNode 14 [RNode 0 []; RNode 0 []; chain_c k] end.

Lemma forgetful_chain : forall n, (forgetful_height (chain_c n) <= 1)%N.
Proof. induction n as [|k IH]; cbn [chain_c forgetful_height]; [cbn; lia|]. cbn. lia. Qed.
Lemma chain_depth : forall n, rheight (chain_c n) = S n.
Proof. induction n as [|k IH]; [reflexivity|]. cbn [chain_c]. rewrite rheight_node. cbn [rheight_forest]. rewrite IH. cbn. lia. Qed.

Theorem forgetful_guard_unsound_proof : forall n, depth_guard (forgetful_height (chain_c n)) = true /\ rheight (chain_c n) = S n.
Proof.
  intros n. split; [|apply chain_depth]. unfold depth_guard, DEPTH_LIMIT. apply N.leb_le. pose proof (forgetful_chain n). lia.
Qed.
