(* C13, interp_complete (partial): every entry of the specification's satisfaction table -- what
   the library's satisfier draws its answers from (C01/C02) -- is accepted by the interpreter's
   evaluator: on the abstraction of a table satisfaction of a fragment it returns normally with
   Satisfied on top (nothing for V fragments), on a table dissatisfaction with Dissatisfied.
   Fragments: [ccover]: all but the multisig leaves and raw_pk_h.
   The caller's assets must be genuine ([assets_ok], as in C01), signatures and keys are not the
   one-byte string 01, and the interpreter can parse the script's keys. *)
From Verif Require Import Exec Ser Ast Types TypeCheck SatSpec ExecLemmas TheoremA InterpModel InterpRefine.
From Coq Require Import Lia.
Local Open Scope N_scope.

Section Complete.
  Variable e : env.
  Variable ke : keyenv.
  Variable kp : bytes -> bool.
  Variable A : assets.

  Hypothesis Hnum4 : forall z, (0 <= z < 2147483648)%Z -> num_operand 4 (num_encode z) = Some z.
  Hypothesis Hnum5 : forall z, (0 <= z < 2147483648)%Z -> num_operand 5 (num_encode z) = Some z.
  Hypothesis Htruthy : forall z, (0 < z < 2147483648)%Z -> truthy (num_encode z) = true.
  Hypothesis Htruthy_num : forall v z, num_operand 4 v = Some z -> truthy v = negb (z =? 0)%Z.
  Hypothesis Hsig_empty : forall kbs, e_sigok e kbs [] = false.
  Hypothesis HA : assets_ok e ke A.
  Hypothesis Hsig1 : forall k s, a_sig A k = Some s -> s <> [1].
  Hypothesis Hkey1 : forall k, kb ke k <> [1].
  Hypothesis Hkparse : forall k, kp (kb ke k) = true.

  (* fragments covered: everything except the multisig leaves and raw_pk_h *)
  Fixpoint ccover (m : ms) : Prop :=
    match m with
    | MRawPkH _ | MMulti _ _ | MSortedMulti _ _ | MMultiA _ _ | MSortedMultiA _ _ => False
    | MAlt x | MSwap x | MCheck x | MDupIf x | MVerify x | MNonZero x | MZeroNotEqual x => ccover x
    | MAndV x y | MAndB x y | MOrB x y | MOrD x y | MOrC x y | MOrI x y => ccover x /\ ccover y
    | MAndOr a b c => ccover a /\ ccover b /\ ccover c
    | MThresh _ xs => (fix go (l : list ms) : Prop := match l with [] => True | x :: r => ccover x /\ go r end) xs
    | _ => True
    end.
  Lemma ccover_no_multi : forall m, ccover m -> no_multi m.
  Proof.
    induction m using ms_ind'; cbn [ccover no_multi]; try tauto.
    induction H as [|x r Hx Hr IHr]; [tauto|]. intros [H1 H2]. split; [apply Hx, H1 | apply IHr, H2].
  Qed.

  Notation sat m := (all_sat ke A m).
  Notation dsat m := (all_dsat ke A m).
  Notation ev m st := (ieval e ke kp m st).

  Definition Ab (w : wit) : astack := map elem_of w.
  Lemma Ab_app a b : Ab (a ++ b) = Ab a ++ Ab b. Proof. apply map_app. Qed.

  Lemma elem_of_push b : b <> [] -> b <> [1] -> elem_of b = EPush b.
  Proof.
    intros H0 H1. destruct b as [|x [|y r]]; [congruence | | reflexivity]. cbn.
    destruct (N.eqb_spec x 1); [subst; congruence | reflexivity].
  Qed.
  Lemma len_pos_ne (b : bytes) : 0 < blen b -> b <> [].
  Proof. destruct b; cbn; [lia | discriminate]. Qed.
  Lemma len32_ne1 (b : bytes) : blen b = 32 -> b <> [] /\ b <> [1].
  Proof. intros H. split; intros ->; cbn in H; lia. Qed.

  Definition resS (b : base) (r : astack) : astack := match b with BV => r | _ => ESat :: r end.

  Definition comp (m : ms) (b : base) : Prop :=
    (forall w r, In w (sat m) -> exists cs, ev m (Ab w ++ r) = XOk (resS b r) cs) /\
    (forall w r, In w (dsat m) -> exists cs, ev m (Ab w ++ r) = XOk (EDis :: r) cs).

  Lemma xbind_okk r f s1 c1 : r = XOk s1 c1 -> xbind r f = match f s1 with
                                                            | XOk st' cs' => XOk st' (c1 ++ cs')
                                                            | XErr er cs' => XErr er (c1 ++ cs')
                                                            | XPanic s => XPanic s end.
  Proof. intros ->. reflexivity. Qed.

  (* ---------------------------------------------------------------- leaves *)
  Lemma q_true : comp MTrue BB.
  Proof. split; intros w r H; cbn in H; [destruct H as [<-|[]]; eexists; reflexivity | contradiction]. Qed.
  Lemma q_false : comp MFalse BB.
  Proof. split; intros w r H; cbn in H; [contradiction | destruct H as [<-|[]]; eexists; reflexivity]. Qed.

  Lemma q_pk_k k : comp (MPkK k) BK.
  Proof.
    split; intros w r H; cbn in H.
    - unfold opt_list in H. destruct (a_sig A k) as [s|] eqn:Es; cbn in H; [|contradiction]. destruct H as [<-|[]].
      destruct (ok_sig _ _ _ HA k s Es) as [Hok Hlen]. cbn [Ab map app ieval]. unfold evaluate_pk.
      rewrite (elem_of_push s) by (first [apply (Hsig1 k s Es) | apply len_pos_ne; lia]). rewrite Hok. eexists; reflexivity.
    - destruct H as [<-|[]]. eexists; reflexivity.
  Qed.

  Lemma q_pk_h k : comp (MPkH k) BK.
  Proof.
    pose proof (ok_keylen _ _ _ HA k) as Hkl.
    assert (Hk : elem_of (kb ke k) = EPush (kb ke k)) by (apply elem_of_push; [apply len_pos_ne; lia | apply Hkey1]).
    split; intros w r H; cbn in H.
    - unfold opt_list in H. destruct (a_sig A k) as [s|] eqn:Es; cbn in H; [|contradiction]. destruct H as [<-|[]].
      destruct (ok_sig _ _ _ HA k s Es) as [Hok Hlen]. cbn [Ab map app ieval]. unfold evaluate_pkh. rewrite Hk.
      rewrite (ok_kh _ _ _ HA), bytes_eqb_refl, Hkparse. cbn [negb].
      rewrite (elem_of_push s) by (first [apply (Hsig1 k s Es) | apply len_pos_ne; lia]). rewrite Hok. eexists; reflexivity.
    - destruct H as [<-|[]]. cbn [Ab map app ieval]. unfold evaluate_pkh. rewrite Hk.
      rewrite (ok_kh _ _ _ HA), bytes_eqb_refl, Hkparse. eexists; reflexivity.
  Qed.

  Lemma q_after t : comp (MAfter t) BB.
  Proof.
    split; intros w r H; cbn [all_sat all_dsat sd fst snd] in H; [|contradiction].
    destruct (a_after A t) eqn:Ea; [|contradiction]. destruct H as [<-|[]].
    pose proof (ok_after _ _ _ HA t Ea) as Hc. unfold check_locktime in Hc. rewrite N2Z.id in Hc.
    cbv zeta in Hc. apply andb_prop in Hc. destruct Hc as [_ Hc]. apply andb_prop in Hc. destruct Hc as [Hc Hnf].
    apply andb_prop in Hc. destruct Hc as [Hu Hle]. apply negb_true_iff in Hnf.
    cbn [Ab map app ieval]. unfold evaluate_after. rewrite Hnf, Hu, Hle. eexists; reflexivity.
  Qed.

  Lemma q_older t : wf e ke (MOlder t) -> comp (MOlder t) BB.
  Proof.
    intros Hwf. cbn in Hwf. split; intros w r H; cbn [all_sat all_dsat sd fst snd] in H; [|contradiction].
    destruct (a_older A t) eqn:Ea; [|contradiction]. destruct H as [<-|[]].
    pose proof (ok_older _ _ _ HA t Ea) as Hc. unfold check_sequence in Hc. rewrite N2Z.id in Hc.
    apply andb_prop in Hc. destruct Hc as [_ Hc].
    assert (Hd : N.land t SEQ_DISABLE = 0).
    { apply N.bits_inj_0. intros n. rewrite N.land_spec. unfold SEQ_DISABLE.
      destruct (N.eq_dec n 31) as [->|Hn].
      - rewrite (N.bits_above_log2 t 31); [reflexivity|]. destruct (N.eq_dec t 0) as [->|Ht]; [cbn; lia|].
        apply N.log2_lt_pow2; lia.
      - change 2147483648 with (2 ^ 31). rewrite N.pow2_bits_false by congruence. apply andb_false_r. }
    rewrite Hd in Hc. cbn [N.eqb negb] in Hc.
    apply andb_prop in Hc. destruct Hc as [Hc Hle]. apply andb_prop in Hc. destruct Hc as [Hc Hty].
    apply andb_prop in Hc. destruct Hc as [Hv Hdis].
    assert (Hv' : (e_txversion e <? 2) = false) by (apply N.ltb_ge, N.leb_le, Hv).
    cbn [Ab map app ieval]. rewrite Hd. cbn [N.eqb negb]. unfold evaluate_older. rewrite Hv', Hdis, Hty, Hle. eexists; reflexivity.
  Qed.

  Lemma q_hash_gen (m : ms) (kd : ihk) (look : bytes -> option bytes) (h : bytes) :
    (forall st, ev m st = x_of_ev (evaluate_hash e kd h st)) ->
    sd ke A m = hash_sd look h ->
    (forall p, look h = Some p -> hash_of e kd p = h /\ blen p = 32) ->
    hash_of e kd zeros32 <> h ->
    comp m BB.
  Proof.
    intros Hev Hsd Hlook Hz. unfold comp, all_sat, all_dsat. rewrite Hsd. unfold hash_sd. cbn [fst snd].
    split; intros w r H.
    - unfold opt_list in H. destruct (look h) as [p|] eqn:El; cbn in H; [|contradiction]. destruct H as [<-|[]].
      destruct (Hlook p eq_refl) as [Hh Hl]. destruct (len32_ne1 p Hl) as [N0' N1'].
      rewrite Hev. cbn [Ab map app]. rewrite (elem_of_push p N0' N1'). unfold evaluate_hash. rewrite Hl, Hh, bytes_eqb_refl.
      eexists; reflexivity.
    - destruct H as [<-|[]]. rewrite Hev. cbn [Ab map app].
      assert (Hl : blen zeros32 = 32) by reflexivity. destruct (len32_ne1 zeros32 Hl) as [N0' N1'].
      rewrite (elem_of_push zeros32 N0' N1'). unfold evaluate_hash. rewrite Hl.
      rewrite (bytes_eqb_neq _ _ Hz). eexists; reflexivity.
  Qed.

  (* ---------------------------------------------------------------- wrappers *)
  Lemma q_same x y b : (forall st, ev y st = ev x st) -> sd ke A y = sd ke A x -> b <> BV -> comp x b -> comp y match b with BK => BB | o => o end.
  Proof.
    intros Hev Hsd Hb [Hs Hd]. unfold comp, all_sat, all_dsat. rewrite Hsd. split; intros w r H; rewrite Hev.
    - destruct (Hs w r H) as [cs Hc]. exists cs. destruct b; try contradiction; exact Hc.
    - apply Hd, H.
  Qed.

  Lemma q_dupif x : comp x BV -> comp (MDupIf x) BB.
  Proof.
    intros [Hs _]. split; intros w r H; cbn [all_sat all_dsat sd fst snd] in H.
    - apply in_map_iff in H. destruct H as [wx [<- Hwx]]. destruct (Hs wx r Hwx) as [cs Hc].
      cbn [Ab map app ieval elem_of N.eqb Pos.eqb xpop_bool]. change (map elem_of wx) with (Ab wx).
      rewrite (xbind_okk _ _ _ _ Hc). eexists; reflexivity.
    - destruct H as [<-|[]]. eexists; reflexivity.
  Qed.

  Lemma q_verify x b : b <> BV -> comp x b -> comp (MVerify x) BV.
  Proof.
    intros Hb [Hs _]. split; intros w r H; cbn [all_sat all_dsat sd fst snd] in H; [|contradiction].
    destruct (Hs w r H) as [cs Hc]. cbn [ieval]. rewrite (xbind_okk _ _ _ _ Hc).
    destruct b; try contradiction; eexists; reflexivity.
  Qed.

  Lemma q_zne x b : b <> BV -> comp x b -> comp (MZeroNotEqual x) BB.
  Proof.
    intros Hb [Hs Hd]. split; intros w r H; change (In w (sat x)) in H || change (In w (dsat x)) in H.
    - destruct (Hs w r H) as [cs Hc]. cbn [ieval]. rewrite (xbind_okk _ _ _ _ Hc).
      destruct b; try contradiction; eexists; reflexivity.
    - destruct (Hd w r H) as [cs Hc]. cbn [ieval]. rewrite (xbind_okk _ _ _ _ Hc). eexists; reflexivity.
  Qed.

  Lemma q_nonzero x b : b <> BV -> comp x b ->
    (forall w, In w (sat x) -> exists a r, w = a :: r /\ nz a) -> comp (MNonZero x) BB.
  Proof.
    intros Hb [Hs _] Hn. split; intros w r H; cbn [all_sat all_dsat sd fst snd] in H.
    - change (In w (sat x)) in H. destruct (Hn w H) as [a [w' [-> Ha]]]. destruct (Hs _ r H) as [cs Hc].
      cbn [ieval]. cbn [Ab map app] in *. unfold nz in Ha.
      assert (Hne : elem_of a <> EDis).
      { destruct a as [|y [|z t]]; cbn in *; [lia | destruct (y =? 1); discriminate | discriminate]. }
      destruct (elem_of a) eqn:Ea; try congruence; destruct b; try contradiction; eexists; exact Hc.
    - destruct H as [<-|[]]. eexists; reflexivity.
  Qed.

  (* ---------------------------------------------------------------- combinators *)
  Lemma q_and_v x y b : comp x BV -> comp y b -> comp (MAndV x y) b.
  Proof.
    intros [Hxs _] [Hys Hyd]. split; intros w r H.
    - rewrite sat_and_v in H. apply in_cross in H. destruct H as [a [c [Ha [Hc ->]]]].
      destruct (Hxs a (Ab c ++ r) Ha) as [c1 H1]. destruct (Hys c r Hc) as [c2 H2].
      cbn [ieval]. rewrite Ab_app, <- app_assoc, (xbind_okk _ _ _ _ H1). cbn [resS]. rewrite H2. eexists; reflexivity.
    - rewrite dsat_and_v in H. apply in_cross in H. destruct H as [a [c [Ha [Hc ->]]]].
      destruct (Hxs a (Ab c ++ r) Ha) as [c1 H1]. destruct (Hyd c r Hc) as [c2 H2].
      cbn [ieval]. rewrite Ab_app, <- app_assoc, (xbind_okk _ _ _ _ H1). cbn [resS]. rewrite H2. eexists; reflexivity.
  Qed.

  Lemma q_and_b x y bx by' : bx <> BV -> by' <> BV -> comp x bx -> comp y by' -> comp (MAndB x y) BB.
  Proof.
    intros Hbx Hby [Hxs Hxd] [Hys Hyd]. split; intros w r H.
    - unfold all_sat in H. rewrite sd_and_b in H. cbn [fst] in H. apply in_cross in H. destruct H as [a [c [Ha [Hc ->]]]].
      destruct (Hxs a (Ab c ++ r) Ha) as [c1 H1]. destruct (Hys c r Hc) as [c2 H2].
      cbn [ieval]. rewrite Ab_app, <- app_assoc, (xbind_okk _ _ _ _ H1).
      destruct bx; try contradiction; cbn [resS xpop_bool]; rewrite (xbind_okk _ _ _ _ H2);
        destruct by'; try contradiction; cbn [resS is_sat]; eexists; reflexivity.
    - unfold all_dsat in H. rewrite sd_and_b in H. cbn [snd] in H. apply in_cross in H. destruct H as [a [c [Ha [Hc ->]]]].
      destruct (Hxd a (Ab c ++ r) Ha) as [c1 H1]. destruct (Hyd c r Hc) as [c2 H2].
      cbn [ieval]. rewrite Ab_app, <- app_assoc, (xbind_okk _ _ _ _ H1). cbn [xpop_bool]. rewrite (xbind_okk _ _ _ _ H2).
      eexists; reflexivity.
  Qed.

  Lemma q_or_b x z bx bz : bx <> BV -> bz <> BV -> comp x bx -> comp z bz -> comp (MOrB x z) BB.
  Proof.
    intros Hbx Hbz [Hxs Hxd] [Hzs Hzd]. split; intros w r H.
    - unfold all_sat in H. rewrite sd_or_b in H. cbn [fst] in H. apply in_app_or in H.
      destruct H as [H|H]; apply in_cross in H; destruct H as [a [c [Ha [Hc ->]]]].
      + destruct (Hxd a (Ab c ++ r) Ha) as [c1 H1]. destruct (Hzs c r Hc) as [c2 H2].
        cbn [ieval]. rewrite Ab_app, <- app_assoc, (xbind_okk _ _ _ _ H1). cbn [xpop_bool]. rewrite (xbind_okk _ _ _ _ H2).
        destruct bz; try contradiction; cbn [resS is_dis]; eexists; reflexivity.
      + destruct (Hxs a (Ab c ++ r) Ha) as [c1 H1]. destruct (Hzd c r Hc) as [c2 H2].
        cbn [ieval]. rewrite Ab_app, <- app_assoc, (xbind_okk _ _ _ _ H1).
        destruct bx; try contradiction; cbn [resS xpop_bool]; rewrite (xbind_okk _ _ _ _ H2); eexists; reflexivity.
    - unfold all_dsat in H. rewrite sd_or_b in H. cbn [snd] in H. apply in_cross in H. destruct H as [a [c [Ha [Hc ->]]]].
      destruct (Hxd a (Ab c ++ r) Ha) as [c1 H1]. destruct (Hzd c r Hc) as [c2 H2].
      cbn [ieval]. rewrite Ab_app, <- app_assoc, (xbind_okk _ _ _ _ H1). cbn [xpop_bool]. rewrite (xbind_okk _ _ _ _ H2).
      eexists; reflexivity.
  Qed.

  Lemma q_or_c x z : comp x BB -> comp z BV -> comp (MOrC x z) BV.
  Proof.
    intros [Hxs Hxd] [Hzs _]. split; intros w r H.
    - rewrite sat_or_c in H. apply in_app_or in H. destruct H as [H|H].
      + destruct (Hxs w r H) as [c1 H1]. cbn [ieval]. rewrite (xbind_okk _ _ _ _ H1). eexists; reflexivity.
      + apply in_cross in H. destruct H as [a [c [Ha [Hc ->]]]].
        destruct (Hxd a (Ab c ++ r) Ha) as [c1 H1]. destruct (Hzs c r Hc) as [c2 H2].
        cbn [ieval]. rewrite Ab_app, <- app_assoc, (xbind_okk _ _ _ _ H1). cbn [xpop_bool resS] in *. rewrite H2. eexists; reflexivity.
    - assert (Hd : dsat (MOrC x z) = []) by (unfold all_dsat; cbn [sd]; destruct (sd ke A x), (sd ke A z); reflexivity).
      rewrite Hd in H. contradiction.
  Qed.

  Lemma q_or_d x z : comp x BB -> comp z BB -> comp (MOrD x z) BB.
  Proof.
    intros [Hxs Hxd] [Hzs Hzd]. split; intros w r H.
    - unfold all_sat in H. rewrite sd_or_d in H. cbn [fst] in H. apply in_app_or in H. destruct H as [H|H].
      + destruct (Hxs w r H) as [c1 H1]. cbn [ieval]. rewrite (xbind_okk _ _ _ _ H1). eexists; reflexivity.
      + apply in_cross in H. destruct H as [a [c [Ha [Hc ->]]]].
        destruct (Hxd a (Ab c ++ r) Ha) as [c1 H1]. destruct (Hzs c r Hc) as [c2 H2].
        cbn [ieval]. rewrite Ab_app, <- app_assoc, (xbind_okk _ _ _ _ H1). cbn [xpop_bool resS] in *. rewrite H2. eexists; reflexivity.
    - unfold all_dsat in H. rewrite sd_or_d in H. cbn [snd] in H. apply in_cross in H. destruct H as [a [c [Ha [Hc ->]]]].
      destruct (Hxd a (Ab c ++ r) Ha) as [c1 H1]. destruct (Hzd c r Hc) as [c2 H2].
      cbn [ieval]. rewrite Ab_app, <- app_assoc, (xbind_okk _ _ _ _ H1). cbn [xpop_bool]. rewrite H2. eexists; reflexivity.
  Qed.

  Lemma q_or_i x z b : comp x b -> comp z b -> comp (MOrI x z) b.
  Proof.
    intros [Hxs Hxd] [Hzs Hzd]. split; intros w r H.
    - unfold all_sat in H. rewrite sd_or_i in H. cbn [fst] in H. apply in_app_or in H.
      destruct H as [H|H]; apply in_map_iff in H; destruct H as [w' [<- Hw']]; cbn [Ab map app ieval elem_of N.eqb Pos.eqb xpop_bool];
        change (map elem_of w') with (Ab w'); [apply Hxs | apply Hzs]; exact Hw'.
    - unfold all_dsat in H. rewrite sd_or_i in H. cbn [snd] in H. apply in_app_or in H.
      destruct H as [H|H]; apply in_map_iff in H; destruct H as [w' [<- Hw']]; cbn [Ab map app ieval elem_of N.eqb Pos.eqb xpop_bool];
        change (map elem_of w') with (Ab w'); [apply Hxd | apply Hzd]; exact Hw'.
  Qed.

  Lemma q_andor a b c bb : comp a BB -> comp b bb -> comp c bb -> comp (MAndOr a b c) bb.
  Proof.
    intros [Has Had] [Hbs _] [Hcs Hcd]. split; intros w r H.
    - unfold all_sat in H. rewrite sd_andor in H. cbn [fst] in H. apply in_app_or in H.
      destruct H as [H|H]; apply in_cross in H; destruct H as [wa [wx [Hwa [Hwx ->]]]].
      + destruct (Has wa (Ab wx ++ r) Hwa) as [c1 H1]. destruct (Hbs wx r Hwx) as [c2 H2].
        cbn [ieval]. rewrite Ab_app, <- app_assoc, (xbind_okk _ _ _ _ H1). cbn [xpop_bool resS] in *. rewrite H2. eexists; reflexivity.
      + destruct (Had wa (Ab wx ++ r) Hwa) as [c1 H1]. destruct (Hcs wx r Hwx) as [c2 H2].
        cbn [ieval]. rewrite Ab_app, <- app_assoc, (xbind_okk _ _ _ _ H1). cbn [xpop_bool]. rewrite H2. eexists; reflexivity.
    - unfold all_dsat in H. rewrite sd_andor in H. cbn [snd] in H. apply in_cross in H. destruct H as [wa [wx [Hwa [Hwx ->]]]].
      destruct (Had wa (Ab wx ++ r) Hwa) as [c1 H1]. destruct (Hcd wx r Hwx) as [c2 H2].
      cbn [ieval]. rewrite Ab_app, <- app_assoc, (xbind_okk _ _ _ _ H1). cbn [xpop_bool]. rewrite H2. eexists; reflexivity.
  Qed.


  (* ---------------------------------------------------------------- thresh *)
  Definition bitN (x : elem) : N := match x with ESat => 1 | _ => 0 end.

  Lemma q_tloop k l : 1 <= k -> Forall (fun x => comp x BB) l ->
    forall j w, In w (thresh_comb j (map (sd ke A) l)) ->
    forall ns xp r, (xp = ESat \/ xp = EDis) ->
      exists cs, tloop e ke kp k l ns (xp :: Ab w ++ r)
                 = XOk ((if ns + bitN xp + N.of_nat j =? k then ESat else EDis) :: r) cs.
  Proof.
    intros Hk. induction 1 as [|x l' [Hxs Hxd] Hl IH]; intros j w Hin ns xp r Hxp.
    - cbn [map thresh_comb] in Hin. destruct j; [|contradiction]. destruct Hin as [<-|[]]. cbn [Ab map app tloop].
      destruct Hxp as [-> | ->]; cbn [bitN].
      + destruct (N.eqb_spec k 0); [lia|]. eexists. f_equal. f_equal.
        destruct (N.eqb_spec ns (k - 1)), (N.eqb_spec (ns + 1 + N.of_nat 0) k); try reflexivity; lia.
      + eexists. f_equal. f_equal.
        destruct (N.eqb_spec ns k), (N.eqb_spec (ns + 0 + N.of_nat 0) k); try reflexivity; lia.
    - cbn [map thresh_comb] in Hin. destruct (sd ke A x) as [sx dx] eqn:Ex.
      unfold all_sat, all_dsat in Hxs, Hxd. rewrite Ex in Hxs, Hxd. cbn [fst snd] in Hxs, Hxd.
      apply in_app_or in Hin. destruct Hin as [Hin|Hin].
      + destruct j as [|j']; [contradiction|]. apply in_cross in Hin. destruct Hin as [a [c [Ha [Hc ->]]]].
        destruct (Hxs a (Ab c ++ r) Ha) as [c1 H1]. cbn [resS] in H1.
        destruct (IH j' c Hc (ns + bitN xp) ESat r (or_introl eq_refl)) as [c2 H2].
        exists (c1 ++ c2). cbn [tloop]. rewrite Ab_app, <- app_assoc.
        destruct Hxp as [-> | ->]; cbn [xpop_bool bitN] in *; rewrite (xbind_okk _ _ _ _ H1);
          rewrite ?N.add_0_r in H2; rewrite H2; f_equal; f_equal;
          match goal with |- (if ?a =? k then _ else _) = (if ?b =? k then _ else _) => replace a with b by lia end; reflexivity.
      + apply in_cross in Hin. destruct Hin as [a [c [Ha [Hc ->]]]].
        destruct (Hxd a (Ab c ++ r) Ha) as [c1 H1].
        destruct (IH j c Hc (ns + bitN xp) EDis r (or_intror eq_refl)) as [c2 H2].
        exists (c1 ++ c2). cbn [tloop]. rewrite Ab_app, <- app_assoc.
        destruct Hxp as [-> | ->]; cbn [xpop_bool bitN] in *; rewrite (xbind_okk _ _ _ _ H1);
          rewrite ?N.add_0_r in H2; rewrite H2; f_equal; f_equal;
          match goal with |- (if ?a =? k then _ else _) = (if ?b =? k then _ else _) => replace a with b by lia end; reflexivity.
  Qed.

  Lemma q_thresh k x0 rest : 1 <= k -> comp x0 BB -> Forall (fun x => comp x BB) rest -> comp (MThresh k (x0 :: rest)) BB.
  Proof.
    intros Hk [H0s H0d] Hr.
    assert (Hgen : forall j w r, In w (thresh_comb j (sd ke A x0 :: map (sd ke A) rest)) ->
              exists cs, ev (MThresh k (x0 :: rest)) (Ab w ++ r) = XOk ((if N.of_nat j =? k then ESat else EDis) :: r) cs).
    { intros j w r Hin. cbn [thresh_comb] in Hin. destruct (sd ke A x0) as [s0 d0] eqn:E0.
      unfold all_sat, all_dsat in H0s, H0d. rewrite E0 in H0s, H0d. cbn [fst snd] in H0s, H0d.
      rewrite ev_thresh. apply in_app_or in Hin. destruct Hin as [Hin|Hin].
      - destruct j as [|j']; [contradiction|]. apply in_cross in Hin. destruct Hin as [a [c [Ha [Hc ->]]]].
        destruct (H0s a (Ab c ++ r) Ha) as [c1 H1]. cbn [resS] in H1.
        destruct (q_tloop k rest Hk Hr j' c Hc 0 ESat r (or_introl eq_refl)) as [c2 H2].
        exists (c1 ++ c2). rewrite Ab_app, <- app_assoc, (xbind_okk _ _ _ _ H1), H2. f_equal. f_equal. cbn [bitN].
        replace (0 + 1 + N.of_nat j') with (N.of_nat (S j')) by lia. reflexivity.
      - apply in_cross in Hin. destruct Hin as [a [c [Ha [Hc ->]]]].
        destruct (H0d a (Ab c ++ r) Ha) as [c1 H1].
        destruct (q_tloop k rest Hk Hr j c Hc 0 EDis r (or_intror eq_refl)) as [c2 H2].
        exists (c1 ++ c2). rewrite Ab_app, <- app_assoc, (xbind_okk _ _ _ _ H1), H2. f_equal. }
    split; intros w r H; unfold all_sat, all_dsat in H; rewrite sd_thresh in H; cbn [fst snd map] in H.
    - destruct (Hgen _ w r H) as [cs Hc]. exists cs. rewrite Hc. rewrite N2Nat.id, N.eqb_refl. reflexivity.
    - destruct (Hgen _ w r H) as [cs Hc]. exists cs. rewrite Hc. cbn [N.of_nat]. destruct (N.eqb_spec 0 k); [lia | reflexivity].
  Qed.

  (* ---------------------------------------------------------------- typing dispatch *)
  Definition cstmt (m : ms) : Prop :=
    forall t, type_of m = ROk t -> wf e ke m -> ccover m -> comp m (c_base (t_corr t)).

  Ltac unf H := unfold t_cast_alt, t_cast_swap, t_cast_check, t_cast_dupif, t_cast_verify, t_cast_nonzero,
    t_cast_zeronotequal, t_and_v, t_and_b, t_or_b, t_or_c, t_or_d, t_or_i, t_and_or, lift1, lift2,
    c_cast_alt, c_cast_swap, c_cast_check, c_cast_dupif, c_cast_verify, c_cast_nonzero, c_cast_zeronotequal,
    c_and_v, c_and_b, c_or_b, c_or_c, c_or_d, c_or_i, c_and_or in H; cbn [t_corr t_mall c_base c_input c_dissat c_unit] in H.

  Ltac one_child_c IH Ht Hwf Hnm tx Hs :=
    cbn [type_of] in Ht; apply rbind_ok in Ht; destruct Ht as [tx [?Hx Ht]];
    cbn [wf ccover] in Hwf, Hnm; pose proof (IH tx Hx Hwf Hnm) as Hs;
    destruct tx as [[?bx ?ix ?dx ?ux] ?mx]; unf Ht; cbn [t_corr c_base] in *.
  Ltac two_children_c IHx IHy Ht Hwf Hnm Hsx Hsy :=
    cbn [type_of] in Ht; apply rbind_ok in Ht; destruct Ht as [?tx [?Hx Ht]];
    apply rbind_ok in Ht; destruct Ht as [?ty [?Hy Ht]];
    cbn [wf ccover] in Hwf, Hnm; destruct Hwf as [?Hwx ?Hwy]; destruct Hnm as [?Hnx ?Hny];
    pose proof (IHx _ Hx Hwx Hnx) as Hsx; pose proof (IHy _ Hy Hwy Hny) as Hsy;
    destruct tx as [[?bx ?ix ?dx ?ux] ?mx]; destruct ty as [[?b2 ?i2 ?d2 ?u2] ?m2]; unf Ht; cbn [t_corr c_base] in *.

  Theorem ieval_complete : forall m, cstmt m.
  Proof.
    induction m using ms_ind'; try (intros t Ht Hwf Hnm; cbn in Hnm; contradiction).
    - intros t Ht _ _. inversion Ht; subst. apply q_true.
    - intros t Ht _ _. inversion Ht; subst. apply q_false.
    - intros t Ht _ _. inversion Ht; subst. apply q_pk_k.
    - intros t Ht _ _. inversion Ht; subst. apply q_pk_h.
    - intros ty0 Ht _ _. inversion Ht; subst. apply q_after.
    - intros ty0 Ht Hwf _. inversion Ht; subst. apply q_older, Hwf.
    - intros t Ht Hwf _. inversion Ht; subst. cbn in Hwf.
      apply (q_hash_gen (MSha256 h) KSha256 (a_sha256 A) h); try reflexivity; [apply (ok_sha256 _ _ _ HA) | exact Hwf].
    - intros t Ht Hwf _. inversion Ht; subst. cbn in Hwf.
      apply (q_hash_gen (MHash256 h) KHash256 (a_hash256 A) h); try reflexivity; [apply (ok_hash256 _ _ _ HA) | exact Hwf].
    - intros t Ht Hwf _. inversion Ht; subst. cbn in Hwf.
      apply (q_hash_gen (MRipemd160 h) KRipemd160 (a_ripemd160 A) h); try reflexivity; [apply (ok_ripemd160 _ _ _ HA) | exact Hwf].
    - intros t Ht Hwf _. inversion Ht; subst. cbn in Hwf.
      apply (q_hash_gen (MHash160 h) KHash160 (a_hash160 A) h); try reflexivity; [apply (ok_hash160 _ _ _ HA) | exact Hwf].
    - (* alt *) intros t Ht Hwf Hnm. one_child_c IHm Ht Hwf Hnm tx Hs.
      destruct bx; try discriminate. inversion Ht; subst. cbn [t_corr c_base].
      exact (q_same m (MAlt m) BB (fun _ => eq_refl) eq_refl ltac:(discriminate) Hs).
    - (* swap *) intros t Ht Hwf Hnm. one_child_c IHm Ht Hwf Hnm tx Hs.
      destruct bx; try discriminate; destruct ix; try discriminate; inversion Ht; subst; cbn [t_corr c_base];
        exact (q_same m (MSwap m) BB (fun _ => eq_refl) eq_refl ltac:(discriminate) Hs).
    - (* check *) intros t Ht Hwf Hnm. one_child_c IHm Ht Hwf Hnm tx Hs.
      destruct bx; try discriminate. inversion Ht; subst. cbn [t_corr c_base].
      exact (q_same m (MCheck m) BK (fun _ => eq_refl) eq_refl ltac:(discriminate) Hs).
    - (* dupif *) intros t Ht Hwf Hnm. one_child_c IHm Ht Hwf Hnm tx Hs.
      destruct bx; try discriminate; destruct ix; try discriminate. inversion Ht; subst. cbn [t_corr c_base]. apply q_dupif, Hs.
    - (* verify *) intros t Ht Hwf Hnm. one_child_c IHm Ht Hwf Hnm tx Hs.
      destruct bx; try discriminate. inversion Ht; subst. cbn [t_corr c_base]. apply (q_verify m BB); [discriminate | exact Hs].
    - (* nonzero *) intros t Ht Hwf Hnm.
      cbn [type_of] in Ht. apply rbind_ok in Ht. destruct Ht as [tx [Hx Ht]]. cbn [wf ccover] in Hwf, Hnm.
      pose proof (IHm tx Hx Hwf Hnm) as Hs.
      destruct (theoremA e ke A Hnum4 Hnum5 Htruthy Htruthy_num HA Hsig_empty m tx Hx Hwf (ccover_no_multi m Hnm)) as [_ [Hsh _]].
      destruct tx as [[bx ix dx ux] mx]. unf Ht. cbn [t_corr c_base c_input] in *.
      destruct ix; cbn in Ht; try discriminate; destruct bx; try discriminate; inversion Ht; subst; cbn [t_corr c_base];
        (apply (q_nonzero m BB); [discriminate | exact Hs|]); intros w Hw; specialize (Hsh w Hw); cbn in Hsh.
      + destruct Hsh as [Hl Hn]. destruct w as [|a r]; [discriminate|]. exists a, r. split; [reflexivity | apply (Hn eq_refl)].
      + specialize (Hsh eq_refl). destruct w as [|a r]; [contradiction|]. exists a, r. split; [reflexivity | exact Hsh].
    - (* zne *) intros t Ht Hwf Hnm. one_child_c IHm Ht Hwf Hnm tx Hs.
      destruct bx; try discriminate. inversion Ht; subst. cbn [t_corr c_base]. apply (q_zne m BB); [discriminate | exact Hs].
    - (* and_v *) intros t Ht Hwf Hnm. two_children_c IHm1 IHm2 Ht Hwf Hnm Hsx Hsy.
      destruct bx, b2; try discriminate; inversion Ht; subst; cbn [t_corr c_base]; apply q_and_v; assumption.
    - (* and_b *) intros t Ht Hwf Hnm. two_children_c IHm1 IHm2 Ht Hwf Hnm Hsx Hsy.
      destruct bx, b2; try discriminate; inversion Ht; subst; cbn [t_corr c_base].
      apply (q_and_b m1 m2 BB BW); [discriminate | discriminate | exact Hsx | exact Hsy].
    - (* andor *) intros t Ht Hwf Hnm.
      cbn [type_of] in Ht. apply rbind_ok in Ht. destruct Ht as [ta [Ha Ht]].
      apply rbind_ok in Ht. destruct Ht as [tb [Hb Ht]]. apply rbind_ok in Ht. destruct Ht as [tc [Hc Ht]].
      cbn [wf ccover] in Hwf, Hnm. destruct Hwf as [Hwa [Hwb Hwc]]. destruct Hnm as [Hna [Hnb Hnc]].
      pose proof (IHm1 ta Ha Hwa Hna) as Hsa. pose proof (IHm2 tb Hb Hwb Hnb) as Hsb. pose proof (IHm3 tc Hc Hwc Hnc) as Hsc.
      destruct ta as [[ba ia da ua] ma], tb as [[bb ib db ub] mb], tc as [[bc ic dc uc] mc]. unf Ht. cbn [t_corr c_base] in *.
      destruct da; cbn [negb] in Ht; try discriminate. destruct ua; cbn [negb] in Ht; try discriminate.
      destruct ba, bb, bc; try discriminate; inversion Ht; subst; cbn [t_corr c_base]; apply q_andor; assumption.
    - (* or_b *) intros t Ht Hwf Hnm. two_children_c IHm1 IHm2 Ht Hwf Hnm Hsx Hsy.
      destruct dx; cbn [negb] in Ht; try discriminate. destruct d2; cbn [negb] in Ht; try discriminate.
      destruct bx, b2; try discriminate; inversion Ht; subst; cbn [t_corr c_base].
      apply (q_or_b m1 m2 BB BW); [discriminate | discriminate | exact Hsx | exact Hsy].
    - (* or_d *) intros t Ht Hwf Hnm. two_children_c IHm1 IHm2 Ht Hwf Hnm Hsx Hsy.
      destruct dx; cbn [negb] in Ht; try discriminate. destruct ux; cbn [negb] in Ht; try discriminate.
      destruct bx, b2; try discriminate; inversion Ht; subst; cbn [t_corr c_base]. apply q_or_d; assumption.
    - (* or_c *) intros t Ht Hwf Hnm. two_children_c IHm1 IHm2 Ht Hwf Hnm Hsx Hsy.
      destruct dx; cbn [negb] in Ht; try discriminate. destruct ux; cbn [negb] in Ht; try discriminate.
      destruct bx, b2; try discriminate; inversion Ht; subst; cbn [t_corr c_base]. apply q_or_c; assumption.
    - (* or_i *) intros t Ht Hwf Hnm. two_children_c IHm1 IHm2 Ht Hwf Hnm Hsx Hsy.
      destruct bx, b2; try discriminate; inversion Ht; subst; cbn [t_corr c_base]; apply q_or_i; assumption.
    - (* thresh *) intros t Ht Hwf Hnm. cbn [type_of] in Ht. fold (tys_of xs) in Ht.
      apply rbind_ok in Ht. destruct Ht as [ts [Hts Ht]]. apply tys_of_ok in Hts.
      cbn [wf ccover] in Hwf, Hnm. destruct Hwf as [Hk [Hn Hwf]].
      unfold t_threshold in Ht. destruct (c_threshold k (map t_corr ts)) as [c|] eqn:Ec; [|discriminate].
      inversion Ht; subst; clear Ht.
      unfold c_threshold in Ec. destruct (c_thresh_loop 0 0 (map t_corr ts)) as [n|] eqn:El; [|discriminate].
      inversion Ec; subst; clear Ec. cbn [t_corr c_base].
      assert (Hb : forall i na subs n', c_thresh_loop i na subs = ROk n' -> Forall (fun c => c_base c <> BV) subs).
      { intros i na subs. revert i na. induction subs as [|s r IHs]; intros i na n' Hl; [constructor|].
        cbn [c_thresh_loop] in Hl.
        destruct (N.eqb i 0 && negb (base_eqb (c_base s) BB)) eqn:E1; [discriminate|].
        destruct (negb (N.eqb i 0) && negb (base_eqb (c_base s) BW)) eqn:E2; [discriminate|].
        destruct (negb (c_unit s)); [discriminate|]. destruct (negb (c_dissat s)); [discriminate|].
        constructor; [|eapply IHs; exact Hl].
        destruct (c_base s); try discriminate. destruct (N.eqb i 0); cbn in E1, E2; discriminate. }
      specialize (Hb _ _ _ _ El). clear El.
      assert (Hall : Forall (fun x => comp x BB) xs).
      { clear Hk Hn. revert ts Hts Hb Hwf Hnm. induction H as [|x r Hx Hr IHr]; intros ts Hts Hb Hwf Hnm; [constructor|].
        inversion Hts as [|? t0 ? ts0 Hxt Hrt]; subst. cbn [map] in Hb. inversion Hb as [|? ? Hb0 Hbr]; subst.
        destruct Hwf as [Hw1 Hw2]. destruct Hnm as [Hn1 Hn2].
        constructor; [|apply (IHr ts0); assumption].
        pose proof (Hx t0 Hxt Hw1 Hn1) as Hc. destruct (c_base (t_corr t0)); try contradiction; exact Hc. }
      destruct xs as [|x0 rest]; [cbn in Hk; lia|]. inversion Hall; subst.
      apply q_thresh; [lia | assumption | assumption].
  Qed.

  (* table satisfactions of a B-typed script are accepted by the faithful interpreter *)
  Theorem interp_complete_table m t w :
    type_of m = ROk t -> c_base (t_corr t) = BB -> wf e ke m -> ccover m ->
    In w (sat m) -> exists cs, interp e ke kp m (astack_of_items (rev w)) = IAccept cs.
  Proof.
    intros Ht Hb Hwf Hnm Hin. rewrite interp_eq_rec. unfold interp_rec.
    pose proof (ieval_complete m t Ht Hwf Hnm) as [Hs _]. rewrite Hb in Hs.
    destruct (Hs w [] Hin) as [cs Hc]. rewrite app_nil_r in Hc.
    assert (Ea : astack_of_items (rev w) = Ab w).
    { unfold astack_of_items, Ab. rewrite map_rev, rev_involutive. reflexivity. }
    rewrite Ea, Hc. exists cs. reflexivity.
  Qed.

End Complete.
