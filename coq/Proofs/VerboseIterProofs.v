(* C11 — VerbosePreOrderIter (Ms/VerboseIterModel.v): the iterative run equals the recursive
   specification on every finite tree, with exactly nodes + edges calls of next. *)
From Coq Require Import List NArith Bool Lia Arith.
From Verif Require Import Bytes RobustModel RobustTreeProofs VerboseIterModel.
Import ListNotations.
Local Open Scope N_scope.

Section VerboseProofs.
Context {A : Type}.
Notation gt := (gtree A).
Notation vit := (vitem A).
Local Arguments N.eqb : simpl never.
Local Arguments N.ltb : simpl never.
Local Arguments N.add : simpl never.
Local Arguments N.of_nat : simpl never.

Lemma gtree_ind2 (P : gt -> Prop) :
  (forall x cs, Forall P cs -> P (GNode x cs)) -> forall t, P t.
Proof. intros H. fix IH 1. intros [x cs]. apply H. induction cs; constructor; auto. Qed.

Lemma gsize_node : forall (x : A) cs, gsize (GNode x cs) = S (gsize_forest cs).
Proof. reflexivity. Qed.
Lemma gsize_pos : forall t : gt, (1 <= gsize t)%nat.
Proof. intros [x cs]. rewrite gsize_node. lia. Qed.
Lemma gpreorder_node : forall (x : A) cs, gpreorder (GNode x cs) = x :: gpreorder_forest cs.
Proof. reflexivity. Qed.

Lemma verbose_spec_node : forall (x : A) cs par b,
  verbose_spec (GNode x cs) par b = verbose_spec_from (GNode x cs) par b cs (b + 1) 0.
Proof.
  intros x cs par b. cbn [verbose_spec].
  enough (H : forall l b' k,
    (fix go (l : list (gtree A)) (b' : N) (k : N) : list (vitem A) :=
       mkVItem (GNode x cs) par b k (k =? nlen cs) ::
       match l with
       | [] => []
       | c :: r => verbose_spec c (Some (GNode x cs)) b' ++ go r (b' + gnsize c) (k + 1)
       end) l b' k = verbose_spec_from (GNode x cs) par b l b' k) by apply H.
  induction l as [|c r IH]; intros b' k; cbn [verbose_spec_from g_n_children gchildren]; [reflexivity|].
  now rewrite IH.
Qed.

(* ---- one call of next *)
Lemma vnext_nil : forall index, verbose_next index ([] : list vit) = ROk None.
Proof. reflexivity. Qed.
Lemma vnext_first_leaf : forall (t : gt) par rest index, gchildren t = [] ->
  verbose_next index (v_initial t par :: rest) = ROk (Some (mkVItem t par index 0 true, index + 1, rest)).
Proof.
  intros t par rest index H. unfold verbose_next, v_initial. cbn [vi_nyielded]. rewrite N.eqb_refl.
  cbn [vi_node vi_parent vi_nyielded vi_complete]. unfold g_n_children, nlen. rewrite H. reflexivity.
Qed.
Lemma vnext_first_child : forall (t : gt) par rest index c r, gchildren t = c :: r ->
  verbose_next index (v_initial t par :: rest) =
  ROk (Some (mkVItem t par index 0 (0 =? g_n_children t), index + 1,
             v_initial c (Some t) :: mkVItem t par index 1 (1 =? g_n_children t) :: rest)).
Proof.
  intros t par rest index c r H. change (v_initial t par) with (mkVItem t par 0 0 (g_n_children t =? 0)).
  unfold verbose_next. cbn [vi_nyielded]. rewrite N.eqb_refl.
  cbn [vi_node vi_parent vi_nyielded vi_complete]. unfold v_increment. cbn [vi_node vi_parent vi_nyielded vi_complete vi_index]. rewrite N.add_0_l.
  rewrite (N.eqb_sym (g_n_children t) 0).
  replace (0 <? g_n_children t) with true by (symmetry; apply N.ltb_lt; unfold g_n_children, nlen; rewrite H; cbn [length]; lia).
  unfold g_nth_child. rewrite H. reflexivity.
Qed.
Lemma vnext_again_done : forall (it : vit) rest index,
  (vi_nyielded it =? 0) = false -> vi_nyielded it = g_n_children (vi_node it) ->
  verbose_next index (it :: rest) = ROk (Some (it, index, rest)).
Proof. intros it rest index H0 Hn. unfold verbose_next. rewrite H0. rewrite Hn, N.ltb_irrefl. reflexivity. Qed.
Lemma vnext_again_child : forall (it : vit) rest index pre c r,
  (vi_nyielded it =? 0) = false -> gchildren (vi_node it) = pre ++ c :: r -> vi_nyielded it = nlen pre ->
  verbose_next index (it :: rest) =
  ROk (Some (it, index, v_initial c (Some (vi_node it)) :: v_increment it (g_n_children (vi_node it)) :: rest)).
Proof.
  intros it rest index pre c r H0 Hc Hk. unfold verbose_next. rewrite H0.
  unfold g_n_children, g_nth_child. rewrite Hc, Hk. unfold nlen. rewrite app_length. cbn [length].
  replace (N.of_nat (length pre) <? N.of_nat (length pre + S (length r))) with true by (symmetry; apply N.ltb_lt; lia).
  rewrite Nat2N.id, nth_error_app2 by lia. rewrite Nat.sub_diag. reflexivity.
Qed.
Lemma vrun_step : forall f index st (y : vit) i' st',
  verbose_next index st = ROk (Some (y, i', st')) ->
  verbose_run (S f) index st = rbind (verbose_run f i' st') (fun ys => ROk (y :: ys)).
Proof. intros f index st y i' st' H. cbn [verbose_run]. rewrite H. reflexivity. Qed.

(* ---- the run on one subtree *)
Definition sub_ok (c : gt) : Prop := forall par b rest f ys,
  verbose_run f (b + gnsize c) rest = ROk ys ->
  verbose_run (verbose_yields c + f) b (v_initial c par :: rest) = ROk (verbose_spec c par b ++ ys).

Lemma from_ok : forall (t : gt) par b l, Forall sub_ok l ->
  forall pre, gchildren t = pre ++ l -> pre <> [] ->
  forall b' rest f ys,
  verbose_run f (b' + N.of_nat (gsize_forest l)) rest = ROk ys ->
  verbose_run (S (2 * gsize_forest l) + f) b' (mkVItem t par b (nlen pre) (nlen pre =? g_n_children t) :: rest)
  = ROk (verbose_spec_from t par b l b' (nlen pre) ++ ys).
Proof.
  intros t par b l Hl. induction Hl as [|c r Hc Hr IH]; intros pre Hch Hpre b' rest f ys Hrest.
  - cbn [gsize_forest Nat.mul Nat.add]. erewrite vrun_step.
    2:{ apply vnext_again_done; cbn [vi_nyielded vi_node].
        - apply N.eqb_neq. unfold nlen. destruct pre; [congruence|cbn [length]; lia].
        - unfold g_n_children. rewrite Hch, app_nil_r. reflexivity. }
    cbn [gsize_forest] in Hrest. rewrite N.add_0_r in Hrest. rewrite Hrest. reflexivity.
  - cbn [gsize_forest] in *.
    replace (S (2 * (gsize c + gsize_forest r)) + f)%nat with (S (verbose_yields c + (S (2 * gsize_forest r) + f)))%nat
      by (unfold verbose_yields; pose proof (gsize_pos c); lia).
    erewrite vrun_step.
    2:{ eapply vnext_again_child with (pre := pre); cbn [vi_nyielded vi_node]; [|exact Hch|reflexivity].
        apply N.eqb_neq. unfold nlen. destruct pre; [congruence|cbn [length]; lia]. }
    cbn [vi_node]. unfold v_increment. cbn [vi_node vi_parent vi_index vi_nyielded].
    rewrite (Hc (Some t) b' _ _ (verbose_spec_from t par b r (b' + gnsize c) (nlen pre + 1) ++ ys)).
    + cbn [rbind verbose_spec_from app]. rewrite <- app_assoc. reflexivity.
    + replace (nlen pre + 1) with (nlen (pre ++ [c])) by (unfold nlen; rewrite app_length; cbn [length]; lia).
      apply IH.
      * rewrite <- app_assoc. exact Hch.
      * destruct pre; discriminate.
      * rewrite <- Hrest. f_equal. unfold gnsize. lia.
Qed.

Lemma sub_ok_all : forall t : gt, sub_ok t.
Proof.
  induction t as [x cs IH] using gtree_ind2. intros par b rest f ys Hrest.
  rewrite verbose_spec_node. unfold verbose_yields. rewrite gsize_node. unfold gnsize in Hrest. rewrite gsize_node in Hrest.
  destruct cs as [|c r].
  - cbn [gsize_forest Nat.sub Nat.add]. erewrite vrun_step by (apply vnext_first_leaf; reflexivity).
    change (b + N.of_nat (S (gsize_forest []))) with (b + 1) in Hrest. rewrite Hrest. reflexivity.
  - inversion IH as [|? ? Hc Hr]; subst.
    cbn [gsize_forest] in *.
    replace (S (gsize c + gsize_forest r) + (S (gsize c + gsize_forest r) - 1) + f)%nat
      with (S (verbose_yields c + (S (2 * gsize_forest r) + f)))%nat
      by (unfold verbose_yields; pose proof (gsize_pos c); lia).
    erewrite vrun_step by (eapply vnext_first_child; reflexivity).
    rewrite (Hc (Some (GNode x (c :: r))) (b + 1) _ _
               (verbose_spec_from (GNode x (c :: r)) par b r (b + 1 + gnsize c) 1 ++ ys)).
    + cbn [rbind verbose_spec_from app]. rewrite <- app_assoc. reflexivity.
    + pose proof (from_ok (GNode x (c :: r)) par b r Hr [c] eq_refl ltac:(discriminate) (b + 1 + gnsize c) rest f ys) as HF.
      change (nlen [c]) with 1 in HF. apply HF. rewrite <- Hrest. f_equal. unfold gnsize. lia.
Qed.

Theorem verbose_order_exact : forall t : gt, verbose_order t = ROk (verbose_spec t None 0).
Proof.
  intros t. unfold verbose_order.
  pose proof (sub_ok_all t None 0 [] 0%nat [] eq_refl) as H.
  rewrite Nat.add_0_r, app_nil_r in H. exact H.
Qed.

(* ---- fuel: a run that finishes yields as many items as it made successful calls; with less
   fuel the caller's loop is cut, with more nothing changes *)
Lemma vrun_fuel : forall f index st (ys : list vit), verbose_run f index st = ROk ys ->
  forall f', verbose_run f' index st = if (length ys <=? f')%nat then ROk ys else RErr E_OUT_OF_FUEL.
Proof.
  induction f as [|f IH]; intros index st ys H f'.
  - cbn [verbose_run] in *. destruct (verbose_next index st) as [[[[y i'] st']|]| |] eqn:E; try discriminate.
    inversion H; subst. destruct f'; cbn [verbose_run]; rewrite E; reflexivity.
  - cbn [verbose_run] in H. destruct (verbose_next index st) as [[[[y i'] st']|]| |] eqn:E; try discriminate.
    + destruct (verbose_run f i' st') as [ys'| |] eqn:E2; try discriminate. cbn [rbind] in H. inversion H; subst.
      destruct f' as [|f']; cbn [verbose_run]; rewrite E; [reflexivity|].
      rewrite (IH _ _ _ E2 f'). cbn [length Nat.leb]. destruct (length ys' <=? f')%nat; reflexivity.
    + inversion H; subst. destruct f'; cbn [verbose_run]; rewrite E; reflexivity.
Qed.

Lemma verbose_spec_from_length : forall (t : gt) par b l,
  Forall (fun c => forall par b, length (verbose_spec c par b) = verbose_yields c) l ->
  forall b' k, length (verbose_spec_from t par b l b' k) = S (2 * gsize_forest l).
Proof.
  intros t par b l H. induction H as [|c r Hc Hr IH]; intros b' k; cbn [verbose_spec_from gsize_forest length]; [reflexivity|].
  rewrite app_length, Hc, IH. unfold verbose_yields. pose proof (gsize_pos c). lia.
Qed.
Lemma verbose_spec_length : forall (t : gt) par b, length (verbose_spec t par b) = verbose_yields t.
Proof.
  induction t as [x cs IH] using gtree_ind2. intros par b. rewrite verbose_spec_node, verbose_spec_from_length by exact IH.
  unfold verbose_yields. rewrite gsize_node. lia.
Qed.

(* ---- the first yields are the pre-order enumeration: index = position in pre-order *)

Lemma nseq_app : forall n m s, nseq s (n + m) = nseq s n ++ nseq (s + N.of_nat n) m.
Proof.
  induction n as [|n IH]; intros m s; cbn [nseq Nat.add app].
  - f_equal. lia.
  - rewrite IH. do 3 f_equal. lia.
Qed.
Lemma nseq_length : forall n s, length (nseq s n) = n.
Proof. induction n; intros; cbn [nseq length]; auto. Qed.
Lemma gpreorder_length : forall t : gt, length (gpreorder t) = gsize t.
Proof.
  induction t as [x cs IH] using gtree_ind2. rewrite gpreorder_node, gsize_node. cbn [length]. f_equal.
  induction IH as [|c r Hc Hr IHf]; [reflexivity|]. cbn [gpreorder_forest gsize_forest]. rewrite app_length. lia.
Qed.
Lemma combine_app : forall X Y (a b : list X) (c d : list Y), length a = length c ->
  combine (a ++ b) (c ++ d) = combine a c ++ combine b d.
Proof. induction a; intros b [|y c] d H; try discriminate; cbn; [reflexivity|]. f_equal. apply IHa. now inversion H. Qed.

Definition first_ok (c : gt) : Prop := forall par b,
  map lab_idx (first_yields (verbose_spec c par b)) = combine (gpreorder c) (nseq b (gsize c)).

Lemma first_yields_app : forall a b : list vit, first_yields (a ++ b) = first_yields a ++ first_yields b.
Proof. intros. apply filter_app. Qed.
Lemma first_yields_skip : forall (y : vit) l, vi_nyielded y <> 0 -> first_yields (y :: l) = first_yields l.
Proof. intros y l H. unfold first_yields. cbn [filter]. apply N.eqb_neq in H. now rewrite H. Qed.
Lemma first_yields_keep : forall (y : vit) l, vi_nyielded y = 0 -> first_yields (y :: l) = y :: first_yields l.
Proof. intros y l H. unfold first_yields. cbn [filter]. now rewrite H. Qed.

Lemma first_from : forall (t : gt) par b l, Forall first_ok l -> forall b' k, k <> 0 ->
  map lab_idx (first_yields (verbose_spec_from t par b l b' k)) = combine (gpreorder_forest l) (nseq b' (gsize_forest l)).
Proof.
  intros t par b l H. induction H as [|c r Hc Hr IH]; intros b' k Hk;
    cbn [verbose_spec_from]; rewrite first_yields_skip by exact Hk; [reflexivity|].
  rewrite first_yields_app, map_app, (Hc (Some t) b'), IH by lia.
  cbn [gpreorder_forest gsize_forest]. rewrite nseq_app, combine_app by (now rewrite gpreorder_length, nseq_length).
  reflexivity.
Qed.
Lemma first_ok_all : forall t : gt, first_ok t.
Proof.
  induction t as [x cs IH] using gtree_ind2. intros par b.
  rewrite verbose_spec_node, gpreorder_node, gsize_node. cbn [nseq combine].
  destruct cs as [|c r]; cbn [verbose_spec_from]; rewrite first_yields_keep by reflexivity;
    cbn [map lab_idx vi_node vi_index glabel]; f_equal.
  inversion IH as [|? ? Hc Hr]; subst.
  rewrite first_yields_app, map_app, (Hc _ (b + 1)), (first_from _ _ _ _ Hr) by lia.
  cbn [gpreorder_forest gsize_forest]. rewrite nseq_app, combine_app by (now rewrite gpreorder_length, nseq_length).
  reflexivity.
Qed.

(* ---- every node is yielded once more than it has children: the items carrying the index of
   a node are exactly its n_children + 1 items *)
Definition idx_in (c : gt) : Prop := forall par b y, In y (verbose_spec c par b) -> b <= vi_index y < b + gnsize c.

Lemma idx_from : forall (t : gt) par b l, Forall idx_in l -> forall b' k y, b < b' ->
  In y (verbose_spec_from t par b l b' k) -> vi_index y = b \/ b' <= vi_index y < b' + N.of_nat (gsize_forest l).
Proof.
  intros t par b l H. induction H as [|c r Hc Hr IH]; intros b' k y Hb; cbn [verbose_spec_from gsize_forest].
  - intros [<-|[]]. now left.
  - intros [<-|Hin]; [now left|]. apply in_app_or in Hin. destruct Hin as [Hin|Hin].
    + right. apply Hc in Hin. unfold gnsize in Hin. lia.
    + apply IH in Hin; [|lia]. destruct Hin as [->|Hin]; [now left|right]. unfold gnsize in Hin. lia.
Qed.
Lemma idx_in_all : forall t : gt, idx_in t.
Proof.
  induction t as [x cs IH] using gtree_ind2. intros par b y. rewrite verbose_spec_node. intros Hin.
  apply idx_from in Hin; [|exact IH|lia]. unfold gnsize. rewrite gsize_node. lia.
Qed.

Definition count_ok (c : gt) : Prop := forall par b y, In y (verbose_spec c par b) ->
  length (yields_of_index (vi_index y) (verbose_spec c par b)) = S (length (gchildren (vi_node y))).

Lemma filter_none : forall X (p : X -> bool) l, (forall x, In x l -> p x = false) -> filter p l = [].
Proof. induction l as [|a l IH]; intros H; cbn; [reflexivity|]. rewrite (H a (or_introl eq_refl)). apply IH. intros; apply H; now right. Qed.

Lemma yoi_app : forall i (a b : list vit), yields_of_index i (a ++ b) = yields_of_index i a ++ yields_of_index i b.
Proof. intros. apply filter_app. Qed.
Lemma yoi_keep : forall i (y : vit) l, vi_index y = i -> yields_of_index i (y :: l) = y :: yields_of_index i l.
Proof. intros i y l H. unfold yields_of_index. cbn [filter]. rewrite H, N.eqb_refl. reflexivity. Qed.
Lemma yoi_skip : forall i (y : vit) l, vi_index y <> i -> yields_of_index i (y :: l) = yields_of_index i l.
Proof. intros i y l H. unfold yields_of_index. cbn [filter]. apply N.eqb_neq in H. now rewrite H. Qed.
Lemma yoi_none : forall i (l : list vit), (forall x, In x l -> vi_index x <> i) -> yields_of_index i l = [].
Proof. intros i l H. apply filter_none. intros x Hx. apply N.eqb_neq. now apply H. Qed.

(* the items of the node itself among the items from its k-th yield on *)
Lemma own_from : forall (t : gt) par b l b' k, b < b' ->
  length (yields_of_index b (verbose_spec_from t par b l b' k)) = S (length l).
Proof.
  intros t par b l. induction l as [|c r IH]; intros b' k Hb; cbn [verbose_spec_from];
    rewrite yoi_keep by reflexivity; cbn [length]; [reflexivity|].
  rewrite yoi_app, app_length, IH by lia. rewrite yoi_none; [reflexivity|].
  intros y Hy. apply idx_in_all in Hy. lia.
Qed.
Lemma count_from : forall (t : gt) par b l, Forall count_ok l -> forall b' k y, b < b' ->
  In y (verbose_spec_from t par b l b' k) -> vi_index y <> b ->
  length (yields_of_index (vi_index y) (verbose_spec_from t par b l b' k)) = S (length (gchildren (vi_node y))).
Proof.
  intros t par b l H. induction H as [|c r Hc Hr IH]; intros b' k y Hb; cbn [verbose_spec_from].
  - intros [<-|[]] Hne. now cbn in Hne.
  - intros [<-|Hin] Hne; [now cbn in Hne|].
    rewrite yoi_skip by (cbn [vi_index]; congruence).
    rewrite yoi_app, app_length. apply in_app_or in Hin. destruct Hin as [Hin|Hin].
    + rewrite (Hc _ _ _ Hin). rewrite yoi_none; [cbn [length]; lia|].
      intros z Hz. pose proof (idx_in_all c _ _ _ Hin) as R. apply idx_from in Hz; [|apply Forall_forall; intros; apply idx_in_all|lia].
      lia.
    + rewrite (yoi_none _ (verbose_spec c (Some t) b')).
      * cbn [length Nat.add]. apply IH; [lia|exact Hin|exact Hne].
      * intros z Hz. apply idx_in_all in Hz. apply idx_from in Hin; [|apply Forall_forall; intros; apply idx_in_all|lia].
        lia.
Qed.
Lemma own_node : forall (t : gt) par b l b' k y, b < b' ->
  In y (verbose_spec_from t par b l b' k) -> vi_index y = b -> vi_node y = t.
Proof.
  intros t par b l. induction l as [|c r IHl]; intros b' k y Hb; cbn [verbose_spec_from].
  - intros [<-|[]] _. reflexivity.
  - intros [<-|Hin] Hy; [reflexivity|]. apply in_app_or in Hin. destruct Hin as [Hin|Hin].
    + apply idx_in_all in Hin. lia.
    + eapply IHl; [|exact Hin|exact Hy]. lia.
Qed.
Lemma count_ok_all : forall t : gt, count_ok t.
Proof.
  induction t as [x cs IH] using gtree_ind2. intros par b y. rewrite verbose_spec_node. intros Hin.
  destruct (N.eq_dec (vi_index y) b) as [E|E].
  - assert (Hn : vi_node y = GNode x cs) by (eapply own_node; [|exact Hin|exact E]; lia).
    rewrite E, own_from, Hn by lia. reflexivity.
  - apply count_from; [exact IH|lia|exact Hin|exact E].
Qed.

End VerboseProofs.

(* ---- the instance of RobustModel's trees *)
Lemma g_of_r_node : forall x cs, g_of_r (RNode x cs) = GNode x (map g_of_r cs).
Proof. reflexivity. Qed.
Lemma rtree_ind2' (P : rtree -> Prop) :
  (forall x cs, Forall P cs -> P (RNode x cs)) -> forall t, P t.
Proof. intros H. fix IH 1. intros [x cs]. apply H. induction cs; constructor; auto. Qed.
Lemma rsize_node' : forall x cs, rsize (RNode x cs) = S (rsize_forest cs).
Proof. reflexivity. Qed.
Lemma preorder_node' : forall x cs, preorder (RNode x cs) = x :: preorder_forest cs.
Proof. reflexivity. Qed.
Lemma gsize_g_of_r : forall t, gsize (g_of_r t) = rsize t.
Proof.
  induction t as [x cs IH] using rtree_ind2'. rewrite g_of_r_node, gsize_node, rsize_node'. f_equal.
  induction IH as [|c r Hc Hr IHf]; [reflexivity|]. cbn [map gsize_forest rsize_forest]. now rewrite Hc, IHf.
Qed.
Lemma gpreorder_g_of_r : forall t, gpreorder (g_of_r t) = preorder t.
Proof.
  induction t as [x cs IH] using rtree_ind2'. rewrite g_of_r_node, gpreorder_node, preorder_node'. f_equal.
  induction IH as [|c r Hc Hr IHf]; [reflexivity|]. cbn [map gpreorder_forest preorder_forest]. now rewrite Hc, IHf.
Qed.

(* ---- the statements *)
Theorem verbose_iter_correct : forall (A : Type) (t : gtree A),
  verbose_order t = ROk (verbose_spec t None 0) /\
  (forall f, verbose_run f 0 [v_initial t None] =
             if (verbose_yields t <=? f)%nat then ROk (verbose_spec t None 0) else RErr E_OUT_OF_FUEL) /\
  (forall f s, verbose_run f 0 [v_initial t None] <> RPanic s) /\
  length (verbose_spec t None 0) = verbose_yields t /\
  verbose_yields t = (gsize t + (gsize t - 1))%nat /\
  map lab_idx (first_yields (verbose_spec t None 0)) = combine (gpreorder t) (nseq 0 (gsize t)) /\
  (forall y, In y (verbose_spec t None 0) ->
     length (yields_of_index (vi_index y) (verbose_spec t None 0)) = S (length (gchildren (vi_node y)))).
Proof.
  intros A t. pose proof (verbose_order_exact t) as E. unfold verbose_order in E.
  pose proof (vrun_fuel _ _ _ _ E) as F. rewrite verbose_spec_length in F.
  repeat split.
  - exact (verbose_order_exact t).
  - exact F.
  - intros f s. rewrite F. destruct (verbose_yields t <=? f)%nat; discriminate.
  - apply verbose_spec_length.
  - apply first_ok_all.
  - intros y Hy. now apply count_ok_all.
Qed.

Lemma map_fst_combine : forall X Y (a : list X) (b : list Y), length a = length b -> map fst (combine a b) = a.
Proof. induction a; intros [|y b] H; try discriminate; cbn; [reflexivity|]. f_equal. apply IHa. now inversion H. Qed.

(* on the trees of the existing iterator models: the first yields, with their indices, are what
   PreOrderIter's model produces, enumerated *)
Theorem verbose_iter_rtree : forall t : rtree,
  exists ys, verbose_order (g_of_r t) = ROk ys /\
  length ys = (rsize t + (rsize t - 1))%nat /\
  map lab_idx (first_yields ys) = combine (preorder t) (nseq 0 (rsize t)) /\
  pre_run (rsize t) [t] = Some (map (fun y => glabel (vi_node y)) (first_yields ys)).
Proof.
  intros t. exists (verbose_spec (g_of_r t) None 0).
  destruct (verbose_iter_correct N (g_of_r t)) as (E & _ & _ & L & Y & P & _).
  rewrite gpreorder_g_of_r, gsize_g_of_r in P. rewrite Y, gsize_g_of_r in L.
  repeat split; [exact E|exact L|exact P|].
  rewrite pre_run_exact by (cbn [rsize_forest]; lia). cbn [preorder_forest]. rewrite app_nil_r. f_equal.
  transitivity (map fst (map lab_idx (first_yields (verbose_spec (g_of_r t) None 0)))).
  - rewrite P, map_fst_combine; [reflexivity|]. rewrite nseq_length. rewrite <- gpreorder_g_of_r, gpreorder_length. apply gsize_g_of_r.
  - rewrite map_map. reflexivity.
Qed.
