(* Non-vacuity of the Script-level C02 theorems, on the environment of FrameSound.v / DenotExamples.v
   (witness v0; a signature for key bytes k is k ++ [1]; key k is pushed as [2; k]; sha256 b = 1 :: b).
   1. malleable mode: or_d(sha256(h), c:pk_k(0)) accepted with the hash dissatisfied by 32 x 0xff --
      a stack that is in NO table (dx_ord_not_in_table); the caller holds the signature only.
   2. non-malleable mode: thresh(2, pk(0), s:pk(1), s:pk(2)) with signatures for keys 0 and 2. *)
From Verif Require Import Exec Ser Ast Types TypeCheck SatSpec Sat ExecLemmas TheoremA SatProofs CompleteProofs
  CompleteThresh CompleteNonMall DenotSpec DenotLemmas DenotMain DenotTable CompleteScript.
From Verif Require Import FrameBase FrameSound DenotExamples.
From Coq Require Import Lia ZArith.
Local Open Scope N_scope.

Definition csx_A : assets :=
  mkAssets (fun k => if N.eqb k 1 then None else Some (dx_sig k))
           (fun _ => None) (fun _ => None) (fun _ => None) (fun _ => None) (fun _ => false) (fun _ => false).
Definition csx_se : senv :=
  mkSenv false (fun _ => 34) (fun k => if N.eqb k 1 then None else Some 72) (fun _ _ => false) (fun _ => false) (fun _ => false).
Definition csx_f : fill := mkFill (kb ex_ke) (a_sig csx_A) (fun _ _ => None).

Lemma csx_linked : linked ex_ke csx_A csx_se csx_f.
Proof.
  constructor; cbn; try reflexivity.
  - intros k. destruct (N.eqb k 1); split; congruence.
  - intros kd h. destruct kd; reflexivity.
  - intros kd h. destruct kd; cbn; split; congruence.
Qed.
Lemma csx_locks : locks_compatible csx_se.
Proof. split; intros t1 t2 H; cbn in H; discriminate. Qed.
Lemma csx_hse : forall kbs, e_sigok ex_env kbs [] = false.
Proof. intros kbs. destruct kbs; reflexivity. Qed.
Lemma csx_assets_ok : assets_ok ex_env ex_ke csx_A.
Proof.
  constructor; cbn; try discriminate; try (intros; reflexivity).
  - intros k s H. destruct (N.eqb k 1); inversion H; subst. split; [unfold dx_sig; cbn; rewrite N.eqb_refl; reflexivity | cbn; lia].
  - intros k. cbn. lia.
Qed.

(* a valid signature in the environment is key ++ [1] *)
Lemma csx_sig_form key sg : e_sigok ex_env key sg = true -> sg = key ++ [1].
Proof. cbn. apply bytes_eqb_eq. Qed.

Lemma csx_covers w : (forall x, In x w -> x = dx_ff \/ x = [] \/ x = dx_sig 0 \/ x = dx_sig 2) -> covers ex_env ex_ke csx_A w.
Proof.
  intros Hw. constructor.
  - intros k sg Hi Hne Hs. apply csx_sig_form in Hs. cbn in Hs.
    destruct (Hw sg Hi) as [->|[->|[->| ->]]]; [vm_compute in Hs; discriminate | congruence | |];
      unfold dx_sig in Hs; inversion Hs; subst; cbn; discriminate.
  - intros k key sg Hk Hi Hh Hne Hs. cbn in Hh. inversion Hh as [Hk'].
    destruct (Hw key Hk) as [->|[->|[->| ->]]]; vm_compute in Hk'; discriminate.
Qed.

(* ---- 1. malleable mode, a non-canonical accepted stack ---- *)
Lemma csx_ord_built : built_from ex_env ex_ke csx_A dx_ord dx_ord_w.
Proof.
  split.
  - apply csx_covers. intros x [<-|[<-|[]]]; auto.
  - cbn [mok dx_ord]. split; [|exact I]. intros [x [Hi [Hl Hh]]]. exfalso.
    destruct Hi as [<-|[<-|[]]]; [vm_compute in Hh; discriminate | vm_compute in Hl; discriminate].
Qed.
Lemma csx_ord_fit : thresh_fit ex_ke csx_se true dx_ord.
Proof. cbn. auto. Qed.
Lemma csx_ord_complete : exists bs, satisfy ex_ke csx_se csx_f true true dx_ord = Some bs /\ accepts ex_env (enc ex_ke dx_ord) (rev bs) = true.
Proof.
  destruct dx_ord_typed as [t [Ht Hb]].
  apply (script_complete_mall_spends ex_env ex_ke csx_A csx_se csx_f csx_hse csx_linked csx_locks csx_assets_ok (fun ks => eq_refl)
           dx_ord t Ht Hb dx_ord_wf true csx_ord_fit dx_ord_w csx_ord_built dx_ord_accepts).
Qed.
Lemma csx_ord_value : satisfy ex_ke csx_se csx_f true true dx_ord = Some [dx_sig 0; zeros32].
Proof. vm_compute. reflexivity. Qed.

(* ---- 2. non-malleable mode ---- *)
Definition csx_thr_w : wit := [dx_sig 0; []; dx_sig 2].
Lemma csx_thr_typed : exists t, type_of c02x_thresh = ROk t /\ c_base (t_corr t) = BB /\ m_nm (t_mall t) = true /\ m_signed (t_mall t) = true.
Proof. eexists. split; [vm_compute; reflexivity|]. repeat split. Qed.
Lemma csx_thr_wf : wf ex_env ex_ke c02x_thresh.
Proof. cbn. repeat split; lia. Qed.
Lemma csx_thr_nmwf : nm_wf csx_se c02x_thresh.
Proof. cbn. repeat split; lia. Qed.
Lemma csx_thr_accepts : accepts ex_env (enc ex_ke c02x_thresh) csx_thr_w = true.
Proof. vm_compute. reflexivity. Qed.
Lemma csx_thr_built : built_from ex_env ex_ke csx_A c02x_thresh csx_thr_w.
Proof.
  split.
  - apply csx_covers. intros x [<-|[<-|[<-|[]]]]; auto.
  - cbn. tauto.
Qed.
Lemma csx_thr_complete :
  exists bs, satisfy ex_ke csx_se csx_f false true c02x_thresh = Some bs /\ accepts ex_env (enc ex_ke c02x_thresh) (rev bs) = true.
Proof.
  destruct csx_thr_typed as [t [Ht [Hb [Hnm Hs]]]].
  pose proof (script_complete_nonmall_spends ex_env ex_ke csx_A csx_se csx_f csx_hse csx_linked csx_locks csx_assets_ok (fun ks => eq_refl)
           c02x_thresh t Ht Hb csx_thr_wf csx_thr_nmwf Hnm Hs csx_thr_w csx_thr_built csx_thr_accepts) as G.
  rewrite Hs in G. exact G.
Qed.
Lemma csx_thr_value : satisfy ex_ke csx_se csx_f false true c02x_thresh = Some [dx_sig 2; []; dx_sig 0].
Proof. vm_compute. reflexivity. Qed.
