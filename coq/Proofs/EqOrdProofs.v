(* C19 — proofs about the Eq / Hash / Clone model (EqOrdModel.v).  The Ord part is in EqOrdCmpProofs.v. *)
From Coq Require Import Lia.
From Verif Require Import EqOrdModel TheoremA.

(* ------------------------------------------------------------------ small facts *)
Lemma keys_eqb_eq a b : keys_eqb a b = true <-> a = b.
Proof.
  revert b. induction a as [|x r IH]; destruct b as [|y s]; cbn; split; intro H; try discriminate; try reflexivity.
  - apply andb_true_iff in H. destruct H as [H1 H2]. apply N.eqb_eq in H1. apply IH in H2. congruence.
  - injection H as -> ->. apply andb_true_iff. split; [apply N.eqb_refl | apply IH; reflexivity].
Qed.

Lemma bytes_eqb_eq a b : bytes_eqb a b = true <-> a = b.
Proof.
  revert b. induction a as [|x r IH]; destruct b as [|y s]; cbn; split; intro H; try discriminate; try reflexivity.
  - apply andb_true_iff in H. destruct H as [H1 H2]. apply N.eqb_eq in H1. apply IH in H2. congruence.
  - injection H as -> ->. apply andb_true_iff. split; [apply N.eqb_refl | apply IH; reflexivity].
Qed.

Lemma payload_eqb_eq a b : payload_eqb a b = true <-> a = b.
Proof.
  destruct a, b; cbn; split; intro H; try discriminate; try reflexivity;
    try (apply N.eqb_eq in H; congruence); try (injection H as ->; apply N.eqb_refl).
  - apply bytes_eqb_eq in H. congruence.
  - injection H as ->. apply bytes_eqb_eq. reflexivity.
  - apply andb_true_iff in H. destruct H as [H1 H2]. apply N.eqb_eq in H1. apply keys_eqb_eq in H2. congruence.
  - injection H as -> ->. apply andb_true_iff. split; [apply N.eqb_refl | apply keys_eqb_eq; reflexivity].
Qed.

Lemma nlen_inj {A} (l l' : list A) : nlen l = nlen l' -> length l = length l'.
Proof. unfold nlen. apply Nat2N.inj. Qed.

(* the inner fixpoints are flat_map / sums *)
Lemma preorder_thresh k xs : preorder (MThresh k xs) = node_of (MThresh k xs) :: flat_map preorder xs.
Proof. reflexivity. Qed.

Lemma preorder_children m : preorder m = node_of m :: flat_map preorder (children m).
Proof.
  destruct m; try reflexivity; try (cbn; rewrite ?app_nil_r; reflexivity).
Qed.

Fixpoint size_list (l : list ms) : nat := match l with [] => 0 | m :: r => ms_size m + size_list r end.

Lemma ms_size_children m : ms_size m = S (size_list (children m)).
Proof.
  destruct m; cbn; try reflexivity; try lia.
Qed.

Lemma size_list_app a b : size_list (a ++ b) = size_list a + size_list b.
Proof. induction a as [|x r IH]; cbn; [reflexivity | rewrite IH; lia]. Qed.

(* ------------------------------------------------------------------ the iterator refines the recursive pre-order *)
Lemma preorder_stack_refines : forall fuel stack,
  size_list stack <= fuel -> preorder_stack fuel stack = Some (flat_map preorder stack).
Proof.
  induction fuel as [|f IH]; intros [|top rest] Hs; try reflexivity.
  - cbn in Hs. rewrite ms_size_children in Hs. lia.
  - cbn [preorder_stack]. rewrite IH.
    + cbn [option_map flat_map]. rewrite flat_map_app. rewrite (preorder_children top). reflexivity.
    + rewrite size_list_app. cbn in Hs. rewrite ms_size_children in Hs. lia.
Qed.

Theorem preorder_iter_refines m : preorder_stack (ms_size m) [m] = Some (preorder m).
Proof. rewrite preorder_stack_refines; cbn; [rewrite app_nil_r; reflexivity | lia]. Qed.

(* ------------------------------------------------------------------ key lemma: the pre-order is a prefix code *)
Lemma preorder_app_inj : forall a b r1 r2, preorder a ++ r1 = preorder b ++ r2 -> a = b /\ r1 = r2.
Proof.
  induction a using ms_ind'; intros b r1 r2 HH; destruct b;
    try (rewrite preorder_thresh in HH); try (rewrite (preorder_thresh k0) in HH);
    cbn in HH; try discriminate HH.
  1-11: injection HH; intros; subst; split; reflexivity.
  1-7: injection HH as HH; apply IHa in HH; destruct HH; subst; split; reflexivity.
  1-2, 4-7: injection HH as HH; rewrite <- !app_assoc in HH; apply IHa1 in HH; destruct HH as [-> HH];
    apply IHa2 in HH; destruct HH; subst; split; reflexivity.
  - injection HH as HH. rewrite <- !app_assoc in HH. apply IHa1 in HH. destruct HH as [-> HH].
    apply IHa2 in HH. destruct HH as [-> HH]. apply IHa3 in HH. destruct HH; subst; split; reflexivity.
  - (* thresh: k, n from the node, then the children one by one *)
    assert (Hn : nlen xs = nlen xs0) by (injection HH; auto).
    assert (Hk : k = k0) by (injection HH; auto).
    assert (HH' : flat_map preorder xs ++ r1 = flat_map preorder xs0 ++ r2) by (injection HH; auto).
    clear HH. rename HH' into HH. subst k0. apply nlen_inj in Hn.
    assert (G : xs = xs0 /\ r1 = r2).
    { revert xs0 Hn HH. induction H as [|x r Hx Hr IHr]; intros [|y s] Hn HH; cbn in Hn; try discriminate.
      - cbn in HH. split; [reflexivity | exact HH].
      - cbn in HH. rewrite <- !app_assoc in HH. apply Hx in HH. destruct HH as [-> HH].
        injection Hn as Hn. destruct (IHr s Hn HH) as [-> ->]. split; reflexivity. }
    destruct G as [-> ->]. split; reflexivity.
  - injection HH; intros; subst; split; reflexivity.
  - injection HH; intros; subst; split; reflexivity.
  - injection HH; intros; subst; split; reflexivity.
  - injection HH; intros; subst; split; reflexivity.
Qed.

(* trees with equal pre-order sequences of (tag, arity, payload) are equal *)
Theorem preorder_inj a b : preorder a = preorder b -> a = b.
Proof.
  intro H. apply (preorder_app_inj a b [] []). rewrite !app_nil_r. exact H.
Qed.

Lemma preorder_prefix_inj a b s : preorder a = preorder b ++ s -> a = b.
Proof. intro H. apply (preorder_app_inj a b [] s). rewrite app_nil_r. exact H. Qed.

(* ------------------------------------------------------------------ zip of two sequences under a pairwise test *)
Definition zip_all {A} (f : A -> A -> bool) (l1 l2 : list A) : bool :=
  forallb (fun p => f (fst p) (snd p)) (combine l1 l2).

Definition comparable {A} (l1 l2 : list A) : Prop := exists s, l1 = l2 ++ s \/ l2 = l1 ++ s.

Lemma zip_all_comparable {A} (f : A -> A -> bool) (P : A -> Prop) :
  (forall x y, P x -> P y -> (f x y = true <-> x = y)) ->
  forall l1 l2, Forall P l1 -> Forall P l2 -> (zip_all f l1 l2 = true <-> comparable l1 l2).
Proof.
  intros Hf. induction l1 as [|x r IH]; intros l2 H1 H2.
  - split; [intros _; exists l2; right; reflexivity | reflexivity].
  - destruct l2 as [|y s].
    + split; [intros _; exists (x :: r); left; reflexivity | reflexivity].
    + inversion H1; subst. inversion H2; subst. unfold zip_all. cbn. fold (zip_all f r s).
      rewrite andb_true_iff, (Hf x y), (IH s) by assumption. split.
      * intros [-> [t [Ht|Ht]]]; exists t; [left|right]; rewrite Ht; reflexivity.
      * intros [t [Ht|Ht]]; injection Ht as -> Ht; (split; [reflexivity|]); exists t; auto.
Qed.

Lemma comparable_map {A B} (g : A -> B) l1 l2 : comparable l1 l2 -> comparable (map g l1) (map g l2).
Proof. intros [s [->| ->]]; exists (map g s); rewrite map_app; auto. Qed.

(* ------------------------------------------------------------------ the per-pair rules, on real nodes *)
Definition is_node (x : node) : Prop := exists m, x = node_of m.

Lemma preorder_nodes m : Forall is_node (preorder m).
Proof.
  induction m using ms_ind'; rewrite preorder_children; (constructor; [eexists; reflexivity|]);
    cbn [children flat_map]; rewrite ?app_nil_r; try assumption; try apply Forall_nil.
  1-7: repeat (apply Forall_app; split; [assumption|]); assumption.
  induction H as [|x r Hx Hr IH]; cbn; [apply Forall_nil | apply Forall_app; split; assumption].
Qed.

(* what the code's equality looks at: thresh loses k and n *)
Definition erase (x : node) : node :=
  match n_tag x with TThresh => mkNode TThresh 0 PNone | _ => x end.

Lemma eq_pair_spec x y : is_node x -> is_node y -> (eq_pair x y = true <-> erase x = erase y).
Proof.
  intros [m ->] [m' ->]. destruct m, m'; cbn; split; intro H; try discriminate H; try reflexivity;
    try (apply N.eqb_eq in H; subst; reflexivity);
    try (apply bytes_eqb_eq in H; subst; reflexivity);
    try (injection H; intros; subst; apply N.eqb_refl);
    try (injection H; intros; subst; apply bytes_eqb_eq; reflexivity);
    try (apply andb_true_iff in H; destruct H as [H1 H2]; apply N.eqb_eq in H1; apply keys_eqb_eq in H2; subst; reflexivity);
    try (injection H; intros; subst; apply andb_true_iff; split; [apply N.eqb_refl | apply keys_eqb_eq; reflexivity]).
Qed.

Lemma eq_pair_fixed_spec x y : is_node x -> is_node y -> (eq_pair_fixed x y = true <-> x = y).
Proof.
  intros [m ->] [m' ->]. destruct m, m'; cbn; split; intro H; try discriminate H; try reflexivity;
    try (apply N.eqb_eq in H; subst; reflexivity);
    try (apply bytes_eqb_eq in H; subst; reflexivity);
    try (injection H; intros; subst; apply N.eqb_refl);
    try (injection H; intros; subst; apply bytes_eqb_eq; reflexivity);
    try (apply andb_true_iff in H; destruct H as [H1 H2]; apply N.eqb_eq in H1; apply keys_eqb_eq in H2; subst; reflexivity);
    try (injection H; intros; subst; apply andb_true_iff; split; [apply N.eqb_refl | apply keys_eqb_eq; reflexivity]).
  - apply andb_true_iff in H. destruct H as [H1 H2]. apply N.eqb_eq in H1, H2. congruence.
  - injection H as -> ->. rewrite !N.eqb_refl. reflexivity.
Qed.

Lemma erased_nodes m : Forall (fun e => exists x, is_node x /\ e = erase x) (map erase (preorder m)).
Proof.
  apply Forall_map. eapply Forall_impl; [|apply preorder_nodes]. intros x Hx. exists x. auto.
Qed.

(* ------------------------------------------------------------------ equality: the repaired definition is structural *)
Theorem eq_fixed_structural a b : eq_fixed a b = true <-> a = b.
Proof.
  unfold eq_fixed. fold (zip_all eq_pair_fixed (preorder a) (preorder b)).
  rewrite (zip_all_comparable eq_pair_fixed is_node eq_pair_fixed_spec) by apply preorder_nodes.
  split.
  - intros [s [H|H]]; [apply (preorder_prefix_inj a b s H) | symmetry; apply (preorder_prefix_inj b a s H)].
  - intros ->. exists []. left. rewrite app_nil_r. reflexivity.
Qed.

(* the code as it exists: exact characterisation *)
Theorem eq_iter_char a b :
  eq_iter a b = true <-> comparable (map erase (preorder a)) (map erase (preorder b)).
Proof.
  unfold eq_iter. fold (zip_all eq_pair (preorder a) (preorder b)).
  assert (E : forall l1 l2, Forall is_node l1 -> Forall is_node l2 ->
              zip_all eq_pair l1 l2 = zip_all (fun x y => eq_pair_fixed x y) (map erase l1) (map erase l2)).
  { induction l1 as [|x r IH]; intros [|y s] H1 H2; try reflexivity.
    inversion H1; subst. inversion H2; subst. unfold zip_all. cbn.
    fold (zip_all eq_pair r s). fold (zip_all (fun x y => eq_pair_fixed x y) (map erase r) (map erase s)).
    rewrite (IH s) by assumption. f_equal.
    destruct H3 as [m ->], H5 as [m' ->]. destruct m, m'; reflexivity. }
  rewrite E by apply preorder_nodes.
  apply (zip_all_comparable _ (fun e => exists x, is_node x /\ e = erase x)); try apply erased_nodes.
  intros e e' [x [[m ->] ->]] [y [[m' ->] ->]].
  destruct m, m'; cbn; split; intro H; try discriminate H; try reflexivity;
    try (apply N.eqb_eq in H; subst; reflexivity);
    try (apply bytes_eqb_eq in H; subst; reflexivity);
    try (injection H; intros; subst; apply N.eqb_refl);
    try (injection H; intros; subst; apply bytes_eqb_eq; reflexivity);
    try (apply andb_true_iff in H; destruct H as [H1 H2]; apply N.eqb_eq in H1; apply keys_eqb_eq in H2; subst; reflexivity);
    try (injection H; intros; subst; apply andb_true_iff; split; [apply N.eqb_refl | apply keys_eqb_eq; reflexivity]).
Qed.

(* one direction of eq_structural holds for the code as it exists: equal values compare equal *)
Theorem eq_iter_complete a b : a = b -> eq_iter a b = true.
Proof. intros ->. apply eq_iter_char. exists []. left. rewrite app_nil_r. reflexivity. Qed.

Theorem eq_iter_sym a b : eq_iter a b = eq_iter b a.
Proof.
  apply eq_true_iff_eq. rewrite !eq_iter_char. split; intros [s [H|H]]; exists s; auto.
Qed.

Theorem eq_fixed_implies_eq_iter a b : eq_fixed a b = true -> eq_iter a b = true.
Proof. intro H. apply eq_iter_complete. apply eq_fixed_structural. exact H. Qed.

(* thresh-free terms: the code's equality is structural *)
Fixpoint thresh_free (m : ms) : Prop :=
  match m with
  | MThresh _ _ => False
  | MAlt x | MSwap x | MCheck x | MDupIf x | MVerify x | MNonZero x | MZeroNotEqual x => thresh_free x
  | MAndV x y | MAndB x y | MOrB x y | MOrD x y | MOrC x y | MOrI x y => thresh_free x /\ thresh_free y
  | MAndOr a b c => thresh_free a /\ thresh_free b /\ thresh_free c
  | _ => True
  end.

Lemma erase_thresh_free m : thresh_free m -> map erase (preorder m) = preorder m.
Proof.
  induction m using ms_ind'; cbn [thresh_free]; intro Hf; try contradiction;
    cbn [preorder map]; rewrite ?map_app;
    repeat match goal with H : _ /\ _ |- _ => destruct H end;
    repeat match goal with IH : thresh_free ?x -> _, H : thresh_free ?x |- _ => rewrite (IH H); clear IH end;
    reflexivity.
Qed.

Theorem eq_iter_structural_thresh_free a b :
  thresh_free a -> thresh_free b -> (eq_iter a b = true <-> a = b).
Proof.
  intros Ha Hb. rewrite eq_iter_char, (erase_thresh_free a Ha), (erase_thresh_free b Hb). split.
  - intros [s [H|H]]; [apply (preorder_prefix_inj a b s H) | symmetry; apply (preorder_prefix_inj b a s H)].
  - intros ->. exists []. left. rewrite app_nil_r. reflexivity.
Qed.

(* ------------------------------------------------------------------ refutations (findings about /repo) *)
Local Open Scope N_scope.
Definition w_pk (k : key) : ms := MCheck (MPkK k).
Definition w_spk (k : key) : ms := MSwap (MCheck (MPkK k)).

(* thresh(1,pk(0),s:pk(1)) == thresh(2,pk(0),s:pk(1)) *)
Theorem eq_structural_refuted_k :
  exists a b, eq_iter a b = true /\ a <> b.
Proof.
  exists (MThresh 1 [w_pk 0; w_spk 1]), (MThresh 2 [w_pk 0; w_spk 1]). split; [vm_compute; reflexivity | discriminate].
Qed.

(* a thresh equals its prefix: thresh(1,pk(0),s:pk(1)) == thresh(1,pk(0),s:pk(1),s:pk(2)) (zip truncation) *)
Theorem eq_structural_refuted_arity :
  exists a b, eq_iter a b = true /\ a <> b.
Proof.
  exists (MThresh 1 [w_pk 0; w_spk 1]), (MThresh 1 [w_pk 0; w_spk 1; w_spk 2]). split; [vm_compute; reflexivity | discriminate].
Qed.

(* no truncation involved: the two pre-orders have the same length and the same discriminants
   thresh(2,thresh(1,pk(0),s:pk(1)),s:pk(2),s:pk(3)) == thresh(2,thresh(1,pk(0),s:pk(1),s:pk(2)),s:pk(3)) *)
Theorem eq_structural_refuted_regroup :
  exists a b, eq_iter a b = true /\ a <> b /\ length (preorder a) = length (preorder b).
Proof.
  exists (MThresh 2 [MThresh 1 [w_pk 0; w_spk 1]; w_spk 2; w_spk 3]),
         (MThresh 2 [MThresh 1 [w_pk 0; w_spk 1; w_spk 2]; w_spk 3]).
  split; [vm_compute; reflexivity | split; [discriminate | reflexivity]].
Qed.

(* `==` is not even an equivalence relation: a == b, a == c, b != c *)
Theorem eq_iter_not_transitive :
  exists a b c, eq_iter b a = true /\ eq_iter a c = true /\ eq_iter b c = false.
Proof.
  exists (MThresh 1 [w_pk 0; w_spk 1]), (MThresh 1 [w_pk 0; w_spk 1; w_spk 2]), (MThresh 1 [w_pk 0; w_spk 1; w_spk 3]).
  repeat split; vm_compute; reflexivity.
Qed.

Example thresh_free_example : thresh_free (MAndOr (MCheck (MPkK 0)) (MOlder 5) (MMulti 1 [1; 2])).
Proof. cbn. tauto. Qed.

(* ------------------------------------------------------------------ Hash *)
Theorem hash_consistent a b : a = b -> hash_iter a = hash_iter b.
Proof. intros ->. reflexivity. Qed.

(* with the repaired equality the Hash/Eq contract (k1 == k2 -> hash(k1) == hash(k2)) holds *)
Theorem hash_eq_fixed_consistent a b : eq_fixed a b = true -> hash_iter a = hash_iter b.
Proof. intro H. apply hash_consistent. apply eq_fixed_structural. exact H. Qed.

(* with the equality as coded it does not: == says equal, the hash streams differ (k is hashed) *)
Theorem hash_eq_contract_refuted : exists a b, eq_iter a b = true /\ hash_iter a <> hash_iter b.
Proof.
  exists (MThresh 1 [w_pk 0; w_spk 1]), (MThresh 2 [w_pk 0; w_spk 1]). split; [vm_compute; reflexivity | discriminate].
Qed.

Theorem hash_eq_iter_thresh_free a b :
  thresh_free a -> thresh_free b -> eq_iter a b = true -> hash_iter a = hash_iter b.
Proof. intros Ha Hb H. apply hash_consistent. apply (eq_iter_structural_thresh_free a b Ha Hb). exact H. Qed.

(* ------------------------------------------------------------------ Clone *)
Theorem clone_id m : clone_rec m = m.
Proof.
  induction m using ms_ind'; cbn; try congruence.
  f_equal. induction H as [|x r Hx Hr IH]; cbn; congruence.
Qed.

Theorem clone_eq m : eq_iter (clone_rec m) m = true /\ eq_fixed (clone_rec m) m = true.
Proof. rewrite clone_id. split; [apply eq_iter_complete | apply eq_fixed_structural]; reflexivity. Qed.
