(* C19 — proofs about the Eq / Hash / Clone model (EqOrdModel.v).  The Ord part is in EqOrdCmpProofs.v;
   the model of the code before /repo 32d9f676 and its refutations are in EqOrdHistory.v. *)
From Coq Require Import Lia.
From Verif Require Import EqOrdModel TheoremA.

(* ------------------------------------------------------------------ small facts *)
Lemma keys_eqb_eq a b : keys_eqb a b = true <-> a = b.
Proof.
  revert b. induction a as [|x r IH]; destruct b as [|y s]; cbn; split; intro H; try discriminate; try reflexivity.
  - apply andb_true_iff in H. destruct H as [H1 H2]. apply N.eqb_eq in H1. apply IH in H2. congruence.
  - injection H as -> ->. apply andb_true_iff. split; [apply N.eqb_refl | apply IH; reflexivity].
Qed.

Lemma bytes_eqb_eq a b : bytes_eqb a b = true <-> a = b.
Proof.
  revert b. induction a as [|x r IH]; destruct b as [|y s]; cbn; split; intro H; try discriminate; try reflexivity.
  - apply andb_true_iff in H. destruct H as [H1 H2]. apply N.eqb_eq in H1. apply IH in H2. congruence.
  - injection H as -> ->. apply andb_true_iff. split; [apply N.eqb_refl | apply IH; reflexivity].
Qed.

Lemma payload_eqb_eq a b : payload_eqb a b = true <-> a = b.
Proof.
  destruct a, b; cbn; split; intro H; try discriminate; try reflexivity;
    try (apply N.eqb_eq in H; congruence); try (injection H as ->; apply N.eqb_refl).
  - apply bytes_eqb_eq in H. congruence.
  - injection H as ->. apply bytes_eqb_eq. reflexivity.
  - apply andb_true_iff in H. destruct H as [H1 H2]. apply N.eqb_eq in H1. apply keys_eqb_eq in H2. congruence.
  - injection H as -> ->. apply andb_true_iff. split; [apply N.eqb_refl | apply keys_eqb_eq; reflexivity].
Qed.

Lemma nlen_inj {A} (l l' : list A) : nlen l = nlen l' -> length l = length l'.
Proof. unfold nlen. apply Nat2N.inj. Qed.

(* the inner fixpoints are flat_map / sums *)
Lemma preorder_thresh k xs : preorder (MThresh k xs) = node_of (MThresh k xs) :: flat_map preorder xs.
Proof. reflexivity. Qed.

Lemma preorder_children m : preorder m = node_of m :: flat_map preorder (children m).
Proof.
  destruct m; try reflexivity; try (cbn; rewrite ?app_nil_r; reflexivity).
Qed.

Fixpoint size_list (l : list ms) : nat := match l with [] => 0 | m :: r => ms_size m + size_list r end.

Lemma ms_size_children m : ms_size m = S (size_list (children m)).
Proof.
  destruct m; cbn; try reflexivity; try lia.
Qed.

Lemma size_list_app a b : size_list (a ++ b) = size_list a + size_list b.
Proof. induction a as [|x r IH]; cbn; [reflexivity | rewrite IH; lia]. Qed.

(* ------------------------------------------------------------------ the iterator refines the recursive pre-order *)
Lemma preorder_stack_refines : forall fuel stack,
  size_list stack <= fuel -> preorder_stack fuel stack = Some (flat_map preorder stack).
Proof.
  induction fuel as [|f IH]; intros [|top rest] Hs; try reflexivity.
  - cbn in Hs. rewrite ms_size_children in Hs. lia.
  - cbn [preorder_stack]. rewrite IH.
    + cbn [option_map flat_map]. rewrite flat_map_app. rewrite (preorder_children top). reflexivity.
    + rewrite size_list_app. cbn in Hs. rewrite ms_size_children in Hs. lia.
Qed.

Theorem preorder_iter_refines m : preorder_stack (ms_size m) [m] = Some (preorder m).
Proof. rewrite preorder_stack_refines; cbn; [rewrite app_nil_r; reflexivity | lia]. Qed.

(* ------------------------------------------------------------------ key lemma: the pre-order is a prefix code *)
Lemma preorder_app_inj : forall a b r1 r2, preorder a ++ r1 = preorder b ++ r2 -> a = b /\ r1 = r2.
Proof.
  induction a using ms_ind'; intros b r1 r2 HH; destruct b;
    try (rewrite preorder_thresh in HH); try (rewrite (preorder_thresh k0) in HH);
    cbn in HH; try discriminate HH.
  1-11: injection HH; intros; subst; split; reflexivity.
  1-7: injection HH as HH; apply IHa in HH; destruct HH; subst; split; reflexivity.
  1-2, 4-7: injection HH as HH; rewrite <- !app_assoc in HH; apply IHa1 in HH; destruct HH as [-> HH];
    apply IHa2 in HH; destruct HH; subst; split; reflexivity.
  - injection HH as HH. rewrite <- !app_assoc in HH. apply IHa1 in HH. destruct HH as [-> HH].
    apply IHa2 in HH. destruct HH as [-> HH]. apply IHa3 in HH. destruct HH; subst; split; reflexivity.
  - (* thresh: k, n from the node, then the children one by one *)
    assert (Hn : nlen xs = nlen xs0) by (injection HH; auto).
    assert (Hk : k = k0) by (injection HH; auto).
    assert (HH' : flat_map preorder xs ++ r1 = flat_map preorder xs0 ++ r2) by (injection HH; auto).
    clear HH. rename HH' into HH. subst k0. apply nlen_inj in Hn.
    assert (G : xs = xs0 /\ r1 = r2).
    { revert xs0 Hn HH. induction H as [|x r Hx Hr IHr]; intros [|y s] Hn HH; cbn in Hn; try discriminate.
      - cbn in HH. split; [reflexivity | exact HH].
      - cbn in HH. rewrite <- !app_assoc in HH. apply Hx in HH. destruct HH as [-> HH].
        injection Hn as Hn. destruct (IHr s Hn HH) as [-> ->]. split; reflexivity. }
    destruct G as [-> ->]. split; reflexivity.
  - injection HH; intros; subst; split; reflexivity.
  - injection HH; intros; subst; split; reflexivity.
  - injection HH; intros; subst; split; reflexivity.
  - injection HH; intros; subst; split; reflexivity.
Qed.

(* trees with equal pre-order sequences of (tag, arity, payload) are equal *)
Theorem preorder_inj a b : preorder a = preorder b -> a = b.
Proof.
  intro H. apply (preorder_app_inj a b [] []). rewrite !app_nil_r. exact H.
Qed.

Lemma preorder_prefix_inj a b s : preorder a = preorder b ++ s -> a = b.
Proof. intro H. apply (preorder_app_inj a b [] s). rewrite app_nil_r. exact H. Qed.

(* ------------------------------------------------------------------ zip of two sequences under a pairwise test *)
Definition zip_all {A} (f : A -> A -> bool) (l1 l2 : list A) : bool :=
  forallb (fun p => f (fst p) (snd p)) (combine l1 l2).

Definition comparable {A} (l1 l2 : list A) : Prop := exists s, l1 = l2 ++ s \/ l2 = l1 ++ s.

Lemma zip_all_comparable {A} (f : A -> A -> bool) (P : A -> Prop) :
  (forall x y, P x -> P y -> (f x y = true <-> x = y)) ->
  forall l1 l2, Forall P l1 -> Forall P l2 -> (zip_all f l1 l2 = true <-> comparable l1 l2).
Proof.
  intros Hf. induction l1 as [|x r IH]; intros l2 H1 H2.
  - split; [intros _; exists l2; right; reflexivity | reflexivity].
  - destruct l2 as [|y s].
    + split; [intros _; exists (x :: r); left; reflexivity | reflexivity].
    + inversion H1; subst. inversion H2; subst. unfold zip_all. cbn. fold (zip_all f r s).
      rewrite andb_true_iff, (Hf x y), (IH s) by assumption. split.
      * intros [-> [t [Ht|Ht]]]; exists t; [left|right]; rewrite Ht; reflexivity.
      * intros [t [Ht|Ht]]; injection Ht as -> Ht; (split; [reflexivity|]); exists t; auto.
Qed.

Lemma comparable_map {A B} (g : A -> B) l1 l2 : comparable l1 l2 -> comparable (map g l1) (map g l2).
Proof. intros [s [->| ->]]; exists (map g s); rewrite map_app; auto. Qed.

(* ------------------------------------------------------------------ the per-pair rules, on real nodes *)
Definition is_node (x : node) : Prop := exists m, x = node_of m.

Lemma preorder_nodes m : Forall is_node (preorder m).
Proof.
  induction m using ms_ind'; rewrite preorder_children; (constructor; [eexists; reflexivity|]);
    cbn [children flat_map]; rewrite ?app_nil_r; try assumption; try apply Forall_nil.
  1-7: repeat (apply Forall_app; split; [assumption|]); assumption.
  induction H as [|x r Hx Hr IH]; cbn; [apply Forall_nil | apply Forall_app; split; assumption].
Qed.

Lemma eq_pair_spec x y : is_node x -> is_node y -> (eq_pair x y = true <-> x = y).
Proof.
  intros [m ->] [m' ->]. destruct m, m'; cbn; split; intro H; try discriminate H; try reflexivity;
    try (apply N.eqb_eq in H; subst; reflexivity);
    try (apply bytes_eqb_eq in H; subst; reflexivity);
    try (injection H; intros; subst; apply N.eqb_refl);
    try (injection H; intros; subst; apply bytes_eqb_eq; reflexivity);
    try (apply andb_true_iff in H; destruct H as [H1 H2]; apply N.eqb_eq in H1; apply keys_eqb_eq in H2; subst; reflexivity);
    try (injection H; intros; subst; apply andb_true_iff; split; [apply N.eqb_refl | apply keys_eqb_eq; reflexivity]).
  - apply andb_true_iff in H. destruct H as [H1 H2]. apply N.eqb_eq in H1, H2. congruence.
  - injection H as -> ->. rewrite !N.eqb_refl. reflexivity.
Qed.

(* ------------------------------------------------------------------ equality is structural *)
Theorem eq_structural a b : eq_iter a b = true <-> a = b.
Proof.
  unfold eq_iter. fold (zip_all eq_pair (preorder a) (preorder b)).
  rewrite (zip_all_comparable eq_pair is_node eq_pair_spec) by apply preorder_nodes.
  split.
  - intros [s [H|H]]; [apply (preorder_prefix_inj a b s H) | symmetry; apply (preorder_prefix_inj b a s H)].
  - intros ->. exists []. left. rewrite app_nil_r. reflexivity.
Qed.

Theorem eq_iter_sym a b : eq_iter a b = eq_iter b a.
Proof. apply eq_true_iff_eq. rewrite !eq_structural. split; congruence. Qed.

Theorem eq_iter_trans a b c : eq_iter a b = true -> eq_iter b c = true -> eq_iter a c = true.
Proof. rewrite !eq_structural. congruence. Qed.

(* witnesses used by the historical refutations and the descriptor examples *)
Local Open Scope N_scope.
Definition w_pk (k : key) : ms := MCheck (MPkK k).
Definition w_spk (k : key) : ms := MSwap (MCheck (MPkK k)).

(* the pairs on which the code before 32d9f676 answered `true` *)
Example eq_regression_witnesses :
  eq_iter (MThresh 1 [w_pk 0; w_spk 1]) (MThresh 2 [w_pk 0; w_spk 1]) = false /\
  eq_iter (MThresh 1 [w_pk 0; w_spk 1]) (MThresh 1 [w_pk 0; w_spk 1; w_spk 2]) = false /\
  eq_iter (MThresh 2 [MThresh 1 [w_pk 0; w_spk 1]; w_spk 2; w_spk 3])
          (MThresh 2 [MThresh 1 [w_pk 0; w_spk 1; w_spk 2]; w_spk 3]) = false.
Proof. vm_compute. repeat split. Qed.

(* ------------------------------------------------------------------ Hash *)
Theorem hash_consistent a b : a = b -> hash_iter a = hash_iter b.
Proof. intros ->. reflexivity. Qed.

(* the Hash/Eq contract: k1 == k2 -> hash(k1) == hash(k2) *)
Theorem hash_eq_contract a b : eq_iter a b = true -> hash_iter a = hash_iter b.
Proof. intro H. apply hash_consistent. apply eq_structural. exact H. Qed.

(* ------------------------------------------------------------------ Clone *)
Theorem clone_id m : clone_rec m = m.
Proof.
  induction m using ms_ind'; cbn; try congruence.
  f_equal. induction H as [|x r Hx Hr IH]; cbn; congruence.
Qed.

Theorem clone_eq m : eq_iter (clone_rec m) m = true.
Proof. rewrite clone_id. apply eq_structural. reflexivity. Qed.
