(* C12: each switch rejects exactly the scripts with its defect; each limit exactly the
   scripts whose figure exceeds it. *)
From Coq Require Import List Bool NArith Lia MSetPositive MSetProperties.
Import ListNotations.
From Verif Require Import ValidateModel ValidateSpec ValidateProofs ValidateAccept.
Local Open Scope N_scope.

(* ------------------------------------------------------------------ duplicate keys *)
Lemma nodup_length_le {A} (dec : forall x y : A, {x = y} + {x <> y}) l :
  (length (nodup dec l) <= length l)%nat.
Proof.
  induction l as [|a l IH]; simpl; auto. destruct (in_dec dec a l); simpl; lia.
Qed.

Lemma nodup_length_iff {A} (dec : forall x y : A, {x = y} + {x <> y}) l :
  length (nodup dec l) = length l <-> NoDup l.
Proof.
  split.
  - induction l as [|a l IH]; simpl; intros H; [constructor|].
    destruct (in_dec dec a l) as [i|n].
    + pose proof (nodup_length_le dec l). lia.
    + simpl in H. constructor; auto.
  - intros H. rewrite (nodup_fixed_point dec H). reflexivity.
Qed.

Module PSP := MSetProperties.WProperties PositiveSet.

Lemma succ_pos_inj a b : N.succ_pos a = N.succ_pos b -> a = b.
Proof.
  intros H. apply N.succ_inj. rewrite <- !N.succ_pos_spec. rewrite H. reflexivity.
Qed.

Lemma key_set_in ids i : PositiveSet.In (N.succ_pos i) (key_set ids) <-> In i ids.
Proof.
  induction ids as [|a l IH]; simpl.
  - split; [intros H; exact (PositiveSet.empty_spec H)|tauto].
  - rewrite PositiveSet.add_spec, IH. split.
    + intros [H|H]; [left; symmetry; apply succ_pos_inj; exact H|right; exact H].
    + intros [H|H]; [left; rewrite H; reflexivity|right; exact H].
Qed.

Lemma key_set_cardinal ids :
  PositiveSet.cardinal (key_set ids) = length (nodup N.eq_dec ids).
Proof.
  induction ids as [|a l IH]; simpl.
  - apply PSP.empty_cardinal.
  - destruct (in_dec N.eq_dec a l) as [i|n].
    + rewrite PSP.add_cardinal_1; [exact IH|]. apply key_set_in; exact i.
    + rewrite PSP.add_cardinal_2; [simpl; rewrite IH; reflexivity|].
      intros H. apply n. apply key_set_in; exact H.
Qed.

Theorem has_repeated_keys_iff s :
  has_repeated_keys s = true <-> ~ NoDup (map k_id (all_keys (s_nodes s))).
Proof.
  unfold has_repeated_keys. rewrite negb_true_iff, N.eqb_neq, key_set_cardinal.
  rewrite <- (nodup_length_iff N.eq_dec).
  split; intros H E; apply H.
  - rewrite E. reflexivity.
  - apply Nat2N.inj. exact E.
Qed.

(* ------------------------------------------------------------------ the node loop *)
Lemma multipath_check_off p st k :
  allow_inconsistent_multipath_keys p = true -> multipath_check p st k = (st, VOk).
Proof. unfold multipath_check. intros ->. reflexivity. Qed.

Lemma check_keys_pred p (f : keyinfo -> bool) e : allow_inconsistent_multipath_keys p = true ->
  (forall k, validate_pk p k = if f k then VErr e else VOk) ->
  forall ks st, check_keys p st ks = (st, if existsb f ks then VErr e else VOk).
Proof.
  intros Hm Hv. induction ks as [|k r IH]; intros st; simpl; auto.
  rewrite Hv. destruct (f k); simpl; auto. rewrite (multipath_check_off _ _ _ Hm). apply IH.
Qed.

Lemma check_nodes_kind p (f : nkind -> bool) e : allow_inconsistent_multipath_keys p = true ->
  (forall k, validate_pk p k = VOk) ->
  (forall k, kind_allowed p k = negb (f k)) -> (forall k, f k = true -> kind_err k = e) ->
  forall ns st, check_nodes p st ns = if existsb (fun n => f (n_kind n)) ns then VErr e else VOk.
Proof.
  intros Hm Hv Hk He. induction ns as [|n r IH]; intros st; simpl; auto.
  rewrite check_node_eq, Hk. destruct (f (n_kind n)) eqn:F; simpl.
  - rewrite (He _ F). reflexivity.
  - rewrite (check_keys_pred p (fun _ => false) e Hm) by (intros; apply Hv).
    replace (existsb (fun _ => false) (vkeys n)) with false by (induction (vkeys n); auto).
    apply IH.
Qed.

Lemma check_nodes_keypred p (f : keyinfo -> bool) e : allow_inconsistent_multipath_keys p = true ->
  (forall k, kind_allowed p k = true) ->
  (forall k, validate_pk p k = if f k then VErr e else VOk) ->
  forall ns st, check_nodes p st ns = if existsb f (all_keys ns) then VErr e else VOk.
Proof.
  intros Hm Hk Hv. induction ns as [|n r IH]; intros st; simpl; auto.
  rewrite check_node_eq, Hk, (check_keys_pred p f e Hm Hv).
  unfold all_keys; simpl. rewrite existsb_app. destruct (existsb f (vkeys n)); simpl; auto.
Qed.

(* multipath: the code's state machine as a pure scan *)
Lemma multipath_check_on p st k : allow_inconsistent_multipath_keys p = false ->
  multipath_check p st k =
  if k_paths k <? 2 then (st, VOk)
  else match st with
       | None => (Some (k_paths k), VOk)
       | Some x => if x =? k_paths k then (st, VOk) else (st, VErr EMultipathLenMismatch)
       end.
Proof.
  unfold multipath_check. intros ->.
  destruct (N.ltb_spec (k_paths k) 2) as [H|H].
  - assert (k_paths k = 0 \/ k_paths k = 1) as [-> | ->] by lia; destruct st; reflexivity.
  - destruct (k_paths k) as [|[q|q|]] eqn:E; try lia; destruct st; reflexivity.
Qed.

Fixpoint mp_run (st : option N) (ks : list keyinfo) : option (option N) :=
  match ks with
  | [] => Some st
  | k :: r =>
      if k_paths k <? 2 then mp_run st r
      else match st with
           | None => mp_run (Some (k_paths k)) r
           | Some x => if x =? k_paths k then mp_run st r else None
           end
  end.

Lemma mp_run_app st a b :
  mp_run st (a ++ b) = match mp_run st a with Some st' => mp_run st' b | None => None end.
Proof.
  revert st. induction a as [|k r IH]; intros st; simpl; auto.
  destruct (k_paths k <? 2); auto. destruct st as [x|]; auto. destruct (x =? k_paths k); auto.
Qed.

Lemma check_keys_mp p : allow_inconsistent_multipath_keys p = false ->
  (forall k, validate_pk p k = VOk) ->
  forall ks st, match mp_run st ks with
                | Some st' => check_keys p st ks = (st', VOk)
                | None => exists st', check_keys p st ks = (st', VErr EMultipathLenMismatch)
                end.
Proof.
  intros Hm Hv. induction ks as [|k r IH]; intros st; simpl; auto.
  rewrite Hv, (multipath_check_on _ _ _ Hm).
  destruct (k_paths k <? 2); [apply IH|].
  destruct st as [x|]; [|apply IH].
  destruct (x =? k_paths k); [apply IH|]. eexists; reflexivity.
Qed.

Lemma check_nodes_mp p : allow_inconsistent_multipath_keys p = false ->
  (forall k, kind_allowed p k = true) -> (forall k, validate_pk p k = VOk) ->
  forall ns st, check_nodes p st ns =
                match mp_run st (all_keys ns) with Some _ => VOk | None => VErr EMultipathLenMismatch end.
Proof.
  intros Hm Hk Hv. induction ns as [|n r IH]; intros st; simpl; auto.
  rewrite check_node_eq, Hk. unfold all_keys; simpl. rewrite mp_run_app.
  pose proof (check_keys_mp p Hm Hv (vkeys n) st) as C.
  destruct (mp_run st (vkeys n)) as [st'|].
  - rewrite C. apply IH.
  - destruct C as [st' ->]. reflexivity.
Qed.

Definition conflict (st : option N) (ks : list keyinfo) : Prop :=
  match st with
  | Some x => exists k, In k ks /\ 2 <= k_paths k /\ k_paths k <> x
  | None => False
  end.

Lemma mismatch_cons_small k r : k_paths k < 2 ->
  (multipath_mismatch (k :: r) <-> multipath_mismatch r).
Proof.
  intros Hk. unfold multipath_mismatch. split.
  - intros [k1 [k2 [[<-|I1] [[<-|I2] [H1 [H2 H3]]]]]]; try lia. exists k1, k2. auto.
  - intros [k1 [k2 [I1 [I2 H]]]]. exists k1, k2. simpl; auto.
Qed.

Lemma mismatch_cons_big k r : 2 <= k_paths k ->
  (multipath_mismatch (k :: r) <-> conflict (Some (k_paths k)) r \/ multipath_mismatch r).
Proof.
  intros Hk. unfold multipath_mismatch, conflict. split.
  - intros [k1 [k2 [[<-|I1] [[<-|I2] [H1 [H2 H3]]]]]].
    + congruence.
    + left. exists k2. repeat split; auto.
    + left. exists k1. repeat split; auto.
    + right. exists k1, k2. auto.
  - intros [[k2 [I [H2 H3]]]|[k1 [k2 [I1 [I2 H]]]]].
    + exists k, k2. simpl. repeat split; auto.
    + exists k1, k2. simpl; auto.
Qed.

Lemma mp_run_none ks : forall st,
  mp_run st ks = None <-> conflict st ks \/ multipath_mismatch ks.
Proof.
  induction ks as [|k r IH]; intros st; simpl.
  - split; [discriminate|]. intros [H|[k1 [k2 [[] _]]]]. destruct st; [destruct H as [k [[] _]]|destruct H].
  - destruct (N.ltb_spec (k_paths k) 2) as [Hs|Hb].
    + rewrite IH, (mismatch_cons_small k r Hs). apply or_iff_compat_r.
      destruct st as [x|]; simpl; [|tauto]. split.
      * intros [k' [I H]]. exists k'. simpl; tauto.
      * intros [k' [[<-|I] [H1 H2]]]; [lia|]. exists k'. auto.
    + rewrite (mismatch_cons_big k r Hb). destruct st as [x|].
      * destruct (N.eqb_spec x (k_paths k)) as [->|Hne].
        -- rewrite IH. simpl. split.
           ++ intros [[k' [I H]]|H]; [|tauto]. left. exists k'. simpl; tauto.
           ++ intros [[k' [[<-|I] [H1 H2]]]|[H|H]]; try tauto; try lia. left. exists k'. auto.
        -- split; [intros _|reflexivity]. left. exists k. simpl. repeat split; auto.
      * rewrite IH. simpl. tauto.
Qed.

Theorem mp_run_mismatch ks : mp_run None ks = None <-> multipath_mismatch ks.
Proof. rewrite mp_run_none. simpl. tauto. Qed.

(* top_level_type_check's latch computes the same predicate *)
Definition mp_abs (st : mpstate) : option (option N) :=
  match st with MpSingle => Some None | MpLen n => Some (Some n) | MpMismatch => None end.

Lemma mp_step_eq st k :
  mp_step st k =
  if k_paths k <? 2 then st
  else match st with
       | MpSingle => MpLen (k_paths k)
       | MpLen len => if len =? k_paths k then st else MpMismatch
       | MpMismatch => MpMismatch
       end.
Proof.
  unfold mp_step. destruct (N.ltb_spec (k_paths k) 2) as [H|H].
  - assert (k_paths k = 0 \/ k_paths k = 1) as [-> | ->] by lia; reflexivity.
  - destruct (k_paths k) as [|[q|q|]] eqn:E; try lia; destruct st; reflexivity.
Qed.

Lemma mp_fold_abs ks : forall st,
  mp_abs (fold_left mp_step ks st) =
  match mp_abs st with Some o => mp_run o ks | None => None end.
Proof.
  induction ks as [|k r IH]; intros st; simpl.
  - destruct st; reflexivity.
  - rewrite IH, mp_step_eq. destruct (k_paths k <? 2); [destruct st; reflexivity|].
    destruct st; simpl; auto. destruct (n =? k_paths k); simpl; auto.
Qed.

Theorem top_level_multipath_check_iff s :
  top_level_multipath_check s = TErr TeMultipath <-> multipath_mismatch (all_keys (s_nodes s)).
Proof.
  unfold top_level_multipath_check. rewrite <- mp_run_mismatch.
  pose proof (mp_fold_abs (all_keys (s_nodes s)) MpSingle) as H. simpl in H.
  destruct (fold_left mp_step (all_keys (s_nodes s)) MpSingle); simpl in H; rewrite <- H;
    split; congruence.
Qed.

(* ------------------------------------------------------------------ validate_pk cases *)
Lemma validate_pk_perm p k : allow_uncompressed_keys p = true -> allow_x_only_keys p = true ->
  validate_pk p k = VOk.
Proof. unfold validate_pk. intros -> ->. rewrite andb_false_r. reflexivity. Qed.

Lemma validate_pk_unc p k : allow_compressed_keys p = true -> allow_uncompressed_keys p = false ->
  allow_x_only_keys p = true ->
  validate_pk p k = if k_uncompressed k then VErr EKeyUncompressed else VOk.
Proof. unfold validate_pk. intros -> -> ->. simpl. destruct (k_uncompressed k); reflexivity. Qed.

Lemma validate_pk_xo p k : allow_compressed_keys p = true -> allow_uncompressed_keys p = true ->
  allow_x_only_keys p = false ->
  validate_pk p k = if k_xonly k then VErr EKeyXOnly else VOk.
Proof. unfold validate_pk. intros -> -> ->. simpl. destruct (k_xonly k); reflexivity. Qed.

(* ------------------------------------------------------------------ defects as booleans *)
Definition defectb (b : switch) (s : summary) : bool :=
  match b with
  | SwCompressed => existsb (fun k => negb (k_uncompressed k) && negb (k_xonly k)) (all_keys (s_nodes s))
  | SwDup => has_repeated_keys s
  | SwDupIf => has_kind is_dupif s
  | SwMall => negb (s_nonmall s)
  | SwMulti => has_kind is_multi s
  | SwMultiA => has_kind is_multi_a s
  | SwMixed => s_mixed_locks s
  | SwOrI => has_kind is_ori s
  | SwRawPkh => has_kind is_rawpkh s
  | SwSigless => negb (s_signed s)
  | SwNonB => negb (is_B (s_base s))
  | SwUncompressed => existsb k_uncompressed (all_keys (s_nodes s))
  | SwUnsat => negb (is_some (s_sat s))
  | SwXOnly => existsb k_xonly (all_keys (s_nodes s))
  | SwMultipath => match mp_run None (all_keys (s_nodes s)) with None => true | Some _ => false end
  end.

Theorem defectb_iff b s : defectb b s = true <-> defect b s.
Proof.
  destruct b; simpl; try tauto.
  - rewrite existsb_exists. split; intros [k [I H]]; exists k; split; auto.
    + apply andb_true_iff in H. rewrite !negb_true_iff in H. exact H.
    + apply andb_true_iff. rewrite !negb_true_iff. exact H.
  - apply has_repeated_keys_iff.
  - apply negb_true_iff.
  - apply negb_true_iff.
  - rewrite negb_true_iff. split; intros H.
    + intros E. apply is_B_true in E. congruence.
    + destruct (is_B (s_base s)) eqn:E; auto. apply is_B_true in E. contradiction.
  - rewrite existsb_exists. tauto.
  - destruct (s_sat s); simpl; split; congruence.
  - rewrite existsb_exists. tauto.
  - rewrite <- mp_run_mismatch. destruct (mp_run None (all_keys (s_nodes s))); split; congruence.
Qed.
