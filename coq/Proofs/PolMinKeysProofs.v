(* C18: minimum_n_keys against "fewest signatures in any satisfying assignment". *)
From Coq Require Import List NArith Bool Arith Lia Permutation.
Import ListNotations.
From Verif Require Import PolSemantic PolConcrete PolTruth PolSemanticProofs.

(* ------------------------------------------------------------------ sum of the k smallest *)
Definition lb (x : nat) (l : list nat) : Prop := Forall (fun z => x <= z) l.
Fixpoint srt (l : list nat) : Prop :=
  match l with [] => True | y :: r => lb y r /\ srt r end.

Lemma insert_nat_cases x y r :
  (x <= y /\ insert_by Nat.compare x (y :: r) = x :: y :: r) \/
  (y < x /\ insert_by Nat.compare x (y :: r) = y :: insert_by Nat.compare x r).
Proof.
  simpl. destruct (Nat.compare_spec x y); [left|left|right]; split; try reflexivity; lia.
Qed.

Lemma insert_lb z x l : z <= x -> lb z l -> lb z (insert_by Nat.compare x l).
Proof.
  intros Hx Hl. induction Hl as [|y r Hy Hr IH]; [constructor; [exact Hx|constructor]|].
  destruct (insert_nat_cases x y r) as [[_ E]|[_ E]]; rewrite E.
  - constructor; [exact Hx|]. constructor; assumption.
  - constructor; [exact Hy|exact IH].
Qed.
Lemma insert_srt x l : srt l -> srt (insert_by Nat.compare x l).
Proof.
  induction l as [|y r IH]; [intros _; simpl; split; [constructor|exact I]|].
  intros [Hy Hr]. destruct (insert_nat_cases x y r) as [[L E]|[L E]]; rewrite E.
  - split; [|split; assumption]. constructor; [exact L|].
    eapply Forall_impl; [|exact Hy]. intros; cbv beta in *; lia.
  - split; [apply insert_lb; [lia|exact Hy]|apply IH; exact Hr].
Qed.
Lemma isort_srt l : srt (isort Nat.compare l).
Proof. induction l as [|x r IH]; [exact I|]. unfold isort in *. simpl. apply insert_srt. exact IH. Qed.

Definition S_ (k : nat) (l : list nat) : nat := list_sum (firstn k l).

Lemma S_cons k z r : S_ (S k) (z :: r) = z + S_ k r.
Proof. reflexivity. Qed.
Lemma S_0 l : S_ 0 l = 0.
Proof. reflexivity. Qed.
Lemma S_nil k : S_ k [] = 0.
Proof. unfold S_. rewrite firstn_nil. reflexivity. Qed.

Lemma S_step x l : lb x l -> forall k, 1 <= k <= length l -> x + S_ (k - 1) l <= S_ k l.
Proof.
  induction 1 as [|z r Hz Hr IH]; intros k Hk; [simpl in Hk; lia|].
  destruct k as [|[|k']]; [lia| |].
  - cbn [Nat.sub]. rewrite S_cons, !S_0. lia.
  - cbn [length] in Hk. replace (S (S k') - 1) with (S k') by lia.
    rewrite !S_cons.
    assert (Hk' : 1 <= S k' <= length r) by lia.
    specialize (IH (S k') Hk'). replace (S k' - 1) with k' in IH by lia. lia.
Qed.

(* inserting x into a sorted list: the k smallest either avoid x or use it *)
Lemma S_insert x l : srt l -> forall k, 1 <= k ->
  S_ k (insert_by Nat.compare x l) =
  if k <=? length l then Nat.min (S_ k l) (x + S_ (k - 1) l) else x + S_ (k - 1) l.
Proof.
  induction l as [|y r IH]; intros Hs k Hk.
  - destruct k; [lia|]. cbn [insert_by length]. rewrite S_cons, !S_nil.
    destruct (Nat.leb_spec (S k) 0); lia.
  - destruct Hs as [Hy Hr].
    destruct (insert_nat_cases x y r) as [[L E]|[L E]]; rewrite E.
    + destruct k as [|k']; [lia|].
      rewrite S_cons.
      replace (S k' - 1) with k' by lia.
      destruct (Nat.leb_spec (S k') (length (y :: r))) as [Hle|Hle]; [|reflexivity].
      assert (Hlb : lb x (y :: r)).
      { constructor; [exact L|]. eapply Forall_impl; [|exact Hy]. intros; cbv beta in *; lia. }
      pose proof (S_step x (y :: r) Hlb (S k')) as Hst.
      replace (S k' - 1) with k' in Hst by lia. lia.
    + destruct k as [|k']; [lia|].
      rewrite S_cons.
      replace (S k' - 1) with k' by lia.
      destruct k' as [|k''].
      * (* k = 1 *)
        rewrite !S_0, S_cons, S_0. cbn [length]. destruct (Nat.leb_spec 1 (S (length r))); lia.
      * rewrite (IH Hr (S k'')) by lia.
        replace (S k'' - 1) with k'' by lia.
        rewrite !S_cons.
        cbn [length].
        destruct (Nat.leb_spec (S k'') (length r)); destruct (Nat.leb_spec (S (S k'')) (S (length r))); try lia.
Qed.

(* dynamic-programming form of "length < k ? None : sum of the k smallest" over option values *)
Definition omin (a b : option nat) : option nat :=
  match a, b with
  | None, y => y
  | x, None => x
  | Some x, Some y => Some (Nat.min x y)
  end.
Definition oadd (x : nat) (b : option nat) : option nat :=
  match b with Some y => Some (x + y) | None => None end.
Fixpoint kbest (k : nat) (vs : list (option nat)) : option nat :=
  match k with
  | O => Some 0
  | S k' =>
      match vs with
      | [] => None
      | None :: r => kbest (S k') r
      | Some x :: r => omin (kbest (S k') r) (oadd x (kbest k' r))
      end
  end.

Definition ksel (k : nat) (vs : list (option nat)) : option nat :=
  let l := filter_some vs in
  if length l <? k then None else Some (S_ k (isort Nat.compare l)).

Lemma isort_length {A} (cmp : A -> A -> comparison) l : length (isort cmp l) = length l.
Proof. apply Permutation_length, isort_perm. Qed.

Lemma ksel_kbest : forall vs k, ksel k vs = kbest k vs.
Proof.
  induction vs as [|v r IH]; intro k.
  - destruct k; reflexivity.
  - destruct k as [|k']; [unfold ksel; simpl; reflexivity|].
    destruct v as [x|]; cbn [kbest]; [|rewrite <- IH; reflexivity].
    rewrite <- !IH. unfold ksel. cbn [filter_some length].
    change (isort Nat.compare (x :: filter_some r)) with (insert_by Nat.compare x (isort Nat.compare (filter_some r))).
    set (l := filter_some r). set (sl := isort Nat.compare l).
    assert (Hlen : length sl = length l) by apply isort_length.
    pose proof (S_insert x sl (isort_srt l) (S k')) as Hins. rewrite Hlen in Hins.
    replace (S k' - 1) with k' in Hins by lia.
    destruct (Nat.ltb_spec (S (length l)) (S k')) as [H1|H1].
    + destruct (Nat.ltb_spec (length l) (S k')); [|lia]. destruct (Nat.ltb_spec (length l) k'); [|lia]. reflexivity.
    + rewrite Hins by lia.
      destruct (Nat.ltb_spec (length l) (S k')) as [H2|H2].
      * destruct (Nat.leb_spec (S k') (length l)); [lia|].
        destruct (Nat.ltb_spec (length l) k'); [lia|]. reflexivity.
      * destruct (Nat.leb_spec (S k') (length l)); [|lia].
        destruct (Nat.ltb_spec (length l) k'); [lia|]. simpl. reflexivity.
Qed.

Lemma min_keys_thresh k subs : min_keys (SThresh k subs) = kbest k (map min_keys subs).
Proof. rewrite <- ksel_kbest. reflexivity. Qed.

(* ------------------------------------------------------------------ positional key count *)
Definition kcount (rho : spol -> bool) (p : spol) : nat :=
  length (filter (fun k => rho (SKey k)) (keys_of p)).

Lemma kcount_thresh rho k subs : kcount rho (SThresh k subs) = list_sum (map (kcount rho) subs).
Proof.
  unfold kcount. cbn [keys_of]. induction subs as [|c r IH]; [reflexivity|].
  cbn [flat_map map list_sum]. rewrite filter_app, app_length, IH. reflexivity.
Qed.

Lemma list_sum_cons a l : list_sum (a :: l) = a + list_sum l.
Proof. reflexivity. Qed.

(* lower bound over a list of children *)
Lemma kbest_lower rho : forall cs,
  Forall (fun c => evalA rho c = true -> exists m, min_keys c = Some m /\ m <= kcount rho c) cs ->
  forall k, k <= count_true (map (evalA rho) cs) ->
  exists m, kbest k (map min_keys cs) = Some m /\ m <= list_sum (map (kcount rho) cs).
Proof.
  induction 1 as [|c r Hc Hr IH]; intros k Hk.
  - cbn [map] in Hk. rewrite count_true_nil in Hk. assert (k = 0) by lia. subst. exists 0. split; [reflexivity|lia].
  - destruct k as [|k']; [exists 0; split; [reflexivity|lia]|].
    cbn [map] in Hk. rewrite count_true_cons in Hk. cbn [map kbest]. rewrite list_sum_cons.
    destruct (evalA rho c) eqn:Ec.
    + destruct (Hc eq_refl) as (mc & Emc & Lmc). rewrite Emc.
      destruct (IH k') as (m' & Em' & Lm'); [lia|]. rewrite Em'. cbn [oadd].
      destruct (kbest (S k') (map min_keys r)) as [m1|]; cbn [omin].
      * exists (Nat.min m1 (mc + m')). split; [reflexivity|lia].
      * exists (mc + m'). split; [reflexivity|lia].
    + destruct (IH (S k')) as (m' & Em' & Lm'); [lia|].
      destruct (min_keys c) as [mc|]; [|exists m'; split; [exact Em'|lia]].
      rewrite Em'. destruct (oadd mc (kbest k' (map min_keys r))) as [m2|]; cbn [omin].
      * exists (Nat.min m' m2). split; [reflexivity|lia].
      * exists m'. split; [reflexivity|lia].
Qed.

Lemma min_keys_lower rho : forall p,
  evalA rho p = true -> exists m, min_keys p = Some m /\ m <= kcount rho p.
Proof.
  induction p using spol_ind'; cbn [evalA]; intro E; try discriminate;
    try (exists 0; split; [reflexivity|lia]).
  - exists 1. split; [reflexivity|]. unfold kcount. simpl. rewrite E. simpl. lia.
  - apply Nat.leb_le in E. rewrite min_keys_thresh, kcount_thresh. apply kbest_lower; assumption.
Qed.

(* ------------------------------------------------------------------ achievability *)
Definition is_keyleaf (l : spol) : bool := match l with SKey _ => true | _ => false end.
Definition nkeys_on (on : list spol) : nat := length (filter is_keyleaf on).

Lemma rho_of_app_l a b l : rho_of a l = true -> rho_of (a ++ b) l = true.
Proof. unfold rho_of. rewrite existsb_app. intros ->. reflexivity. Qed.
Lemma rho_of_app_r a b l : rho_of b l = true -> rho_of (a ++ b) l = true.
Proof. unfold rho_of. rewrite existsb_app. intros ->. apply orb_true_r. Qed.

Lemma count_true_mono (f g : spol -> bool) l :
  Forall (fun c => f c = true -> g c = true) l -> count_true (map f l) <= count_true (map g l).
Proof.
  induction 1 as [|c r Hc Hr IH]; [apply le_n|].
  cbn [map]. rewrite !count_true_cons. destruct (f c); [rewrite (Hc eq_refl)|destruct (g c)]; lia.
Qed.

Lemma evalA_mono rho rho' : (forall l, rho l = true -> rho' l = true) ->
  forall p, evalA rho p = true -> evalA rho' p = true.
Proof.
  intro M. induction p using spol_ind'; cbn [evalA]; try apply M; try (intro; assumption).
  intro E. apply Nat.leb_le in E. apply Nat.leb_le.
  eapply Nat.le_trans; [exact E|]. apply count_true_mono. exact H.
Qed.

Lemma kbest_achieve : forall cs,
  Forall (fun c => forall m, min_keys c = Some m ->
                   exists on, evalA (rho_of on) c = true /\ nkeys_on on <= m) cs ->
  forall k m, kbest k (map min_keys cs) = Some m ->
  exists on, k <= count_true (map (evalA (rho_of on)) cs) /\ nkeys_on on <= m.
Proof.
  induction 1 as [|c r Hc Hr IH]; intros k m E.
  - destruct k; [|discriminate]. exists []. split; [simpl; lia|unfold nkeys_on; simpl; lia].
  - destruct k as [|k']; [exists []; split; [lia|unfold nkeys_on; simpl; lia]|].
    cbn [map kbest] in E.
    assert (Hskip : forall m1, kbest (S k') (map min_keys r) = Some m1 -> m1 <= m ->
                    exists on, S k' <= count_true (map (evalA (rho_of on)) (c :: r)) /\ nkeys_on on <= m).
    { intros m1 E1 L1. destruct (IH _ _ E1) as (on & Hon & Hn). exists on. split; [|lia].
      cbn [map]. rewrite count_true_cons. lia. }
    destruct (min_keys c) as [x|] eqn:Emc.
    + assert (Htake : forall m2, kbest k' (map min_keys r) = Some m2 -> x + m2 <= m ->
                      exists on, S k' <= count_true (map (evalA (rho_of on)) (c :: r)) /\ nkeys_on on <= m).
      { intros m2 E2 L2. destruct (IH _ _ E2) as (onr & Honr & Hnr).
        destruct (Hc _ eq_refl) as (onc & Honc & Hnc).
        exists (onc ++ onr). split.
        - cbn [map]. rewrite count_true_cons.
          rewrite (evalA_mono (rho_of onc) (rho_of (onc ++ onr)) (rho_of_app_l onc onr) c Honc).
          assert (count_true (map (evalA (rho_of onr)) r) <= count_true (map (evalA (rho_of (onc ++ onr))) r)).
          { apply count_true_mono. apply Forall_forall. intros c' _. apply evalA_mono. apply rho_of_app_r. }
          lia.
        - unfold nkeys_on in *. rewrite filter_app, app_length. lia. }
      destruct (kbest (S k') (map min_keys r)) as [m1|] eqn:E1;
        destruct (kbest k' (map min_keys r)) as [m2|] eqn:E2; cbn [oadd omin] in E; inversion E; subst.
      * destruct (Nat.min_dec m1 (x + m2)) as [Hm|Hm].
        -- apply (Hskip m1); [reflexivity|lia].
        -- apply (Htake m2); [reflexivity|lia].
      * apply (Hskip m); [reflexivity|lia].
      * apply (Htake m2); [reflexivity|lia].
    + apply (Hskip m); [exact E|lia].
Qed.

Lemma min_keys_achieve : forall p m,
  min_keys p = Some m -> exists on, evalA (rho_of on) p = true /\ nkeys_on on <= m.
Proof.
  induction p using spol_ind'; intros m E;
    try (cbn [min_keys] in E;
         match type of E with
         | Some _ = Some _ => inversion E; subst; clear E
         | None = Some _ => discriminate
         end).
  - exists []. split; [reflexivity|unfold nkeys_on; simpl; lia].
  - exists [SKey k]. split; [cbn [evalA]; unfold rho_of; simpl; rewrite N.eqb_refl; reflexivity|unfold nkeys_on; simpl; lia].
  - exists [SAfter t]. split; [cbn [evalA]; unfold rho_of; simpl; rewrite N.eqb_refl; reflexivity|unfold nkeys_on; simpl; lia].
  - exists [SOlder t]. split; [cbn [evalA]; unfold rho_of; simpl; rewrite N.eqb_refl; reflexivity|unfold nkeys_on; simpl; lia].
  - exists [SSha256 h]. split; [cbn [evalA]; unfold rho_of; simpl; rewrite N.eqb_refl; reflexivity|unfold nkeys_on; simpl; lia].
  - exists [SHash256 h]. split; [cbn [evalA]; unfold rho_of; simpl; rewrite N.eqb_refl; reflexivity|unfold nkeys_on; simpl; lia].
  - exists [SRipemd160 h]. split; [cbn [evalA]; unfold rho_of; simpl; rewrite N.eqb_refl; reflexivity|unfold nkeys_on; simpl; lia].
  - exists [SHash160 h]. split; [cbn [evalA]; unfold rho_of; simpl; rewrite N.eqb_refl; reflexivity|unfold nkeys_on; simpl; lia].
  - change (min_keys (SThresh k subs) = Some m) in E. rewrite min_keys_thresh in E.
    destruct (kbest_achieve subs H k m E) as (on & Hon & Hn).
    exists on. split; [cbn [evalA]; apply Nat.leb_le; exact Hon|exact Hn].
Qed.

(* ------------------------------------------------------------------ signatures vs key leaves *)
Lemma dedupN_in x l : In x (dedupN l) <-> In x l.
Proof.
  induction l as [|y r IH]; [reflexivity|]. simpl.
  destruct (existsb (N.eqb y) r) eqn:E.
  - rewrite IH. split; [auto|]. intros [->|H]; [|exact H].
    apply existsb_exists in E. destruct E as (z & Hz & Ez). apply N.eqb_eq in Ez. subst. exact Hz.
  - simpl. rewrite IH. reflexivity.
Qed.
Lemma dedupN_nodup l : NoDup (dedupN l).
Proof.
  induction l as [|y r IH]; [constructor|]. simpl.
  destruct (existsb (N.eqb y) r) eqn:E; [exact IH|].
  constructor; [|exact IH]. rewrite dedupN_in. intro Hin.
  assert (existsb (N.eqb y) r = true) by (apply existsb_exists; exists y; split; [exact Hin|apply N.eqb_refl]).
  congruence.
Qed.
Lemma dedupN_id l : NoDup l -> dedupN l = l.
Proof.
  induction 1 as [|y r Hy Hr IH]; [reflexivity|]. simpl.
  destruct (existsb (N.eqb y) r) eqn:E.
  - apply existsb_exists in E. destruct E as (z & Hz & Ez). apply N.eqb_eq in Ez. subst. contradiction.
  - rewrite IH. reflexivity.
Qed.

Lemma filter_length_le' {A} (f : A -> bool) l : length (filter f l) <= length l.
Proof. induction l as [|x r IH]; [apply le_n|]. simpl. destruct (f x); simpl; lia. Qed.

(* signatures used never exceed the key leaves switched on *)
Lemma sigcount_le_kcount rho p : sigcount rho p <= kcount rho p.
Proof.
  unfold sigcount, kcount.
  apply NoDup_incl_length.
  - apply NoDup_filter, dedupN_nodup.
  - intros x Hx. apply filter_In in Hx. destruct Hx as [Hx Hr]. apply filter_In. split; [|exact Hr].
    apply dedupN_in. exact Hx.
Qed.
Lemma sigcount_nodup rho p : NoDup (keys_of p) -> sigcount rho p = kcount rho p.
Proof. intro H. unfold sigcount, kcount. rewrite dedupN_id by exact H. reflexivity. Qed.

Lemma sigcount_le_on on p : sigcount (rho_of on) p <= nkeys_on on.
Proof.
  unfold sigcount, nkeys_on.
  set (l := filter (fun k => rho_of on (SKey k)) (dedupN (keys_of p))).
  rewrite <- (map_length SKey l).
  apply NoDup_incl_length.
  - apply FinFun.Injective_map_NoDup; [intros a b E; inversion E; reflexivity|].
    apply NoDup_filter, dedupN_nodup.
  - intros x Hx. apply in_map_iff in Hx. destruct Hx as (k & <- & Hk).
    apply filter_In in Hk. destruct Hk as [_ Hr]. apply filter_In. split; [|reflexivity].
    unfold rho_of in Hr. apply existsb_exists in Hr. destruct Hr as (z & Hz & Ez).
    apply spol_eqb_eq in Ez. subst. exact Hz.
Qed.

(* ------------------------------------------------------------------ the theorems *)
(* for every policy: None exactly when unsatisfiable; Some m is achieved by a satisfying
   assignment using at most m signatures, and no satisfying assignment switches on fewer
   than m key LEAVES *)
Theorem min_keys_sound p :
  match min_keys p with
  | None => forall rho, evalA rho p = false
  | Some m => (exists rho, evalA rho p = true /\ sigcount rho p <= m) /\
              (forall rho, evalA rho p = true -> m <= kcount rho p)
  end.
Proof.
  destruct (min_keys p) as [m|] eqn:E.
  - split.
    + destruct (min_keys_achieve p m E) as (on & Hon & Hn). exists (rho_of on). split; [exact Hon|].
      eapply Nat.le_trans; [apply sigcount_le_on|exact Hn].
    + intros rho Hr. destruct (min_keys_lower rho p Hr) as (m' & Em' & L). congruence.
  - intro rho. destruct (evalA rho p) eqn:Er; [|reflexivity].
    destruct (min_keys_lower rho p Er) as (m' & Em' & _). congruence.
Qed.

(* exact when no key occurs twice *)
Theorem min_keys_exact_nodup p : NoDup (keys_of p) -> is_min_sigs p (min_keys p).
Proof.
  intro ND. pose proof (min_keys_sound p) as H. unfold is_min_sigs.
  destruct (min_keys p) as [m|]; [|exact H].
  destruct H as [(rho & Hr & Hs) Hl]. split.
  - exists rho. split; [exact Hr|]. specialize (Hl rho Hr). rewrite <- sigcount_nodup in Hl by exact ND. lia.
  - intros rho' Hr'. rewrite sigcount_nodup by exact ND. apply Hl. exact Hr'.
Qed.

(* the unrestricted statement is false: a repeated key is counted once per leaf *)
Theorem min_keys_exact_refuted :
  exists p, wf p = true /\ min_keys p = Some 2 /\
            exists rho, evalA rho p = true /\ sigcount rho p = 1.
Proof.
  exists (SThresh 2 [SKey 0; SKey 0]). split; [reflexivity|]. split; [reflexivity|].
  exists (fun _ => true). split; reflexivity.
Qed.
