(* Helper lemmas for SignedSound.v: script numbers beyond the 31-bit range, inversion of
   successful executions (sequencing, single opcodes, IF), and "this list of stack elements
   contains a valid signature". *)
From Verif Require Import Exec Ser Ast Types TypeCheck ExecLemmas ScriptNumProofs.
From Coq Require Import Lia.

(* ---------- numbers: a 4-byte operand that is the encoding of z decodes to z ---------- *)
Lemma enc_mag_nonempty f z sb : (1 <= length (enc_mag (S f) z sb))%nat.
Proof.
  cbn [enc_mag]. destruct (z <? 128)%Z; [cbn; lia|]. destruct (z <? 256)%Z; cbn [length]; lia.
Qed.

Lemma enc_mag_two f z sb : (128 <= z)%Z -> (2 <= length (enc_mag (S (S f)) z sb))%nat.
Proof.
  intros Hz. cbn [enc_mag]. destruct (Z.ltb_spec z 128); [lia|].
  destruct (z <? 256)%Z; [cbn; lia|]. cbn [length].
  pose proof (enc_mag_nonempty f (z / 256) sb). cbn [enc_mag] in *. lia.
Qed.

Lemma enc_mag_step f z sb : (256 <= z)%Z ->
  enc_mag (S f) z sb = Z.to_N (z mod 256) :: enc_mag f (z / 256) sb.
Proof.
  intros Hz. cbn [enc_mag]. destruct (Z.ltb_spec z 128); [lia|]. destruct (Z.ltb_spec z 256); [lia|]. reflexivity.
Qed.

Lemma enc_mag_long z sb : (2147483648 <= z)%Z -> (5 <= length (enc_mag 10 z sb))%nat.
Proof.
  intros Hz.
  assert (H1 : (8388608 <= z / 256)%Z) by (apply Z.div_le_lower_bound; lia).
  assert (H2 : (32768 <= z / 256 / 256)%Z) by (apply Z.div_le_lower_bound; lia).
  assert (H3 : (128 <= z / 256 / 256 / 256)%Z) by (apply Z.div_le_lower_bound; lia).
  rewrite enc_mag_step by lia. rewrite enc_mag_step by lia. rewrite enc_mag_step by lia.
  cbn [length]. pose proof (enc_mag_two 5 (z / 256 / 256 / 256) sb H3). lia.
Qed.

Lemma num_operand4_encode z z' : (0 <= z)%Z -> num_operand 4 (num_encode z) = Some z' -> z' = z.
Proof.
  intros Hz H. destruct (Z.ltb_spec z 2147483648) as [Hlt|Hge].
  - rewrite (num_roundtrip 4 z) in H by lia. congruence.
  - exfalso. unfold num_operand in H.
    assert (Hl : N.leb (blen (num_encode z)) 4 = false).
    { apply N.leb_gt. unfold blen, num_encode. destruct (Z.eqb_spec z 0); [lia|].
      pose proof (enc_mag_long (Z.abs z) (if (z <? 0)%Z then 128%N else 0%N) ltac:(lia)). lia. }
    rewrite Hl in H. discriminate.
Qed.

Lemma truthy_bool b : truthy (bool_bytes b) = b.
Proof. destruct b; reflexivity. Qed.

(* value of a B/W result as an ADD operand: 1 if truthy and unit, 0 if falsy *)
Lemma num_falsy v z : num_operand 4 v = Some z -> truthy v = false -> z = 0%Z.
Proof.
  intros H Ht. rewrite (num_truthy_iff 4 v z H) in Ht. destruct (Z.eqb_spec z 0); [assumption | discriminate].
Qed.
Lemma num_truthy_nz v z : num_operand 4 v = Some z -> truthy v = true -> z <> 0%Z.
Proof.
  intros H Ht. rewrite (num_truthy_iff 4 v z H) in Ht. destruct (Z.eqb_spec z 0); [discriminate | assumption].
Qed.

(* ---------- inversion of successful runs ---------- *)
Lemma bind_ok_inv {A B} (r : result A) (f : A -> result B) b :
  bind r f = Ok b -> exists a, r = Ok a /\ f a = Ok b.
Proof. destruct r as [a|]; cbn; [eauto | discriminate]. Qed.

Lemma exec_app_ok e s1 s2 st st' :
  exec e (s1 ++ s2) st = Ok st' -> exists st1, exec e s1 st = Ok st1 /\ exec e s2 st1 = Ok st'.
Proof. rewrite exec_app. apply bind_ok_inv. Qed.

Lemma exec_cons_ok e i s st st' :
  exec e (i :: s) st = Ok st' -> exists st1, exec_instr e i st = Ok st1 /\ exec e s st1 = Ok st'.
Proof. rewrite exec_cons. apply bind_ok_inv. Qed.

Lemma exec_one_ok e i st st' : exec e [i] st = Ok st' -> exec_instr e i st = Ok st'.
Proof. cbn [exec]. destruct (exec_instr e i st); cbn; [auto | discriminate]. Qed.

Lemma exec_nil_ok e st st' : exec e [] st = Ok st' -> st' = st.
Proof. cbn. congruence. Qed.

Lemma exec_push_int' e z st :
  exec_instr e (push_int z) st = Ok (mkSt (num_encode z :: stk st) (alt st)).
Proof.
  unfold push_int. destruct (z =? 0)%Z eqn:E0.
  - apply Z.eqb_eq in E0. subst. reflexivity.
  - destruct ((z =? -1)%Z || ((1 <=? z)%Z && (z <=? 16)%Z)); reflexivity.
Qed.

(* the popped IF condition agrees with truthiness (MINIMALIF only restricts it further) *)
Lemma if_cond_truthy e v c : if_cond e v = Some c -> truthy v = c.
Proof.
  unfold if_cond. destruct (minimalif (e_sv e)).
  - destruct v as [|x r]; [intros H; inversion H; reflexivity|].
    destruct x as [|[p|p|]]; try discriminate. destruct r; [|discriminate].
    intros H; inversion H. reflexivity.
  - congruence.
Qed.

Lemma if_ok e neg thn els v r al st' :
  exec_instr e (IIf neg thn els) (mkSt (v :: r) al) = Ok st' ->
  (xorb (truthy v) neg = true /\ exec e thn (mkSt r al) = Ok st') \/
  (xorb (truthy v) neg = false /\
   match els with Some el => exec e el (mkSt r al) = Ok st' | None => st' = mkSt r al end).
Proof.
  rewrite exec_if. cbn [stk alt]. destruct (if_cond e v) as [c|] eqn:Ec; [|discriminate].
  apply if_cond_truthy in Ec. subst c. destruct (xorb (truthy v) neg).
  - intros H. left. auto.
  - intros H. right. split; [reflexivity|]. destruct els; [exact H | congruence].
Qed.

Lemma if_ok_stack e neg thn els s al st' :
  exec_instr e (IIf neg thn els) (mkSt s al) = Ok st' -> exists v r, s = v :: r.
Proof. rewrite exec_if. cbn [stk]. destruct s; [discriminate | eauto]. Qed.

(* push_verify: X;VERIFY (TheoremA.push_verify_exec is inside a section that carries assets; restated) *)
Lemma verify_ok e st st' : exec_op e OP_VERIFY st = Ok st' ->
  exists v r, stk st = v :: r /\ truthy v = true /\ st' = mkSt r (alt st).
Proof.
  cbn [exec_op]. destruct (stk st) as [|v r]; [discriminate|]. destruct (truthy v) eqn:E; [|discriminate].
  intros H. inversion H. eauto.
Qed.

(* ---------- lists of stack elements that contain a valid signature ---------- *)
Section HasSig.
  Variable e : env.
  Definition validsig (x : bytes) : Prop := exists k, e_sigok e k x = true.
  Definition hassig (p : list bytes) : Prop := exists x, In x p /\ validsig x.
  Definition sigfree (st : list bytes) : Prop := forall x, In x st -> forall k, e_sigok e k x = false.

  Lemma hassig_nil : ~ hassig [].
  Proof. intros [x [[] _]]. Qed.
  Lemma hassig_app_l p q : hassig p -> hassig (p ++ q).
  Proof. intros [x [Hi Hv]]. exists x. split; [apply in_or_app; auto | exact Hv]. Qed.
  Lemma hassig_app_r p q : hassig q -> hassig (p ++ q).
  Proof. intros [x [Hi Hv]]. exists x. split; [apply in_or_app; auto | exact Hv]. Qed.
  Lemma hassig_cons x p : hassig p -> hassig (x :: p).
  Proof. intros [y [Hi Hv]]. exists y. split; [right; exact Hi | exact Hv]. Qed.
  Lemma hassig_here x p k : e_sigok e k x = true -> hassig (x :: p).
  Proof. intros H. exists x. split; [left; reflexivity | exists k; exact H]. Qed.
  Lemma hassig_incl p q : (forall x, In x p -> In x q) -> hassig p -> hassig q.
  Proof. intros Hi [x [Hx Hv]]. exists x. auto. Qed.
  Lemma sigfree_no_hassig st : sigfree st -> ~ hassig st.
  Proof. intros Hf [x [Hi [k Hk]]]. rewrite (Hf x Hi k) in Hk. discriminate. Qed.
  Lemma sigfree_app_l p q : sigfree (p ++ q) -> sigfree p.
  Proof. intros H x Hx. apply H, in_or_app. auto. Qed.
End HasSig.

(* ---------- single opcodes: what a successful step looked like ---------- *)
Lemma checksig_ok e s a st' : exec_op e OP_CHECKSIG (mkSt s a) = Ok st' ->
  exists k sg r b, s = k :: sg :: r /\ st' = mkSt (bool_bytes b :: r) a /\
                   (b = true -> e_sigok e k sg = true) /\ (b = false -> sg = []).
Proof.
  cbn [exec_op stk alt]. destruct s as [|k [|sg r]]; try discriminate.
  destruct (negb (e_keyok e k)); [discriminate|].
  destruct sg as [|b0 sg'].
  - intros H. inversion H. exists k, [], r, false. repeat split; auto; discriminate.
  - destruct (e_sigok e k (b0 :: sg')) eqn:E; [|discriminate].
    intros H. inversion H. exists k, (b0 :: sg'), r, true. repeat split; auto; discriminate.
Qed.

Lemma booland_ok e s a st' : exec_op e OP_BOOLAND (mkSt s a) = Ok st' ->
  exists x y r, s = x :: y :: r /\ st' = mkSt (bool_bytes (truthy x && truthy y) :: r) a.
Proof.
  cbn [exec_op stk alt]. destruct s as [|x [|y r]]; try discriminate.
  destruct (num_operand 4 x) as [n1|] eqn:E1; [|discriminate].
  destruct (num_operand 4 y) as [n2|] eqn:E2; [|discriminate].
  intros H. inversion H. exists x, y, r. split; [reflexivity|].
  rewrite (num_truthy_iff 4 x n1 E1), (num_truthy_iff 4 y n2 E2). reflexivity.
Qed.

Lemma boolor_ok e s a st' : exec_op e OP_BOOLOR (mkSt s a) = Ok st' ->
  exists x y r, s = x :: y :: r /\ st' = mkSt (bool_bytes (truthy x || truthy y) :: r) a.
Proof.
  cbn [exec_op stk alt]. destruct s as [|x [|y r]]; try discriminate.
  destruct (num_operand 4 x) as [n1|] eqn:E1; [|discriminate].
  destruct (num_operand 4 y) as [n2|] eqn:E2; [|discriminate].
  intros H. inversion H. exists x, y, r. split; [reflexivity|].
  rewrite (num_truthy_iff 4 x n1 E1), (num_truthy_iff 4 y n2 E2). reflexivity.
Qed.

Lemma zne_ok e s a st' : exec_op e OP_0NOTEQUAL (mkSt s a) = Ok st' ->
  exists x r n, s = x :: r /\ num_operand 4 x = Some n /\ st' = mkSt (bool_bytes (truthy x) :: r) a.
Proof.
  cbn [exec_op stk alt]. destruct s as [|x r]; try discriminate.
  destruct (num_operand 4 x) as [n|] eqn:E1; [|discriminate].
  intros H. inversion H. exists x, r, n. split; [reflexivity|]. split; [exact E1|].
  rewrite (num_truthy_iff 4 x n E1). reflexivity.
Qed.

Lemma add_ok e s a st' : exec_op e OP_ADD (mkSt s a) = Ok st' ->
  exists x y r n1 n2, s = x :: y :: r /\ num_operand 4 x = Some n1 /\ num_operand 4 y = Some n2 /\
                      st' = mkSt (num_encode (n2 + n1) :: r) a.
Proof.
  cbn [exec_op stk alt]. destruct s as [|x [|y r]]; try discriminate.
  destruct (num_operand 4 x) as [n1|] eqn:E1; [|discriminate].
  destruct (num_operand 4 y) as [n2|] eqn:E2; [|discriminate].
  intros H. inversion H. exists x, y, r, n1, n2. auto.
Qed.

Lemma equal_ok e s a st' : exec_op e OP_EQUAL (mkSt s a) = Ok st' ->
  exists x y r, s = x :: y :: r /\ st' = mkSt (bool_bytes (bytes_eqb x y) :: r) a.
Proof.
  cbn [exec_op stk alt]. destruct s as [|x [|y r]]; try discriminate.
  intros H. inversion H. eauto.
Qed.

Lemma numequal_ok e s a st' : exec_op e OP_NUMEQUAL (mkSt s a) = Ok st' ->
  exists x y r n1 n2, s = x :: y :: r /\ num_operand 4 x = Some n1 /\ num_operand 4 y = Some n2 /\
                      st' = mkSt (bool_bytes (n1 =? n2)%Z :: r) a.
Proof.
  cbn [exec_op stk alt]. destruct s as [|x [|y r]]; try discriminate.
  destruct (num_operand 4 x) as [n1|] eqn:E1; [|discriminate].
  destruct (num_operand 4 y) as [n2|] eqn:E2; [|discriminate].
  intros H. inversion H. exists x, y, r, n1, n2. auto.
Qed.

Lemma take_n_some {X} n : forall (l a b : list X), take_n n l = Some (a, b) -> l = a ++ b /\ length a = n.
Proof.
  induction n as [|n IH]; intros l a b H; cbn in H.
  - inversion H. auto.
  - destruct l as [|x r]; [discriminate|]. destruct (take_n n r) as [[a' b']|] eqn:E; [|discriminate].
    inversion H; subst. destruct (IH _ _ _ E) as [-> <-]. auto.
Qed.

Lemma csa_ok e s a st' : exec_op e OP_CHECKSIGADD (mkSt s a) = Ok st' ->
  exists k nb sg r n (b : bool), s = k :: nb :: sg :: r /\ num_operand 4 nb = Some n /\
    st' = mkSt (num_encode (n + (if b then 1 else 0))%Z :: r) a /\ (b = true -> e_sigok e k sg = true).
Proof.
  cbn [exec_op stk alt]. destruct (e_sv e); try discriminate.
  destruct s as [|k [|nb [|sg r]]]; try discriminate.
  destruct (negb (e_keyok e k)); [discriminate|].
  destruct (num_operand 4 nb) as [n|] eqn:En; [|discriminate].
  destruct sg as [|b0 sg'].
  - intros H. inversion H. exists k, nb, [], r, n, false. rewrite Z.add_0_r. repeat split; auto; discriminate.
  - destruct (e_sigok e k (b0 :: sg')) eqn:E; [|discriminate].
    intros H. inversion H. exists k, nb, (b0 :: sg'), r, n, true. repeat split; auto.
Qed.

Lemma cms_ok e s a st' : exec_op e OP_CHECKMULTISIG (mkSt s a) = Ok st' ->
  exists nb r1 n keys_rev mb r3 m sigs_rev r5 b,
    s = nb :: r1 /\ num_operand 4 nb = Some n /\ take_n (Z.to_nat n) r1 = Some (keys_rev, mb :: r3) /\
    num_operand 4 mb = Some m /\ take_n (Z.to_nat m) r3 = Some (sigs_rev, [] :: r5) /\
    st' = mkSt (bool_bytes b :: r5) a /\ (b = true -> multisig_match e keys_rev sigs_rev = true).
Proof.
  cbn [exec_op stk alt]. intros H.
  destruct (e_sv e); try discriminate H;
  (destruct s as [|nb r1]; [discriminate|];
   destruct (num_operand 4 nb) as [n|] eqn:En; [|discriminate];
   destruct ((n <? 0) || (20 <? n))%Z; [discriminate|];
   destruct (take_n (Z.to_nat n) r1) as [[keys_rev r2]|] eqn:Ek; [|discriminate];
   destruct r2 as [|mb r3]; [discriminate|];
   destruct (num_operand 4 mb) as [m|] eqn:Em; [|discriminate];
   destruct ((m <? 0) || (n <? m))%Z; [discriminate|];
   destruct (take_n (Z.to_nat m) r3) as [[sigs_rev r4]|] eqn:Es; [|discriminate];
   destruct r4 as [|dummy r5]; [discriminate|]; destruct dummy; [|discriminate];
   destruct (negb (forallb (e_keyok e) keys_rev)); [discriminate|];
   destruct (multisig_match e keys_rev sigs_rev) eqn:Emm;
   [ inversion H; exists nb, r1, n, keys_rev, mb, r3, m, sigs_rev, r5, true; repeat split; auto
   | match type of H with (if ?c then _ else _) = _ => destruct c end; [|discriminate];
     inversion H; exists nb, r1, n, keys_rev, mb, r3, m, sigs_rev, r5, false; repeat split; auto; discriminate ]).
Qed.

Lemma mm_first e keys sg srest : multisig_match e keys (sg :: srest) = true -> exists k, e_sigok e k sg = true.
Proof.
  induction keys as [|kbs K IH]; [discriminate|].
  cbn [multisig_match]. destruct (Nat.ltb _ _); [discriminate|].
  destruct (e_sigok e kbs sg) eqn:E; [eauto|].
  intros H. apply IH. destruct K; [discriminate H | exact H].
Qed.

Lemma blen_zero x : Z.of_N (blen x) = 0%Z -> x = [].
Proof. destruct x; [reflexivity|]. unfold blen. cbn [length]. lia. Qed.
