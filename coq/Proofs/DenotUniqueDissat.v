(* C06, the `e` prediction for EVERY input stack: a fragment typed e (malleability dissat = Unique)
   AND m (non-malleable) has, over signature-free stacks, exactly ONE dissatisfaction -- whatever
   the stack, a dissatisfying execution that meets no valid signature consumes THE dissatisfaction.
   Proved on the exact denotational relation (Ms/DenotSpec.v), which Theorem B / A' identify with
   the Script semantics; s and f are imported from Proofs/SignedSound.v (a satisfied s fragment, a
   dissatisfied f fragment consumed a valid signature).
   Hypotheses, each necessary (refutations at the end of the file):
     * m: e alone claims nothing -- or_b is typed e unconditionally (code and specification
       agree), its uniqueness needs both children e, which is what m adds ([e_needs_m]);
     * MINIMALIF ([minimalif (e_sv e) = true], i.e. not the base signature version): otherwise any
       false value is a dissatisfying selector of d: / or_i ([e_needs_minimalif]);
     * hash160 is injective on acceptable keys: pk_h is typed e but its dissatisfaction starts with
       ANY key hashing to the committed value.
   Hash fragments are typed Unknown (not e), so their many 32-byte dissatisfactions do not matter:
   wherever a hash sits under an e+m fragment the typing rules force a signature next to it. *)
From Verif Require Import Exec Ser Ast Types TypeCheck SatSpec ExecLemmas Spec TypesSpec ScriptNumProofs TheoremA.
From Verif Require Import FrameBase FrameSound FrameDissat SignedLemmas SignedSound CompleteThresh CompleteNonMall.
From Verif Require Import DenotSpec DenotLemmas DenotComplete DenotSound DenotMain DenotTable.
From Coq Require Import Lia.

Definition h160_inj (e : env) : Prop :=
  forall a b, e_keyok e a = true -> e_keyok e b = true -> e_hash160 e a = e_hash160 e b -> a = b.

Section Unique.
  Variable e : env.
  Variable ke : keyenv.
  Hypothesis Hmin : minimalif (e_sv e) = true.
  Hypothesis Hinj : h160_inj e.
  Notation RR := (Rg e ke false).
  Notation sf := (sigfree e).

  Lemma sf_app_r p q : sf (p ++ q) -> sf q.
  Proof. intros H x Hx. apply H, in_or_app. auto. Qed.
  Lemma sf_tl x p : sf (x :: p) -> sf p.
  Proof. intros H y Hy. apply H. right. exact Hy. Qed.
  Lemma sf_nilr p : sf p -> sf (p ++ []).
  Proof. rewrite app_nil_r. auto. Qed.

  Lemma ifc_false v : if_cond e v = Some false -> v = [].
  Proof.
    unfold if_cond. rewrite Hmin. destruct v as [|x r]; [reflexivity|].
    destruct x as [|[p|p|]]; destruct r; discriminate.
  Qed.
  Lemma ifc_true v : if_cond e v = Some true -> v = [1%N].
  Proof.
    unfold if_cond. rewrite Hmin. destruct v as [|x r]; [discriminate|].
    destruct x as [|[p|p|]]; destruct r; try discriminate. reflexivity.
  Qed.

  (* ---------- s and f at the level of the relation ---------- *)
  Lemma nosf x t (s : bool) w v : type_of x = ROk t -> wf e ke x -> RR x s w v -> sf w ->
    (if s then m_signed (t_mall t) = true else m_dissat (t_mall t) = DNone) -> False.
  Proof.
    intros Ht Hwf HR Hf Hty. pose proof (theoremA' e ke x t Ht Hwf s w v HR) as HA.
    destruct (c_base (t_corr t)) eqn:Hb.
    - (* B *) destruct HA as [Htv Hx]. specialize (Hx [] []). destruct s.
      + destruct (signed_B e ke x t Ht Hwf Hb Hty _ _ _ (sf_nilr w Hf) Hx) as [v' [r [Hs Hv']]].
        cbn in Hs. inversion Hs; subst. congruence.
      + destruct (forced_B e ke x t Ht Hwf Hb Hty _ _ _ (sf_nilr w Hf) Hx) as [v' [r [Hs Hv']]].
        cbn in Hs. inversion Hs; subst. congruence.
    - (* K *) destruct HA as [c [sg [-> [[_ Hk] Hx]]]]. destruct s.
      + destruct Hk as [_ Hok].
        assert (Hin : In sg (c ++ [sg])) by (apply in_or_app; right; left; reflexivity).
        rewrite (Hf sg Hin v) in Hok. discriminate.
      + specialize (Hx [] []). rewrite (forced_K e ke x t Ht Hwf Hb Hty (c ++ []) []) in Hx; [discriminate|].
        apply sf_nilr. eapply sigfree_app_l. exact Hf.
    - (* V *) destruct HA as [-> [_ Hx]]. specialize (Hx [] []).
      rewrite (signed_V e ke x t Ht Hwf Hb Hty (w ++ []) [] (sf_nilr w Hf)) in Hx. discriminate.
    - (* W *) destruct HA as [Htv [above Hx]]. specialize (Hx [] [] []). destruct s.
      + destruct (signed_W e ke x t Ht Hwf Hb Hty [] _ _ _ (sf_nilr w Hf) Hx) as [v' [s' [Hs Hv']]].
        assert (v' = v) by (destruct above, Hs as [Hs|Hs]; cbn in Hs; inversion Hs; subst; reflexivity). congruence.
      + destruct (forced_W e ke x t Ht Hwf Hb Hty [] _ _ _ (sf_nilr w Hf) Hx) as [v' [s' [Hs Hv']]].
        assert (v' = v) by (destruct above, Hs as [Hs|Hs]; cbn in Hs; inversion Hs; subst; reflexivity). congruence.
  Qed.

  (* ---------- the induction ---------- *)
  Definition uq (m : ms) : Prop :=
    forall t, type_of m = ROk t -> wf e ke m -> m_nm (t_mall t) = true -> m_dissat (t_mall t) = DUnique ->
    forall w1 v1 w2 v2, RR m false w1 v1 -> RR m false w2 v2 -> sf w1 -> sf w2 -> w1 = w2.

  Ltac unf H := unfold t_cast_alt, t_cast_swap, t_cast_check, t_cast_dupif, t_cast_verify, t_cast_nonzero,
    t_cast_zeronotequal, t_and_v, t_and_b, t_or_b, t_or_c, t_or_d, t_or_i, t_and_or, lift1, lift2,
    c_cast_alt, c_cast_swap, c_cast_check, c_cast_dupif, c_cast_verify, c_cast_nonzero, c_cast_zeronotequal,
    c_and_v, c_and_b, c_or_b, c_or_c, c_or_d, c_or_i, c_and_or in H; cbn [t_corr t_mall c_base c_input c_dissat c_unit] in H.
  Ltac mred H := cbn [t_mall t_corr m_nm m_dissat m_signed m_cast_alt m_cast_swap m_cast_check m_cast_dupif
    m_cast_verify m_cast_nonzero m_cast_zeronotequal m_and_b m_and_v m_or_b m_or_c m_or_d m_or_i m_and_or
    none_to_unique] in H.
  Ltac child Ht tx Hx := apply rbind_ok in Ht; destruct Ht as [tx [Hx Ht]].

  (* same malleability, same witnesses *)
  Lemma u_alt x : uq x -> uq (MAlt x).
  Proof.
    intros IH t Ht Hwf Hnm Hd w1 v1 w2 v2 H1 H2 S1 S2. cbn [type_of] in Ht. child Ht tx Hx.
    destruct tx as [[bx ix dx ux] qx]. unf Ht. destruct bx; try discriminate. inversion Ht; subst; clear Ht.
    exact (IH _ Hx Hwf Hnm Hd w1 v1 w2 v2 H1 H2 S1 S2).
  Qed.
  Lemma u_swap x : uq x -> uq (MSwap x).
  Proof.
    intros IH t Ht Hwf Hnm Hd w1 v1 w2 v2 H1 H2 S1 S2. cbn [type_of] in Ht. child Ht tx Hx.
    destruct tx as [[bx ix dx ux] qx]. unf Ht. destruct bx; try discriminate; destruct ix; try discriminate;
      inversion Ht; subst; clear Ht; exact (IH _ Hx Hwf Hnm Hd w1 v1 w2 v2 H1 H2 S1 S2).
  Qed.
  Lemma u_check x : uq x -> uq (MCheck x).
  Proof.
    intros IH t Ht Hwf Hnm Hd w1 v1 w2 v2 H1 H2 S1 S2. cbn [type_of] in Ht. child Ht tx Hx.
    destruct tx as [[bx ix dx ux] qx]. unf Ht. destruct bx; try discriminate. inversion Ht; subst; clear Ht.
    cbn [Rg] in H1, H2. destruct H1 as [_ [k1 H1]]. destruct H2 as [_ [k2 H2]].
    exact (IH _ Hx Hwf Hnm Hd w1 k1 w2 k2 H1 H2 S1 S2).
  Qed.
  Lemma u_zne x : uq x -> uq (MZeroNotEqual x).
  Proof.
    intros IH t Ht Hwf Hnm Hd w1 v1 w2 v2 H1 H2 S1 S2. cbn [type_of] in Ht. child Ht tx Hx.
    destruct tx as [[bx ix dx ux] qx]. unf Ht. destruct bx; try discriminate. inversion Ht; subst; clear Ht.
    cbn [Rg] in H1, H2. destruct H1 as [_ [k1 [H1 _]]]. destruct H2 as [_ [k2 [H2 _]]].
    exact (IH _ Hx Hwf Hnm Hd w1 k1 w2 k2 H1 H2 S1 S2).
  Qed.
  Lemma u_dupif x : uq (MDupIf x).
  Proof.
    intros t _ _ _ _ w1 v1 w2 v2 H1 H2 _ _. cbn [Rg] in H1, H2.
    destruct H1 as [-> [C1 _]]. destruct H2 as [-> [C2 _]]. rewrite (ifc_false _ C1), (ifc_false _ C2). reflexivity.
  Qed.
  Lemma u_nonzero x : uq (MNonZero x).
  Proof.
    intros t Ht Hwf Hnm Hd w1 v1 w2 v2 H1 H2 S1 S2. cbn [type_of] in Ht. child Ht tx Hx. cbn [wf] in Hwf.
    assert (Hf : m_dissat (t_mall tx) = DNone).
    { destruct tx as [[bx ix dx ux] [qx sx nx]]. unf Ht. destruct ix; cbn in Ht; try discriminate;
        destruct bx; try discriminate; inversion Ht; subst; mred Hd; destruct qx; try discriminate; reflexivity. }
    assert (G : forall w v, RR (MNonZero x) false w v -> sf w -> w = [[]]).
    { intros w v H S. cbn [Rg] in H. destruct H as [[_ [-> _]]|[a [r [_ [_ [_ [H _]]]]]]]; [reflexivity|].
      exfalso. exact (nosf x tx false w v Hx Hwf H S Hf). }
    rewrite (G w1 v1 H1 S1), (G w2 v2 H2 S2). reflexivity.
  Qed.

  Lemma u_and_b x y : uq x -> uq y -> uq (MAndB x y).
  Proof.
    intros IHx IHy t Ht Hwf Hnm Hd w1 v1 w2 v2 H1 H2 S1 S2. cbn [type_of] in Ht. child Ht tx Hx. child Ht t2 Hy.
    cbn [wf] in Hwf. destruct Hwf as [Hwx Hwy].
    destruct tx as [[bx ix dx ux] [qx sx nx]] eqn:Etx, t2 as [[b2 i2 d2 u2] [q2 s2 n2]] eqn:Ety. unf Ht.
    destruct bx, b2; try discriminate. inversion Ht; subst t; clear Ht. mred Hnm. mred Hd.
    assert (E : qx = DUnique /\ q2 = DUnique /\ sx = true /\ s2 = true /\ nx = true /\ n2 = true).
    { destruct qx, q2, sx, s2, nx, n2; cbn in Hd, Hnm; try discriminate; repeat split; auto. }
    destruct E as [-> [-> [-> [-> [-> ->]]]]].
    assert (G : forall w v, RR (MAndB x y) false w v -> sf w ->
              exists wx wy vx vy, w = wx ++ wy /\ RR x false wx vx /\ RR y false wy vy).
    { intros w v H S. cbn [Rg] in H. destruct H as [wx [wy [vx [vy [a [b [-> [X [Y [_ [_ [E _]]]]]]]]]]]].
      destruct a.
      - exfalso. exact (nosf x _ true wx vx Hx Hwx X (sigfree_app_l e _ _ S) eq_refl).
      - destruct b.
        + exfalso. exact (nosf y _ true wy vy Hy Hwy Y (sf_app_r _ _ S) eq_refl).
        + exists wx, wy, vx, vy. auto. }
    destruct (G w1 v1 H1 S1) as [a1 [b1 [va1 [vb1 [-> [X1 Y1]]]]]]. destruct (G w2 v2 H2 S2) as [a2 [b2 [va2 [vb2 [-> [X2 Y2]]]]]].
    rewrite (IHx _ Hx Hwx eq_refl eq_refl a1 va1 a2 va2 X1 X2 (sigfree_app_l e _ _ S1) (sigfree_app_l e _ _ S2)).
    rewrite (IHy _ Hy Hwy eq_refl eq_refl b1 vb1 b2 vb2 Y1 Y2 (sf_app_r _ _ S1) (sf_app_r _ _ S2)). reflexivity.
  Qed.

  Lemma u_or_b x y : uq x -> uq y -> uq (MOrB x y).
  Proof.
    intros IHx IHy t Ht Hwf Hnm Hd w1 v1 w2 v2 H1 H2 S1 S2. cbn [type_of] in Ht. child Ht tx Hx. child Ht t2 Hy.
    cbn [wf] in Hwf. destruct Hwf as [Hwx Hwy].
    destruct tx as [[bx ix dx ux] [qx sx nx]] eqn:Etx, t2 as [[b2 i2 d2 u2] [q2 s2 n2]] eqn:Ety. unf Ht.
    destruct dx; cbn [negb] in Ht; try discriminate. destruct d2; cbn [negb] in Ht; try discriminate.
    destruct bx, b2; try discriminate. inversion Ht; subst t; clear Ht. mred Hnm.
    assert (E : qx = DUnique /\ q2 = DUnique /\ nx = true /\ n2 = true).
    { destruct qx, q2, nx, n2; cbn in Hnm; try discriminate; repeat split; auto. }
    destruct E as [-> [-> [-> ->]]].
    cbn [Rg] in H1, H2.
    destruct H1 as [a1 [b1 [va1 [vb1 [p1 [r1 [-> [X1 [Y1 [_ [_ [E1 _]]]]]]]]]]]].
    destruct H2 as [a2 [b2 [va2 [vb2 [p2 [r2 [-> [X2 [Y2 [_ [_ [E2 _]]]]]]]]]]]].
    destruct p1, r1; try discriminate. destruct p2, r2; try discriminate.
    rewrite (IHx _ Hx Hwx eq_refl eq_refl a1 va1 a2 va2 X1 X2 (sigfree_app_l e _ _ S1) (sigfree_app_l e _ _ S2)).
    rewrite (IHy _ Hy Hwy eq_refl eq_refl b1 vb1 b2 vb2 Y1 Y2 (sf_app_r _ _ S1) (sf_app_r _ _ S2)). reflexivity.
  Qed.

  Lemma u_or_d x y : uq x -> uq y -> uq (MOrD x y).
  Proof.
    intros IHx IHy t Ht Hwf Hnm Hd w1 v1 w2 v2 H1 H2 S1 S2. cbn [type_of] in Ht. child Ht tx Hx. child Ht t2 Hy.
    cbn [wf] in Hwf. destruct Hwf as [Hwx Hwy].
    destruct tx as [[bx ix dx ux] [qx sx nx]] eqn:Etx, t2 as [[b2 i2 d2 u2] [q2 s2 n2]] eqn:Ety. unf Ht.
    destruct dx; cbn [negb] in Ht; try discriminate. destruct ux; cbn [negb] in Ht; try discriminate.
    destruct bx, b2; try discriminate. inversion Ht; subst t; clear Ht. mred Hnm. mred Hd. subst q2.
    assert (E : qx = DUnique /\ nx = true /\ n2 = true).
    { destruct qx, nx, n2; cbn in Hnm; try discriminate; repeat split; auto. }
    destruct E as [-> [-> ->]].
    cbn [Rg] in H1, H2.
    destruct H1 as [[F _]|[a1 [b1 [va1 [-> [X1 [_ Y1]]]]]]]; [discriminate|].
    destruct H2 as [[F _]|[a2 [b2 [va2 [-> [X2 [_ Y2]]]]]]]; [discriminate|].
    rewrite (IHx _ Hx Hwx eq_refl eq_refl a1 va1 a2 va2 X1 X2 (sigfree_app_l e _ _ S1) (sigfree_app_l e _ _ S2)).
    rewrite (IHy _ Hy Hwy eq_refl eq_refl b1 v1 b2 v2 Y1 Y2 (sf_app_r _ _ S1) (sf_app_r _ _ S2)). reflexivity.
  Qed.

  Lemma u_or_i x y : uq x -> uq y -> uq (MOrI x y).
  Proof.
    intros IHx IHy t Ht Hwf Hnm Hd w1 v1 w2 v2 H1 H2 S1 S2. cbn [type_of] in Ht. child Ht tx Hx. child Ht t2 Hy.
    cbn [wf] in Hwf. destruct Hwf as [Hwx Hwy].
    destruct tx as [[bx ix dx ux] [qx sx nx]] eqn:Etx, t2 as [[b2 i2 d2 u2] [q2 s2 n2]] eqn:Ety. unf Ht.
    assert (Ht' : t = mkTy (t_corr t) (m_or_i (mkMall qx sx nx) (mkMall q2 s2 n2))).
    { destruct bx, b2; try discriminate; inversion Ht; reflexivity. }
    rewrite Ht' in Hnm, Hd. clear Ht Ht'. mred Hnm. mred Hd.
    assert (En : nx = true /\ n2 = true) by (destruct nx, n2; cbn in Hnm; try discriminate; auto).
    destruct En as [-> ->].
    (* which branch can be dissatisfied without a signature *)
    assert (G : forall w v, RR (MOrI x y) false w v -> sf w ->
              exists w', (qx = DUnique /\ w = [1%N] :: w' /\ RR x false w' v) \/ (q2 = DUnique /\ w = [] :: w' /\ RR y false w' v)).
    { intros w v H S. cbn [Rg] in H. destruct H as [sel [w' [b [-> [C [H _]]]]]]. exists w'. destruct b.
      - left. rewrite (ifc_true _ C). split; [|auto]. destruct qx, q2; try discriminate; try reflexivity.
        exfalso. exact (nosf x _ false w' v Hx Hwx H (sf_tl _ _ S) eq_refl).
      - right. rewrite (ifc_false _ C). split; [|auto]. destruct qx, q2; try discriminate; try reflexivity.
        exfalso. exact (nosf y _ false w' v Hy Hwy H (sf_tl _ _ S) eq_refl). }
    destruct (G w1 v1 H1 S1) as [a1 [[Q1 [-> X1]]|[Q1 [-> X1]]]]; destruct (G w2 v2 H2 S2) as [a2 [[Q2 [-> X2]]|[Q2 [-> X2]]]];
      subst; try discriminate.
    - f_equal. exact (IHx _ Hx Hwx eq_refl eq_refl a1 v1 a2 v2 X1 X2 (sf_tl _ _ S1) (sf_tl _ _ S2)).
    - f_equal. exact (IHy _ Hy Hwy eq_refl eq_refl a1 v1 a2 v2 X1 X2 (sf_tl _ _ S1) (sf_tl _ _ S2)).
  Qed.

  Lemma u_andor a b c : uq a -> uq c -> uq (MAndOr a b c).
  Proof.
    intros IHa IHc t Ht Hwf Hnm Hd w1 v1 w2 v2 H1 H2 S1 S2. cbn [type_of] in Ht.
    child Ht ta Ha. child Ht tb Hb. child Ht tc Hc. cbn [wf] in Hwf. destruct Hwf as [Hwa [Hwb Hwc]].
    destruct ta as [[ba ia da ua] [qa sa na]] eqn:Eta, tb as [[bb ib db ub] [qb sb nb]] eqn:Etb, tc as [[bc ic dc uc] [qc sc nc]] eqn:Etc.
    unf Ht. destruct da; cbn [negb] in Ht; try discriminate. destruct ua; cbn [negb] in Ht; try discriminate.
    assert (Ht' : t = mkTy (t_corr t) (m_and_or (mkMall qa sa na) (mkMall qb sb nb) (mkMall qc sc nc))).
    { destruct ba, bb, bc; try discriminate; inversion Ht; reflexivity. }
    rewrite Ht' in Hnm, Hd. clear Ht Ht'. mred Hnm. mred Hd.
    assert (E : qa = DUnique /\ na = true /\ nc = true /\ qc = DUnique /\ (sa = true \/ qb = DNone)).
    { destruct qa, na, nc, nb, qc, sa, qb; cbn in Hnm, Hd; try discriminate; repeat split; auto. }
    destruct E as [-> [-> [-> [-> Hsb]]]].
    assert (G : forall w v, RR (MAndOr a b c) false w v -> sf w ->
              exists wa w' va, w = wa ++ w' /\ RR a false wa va /\ RR c false w' v).
    { intros w v H S. cbn [Rg] in H. destruct H as [wa [w' [va [-> [[X [_ [Y _]]]|[X [_ Y]]]]]]].
      - exfalso. destruct Hsb as [->| ->].
        + exact (nosf a _ true wa va Ha Hwa X (sigfree_app_l e _ _ S) eq_refl).
        + exact (nosf b _ false w' v Hb Hwb Y (sf_app_r _ _ S) eq_refl).
      - exists wa, w', va. auto. }
    destruct (G w1 v1 H1 S1) as [a1 [b1 [va1 [-> [X1 Y1]]]]]. destruct (G w2 v2 H2 S2) as [a2 [b2 [va2 [-> [X2 Y2]]]]].
    rewrite (IHa _ Ha Hwa eq_refl eq_refl a1 va1 a2 va2 X1 X2 (sigfree_app_l e _ _ S1) (sigfree_app_l e _ _ S2)).
    rewrite (IHc _ Hc Hwc eq_refl eq_refl b1 v1 b2 v2 Y1 Y2 (sf_app_r _ _ S1) (sf_app_r _ _ S2)). reflexivity.
  Qed.

  (* ---------- thresh ---------- *)
  Definition chq (x : ms) : Prop :=
    (forall w v, RR x true w v -> sf w -> False) /\
    (forall w1 v1 w2 v2, RR x false w1 v1 -> RR x false w2 v2 -> sf w1 -> sf w2 -> w1 = w2).

  Lemma thr_uq xs : Forall chq xs -> forall w1 j1 w2 j2,
    Rthr (fun x => RR x) xs w1 j1 -> Rthr (fun x => RR x) xs w2 j2 -> sf w1 -> sf w2 -> w1 = w2.
  Proof.
    induction 1 as [|x r [Hs Hu] _ IH]; intros w1 j1 w2 j2 H1 H2 S1 S2.
    - destruct H1 as [-> _], H2 as [-> _]. reflexivity.
    - apply Rthr_cons in H1. apply Rthr_cons in H2.
      destruct H1 as [a1 [b1 [-> [[j1' [_ [X1 _]]]|[X1 T1]]]]]; [exfalso; exact (Hs _ _ X1 (sigfree_app_l e _ _ S1))|].
      destruct H2 as [a2 [b2 [-> [[j2' [_ [X2 _]]]|[X2 T2]]]]]; [exfalso; exact (Hs _ _ X2 (sigfree_app_l e _ _ S2))|].
      rewrite (Hu _ _ _ _ X1 X2 (sigfree_app_l e _ _ S1) (sigfree_app_l e _ _ S2)).
      rewrite (IH _ _ _ _ T1 T2 (sf_app_r _ _ S1) (sf_app_r _ _ S2)). reflexivity.
  Qed.

  Lemma cnt_full {X} (f : X -> bool) l : CompleteThresh.cnt f l = length l -> forall x, In x l -> f x = true.
  Proof.
    unfold CompleteThresh.cnt. induction l as [|a r IH]; intros H x Hx; [destruct Hx|]. cbn [filter] in H.
    destruct (f a) eqn:Ea.
    - cbn [length] in H. destruct Hx as [<-|Hx]; [exact Ea | apply IH; [lia | exact Hx]].
    - exfalso. pose proof (cnt_le_len f r) as Hl. unfold CompleteThresh.cnt in Hl. cbn [length] in H. lia.
  Qed.

  Lemma u_thresh k xs : Forall uq xs -> uq (MThresh k xs).
  Proof.
    intros IH t Ht Hwf Hnm Hd w1 v1 w2 v2 H1 H2 S1 S2. cbn [type_of] in Ht. fold (tys_of xs) in Ht.
    apply rbind_ok in Ht. destruct Ht as [ts [Hts Ht]]. apply tys_of_ok in Hts.
    cbn [wf] in Hwf. destruct Hwf as [_ [_ Hwf]].
    unfold t_threshold in Ht. destruct (c_threshold k (map t_corr ts)) as [c|]; [|discriminate].
    inversion Ht; subst t; clear Ht. cbn [t_mall] in Hnm, Hd. rewrite m_threshold_closed in Hnm, Hd. cbn [m_nm m_dissat] in Hnm, Hd.
    destruct (forallb is_du (map t_mall ts)) eqn:Edu; [|cbn in Hd; discriminate].
    destruct (N.eqb_spec (N.of_nat (CompleteThresh.cnt m_signed (map t_mall ts))) (N.of_nat (length (map t_mall ts)))) as [Ec|Ec];
      [|cbn in Hd; discriminate].
    apply Nat2N.inj in Ec. pose proof (cnt_full _ _ Ec) as Hsig.
    rewrite Bool.andb_true_r in Hnm. apply andb_prop in Hnm. destruct Hnm as [Hnm _].
    assert (HC : Forall chq xs).
    { clear -IH Hts Hwf Edu Hsig Hnm Hmin Hinj. revert ts Hts Hwf Edu Hsig Hnm.
      induction IH as [|x r Hx _ IHr]; intros ts Hts Hwf Edu Hsig Hnm; [constructor|].
      inversion Hts as [|x' t' r' ts' Hxt Hrt]; subst. destruct Hwf as [Hw1 Hw2].
      cbn [map forallb] in Edu, Hnm. apply andb_prop in Edu. destruct Edu as [E1 E2]. apply andb_prop in Hnm. destruct Hnm as [N1 N2].
      constructor.
      - split.
        + intros w v H S. apply (nosf x t' true w v Hxt Hw1 H S). apply (Hsig (t_mall t')). left. reflexivity.
        + apply (Hx t' Hxt Hw1 N1). unfold is_du in E1. destruct (m_dissat (t_mall t')); try discriminate. reflexivity.
      - apply (IHr ts' Hrt Hw2 E2); [|exact N2]. intros q Hq. apply Hsig. right. exact Hq. }
    cbn [Rg] in H1, H2. destruct H1 as [_ [j1 [T1 _]]]. destruct H2 as [_ [j2 [T2 _]]].
    exact (thr_uq xs HC _ _ _ _ T1 T2 S1 S2).
  Qed.

  (* ---------- multi_a ---------- *)
  Lemma csa_sf ks : forall w j, Rcsa e ke ks w j -> sf w -> w = repeat [] (length ks).
  Proof.
    induction ks as [|key r IH]; intros w j H S; cbn [Rcsa] in H.
    - destruct H as [-> _]. reflexivity.
    - destruct H as [sg [w' [-> [_ [[-> H]|[_ [Hok _]]]]]]].
      + cbn [length repeat]. f_equal. exact (IH _ _ H (sf_tl _ _ S)).
      + rewrite (S sg (or_introl eq_refl)) in Hok. discriminate.
  Qed.

  Theorem uq_all : forall m, uq m.
  Proof.
    induction m using ms_ind'.
    - intros t _ _ _ _ w1 v1 w2 v2 [F _]. discriminate.
    - intros t _ _ _ _ w1 v1 w2 v2 [_ [-> _]] [_ [-> _]] _ _. reflexivity.
    - (* pk_k *) intros t _ _ _ _ w1 v1 w2 v2 [s1 [-> [_ [_ ->]]]] [s2 [-> [_ [_ ->]]]] _ _. reflexivity.
    - (* pk_h *) intros t _ _ _ _ w1 v1 w2 v2 [s1 [-> [E1 [[K1 ->] _]]]] [s2 [-> [E2 [[K2 ->] _]]]] _ _.
      rewrite (Hinj v1 v2 K1 K2) by congruence. reflexivity.
    - (* raw_pk_h *) intros t _ _ _ _ w1 v1 w2 v2 [_ [s1 [-> [E1 [K1 ->]]]]] [_ [s2 [-> [E2 [K2 ->]]]]] _ _.
      rewrite (Hinj v1 v2 K1 K2) by congruence. reflexivity.
    - intros t0 _ _ _ _ w1 v1 w2 v2 [F _]. discriminate.
    - intros t0 _ _ _ _ w1 v1 w2 v2 [F _]. discriminate.
    - intros t Ht _ _ Hd. inversion Ht; subst. discriminate.
    - intros t Ht _ _ Hd. inversion Ht; subst. discriminate.
    - intros t Ht _ _ Hd. inversion Ht; subst. discriminate.
    - intros t Ht _ _ Hd. inversion Ht; subst. discriminate.
    - apply u_alt; assumption.
    - apply u_swap; assumption.
    - apply u_check; assumption.
    - apply u_dupif.
    - (* v: *) intros t _ _ _ _ w1 v1 w2 v2 [F _]. discriminate.
    - apply u_nonzero.
    - apply u_zne; assumption.
    - (* and_v is never e *) intros t Ht _ _ Hd. cbn [type_of] in Ht. child Ht tx Hx. child Ht t2 Hy.
      destruct tx as [[bx ix dx ux] [qx sx nx]], t2 as [[b2 i2 d2 u2] [q2 s2 n2]]. unf Ht.
      exfalso. destruct bx, b2; try discriminate; inversion Ht; subst t; mred Hd; destruct sx, q2; discriminate.
    - apply u_and_b; assumption.
    - apply u_andor; assumption.
    - apply u_or_b; assumption.
    - apply u_or_d; assumption.
    - (* or_c *) intros t _ _ _ _ w1 v1 w2 v2 [F _]. discriminate.
    - apply u_or_i; assumption.
    - apply u_thresh; assumption.
    - (* multi *) intros t _ _ _ _ w1 v1 w2 v2 [_ [g1 [-> [_ [_ [_ ->]]]]]] [_ [g2 [-> [_ [_ [_ ->]]]]]] _ _. reflexivity.
    - intros t _ _ _ _ w1 v1 w2 v2 [_ [g1 [-> [_ [_ [_ ->]]]]]] [_ [g2 [-> [_ [_ [_ ->]]]]]] _ _. reflexivity.
    - (* multi_a *) intros t _ _ _ _ w1 v1 w2 v2 [_ [j1 [T1 _]]] [_ [j2 [T2 _]]] S1 S2.
      rewrite (csa_sf _ _ _ T1 S1), (csa_sf _ _ _ T2 S2). reflexivity.
    - intros t _ _ _ _ w1 v1 w2 v2 [_ [j1 [T1 _]]] [_ [j2 [T2 _]]] S1 S2.
      rewrite (csa_sf _ _ _ T1 S1), (csa_sf _ _ _ T2 S2). reflexivity.
  Qed.
End Unique.

(* ================= closed statements ================= *)

(* (E) relation level: two signature-free dissatisfactions of an e+m fragment are the same witness *)
Theorem e_unique (e : env) (ke : keyenv) (m : ms) (t : ty) :
  minimalif (e_sv e) = true -> h160_inj e ->
  type_of m = ROk t -> wf e ke m -> m_nm (t_mall t) = true -> m_dissat (t_mall t) = DUnique ->
  forall w1 v1 w2 v2, R e ke m false w1 v1 -> R e ke m false w2 v2 -> sigfree e w1 -> sigfree e w2 -> w1 = w2.
Proof. intros Hmin Hinj Ht Hwf Hnm Hd. exact (uq_all e ke Hmin Hinj m t Ht Hwf Hnm Hd). Qed.

(* (E) every stack: given ONE signature-free dissatisfaction [d], every dissatisfying execution on a
   stack without valid signatures consumes exactly [d] (and leaves the same value) *)
Theorem e_sound_B (e : env) (ke : keyenv) (m : ms) (t : ty) :
  minimalif (e_sv e) = true -> h160_inj e ->
  type_of m = ROk t -> wf e ke m -> c_base (t_corr t) = BB ->
  m_nm (t_mall t) = true -> m_dissat (t_mall t) = DUnique ->
  forall d, Rdsat e ke m d -> sigfree e d ->
  forall st al r, sigfree e st -> exec e (enc ke m) (mkSt st al) = Ok r ->
  forall v rest, stk r = v :: rest -> truthy v = false -> st = d ++ rest /\ r = mkSt (v :: rest) al.
Proof.
  intros Hmin Hinj Ht Hwf Hb Hnm Hd d [vd HRd] Sd st al r Sst Hx v rest Hs Hv.
  pose proof (theoremB e ke m t Ht Hwf st al r Hx) as HB. rewrite Hb in HB.
  destruct HB as [w [rest' [v' [-> [-> HR]]]]]. cbn [stk] in Hs. inversion Hs; subst v' rest'. rewrite Hv in HR.
  rewrite (e_unique e ke m t Hmin Hinj Ht Hwf Hnm Hd w v d vd HR HRd (sigfree_app_l e _ _ Sst) Sd). auto.
Qed.

(* (E) with the table: THE dissatisfaction is the one the table lists under the empty asset set (C06_d) *)
Theorem e_sound_table (e : env) (ke : keyenv) (m : ms) (t : ty) :
  minimalif (e_sv e) = true -> h160_inj e ->
  keys_ok e ke -> (forall kbs, e_sigok e kbs [] = false) ->
  (forall x, sf_elt ke x -> forall k, e_sigok e k x = false) ->
  type_of m = ROk t -> wf e ke m -> no_multi m -> c_base (t_corr t) = BB -> c_dissat (t_corr t) = true ->
  m_nm (t_mall t) = true -> m_dissat (t_mall t) = DUnique ->
  exists d, In d (all_dsat ke A0 m) /\ Forall (sf_elt ke) d /\
    (forall rest al, exec e (enc ke m) (mkSt (d ++ rest) al) = Ok (mkSt ([] :: rest) al)) /\
    forall st al r, sigfree e st -> exec e (enc ke m) (mkSt st al) = Ok r ->
    forall v rest, stk r = v :: rest -> truthy v = false -> st = d ++ rest /\ r = mkSt ([] :: rest) al.
Proof.
  intros Hmin Hinj Hk Hse Hcs Ht Hwf Hnmm Hb Hcd Hnm Hd.
  destruct (d_sound e ke Hk Hse m t Ht Hwf Hnmm Hcd) as [d [Hin [Hsf Hx]]]. rewrite Hb in Hx.
  exists d. split; [exact Hin|]. split; [exact Hsf|]. split; [exact Hx|].
  assert (HRd : R e ke m false d []).
  { apply (denot_exact_B e ke m t Ht Hwf Hb). split; [reflexivity | exact Hx]. }
  assert (Sd : sigfree e d).
  { intros x Hxin k. apply Hcs. rewrite Forall_forall in Hsf. apply Hsf, Hxin. }
  intros st al r Sst Hex v rest Hs Hv.
  destruct (e_sound_B e ke m t Hmin Hinj Ht Hwf Hb Hnm Hd d (ex_intro _ [] HRd) Sd st al r Sst Hex v rest Hs Hv) as [-> ->].
  split; [reflexivity|]. rewrite Hx in Hex. inversion Hex. reflexivity.
Qed.

(* ================= the hypotheses are needed ================= *)
Definition ue_env (sv : sigversion) : env :=
  mkEnv sv 0%N 0%N 2%N (fun _ sg => bytes_eqb sg [7%N]) (fun _ => true)
        (fun b => 1%N :: b) (fun b => 2%N :: b) (fun b => 3%N :: b) (fun b => 4%N :: b).
Definition ue_ke : keyenv := mkKeyEnv (fun k => [2%N; k]) (fun k => [4%N; 2%N; k]) (fun l => l).
Definition ue_ff : bytes := repeat 255%N 32.

(* e without m: or_b(sha256(h), a:sha256(h)) is typed e (not m); two signature-free dissatisfactions *)
Definition ue_orb : ms := MOrB (MSha256 [9%N]) (MAlt (MSha256 [9%N])).
Lemma e_needs_m :
  (exists t, type_of ue_orb = ROk t /\ c_base (t_corr t) = BB /\ m_dissat (t_mall t) = DUnique /\ m_nm (t_mall t) = false) /\
  wf (ue_env SvWitnessV0) ue_ke ue_orb /\ minimalif (e_sv (ue_env SvWitnessV0)) = true /\ h160_inj (ue_env SvWitnessV0) /\
  sigfree (ue_env SvWitnessV0) [zeros32; zeros32] /\ sigfree (ue_env SvWitnessV0) [ue_ff; zeros32] /\
  exec (ue_env SvWitnessV0) (enc ue_ke ue_orb) (mkSt [zeros32; zeros32] []) = Ok (mkSt [[]] []) /\
  exec (ue_env SvWitnessV0) (enc ue_ke ue_orb) (mkSt [ue_ff; zeros32] []) = Ok (mkSt [[]] []).
Proof.
  split; [eexists; split; [vm_compute; reflexivity | repeat split]|].
  split; [cbn; repeat split; intros H; vm_compute in H; discriminate|].
  split; [reflexivity|]. split; [intros a b _ _ H; cbn in H; inversion H; reflexivity|].
  split; [intros x Hx k; destruct Hx as [<-|[<-|[]]]; reflexivity|].
  split; [intros x Hx k; destruct Hx as [<-|[<-|[]]]; reflexivity|].
  split; vm_compute; reflexivity.
Qed.

(* e and m but no MINIMALIF (base signature version): d:v:1 is dissatisfied by any false value *)
Definition ue_dup : ms := MDupIf (MVerify MTrue).
Lemma e_needs_minimalif :
  (exists t, type_of ue_dup = ROk t /\ c_base (t_corr t) = BB /\ m_dissat (t_mall t) = DUnique /\ m_nm (t_mall t) = true) /\
  wf (ue_env SvBase) ue_ke ue_dup /\ h160_inj (ue_env SvBase) /\
  sigfree (ue_env SvBase) [[]] /\ sigfree (ue_env SvBase) [[128%N]] /\
  exec (ue_env SvBase) (enc ue_ke ue_dup) (mkSt [[]] []) = Ok (mkSt [[]] []) /\
  exec (ue_env SvBase) (enc ue_ke ue_dup) (mkSt [[128%N]] []) = Ok (mkSt [[128%N]] []) /\ truthy [128%N] = false /\
  (* ... and with MINIMALIF the second one is not an execution at all *)
  exec (ue_env SvWitnessV0) (enc ue_ke ue_dup) (mkSt [[128%N]] []) = Fail.
Proof.
  split; [eexists; split; [vm_compute; reflexivity | repeat split]|].
  split; [exact I|]. split; [intros a b _ _ H; cbn in H; inversion H; reflexivity|].
  split; [intros x Hx k; destruct Hx as [<-|[]]; reflexivity|].
  split; [intros x Hx k; destruct Hx as [<-|[]]; reflexivity|].
  repeat split; vm_compute; reflexivity.
Qed.

(* non-vacuity of (E): or_d(c:pk_k(0), c:pk_k(1)) is typed e and m; its dissatisfaction [[]; []] *)
Definition ue_ord : ms := MOrD (MCheck (MPkK 0%N)) (MCheck (MPkK 1%N)).
Lemma e_nonvacuous :
  (exists t, type_of ue_ord = ROk t /\ c_base (t_corr t) = BB /\ c_dissat (t_corr t) = true /\
             m_dissat (t_mall t) = DUnique /\ m_nm (t_mall t) = true) /\
  wf (ue_env SvWitnessV0) ue_ke ue_ord /\ no_multi ue_ord /\
  minimalif (e_sv (ue_env SvWitnessV0)) = true /\ h160_inj (ue_env SvWitnessV0) /\
  keys_ok (ue_env SvWitnessV0) ue_ke /\ (forall kbs, e_sigok (ue_env SvWitnessV0) kbs [] = false) /\
  (forall x, sf_elt ue_ke x -> forall k, e_sigok (ue_env SvWitnessV0) k x = false) /\
  sigfree (ue_env SvWitnessV0) [[]; []; [5%N]] /\
  exec (ue_env SvWitnessV0) (enc ue_ke ue_ord) (mkSt [[]; []; [5%N]] []) = Ok (mkSt [[]; [5%N]] []).
Proof.
  split; [eexists; split; [vm_compute; reflexivity | repeat split]|].
  split; [cbn; auto|]. split; [cbn; auto|]. split; [reflexivity|].
  split; [intros a b _ _ H; cbn in H; inversion H; reflexivity|].
  split; [constructor; intros k; cbn; [reflexivity | lia | reflexivity]|].
  split; [reflexivity|].
  split; [intros x [->|[->|[->|[k0 ->]]]] k; reflexivity|].
  split; [intros x Hx k; destruct Hx as [<-|[<-|[<-|[]]]]; reflexivity|].
  vm_compute. reflexivity.
Qed.
