(* C08: what an accepted validation establishes (validator_ok, validator_tr). *)
From Coq Require Import List Bool NArith ZArith Lia Permutation.
From Verif Require Import PolicyVal PolicyValProofs PolicyValWorlds PolicyValStruct PolicyValNative.
Import ListNotations.
Local Open Scope N_scope.

(* ------------------------------------------------------------------ type equality *)
Lemma base_eqb_eq a b : base_eqb a b = true -> a = b.
Proof. destruct a, b; simpl; intro; try reflexivity; discriminate. Qed.
Lemma input_eqb_eq a b : input_eqb a b = true -> a = b.
Proof. destruct a, b; simpl; intro; try reflexivity; discriminate. Qed.
Lemma dissat_eqb_eq a b : dissat_eqb a b = true -> a = b.
Proof. destruct a, b; simpl; intro; try reflexivity; discriminate. Qed.

Lemma ty_eqb_eq a b : ty_eqb a b = true -> a = b.
Proof.
  destruct a as [[b1 i1 d1 u1] [s1 g1 n1]], b as [[b2 i2 d2 u2] [s2 g2 n2]].
  unfold ty_eqb, corr_eqb, mall_eqb; cbn. intro H.
  repeat match goal with E : _ && _ = true |- _ => apply andb_true_iff in E; destruct E end.
  repeat match goal with
         | E : Bool.eqb _ _ = true |- _ => apply eqb_prop in E
         | E : base_eqb _ _ = true |- _ => apply base_eqb_eq in E
         | E : input_eqb _ _ = true |- _ => apply input_eqb_eq in E
         | E : dissat_eqb _ _ = true |- _ => apply dissat_eqb_eq in E
         end; subst; reflexivity.
Qed.

Lemma res_ty_eqb_ok r t : res_ty_eqb r (ROk t) = true -> r = ROk t.
Proof. destruct r as [a|e]; cbn; [intro H; apply ty_eqb_eq in H; congruence | discriminate]. Qed.

(* (b): the attached annotation of every node is the model's recomputation *)
Lemma types_match_ok m att :
  types_match m att = true -> map type_of (subterms m) = map (@ROk ty) att.
Proof.
  unfold types_match. generalize (subterms m) as l. intro l. revert att.
  induction l as [|x r IH]; intros [|t a]; cbn; intro H; try reflexivity; try discriminate.
  apply andb_true_iff in H as [H1 H2]. apply res_ty_eqb_ok in H1. rewrite H1, (IH a H2). reflexivity.
Qed.

Lemma types_match_nth m att i sub :
  types_match m att = true -> nth_error (subterms m) i = Some sub ->
  exists t, nth_error att i = Some t /\ type_of sub = ROk t.
Proof.
  intros H Hn. apply types_match_ok in H.
  pose proof (map_nth_error type_of _ _ Hn) as E. rewrite H in E.
  rewrite nth_error_map in E. destruct (nth_error att i) as [t|]; [|discriminate].
  exists t. split; [reflexivity|]. cbn in E. congruence.
Qed.

Lemma types_match_length m att : types_match m att = true -> length att = length (subterms m).
Proof.
  intro H. apply types_match_ok in H. apply (f_equal (@length _)) in H. rewrite !map_length in H. auto.
Qed.

Lemma subterms_head m : exists r, subterms m = m :: r.
Proof. destruct m; cbn [subterms]; eexists; reflexivity. Qed.

Lemma types_match_root m att :
  types_match m att = true -> exists t, root_ty att = Some t /\ type_of m = ROk t.
Proof.
  intro H. destruct (subterms_head m) as [r Hr].
  destruct (types_match_nth m att 0 m H) as (t & Ht & Hty); [rewrite Hr; reflexivity|].
  exists t. split; [|exact Hty]. unfold root_ty. destruct att; cbn in *; congruence.
Qed.

(* ------------------------------------------------------------------ all_hold *)
Lemma all_hold_in l c : all_hold l = true -> In (c, false) l -> False.
Proof.
  unfold all_hold. rewrite forallb_forall. intros H Hin. specialize (H _ Hin). discriminate.
Qed.

Lemma all_hold_cons c b l : all_hold ((c, b) :: l) = true <-> b = true /\ all_hold l = true.
Proof. unfold all_hold; cbn. apply andb_true_iff. Qed.

Lemma all_hold_app l1 l2 : all_hold (l1 ++ l2) = true <-> all_hold l1 = true /\ all_hold l2 = true.
Proof. unfold all_hold. rewrite forallb_app. apply andb_true_iff. Qed.

Lemma nodupb_NoDup l : nodupb l = true -> NoDup l.
Proof.
  induction l as [|x r IH]; cbn; intro H; [constructor|].
  apply andb_true_iff in H as [H1 H2]. constructor; [|apply IH; exact H2].
  intro Hin. apply (memb_In N.eqb N.eqb_eq) in Hin. rewrite Hin in H1. discriminate.
Qed.

(* ------------------------------------------------------------------ what one output's clauses give *)
Record ms_facts (c : ctx) (kk : key -> kkind) (m : ms) (att : list ty) : Prop := {
  (* (b) well typed, and the attached type of EVERY node is the recomputed one *)
  mf_types : forall i sub, nth_error (subterms m) i = Some sub ->
                           exists t, nth_error att i = Some t /\ type_of sub = ROk t;
  mf_length : length att = length (subterms m);
  (* (c) the root: base B, signed, non-malleable *)
  mf_root : exists t, type_of m = ROk t /\ hd_error att = Some t
                      /\ c_base (t_corr t) = BB /\ m_signed (t_mall t) = true /\ m_nm (t_mall t) = true;
  (* (c) semantically: every satisfying world contains a signing key of the script *)
  mf_sem_signed : forall W, evals W (lift_ms m) = true ->
                            exists k, In k (keys_s (lift_ms m)) /\ w_key W k = true;
  (* (d) fragment / key restrictions of the target context at every node *)
  mf_frags : forall sub, In sub (subterms m) -> frag_ok c kk sub = true;
  mf_nodup : NoDup (ms_keys m);
  mf_timelocks : tl_comb (ms_tl m) = false;
  mf_height : ms_height m <= 402;
  mf_limits : limits_ok c kk m = true
}.

Lemma ms_clauses_ok c kk m att : all_hold (ms_clauses c kk m att) = true -> ms_facts c kk m att.
Proof.
  unfold ms_clauses. intro H.
  repeat (apply all_hold_cons in H; let E := fresh "E" in destruct H as [E H]).
  destruct (types_match_root m att E) as (t & Hr & Ht).
  unfold root_flag in *. rewrite Hr in *. unfold ctx_ok in E4.
  apply andb_true_iff in E4 as [E4 Eh]. apply andb_true_iff in E4 as [E4 Et]. apply andb_true_iff in E4 as [Ef En].
  constructor.
  - intros i sub. apply types_match_nth. exact E.
  - apply types_match_length. exact E.
  - exists t. repeat split; auto. apply base_eqb_eq. exact E0.
  - apply sem_signedb_ok. exact E3.
  - intros sub Hin. rewrite forallb_forall in Ef. apply Ef. exact Hin.
  - apply nodupb_NoDup. exact En.
  - apply negb_true_iff. exact Et.
  - apply N.leb_le. exact Eh.
  - exact E5.
Qed.

(* ------------------------------------------------------------------ validator_ok *)
Theorem validator_ok c kk pol m att :
  validate_compilation c kk pol m att = true ->
  (* (a) same spending semantics in every world *)
  (forall W, evalc W pol = evals W (lift_ms m))
  (* and therefore: the policy itself cannot be satisfied without a signature *)
  /\ (forall W, evalc W pol = true -> exists k, w_key W k = true)
  /\ ms_facts c kk m att.
Proof.
  unfold validate_compilation, clauses. intro H.
  apply all_hold_cons in H as [Eq H]. apply all_hold_cons in H as [_ H].
  apply ms_clauses_ok in H.
  assert (A : forall W, evalc W pol = evals W (lift_ms m)).
  { intro W. rewrite <- lift_c_eval. apply equiv_dec_sound. exact Eq. }
  split; [exact A|]. split; [|exact H].
  intros W HW. rewrite A in HW. destruct (mf_sem_signed _ _ _ _ H W HW) as (k & _ & Hk). eauto.
Qed.

Theorem validator_desc_ok c kk bare pol m att :
  validate_descriptor c kk bare pol m att = true ->
  (forall W, evalc W pol = evals W (lift_ms m))
  /\ (bare = true -> bare_top_ok m = true)
  /\ ms_facts c kk m att.
Proof.
  unfold validate_descriptor, clauses. intro H.
  apply all_hold_cons in H as [Eq H]. apply all_hold_cons in H as [Eb H].
  apply ms_clauses_ok in H. split; [|split; [|exact H]].
  - intro W. rewrite <- lift_c_eval. apply equiv_dec_sound. exact Eq.
  - intros ->. exact Eb.
Qed.

(* the context restrictions spelled out (consequences of [frag_ok] at every node) *)
Theorem frag_restrictions c kk m att :
  ms_facts c kk m att ->
  (forall h, ~ In (MRawPkH h) (subterms m))
  /\ (legacy_like c = true -> (forall x, ~ In (MDupIf x) (subterms m)) /\ (forall x y, ~ In (MOrI x y) (subterms m)))
  /\ (c = Tap -> forall k ks, ~ In (MMulti k ks) (subterms m) /\ ~ In (MSortedMulti k ks) (subterms m))
  /\ (c <> Tap -> forall k ks, ~ In (MMultiA k ks) (subterms m) /\ ~ In (MSortedMultiA k ks) (subterms m))
  /\ (forall k, In (MPkK k) (subterms m) \/ In (MPkH k) (subterms m) -> key_ok c (kk k) = true)
  /\ (forall k ks, In (MMulti k ks) (subterms m) \/ In (MSortedMulti k ks) (subterms m) ->
                   1 <= k <= N.of_nat (length ks) /\ (length ks <= 20)%nat /\ forall x, In x ks -> key_ok c (kk x) = true)
  /\ (forall k xs, In (MThresh k xs) (subterms m) -> 1 <= k <= N.of_nat (length xs)).
Proof.
  intro F. pose proof (mf_frags _ _ _ _ F) as Hf.
  repeat split.
  - intros h Hin. specialize (Hf _ Hin). discriminate.
  - intros x Hin. specialize (Hf _ Hin). cbn in Hf. rewrite H in Hf. discriminate.
  - intros x y Hin. specialize (Hf _ Hin). cbn in Hf. rewrite H in Hf. discriminate.
  - intro Hin. specialize (Hf _ Hin). subst c. discriminate.
  - intro Hin. specialize (Hf _ Hin). subst c. discriminate.
  - intro Hin. specialize (Hf _ Hin). destruct c; try discriminate. congruence.
  - intro Hin. specialize (Hf _ Hin). destruct c; try discriminate. congruence.
  - intros k [Hin|Hin]; specialize (Hf _ Hin); exact Hf.
  - destruct H as [Hin|Hin]; specialize (Hf _ Hin); cbn in Hf;
      repeat (apply andb_true_iff in Hf; destruct Hf as [Hf ?]);
      unfold thresh_ok in *; repeat match goal with E : _ && _ = true |- _ => apply andb_true_iff in E; destruct E end;
      match goal with E : (1 <=? k) = true |- _ => apply N.leb_le in E; exact E end.
  - destruct H as [Hin|Hin]; specialize (Hf _ Hin); cbn in Hf;
      repeat (apply andb_true_iff in Hf; destruct Hf as [Hf ?]);
      unfold thresh_ok in *; repeat match goal with E : _ && _ = true |- _ => apply andb_true_iff in E; destruct E end;
      match goal with E : (k <=? _) = true |- _ => apply N.leb_le in E; exact E end.
  - destruct H as [Hin|Hin]; specialize (Hf _ Hin); cbn in Hf;
      repeat (apply andb_true_iff in Hf; destruct Hf as [Hf ?]);
      unfold thresh_ok in *; repeat match goal with E : _ && _ = true |- _ => apply andb_true_iff in E; destruct E end;
      match goal with E : (20 =? 0) || _ = true |- _ => cbn in E; apply N.leb_le in E; lia end.
  - intros x Hx. destruct H as [Hin|Hin]; specialize (Hf _ Hin); cbn in Hf;
      repeat (apply andb_true_iff in Hf; destruct Hf as [Hf ?]);
      match goal with E : forallb _ ks = true |- _ => rewrite forallb_forall in E; apply E; exact Hx end.
  - specialize (Hf _ H). cbn in Hf. unfold thresh_ok in Hf.
    repeat (apply andb_true_iff in Hf; destruct Hf as [Hf ?]). apply N.leb_le in Hf. exact Hf.
  - specialize (Hf _ H). cbn in Hf. unfold thresh_ok in Hf.
    repeat (apply andb_true_iff in Hf; destruct Hf as [Hf ?]).
    match goal with E : (k <=? _) = true |- _ => apply N.leb_le in E; exact E end.
Qed.

(* ------------------------------------------------------------------ Taproot tree *)
Fixpoint tree_maxdepth (d : N) (t : vtree) : N :=
  match t with VLeaf _ _ => d | VNode l r => N.max (tree_maxdepth (d + 1) l) (tree_maxdepth (d + 1) r) end.

Lemma build_tree_ok fuel : forall d l t rest,
  build_tree fuel d l = Some (t, rest) ->
  l = tree_depths d t ++ rest /\ tree_maxdepth d t <= d + N.of_nat fuel.
Proof.
  induction fuel as [|f IH]; intros d l t rest H.
  - destruct l as [|[dl [m a]] r]; cbn in H; [discriminate|].
    destruct (N.eqb_spec dl d); [|discriminate]. inversion H; subst. cbn. split; [reflexivity | lia].
  - destruct l as [|[dl [m a]] r]; [discriminate|]. cbn [build_tree] in H.
    destruct (N.eqb_spec dl d).
    + inversion H; subst. cbn. split; [reflexivity | lia].
    + destruct (build_tree f (d + 1) ((dl, (m, a)) :: r)) as [[lt rest1]|] eqn:E1; [|discriminate].
      destruct (build_tree f (d + 1) rest1) as [[rt rest2]|] eqn:E2; [|discriminate].
      inversion H; subst. apply IH in E1 as [E1 D1]. apply IH in E2 as [E2 D2].
      cbn [tree_depths tree_maxdepth]. split.
      * rewrite E1, E2, app_assoc. reflexivity.
      * rewrite Nat2N.inj_succ. lia.
Qed.

Lemma tree_of_ok l t : tree_of l = Some t -> l = tree_depths 0 t /\ tree_maxdepth 0 t <= 128.
Proof.
  unfold tree_of. destruct (build_tree TAPROOT_MAX_DEPTH 0 l) as [[t' [|x r]]|] eqn:E; try discriminate.
  intro H; inversion H; subst. apply build_tree_ok in E as [E D]. rewrite app_nil_r in E.
  split; [exact E|]. unfold TAPROOT_MAX_DEPTH in D. cbn in D. exact D.
Qed.

Lemma tree_depths_leaves d t : map (fun x => fst (snd x)) (tree_depths d t) = tree_leaves t.
Proof.
  revert d. induction t as [m a|l IHl r IHr]; intro d; cbn; [reflexivity|].
  rewrite map_app, IHl, IHr. reflexivity.
Qed.

(* ------------------------------------------------------------------ decidable AST equality *)
Lemma ms_eqb_eq : forall a b, ms_eqb a b = true -> a = b.
Proof.
  fix IH 1. intros a b; destruct a, b; cbn [ms_eqb]; intro H; try discriminate; try reflexivity;
    try (apply N.eqb_eq in H; congruence);
    try (apply vbytes_eqb_spec in H; congruence);
    try (apply IH in H; congruence);
    try (apply andb_true_iff in H as [H1 H2]; apply IH in H1; apply IH in H2; congruence).
  - apply andb_true_iff in H as [H H3]. apply andb_true_iff in H as [H1 H2].
    apply IH in H1; apply IH in H2; apply IH in H3. congruence.
  - apply andb_true_iff in H as [H1 H2]. apply N.eqb_eq in H1. subst. f_equal.
    revert xs0 H2. induction xs as [|x r IHr]; intros [|y s] H2; try discriminate; [reflexivity|].
    apply andb_true_iff in H2 as [Hx Hr]. apply IH in Hx. rewrite (IHr s Hr). congruence.
  - apply andb_true_iff in H as [H1 H2]. apply N.eqb_eq in H1. apply (list_eqb_spec N.eqb N.eqb_eq) in H2. congruence.
  - apply andb_true_iff in H as [H1 H2]. apply N.eqb_eq in H1. apply (list_eqb_spec N.eqb N.eqb_eq) in H2. congruence.
  - apply andb_true_iff in H as [H1 H2]. apply N.eqb_eq in H1. apply (list_eqb_spec N.eqb N.eqb_eq) in H2. congruence.
  - apply andb_true_iff in H as [H1 H2]. apply N.eqb_eq in H1. apply (list_eqb_spec N.eqb N.eqb_eq) in H2. congruence.
Qed.

Lemma remove_one_perm x l l' : remove_one x l = Some l' -> Permutation l (x :: l').
Proof.
  revert l'. induction l as [|y r IH]; intros l' H; cbn in H; [discriminate|].
  destruct (ms_eqb x y) eqn:E.
  - apply ms_eqb_eq in E. inversion H; subst. apply Permutation_refl.
  - destruct (remove_one x r) as [r'|]; [|discriminate]. inversion H; subst.
    specialize (IH r' eq_refl). eapply perm_trans; [apply perm_skip; exact IH | apply perm_swap].
Qed.

Lemma perm_eqb_ok a : forall b, perm_eqb a b = true -> Permutation a b.
Proof.
  induction a as [|x r IH]; intros b H; cbn in H.
  - destruct b; [constructor | discriminate].
  - destruct (remove_one x b) as [b'|] eqn:E; [|discriminate].
    apply remove_one_perm in E. apply IH in H. eapply perm_trans; [apply perm_skip; exact H | symmetry; exact E].
Qed.

(* ------------------------------------------------------------------ validator_tr *)
Lemma existsb_map_comp {A B} (f : B -> bool) (g : A -> B) l : existsb f (map g l) = existsb (fun x => f (g x)) l.
Proof. induction l; cbn; congruence. Qed.

Lemma flat_clauses_ok kk (dl : list (N * (ms * list ty))) :
  all_hold (flat_map (fun x => ms_clauses Tap kk (fst (snd x)) (snd (snd x))) dl) = true ->
  Forall (fun x => ms_facts Tap kk (fst (snd x)) (snd (snd x))) dl.
Proof.
  induction dl as [|x r IH]; cbn [flat_map]; intro H; [constructor|].
  apply all_hold_app in H as [H1 H2]. constructor; [apply ms_clauses_ok; exact H1 | apply IH; exact H2].
Qed.

Theorem validator_tr kk pol ik inpol dl expected native :
  validate_tr kk pol ik inpol dl expected native = true ->
  let leaves := map (fun x => fst (snd x)) dl in
  (* (a) policy == internal key OR one of the leaves (the unspendable key never signs) *)
  (forall W, evalc W pol = (inpol && w_key W ik) || existsb (fun m => evals W (lift_ms m)) leaves)
  /\ (inpol = false -> ~ In ik (keys_s (lift_c pol)) /\ ~ In ik (flat_map ms_keys leaves))
  /\ key_ok Tap (kk ik) = true
  (* the depth list is a well-formed binary tree of depth <= 128 whose leaves are the scripts *)
  /\ (dl = [] \/ exists t, dl = tree_depths 0 t /\ tree_maxdepth 0 t <= 128 /\ tree_leaves t = leaves)
  (* exactly the independently compiled leaves *)
  /\ (forall ex, expected = Some ex -> Permutation leaves ex)
  (* every leaf is a sane Tap miniscript *)
  /\ Forall (fun x => ms_facts Tap kk (fst (snd x)) (snd (snd x))) dl
  (* compile_tr_native: no leaf script contains OP_IF / OP_NOTIF / OP_IFDUP, i.e. no leaf contains
     d:, j:, andor, or_d, or_c, or_i *)
  /\ (native = true -> forall m, In m leaves ->
       script_has_if (enc (val_keyenv kk) m) = false /\ has_if_frag m = false).
Proof.
  intro H. cbv zeta. unfold validate_tr, tr_clauses in H. cbv zeta in H.
  set (leaves := map (fun x : N * (ms * list ty) => fst (snd x)) dl) in *.
  apply all_hold_cons in H as [Eq H]. apply all_hold_cons in H as [En H]. apply all_hold_cons in H as [Ek H].
  apply all_hold_cons in H as [Et H]. apply all_hold_cons in H as [El H].
  apply flat_clauses_ok in H.
  apply andb_true_iff in Ek as [Ek1 Ek2].
  split; [|split; [|split; [|split; [|split; [|split]]]]].
  - intro W. rewrite <- lift_c_eval. rewrite (equiv_dec_sound _ _ Eq W).
    unfold tr_policy. rewrite thresh_one, existsb_app, existsb_map_comp. destruct inpol; cbn [existsb andb orb]; [rewrite orb_false_r|]; reflexivity.
  - intros ->. cbn in Ek2. apply negb_true_iff in Ek2. split; intro Hin.
    + assert (memb N.eqb ik (keys_s (lift_c pol) ++ flat_map ms_keys leaves) = true) as C
        by (apply (memb_In N.eqb N.eqb_eq); apply in_or_app; auto). congruence.
    + assert (memb N.eqb ik (keys_s (lift_c pol) ++ flat_map ms_keys leaves) = true) as C
        by (apply (memb_In N.eqb N.eqb_eq); apply in_or_app; auto). congruence.
  - exact Ek1.
  - destruct dl as [|x r]; [left; reflexivity|]. right.
    destruct (tree_of (x :: r)) as [t|] eqn:E; [|discriminate].
    apply tree_of_ok in E as [E D]. exists t. split; [exact E|]. split; [exact D|].
    unfold leaves. rewrite E. symmetry. apply tree_depths_leaves.
  - intros ex ->. apply perm_eqb_ok. exact El.
  - exact H.
  - intros -> m Hm. cbn [negb orb] in En. rewrite forallb_forall in En. apply native_leaf_spec. apply En. exact Hm.
Qed.
