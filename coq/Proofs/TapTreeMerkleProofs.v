(* C15 proofs, part 2: the single-pass Merkle computation with index patching
   (TrSpendInfo::nodes_from_tap_tree) produces, for the depth list of ANY tree t, exactly the
   pre-order node vector [layout (root t) t] in which every node holds its sibling's hash and
   the root node holds the BIP341 Merkle root. *)
From Coq Require Import List Bool NArith Arith Lia.
Import ListNotations.
From Verif Require Import TapTreeModel TapTreeShapeProofs.

Section MerkleProofs.
Variables leaf hash : Type.
Variable leafH : leaf -> hash.
Variable branchH : hash -> hash -> hash.

Notation tree := (tree leaf).
Notation node := (node leaf hash).
Notation root := (root leaf hash leafH branchH).
Notation layout := (layout leaf hash leafH branchH).
Notation complete := (complete leaf hash branchH).
Notation run_leaves := (run_leaves leaf hash leafH branchH).
Notation depths_at := (depths_at leaf).

Fixpoint first_leaf (t : tree) : leaf := match t with Leaf l => l | Node a _ => first_leaf a end.
Definition ph (t : tree) : node := mkNode (leafH (first_leaf t)) None.
Definition root_leaf (t : tree) : option leaf := match t with Leaf l => Some l | Node _ _ => None end.
Definition layout_tl (t : tree) : list node :=
  match t with Leaf _ => [] | Node a b => layout (root b) a ++ layout (root a) b end.

Lemma layout_hd : forall s t, layout s t = mkNode s (root_leaf t) :: layout_tl t.
Proof. intros s [l | a b]; reflexivity. Qed.

(* parents pushed by step 1, top of the stack first *)
Fixpoint new_parents (base k : nat) : list (bool * nat) :=
  match k with 0 => [] | S k' => (false, base + k') :: new_parents base k' end.

Lemma new_parents_length : forall base k, length (new_parents base k) = k.
Proof. induction k; cbn; [reflexivity | rewrite IHk; reflexivity]. Qed.

Lemma new_parents_shift : forall k base,
  new_parents (S base) k ++ [(false, base)] = new_parents base (S k).
Proof.
  induction k as [| k IH]; intros base; cbn [new_parents app].
  - rewrite Nat.add_0_r. reflexivity.
  - rewrite IH. cbn [new_parents]. f_equal. f_equal. lia.
Qed.

Lemma add_parents_spec : forall k cur ns ps,
  add_parents leaf hash k cur ns ps =
  (ns ++ repeat (mkNode cur None) k, new_parents (length ns) k ++ ps).
Proof.
  induction k as [| k IH]; intros cur ns ps; cbn [add_parents repeat].
  - rewrite app_nil_r. reflexivity.
  - rewrite IH. rewrite app_length. cbn [length]. rewrite Nat.add_1_r.
    rewrite <- app_assoc. cbn [app].
    rewrite <- new_parents_shift. rewrite <- app_assoc. reflexivity.
Qed.

(* ---- indexing into A ++ p :: x :: La ++ y :: Lb ---- *)
Lemma get_sib_1 : forall (A : list node) p x R,
  get_sib leaf hash (S (length A)) (A ++ p :: x :: R) = Some (n_sib x).
Proof. induction A as [| n A IH]; intros; cbn in *; [reflexivity | apply IH]. Qed.

Lemma set_sib_0 : forall (A : list node) p R h,
  set_sib leaf hash (length A) h (A ++ p :: R) = Some (A ++ mkNode h (n_leaf p) :: R).
Proof. induction A as [| n A IH]; intros; cbn; [reflexivity | rewrite IH; reflexivity]. Qed.

Lemma set_sib_1 : forall (A : list node) p x R h,
  set_sib leaf hash (S (length A)) h (A ++ p :: x :: R) = Some (A ++ p :: mkNode h (n_leaf x) :: R).
Proof.
  intros A p x R h.
  replace (A ++ p :: x :: R) with ((A ++ [p]) ++ x :: R) by (rewrite <- app_assoc; reflexivity).
  replace (S (length A)) with (length (A ++ [p])) by (rewrite app_length; cbn; lia).
  rewrite set_sib_0. rewrite <- app_assoc. reflexivity.
Qed.

Lemma set_sib_2 : forall (A : list node) p x La y Lb h,
  set_sib leaf hash (length A + 2 + length La) h (A ++ p :: x :: La ++ y :: Lb)
  = Some (A ++ p :: x :: La ++ mkNode h (n_leaf y) :: Lb).
Proof.
  intros A p x La y Lb h.
  replace (A ++ p :: x :: La ++ y :: Lb) with ((A ++ p :: x :: La) ++ y :: Lb)
    by (rewrite <- app_assoc; reflexivity).
  replace (length A + 2 + length La) with (length (A ++ p :: x :: La)) by (rewrite app_length; cbn; lia).
  rewrite set_sib_0. rewrite <- app_assoc. reflexivity.
Qed.

(* one iteration of step 3 on a right child *)
Lemma complete_true_step : forall (A : list node) p x La y Lb cur P,
  complete (A ++ p :: x :: La ++ y :: Lb) cur (length A + 2 + length La) ((true, length A) :: P)
  = complete (A ++ mkNode (branchH (n_sib x) cur) (n_leaf p) :: mkNode cur (n_leaf x) :: La
                ++ mkNode (n_sib x) (n_leaf y) :: Lb)
             (branchH (n_sib x) cur) (length A) P.
Proof.
  intros. cbn [TapTreeModel.complete].
  rewrite get_sib_1. rewrite set_sib_0. rewrite set_sib_1. rewrite set_sib_2. reflexivity.
Qed.

(* ---- the loop invariant, in compositional form ---- *)
Lemma run_subtree : forall t d ns ps rest, length ps <= d ->
  run_leaves (ns, ps) (depths_at d t ++ rest) =
  (st' <-- complete (ns ++ repeat (ph t) (d - length ps) ++ layout (root t) t) (root t)
                    (length ns + (d - length ps)) (new_parents (length ns) (d - length ps) ++ ps) ;;
   run_leaves st' rest).
Proof.
  induction t as [l | a IHa b IHb]; intros d ns ps rest Hlen.
  - cbn [TapTreeModel.depths_at app TapTreeModel.run_leaves]. unfold leaf_step. cbn [fst snd].
    rewrite add_parents_spec.
    rewrite app_length, new_parents_length.
    replace (d - length ps + length ps) with d by lia. rewrite Nat.eqb_refl. cbn [negb].
    rewrite app_length, repeat_length. rewrite <- app_assoc. reflexivity.
  - cbn [TapTreeModel.depths_at]. rewrite <- app_assoc. rewrite IHa by lia.
    replace (S d - length ps) with (S (d - length ps)) by lia.
    set (k := d - length ps).
    cbn [new_parents app TapTreeModel.complete tbind].
    rewrite IHb by (cbn [length]; rewrite app_length, new_parents_length; unfold k; lia).
    replace (S d - length ((true, length ns + k) :: new_parents (length ns) k ++ ps)) with 0
      by (cbn [length]; rewrite app_length, new_parents_length; unfold k; lia).
    cbn [repeat app new_parents]. rewrite Nat.add_0_r.
    (* reshape the node vector: A ++ p :: x :: La ++ y :: Lb *)
    set (A := ns ++ repeat (ph a) k).
    assert (HA : length A = length ns + k) by (unfold A; rewrite app_length, repeat_length; reflexivity).
    assert (E : (ns ++ ph a :: repeat (ph a) k ++ layout (root a) a) ++ layout (root b) b
                = A ++ ph a :: mkNode (root a) (root_leaf a) :: layout_tl a
                    ++ mkNode (root b) (root_leaf b) :: layout_tl b).
    { unfold A. rewrite (layout_hd (root a) a), (layout_hd (root b) b).
      rewrite <- !app_assoc. cbn [app]. rewrite <- ?app_assoc.
      rewrite (repeat_snoc _ (ph a) k). reflexivity. }
    rewrite E. clear E.
    replace (length (A ++ ph a :: mkNode (root a) (root_leaf a) :: layout_tl a))
      with (length A + 2 + length (layout_tl a)) by (rewrite app_length; cbn [length]; lia).
    rewrite <- HA.
    assert (E2 : length (ns ++ ph a :: repeat (ph a) k ++ layout (root a) a) = length A + 2 + length (layout_tl a)).
    { rewrite (layout_hd (root a) a). rewrite app_length. cbn [length]. rewrite app_length, repeat_length. cbn [length]. lia. }
    rewrite E2. clear E2.
    rewrite complete_true_step. cbn [n_sib n_leaf ph].
    (* fold back into the layout of Node a b *)
    assert (E3 : A ++ mkNode (branchH (root a) (root b)) None :: mkNode (root b) (root_leaf a) :: layout_tl a
                   ++ mkNode (root a) (root_leaf b) :: layout_tl b
                 = ns ++ repeat (ph (Node a b)) k ++ layout (root (Node a b)) (Node a b)).
    { unfold A. cbn [TapTreeModel.layout TapTreeModel.root].
      rewrite (layout_hd (root b) a), (layout_hd (root a) b).
      rewrite <- !app_assoc. reflexivity. }
    rewrite E3. reflexivity.
Qed.

Theorem nodes_from_depths_of_tree : forall t,
  nodes_from_tap_tree leaf hash leafH branchH (depths_of_tree leaf t) = TOk (layout (root t) t).
Proof.
  intros t. unfold nodes_from_tap_tree, depths_of_tree.
  rewrite <- (app_nil_r (depths_at 0 t)). rewrite run_subtree by (cbn; lia).
  cbn [length Nat.sub repeat app new_parents TapTreeModel.complete tbind TapTreeModel.run_leaves snd fst].
  rewrite layout_hd. reflexivity.
Qed.

Theorem algo_root : forall dl t, tree_of_depths leaf dl = Some t ->
  exists ns, nodes_from_tap_tree leaf hash leafH branchH dl = TOk ns
             /\ ns = layout (root t) t
             /\ merkle_root_of leaf hash ns = Some (root t).
Proof.
  intros dl t H. apply tree_of_depths_sound in H. subst dl.
  exists (layout (root t) t). split; [apply nodes_from_depths_of_tree|].
  split; [reflexivity|]. rewrite layout_hd. reflexivity.
Qed.

End MerkleProofs.
