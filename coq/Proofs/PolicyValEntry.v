(* C08: the entry points the driver calls, and non-vacuity examples. *)
From Coq Require Import List Bool NArith ZArith Lia.
From Verif Require Import PolicyVal PolicyValProofs PolicyValWorlds PolicyValidator.
Import ListNotations.
Local Open Scope N_scope.

Lemma failing_nil l : failing l = [] -> all_hold l = true.
Proof.
  unfold failing, all_hold. induction l as [|[c b] r IH]; cbn; [reflexivity|].
  destruct b; cbn; [exact IH | discriminate].
Qed.

Lemma run_ms_case_ok c kkl bare pol m codes :
  run_ms_case c kkl bare pol m codes = [] ->
  exists att, decode_tys codes = Some att /\ validate_descriptor c (kk_of_list kkl) bare pol m att = true.
Proof.
  unfold run_ms_case. destruct (decode_tys codes) as [att|]; [|discriminate].
  intro H. exists att. split; [reflexivity|]. apply failing_nil. exact H.
Qed.

Lemma run_tr_case_ok kkl pol ik inpol dl expected native :
  run_tr_case kkl pol ik inpol dl expected native = [] ->
  exists dl', decode_leaves dl = Some dl' /\ validate_tr (kk_of_list kkl) pol ik inpol dl' expected native = true.
Proof.
  unfold run_tr_case. destruct (decode_leaves dl) as [dl'|]; [|discriminate].
  intro H. exists dl'. split; [reflexivity|]. apply failing_nil. exact H.
Qed.

(* ------------------------------------------------------------------ non-vacuity examples *)
(* or(9@pk(0), 1@and(pk(1), older(144)))  compiled to  or_d(pk(0), and_v(v:pkh(1), older(144))) *)
Definition ex_kk : key -> kkind := fun _ => KComp.
Definition ex_pol : vpolicy := COr [(9, CKey 0); (1, CAnd [CKey 1; COlder 144])].
Definition ex_ms : ms := MOrD (MCheck (MPkK 0)) (MAndV (MVerify (MCheck (MPkH 1))) (MOlder 144)).
Definition ex_ms_bad : ms := MOrD (MCheck (MPkK 0)) (MAndV (MVerify (MCheck (MPkH 1))) (MOlder 143)).
Definition oks (l : list (res ty)) : list ty :=
  flat_map (fun r => match r with ROk t => [t] | RErr _ => [] end) l.

Lemma example_accepted :
  exists att, map type_of (subterms ex_ms) = map (@ROk ty) att
              /\ validate_compilation Segwitv0 ex_kk ex_pol ex_ms att = true.
Proof. exists (oks (map type_of (subterms ex_ms))). split; vm_compute; reflexivity. Qed.

Lemma example_rejected : exists f, find_diff (lift_c ex_pol) (lift_ms ex_ms_bad) = Some f.
Proof. vm_compute. eexists. reflexivity. Qed.

(* units are part of a lock atom: after(100) (height) and after(500000100) (time) are different
   atoms.  The miscompilation of seeded change C08-3,
     or(and(pk(0),after(100)),and(pk(1),after(500000100)))  |->  andor(pk(0),after(100),and_v(v:pk(1),after(100))),
   is rejected; the distinguishing world is reported by [find_diff]. *)
Definition ex_units_pol : vpolicy :=
  COr [(1, CAnd [CKey 0; CAfter 100]); (1, CAnd [CKey 1; CAfter 500000100])].
Definition ex_units_bad : ms :=
  MAndOr (MCheck (MPkK 0)) (MAfter 100) (MAndV (MVerify (MCheck (MPkK 1))) (MAfter 100)).
Lemma example_units :
  equivb (SAfter 100) (SAfter 500000100) = false
  /\ equivb (SOlder 144) (SOlder (4194304 + 144)) = false
  /\ equiv_dec (lift_c ex_units_pol) (lift_ms ex_units_bad) = false
  /\ exists f, find_diff (lift_c ex_units_pol) (lift_ms ex_units_bad) = Some f
               /\ fw_lock f = 500000100
               /\ evalc (world_of f) ex_units_pol = true /\ evals (world_of f) (lift_ms ex_units_bad) = false.
Proof.
  split; [vm_compute; reflexivity|]. split; [vm_compute; reflexivity|]. split; [vm_compute; reflexivity|].
  exists (mkF [0; 1] [] 500000100 2147483648). vm_compute. repeat split.
Qed.

Lemma example_worlds :
  evalc (mkWorld (fun k => N.eqb k 1) (fun _ _ => false) 0 144) ex_pol = true
  /\ evalc (mkWorld (fun k => N.eqb k 1) (fun _ _ => false) 0 143) ex_pol = false
  /\ evalc (mkWorld (fun k => N.eqb k 1) (fun _ _ => false) 0 (4194304 + 144)) ex_pol = false.
Proof. vm_compute. repeat split. Qed.

(* ------------------------------------------------------------------ the limits, spelled out *)
Definition fits (o : option N) (lim : N) : Prop := exists n, o = Some n /\ n <= lim.
Lemma ole_fits o lim : ole o lim = true -> fits o lim.
Proof. destruct o as [n|]; cbn; [|discriminate]. intro H. exists n. split; [reflexivity | apply N.leb_le; exact H]. Qed.

Lemma limits_spelled c kk m : limits_ok c kk m = true ->
  N.of_nat (length (encode (val_keyenv kk) m)) <= MAX_SCRIPT_SIZE_CTX c
  /\ pk_cost_of c kk m <= MAX_SCRIPT_SIZE_CTX c
  /\ lib_script_size c kk m <= MAX_SCRIPT_SIZE_CTX c
  /\ match c with
     | Bare => fits (exec_ops c kk m) 201
     | Legacy => fits (exec_ops c kk m) 201 /\ fits (ssig_bytes c kk m) 1650
     | Segwitv0 => fits (exec_ops c kk m) 201 /\ fits (option_map (N.add 1) (wit_count c kk m)) 100
                   /\ fits (stack_count c kk m) 1000
     | Tap => forall n, stack_count c kk m = Some n -> n <= 1000
     end.
Proof.
  unfold limits_ok, script_len. intro H.
  apply andb_true_iff in H as [H H4]. apply andb_true_iff in H as [H H3]. apply andb_true_iff in H as [H1 H2].
  apply N.leb_le in H1, H2, H3. repeat (split; [assumption|]).
  destruct c.
  - apply ole_fits. exact H4.
  - apply andb_true_iff in H4 as [A B]. split; apply ole_fits; assumption.
  - apply andb_true_iff in H4 as [A C]. apply andb_true_iff in A as [A B]. repeat split; apply ole_fits; assumption.
  - intros n Hn. rewrite Hn in H4. apply N.leb_le. exact H4.
Qed.
