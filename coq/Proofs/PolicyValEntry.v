(* C08: the entry points the driver calls, and non-vacuity examples. *)
From Coq Require Import List Bool NArith ZArith Lia.
From Verif Require Import PolicyVal PolicyValProofs PolicyValWorlds PolicyValidator.
Import ListNotations.
Local Open Scope N_scope.

Lemma failing_nil l : failing l = [] -> all_hold l = true.
Proof.
  unfold failing, all_hold. induction l as [|[c b] r IH]; cbn; [reflexivity|].
  destruct b; cbn; [exact IH | discriminate].
Qed.

Lemma run_ms_case_ok c kkl bare pol m codes :
  run_ms_case c kkl bare pol m codes = [] ->
  exists att, decode_tys codes = Some att /\ validate_descriptor c (kk_of_list kkl) bare pol m att = true.
Proof.
  unfold run_ms_case. destruct (decode_tys codes) as [att|]; [|discriminate].
  intro H. exists att. split; [reflexivity|]. apply failing_nil. exact H.
Qed.

Lemma run_tr_case_ok kkl pol ik inpol dl expected :
  run_tr_case kkl pol ik inpol dl expected = [] ->
  exists dl', decode_leaves dl = Some dl' /\ validate_tr (kk_of_list kkl) pol ik inpol dl' expected = true.
Proof.
  unfold run_tr_case. destruct (decode_leaves dl) as [dl'|]; [|discriminate].
  intro H. exists dl'. split; [reflexivity|]. apply failing_nil. exact H.
Qed.

(* ------------------------------------------------------------------ non-vacuity examples *)
(* or(9@pk(0), 1@and(pk(1), older(144)))  compiled to  or_d(pk(0), and_v(v:pkh(1), older(144))) *)
Definition ex_kk : key -> kkind := fun _ => KComp.
Definition ex_pol : vpolicy := COr [(9, CKey 0); (1, CAnd [CKey 1; COlder 144])].
Definition ex_ms : ms := MOrD (MCheck (MPkK 0)) (MAndV (MVerify (MCheck (MPkH 1))) (MOlder 144)).
Definition ex_ms_bad : ms := MOrD (MCheck (MPkK 0)) (MAndV (MVerify (MCheck (MPkH 1))) (MOlder 143)).
Definition oks (l : list (res ty)) : list ty :=
  flat_map (fun r => match r with ROk t => [t] | RErr _ => [] end) l.

Lemma example_accepted :
  exists att, map type_of (subterms ex_ms) = map (@ROk ty) att
              /\ validate_compilation Segwitv0 ex_kk ex_pol ex_ms att = true.
Proof. exists (oks (map type_of (subterms ex_ms))). split; vm_compute; reflexivity. Qed.

Lemma example_rejected : exists f, find_diff (lift_c ex_pol) (lift_ms ex_ms_bad) = Some f.
Proof. vm_compute. eexists. reflexivity. Qed.

Lemma example_worlds :
  evalc (mkWorld (fun k => N.eqb k 1) (fun _ _ => false) 0 144) ex_pol = true
  /\ evalc (mkWorld (fun k => N.eqb k 1) (fun _ _ => false) 0 143) ex_pol = false
  /\ evalc (mkWorld (fun k => N.eqb k 1) (fun _ _ => false) 0 (4194304 + 144)) ex_pol = false.
Proof. vm_compute. repeat split. Qed.

(* ------------------------------------------------------------------ the limits, spelled out *)
Lemma limits_spelled c kk m : limits_ok c kk m = true ->
  match c with
  | Bare => N.of_nat (length (encode (val_keyenv kk) m)) <= 10000 /\ ops_bound kk m <= 201
  | Legacy => N.of_nat (length (encode (val_keyenv kk) m)) <= 520 /\ ops_bound kk m <= 201 /\ wit_bytes kk m <= 1650
  | Segwitv0 => N.of_nat (length (encode (val_keyenv kk) m)) <= 3600 /\ ops_bound kk m <= 201
                /\ wit_items m + 1 <= 100 /\ stack_bound kk m <= 1000
  | Tap => stack_bound kk m <= 1000
  end.
Proof.
  unfold limits_ok, script_len. destruct c; intro H;
    repeat match goal with E : _ && _ = true |- _ => apply andb_true_iff in E; destruct E end;
    repeat match goal with E : (_ <=? _) = true |- _ => apply N.leb_le in E end; auto.
Qed.
