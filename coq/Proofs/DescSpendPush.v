(* scriptSig construction (witness_to_scriptsig) round-trips:
     - a minimally encoded script number re-encodes to the same bytes (num_encode_decode);
     - every instruction witness_to_scriptsig emits is a minimal push (wf_instr: OP_0, OP_1NEGATE,
       OP_1..OP_16, or a shortest-form data push that is not a single byte 1..16 / 0x81), so the
       byte-level parser inverts the serialisation (C04 ser_parse);
     - the push-only evaluation of the emitted script is exactly the item list (pushonly_stack). *)
From Verif Require Import Exec Ser Spend Ast ScriptNumProofs SerProofs DescSpendModel.
From Coq Require Import Lia ZArith.
Ltac Zify.zify_post_hook ::= Z.div_mod_to_equations.
Local Open Scope N_scope.

Lemma is_bytes_cons x b : is_bytes (x :: b) <-> x < 256 /\ is_bytes b.
Proof. unfold is_bytes. split; [intros H; inversion H; auto | intros [H1 H2]; constructor; auto]. Qed.

(* decoding then re-encoding a minimal magnitude *)
Lemma enc_mag_S f z sb : enc_mag (S f) z sb =
  if (z <? 128)%Z then [(Z.to_N z + sb)%N]
  else if (z <? 256)%Z then [Z.to_N z; sb]
  else Z.to_N (z mod 256) :: enc_mag f (z / 256) sb.
Proof. reflexivity. Qed.
Lemma dec_mag_1 x : dec_mag [x] = if N.leb 128 x then ((Z.of_N x - 128)%Z, true) else (Z.of_N x, false).
Proof. reflexivity. Qed.
Lemma dec_mag_2 x y r : dec_mag (x :: y :: r) = let '(m, s) := dec_mag (y :: r) in ((Z.of_N x + 256 * m)%Z, s).
Proof. reflexivity. Qed.

Lemma enc_mag_dec : forall b f m s, b <> [] -> is_bytes b -> num_minimal b = true ->
  (length b <= f)%nat -> dec_mag b = (m, s) ->
  enc_mag f m (if s then 128 else 0) = b.
Proof.
  induction b as [|x r IH]; intros f m s Hne Hb Hmin Hlen Hd; [congruence|].
  apply is_bytes_cons in Hb. destruct Hb as [Hx Hr].
  destruct f as [|f']; [cbn in Hlen; lia|].
  rewrite enc_mag_S.
  destruct r as [|y r2].
  - (* one byte *)
    cbn [num_minimal] in Hmin. rewrite land127 in Hmin. apply Bool.negb_true_iff, N.eqb_neq in Hmin.
    rewrite dec_mag_1 in Hd.
    destruct (N.leb_spec 128 x) as [H|H];
      [assert (Hm : m = (Z.of_N x - 128)%Z) by congruence; assert (Hs : s = true) by congruence
      |assert (Hm : m = Z.of_N x) by congruence; assert (Hs : s = false) by congruence]; subst s; clear Hd.
    + assert (x <> 128) by (intros ->; apply Hmin; reflexivity).
      replace (m <? 128)%Z with true by (symmetry; apply Z.ltb_lt; lia).
      f_equal. lia.
    + replace (m <? 128)%Z with true by (symmetry; apply Z.ltb_lt; lia).
      f_equal. lia.
  - rewrite dec_mag_2 in Hd.
    apply is_bytes_cons in Hr. destruct Hr as [Hy Hr2].
    assert (Hcase : (r2 = [] /\ N.land y 127 = 0 /\ 128 <= x) \/ num_minimal (y :: r2) = true).
    { destruct r2 as [|y2 r3].
      - cbn [num_minimal] in Hmin. destruct (N.eqb_spec (N.land y 127) 0) as [E|E].
        + left. apply N.leb_le in Hmin. auto.
        + right. cbn [num_minimal]. apply Bool.negb_true_iff, N.eqb_neq. exact E.
      - right. exact Hmin. }
    assert (Hex : exists m' s', dec_mag (y :: r2) = (m', s')) by (destruct (dec_mag (y :: r2)); eauto).
    destruct Hex as [m' [s' Ed]]. rewrite Ed in Hd.
    assert (Hm : m = (Z.of_N x + 256 * m')%Z) by congruence.
    assert (Hs : s' = s) by congruence. subst s'. clear Hd.
    destruct Hcase as [[-> [Hy0 Hx128]] | Hmin'].
    + (* magnitude byte with bit 7 set, then the bare sign byte *)
      rewrite land127 in Hy0. rewrite dec_mag_1 in Ed.
      pose proof (N.div_mod y 128 ltac:(lia)) as Hdm.
      assert (Hq : y / 128 < 2) by (apply N.div_lt_upper_bound; lia).
      destruct (N.leb_spec 128 y) as [H|H].
      * assert (Em : m' = (Z.of_N y - 128)%Z) by congruence.
        assert (Es : s = true) by congruence. subst s. clear Ed.
        assert (y = 128) by lia. subst y.
        replace (m <? 128)%Z with false by (symmetry; apply Z.ltb_ge; lia).
        replace (m <? 256)%Z with true by (symmetry; apply Z.ltb_lt; lia).
        f_equal. lia.
      * assert (Em : m' = Z.of_N y) by congruence.
        assert (Es : s = false) by congruence. subst s. clear Ed.
        assert (y = 0) by lia. subst y.
        replace (m <? 128)%Z with false by (symmetry; apply Z.ltb_ge; lia).
        replace (m <? 256)%Z with true by (symmetry; apply Z.ltb_lt; lia).
        f_equal. lia.
    + destruct (minimal_nonempty (y :: r2) ltac:(discriminate) Hmin') as [Hpos _].
      rewrite Ed in Hpos. cbn [fst] in Hpos.
      replace (m <? 128)%Z with false by (symmetry; apply Z.ltb_ge; lia).
      replace (m <? 256)%Z with false by (symmetry; apply Z.ltb_ge; lia).
      replace (m mod 256)%Z with (Z.of_N x) by lia.
      replace (m / 256)%Z with m' by lia.
      rewrite N2Z.id. f_equal.
      apply IH; [discriminate | apply is_bytes_cons; auto | exact Hmin' | cbn [length] in *; lia | exact Ed].
Qed.

Theorem num_encode_decode (b : bytes) : is_bytes b -> num_minimal b = true -> (length b <= 10)%nat ->
  num_encode (num_decode b) = b.
Proof.
  intros Hb Hmin Hlen. destruct b as [|x r]; [reflexivity|].
  destruct (minimal_nonempty (x :: r) ltac:(discriminate) Hmin) as [Hpos _].
  unfold num_decode, num_encode. destruct (dec_mag (x :: r)) as [m s] eqn:Ed. cbn [fst] in Hpos.
  pose proof (enc_mag_dec (x :: r) 10 m s ltac:(discriminate) Hb Hmin Hlen Ed) as He.
  destruct s.
  - replace (- m =? 0)%Z with false by (symmetry; apply Z.eqb_neq; lia).
    replace (- m <? 0)%Z with true by (symmetry; apply Z.ltb_lt; lia).
    rewrite Z.abs_opp, Z.abs_eq by lia. exact He.
  - replace (m =? 0)%Z with false by (symmetry; apply Z.eqb_neq; lia).
    replace (m <? 0)%Z with false by (symmetry; apply Z.ltb_ge; lia).
    rewrite Z.abs_eq by lia. exact He.
Qed.

Lemma num_operand_inv n b z : num_operand n b = Some z ->
  blen b <= n /\ num_minimal b = true /\ z = num_decode b.
Proof.
  unfold num_operand. destruct (N.leb (blen b) n && num_minimal b) eqn:E; [|discriminate].
  intros H. inversion H; subst. apply Bool.andb_true_iff in E. destruct E as [E1 E2].
  apply N.leb_le in E1. auto.
Qed.

Lemma num_operand4_reencode b z : is_bytes b -> num_operand 4 b = Some z -> num_encode z = b.
Proof.
  intros Hb H. apply num_operand_inv in H. destruct H as [Hl [Hm ->]].
  apply num_encode_decode; [exact Hb | exact Hm | unfold blen in Hl; lia].
Qed.

(* what one emitted instruction is and does *)
Lemma scriptsig_instr_ok last wit i : is_bytes wit -> scriptsig_instr last wit = Some i ->
  wf_instr i /\ forall s acc, pushonly_stack (i :: s) acc = pushonly_stack s (wit :: acc).
Proof.
  intros Hb. unfold scriptsig_instr. destruct (num_operand 4 wit) as [z|] eqn:Ez.
  - intros H. inversion H; subst i; clear H.
    pose proof (num_operand4_reencode wit z Hb Ez) as Henc.
    unfold push_int. destruct (Z.eqb_spec z 0) as [->|Hz0].
    + cbn in Henc. subst wit. split; [exact I | reflexivity].
    + destruct ((z =? -1)%Z || (1 <=? z)%Z && (z <=? 16)%Z) eqn:Er.
      * split.
        -- cbn [wf_instr]. unfold wf_num. lia.
        -- intros s acc. cbn [pushonly_stack]. rewrite Henc. reflexivity.
      * rewrite Henc. split; [|reflexivity].
        cbn [wf_instr]. unfold wf_push. destruct wit as [|x [|y r]]; try exact I.
        (* a single byte 1..16 or 0x81 would have decoded into the OP_n range *)
        apply num_operand_inv in Ez. destruct Ez as [_ [_ Hz]]. unfold num_decode in Hz. rewrite dec_mag_1 in Hz.
        destruct (((1 <=? x) && (x <=? 16)) || (x =? 129)) eqn:Ex; [|reflexivity].
        exfalso. apply Bool.orb_false_iff in Er. destruct Er as [Er1 Er2]. apply Z.eqb_neq in Er1.
        apply Bool.andb_false_iff in Er2. rewrite !Z.leb_gt in Er2.
        apply Bool.orb_true_iff in Ex. rewrite Bool.andb_true_iff, !N.leb_le, N.eqb_eq in Ex.
        destruct (N.leb_spec 128 x); subst z; lia.
  - destruct (if last then N.leb (blen wit) 520 else N.ltb (blen wit) 73); [|discriminate].
    intros H. inversion H; subst i; clear H. split; [|reflexivity].
    cbn [wf_instr]. unfold wf_push. destruct wit as [|x [|y r]]; try exact I.
    destruct (((1 <=? x) && (x <=? 16)) || (x =? 129)) eqn:Ex; [|reflexivity].
    exfalso. unfold num_operand in Ez. change (N.leb (blen [x]) 4) with true in Ez.
    cbn [andb num_minimal] in Ez. rewrite land127 in Ez.
    destruct (N.eqb_spec (x mod 128) 0) as [E|E]; cbn [negb] in Ez; [|discriminate].
    apply Bool.orb_true_iff in Ex. rewrite Bool.andb_true_iff, !N.leb_le, N.eqb_eq in Ex.
    destruct Ex as [[H1 H2] | ->]; [rewrite N.mod_small in E by lia; lia | vm_compute in E; discriminate].
Qed.

Theorem scriptsig_roundtrip : forall l ss, Forall is_bytes l -> witness_to_scriptsig l = Some ss ->
  wf_script ss /\ forall acc, pushonly_stack ss acc = Some (rev l ++ acc).
Proof.
  induction l as [|wit r IH]; intros ss Hb H; cbn [witness_to_scriptsig] in H.
  - inversion H; subst. split; [exact I | reflexivity].
  - destruct (scriptsig_instr _ wit) as [i|] eqn:Ei; [|discriminate].
    destruct (witness_to_scriptsig r) as [s|] eqn:Es; [|discriminate]. inversion H; subst ss; clear H.
    inversion Hb; subst. destruct (scriptsig_instr_ok _ wit i H1 Ei) as [Hw Hp].
    destruct (IH s H2 eq_refl) as [Hws Hps]. split; [split; assumption|].
    intros acc. rewrite Hp, Hps. cbn [rev]. rewrite <- app_assoc. reflexivity.
Qed.

(* the serialised scriptSig parses back and evaluates (push-only) to the items *)
Corollary scriptsig_parse_stack l ss : Forall is_bytes l -> witness_to_scriptsig l = Some ss ->
  parse_script (serialize ss) = Some ss /\ pushonly_stack ss [] = Some (rev l).
Proof.
  intros Hb H. destruct (scriptsig_roundtrip l ss Hb H) as [Hw Hp]. split; [apply ser_parse; exact Hw|].
  rewrite Hp, app_nil_r. reflexivity.
Qed.

(* the assert on the last item: whatever is returned has a last item of at most 520 bytes *)
Lemma scriptsig_last_520 : forall l x ss, witness_to_scriptsig (l ++ [x]) = Some ss -> blen x <= 520.
Proof.
  induction l as [|w r IH]; intros x ss H.
  - cbn [app witness_to_scriptsig] in H. unfold scriptsig_instr in H.
    destruct (num_operand 4 x) as [z|] eqn:Ez.
    + apply num_operand_inv in Ez. lia.
    + destruct (N.leb_spec (blen x) 520); [assumption | discriminate].
  - cbn [app witness_to_scriptsig] in H. destruct (scriptsig_instr _ w); [|discriminate].
    destruct (witness_to_scriptsig (r ++ [x])) as [s|] eqn:Es; [|discriminate]. eapply IH. exact Es.
Qed.
