(* The checksum engine as a fold of the linear step over the symbol stream; linearity of the
   residue; the engine loop (cls / clscount bookkeeping) produces exactly [stream]; the
   characterisation of verify_checksum. *)
From Coq Require Import List Bool NArith Lia Btauto.
From Verif Require Import ChecksumModel ChecksumSpec ChecksumBits.
Import ListNotations.
Local Open Scope N_scope.

Arguments N.shiftl : simpl never.
Arguments N.shiftr : simpl never.
Arguments N.land : simpl never.
Arguments N.lor : simpl never.
Arguments N.lxor : simpl never.
Arguments N.ldiff : simpl never.
Arguments N.testbit : simpl never.
Arguments N.pow : simpl never.
Arguments N.mul : simpl never.
Arguments N.add : simpl never.
Arguments N.sub : simpl never.

Definition sym32 (x : N) : Prop := x < 32.

(* ---------------------------------------------------------------- F: fold of the linear step *)
Definition F (st : N) (xs : list N) : N := fold_left step xs st.
Definition Tn (k : nat) (st : N) : N := F st (repeat 0 k).

Lemma F_app : forall xs ys st, F st (xs ++ ys) = F (F st xs) ys.
Proof. intros. unfold F. apply fold_left_app. Qed.

Lemma F_lt : forall xs st, st < 2 ^ 40 -> Forall sym32 xs -> F st xs < 2 ^ 40.
Proof.
  induction xs as [|x xs IH]; intros st Hst Hx; [exact Hst|].
  inversion Hx; subst. cbn [F fold_left]. apply IH; [apply step_lt; assumption|assumption].
Qed.

Lemma polymod_from_F : forall xs st, st < 2 ^ 40 -> Forall sym32 xs -> polymod_from st xs = F st xs.
Proof.
  induction xs as [|x xs IH]; intros st Hst Hx; [reflexivity|].
  inversion Hx; subst. unfold polymod_from, F. cbn [fold_left].
  rewrite input_fe_step by assumption. apply IH; [apply step_lt; assumption|assumption].
Qed.

Lemma zipxor_length : forall xs ys, length xs = length ys -> length (zipxor xs ys) = length xs.
Proof. intros. unfold zipxor. rewrite map_length, combine_length. lia. Qed.

Lemma zipxor_cons : forall x xs y ys, zipxor (x :: xs) (y :: ys) = N.lxor x y :: zipxor xs ys.
Proof. reflexivity. Qed.

Lemma zipxor_app : forall xs ys xs' ys', length xs = length ys ->
  zipxor (xs ++ xs') (ys ++ ys') = zipxor xs ys ++ zipxor xs' ys'.
Proof.
  induction xs as [|x xs IH]; intros [|y ys] xs' ys' H; try discriminate; [reflexivity|].
  cbn [app]. rewrite !zipxor_cons. cbn [app]. f_equal. apply IH. injection H; auto.
Qed.

Lemma zipxor_sym32 : forall xs ys, Forall sym32 xs -> Forall sym32 ys -> Forall sym32 (zipxor xs ys).
Proof.
  induction xs as [|x xs IH]; intros [|y ys] Hx Hy; try constructor.
  - inversion Hx; inversion Hy; subst. apply (lxor_lt x y 5); assumption.
  - inversion Hx; inversion Hy; subst. apply IH; assumption.
Qed.

Lemma zipxor_cancel : forall xs ys, length xs = length ys -> zipxor xs (zipxor xs ys) = ys.
Proof.
  induction xs as [|x xs IH]; intros [|y ys] H; try discriminate; [reflexivity|].
  rewrite !zipxor_cons. f_equal.
  - rewrite <- N.lxor_assoc, N.lxor_nilpotent, N.lxor_0_l. reflexivity.
  - apply IH. injection H; auto.
Qed.

Lemma zipxor_same : forall xs, zipxor xs xs = repeat 0 (length xs).
Proof. induction xs as [|x xs IH]; [reflexivity|]. rewrite zipxor_cons, N.lxor_nilpotent, IH. reflexivity. Qed.

Lemma zipxor_zeros_r : forall xs, zipxor xs (repeat 0 (length xs)) = xs.
Proof. induction xs as [|x xs IH]; [reflexivity|]. cbn [length repeat]. rewrite zipxor_cons, N.lxor_0_r, IH. reflexivity. Qed.

(* GF(2)-linearity of the residue in (start state, symbol stream) *)
Lemma F_lxor : forall xs ys s1 s2, length xs = length ys ->
  F (N.lxor s1 s2) (zipxor xs ys) = N.lxor (F s1 xs) (F s2 ys).
Proof.
  induction xs as [|x xs IH]; intros [|y ys] s1 s2 H; try discriminate; [reflexivity|].
  rewrite zipxor_cons. unfold F. cbn [fold_left]. rewrite step_lxor. apply IH. injection H; auto.
Qed.

Lemma F_zeros : forall k, F 0 (repeat 0 k) = 0.
Proof. induction k; [reflexivity|]. cbn [repeat]. unfold F in *. cbn [fold_left]. rewrite step_0_0. assumption. Qed.

Lemma F_split : forall xs st, F st xs = N.lxor (Tn (length xs) st) (F 0 xs).
Proof.
  intros. unfold Tn. rewrite <- F_lxor by (rewrite repeat_length; reflexivity).
  rewrite N.lxor_0_r. f_equal.
  rewrite <- (zipxor_zeros_r xs) at 1.
  clear. induction xs as [|x xs IH]; [reflexivity|]. cbn [length repeat]. rewrite !zipxor_cons, IH.
  rewrite N.lxor_comm. reflexivity.
Qed.

Lemma Tn_lxor : forall k a b, Tn k (N.lxor a b) = N.lxor (Tn k a) (Tn k b).
Proof.
  intros. unfold Tn. rewrite <- (F_lxor (repeat 0 k) (repeat 0 k)) by reflexivity.
  rewrite zipxor_same, repeat_length. reflexivity.
Qed.

Lemma Tn_0 : forall k, Tn k 0 = 0. Proof. exact F_zeros. Qed.

Lemma Tn_add : forall j k st, Tn (j + k) st = Tn k (Tn j st).
Proof. intros. unfold Tn. rewrite repeat_app, F_app. reflexivity. Qed.

Lemma repeat_sym32 : forall k, Forall sym32 (repeat 0 k).
Proof. induction k; constructor; [reflexivity|assumption]. Qed.

Lemma Tn_lt : forall k st, st < 2 ^ 40 -> Tn k st < 2 ^ 40.
Proof. intros. apply F_lt; [assumption|apply repeat_sym32]. Qed.

Lemma Tn_kernel : forall k st, st < 2 ^ 40 -> Tn k st = 0 -> st = 0.
Proof.
  induction k; intros st Hst H; [exact H|].
  change (S k) with (1 + k)%nat in H. rewrite Tn_add in H.
  apply IHk in H; [|apply Tn_lt; assumption].
  apply step0_kernel; assumption.
Qed.

Lemma Tn_nonzero : forall k st, st < 2 ^ 40 -> st <> 0 -> Tn k st <> 0.
Proof. intros k st H Hn E. apply Hn. eapply Tn_kernel; eassumption. Qed.

Lemma F_zeros_prefix : forall k xs, F 0 (repeat 0 k ++ xs) = F 0 xs.
Proof. intros. rewrite F_app, F_zeros. reflexivity. Qed.

Lemma F_zeros_suffix : forall k xs st, F st (xs ++ repeat 0 k) = Tn k (F st xs).
Proof. intros. rewrite F_app. reflexivity. Qed.

(* ---------------------------------------------------------------- characters *)
Lemma valid_char_iff : forall c, valid_char c = true <-> 32 <= c < 127.
Proof. intro. unfold valid_char. rewrite andb_true_iff, N.leb_le, N.ltb_lt. tauto. Qed.

Lemma CHAR_MAP_bound : forallb (fun p => p <? 96) CHAR_MAP = true.
Proof. vm_compute. reflexivity. Qed.

Lemma valid_nth : forall c, valid_char c = true ->
  nth_error CHAR_MAP (N.to_nat (c - 32)) = Some (sym c) /\ sym c < 96.
Proof.
  intros c H. apply valid_char_iff in H. unfold sym.
  assert (Hl : (N.to_nat (c - 32) < length CHAR_MAP)%nat) by (change (length CHAR_MAP) with 95%nat; lia).
  split.
  - apply nth_error_nth'. assumption.
  - pose proof CHAR_MAP_bound as B. rewrite forallb_forall in B.
    apply N.ltb_lt. apply B. apply nth_In. assumption.
Qed.

Lemma lo_lt : forall c, lo c < 32.
Proof. intro. unfold lo. change 31 with (N.ones 5). rewrite N.land_ones. apply N.mod_lt. discriminate. Qed.

Lemma hi_le : forall c, valid_char c = true -> hi c <= 2.
Proof.
  intros c H. destruct (valid_nth c H) as [_ B]. unfold hi. rewrite N.shiftr_div_pow2.
  apply N.lt_succ_r. apply N.div_lt_upper_bound; [discriminate|]. exact B.
Qed.

Lemma sym_split : forall c, sym c = N.lxor (N.shiftl (hi c) 5) (lo c).
Proof.
  intro. unfold hi, lo. apply N.bits_inj. intro n. rewrite N.lxor_spec, N.land_spec.
  change 31 with (N.ones 5). destruct (N.lt_ge_cases n 5).
  - rewrite N.shiftl_spec_low, N.ones_spec_low by assumption. rewrite andb_true_r, xorb_false_l. reflexivity.
  - rewrite N.shiftl_spec_high', N.ones_spec_high by assumption. rewrite N.shiftr_spec'.
    replace (n - 5 + 5) with n by lia. rewrite andb_false_r, xorb_false_r. reflexivity.
Qed.

Lemma CHAR_MAP_nodup : NoDup CHAR_MAP.
Proof.
  assert (forall l : list N, (fix nd (l : list N) := match l with [] => true | x :: r => negb (existsb (N.eqb x) r) && nd r end) l = true -> NoDup l) as H.
  { induction l as [|x r IH]; intro E; constructor.
    - apply andb_true_iff in E. destruct E as [E _]. apply negb_true_iff in E. intro I.
      assert (existsb (N.eqb x) r = true) by (apply existsb_exists; exists x; split; [assumption|apply N.eqb_refl]).
      congruence.
    - apply IH. apply andb_true_iff in E. tauto. }
  apply H. vm_compute. reflexivity.
Qed.

Lemma sym_inj : forall a b, valid_char a = true -> valid_char b = true -> sym a = sym b -> a = b.
Proof.
  intros a b Ha Hb E. apply valid_char_iff in Ha. apply valid_char_iff in Hb. unfold sym in E.
  pose proof CHAR_MAP_nodup as ND. rewrite (NoDup_nth CHAR_MAP 0) in ND.
  assert (N.to_nat (a - 32) = N.to_nat (b - 32)).
  { apply ND; try exact E; change (length CHAR_MAP) with 95%nat; lia. }
  lia.
Qed.

(* ---------------------------------------------------------------- the engine loop yields [stream] *)
Lemma list_ind3 : forall (A : Type) (P : list A -> Prop),
  P [] -> (forall a, P [a]) -> (forall a b, P [a; b]) ->
  (forall a b c r, P r -> P (a :: b :: c :: r)) -> forall l, P l.
Proof.
  intros A P H0 H1 H2 H3.
  assert (forall n l, (length l <= n)%nat -> P l) as G.
  { induction n; intros l Hl.
    - destruct l; [exact H0|cbn in Hl; lia].
    - destruct l as [|a [|b [|c r]]]; auto. apply H3. apply IHn. cbn [length] in Hl. lia. }
  intro l. apply (G (length l)). lia.
Qed.

Lemma stream_sym32 : forall s, Forall (fun c => valid_char c = true) s -> Forall sym32 (stream s).
Proof.
  intro s. induction s as [| a | a b | a b c r IH] using list_ind3; intro H; cbn [stream].
  - constructor.
  - inversion H; subst. pose proof (hi_le a H2). repeat constructor; [apply lo_lt|unfold sym32; lia].
  - inversion H as [|? ? Ha H']; subst. inversion H' as [|? ? Hb _]; subst.
    pose proof (hi_le a Ha). pose proof (hi_le b Hb).
    repeat constructor; try apply lo_lt. unfold sym32; lia.
  - inversion H as [|? ? Ha H']; subst. inversion H' as [|? ? Hb H'']; subst. inversion H'' as [|? ? Hc Hr]; subst.
    pose proof (hi_le a Ha). pose proof (hi_le b Hb). pose proof (hi_le c Hc).
    repeat constructor; try apply lo_lt; [unfold sym32; lia|]. apply IH. assumption.
Qed.

Lemma stream_length : forall s s', length s = length s' -> length (stream s) = length (stream s').
Proof.
  intro s. induction s as [| a | a b | a b c r IH] using list_ind3; intros s' H.
  - destruct s'; [reflexivity|discriminate].
  - destruct s' as [|? [|]]; try discriminate. reflexivity.
  - destruct s' as [|? [|? [|]]]; try discriminate. reflexivity.
  - destruct s' as [|? [|? [|? r']]]; try discriminate. cbn [stream length]. do 4 f_equal. apply IH.
    cbn [length] in H. lia.
Qed.

Lemma input_byte_valid : forall st ch, valid_char ch = true -> e_res st < 2 ^ 40 -> e_cls st * 3 + hi ch < 32 ->
  input_byte st ch =
    if e_cnt st + 1 =? 3
    then Ok (mkEng (step (step (e_res st) (lo ch)) (e_cls st * 3 + hi ch)) 0 0)
    else Ok (mkEng (step (e_res st) (lo ch)) (e_cls st * 3 + hi ch) (e_cnt st + 1)).
Proof.
  intros st ch Hv Hr Hc. unfold input_byte.
  pose proof (proj1 (valid_char_iff ch) Hv) as Hb.
  replace (ch <? 32) with false by (symmetry; apply N.ltb_ge; lia).
  destruct (valid_nth ch Hv) as [-> _]. fold (lo ch). fold (hi ch).
  unfold fe32_expect. pose proof (lo_lt ch) as Hl.
  replace (lo ch <? 32) with true by (symmetry; apply N.ltb_lt; assumption).
  rewrite input_fe_step by assumption.
  destruct (e_cnt st + 1 =? 3); [|reflexivity].
  replace (e_cls st * 3 + hi ch <? 32) with true by (symmetry; apply N.ltb_lt; assumption).
  rewrite input_fe_step; [reflexivity|apply step_lt; assumption|assumption].
Qed.

Lemma target_residue_F : forall r, r < 2 ^ 40 -> input_target_residue r = F r TARGET.
Proof.
  intros r Hr.
  assert (HT : Forall sym32 TARGET) by (repeat (constructor; [reflexivity|]); constructor).
  rewrite <- (polymod_from_F TARGET r Hr HT).
  unfold input_target_residue, polymod_from, TARGET, CHECKSUM_LENGTH. cbn [fold_left].
  assert (E0 : forall i, In i [0; 1; 2; 3; 4; 5; 6] -> unpack 1 (8 - i - 1) = 0).
  { intros i Hi. cbn [In] in Hi. decompose [or] Hi; subst; try contradiction; vm_compute; reflexivity. }
  assert (E1 : unpack 1 (8 - 7 - 1) = 1) by (vm_compute; reflexivity).
  rewrite E1. rewrite !E0 by (cbn [In]; tauto). reflexivity.
Qed.

Lemma F_cons : forall r x xs, F r (x :: xs) = F (step r x) xs.
Proof. reflexivity. Qed.

(* checksum_chars on the three possible engine shapes *)
Lemma checksum_chars_0 : forall r, r < 2 ^ 40 -> checksum_chars (mkEng r 0 0) = Ok (chars_of (F r TARGET)).
Proof.
  intros. unfold checksum_chars. cbn [e_cnt e_res]. change (0 <? 0) with false. cbv iota.
  rewrite target_residue_F by assumption. unfold chars_of. reflexivity.
Qed.

Lemma checksum_chars_pending : forall r cls cnt, r < 2 ^ 40 -> cls < 32 -> 0 < cnt ->
  checksum_chars (mkEng r cls cnt) = Ok (chars_of (F r (cls :: TARGET))).
Proof.
  intros r cls cnt Hr Hc Hn. unfold checksum_chars. cbn [e_cnt e_res e_cls].
  replace (0 <? cnt) with true by (symmetry; apply N.ltb_lt; assumption). cbv iota.
  unfold fe32_expect. replace (cls <? 32) with true by (symmetry; apply N.ltb_lt; assumption).
  rewrite input_fe_step by assumption.
  rewrite target_residue_F by (apply step_lt; assumption).
  rewrite F_cons. reflexivity.
Qed.

Lemma engine_stream : forall s, Forall (fun c => valid_char c = true) s -> forall r, r < 2 ^ 40 ->
  exists st, input_unchecked (mkEng r 0 0) s = Ok st /\
             checksum_chars st = Ok (chars_of (F r (stream s ++ TARGET))).
Proof.
  intro s. induction s as [| a | a b | a b c rest IH] using list_ind3; intros H r Hr.
  - eexists. split; [reflexivity|]. cbn [stream app]. apply checksum_chars_0. assumption.
  - inversion H as [|? ? Ha _]; subst. pose proof (hi_le a Ha) as Hh.
    cbn [input_unchecked]. rewrite input_byte_valid; cbn [e_res e_cls e_cnt]; try assumption; [|lia].
    change (0 + 1 =? 3) with false. cbv iota. eexists. split; [reflexivity|].
    rewrite checksum_chars_pending; [|apply step_lt; apply lo_lt|lia|reflexivity].
    cbn [stream app]. rewrite !F_cons, N.mul_0_l, N.add_0_l. reflexivity.
  - inversion H as [|? ? Ha H']; subst. inversion H' as [|? ? Hb _]; subst.
    pose proof (hi_le a Ha) as Hh. pose proof (hi_le b Hb) as Hh'.
    cbn [input_unchecked]. rewrite input_byte_valid; cbn [e_res e_cls e_cnt]; try assumption; [|lia].
    change (0 + 1 =? 3) with false. cbv iota.
    rewrite input_byte_valid; cbn [e_res e_cls e_cnt]; try assumption; [|apply step_lt; apply lo_lt|lia].
    change (0 + 1 + 1 =? 3) with false. cbv iota. eexists. split; [reflexivity|].
    rewrite checksum_chars_pending; [|apply step_lt; apply lo_lt|lia|reflexivity].
    cbn [stream app]. rewrite !F_cons, N.mul_0_l, N.add_0_l. reflexivity.
  - inversion H as [|? ? Ha H']; subst. inversion H' as [|? ? Hb H'']; subst. inversion H'' as [|? ? Hc Hr']; subst.
    pose proof (hi_le a Ha) as Hh. pose proof (hi_le b Hb) as Hh'. pose proof (hi_le c Hc) as Hh''.
    cbn [input_unchecked]. rewrite input_byte_valid; cbn [e_res e_cls e_cnt]; try assumption; [|lia].
    change (0 + 1 =? 3) with false. cbv iota.
    rewrite input_byte_valid; cbn [e_res e_cls e_cnt]; try assumption; [|apply step_lt; apply lo_lt|lia].
    change (0 + 1 + 1 =? 3) with false. cbv iota.
    rewrite input_byte_valid; cbn [e_res e_cls e_cnt]; try assumption; [|apply step_lt; apply lo_lt|lia].
    change (0 + 1 + 1 + 1 =? 3) with true. cbv iota.
    destruct (IH Hr' (step (step (step (step r (lo a)) (lo b)) (lo c)) (((0 * 3 + hi a) * 3 + hi b) * 3 + hi c)))
      as [st [E1 E2]]; [apply step_lt; lia|].
    exists st. split; [exact E1|]. rewrite E2. cbn [stream app]. rewrite !F_cons, N.mul_0_l, N.add_0_l. reflexivity.
Qed.

Definition cks (s : bytes) : bytes := chars_of (F 1 (stream s ++ TARGET)).

Lemma cks_chars : forall s, Forall (fun c => valid_char c = true) s ->
  exists st, input_unchecked engine_new s = Ok st /\ checksum_chars st = Ok (cks s).
Proof. intros. apply engine_stream; [assumption|reflexivity]. Qed.
