(* Script numbers: the minimal encoding decodes back, is minimal, short, and truthy. *)
From Verif Require Import Bytes.
From Coq Require Import Lia ZArith.
Ltac Zify.zify_post_hook ::= Z.div_mod_to_equations.

Lemma land127 x : N.land x 127 = (x mod 128)%N.
Proof. change 127%N with (N.ones 7). rewrite N.land_ones. reflexivity. Qed.

(* 0 < z < 128 * 256^k : the encoding has at most k+1 bytes *)
Lemma enc_mag_spec : forall f k z sb, (k < f)%nat -> (sb = 0 \/ sb = 128)%N ->
  (0 < z < 128 * 256 ^ Z.of_nat k)%Z ->
  dec_mag (enc_mag f z sb) = (z, N.eqb sb 128) /\
  num_minimal (enc_mag f z sb) = true /\
  (length (enc_mag f z sb) <= S k)%nat /\
  truthy (enc_mag f z sb) = true /\ enc_mag f z sb <> [].
Proof.
  induction f as [|f IH]; intros k z sb Hk Hsb Hz; [lia|].
  cbn [enc_mag]. destruct (Z.ltb_spec z 128) as [H1|H1].
  - (* one byte *)
    assert (Hzn : (0 < Z.to_N z < 128)%N) by lia.
    destruct Hsb as [-> | ->].
    + rewrite N.add_0_r. cbn [dec_mag num_minimal length truthy].
      replace (N.leb 128 (Z.to_N z)) with false by (symmetry; apply N.leb_gt; lia).
      rewrite land127, N.mod_small by lia. rewrite Z2N.id by lia.
      replace (N.eqb (Z.to_N z) 0) with false by (symmetry; apply N.eqb_neq; lia).
      replace (N.eqb (Z.to_N z) 128) with false by (symmetry; apply N.eqb_neq; lia).
      repeat split; try reflexivity; try lia. discriminate.
    + cbn [dec_mag num_minimal length truthy].
      replace (N.leb 128 (Z.to_N z + 128)) with true by (symmetry; apply N.leb_le; lia).
      rewrite land127. replace ((Z.to_N z + 128) mod 128)%N with (Z.to_N z) by
        (rewrite N.add_mod by lia; rewrite N.mod_same by lia; rewrite N.add_0_r, N.mod_mod by lia;
         rewrite N.mod_small by lia; reflexivity).
      replace (N.eqb (Z.to_N z) 0) with false by (symmetry; apply N.eqb_neq; lia).
      replace (N.eqb (Z.to_N z + 128) 0) with false by (symmetry; apply N.eqb_neq; lia).
      replace (N.eqb (Z.to_N z + 128) 128) with false by (symmetry; apply N.eqb_neq; lia).
      repeat split; try reflexivity; try lia.
      * f_equal. lia.
      * discriminate.
  - destruct (Z.ltb_spec z 256) as [H2|H2].
    + (* two bytes: magnitude byte with bit 7 set, then the sign byte *)
      assert (Hzn : (128 <= Z.to_N z < 256)%N) by lia.
      cbn [dec_mag num_minimal length truthy].
      assert (Hk1 : (1 <= k)%nat).
      { destruct k; [|lia]. cbn in Hz. lia. }
      destruct Hsb as [-> | ->]; cbn [N.leb N.eqb N.land];
        replace (N.leb 128 (Z.to_N z)) with true by (symmetry; apply N.leb_le; lia);
        replace (N.eqb (Z.to_N z) 0) with false by (symmetry; apply N.eqb_neq; lia);
        cbn; rewrite Z2N.id by lia; repeat split; try reflexivity; try lia; try discriminate; f_equal; lia.
    + (* more bytes *)
      destruct k as [|k'].
      { cbn in Hz. lia. }
      assert (Hrec : (0 < z / 256 < 128 * 256 ^ Z.of_nat k')%Z).
      { rewrite Nat2Z.inj_succ, Z.pow_succ_r in Hz by lia. lia. }
      destruct (IH k' (z / 256)%Z sb ltac:(lia) Hsb Hrec) as [Hd [Hm [Hl [Ht Hne]]]].
      set (r := enc_mag f (z / 256) sb) in *.
      destruct r as [|y r2] eqn:Er; [congruence|].
      repeat split.
      * change (dec_mag (Z.to_N (z mod 256) :: y :: r2)) with
          (let '(m, s) := dec_mag (y :: r2) in ((Z.of_N (Z.to_N (z mod 256)) + 256 * m)%Z, s)).
        rewrite Hd. f_equal. rewrite Z2N.id by lia. lia.
      * destruct r2 as [|y2 r3].
        -- cbn [num_minimal] in *. destruct (N.eqb (N.land y 127) 0); [discriminate | reflexivity].
        -- change (num_minimal (Z.to_N (z mod 256) :: y :: y2 :: r3)) with (num_minimal (y :: y2 :: r3)). exact Hm.
      * cbn [length] in *. lia.
      * change (truthy (Z.to_N (z mod 256) :: y :: r2)) with
          (negb (N.eqb (Z.to_N (z mod 256)) 0) || truthy (y :: r2)). rewrite Ht. apply Bool.orb_true_r.
      * discriminate.
Qed.

Lemma num_encode_pos z : (0 < z < 2147483648)%Z ->
  dec_mag (num_encode z) = (z, false) /\ num_minimal (num_encode z) = true /\
  (length (num_encode z) <= 4)%nat /\ truthy (num_encode z) = true.
Proof.
  intros Hz. unfold num_encode.
  replace (z =? 0)%Z with false by (symmetry; apply Z.eqb_neq; lia).
  replace (z <? 0)%Z with false by (symmetry; apply Z.ltb_ge; lia).
  rewrite Z.abs_eq by lia.
  destruct (enc_mag_spec 10 3 z 0%N ltac:(lia) (or_introl eq_refl) ltac:(cbn; lia)) as [H1 [H2 [H3 [H4 _]]]].
  repeat split; auto.
Qed.

Theorem num_roundtrip (n : N) z : (4 <= n)%N -> (0 <= z < 2147483648)%Z ->
  num_operand n (num_encode z) = Some z.
Proof.
  intros Hn Hz. destruct (Z.eq_dec z 0) as [->|Hnz].
  - unfold num_operand. cbn. destruct n; reflexivity.
  - destruct (num_encode_pos z ltac:(lia)) as [H1 [H2 [H3 _]]].
    unfold num_operand, blen. rewrite H2.
    replace (N.leb (N.of_nat (length (num_encode z))) n) with true by (symmetry; apply N.leb_le; lia).
    cbn [andb]. unfold num_decode. rewrite H1. reflexivity.
Qed.

Theorem num_truthy z : (0 < z < 2147483648)%Z -> truthy (num_encode z) = true.
Proof. intros Hz. apply (num_encode_pos z Hz). Qed.

(* a minimal non-empty number is non-zero and truthy *)
Lemma minimal_nonempty : forall b, b <> [] -> num_minimal b = true ->
  (0 < fst (dec_mag b))%Z /\ truthy b = true.
Proof.
  induction b as [|x r IH]; intros Hne Hm; [congruence|].
  destruct r as [|y r2].
  - cbn [num_minimal dec_mag truthy] in *. rewrite land127 in Hm.
    apply Bool.negb_true_iff, N.eqb_neq in Hm.
    destruct (N.leb_spec 128 x) as [H|H]; cbn [fst].
    + split; [|].
      * assert (x <> 128%N) by (intros ->; apply Hm; reflexivity). lia.
      * assert (x <> 0%N) by (intros ->; apply Hm; reflexivity).
        assert (x <> 128%N) by (intros ->; apply Hm; reflexivity).
        apply Bool.andb_true_iff. split; apply Bool.negb_true_iff, N.eqb_neq; assumption.
    + assert (x <> 0%N) by (intros ->; apply Hm; reflexivity).
      split; [lia|]. apply Bool.andb_true_iff. split; apply Bool.negb_true_iff, N.eqb_neq; lia.
  - assert (Hr : (0 < fst (dec_mag (y :: r2)))%Z /\ truthy (y :: r2) = true \/
                 (r2 = [] /\ N.land y 127 = 0%N /\ (128 <= x)%N)).
    { destruct r2 as [|y2 r3].
      - cbn [num_minimal] in Hm. destruct (N.eqb_spec (N.land y 127) 0) as [E|E].
        + right. apply N.leb_le in Hm. auto.
        + left. apply IH; [discriminate|]. cbn [num_minimal]. apply Bool.negb_true_iff, N.eqb_neq. exact E.
      - left. apply IH; [discriminate|]. exact Hm. }
    change (dec_mag (x :: y :: r2)) with (let '(m, s) := dec_mag (y :: r2) in ((Z.of_N x + 256 * m)%Z, s)).
    change (truthy (x :: y :: r2)) with (negb (N.eqb x 0) || truthy (y :: r2)).
    destruct Hr as [[Hp Ht] | [-> [Hy Hx]]].
    + destruct (dec_mag (y :: r2)) as [m s]. cbn [fst] in *. rewrite Ht. split; [lia | apply Bool.orb_true_r].
    + cbn [dec_mag]. destruct (N.leb_spec 128 y); cbn [fst].
      * split; [|replace (N.eqb x 0) with false by (symmetry; apply N.eqb_neq; lia); reflexivity].
        rewrite land127 in Hy. lia.
      * split; [lia | replace (N.eqb x 0) with false by (symmetry; apply N.eqb_neq; lia); reflexivity].
Qed.

Theorem num_truthy_iff (n : N) v z : num_operand n v = Some z -> truthy v = negb (z =? 0)%Z.
Proof.
  unfold num_operand. destruct (N.leb (blen v) n && num_minimal v) eqn:E; [|discriminate].
  intros H. inversion H; subst; clear H. apply Bool.andb_true_iff in E. destruct E as [_ Hm].
  destruct v as [|x r].
  - reflexivity.
  - destruct (minimal_nonempty (x :: r) ltac:(discriminate) Hm) as [Hp Ht]. rewrite Ht.
    unfold num_decode. destruct (dec_mag (x :: r)) as [m s]. cbn [fst] in Hp.
    destruct s; symmetry; apply Bool.negb_true_iff, Z.eqb_neq; lia.
Qed.
