(* C14: idempotence of the free functions psbt::finalize / psbt::finalize_mall
   (finalizer.rs finalize_helper: sanity_check, then stop at the first failing input). *)
From Coq Require Import List Bool NArith Arith Lia.
Import ListNotations.
From Verif Require Import PsbtModel PsbtLemmas PsbtReach PsbtAtomic PsbtIdem.

Section IdemOld.
  Variable try_input : psbt -> nat -> bool -> tryres.
  Variable interp_check : psbt -> option (nat * N).
  Variable desc_info : N -> dinfo.
  Variable sig_flag : N -> option N.
  Variable sighash_ecdsa : N -> option N.
  Variable inp_mall : bool -> bool.

  Notation stepM := (step try_input interp_check desc_info sig_flag sighash_ecdsa inp_mall).
  Notation finalize_inputM := (finalize_input try_input).
  Notation specM := (finalize_input_spec try_input).
  Notation loopM := (fin_old_loop try_input).
  Notation sanityM := (sanity_check sig_flag sighash_ecdsa).

  Hypothesis Hne : try_nonempty try_input.

  Lemma sanity_inputs_set l : forall n i x,
    sanity_inputs sig_flag sighash_ecdsa n l = None ->
    sanity_input sig_flag sighash_ecdsa x = None ->
    sanity_inputs sig_flag sighash_ecdsa n (set_nth i x l) = None.
  Proof.
    induction l as [|y r IH]; intros n [|i] x H Hx; simpl in *; auto.
    - rewrite Hx. destruct (sanity_input sig_flag sighash_ecdsa y); [discriminate|auto].
    - destruct (sanity_input sig_flag sighash_ecdsa y); [discriminate|]. apply IH; auto.
  Qed.

  Lemma sanity_cleared a s w : sanity_input sig_flag sighash_ecdsa (cleared a s w) = None.
  Proof. reflexivity. Qed.

  Lemma finalize_input_sanity st i m st' :
    finalize_inputM st i m = FOk st' -> sanityM st = None -> sanityM st' = None.
  Proof.
    intros H Hs. pose proof (specM st i m) as S. rewrite H in S.
    destruct S as (a & Hn & [[_ ->]|(Hf & s & w & _ & ->)] & _); auto.
    unfold sanity_check in *. simpl. rewrite length_set_nth.
    destruct (negb (p_ntx st =? length (p_inputs st))); [discriminate|].
    destruct (sanity_inputs sig_flag sighash_ecdsa 0 (p_inputs st)) as [[? ?]|] eqn:E; [discriminate|].
    rewrite (sanity_inputs_set _ _ i _ E (sanity_cleared a s w)). reflexivity.
  Qed.

  Lemma loop_sanity m idxs : forall st, sanityM st = None -> sanityM (fst (loopM m idxs st)) = None.
  Proof.
    induction idxs as [|i r IH]; intros st Hs; simpl; auto.
    destruct (finalize_inputM st i m) as [st1|k0 e|] eqn:H; simpl; auto.
    apply IH. eapply finalize_input_sanity; eauto.
  Qed.

  Lemma loop_untouched m idxs : forall st k, ~ In k idxs ->
    nth_error (p_inputs (fst (loopM m idxs st))) k = nth_error (p_inputs st) k.
  Proof.
    induction idxs as [|i r IH]; intros st k Hk; simpl; auto.
    destruct (finalize_inputM st i m) as [st1|k0 e|] eqn:H; simpl; auto.
    rewrite IH by (intro; apply Hk; right; auto).
    apply (finalize_input_other try_input _ _ _ _ k H). intro; subst; apply Hk; left; auto.
  Qed.

  Lemma loop_second m idxs : NoDup idxs -> forall st st' r,
    loopM m idxs st = (st', r) -> loopM m idxs st' = (st', r).
  Proof.
    induction 1 as [|i r0 Hni Hnd IH]; intros st st' r H; simpl in *.
    - inversion H; subst; auto.
    - pose proof (specM st i m) as S.
      destruct (finalize_inputM st i m) as [st1|k0 e|] eqn:Hfi.
      + (* input i is final in st1, hence in st'; the second pass skips it *)
        assert (Hi : exists a1, nth_error (p_inputs st') i = Some a1 /\ is_final a1 = true).
        { pose proof (loop_untouched m r0 st1 i Hni) as U. rewrite H in U. simpl in U. rewrite U.
          destruct S as (a & Ha & [[Hf ->]|(Hf & s & w & Ht & ->)] & _).
          - eauto.
          - exists (cleared a s w). split. simpl. eapply nth_set_nth_eq; eauto.
            eapply cleared_final; eauto. }
        destruct Hi as (a1 & Ha1 & Hf1).
        unfold finalize_input. rewrite Ha1, Hf1. eapply IH; eauto.
      + inversion H; subst. rewrite Hfi. reflexivity.
      + inversion H; subst. rewrite Hfi. reflexivity.
  Qed.

  (* ================= idempotent (psbt::finalize / psbt::finalize_mall) ================= *)
  Theorem idempotent_old : forall st m st' r,
    stepM st (FinalizeOld m) = (st', r) -> stepM st' (FinalizeOld m) = (st', r).
  Proof.
    intros st m st' r H. simpl in *. unfold finalize_old in *.
    destruct (sanityM st) as [e|] eqn:Hs.
    - inversion H; subst. rewrite Hs. reflexivity.
    - pose proof (loop_sanity m (seq 0 (length (p_inputs st))) st Hs) as Hs'. rewrite H in Hs'. simpl in Hs'.
      rewrite Hs'.
      assert (L : length (p_inputs st') = length (p_inputs st)).
      { pose proof (fin_old_loop_sreach try_input m (seq 0 (length (p_inputs st))) st) as R.
        rewrite H in R. simpl in R. apply sreach_length; auto. }
      rewrite L. eapply loop_second; eauto. apply seq_NoDup.
  Qed.
End IdemOld.
