(* C08: compile_tr_native's promise.  "The leaf's script contains no OP_IF / OP_NOTIF / OP_IFDUP"
   (judged on the model's encoding) is exactly "the leaf contains none of the fragments d:, j:,
   andor, or_d, or_c, or_i" -- the list of the library's has_if_fragment. *)
From Coq Require Import List Bool NArith ZArith Lia.
From Verif Require Import PolicyVal PolicyValProofs TheoremA.
Import ListNotations.

Lemma has_if_app a b : script_has_if (a ++ b) = script_has_if a || script_has_if b.
Proof. apply existsb_app. Qed.

Lemma push_int_no_if z : instr_has_if (push_int z) = false.
Proof. unfold push_int. destruct (z =? 0)%Z; [reflexivity|]. destruct (_ || _); reflexivity. Qed.

Lemma push_verify_has_if s : script_has_if (push_verify s) = script_has_if s.
Proof.
  induction s as [|i r IH]; [reflexivity|].
  destruct r as [|j r'].
  - destruct i as [b|z|o|neg t e]; try reflexivity.
    cbn [push_verify]. destruct (verify_form o) as [o'|] eqn:E.
    + destruct o; cbn in E; try discriminate; inversion E; subst; reflexivity.
    + unfold script_has_if. cbn [existsb]. rewrite !orb_false_r. reflexivity.
  - assert (E : push_verify (i :: j :: r') = i :: push_verify (j :: r')) by (destruct i; reflexivity).
    rewrite E.
    unfold script_has_if in *. cbn [existsb] in *. rewrite IH. reflexivity.
Qed.

Lemma keys_push_no_if (f : key -> bytes) ks : script_has_if (map (fun k => IPush (f k)) ks) = false.
Proof. induction ks; cbn; auto. Qed.
Lemma keys_csa_no_if (f : key -> bytes) ks :
  script_has_if (flat_map (fun k => [IPush (f k); IOp OP_CHECKSIGADD]) ks) = false.
Proof. induction ks; cbn; auto. Qed.

Lemma existsb_subterms_cons m r : existsb if_frag (m :: r) = if_frag m || existsb if_frag r.
Proof. reflexivity. Qed.

Ltac ifsimp :=
  cbn [existsb if_frag orb];
  rewrite ?has_if_app, ?push_verify_has_if, ?existsb_app;
  repeat match goal with H : script_has_if (enc _ _) = _ |- _ => rewrite H; clear H end;
  unfold script_has_if; cbn [existsb instr_has_if app];
  rewrite ?push_int_no_if, ?orb_false_r, ?orb_true_r; try reflexivity.

Theorem script_has_if_exact ke : forall m, script_has_if (enc ke m) = has_if_frag m.
Proof.
  unfold has_if_frag.
  induction m using ms_ind'; cbn [enc subterms]; try (ifsimp; fail).
  - (* thresh *)
    rewrite has_if_app. cbn [existsb if_frag orb].
    replace (script_has_if [push_int (Z.of_N k); IOp OP_EQUAL]) with false
      by (unfold script_has_if; cbn [existsb]; rewrite push_int_no_if; reflexivity).
    rewrite orb_false_r.
    destruct xs as [|x0 rest]; [reflexivity|].
    inversion H as [|? ? Hx0 Hrest]; subst. cbn [flat_map]. rewrite has_if_app, existsb_app, Hx0. f_equal.
    clear Hx0 H. induction Hrest as [|x r Hx Hr IH]; [reflexivity|].
    cbn [flat_map]. rewrite !has_if_app, existsb_app, Hx, IH. reflexivity.
  - (* multi *) rewrite !has_if_app, keys_push_no_if. ifsimp.
  - rewrite !has_if_app, keys_push_no_if. ifsimp.
  - (* multi_a *) rewrite has_if_app. destruct ks as [|k0 r]; [ifsimp|].
    rewrite has_if_app, keys_csa_no_if. ifsimp.
  - rewrite has_if_app. destruct (ksort ke ks) as [|k0 r]; [ifsimp|].
    rewrite has_if_app, keys_csa_no_if. ifsimp.
Qed.

(* what ClNative establishes *)
Lemma native_leaf_spec kk m : native_leaf kk m = true <->
  script_has_if (enc (val_keyenv kk) m) = false /\ has_if_frag m = false.
Proof.
  unfold native_leaf. rewrite negb_true_iff, (script_has_if_exact (val_keyenv kk) m). tauto.
Qed.

Lemma no_if_frag_spelled m : has_if_frag m = false ->
  (forall x, ~ In (MDupIf x) (subterms m)) /\ (forall x, ~ In (MNonZero x) (subterms m))
  /\ (forall a b c, ~ In (MAndOr a b c) (subterms m)) /\ (forall x y, ~ In (MOrD x y) (subterms m))
  /\ (forall x y, ~ In (MOrC x y) (subterms m)) /\ (forall x y, ~ In (MOrI x y) (subterms m)).
Proof.
  unfold has_if_frag. intro H.
  assert (A : forall s, In s (subterms m) -> if_frag s = false).
  { intros s Hs. destruct (if_frag s) eqn:E; [|reflexivity].
    assert (existsb if_frag (subterms m) = true) by (apply existsb_exists; eauto). congruence. }
  repeat split; intros; intro Hin; specialize (A _ Hin); discriminate.
Qed.
