(* C04 second round, the closing argument: the decoder accepts only canonical scripts.
     decode_max e b = OOk m  ->  encode m = b
   from  (1) LexCanon.lex_canonical: the bytes are a function of the tokens,
         (2) DecodeSound.parse_sound: the tokens are exactly the tokens of the result,
         (3) EncProofs.lex_enc: the encoding of the result lexes to those same tokens,
         (4) below: the encoding of the result is a byte string (all bytes < 256) because its
             key and hash pushes appear as tokens of the input. *)
From Coq Require Import Lia.
From Verif Require Import DecodeModel CodecSpec SerProofs CodecNumProofs LexProofs EncProofs DecodeSound LexCanon.
Local Open Scope N_scope.

(* ------------------------------------------------------------------ byte-ness of serialisations *)
Definition sb (s : script) : Prop := is_bytes (serialize s).

Ltac solveb := repeat (apply Forall_cons; [reflexivity|]); apply Forall_nil.

Lemma is_bytes_app_i a b : is_bytes a -> is_bytes b -> is_bytes (a ++ b).
Proof. intros. apply Forall_app. split; assumption. Qed.

Lemma sb_nil : sb [].
Proof. constructor. Qed.
Lemma sb_app a b : sb a -> sb b -> sb (a ++ b).
Proof. unfold sb. rewrite serialize_app. apply is_bytes_app_i. Qed.
Lemma sb_cons i s : is_bytes (ser_instr i) -> sb s -> sb (i :: s).
Proof. unfold sb. rewrite serialize_cons. apply is_bytes_app_i. Qed.
Lemma sb_op o : named o -> is_bytes (ser_instr (IOp o)).
Proof. destruct o; cbn; intros; try contradiction; solveb. Qed.
Lemma sb_if_none neg thn : sb thn -> is_bytes (ser_instr (IIf neg thn None)).
Proof.
  intros H. rewrite ser_if. apply Forall_cons; [destruct neg; reflexivity|].
  apply is_bytes_app_i; [exact H|]. solveb.
Qed.
Lemma sb_if_some neg thn el : sb thn -> sb el -> is_bytes (ser_instr (IIf neg thn (Some el))).
Proof.
  intros H1 H2. rewrite ser_if. apply Forall_cons; [destruct neg; reflexivity|].
  apply is_bytes_app_i; [exact H1|]. apply is_bytes_app_i; [|solveb].
  apply Forall_cons; [reflexivity|exact H2].
Qed.
Lemma sb_push d : blen d <= 75 -> is_bytes d -> is_bytes (ser_instr (IPush d)).
Proof.
  intros Hl Hd. cbn [ser_instr]. unfold ser_push. destruct (N.leb_spec (blen d) 75); [|lia].
  apply Forall_cons; [lia|exact Hd].
Qed.

Lemma bN_lt z : b0 z < 256 /\ b1 z < 256 /\ b2 z < 256 /\ b3 z < 256.
Proof.
  unfold b0, b1, b2, b3.
  pose proof (Z.mod_pos_bound z 256 ltac:(lia)). pose proof (Z.mod_pos_bound (z / 256) 256 ltac:(lia)).
  pose proof (Z.mod_pos_bound (z / 65536) 256 ltac:(lia)). pose proof (Z.mod_pos_bound (z / 16777216) 256 ltac:(lia)).
  lia.
Qed.

Lemma num_encode_bytes z : (0 <= z < 2147483648)%Z -> is_bytes (num_encode z) /\ blen (num_encode z) <= 4.
Proof.
  intros Hz. pose proof (num_encode_shape z Hz) as Hs. destruct (bN_lt z) as [A0 [A1 [A2 A3]]].
  assert (Z0 : 0 < 256) by lia.
  destruct Hs; (split; [repeat (apply Forall_cons; [assumption|]); apply Forall_nil|cbn; lia]).
Qed.

Lemma sb_push_int n : (0 <= n < 2147483648)%Z -> is_bytes (ser_instr (push_int n)).
Proof.
  intros Hn. destruct (push_int_cases n Hn) as [[-> ->]|[[Hr ->]|[Hr ->]]].
  - cbn. solveb.
  - cbn [ser_instr]. unfold ser_num. destruct (Z.eqb_spec n (-1)); [lia|]. apply Forall_cons; [lia|constructor].
  - destruct (num_encode_bytes n Hn) as [A B]. apply sb_push; [lia|exact A].
Qed.

Lemma sb_push_verify : forall s, sb s -> sb (push_verify s).
Proof.
  induction s as [|i s IH]; intros H; [cbn; unfold sb; cbn; solveb|].
  destruct s as [|j r].
  - assert (G : sb [i; IOp OP_VERIFY]).
    { apply sb_cons; [|apply sb_cons; [apply sb_op; exact I|apply sb_nil]].
      unfold sb in H. rewrite serialize_cons in H. apply is_bytes_app in H. apply H. }
    destruct i as [d|n|o|neg thn els]; try exact G.
    cbn [push_verify]. destruct (verify_form o) as [o'|] eqn:E; [|exact G].
    destruct o; try discriminate; injection E as <-; unfold sb; cbn; solveb.
  - rewrite push_verify_cons. unfold sb in *. rewrite serialize_cons in *.
    apply is_bytes_app in H. destruct H as [H1 H2]. apply is_bytes_app_i; [exact H1|apply IH, H2].
Qed.

Lemma fixed_bytes d : (blen d = 20 \/ blen d = 32 \/ blen d = 33 \/ blen d = 65) -> tokb (push_token d) ->
  is_bytes d /\ blen d <= 75.
Proof. intros [H|[H|[H|H]]]; unfold push_token; rewrite H; cbn; intros [_ Hb]; (split; [exact Hb|lia]). Qed.

Section EncBytes.
  Variable c : ctx.
  Variable ke : keyenv.
  Hypothesis Hsort : ksort_ok ke.

  Lemma key_bytes k : key_ok c ke k -> tokb (key_token (kb ke k)) -> is_bytes (ser_instr (IPush (kb ke k))).
  Proof.
    intros [Hk _] Ht. assert (Hl : blen (kb ke k) = 20 \/ blen (kb ke k) = 32 \/ blen (kb ke k) = 33 \/ blen (kb ke k) = 65).
    { destruct c; cbn in Hk; tauto. }
    destruct (fixed_bytes _ Hl Ht) as [A B]. apply sb_push; assumption.
  Qed.

  Lemma keys_bytes : forall ks, Forall (key_ok c ke) ks -> Forall tokb (map (fun key => key_token (kb ke key)) ks) ->
    sb (map (fun key => IPush (kb ke key)) ks).
  Proof.
    induction ks as [|k ks IH]; intros Hk Ht; [apply sb_nil|]. cbn [map] in *.
    apply Forall_cons_iff in Hk. apply Forall_cons_iff in Ht. destruct Hk as [K1 K2]. destruct Ht as [T1 T2].
    apply sb_cons; [apply key_bytes; assumption|apply IH; assumption].
  Qed.

  Lemma multi_a_bytes : forall ks, Forall (key_ok c ke) ks -> Forall tokb (multi_a_tokens ke ks) ->
    sb (flat_map (fun key => [IPush (kb ke key); IOp OP_CHECKSIGADD]) ks).
  Proof.
    induction ks as [|k ks IH]; intros Hk Ht; [apply sb_nil|]. cbn [flat_map multi_a_tokens app] in *.
    apply Forall_cons_iff in Hk. destruct Hk as [K1 K2].
    apply Forall_cons_iff in Ht. destruct Ht as [T1 Ht]. apply Forall_cons_iff in Ht. destruct Ht as [_ T2].
    apply sb_cons; [apply key_bytes; assumption|]. apply sb_cons; [apply sb_op; exact I|apply IH; assumption].
  Qed.

  Ltac fsplit := repeat match goal with
    | H : Forall tokb (_ ++ _) |- _ => apply Forall_app in H; destruct H
    | H : Forall tokb (_ :: _) |- _ => apply Forall_cons_iff in H; destruct H
    end.
  Ltac useIH := repeat match goal with
    | IH : ms_wf _ _ ?x -> Forall tokb (mtoks _ ?x) -> _ |- _ => specialize (IH ltac:(tauto) ltac:(assumption))
    end.
  Ltac leaf := first [ apply sb_op; exact I | apply sb_push_int; lia
                     | apply sb_if_none | apply sb_if_some ].
  Ltac sbs := repeat first [ assumption | apply sb_nil | apply sb_app | apply sb_cons | leaf ].

  Lemma multi_a_all (k : N) ks : k < 2147483648 -> Forall (key_ok c ke) ks ->
    Forall tokb (match ks with [] => [] | k0 :: rest => [key_token (kb ke k0); TkCheckSig] ++ multi_a_tokens ke rest end
                 ++ [TkNum k; TkNumEqual]) ->
    sb (match ks with [] => [] | k0 :: rest =>
          [IPush (kb ke k0); IOp OP_CHECKSIG] ++ flat_map (fun key => [IPush (kb ke key); IOp OP_CHECKSIGADD]) rest end
        ++ [push_int (Z.of_N k); IOp OP_NUMEQUAL]).
  Proof.
    intros Hk Hks Ht. apply Forall_app in Ht. destruct Ht as [T1 _].
    apply sb_app; [|sbs]. destruct ks as [|k0 rest]; [apply sb_nil|].
    apply Forall_cons_iff in Hks. destruct Hks as [K1 K2]. fsplit.
    apply sb_app; [|apply multi_a_bytes; assumption].
    apply sb_cons; [apply key_bytes; assumption|sbs].
  Qed.

  Theorem enc_bytes : forall m, ms_wf c ke m -> Forall tokb (mtoks ke m) -> sb (enc ke m).
  Proof.
    induction m using ms_ind2; intros Hwf Ht; cbn [ms_wf] in Hwf; cbn [enc mtoks] in *; unfold hash_frag, hash_tokens in *.
    - unfold sb. cbn. solveb.
    - unfold sb. cbn. solveb.
    - (* pk_k *) fsplit. apply sb_cons; [apply key_bytes; assumption|apply sb_nil].
    - (* pk_h *) fsplit. cbn [tokb] in *. sbs. apply sb_push; [lia|tauto].
    - fsplit. cbn [tokb] in *. sbs. apply sb_push; [lia|tauto].
    - sbs.
    - sbs.
    - fsplit. cbn [tokb] in *. sbs. apply sb_push; [lia|tauto].
    - fsplit. cbn [tokb] in *. sbs. apply sb_push; [lia|tauto].
    - fsplit. cbn [tokb] in *. sbs. apply sb_push; [lia|tauto].
    - fsplit. cbn [tokb] in *. sbs. apply sb_push; [lia|tauto].
    - (* alt *) fsplit. useIH. sbs.
    - fsplit. useIH. sbs.
    - fsplit. useIH. sbs.
    - fsplit. useIH. sbs.
    - (* verify *) fsplit. useIH. apply sb_push_verify. assumption.
    - fsplit. useIH. sbs.
    - fsplit. useIH. sbs.
    - (* and_v *) fsplit. useIH. sbs.
    - fsplit. useIH. sbs.
    - (* andor *) fsplit. useIH. sbs.
    - fsplit. useIH. sbs.
    - fsplit. useIH. sbs.
    - fsplit. useIH. sbs.
    - (* or_i *) fsplit. useIH. sbs.
    - (* thresh *)
      destruct Hwf as [Hk [Hk2 Hl]]. apply Forall_app in Ht. destruct Ht as [T1 _].
      apply sb_app; [|sbs]. destruct xs as [|x0 rest]; [apply sb_nil|].
      apply Forall_app in T1. destruct T1 as [T0 T1]. destruct Hl as [W0 Wl].
      apply Forall_cons_iff in H. destruct H as [I0 Il].
      apply sb_app; [apply I0; assumption|].
      clear Hk. revert Il Wl T1. clear. induction rest as [|x r IHr]; intros Il Wl T1; [apply sb_nil|].
      apply Forall_cons_iff in Il. destruct Il as [I1 I2]. destruct Wl as [W1 W2]. fsplit.
      apply sb_app; [apply I1; assumption|]. apply sb_app; [sbs|]. apply IHr; assumption.
    - (* multi *) destruct Hwf as [Hk [Hn Hks]]. fsplit.
      apply sb_app; [sbs|]. apply sb_app; [apply keys_bytes; [apply keys_ok_forall, Hks|assumption]|].
      assert (length ks <= 20)%nat by (unfold nlen in Hn; lia). sbs.
    - (* sortedmulti *) destruct Hwf as [Hk [Hn Hks]]. fsplit. pose proof (Hsort ks) as Hp.
      apply sb_app; [sbs|]. apply sb_app.
      + apply keys_bytes; [|assumption].
        apply (Permutation_Forall (Permutation_sym Hp)). apply keys_ok_forall, Hks.
      + assert (length ks <= 20)%nat by (unfold nlen in Hn; lia). sbs.
    - (* multi_a *) destruct Hwf as [Hk [Hn Hks]]. apply multi_a_all; [lia|apply keys_ok_forall, Hks|exact Ht].
    - (* sortedmulti_a *) destruct Hwf as [Hk [Hn Hks]]. pose proof (Hsort ks) as Hp.
      apply multi_a_all; [lia| |exact Ht].
      apply (Permutation_Forall (Permutation_sym Hp)). apply keys_ok_forall, Hks.
  Qed.
End EncBytes.

(* ------------------------------------------------------------------ the theorem *)
Lemma tokb_wf t : tokb t -> tok_wf t.
Proof. destruct t; cbn; tauto. Qed.

(* the token view: whatever the parser accepts, completely, is the token list of its result *)
Theorem parse_canonical e ts m : denv_ok e -> Forall tok_wf ts -> parse e ts = OOk (m, []) ->
  mtoks (d_ke e) m = ts /\ ms_wf (cx e) (d_ke e) m.
Proof.
  intros Hok Hw Hp. destruct (parse_sound e Hok ts m [] Hw Hp) as [Hts Hwf].
  cbn [rev app] in Hts. split; [symmetry; exact Hts|exact Hwf].
Qed.

Theorem decode_canonical e b m : denv_ok e -> ksort_ok (d_ke e) -> is_bytes b ->
  decode_max e b = OOk m -> encode (d_ke e) m = b.
Proof.
  intros Hok Hsort Hb H. unfold decode_max in H.
  destruct (lex b) as [ts|] eqn:El; [|discriminate].
  destruct (parse e ts) as [[m' rest]| | |] eqn:Ep; try discriminate.
  destruct (gv _ _ m'); [discriminate|]. destruct (type_of m'); try discriminate.
  destruct rest; [|discriminate]. injection H as <-.
  destruct (lex_canonical b ts Hb El) as [Hu Htb].
  assert (Htw : Forall tok_wf ts) by (apply (Forall_impl _ tokb_wf Htb)).
  destruct (parse_canonical e ts m' Hok Htw Ep) as [Hts Hwf].
  pose proof (lex_enc (cx e) (d_ke e) Hsort m' Hwf) as Le. rewrite Hts in Le.
  assert (He : is_bytes (encode (d_ke e) m')).
  { apply (enc_bytes (cx e) (d_ke e) Hsort m' Hwf). rewrite Hts. exact Htb. }
  apply (lex_injective _ _ ts He Hb Le El).
Qed.

(* script_size looks at the context only through pk_len, which is the same function in the three
   non-Tap contexts (since /repo 8a94baa9) *)
Lemma pk_len_cx c ke k : pk_len c ke k = pk_len (if is_tap c then Tap else Bare) ke k.
Proof. destruct c; reflexivity. Qed.

Lemma script_size_cx c ke : forall m, script_size c ke m = script_size (if is_tap c then Tap else Bare) ke m.
Proof.
  assert (Hmap : forall ks, map (pk_len c ke) ks = map (pk_len (if is_tap c then Tap else Bare) ke) ks).
  { intros ks. apply map_ext. intros k. apply pk_len_cx. }
  induction m using ms_ind2; cbn [script_size];
    try reflexivity; try (rewrite ?IHm, ?IHm1, ?IHm2, ?IHm3; reflexivity);
    try (rewrite Hmap; reflexivity).
  - apply pk_len_cx.
  - f_equal. induction H as [|x l Hx _ IHl]; [reflexivity|]. rewrite Hx, IHl. reflexivity.
Qed.

(* consequences: an accepted script has exactly the size the library computes for the result, in
   the decoder's own context, and decoding is injective on accepted scripts *)
Corollary decode_size e b m : denv_ok e -> ksort_ok (d_ke e) -> is_bytes b ->
  decode_max e b = OOk m -> script_size (d_ctx e) (d_ke e) m = blen b.
Proof.
  intros Hok Hsort Hb H. pose proof (decode_canonical e b m Hok Hsort Hb H) as Hc.
  unfold decode_max in H.
  destruct (lex b) as [ts|] eqn:El; [|discriminate].
  destruct (parse e ts) as [[m' rest]| | |] eqn:Ep; try discriminate.
  destruct (gv _ _ m'); [discriminate|]. destruct (type_of m'); try discriminate.
  destruct rest; [|discriminate]. injection H as <-.
  destruct (lex_canonical b ts Hb El) as [Hu Htb].
  assert (Htw : Forall tok_wf ts) by (apply (Forall_impl _ tokb_wf Htb)).
  destruct (parse_canonical e ts m' Hok Htw Ep) as [Hts Hwf].
  rewrite <- Hc. rewrite script_size_cx. symmetry. apply (script_size_ok (cx e) (d_ke e) Hsort m' Hwf).
Qed.

Corollary decode_injective e b1 b2 m : denv_ok e -> ksort_ok (d_ke e) -> is_bytes b1 -> is_bytes b2 ->
  decode_max e b1 = OOk m -> decode_max e b2 = OOk m -> b1 = b2.
Proof.
  intros Hok Hs H1 H2 D1 D2.
  rewrite <- (decode_canonical e b1 m Hok Hs H1 D1). apply (decode_canonical e b2 m Hok Hs H2 D2).
Qed.

(* the hypotheses are satisfiable: the witness environment of DecodeRefute *)
From Verif Require Import DecodeRefute.
Lemma wit_denv_ok : denv_ok wit_env /\ ksort_ok (d_ke wit_env) /\ is_bytes (encode wit_ke wit_ms) /\
  decode_max wit_env (encode wit_ke wit_ms) = OOk wit_ms.
Proof.
  split; [|split; [intros ks; apply Permutation_refl|split; [|exact wit_canonical_also]]].
  - constructor.
    + intros pk k. cbn [wit_env d_key d_ke].
      destruct (bytes_eqb pk wkA) eqn:EA; [intros H; injection H as <-; symmetry; apply (bytes_eqb_eq _ _ EA)|].
      destruct (bytes_eqb pk wkB) eqn:EB; [intros H; injection H as <-; symmetry; apply (bytes_eqb_eq _ _ EB)|discriminate].
    + intros pk k. cbn [wit_env d_key d_ctx is_tap].
      destruct (bytes_eqb pk wkA) eqn:EA; [intros _; rewrite (bytes_eqb_eq _ _ EA); reflexivity|].
      destruct (bytes_eqb pk wkB) eqn:EB; [intros _; rewrite (bytes_eqb_eq _ _ EB); reflexivity|discriminate].
    + intros k. reflexivity.
  - vm_compute. repeat (apply Forall_cons; [reflexivity|]). apply Forall_nil.
Qed.
