(* C12: the programmatic constructors establish the same rules as the parsed descriptors. *)
From Coq Require Import List NArith Bool Lia.
Import ListNotations.
From Verif Require Import ValidateModel ValidateSpec ValidateEntry ValidateCtorModel.
Local Open Scope N_scope.

(* what a `Threshold<Pk, 20>` handed to new_sortedmulti is, as an expression: one node, ranges already
   enforced by the Threshold type, no locks *)
Definition leaf_expr (x : expr) : Prop :=
  x_syntax_ok x = true /\ thresholds_ok x = true /\ locks_ok x = true /\
  exists n, s_nodes (x_sum x) = [n].

Lemma from_ast_leaf c x : leaf_expr x -> ms_from_ast c x = from_tree c x.
Proof.
  intros [S [T [L [n E]]]]. unfold ms_from_ast, from_tree. rewrite S, T, L, E. simpl.
  destruct (x_typed x); simpl; [|reflexivity].
  destruct (MAX_RECURSION_DEPTH <? s_tree_height (x_sum x)); [reflexivity|].
  destruct (check_global_validity c n); reflexivity.
Qed.

Theorem new_sortedmulti_is_wrapper c x : leaf_expr x ->
  new_sortedmulti c x = wrapper_from_tree c x.
Proof. intros L. unfold new_sortedmulti, wrapper_from_tree. rewrite (from_ast_leaf c x L). reflexivity. Qed.

(* constructor returns Ok => the predicate established for parsed wsh()/sh() descriptors *)
Theorem new_sortedmulti_accepted_ok c x : leaf_expr x -> new_sortedmulti c x = EOk ->
  obeys_parse c x /\ s_base (x_sum x) = BB /\
  (forall k, In k (all_keys (s_nodes (x_sum x))) -> key_legal c k) /\
  ~ multipath_mismatch (all_keys (s_nodes (x_sum x))) /\
  (c = CBare -> bare_shape (x_sum x)).
Proof.
  intros L H. apply accepted_ok_wrappers_partial. rewrite <- (new_sortedmulti_is_wrapper c x L). exact H.
Qed.

Theorem key_ctor_exact c k : key_ctor c k = EOk <-> key_legal c k.
Proof.
  unfold key_ctor. rewrite <- check_pk_legal. destruct (check_pk c k); split; intros; congruence.
Qed.

(* ---- the witnesses of the pre-fix defect --------------------------------------------------- *)
Definition key_cn (i : N) : keyinfo := mkKey i false false 1.
Definition key_u1 : keyinfo := mkKey 1 true false 1.
(* wsh(sortedmulti(1,Ku,Kc)): 51 41<65> 21<33> 52 ae = 104 bytes *)
Definition x_sm_unc : expr :=
  mkExpr true [(20, 1, 2)] [] [] true
    (mkSum BB true true 1 false [mkNode KSortedMulti [key_u1; key_cn 2] 104] 104 (Some (mkSat 2 1 2))).
(* sh(sortedmulti(1,K1..K16)): 51 16x(21<33>) 60 ae = 547 bytes > 520 *)
Definition x_sm_16 : expr :=
  mkExpr true [(20, 1, 16)] [] [] true
    (mkSum BB true true 1 false
       [mkNode KSortedMulti (map key_cn [1;2;3;4;5;6;7;8;9;10;11;12;13;14;15;16]) 547] 547
       (Some (mkSat 2 1 2))).
Definition x_sm_ok : expr :=
  mkExpr true [(20, 2, 3)] [] [] true
    (mkSum BB true true 1 false [mkNode KSortedMulti (map key_cn [1;2;3]) 105] 105 (Some (mkSat 3 1 3))).

Lemma leaf_unc : leaf_expr x_sm_unc.
Proof. repeat split; try reflexivity. eexists; reflexivity. Qed.
Lemma leaf_16 : leaf_expr x_sm_16.
Proof. repeat split; try reflexivity. eexists; reflexivity. Qed.
Lemma leaf_ok : leaf_expr x_sm_ok.
Proof. repeat split; try reflexivity. eexists; reflexivity. Qed.

(* about the PRE-FIX constructors: they accepted both witnesses; the repaired ones refuse them *)
Lemma new_sortedmulti_prefix_refuted :
  (leaf_expr x_sm_unc /\ new_sortedmulti_prefix CSegwitv0 x_sm_unc = EOk /\
   ~ (forall k, In k (all_keys (s_nodes (x_sum x_sm_unc))) -> key_legal CSegwitv0 k) /\
   new_sortedmulti CSegwitv0 x_sm_unc = EErr (EpParse (PCtx CeUncompressed))) /\
  (leaf_expr x_sm_16 /\ new_sortedmulti_prefix CLegacy x_sm_16 = EOk /\
   ~ obeys_parse CLegacy x_sm_16 /\
   new_sortedmulti CLegacy x_sm_16 = EErr (EpParse (PCtx CeScriptSize))).
Proof.
  split.
  - split; [exact leaf_unc|]. split; [reflexivity|]. split.
    + intros H. specialize (H key_u1 (or_introl eq_refl)). destruct H as [H _]. discriminate H.
    + vm_compute. reflexivity.
  - split; [exact leaf_16|]. split; [reflexivity|]. split.
    + intros H. pose proof (op_cost _ _ H _ (or_introl eq_refl)) as C. vm_compute in C. apply C. reflexivity.
    + vm_compute. reflexivity.
Qed.

Lemma ctor_nonvacuous :
  leaf_expr x_sm_ok /\ new_sortedmulti CSegwitv0 x_sm_ok = EOk /\ new_sortedmulti CLegacy x_sm_ok = EOk /\
  pkh_new (key_cn 1) = EOk /\ wpkh_new key_u1 = EErr (EpParse (PCtx CeUncompressed)).
Proof. split; [exact leaf_ok|]. repeat split; vm_compute; reflexivity. Qed.
