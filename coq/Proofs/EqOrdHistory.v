(* C19 — HISTORICAL: the model of `impl PartialEq / Ord for Terminal` as it was BEFORE /repo commit 32d9f676
   ("fix: Terminal equality and ordering compare the arity and k of n-ary fragments"), and the witnesses with
   which the first version of this check refuted eq_structural / cmp_total_order / the Hash-Eq contract for that
   code (known_findings.txt: `fixed: property=C19 32d9f676 ...`).  Nothing here is about the code that exists;
   Properties/C19.v does not use this file.  The same inputs are regression witnesses for the current model
   (EqOrdProofs.eq_regression_witnesses, EqOrdCmpProofs.cmp_regression_witnesses). *)
From Verif Require Import EqOrdModel EqOrdProofs EqOrdCmpProofs.

(* Thresh/Thresh fell into the discriminant-only arm *)
Definition eq_pair_old (me you : node) : bool :=
  match n_tag me, n_tag you with
  | TThresh, TThresh => true
  | _, _ => eq_pair me you
  end.
Definition eq_iter_old (a b : ms) : bool :=
  forallb (fun p => eq_pair_old (fst p) (snd p)) (combine (preorder a) (preorder b)).

(* two Nodes were compared by fragment name only *)
Definition dnode_cmp_old (kcmp : key -> key -> comparison) (me you : dnode) : option comparison :=
  match me, you with
  | DNode f _, DNode g _ => Some (fname_cmp f g)
  | _, _ => dnode_cmp kcmp me you
  end.
Definition cmp_iter_old (kcmp : key -> key -> comparison) (a b : ms) : outcome comparison :=
  match fname_cmp (frag_name a) (frag_name b) with
  | Eq => zip_cmp (dnode_cmp_old kcmp) (dnodes a) (dnodes b)
  | c => Ok c
  end.

Local Open Scope N_scope.

Lemma old_eq_structural_refuted_k : exists a b, eq_iter_old a b = true /\ a <> b.
Proof. exists (MThresh 1 [w_pk 0; w_spk 1]), (MThresh 2 [w_pk 0; w_spk 1]). split; [vm_compute; reflexivity | discriminate]. Qed.

Lemma old_eq_structural_refuted_arity : exists a b, eq_iter_old a b = true /\ a <> b.
Proof. exists (MThresh 1 [w_pk 0; w_spk 1]), (MThresh 1 [w_pk 0; w_spk 1; w_spk 2]). split; [vm_compute; reflexivity | discriminate]. Qed.

Lemma old_eq_structural_refuted_regroup :
  exists a b, eq_iter_old a b = true /\ a <> b /\ length (preorder a) = length (preorder b).
Proof.
  exists (MThresh 2 [MThresh 1 [w_pk 0; w_spk 1]; w_spk 2; w_spk 3]), (MThresh 2 [MThresh 1 [w_pk 0; w_spk 1; w_spk 2]; w_spk 3]).
  split; [vm_compute; reflexivity | split; [discriminate | reflexivity]].
Qed.

Lemma old_eq_not_transitive : exists a b c, eq_iter_old b a = true /\ eq_iter_old a c = true /\ eq_iter_old b c = false.
Proof.
  exists (MThresh 1 [w_pk 0; w_spk 1]), (MThresh 1 [w_pk 0; w_spk 1; w_spk 2]), (MThresh 1 [w_pk 0; w_spk 1; w_spk 3]).
  repeat split; vm_compute; reflexivity.
Qed.

Lemma old_hash_eq_contract_refuted : exists a b, eq_iter_old a b = true /\ hash_iter a <> hash_iter b.
Proof. exists (MThresh 1 [w_pk 0; w_spk 1]), (MThresh 2 [w_pk 0; w_spk 1]). split; [vm_compute; reflexivity | discriminate]. Qed.

Lemma old_cmp_panics : exists a b, cmp_iter_old N.compare a b = Panic 356.
Proof. exists (MOrB (MMulti 1 [0; 1]) (w_spk 2)), (MOrB (MMulti 1 [0; 1; 2]) (w_spk 0)). vm_compute. reflexivity. Qed.

Lemma old_cmp_eq_refuted : exists a b, cmp_iter_old N.compare a b = Ok Eq /\ a <> b.
Proof. exists (MMulti 1 [0; 1]), (MMulti 1 [0; 1; 2]). split; [vm_compute; reflexivity | discriminate]. Qed.

Lemma old_cmp_eq_disagree : exists a b, eq_iter_old a b = true /\ cmp_iter_old N.compare a b = Ok Lt.
Proof. exists (MThresh 1 [w_pk 0; w_spk 1]), (MThresh 2 [w_pk 0; w_spk 1]). split; vm_compute; reflexivity. Qed.

Lemma old_cmp_not_transitive : exists a b c,
  cmp_iter_old N.compare a b = Ok Eq /\ cmp_iter_old N.compare b c = Ok Lt /\ cmp_iter_old N.compare a c = Ok Eq.
Proof. exists (MMulti 1 [0; 1]), (MMulti 1 [0; 1; 2]), (MMulti 1 [0; 1; 3]). repeat split; vm_compute; reflexivity. Qed.
