(* C14: the hypotheses used by the theorems are satisfiable (non-vacuity), and a concrete
   history showing what finalize_mut does when one input fails and another succeeds. *)
From Coq Require Import List Bool NArith Arith Lia Permutation.
Import ListNotations.
From Verif Require Import PsbtModel PsbtLemmas PsbtReach PsbtAtomic PsbtIdem PsbtValid PsbtOrder PsbtUpdate.

Definition blank : pinput :=
  mkIn None (Some (mkTxOut 1%N 1%N)) [] None None None [] None None [] [] [] [] None [] [] [] None None [] [].

(* an oracle that finalizes exactly the inputs carrying a partial signature *)
Definition ex_try (st : psbt) (i : nat) (m : bool) : tryres :=
  match nth_error (p_inputs st) i with
  | Some a => match i_psigs a with [] => TErr i 10%N | _ => TOk 5%N 6%N end
  | None => TErr i 11%N
  end.

Definition ex_interp (st : psbt) : option (nat * N) := None.
Definition ex_desc (d : N) : dinfo := mkD false true 7%N (Some 8%N) None [(1%N, 2%N)] 0%N None [] [].
Definition ex_flag (s : N) : option N := Some 1%N.
Definition ex_mall (b : bool) : bool := false.

Lemma ex_try_nonempty : try_nonempty ex_try.
Proof.
  intros st i m s w H. unfold ex_try in H. destruct (nth_error (p_inputs st) i); [|discriminate].
  destruct (i_psigs p); inversion H; subst. left. discriminate.
Qed.

Lemma ex_try_stable : try_stable ex_try.
Proof. intros st st' i m k e _ E H. unfold ex_try in *. now rewrite E. Qed.

Lemma ex_try_sound : try_sound ex_try (fun _ _ _ s w => s = Some 5%N /\ w = Some 6%N).
Proof.
  intros st i m s w H. unfold ex_try in H. destruct (nth_error (p_inputs st) i); [|discriminate].
  destruct (i_psigs p); inversion H; subst. split; reflexivity.
Qed.

Lemma hyps_satisfiable :
  exists try_input spends,
    try_nonempty try_input /\ try_stable try_input /\ try_sound try_input spends /\
    (exists st i m s w, try_input st i m = TOk s w) /\ (exists st i m k e, try_input st i m = TErr k e).
Proof.
  exists ex_try, (fun _ _ _ s w => s = Some 5%N /\ w = Some 6%N).
  split; [exact ex_try_nonempty|]. split; [exact ex_try_stable|]. split; [exact ex_try_sound|]. split.
  - exists (mkPsbt 1%N 1 [set_psigs blank [(1%N, 1%N)]]), 0, false, 5%N, 6%N. reflexivity.
  - exists (mkPsbt 1%N 1 [blank]), 0, false, 0, 10%N. reflexivity.
Qed.

Definition ex_step := step ex_try ex_interp ex_desc ex_flag ex_flag ex_mall.
Definition ex_run := run ex_try ex_interp ex_desc ex_flag ex_flag ex_mall.

(* finalize_mut with input 0 signed and input 1 unsigned: the call returns an error for
   input 1, input 1 is untouched, input 0 has been finalized all the same. *)
Lemma finalize_partial_progress :
  let st := mkPsbt 1%N 2 [set_psigs blank [(1%N, 1%N)]; blank] in
  let '(st', r) := ex_step st (Finalize false) in
  r = RFinErrs [(1, 10%N)] /\
  nth_error (p_inputs st') 1 = nth_error (p_inputs st) 1 /\
  nth_error (p_inputs st') 0 = Some (cleared (set_psigs blank [(1%N, 1%N)]) 5%N 6%N) /\
  st' <> st.
Proof. vm_compute. repeat split; try reflexivity. discriminate. Qed.

(* psbt::finalize (finalize_helper) on the mirrored PSBT stops at input 0 and never tries input 1 *)
Lemma finalize_old_stops_at_first_failure :
  let st := mkPsbt 1%N 2 [blank; set_psigs blank [(1%N, 1%N)]] in
  ex_step st (FinalizeOld false) = (st, RInputErr 0 10%N).
Proof. vm_compute. reflexivity. Qed.

(* a whole history: sign, fail, sign, finalize, finalize again, extract *)
Lemma history_example :
  let st := mkPsbt 1%N 2 [blank; blank] in
  let ops := [AddSig 0 3%N 4%N; Finalize false; AddSig 1 5%N 6%N; FinalizeInp 1 false;
              Finalize false; Finalize true; Extract] in
  map fst (trace ex_try ex_interp ex_desc ex_flag ex_flag ex_mall ops st) =
  [ROk; RFinErrs [(1, 10%N)]; ROk; ROk; ROk; ROk;
   RExtracted [(Some 5%N, Some 6%N); (Some 5%N, Some 6%N)]].
Proof. vm_compute. reflexivity. Qed.

(* order independence is not vacuous: four writes on two inputs, reversed *)
Lemma order_example :
  let l1 := [AddSig 0 3%N 4%N; AddSig 0 1%N 2%N; AddPreimage 0 HSha256 9%N 8%N; Update 1 0%N] in
  Permutation l1 (rev l1) /\ ForallOrdPairs compat l1 /\
  forall st, ex_run l1 st = ex_run (rev l1) st.
Proof.
  intros l1. assert (P : Permutation l1 (rev l1)) by apply Permutation_rev.
  assert (F : ForallOrdPairs compat l1).
  { unfold l1.
    repeat (apply FOP_cons || apply FOP_nil || apply Forall_cons || apply Forall_nil);
      unfold compat; simpl;
      try (right; left; discriminate); try (right; right; discriminate); try (left; discriminate). }
  split; auto. split; auto. intros st. apply order_indep; auto.
Qed.

(* insertion in either order gives the same canonical map *)
Lemma order_maps_example :
  ins 3%N 4%N (ins 1%N 2%N (ins 7%N 7%N [])) = ins 7%N 7%N (ins 3%N 4%N (ins 1%N 2%N [])).
Proof. reflexivity. Qed.

Lemma desc_wf_example :
  desc_wf (fun ws => ws - 1)%N (fun rs => rs) (fun _ _ => 0%N) (fun _ _ _ => True) (ex_desc 0%N).
Proof. unfold desc_wf, ex_desc; simpl. repeat split; try constructor. Qed.

Lemma update_example :
  let a := mkIn None (Some (mkTxOut 1%N 7%N)) [] None None None [] None None [] [] [] [] None [] [] [] None None [] [] in
  let st := mkPsbt 1%N 1 [a] in
  update_input ex_desc st 0 0%N = (with_inputs st [apply_update a (ex_desc 0%N)], ROk) /\
  i_witscript (apply_update a (ex_desc 0%N)) = Some 8%N /\
  (* a witness_utxo next to the genuine previous transaction, right script, WRONG amount *)
  update_input ex_desc (mkPsbt 1%N 1 [mkIn (Some (mkNw 9%N true (Some (mkTxOut 2%N 7%N)))) (Some (mkTxOut 1%N 7%N))
                                        [] None None None [] None None [] [] [] [] None [] [] [] None None [] []]) 0 0%N
    = (mkPsbt 1%N 1 [mkIn (Some (mkNw 9%N true (Some (mkTxOut 2%N 7%N)))) (Some (mkTxOut 1%N 7%N))
                       [] None None None [] None None [] [] [] [] None [] [] [] None None [] []], RUpd u_utxocheck).
Proof. vm_compute. repeat split. Qed.

(* get_utxo: the previous transaction, when present, decides; a witness_utxo next to a
   non_witness_utxo of ANOTHER transaction (or an outpoint beyond its outputs) gives nothing *)
Lemma get_utxo_example :
  let w := mkTxOut 1%N 7%N in
  let mk nw wu := mkIn nw wu [] None None None [] None None [] [] [] [] None [] [] [] None None [] [] in
  get_utxo (mk None (Some w)) = Some w /\
  get_utxo (mk (Some (mkNw 9%N true (Some (mkTxOut 2%N 7%N)))) (Some w)) = Some (mkTxOut 2%N 7%N) /\
  get_utxo (mk (Some (mkNw 9%N false (Some w))) (Some w)) = None /\
  get_utxo (mk (Some (mkNw 9%N true None)) (Some w)) = None /\
  get_utxo (mk None None) = None.
Proof. repeat split. Qed.

(* ... and such an input is refused with MissingUtxo, untouched, even when try_input would succeed *)
Lemma bad_utxo_example :
  let a := mkIn (Some (mkNw 9%N false (Some (mkTxOut 1%N 7%N)))) (Some (mkTxOut 1%N 7%N))
                [(1%N, 1%N)] None None None [] None None [] [] [] [] None [] [] [] None None [] [] in
  let st := mkPsbt 1%N 1 [a] in
  ex_try st 0 false = TOk 5%N 6%N /\
  ex_step st (FinalizeInp 0 false) = (st, RInputErr 0 e_missing_utxo) /\
  ex_step st (Finalize false) = (st, RFinErrs [(0, e_missing_utxo)]).
Proof. vm_compute. repeat split. Qed.

(* two descriptors of the same output (script 7) that state different origins for key 1, a
   taproot pair likewise: whichever update comes LAST decides every recorded origin
   (BTreeMap::insert overwrites), also over a stale record left by somebody else *)
Definition ex_desc2 (d : N) : dinfo :=
  match d with
  | 0%N => mkD false true 7%N (Some 8%N) None [(1%N, 2%N)] 0%N None [] []
  | 1%N => mkD false true 7%N (Some 8%N) None [(1%N, 3%N)] 0%N None [] []
  | 2%N => mkD true true 7%N None None [] 4%N (Some 5%N) [(6%N, 6%N)] [(1%N, 20%N); (4%N, 21%N)]
  | _ => mkD true true 7%N None None [] 4%N (Some 5%N) [(6%N, 6%N)] [(1%N, 30%N); (4%N, 31%N)]
  end.

Lemma update_twice_example :
  let a := mkIn None (Some (mkTxOut 1%N 7%N)) [] None None None [] None None [] [] [] [] None [] [] [] None None [] [] in
  let st := mkPsbt 1%N 1 [a] in
  let r := run ex_try ex_interp ex_desc2 ex_flag ex_flag ex_mall in
  map i_bip32 (p_inputs (r [Update 0 0%N; Update 0 1%N] st)) = [[(1%N, 3%N)]] /\
  map i_bip32 (p_inputs (r [Update 0 1%N; Update 0 0%N] st)) = [[(1%N, 2%N)]] /\
  map i_taporigins (p_inputs (r [Update 0 2%N; Update 0 3%N] st)) = [[(1%N, 30%N); (4%N, 31%N)]] /\
  map i_taporigins (p_inputs (r [Update 0 3%N; Update 0 2%N] st)) = [[(1%N, 20%N); (4%N, 21%N)]] /\
  map i_taporigins (p_inputs (r [AddTapOrigin 0 1%N 99%N; Update 0 2%N] st)) = [[(1%N, 20%N); (4%N, 21%N)]].
Proof. vm_compute. repeat split. Qed.
