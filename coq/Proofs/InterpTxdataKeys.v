(* C13: the model of `from_txdata` against Script/Spend.v for the key-only output types
   (p2wpkh, sh-wpkh, p2pkh, p2pk, taproot key path). *)
From Verif Require Import InterpTxdataModel InterpTxdataProofs InterpTxdataAll.
From Coq Require Import Lia.
Local Open Scope N_scope.

Lemma pk_from_elem_inr : forall fe x c k, pk_from_elem fe x c = inr k -> x = EPush k.
Proof.
  intros fe x c k H. destruct x as [| |b]; cbn in H; try discriminate.
  destruct (pk_from_slice fe b c); [discriminate|]. injection H as <-. reflexivity.
Qed.

(* ------------------------------------------------------------------ shapes *)
Lemma p2wpkh_shape : forall spk h, spk_is_p2wpkh spk = Some h -> spk = 0 :: 20 :: h.
Proof.
  intros spk h W. unfold spk_is_p2wpkh in W.
  destruct spk as [|a [|b0 p]]; [discriminate|destruct a; discriminate|].
  destruct a; [|discriminate]. destruct b0 as [|q]; [discriminate|].
  do 5 (destruct q as [q|q|]; try discriminate).
  destruct (N.eqb (blen p) 20); [|discriminate]. injection W as <-. reflexivity.
Qed.

Lemma p2pkh_others : forall spk h,
    spk_is_p2pkh spk = Some h ->
    spk_is_p2wpkh spk = None /\ spk_is_p2wsh spk = None /\ spk_is_p2tr spk = None /\ spk_is_p2sh spk = None.
Proof.
  intros spk h H. unfold spk_is_p2pkh in H.
  destruct spk as [|a rest]; [discriminate|].
  destruct a as [|q]; [discriminate|]. do 7 (destruct q as [q|q|]; try discriminate).
  destruct rest as [|b0 rest]; [discriminate|]. repeat split; reflexivity.
Qed.

Lemma p2pk_others : forall spk k,
    spk_is_p2pk spk = Some k ->
    spk_is_p2wpkh spk = None /\ spk_is_p2wsh spk = None /\ spk_is_p2tr spk = None /\ spk_is_p2sh spk = None.
Proof.
  intros spk k H. unfold spk_is_p2pk in H.
  destruct spk as [|a rest]; [discriminate|].
  destruct a as [|q]; [discriminate|].
  repeat (match goal with q : positive |- _ => destruct q; try discriminate end).
  all: (destruct rest as [|b0 rest]; [discriminate|]; repeat split; reflexivity).
Qed.

(* ------------------------------------------------------------------ inversion of the model, key kinds *)
Lemma ftx_inv_trkey : forall e fe spk ssig wit k st code,
    from_txdata e fe spk ssig wit = FOk (InPk k PtTr) st code ->
    exists el, spk_is_p2wsh spk = None /\ spk_is_p2wpkh spk = None /\ spk_is_p2tr spk = Some k /\
               ssig_stack_of ssig = Some [] /\ rev (map elem_of wit) = [el] /\ st = [el] /\ code = None.
Proof.
  intros. unfold from_txdata in H. ftx_inv; ftx_close; eexists; repeat split; try eassumption; try reflexivity.
Qed.

Lemma ftx_inv_wpkh : forall e fe spk ssig wit k st code,
    from_txdata e fe spk ssig wit = FOk (InPk k PtWpkh) st code ->
    exists h el, spk_is_p2wpkh spk = Some h /\ ssig_stack_of ssig = Some [] /\
                 rev (map elem_of wit) = el :: st /\ pk_from_elem fe el true = inr k /\
                 bytes_eqb spk (p2wpkh_bytes (e_hash160 e k)) = true /\ code = Some (p2pkh_bytes (e_hash160 e k)).
Proof.
  intros. unfold from_txdata in H. ftx_inv; ftx_close; do 2 eexists; repeat split; try eassumption; try reflexivity.
Qed.

Lemma ftx_inv_shwpkh : forall e fe spk ssig wit k st code,
    from_txdata e fe spk ssig wit = FOk (InPk k PtShWpkh) st code ->
    exists h rb kh el,
      spk_is_p2wsh spk = None /\ spk_is_p2wpkh spk = None /\ spk_is_p2sh spk = Some h /\
      ssig_stack_of ssig = Some [EPush rb] /\ bytes_eqb spk (p2sh_bytes (e_hash160 e rb)) = true /\
      spk_is_p2wpkh rb = Some kh /\ rev (map elem_of wit) = el :: st /\ pk_from_elem fe el true = inr k /\
      bytes_eqb rb (p2wpkh_bytes (e_hash160 e k)) = true /\ code = Some (p2pkh_bytes (e_hash160 e k)).
Proof.
  intros. unfold from_txdata in H. ftx_inv; ftx_close; do 4 eexists; repeat split; try eassumption; try reflexivity.
Qed.

Lemma ftx_inv_pkh : forall e fe spk ssig wit k st code,
    from_txdata e fe spk ssig wit = FOk (InPk k PtPkh) st code ->
    exists h el, spk_is_p2pkh spk = Some h /\ rev (map elem_of wit) = [] /\ ssig_stack_of ssig = Some (el :: st) /\
                 pk_from_elem fe el false = inr k /\ bytes_eqb spk (p2pkh_bytes (e_hash160 e k)) = true /\
                 code = Some spk.
Proof.
  intros. unfold from_txdata in H. ftx_inv; ftx_close; do 2 eexists; repeat split; try eassumption; try reflexivity.
Qed.

Lemma ftx_inv_pk : forall e fe spk ssig wit k st code,
    from_txdata e fe spk ssig wit = FOk (InPk k PtPk) st code ->
    spk_is_p2pk spk = Some k /\ rev (map elem_of wit) = [] /\ ssig_stack_of ssig = Some st /\ code = Some spk.
Proof.
  intros. unfold from_txdata in H. ftx_inv; ftx_close; repeat split; try eassumption; try reflexivity.
Qed.

(* ------------------------------------------------------------------ (a) soundness, key kinds *)

(* taproot key path: the specification is the signature check of the single witness item under the output key *)
Lemma from_txdata_sound_trkey : forall e fe co spk ssig wit k st code,
    from_txdata e fe spk ssig wit = FOk (InPk k PtTr) st code ->
    code = None /\ exists sg, wit = [sg] /\ st = [elem_of sg] /\ verify_spend e co spk ssig wit = e_sigok e k sg.
Proof.
  intros e fe co spk ssig wit k st code H.
  destruct (ftx_inv_trkey _ _ _ _ _ _ _ _ H) as (el & W & WP & TR & SS & WS & -> & ->). split; [reflexivity|].
  destruct (p2tr_others _ _ TR) as (_ & _ & _ & _ & SH).
  pose proof (wit_split _ _ _ WS) as RW. cbn [map] in RW.
  assert (wit = [conc el]) as ->. { rewrite <- (rev_involutive wit), RW. reflexivity. }
  exists (conc el). split; [reflexivity|]. split.
  - cbn in WS. injection WS as <-. rewrite conc_elem_of. reflexivity.
  - unfold verify_spend. rewrite W, WP, SH, TR. unfold verify_tr. apply ssig_stack_nil in SS. subst ssig. reflexivity.
Qed.

(* P2WPKH / P2SH-P2WPKH: the specification runs the P2PKH script of the key hash (= the script code the model
   returns) on [key; signature] under the witness-v0 rules, and wants exactly one item besides the key *)
Definition wpkh_body (e : env) (k : bytes) (stk : list bytes) : bool :=
  match stk with
  | [sg] => N.eqb (blen k) 33 &&
            final_ok (exec (with_sv e SvWitnessV0)
                           [IOp OP_DUP; IOp OP_HASH160; IPush (e_hash160 e k); IOp OP_EQUALVERIFY; IOp OP_CHECKSIG]
                           (mkSt [k; sg] []))
  | _ => false
  end.

Lemma verify_wpkh_body : forall e k items,
    verify_wpkh e (e_hash160 e k) (rev (k :: items)) = wpkh_body e k items.
Proof.
  intros e k items. unfold verify_wpkh, wpkh_body. cbn [rev].
  destruct items as [|sg [|y r]]; cbn [rev app]; try reflexivity.
  destruct (rev r ++ [y]) as [|a [|b l]] eqn:E; cbn [app]; try reflexivity.
  - destruct (rev r); discriminate.
  - destruct l; reflexivity.
Qed.

Lemma from_txdata_sound_wpkh : forall e fe co spk ssig wit k st code,
    from_txdata e fe spk ssig wit = FOk (InPk k PtWpkh) st code ->
    code = Some (p2pkh_bytes (e_hash160 e k)) /\ rev wit = k :: map conc st /\
    verify_spend e co spk ssig wit = wpkh_body e k (map conc st).
Proof.
  intros e fe co spk ssig wit k st code H.
  destruct (ftx_inv_wpkh _ _ _ _ _ _ _ _ H) as (h & el & WP & SS & WS & PK & HB & ->). split; [reflexivity|].
  apply pk_from_elem_inr in PK. subst el. pose proof (wit_split _ _ _ WS) as RW. cbn [conc] in RW.
  split; [exact RW|].
  pose proof (p2wpkh_shape _ _ WP) as SHP. assert (W : spk_is_p2wsh spk = None) by (rewrite SHP; reflexivity).
  unfold verify_spend. rewrite W, WP. apply ssig_stack_nil in SS. subst ssig.
  apply ftx_bytes_eqb_eq in HB. rewrite HB in SHP. unfold p2wpkh_bytes in SHP. injection SHP as <-.
  rewrite <- (rev_involutive wit), RW. apply verify_wpkh_body.
Qed.

Lemma from_txdata_sound_shwpkh : forall e fe co spk ssig wit k st code,
    from_txdata e fe spk ssig wit = FOk (InPk k PtShWpkh) st code ->
    code = Some (p2pkh_bytes (e_hash160 e k)) /\ rev wit = k :: map conc st /\
    verify_spend e co spk ssig wit = (N.leb (blen ssig) 1650 && wpkh_body e k (map conc st)).
Proof.
  intros e fe co spk ssig wit k st code H.
  destruct (ftx_inv_shwpkh _ _ _ _ _ _ _ _ H) as (h & rb & kh & el & W & WP & SH & SS & HB & RWP & WS & PK & HK & ->).
  split; [reflexivity|].
  apply pk_from_elem_inr in PK. subst el. pose proof (wit_split _ _ _ WS) as RW. cbn [conc] in RW.
  split; [exact RW|].
  unfold verify_spend. rewrite W, WP, SH. unfold verify_sh.
  destruct (ssig_bridge _ _ SS) as (ss & -> & ->). cbn [map conc].
  apply ftx_bytes_eqb_eq in HB. subst spk. apply p2sh_hash in SH. subst h. rewrite ftx_bytes_eqb_refl.
  pose proof (p2wpkh_shape _ _ RWP) as SHP. assert (RW2 : spk_is_p2wsh rb = None) by (rewrite SHP; reflexivity).
  rewrite RW2, RWP.
  apply ftx_bytes_eqb_eq in HK. rewrite HK in SHP. unfold p2wpkh_bytes in SHP. injection SHP as <-.
  assert (N.leb (blen rb) 520 = true) as ->.
  { rewrite HK. unfold p2wpkh_bytes. unfold spk_is_p2wpkh in RWP. rewrite HK in RWP. unfold p2wpkh_bytes in RWP.
    destruct (N.eqb (blen (e_hash160 e k)) 20) eqn:L; [|discriminate]. apply N.eqb_eq in L. apply N.leb_le.
    unfold blen in *. cbn [length]. lia. }
  cbn [andb]. rewrite <- (rev_involutive wit), RW. rewrite verify_wpkh_body. reflexivity.
Qed.

(* P2PKH / P2PK: for the specification these are bare scripts: the scriptPubKey itself (= the script code the
   model returns) runs on the scriptSig's stack -- for P2PKH with the key the model popped put back on top *)
Lemma from_txdata_sound_pkh : forall e fe co spk ssig wit k st code,
    from_txdata e fe spk ssig wit = FOk (InPk k PtPkh) st code ->
    code = Some spk /\ spk = p2pkh_bytes (e_hash160 e k) /\
    verify_spend e co spk ssig wit = bare_body e ssig spk (k :: map conc st).
Proof.
  intros e fe co spk ssig wit k st code H.
  destruct (ftx_inv_pkh _ _ _ _ _ _ _ _ H) as (h & el & PKH & WN & SS & PK & HB & ->). split; [reflexivity|].
  apply pk_from_elem_inr in PK. subst el. split; [exact (ftx_bytes_eqb_eq _ _ HB)|].
  destruct (p2pkh_others _ _ PKH) as (WP & W & TR & SH).
  unfold verify_spend. rewrite W, WP, SH, TR. unfold verify_bare. rewrite (wit_nil _ WN).
  destruct (ssig_bridge _ _ SS) as (ss & -> & ->). unfold bare_body. reflexivity.
Qed.

Lemma from_txdata_sound_pk : forall e fe co spk ssig wit k st code,
    from_txdata e fe spk ssig wit = FOk (InPk k PtPk) st code ->
    code = Some spk /\ spk_is_p2pk spk = Some k /\
    verify_spend e co spk ssig wit = bare_body e ssig spk (map conc st).
Proof.
  intros e fe co spk ssig wit k st code H.
  destruct (ftx_inv_pk _ _ _ _ _ _ _ _ H) as (PK & WN & SS & ->). split; [reflexivity|]. split; [exact PK|].
  destruct (p2pk_others _ _ PK) as (WP & W & TR & SH).
  unfold verify_spend. rewrite W, WP, SH, TR. unfold verify_bare. rewrite (wit_nil _ WN).
  destruct (ssig_bridge _ _ SS) as (ss & -> & ->). unfold bare_body. reflexivity.
Qed.

(* composition for the taproot key path: the evaluator model for key-only outputs accepts => the
   specification accepts (the other key kinds run a script for the specification; their composition would need
   the Script semantics of DUP HASH160 EQUALVERIFY CHECKSIG and is not stated) *)
Lemma from_txdata_interp_pk_trkey : forall e fe co spk ssig wit k st code cs,
    from_txdata e fe spk ssig wit = FOk (InPk k PtTr) st code ->
    interp_pk e k st = IAccept cs ->
    verify_spend e co spk ssig wit = true.
Proof.
  intros e fe co spk ssig wit k st code cs H I.
  destruct (from_txdata_sound_trkey _ _ co _ _ _ _ _ _ H) as (_ & sg & -> & -> & ->).
  unfold interp_pk in I. destruct (elem_of sg) as [| |s] eqn:E; try discriminate.
  assert (s = sg) as ->. { rewrite <- (conc_elem_of sg), E. reflexivity. }
  destruct (e_sigok e k sg); [reflexivity|discriminate].
Qed.

(* ------------------------------------------------------------------ (a) every arm of from_txdata in one statement *)
Definition sound_statement (e : env) (fe : fenv) (co : bytes -> bytes -> bool) (spk ssig : bytes) (wit : list bytes)
           (i : finner) (st : astack) (code : option bytes) : Prop :=
  match i with
  | InScript sb t =>
    code = Some sb /\
    exists cbok, (t = StTr -> exists cb, hd_error (rev wit) = Some cb /\ f_commit fe sb cb = true /\ cbok = co sb cb) /\
                 verify_spend e co spk ssig wit = spec_body e t ssig sb (map conc st) cbok
  | InPk k PtTr =>
    code = None /\ exists sg, wit = [sg] /\ st = [elem_of sg] /\ verify_spend e co spk ssig wit = e_sigok e k sg
  | InPk k PtWpkh =>
    code = Some (p2pkh_bytes (e_hash160 e k)) /\ rev wit = k :: map conc st /\
    verify_spend e co spk ssig wit = wpkh_body e k (map conc st)
  | InPk k PtShWpkh =>
    code = Some (p2pkh_bytes (e_hash160 e k)) /\ rev wit = k :: map conc st /\
    verify_spend e co spk ssig wit = (N.leb (blen ssig) 1650 && wpkh_body e k (map conc st))
  | InPk k PtPkh =>
    code = Some spk /\ spk = p2pkh_bytes (e_hash160 e k) /\
    verify_spend e co spk ssig wit = bare_body e ssig spk (k :: map conc st)
  | InPk k PtPk =>
    code = Some spk /\ spk_is_p2pk spk = Some k /\
    verify_spend e co spk ssig wit = bare_body e ssig spk (map conc st)
  end.

Lemma from_txdata_sound_every_arm : forall e fe co spk ssig wit i st code,
    from_txdata e fe spk ssig wit = FOk i st code -> sound_statement e fe co spk ssig wit i st code.
Proof.
  intros e fe co spk ssig wit i st code H. destruct i as [k []|sb t]; cbn [sound_statement].
  - exact (from_txdata_sound_pk _ _ co _ _ _ _ _ _ H).
  - exact (from_txdata_sound_pkh _ _ co _ _ _ _ _ _ H).
  - exact (from_txdata_sound_wpkh _ _ co _ _ _ _ _ _ H).
  - exact (from_txdata_sound_shwpkh _ _ co _ _ _ _ _ _ H).
  - exact (from_txdata_sound_trkey _ _ co _ _ _ _ _ _ H).
  - exact (from_txdata_sound_all _ _ co _ _ _ _ _ _ _ H).
Qed.

(* ------------------------------------------------------------------ the P2PKH script, executed *)
Lemma p2pkh_exec : forall e h k sg,
    final_ok (exec (with_sv e SvWitnessV0)
                   [IOp OP_DUP; IOp OP_HASH160; IPush h; IOp OP_EQUALVERIFY; IOp OP_CHECKSIG]
                   (mkSt [k; sg] []))
    = (bytes_eqb h (e_hash160 e k) && e_keyok e k && match sg with [] => false | _ => e_sigok e k sg end).
Proof.
  intros e h k sg. cbn. destruct (bytes_eqb h (e_hash160 e k)); [|reflexivity]. cbn.
  destruct (e_keyok e k); [|reflexivity]. cbn. destruct sg as [|a r]; [reflexivity|].
  destruct (e_sigok e k (a :: r)); reflexivity.
Qed.

Lemma elem_of_long : forall k, N.eqb (blen k) 33 = true -> elem_of k = EPush k.
Proof. intros k H. destruct k as [|a [|b r]]; [discriminate H|discriminate H|reflexivity]. Qed.

(* (c) P2WPKH / P2SH-P2WPKH composed with the evaluator model for key-only outputs: the model of from_txdata
   answers Ok, interp_pk accepts on the stack it was handed, the key is a 33-byte encoding acceptable under the
   witness-v0 rules  =>  verify_spend accepts *)
Lemma wpkh_body_interp_pk : forall e k st cs,
    Forall normal st -> interp_pk e k st = IAccept cs ->
    N.eqb (blen k) 33 = true -> e_keyok e k = true ->
    wpkh_body e k (map conc st) = true.
Proof.
  intros e k st cs F I L K. unfold interp_pk in I.
  destruct st as [|x r]; [discriminate|]. destruct x as [| |s]; try discriminate.
  destruct (e_sigok e k s) eqn:S; [|discriminate]. unfold final_rule in I.
  destruct r as [|y r]; [|destruct y; discriminate].
  cbn [map conc wpkh_body]. rewrite L, p2pkh_exec, ftx_bytes_eqb_refl, K. cbn [andb].
  inversion F as [|? ? N _]. unfold normal in N. cbn [conc] in N.
  destruct s; [discriminate N|exact S].
Qed.

Lemma from_txdata_interp_pk_wpkh : forall e fe co spk ssig wit k t st code cs,
    from_txdata e fe spk ssig wit = FOk (InPk k t) st code -> t = PtWpkh \/ t = PtShWpkh ->
    interp_pk e k st = IAccept cs ->
    N.eqb (blen k) 33 = true -> e_keyok e k = true -> N.leb (blen ssig) 1650 = true ->
    verify_spend e co spk ssig wit = true.
Proof.
  intros e fe co spk ssig wit k t st code cs H T I L K B.
  assert (F : Forall normal st).
  { destruct T; subst t.
    - destruct (ftx_inv_wpkh _ _ _ _ _ _ _ _ H) as (? & ? & _ & _ & WS & _).
      pose proof (wit_stack_normal wit) as F. rewrite WS in F. inversion F. assumption.
    - destruct (ftx_inv_shwpkh _ _ _ _ _ _ _ _ H) as (? & ? & ? & ? & _ & _ & _ & _ & _ & _ & WS & _).
      pose proof (wit_stack_normal wit) as F. rewrite WS in F. inversion F. assumption. }
  pose proof (wpkh_body_interp_pk _ _ _ _ F I L K) as W.
  destruct T; subst t.
  - destruct (from_txdata_sound_wpkh _ _ co _ _ _ _ _ _ H) as (_ & _ & ->). exact W.
  - destruct (from_txdata_sound_shwpkh _ _ co _ _ _ _ _ _ H) as (_ & _ & ->). rewrite B, W. reflexivity.
Qed.

(* ------------------------------------------------------------------ (b) completeness, key kinds *)
Lemma from_txdata_complete_trkey : forall e fe co spk ssig wit k sg,
    spk_is_p2tr spk = Some k -> wit = [sg] ->
    verify_spend e co spk ssig wit = true -> f_xonly fe k = true ->
    from_txdata e fe spk ssig wit = FOk (InPk k PtTr) [elem_of sg] None.
Proof.
  intros e fe co spk ssig wit k sg TR -> V X.
  destruct (p2tr_others _ _ TR) as (PK & PKH & WP & W & SH).
  unfold verify_spend in V. rewrite W, WP, SH, TR in V. unfold verify_tr in V.
  destruct ssig; [|discriminate].
  unfold from_txdata. cbn [ssig_stack_of length lex_bytes elems_of_toks]. rewrite PK, PKH, WP, W, TR.
  cbv beta iota zeta. rewrite X. cbn [negb map rev app length].
  destruct (elem_of sg) as [| |[|c r]]; cbn; try reflexivity.
  rewrite andb_false_r. reflexivity.
Qed.

Lemma from_txdata_complete_wpkh : forall e fe co spk ssig wit h,
    spk_is_p2wpkh spk = Some h ->
    verify_spend e co spk ssig wit = true ->
    (forall k, hd_error (rev wit) = Some k -> f_pk fe k = Some true) ->
    exists k sg, wit = [sg; k] /\
                 from_txdata e fe spk ssig wit = FOk (InPk k PtWpkh) [elem_of sg] (Some (p2pkh_bytes (e_hash160 e k))).
Proof.
  intros e fe co spk ssig wit h WP V D.
  pose proof (p2wpkh_shape _ _ WP) as SHP.
  assert (PK : spk_is_p2pk spk = None) by (rewrite SHP; reflexivity).
  assert (PKH : spk_is_p2pkh spk = None) by (rewrite SHP; reflexivity).
  assert (W : spk_is_p2wsh spk = None) by (rewrite SHP; reflexivity).
  unfold verify_spend in V. rewrite W, WP in V. destruct ssig; [|discriminate].
  unfold verify_wpkh in V. destruct wit as [|sg [|k [|]]]; try discriminate.
  apply andb_true_iff in V. destruct V as [L V]. rewrite p2pkh_exec in V.
  apply andb_true_iff in V. destruct V as [V _]. apply andb_true_iff in V. destruct V as [HB _].
  apply ftx_bytes_eqb_eq in HB. exists k, sg. split; [reflexivity|].
  unfold from_txdata. cbn [ssig_stack_of length lex_bytes elems_of_toks]. rewrite PK, PKH, WP.
  cbn [map rev app]. rewrite (elem_of_long _ L). cbv beta iota zeta. unfold pk_from_elem, pk_from_slice.
  rewrite (D k eq_refl). cbn [negb andb]. rewrite SHP, HB. unfold p2wpkh_bytes. rewrite ftx_bytes_eqb_refl. reflexivity.
Qed.

Lemma from_txdata_complete_shwpkh : forall e fe co spk ssig wit h el r kh,
    spk_is_p2sh spk = Some h ->
    ssig_stack_of ssig = Some (el :: r) -> spk_is_p2wpkh (conc el) = Some kh ->
    verify_spend e co spk ssig wit = true ->
    (forall k, hd_error (rev wit) = Some k -> f_pk fe k = Some true) ->
    exists k sg, wit = [sg; k] /\
                 from_txdata e fe spk ssig wit = FOk (InPk k PtShWpkh) [elem_of sg] (Some (p2pkh_bytes (e_hash160 e k))).
Proof.
  intros e fe co spk ssig wit h el r kh SH SS RWP V D.
  destruct (p2sh_others _ _ SH) as (PK & PKH & WP & W & TR & SPK).
  pose proof (p2wpkh_shape _ _ RWP) as SHP.
  assert (RW : spk_is_p2wsh (conc el) = None) by (rewrite SHP; reflexivity).
  unfold verify_spend in V. rewrite W, WP, SH in V. unfold verify_sh in V.
  destruct (ssig_bridge _ _ SS) as (ss & P & PO). rewrite P, PO in V. cbn [map] in V.
  rewrite RW, RWP in V.
  apply andb_true_iff in V. destruct V as [_ V].
  apply andb_true_iff in V. destruct V as [V V2]. apply andb_true_iff in V. destruct V as [HB _].
  destruct r; [|discriminate]. cbn [map] in V2. unfold verify_wpkh in V2.
  destruct wit as [|sg [|k [|]]]; try discriminate.
  apply andb_true_iff in V2. destruct V2 as [L V2]. rewrite p2pkh_exec in V2.
  apply andb_true_iff in V2. destruct V2 as [V2 _]. apply andb_true_iff in V2. destruct V2 as [HK _].
  apply ftx_bytes_eqb_eq in HK. apply ftx_bytes_eqb_eq in HB.
  destruct el as [| |rb]; try discriminate. cbn [conc] in *.
  exists k, sg. split; [reflexivity|].
  unfold from_txdata. rewrite SS, PK, PKH, WP, W, TR, SH. cbv beta iota zeta.
  rewrite SPK, HB, ftx_bytes_eqb_refl. cbn [negb]. rewrite RWP.
  cbn [map rev app]. rewrite (elem_of_long _ L). cbv beta iota zeta. unfold pk_from_elem, pk_from_slice.
  rewrite (D k eq_refl). cbn [negb andb]. rewrite SHP, HK. unfold p2wpkh_bytes. rewrite ftx_bytes_eqb_refl. reflexivity.
Qed.

Lemma from_txdata_complete_pk : forall e fe co spk ssig wit k st c,
    spk_is_p2pk spk = Some k -> ssig_stack_of ssig = Some st ->
    verify_spend e co spk ssig wit = true -> f_pk fe k = Some c ->
    from_txdata e fe spk ssig wit = FOk (InPk k PtPk) st (Some spk).
Proof.
  intros e fe co spk ssig wit k st c PK SS V D.
  destruct (p2pk_others _ _ PK) as (WP & W & TR & SH).
  unfold verify_spend in V. rewrite W, WP, SH, TR in V. unfold verify_bare in V.
  destruct wit; [|discriminate].
  unfold from_txdata. rewrite SS, PK. cbn [map rev]. unfold pk_from_slice. rewrite D. reflexivity.
Qed.
