(* C11 — the script byte cursor under the lexer never indexes out of bounds (lex_total) *)
From Coq Require Import List NArith ZArith Bool Lia Arith.
From Verif Require Import Bytes RobustModel RobustProofs.
Import ListNotations.
Local Open Scope N_scope.

Arguments N.add : simpl never. Arguments N.sub : simpl never. Arguments N.mul : simpl never.
Arguments N.ltb : simpl never. Arguments N.leb : simpl never. Arguments N.eqb : simpl never.
Arguments N.of_nat : simpl never. Arguments N.to_nat : simpl never. Arguments N.land : simpl never.

Lemma nlen_skipn : forall A (v : list A) n, n <= nlen v -> nlen (skipn (N.to_nat n) v) = nlen v - n.
Proof. intros. unfold nlen in *. rewrite skipn_length. lia. Qed.

Lemma slice_range_ok : forall A (v : list A) a len, a + len <= nlen v ->
  slice_range v a len = ROk (firstn (N.to_nat len) (skipn (N.to_nat a) v)).
Proof.
  intros. unfold slice_range. rewrite slice_from_ok by lia. cbn [rbind].
  apply slice_to_ok. rewrite nlen_skipn by lia. lia.
Qed.

Lemma read_uint_spec : forall buf pos size, pos <= nlen buf ->
  (exists e, read_uint buf pos size = RErr e /\ e <> E_OUT_OF_FUEL) \/
  (exists n, read_uint buf pos size = ROk (n, pos + size) /\ pos + size <= nlen buf).
Proof.
  intros buf pos size Hp. unfold read_uint. destruct (nlen buf - pos <? size) eqn:E.
  - left. eexists; split; [reflexivity|discriminate].
  - apply N.ltb_ge in E. rewrite slice_range_ok by lia. cbn [rbind]. right. eexists; split; [reflexivity|lia].
Qed.

Lemma take_slice_spec : forall buf pos len, pos <= nlen buf ->
  (exists e, take_slice buf pos len = RErr e /\ e <> E_OUT_OF_FUEL) \/
  (exists d, take_slice buf pos len = ROk (d, pos + len) /\ pos + len <= nlen buf).
Proof.
  intros buf pos len Hp. unfold take_slice. destruct (nlen buf - pos <? len) eqn:E.
  - left. eexists; split; [reflexivity|discriminate].
  - apply N.ltb_ge in E. rewrite slice_range_ok by lia. cbn [rbind]. right. eexists; split; [reflexivity|lia].
Qed.

(* result shape shared by the cursor functions: an error VALUE (never the fuel error), or
   progress that stays inside the buffer *)
Definition cursor_ok (buf : bytes) (lo : N) (r : routcome (instr_tok * N)) : Prop :=
  (exists e, r = RErr e /\ e <> E_OUT_OF_FUEL) \/ (exists i p, r = ROk (i, p) /\ lo <= p /\ p <= nlen buf).

Lemma take_push_spec : forall buf pos n, pos <= nlen buf ->
  cursor_ok buf pos (rbind (take_slice buf pos n) (fun r => let '(d, p) := r in ROk (IPushBytes d, p))).
Proof.
  intros buf pos n Hp. destruct (take_slice_spec buf pos n Hp) as [(e & -> & He)|(d & -> & Hd)]; cbn [rbind].
  - left; eauto.
  - right. do 2 eexists. split; [reflexivity|lia].
Qed.

Lemma cursor_ok_weaken : forall buf lo lo' r, lo' <= lo -> cursor_ok buf lo r -> cursor_ok buf lo' r.
Proof. intros buf lo lo' r H [H0|(i & p & H1 & H2 & H3)]; [now left|right]. do 2 eexists. split; [eassumption|lia]. Qed.

Lemma next_push_data_len_spec : forall buf pos lenlen minl, pos <= nlen buf ->
  cursor_ok buf pos (next_push_data_len buf pos lenlen minl).
Proof.
  intros buf pos lenlen minl Hp. unfold next_push_data_len.
  destruct (read_uint_spec buf pos lenlen Hp) as [(e & -> & He)|(n & -> & Hn)]; cbn [rbind]; [left; eauto|].
  destruct (n <? minl); [left; eexists; split; [reflexivity|discriminate]|].
  eapply cursor_ok_weaken; [|apply take_push_spec; exact Hn]. lia.
Qed.

Lemma instr_next_spec : forall buf pos, pos < nlen buf -> cursor_ok buf (pos + 1) (instr_next buf pos).
Proof.
  intros buf pos Hp. unfold instr_next.
  destruct (index_partial_ok _ buf pos Hp) as [byte ->]. cbn [rbind].
  assert (Hp1 : pos + 1 <= nlen buf) by lia.
  destruct (byte <=? 75) eqn:Epush.
  - destruct (byte =? 1) eqn:E1.
    + destruct (nlen buf - (pos + 1) <? 1) eqn:E2; cbn [rbind].
      * apply take_push_spec; exact Hp1.
      * apply N.ltb_ge in E2. destruct (index_partial_ok _ buf (pos + 1)) as [b ->]; [lia|]. cbn [rbind].
        destruct ((b =? 129) || ((1 <=? b) && (b <=? 16))); [left; eexists; split; [reflexivity|discriminate]|].
        apply take_push_spec; exact Hp1.
    + cbn [rbind]. apply take_push_spec; exact Hp1.
  - destruct (byte =? 76); [apply next_push_data_len_spec; exact Hp1|].
    destruct (byte =? 77); [apply next_push_data_len_spec; exact Hp1|].
    destruct (byte =? 78); [apply next_push_data_len_spec; exact Hp1|].
    right. do 2 eexists. split; [reflexivity|lia].
Qed.

Lemma instr_all_total : forall fuel buf pos, pos <= nlen buf -> (N.to_nat (nlen buf - pos) <= fuel)%nat ->
  (exists is, instr_all fuel buf pos = ROk is) \/ (exists e, instr_all fuel buf pos = RErr e /\ e <> E_OUT_OF_FUEL).
Proof.
  induction fuel as [|f IH]; intros buf pos Hp Hf.
  - assert (pos = nlen buf) by lia. subst pos. left. exists []. cbn [instr_all]. now rewrite N.leb_refl.
  - cbn [instr_all]. destruct (nlen buf <=? pos) eqn:E; [left; eauto|]. apply N.leb_gt in E.
    destruct (instr_next_spec buf pos E) as [(e & He & Hne)|(i & p & He & H1 & H2)]; rewrite He; cbn [rbind].
    + right; eauto.
    + destruct (IH buf p) as [[is Hi]|(e & Hi & Hne)]; [lia|lia| |]; rewrite Hi; cbn [rbind]; [left|right]; eauto.
Qed.

(* every outcome of read_scriptint is a value; its error codes are 202/203 *)
Lemma read_scriptint_spec : forall v,
  (exists z, read_scriptint v = ROk z) \/ (exists e, read_scriptint v = RErr e /\ e <> E_OUT_OF_FUEL).
Proof.
  intros v. unfold read_scriptint. destruct v as [|x r]; [left; eauto|].
  set (w := x :: r). assert (Hw : 1 <= nlen w) by (unfold w; rewrite nlen_cons; lia).
  unfold sub_partial. destruct (nlen w <? 1) eqn:E; [apply N.ltb_lt in E; lia|]. cbn [rbind].
  destruct (index_partial_ok _ w (nlen w - 1)) as [lastb ->]; [lia|]. cbn [rbind].
  destruct (4 <? nlen w); [right; eexists; split; [reflexivity|discriminate]|].
  destruct (N.land lastb 127 =? 0); [|left; eauto].
  destruct (nlen w <=? 1) eqn:E1; [right; eexists; split; [reflexivity|discriminate]|]. apply N.leb_gt in E1.
  destruct (nlen w <? 2) eqn:E2; [apply N.ltb_lt in E2; lia|]. cbn [rbind].
  destruct (index_partial_ok _ w (nlen w - 2)) as [prev ->]; [lia|]. cbn [rbind].
  destruct (N.land prev 128 =? 0); [right; eexists; split; [reflexivity|discriminate]|left; eauto].
Qed.

Lemma verify_case : forall prev,
  (exists ts, match prev with
              | Some (LTok 135) | Some (LTok 156) | Some (LTok 172) | Some (LTok 174) => RErr E_LEX_NONMIN_VERIFY
              | _ => ROk [LTok 105] end = ROk ts) \/
  (match prev with
   | Some (LTok 135) | Some (LTok 156) | Some (LTok 172) | Some (LTok 174) => RErr E_LEX_NONMIN_VERIFY
   | _ => @ROk (list ltoken) [LTok 105] end = RErr E_LEX_NONMIN_VERIFY).
Proof.
  intros prev. destruct prev as [[c0| | | | | |]|]; try (left; eauto; fail).
  destruct c0 as [|p]; [left; eauto|].
  do 8 (destruct p as [p|p|]; try (left; eauto; fail)); right; reflexivity.
Qed.

Lemma lex_one_spec : forall prev i,
  (exists ts, lex_one prev i = ROk ts) \/ (exists e, lex_one prev i = RErr e /\ e <> E_OUT_OF_FUEL).
Proof.
  intros prev i. unfold lex_one. destruct i as [d|c].
  - destruct (nlen d =? 20); [left; eauto|]. destruct (nlen d =? 32); [left; eauto|].
    destruct (nlen d =? 33); [left; eauto|]. destruct (nlen d =? 65); [left; eauto|].
    destruct (read_scriptint_spec d) as [[z ->]|(e & -> & He)]; cbn [rbind].
    + destruct (z <? 0)%Z; [right; eexists; split; [reflexivity|discriminate]|left; eauto].
    + right; eauto.
  - destruct (negb (lex_known_op c)); [right; eexists; split; [reflexivity|discriminate]|].
    destruct (c =? 105).
    { destruct (verify_case prev) as [[ts H]|H]; rewrite H; [left; eauto|right; eexists; split; [reflexivity|discriminate]]. }
    destruct ((c =? 136) || (c =? 157) || (c =? 173) || (c =? 175)); [left; eauto|].
    destruct ((81 <=? c) && (c <=? 96)); left; eauto.
Qed.

Lemma lex_loop_total : forall fuel buf pos acc, pos <= nlen buf -> (N.to_nat (nlen buf - pos) <= fuel)%nat ->
  (exists ts, lex_loop fuel buf pos acc = ROk ts) \/ (exists e, lex_loop fuel buf pos acc = RErr e /\ e <> E_OUT_OF_FUEL).
Proof.
  induction fuel as [|f IH]; intros buf pos acc Hp Hf.
  - assert (pos = nlen buf) by lia. subst pos. left. exists acc. cbn [lex_loop]. now rewrite N.leb_refl.
  - cbn [lex_loop]. destruct (nlen buf <=? pos) eqn:E; [left; eauto|]. apply N.leb_gt in E.
    destruct (instr_next_spec buf pos E) as [(e & He & Hne)|(i & p & He & H1 & H2)]; rewrite He; cbn [rbind].
    + right; eauto.
    + destruct (lex_one_spec (last (map Some acc) None) i) as [[ts ->]|(e & -> & Hne)]; cbn [rbind]; [|right; eauto].
      apply IH; lia.
Qed.

(* lex_total: for EVERY byte string the lexer model returns tokens or an error VALUE: no
   index / slice / subtraction site panics, and the fuel (= number of bytes) is never exhausted *)
Theorem lex_total_proof : forall script : bytes,
  (exists ts, lex_model script = ROk ts) \/ (exists e, lex_model script = RErr e /\ e <> E_OUT_OF_FUEL).
Proof.
  intros script. unfold lex_model. apply lex_loop_total; [lia|unfold nlen; lia].
Qed.

Corollary lex_never_panics : forall script s, lex_model script <> RPanic s.
Proof.
  intros script s H. destruct (lex_total_proof script) as [[ts H1]|(e & H1 & _)]; rewrite H1 in H; discriminate.
Qed.

(* the number of instructions is at most the number of bytes (each consumes at least one) *)
Lemma instr_all_length : forall fuel buf pos is, pos <= nlen buf ->
  instr_all fuel buf pos = ROk is -> N.of_nat (length is) <= nlen buf - pos.
Proof.
  induction fuel as [|f IH]; intros buf pos is Hp H; cbn [instr_all] in H.
  - destruct (nlen buf <=? pos); [inversion H; cbn [length]; lia|discriminate].
  - destruct (nlen buf <=? pos) eqn:E; [inversion H; cbn [length]; lia|]. apply N.leb_gt in E.
    destruct (instr_next_spec buf pos E) as [(e & He & Hne)|(i & p & He & H1 & H2)]; rewrite He in H; cbn [rbind] in H; [discriminate|].
    destruct (instr_all f buf p) eqn:Hi; cbn [rbind] in H; try discriminate. inversion H; subst.
    apply IH in Hi; [|lia]. cbn [length]. lia.
Qed.
