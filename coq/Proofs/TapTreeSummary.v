(* C15: the lemmas of the three proof files assembled in the shape of the property statements
   (Properties/C15.v only says `exact`), and concrete instances for the non-vacuity examples. *)
From Coq Require Import List Bool NArith Arith Lia.
Import ListNotations.
From Verif Require Import TapTreeModel TapTreeProofs TapTreeShapeProofs TapTreeMerkleProofs TapTreeIterProofs.

Lemma depths_rt : forall (leaf : Type),
  (forall t : tree leaf, tree_of_depths leaf (depths_of_tree leaf t) = Some t) /\
  (forall dl t, tree_of_depths leaf dl = Some t -> dl = depths_of_tree leaf t) /\
  (forall t, height leaf t <= 128 ->
     build_tree leaf t = TOk (depths_of_tree leaf t) /\
     parse_tokens leaf (tokens_of_tree leaf t) = TOk (depths_of_tree leaf t) /\
     api_build leaf t = TOk (depths_of_tree leaf t)) /\
  (forall t, 128 < height leaf t ->
     build_tree leaf t = TErr ErrDepth /\
     parse_tokens leaf (tokens_of_tree leaf t) = TErr ErrDepth /\
     api_build leaf t = TErr ErrDepth).
Proof.
  intros leaf. split; [apply tree_of_depths_complete|].
  split; [apply tree_of_depths_sound|]. split; intros t H.
  - split; [apply build_tree_ok; exact H|]. split; [| apply api_build_ok; exact H].
    rewrite parse_tokens_build. apply build_tree_ok; exact H.
  - split; [apply build_tree_rej; exact H|]. split; [| apply api_build_rej; exact H].
    rewrite parse_tokens_build. apply build_tree_rej; exact H.
Qed.

Lemma preserved : forall (leaf : Type),
  (* key translation: same shape, depths and order; leaves mapped pointwise *)
  (forall (leafB : Type) (g : leaf -> leafB) (t : tree leaf),
     translate_dl leaf leafB (fun l => Some (g l)) (depths_of_tree leaf t)
       = TOk (depths_of_tree leafB (map_tree leaf leafB g t)) /\
     tree_of_depths leafB (depths_of_tree leafB (map_tree leaf leafB g t)) = Some (map_tree leaf leafB g t) /\
     height leafB (map_tree leaf leafB g t) = height leaf t) /\
  (forall (leafB : Type) (f : leaf -> option leafB) dl dl',
     translate_dl leaf leafB f dl = TOk dl' ->
     map fst dl' = map fst dl /\ Forall2 (fun p q => f (snd p) = Some (snd q)) dl dl') /\
  (* Display prints the brace syntax of the tree; FromStr of that text gives the depth list back *)
  (forall t : tree leaf, print_tokens leaf (depths_of_tree leaf t) = tokens_of_tree leaf t) /\
  (forall t : tree leaf, height leaf t <= 128 ->
     parse_tokens leaf (print_tokens leaf (depths_of_tree leaf t)) = TOk (depths_of_tree leaf t)).
Proof.
  intros leaf. split; [| split; [| split]].
  - intros leafB g t. split; [| split].
    + unfold depths_of_tree. rewrite translate_total, depths_map_tree. reflexivity.
    + apply tree_of_depths_complete.
    + apply height_map_tree.
  - intros leafB f dl dl'. apply translate_fail_or_same_shape.
  - apply print_tokens_tree.
  - intros t H. rewrite print_tokens_tree, parse_tokens_build. apply build_tree_ok. exact H.
Qed.

(* ---- the whole pipeline for a described tree: text / API -> depth list -> spend info ---- *)
Section EndToEnd.
Variables leaf hash : Type.
Variable leafH : leaf -> hash.
Variable branchH : hash -> hash -> hash.
Variables key okey parity : Type.
Variable tweak : key -> option hash -> okey * parity.
Variable tweak_check : okey -> parity -> key -> hash -> bool.
Hypothesis branchH_comm : forall a b, branchH a b = branchH b a.
Hypothesis tweak_law : forall k r, tweak_check (fst (tweak k (Some r))) (snd (tweak k (Some r))) k r = true.

Theorem end_to_end : forall (ik : key) (t : tree leaf), height leaf t <= 128 ->
  exists dl si cbs,
    parse_tokens leaf (tokens_of_tree leaf t) = TOk dl /\
    api_build leaf t = TOk dl /\
    tree_of_depths leaf dl = Some t /\
    from_tr leaf hash leafH branchH key okey parity tweak ik (Some dl) = TOk si /\
    (si_okey _ _ _ _ _ si, si_parity _ _ _ _ _ si) = tweak ik (Some (root leaf hash leafH branchH t)) /\
    control_blocks leaf hash key okey parity si = TOk cbs /\
    map fst cbs = map snd (depths_of_tree leaf t) /\
    Forall (fun lc => cb_verify leaf hash leafH branchH key okey parity tweak_check
                        (si_okey _ _ _ _ _ si) (fst lc) (snd lc) = true) cbs.
Proof.
  intros ik t Hh.
  destruct (depths_rt leaf) as [Hc [_ [Hok _]]].
  destruct (Hok t Hh) as [_ [Hparse Hapi]].
  destruct (commit leaf hash leafH branchH key okey parity tweak tweak_check branchH_comm tweak_law
              ik (depths_of_tree leaf t) t (Hc t) Hh) as [si [cbs [H1 [H2 [_ [H4 [H5 H6]]]]]]].
  exists (depths_of_tree leaf t), si, cbs.
  repeat split; try assumption. apply Hc.
Qed.
End EndToEnd.

(* ---- concrete instances (non-vacuity) ---- *)
Fixpoint chainR (d : nat) (i : N) : tree N :=   (* right chain of depth d, leaves i, i+1, ... *)
  match d with 0 => Leaf i | S d' => Node (Leaf i) (chainR d' (i + 1)%N) end.
Fixpoint chainL (d : nat) (i : N) : tree N :=
  match d with 0 => Leaf i | S d' => Node (chainL d' (i + 1)%N) (Leaf i) end.
Definition ex_leafH (l : N) : N := (l * 2 + 1)%N.
Definition ex_branchH (a b : N) : N := (N.min a b * 65537 + N.max a b + 2)%N.
Lemma ex_branchH_comm : forall a b, ex_branchH a b = ex_branchH b a.
Proof. intros. unfold ex_branchH. rewrite N.min_comm, N.max_comm. reflexivity. Qed.
Definition ex_tree : tree N :=
  Node (Node (Leaf 1%N) (Node (Leaf 2%N) (Leaf 3%N))) (Node (Leaf 4%N) (Leaf 5%N)).
Definition ex_tweak (k : N) (r : option N) : N * bool :=
  match r with Some h => ((k + h)%N, N.odd (k + h)) | None => (k, false) end.
Definition ex_tweak_check (q : N) (p : bool) (k h : N) : bool := N.eqb q (k + h) && Bool.eqb p (N.odd (k + h)).
Lemma ex_tweak_law : forall k r,
  ex_tweak_check (fst (ex_tweak k (Some r))) (snd (ex_tweak k (Some r))) k r = true.
Proof. intros. unfold ex_tweak_check, ex_tweak. cbn. rewrite N.eqb_refl, Bool.eqb_reflx. reflexivity. Qed.
