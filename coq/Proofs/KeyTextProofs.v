(* Round trip of the key text model: key_parse (key_print k) = Ok k for every well-formed key. *)
From Coq Require Import List Bool NArith Lia Arith.
From Verif Require Import MsTextModel MsTextProofs KeyTextModel KeyTextBasics KeyTextSteps.
Import ListNotations.
Local Open Scope N_scope.

Ltac b2p :=
  repeat (rewrite ?orb_true_iff, ?andb_true_iff, ?negb_true_iff, ?orb_false_iff, ?andb_false_iff,
            ?N.leb_le, ?N.ltb_lt, ?N.eqb_eq, ?N.eqb_neq, ?N.leb_gt, ?N.ltb_ge in * ).

(* ------------------------------------------------------------------ character classes *)
Definition alnum (c : N) : bool :=
  is_digit c || ((65 <=? c) && (c <=? 90)) || ((97 <=? c) && (c <=? 122)).
Definition hexany (c : N) : bool :=
  is_digit c || ((65 <=? c) && (c <=? 70)) || ((97 <=? c) && (c <=? 102)).
Definition tokch (c : N) : bool :=
  childch c || (c =? 59) || (c =? 60) || (c =? 62) || (c =? 42) || (c =? 104).
Definition kch (c : N) : bool := alnum c || tokch c || (c =? 47).
Definition okc (c : N) : bool := negb ((c <? 20) || (127 <? c)).

Lemma kch_ok : forall c, kch c = true -> okc c = true /\ negb (c =? CH_RBR) = true.
Proof.
  intros c H. unfold kch, alnum, tokch, childch, is_digit, okc, CH_APOS, CH_RBR in *. b2p. lia.
Qed.
Lemma tokch_free47 : forall c, tokch c = true -> negb (c =? CH_SLASH) = true.
Proof. intros c H. unfold tokch, childch, is_digit, CH_APOS, CH_SLASH in *. b2p. lia. Qed.
Lemma alnum_free47 : forall c, alnum c = true -> negb (c =? CH_SLASH) = true.
Proof. intros c H. unfold alnum, is_digit, CH_SLASH in *. b2p. lia. Qed.
Lemma childch_tokch : forall c, childch c = true -> tokch c = true.
Proof. intros c H. unfold tokch. rewrite H. reflexivity. Qed.
Lemma hexch_kch : forall c, hexch c = true -> kch c = true.
Proof. intros c H. unfold kch, alnum, hexch, is_digit in *. b2p. lia. Qed.
Lemma hexany_alnum : forall c, hexany c = true -> alnum c = true.
Proof. intros c H. unfold alnum, hexany, is_digit in *. b2p. lia. Qed.

Lemma existsb_forallb_neg : forall (f : N -> bool) l, forallb (fun x => negb (f x)) l = true -> existsb f l = false.
Proof.
  intros f l. induction l as [|x r IH]; intros H; [reflexivity|]. cbn [forallb existsb] in *.
  apply andb_true_iff in H. destruct H as [H1 H2]. apply negb_true_iff in H1. rewrite H1, IH by exact H2. reflexivity.
Qed.

Lemma join_semi_chars : forall cs, forallb tokch (join_semi (map print_child cs)) = true.
Proof.
  assert (Hc : forall c, forallb tokch (print_child c) = true).
  { intros c. eapply forallb_imp; [apply childch_tokch|apply print_child_chars]. }
  induction cs as [|c r IH]; [reflexivity|]. destruct r as [|c' r']; [cbn [map join_semi]; apply Hc|].
  change (join_semi (map print_child (c :: c' :: r')))
    with (print_child c ++ CH_SEMI :: join_semi (map print_child (c' :: r'))).
  rewrite forallb_app. rewrite Hc. cbn [forallb andb]. rewrite IH. reflexivity.
Qed.
Lemma multi_tok_chars : forall alts, forallb tokch (multi_tok alts) = true.
Proof.
  intros alts. unfold multi_tok. cbn [forallb]. rewrite forallb_app, join_semi_chars. reflexivity.
Qed.
Lemma child_toks_chars : forall p, Forall (fun t => forallb tokch t = true) (map print_child p).
Proof.
  induction p as [|c r IH]; constructor; [|exact IH].
  eapply forallb_imp; [apply childch_tokch|apply print_child_chars].
Qed.
Lemma wild_toks_chars : forall w, Forall (fun t => forallb tokch t = true) (wild_toks w).
Proof. intros [| |]; repeat constructor. Qed.

Lemma toks_kch : forall ts, Forall (fun t => forallb tokch t = true) ts ->
  forallb kch (flat_map (fun t => CH_SLASH :: t) ts) = true.
Proof.
  induction ts as [|t r IH]; intros H; [reflexivity|]. inversion H; subst.
  cbn [flat_map app forallb]. rewrite forallb_app. rewrite IH by assumption.
  replace (forallb kch t) with true; [reflexivity|]. symmetry.
  eapply forallb_imp; [|eassumption]. intros x Hx. unfold kch. rewrite Hx. rewrite orb_true_r. reflexivity.
Qed.
Lemma toks_free : forall ts, Forall (fun t => forallb tokch t = true) ts ->
  Forall (fun t => free CH_SLASH t = true) ts.
Proof.
  intros ts H. eapply Forall_impl; [|exact H]. intros t Ht. unfold free.
  eapply forallb_imp; [apply tokch_free47|exact Ht].
Qed.

(* ------------------------------------------------------------------ origin *)
Definition wf_origin (o : origin) : Prop :=
  match o with
  | None => True
  | Some (fp, p) => length fp = 4%nat /\ Forall (fun b => b < 256) fp /\ Forall wfc p
  end.

Lemma len_app : forall a b, len (a ++ b) = len a + len b.
Proof. intros. unfold len. rewrite app_length. lia. Qed.

Lemma origin_rt : forall o K, wf_origin o -> forallb kch K = true ->
  (exists c r, K = c :: r /\ alnum c = true) ->
  parse_key_origin (fmt_origin o ++ K) = Ok (K, o).
Proof.
  intros o K Hw HK [c0 [r0 [EK Hc0]]]. unfold parse_key_origin.
  assert (Hko : forall s, forallb kch s = true -> forallb okc s = true).
  { intros s Hs. eapply forallb_imp; [|exact Hs]. intros x Hx. apply kch_ok in Hx. apply Hx. }
  assert (Hall : forallb okc (fmt_origin o ++ K) = true).
  { rewrite forallb_app, (Hko K HK), andb_true_r. destruct o as [[fp p]|]; [|reflexivity].
    destruct Hw as [_ [Hfp Hp]]. cbn [fmt_origin forallb]. rewrite !forallb_app.
    rewrite (Hko _ (forallb_imp _ _ _ hexch_kch (hex_chars fp Hfp))).
    rewrite fmt_path_tokens. rewrite (Hko _ (toks_kch _ (child_toks_chars p))). reflexivity. }
  rewrite existsb_forallb_neg by exact Hall.
  destruct o as [[fp p]|].
  - destruct Hw as [Hl [Hfp Hp]]. cbn [fmt_origin].
    replace ((CH_LBR :: flat_map hex_byte fp ++ fmt_path p ++ [CH_RBR]) ++ K)
      with (CH_LBR :: (flat_map hex_byte fp ++ fmt_path p) ++ CH_RBR :: K)
      by (cbn [app]; rewrite <- !app_assoc; reflexivity).
    rewrite N.eqb_refl.
    assert (Hfree : forall s, forallb kch s = true -> free CH_RBR s = true).
    { intros s Hs. unfold free. eapply forallb_imp; [|exact Hs]. intros x Hx. apply kch_ok in Hx. apply Hx. }
    rewrite split_on_app.
    2:{ apply Hfree. rewrite forallb_app. rewrite (forallb_imp _ _ _ hexch_kch (hex_chars fp Hfp)).
        rewrite fmt_path_tokens. rewrite toks_kch by apply child_toks_chars. reflexivity. }
    rewrite (split_on_free CH_RBR K) by (apply Hfree; exact HK).
    rewrite fmt_path_tokens. rewrite split_tokens.
    2:{ unfold free. eapply forallb_imp; [|apply (hex_chars fp Hfp)]. intros x Hx.
        unfold hexch, is_digit, CH_SLASH in *. b2p. lia. }
    2:{ apply toks_free. apply child_toks_chars. }
    assert (len (flat_map hex_byte fp) =? 8 = true) as ->.
    { apply N.eqb_eq. unfold len. rewrite hex_len, Hl. reflexivity. }
    cbn [negb]. rewrite hex_rt by exact Hfp. rewrite collect_rt by exact Hp. reflexivity.
  - cbn [fmt_origin app]. rewrite EK.
    assert (c0 =? CH_LBR = false) as ->.
    { unfold alnum, is_digit, CH_LBR in *. b2p. lia. }
    reflexivity.
Qed.

Section KeyText.
  Variables xatom fatom oatom : Type.
  Variable xpub_parse : tbytes -> option xatom.
  Variable xpub_print : xatom -> tbytes.
  Variable xpub_depth : xatom -> N.
  Variable full_parse : tbytes -> option fatom.
  Variable full_print : fatom -> tbytes.
  Variable xonly_parse : tbytes -> option oatom.
  Variable xonly_print : oatom -> tbytes.

  (* hypotheses on the cryptographic bodies only *)
  Hypothesis xpub_rt : forall a, xpub_parse (xpub_print a) = Some a.
  Hypothesis xpub_chars : forall a, forallb alnum (xpub_print a) = true.          (* base58 *)
  Hypothesis xpub_prefix : forall a,
    tb_eqb (firstn 4 (xpub_print a)) X_XPUB || tb_eqb (firstn 4 (xpub_print a)) X_TPUB = true.
  Hypothesis xpub_len : forall a, 64 <= len (xpub_print a).                        (* 111 in fact *)
  Hypothesis full_rt : forall a, full_parse (full_print a) = Some a.
  Hypothesis full_chars : forall a, forallb alnum (full_print a) = true.           (* lower-case hex *)
  Hypothesis full_len : forall a, len (full_print a) = 66 \/ len (full_print a) = 130.
  Hypothesis full_prefix : forall a,
    tb_eqb (firstn 2 (full_print a)) P_02 || tb_eqb (firstn 2 (full_print a)) P_03
    || tb_eqb (firstn 2 (full_print a)) P_04 = true.
  Hypothesis xonly_rt : forall a, xonly_parse (xonly_print a) = Some a.
  Hypothesis xonly_chars : forall a, forallb hexany (xonly_print a) = true.
  Hypothesis xonly_len : forall a, len (xonly_print a) = 64.

  Notation dkey := (dkey xatom fatom oatom).
  Notation key_parse := (key_parse xatom fatom oatom xpub_parse xpub_depth full_parse xonly_parse).
  Notation key_print := (key_print xatom fatom oatom xpub_print full_print xonly_print).
  Notation key_print_out := (key_print_out xatom fatom oatom xpub_print full_print xonly_print).

  Definition wsteps (w : wildcard) : N := match w with WNone => 0 | _ => 1 end.

  Definition wf_dkey (k : dkey) : Prop :=
    match k with
    | KSingle o _ => wf_origin o
    | KXPub o x p w => wf_origin o /\ Forall wfc p /\ xpub_depth x + N.of_nat (length p) + wsteps w <= 255
    | KMulti o x paths w =>
      wf_origin o /\
      exists pre alts post,
        paths = map (fun a => pre ++ a :: post) alts /\ (2 <= length alts)%nat /\ NoDup alts /\
        Forall wfc pre /\ Forall wfc alts /\ Forall wfc post /\
        xpub_depth x + N.of_nat (length pre + 1 + length post) + wsteps w <= 255
    end.

  Lemma len_cons_ex : forall s n, len s = n -> 0 < n -> exists c r, s = c :: r.
  Proof. intros [|c r] n H Hn; [unfold len in H; cbn in H; lia|eauto]. Qed.

  (* the key part of an extended key: body, then '/'-separated tokens *)
  Lemma xkey_part : forall o x toks,
    wf_origin o -> Forall (fun t => forallb tokch t = true) toks ->
    key_parse (fmt_origin o ++ xpub_print x ++ flat_map (fun t => CH_SLASH :: t) toks)
    = match deriv_loop toks WNone false [] with
      | Err e => Err e
      | Panic p => Panic p
      | Ok (paths, w) =>
        if existsb (fun p => too_deep xatom xpub_depth x w (length p)) paths
           || (match paths with [] => too_deep xatom xpub_depth x w 0 | _ => false end)
        then Err EDerivationPathTooLong
        else match paths with
             | _ :: _ :: _ => Ok (KMulti o x paths w)
             | [p] => Ok (KXPub o x p w)
             | [] => Ok (KXPub o x [] w)
             end
      end.
  Proof.
    intros o x toks Ho Ht. unfold KeyTextModel.key_parse.
    set (B := xpub_print x). set (T := flat_map (fun t => CH_SLASH :: t) toks).
    pose proof (xpub_len x) as HL. fold B in HL.
    assert (len (fmt_origin o ++ B ++ T) <? 64 = false) as ->.
    { apply N.ltb_ge. rewrite !len_app. lia. }
    assert (HB : forallb kch B = true).
    { eapply forallb_imp; [|apply xpub_chars]. intros c Hc. unfold kch. rewrite Hc. reflexivity. }
    rewrite origin_rt; [|exact Ho| |].
    2:{ rewrite forallb_app, HB. apply toks_kch. exact Ht. }
    2:{ destruct (len_cons_ex B _ eq_refl ltac:(lia)) as [c [r E]]. exists c, (r ++ T). rewrite E. split; [reflexivity|].
        pose proof (xpub_chars x) as Hc. fold B in Hc. rewrite E in Hc. cbn [forallb] in Hc. b2p. apply Hc. }
    assert (H4 : firstn 4 (B ++ T) = firstn 4 B).
    { rewrite firstn_app. replace (4 - length B)%nat with 0%nat by (unfold len in HL; lia).
      cbn [firstn]. apply app_nil_r. }
    rewrite H4. pose proof (xpub_prefix x) as HP. fold B in HP.
    assert (tb_eqb (firstn 4 B) X_XPRV || tb_eqb (firstn 4 B) X_TPRV = false) as ->.
    { apply orb_true_iff in HP. destruct HP as [HP|HP]; apply tb_eqb_eq in HP; rewrite HP; reflexivity. }
    rewrite HP. unfold T. rewrite split_tokens.
    2:{ unfold free. eapply forallb_imp; [apply alnum_free47|apply xpub_chars]. }
    2:{ apply toks_free. exact Ht. }
    unfold B. rewrite xpub_rt. reflexivity.
  Qed.

  Lemma existsb_map_false : forall (A B : Type) (f : B -> bool) (g : A -> B) l,
    (forall a, f (g a) = false) -> existsb f (map g l) = false.
  Proof. intros A B f g l H. induction l as [|a r IH]; [reflexivity|]. cbn. rewrite H, IH. reflexivity. Qed.

  Theorem key_print_parse : forall k, wf_dkey k -> key_parse (key_print k) = Ok k.
  Proof.
    intros [o [a|a]|o x p w|o x paths w] Hw; unfold KeyTextModel.key_print; cbn [KeyTextModel.key_print_out wf_dkey] in *.
    - (* full key *)
      unfold KeyTextModel.key_parse. set (K := full_print a).
      pose proof (full_len a) as HL. fold K in HL. pose proof (full_prefix a) as HP. fold K in HP.
      pose proof (full_chars a) as HC. fold K in HC.
      assert (len (fmt_origin o ++ K) <? 64 = false) as ->.
      { apply N.ltb_ge. rewrite len_app. lia. }
      assert (exists c1 c2 r, K = 48 :: c2 :: r /\ c1 = 48) as [c1 [c2 [r [EK _]]]].
      { destruct K as [|c1 [|c2 r]]; try (unfold len in HL; cbn in HL; lia).
        exists c1, c2, r. cbn [firstn] in HP. unfold P_02, P_03, P_04 in HP. cbn [tb_eqb] in HP.
        assert (c1 = 48) by (b2p; lia). subst. split; reflexivity. }
      rewrite origin_rt; [|exact Hw| |].
      2:{ eapply forallb_imp; [|exact HC]. intros c Hc. unfold kch. rewrite Hc. reflexivity. }
      2:{ exists 48, (c2 :: r). split; [exact EK|reflexivity]. }
      assert (Hx : forall X, tb_eqb (firstn 4 K) (X :: nil) = false -> True) by trivial. clear Hx.
      assert (tb_eqb (firstn 4 K) X_XPRV || tb_eqb (firstn 4 K) X_TPRV = false) as -> by (rewrite EK; reflexivity).
      assert (tb_eqb (firstn 4 K) X_XPUB || tb_eqb (firstn 4 K) X_TPUB = false) as -> by (rewrite EK; reflexivity).
      assert (len K =? 64 = false) as -> by (apply N.eqb_neq; lia).
      assert ((len K =? 66) || (len K =? 130) = true) as -> by (b2p; lia).
      rewrite HP. cbn [negb]. rewrite EK at 1. unfold K. rewrite full_rt. reflexivity.
    - (* x-only key *)
      unfold KeyTextModel.key_parse. set (K := xonly_print a).
      pose proof (xonly_len a) as HL. fold K in HL. pose proof (xonly_chars a) as HC. fold K in HC.
      assert (len (fmt_origin o ++ K) <? 64 = false) as ->.
      { apply N.ltb_ge. rewrite len_app. lia. }
      destruct (len_cons_ex K _ HL ltac:(lia)) as [c [r EK]].
      assert (Hc : hexany c = true) by (rewrite EK in HC; cbn [forallb] in HC; b2p; apply HC).
      rewrite origin_rt; [|exact Hw| |].
      2:{ eapply forallb_imp; [|exact HC]. intros y Hy. unfold kch. rewrite (hexany_alnum _ Hy). reflexivity. }
      2:{ exists c, r. split; [exact EK|apply hexany_alnum; exact Hc]. }
      assert (Hn : (c =? 120) = false /\ (c =? 116) = false).
      { unfold hexany, is_digit in Hc. b2p. lia. }
      destruct Hn as [Hn1 Hn2].
      assert (tb_eqb (firstn 4 K) X_XPRV || tb_eqb (firstn 4 K) X_TPRV = false) as ->.
      { rewrite EK. destruct r as [|? [|? [|? ?]]]; cbn [firstn tb_eqb X_XPRV X_TPRV]; rewrite Hn1, Hn2; reflexivity. }
      assert (tb_eqb (firstn 4 K) X_XPUB || tb_eqb (firstn 4 K) X_TPUB = false) as ->.
      { rewrite EK. destruct r as [|? [|? [|? ?]]]; cbn [firstn tb_eqb X_XPUB X_TPUB]; rewrite Hn1, Hn2; reflexivity. }
      rewrite HL. cbn [N.eqb Pos.eqb]. unfold K. rewrite xonly_rt. reflexivity.
    - (* xpub *)
      destruct Hw as [Ho [Hp Hd]].
      replace (fmt_origin o ++ xpub_print x ++ fmt_path p ++ fmt_wild w)
        with (fmt_origin o ++ xpub_print x ++ flat_map (fun t => CH_SLASH :: t) (map print_child p ++ wild_toks w))
        by (rewrite flat_map_app, <- fmt_path_tokens, <- fmt_wild_tokens; reflexivity).
      rewrite xkey_part; [|exact Ho|apply Forall_app; split; [apply child_toks_chars|apply wild_toks_chars]].
      rewrite loop_children by exact Hp. rewrite loop_wild. rewrite push_all_nil.
      destruct p as [|c r].
      + cbn [existsb orb]. unfold too_deep. cbn [length] in *.
        replace (255 <? _) with false; [reflexivity|]. symmetry. apply N.ltb_ge. unfold wsteps in Hd. destruct w; lia.
      + cbn [existsb orb]. unfold too_deep.
        replace (255 <? _) with false; [reflexivity|]. symmetry. apply N.ltb_ge. unfold wsteps in Hd. destruct w; lia.
    - (* multi xpub *)
      destruct Hw as [Ho [pre [alts [post [-> [Hl [Hn [Hpre [Ha [Hpost Hd]]]]]]]]]].
      destruct alts as [|a0 [|a1 more]]; try (cbn in Hl; lia).
      assert (Hne : a0 <> a1).
      { inversion Hn as [|? ? Hni _]; subst. intros ->. apply Hni. left. reflexivity. }
      cbn [map]. pose proof (fmt_paths_spec pre post a0 a1 more Hne) as HF. cbn [map] in HF. rewrite HF.
      replace (fmt_origin o ++ xpub_print x ++
               (fmt_path pre ++ CH_SLASH :: multi_tok (a0 :: a1 :: more) ++ fmt_path post) ++ fmt_wild w)
        with (fmt_origin o ++ xpub_print x ++ flat_map (fun t => CH_SLASH :: t)
               (map print_child pre ++ (multi_tok (a0 :: a1 :: more) :: map print_child post ++ wild_toks w))).
      2:{ rewrite flat_map_app. cbn [flat_map]. rewrite flat_map_app.
          rewrite <- !fmt_path_tokens, <- fmt_wild_tokens. rewrite <- !app_assoc. cbn [app]. rewrite <- !app_assoc. reflexivity. }
      rewrite xkey_part; [|exact Ho|].
      2:{ apply Forall_app; split; [apply child_toks_chars|]. constructor; [apply multi_tok_chars|].
          apply Forall_app; split; [apply child_toks_chars|apply wild_toks_chars]. }
      rewrite loop_children by exact Hpre. rewrite push_all_nil.
      rewrite (loop_multi a0 a1 more _ _ pre Ha Hn).
      2:{ destruct pre; [left; split; reflexivity|right; reflexivity]. }
      rewrite loop_children by exact Hpost. rewrite loop_wild.
      rewrite push_all_ne by discriminate. rewrite map_map.
      assert (EM : map (fun a => (pre ++ [a]) ++ post) (a0 :: a1 :: more)
                   = map (fun a => pre ++ a :: post) (a0 :: a1 :: more)).
      { apply map_ext. intros a. rewrite <- app_assoc. reflexivity. }
      rewrite EM.
      rewrite existsb_map_false.
      2:{ intros a. unfold too_deep. apply N.ltb_ge. rewrite app_length. cbn [length].
          unfold wsteps in Hd. destruct w; lia. }
      cbn [map orb]. reflexivity.
  Qed.
End KeyText.
