(* C08: from the truth tables to script execution, in the direction "compilation never takes
   spending ability away": if the validator accepted the compilation and the policy holds in a
   world W, then the specification's table lists a witness built from W's assets and the Script
   semantics accepts it on the encoded output.  Composition of validator_ok, lift_table_partial
   and Theorem A (coq/Proofs/TheoremA.v: every fragment except raw_pkh). *)
From Coq Require Import List Bool NArith ZArith Lia Permutation.
From Verif Require Import Exec Ser PolicyVal PolicyValProofs PolicyValWorlds PolicyValidator TheoremA PolicyValSat.
Import ListNotations.

(* Theorem A's side condition (no raw_pkh) is the one of the lift table *)
Lemma no_multi_vliftable : forall m, no_multi m -> vliftable m.
Proof.
  induction m using ms_ind'; cbn [no_multi vliftable]; intro Hn; try exact I; try contradiction; auto;
    try (destruct Hn as [H1 H2]; split; [auto|]; try (destruct H2 as [H2 H3]; split); auto; fail).
  all: induction H as [|x r Hx Hr IH]; [exact I|]; destruct Hn as [H1 H2]; split; [apply Hx; exact H1 | apply IH; exact H2].
Qed.

Theorem lifted_true_spendable (e : env) (ke : keyenv) (A : assets) (W : world) m t :
  assets_ok e ke A -> (forall kbs, e_sigok e kbs [] = false) ->
  assets_match A W -> (forall ks, Permutation (ksort ke ks) ks) ->
  type_of m = ROk t -> c_base (t_corr t) = BB -> wf e ke m -> no_multi m ->
  evals W (lift_ms m) = true ->
  exists w, In w (all_sat ke A m) /\ accepts e (enc ke m) w = true.
Proof.
  intros HA Hse HAW Hs Ht Hb Hwf Hnm He.
  pose proof (proj1 (lift_table_partial ke A W m t Hs HAW Ht (no_multi_vliftable m Hnm)) He) as Hne.
  destruct (all_sat ke A m) as [|w r] eqn:E; [congruence|].
  exists w. split; [left; reflexivity|].
  apply (witness_script_accepts e ke A HA Hse m t Ht Hb Hwf Hnm). rewrite E. left; reflexivity.
Qed.

Theorem validated_policy_spendable (e : env) (ke : keyenv) (A : assets) (W : world) c kk pol m att :
  validate_compilation c kk pol m att = true ->
  assets_ok e ke A -> (forall kbs, e_sigok e kbs [] = false) ->
  assets_match A W -> (forall ks, Permutation (ksort ke ks) ks) ->
  wf e ke m -> no_multi m ->
  evalc W pol = true ->
  exists w, In w (all_sat ke A m) /\ accepts e (enc ke m) w = true.
Proof.
  intros Hv HA Hse HAW Hs Hwf Hnm Hp.
  destruct (validator_ok c kk pol m att Hv) as (Heq & _ & F).
  destruct (mf_root _ _ _ _ F) as (t & Ht & _ & Hb & _).
  apply (lifted_true_spendable e ke A W m t); auto. rewrite <- Heq. exact Hp.
Qed.
