(* C13, interp_policy: when the interpreter accepts, the constraints it reported satisfy the
   spending policy of the miniscript.  [psat W m] is the truth value of the lifted policy of [m]
   (Liftable for Terminal: pk/pkh -> key, and/or/andor/thresh/multi as thresholds) in the world
   where exactly the reported constraints [W] hold.  All fragments, no side conditions. *)
From Verif Require Import Exec Ser Ast Types TypeCheck ExecLemmas TheoremA InterpModel InterpRefine.
From Coq Require Import Lia.
Local Open Scope N_scope.

Definition ihk_eqb (a b : ihk) : bool :=
  match a, b with
  | KSha256, KSha256 | KHash256, KHash256 | KRipemd160, KRipemd160 | KHash160, KHash160 => true
  | _, _ => false
  end.

Definition has_key (W : list constr) (k : bytes) : bool :=
  existsb (fun c => match c with CsPk k' _ => bytes_eqb k' k | _ => false end) W.
Definition has_pkh (W : list constr) (h : bytes) : bool :=
  existsb (fun c => match c with CsPkh h' _ _ => bytes_eqb h' h | _ => false end) W.
Definition has_hash (W : list constr) (kd : ihk) (h : bytes) : bool :=
  existsb (fun c => match c with CsHash kd' h' _ => ihk_eqb kd' kd && bytes_eqb h' h | _ => false end) W.
Definition has_after (W : list constr) (t : N) : bool :=
  existsb (fun c => match c with CsAfter t' => N.eqb t' t | _ => false end) W.
Definition has_older (W : list constr) (t : N) : bool :=
  existsb (fun c => match c with CsOlder t' => N.eqb t' t | _ => false end) W.

Definition count_true {A} (f : A -> bool) (l : list A) : N :=
  fold_right (fun x a => (if f x then 1 else 0) + a) 0 l.

(* truth value of lift(m) when exactly the constraints W hold *)
Fixpoint psat (ke : keyenv) (W : list constr) (m : ms) : bool :=
  match m with
  | MTrue => true
  | MFalse => false
  | MPkK k => has_key W (kb ke k)
  | MPkH k => has_pkh W (kh ke k)
  | MRawPkH h => has_pkh W h
  | MAfter t => has_after W t
  | MOlder t => has_older W t
  | MSha256 h => has_hash W KSha256 h
  | MHash256 h => has_hash W KHash256 h
  | MRipemd160 h => has_hash W KRipemd160 h
  | MHash160 h => has_hash W KHash160 h
  | MAlt x | MSwap x | MCheck x | MDupIf x | MVerify x | MNonZero x | MZeroNotEqual x => psat ke W x
  | MAndV x y | MAndB x y => psat ke W x && psat ke W y
  | MOrB x y | MOrC x y | MOrD x y | MOrI x y => psat ke W x || psat ke W y
  | MAndOr a b c => (psat ke W a && psat ke W b) || psat ke W c
  | MThresh k xs =>
    k <=? (fix go (l : list ms) : N := match l with [] => 0 | x :: r => (if psat ke W x then 1 else 0) + go r end) xs
  | MMulti k ks | MSortedMulti k ks | MMultiA k ks | MSortedMultiA k ks =>
    k <=? count_true (fun key => has_key W (kb ke key)) ks
  end.

Section Policy.
  Variable e : env.
  Variable ke : keyenv.
  Variable kp : bytes -> bool.
  Notation ev m st := (ieval e ke kp m st).

  Lemma bytes_eqb_refl' b : bytes_eqb b b = true.
  Proof. induction b as [|x r IH]; [reflexivity|]. cbn. rewrite N.eqb_refl, IH. reflexivity. Qed.

  Lemma has_key_in W k s : In (CsPk k s) W -> has_key W k = true.
  Proof. intros H. apply existsb_exists. exists (CsPk k s). split; [exact H | apply bytes_eqb_refl']. Qed.
  Lemma has_pkh_in W h k s : In (CsPkh h k s) W -> has_pkh W h = true.
  Proof. intros H. apply existsb_exists. exists (CsPkh h k s). split; [exact H | apply bytes_eqb_refl']. Qed.
  Lemma has_hash_in W kd h p : In (CsHash kd h p) W -> has_hash W kd h = true.
  Proof.
    intros H. apply existsb_exists. exists (CsHash kd h p). split; [exact H|].
    rewrite bytes_eqb_refl'. destruct kd; reflexivity.
  Qed.
  Lemma has_after_in W t : In (CsAfter t) W -> has_after W t = true.
  Proof. intros H. apply existsb_exists. exists (CsAfter t). split; [exact H | apply N.eqb_refl]. Qed.
  Lemma has_older_in W t : In (CsOlder t) W -> has_older W t = true.
  Proof. intros H. apply existsb_exists. exists (CsOlder t). split; [exact H | apply N.eqb_refl]. Qed.

  Definition isbool (x : elem) : Prop := x = ESat \/ x = EDis.

  (* B / K / W: a boolean on top; if it is Satisfied, the policy holds in every world containing the
     constraints yielded.  V: normal termination means the policy holds. *)
  Definition polB (m : ms) : Prop :=
    forall st st' cs, ev m st = XOk st' cs ->
      exists x r, st' = x :: r /\ isbool x /\ (x = ESat -> forall W, incl cs W -> psat ke W m = true).
  Definition polV (m : ms) : Prop :=
    forall st st' cs, ev m st = XOk st' cs -> forall W, incl cs W -> psat ke W m = true.
  Definition pol (b : base) (m : ms) : Prop := match b with BV => polV m | _ => polB m end.

  Lemma xbind_ok' r f st' cs : xbind r f = XOk st' cs ->
    exists s1 c1 c2, r = XOk s1 c1 /\ f s1 = XOk st' c2 /\ cs = c1 ++ c2.
  Proof.
    destruct r as [s1 c1|er c1|n]; cbn; try discriminate.
    destruct (f s1) as [s2 c2|er c2|n] eqn:Ef; try discriminate.
    intros H. inversion H; subst. exists s1, c1, c2. auto.
  Qed.
  Lemma xpop_ok' st fs fd st' cs : xpop_bool st fs fd = XOk st' cs ->
    (exists r, st = ESat :: r /\ fs r = XOk st' cs) \/ (exists r, st = EDis :: r /\ fd r = XOk st' cs).
  Proof.
    destruct st as [|[| |b] r]; cbn; try discriminate; intros H; [left | right]; exists r; auto.
  Qed.
  Lemma incl_app_l {A} (a b c : list A) : incl (a ++ b) c -> incl a c.
  Proof. intros H x Hx. apply H, in_or_app. auto. Qed.
  Lemma incl_app_r {A} (a b c : list A) : incl (a ++ b) c -> incl b c.
  Proof. intros H x Hx. apply H, in_or_app. auto. Qed.

  (* ---------------------------------------------------------------- leaves *)
  Lemma p_pk_gen (m : ms) k : (forall st, ev m st = x_of_ev (evaluate_pk e k st)) ->
    (forall W, psat ke W m = has_key W k) -> polB m.
  Proof.
    intros Hev Hps st st' cs H. rewrite Hev in H. unfold evaluate_pk in H.
    destruct st as [|[| |s] r]; cbn in H; try discriminate.
    - inversion H; subst. exists EDis, r. repeat split; [right; reflexivity | discriminate].
    - destruct (e_sigok e k s); cbn in H; [|discriminate]. inversion H; subst.
      exists ESat, r. repeat split; [left; reflexivity|]. intros _ W HW. rewrite Hps.
      apply (has_key_in W k s), HW. left. reflexivity.
  Qed.

  Lemma p_pkh_gen (m : ms) h : (forall st, ev m st = x_of_ev (evaluate_pkh e kp h st)) ->
    (forall W, psat ke W m = has_pkh W h) -> polB m.
  Proof.
    intros Hev Hps st st' cs H. rewrite Hev in H. unfold evaluate_pkh in H.
    destruct st as [|[| |pk] r]; cbn in H; try discriminate.
    destruct (negb (bytes_eqb (e_hash160 e pk) h)); cbn in H; [discriminate|].
    destruct (negb (kp pk)); cbn in H; [discriminate|].
    destruct r as [|[| |s] r']; cbn in H; try discriminate.
    - inversion H; subst. exists EDis, r'. repeat split; [right; reflexivity | discriminate].
    - destruct (e_sigok e pk s); cbn in H; [|discriminate]. inversion H; subst.
      exists ESat, r'. repeat split; [left; reflexivity|]. intros _ W HW. rewrite Hps.
      apply (has_pkh_in W h pk s), HW. left. reflexivity.
  Qed.

  Lemma p_hash_gen (m : ms) kd h : (forall st, ev m st = x_of_ev (evaluate_hash e kd h st)) ->
    (forall W, psat ke W m = has_hash W kd h) -> polB m.
  Proof.
    intros Hev Hps st st' cs H. rewrite Hev in H. unfold evaluate_hash in H.
    destruct st as [|[| |p] r]; cbn in H; try discriminate.
    destruct (negb (blen p =? 32)); cbn in H; [discriminate|].
    destruct (bytes_eqb (hash_of e kd p) h); cbn in H; inversion H; subst.
    - exists ESat, r. repeat split; [left; reflexivity|]. intros _ W HW. rewrite Hps.
      apply (has_hash_in W kd h p), HW. left. reflexivity.
    - exists EDis, r. repeat split; [right; reflexivity | discriminate].
  Qed.

  Lemma p_after t : polB (MAfter t).
  Proof.
    intros st st' cs H. cbn [ieval] in H. unfold evaluate_after in H.
    destruct (e_sequence e =? SEQ_FINAL); cbn in H; [discriminate|].
    destruct (Bool.eqb _ _); cbn in H; [|discriminate]. destruct (t <=? e_locktime e); cbn in H; [|discriminate].
    inversion H; subst. exists ESat, st. repeat split; [left; reflexivity|]. intros _ W HW. cbn [psat].
    apply has_after_in, HW. left. reflexivity.
  Qed.
  Lemma p_older t : polB (MOlder t).
  Proof.
    intros st st' cs H. cbn [ieval] in H. destruct (negb (N.land t SEQ_DISABLE =? 0)); [discriminate|].
    unfold evaluate_older in H. destruct (e_txversion e <? 2); cbn in H; [discriminate|].
    destruct (negb _); cbn in H; [discriminate|].
    destruct (_ && _); cbn in H; [|discriminate].
    inversion H; subst. exists ESat, st. repeat split; [left; reflexivity|]. intros _ W HW. cbn [psat].
    apply has_older_in, HW. left. reflexivity.
  Qed.

  (* ---------------------------------------------------------------- wrappers *)
  Lemma p_same x y : (forall st, ev y st = ev x st) -> (forall W, psat ke W y = psat ke W x) -> polB x -> polB y.
  Proof.
    intros Hev Hps Hx st st' cs H. rewrite Hev in H. destruct (Hx st st' cs H) as [x0 [r [-> [Hb Hp]]]].
    exists x0, r. repeat split; [exact Hb|]. intros E W HW. rewrite Hps. apply Hp; assumption.
  Qed.

  Lemma p_dupif x : polV x -> polB (MDupIf x).
  Proof.
    intros Hx st st' cs H. cbn [ieval] in H. apply xpop_ok' in H. destruct H as [[r0 [-> H]]|[r0 [-> H]]].
    - apply xbind_ok' in H. destruct H as [s1 [c1 [c2 [Hx1 [Hf ->]]]]]. inversion Hf; subst.
      exists ESat, s1. repeat split; [left; reflexivity|]. intros _ W HW. cbn [psat].
      apply (Hx r0 s1 c1 Hx1). rewrite app_nil_r in HW. exact HW.
    - inversion H; subst. exists EDis, r0. repeat split; [right; reflexivity | discriminate].
  Qed.

  Lemma p_verify x : polB x -> polV (MVerify x).
  Proof.
    intros Hx st st' cs H W HW. cbn [ieval] in H. apply xbind_ok' in H. destruct H as [s1 [c1 [c2 [Hx1 [Hf ->]]]]].
    destruct (Hx st s1 c1 Hx1) as [x0 [r [-> [_ Hp]]]]. destruct x0; try discriminate.
    cbn [psat]. apply Hp; [reflexivity | exact (incl_app_l _ _ _ HW)].
  Qed.

  Lemma p_zne x : polB x -> polB (MZeroNotEqual x).
  Proof.
    intros Hx st st' cs H. cbn [ieval] in H. apply xbind_ok' in H. destruct H as [s1 [c1 [c2 [Hx1 [Hf ->]]]]].
    destruct (Hx st s1 c1 Hx1) as [x0 [r [-> [Hb Hp]]]].
    destruct Hb as [-> | ->]; inversion Hf; subst.
    - exists ESat, r. repeat split; [left; reflexivity|]. intros _ W HW. cbn [psat].
      apply Hp; [reflexivity | exact (incl_app_l _ _ _ HW)].
    - exists EDis, r. repeat split; [right; reflexivity | discriminate].
  Qed.

  Lemma p_nonzero x : polB x -> polB (MNonZero x).
  Proof.
    intros Hx st st' cs H. cbn [ieval] in H. destruct st as [|a r0]; [discriminate|].
    destruct a.
    - destruct (Hx _ _ _ H) as [x0 [r [-> [Hb Hp]]]]. exists x0, r. repeat split; [exact Hb | exact Hp].
    - inversion H; subst. exists EDis, r0. repeat split; [right; reflexivity | discriminate].
    - destruct (Hx _ _ _ H) as [x0 [r [-> [Hb Hp]]]]. exists x0, r. repeat split; [exact Hb | exact Hp].
  Qed.

  (* ---------------------------------------------------------------- binary / ternary *)
  Lemma p_and_v x y b : polV x -> pol b y -> pol b (MAndV x y).
  Proof.
    intros Hx Hy. destruct b; cbn [pol] in *.
    1,2,4: (intros st st' cs H; cbn [ieval] in H; apply xbind_ok' in H; destruct H as [s1 [c1 [c2 [Hx1 [Hy1 ->]]]]];
            destruct (Hy s1 st' c2 Hy1) as [y0 [r [-> [Hb Hp]]]]; exists y0, r; repeat split; [exact Hb|];
            intros E W HW; cbn [psat]; rewrite (Hx st s1 c1 Hx1 W (incl_app_l _ _ _ HW));
            apply Hp; [exact E | exact (incl_app_r _ _ _ HW)]).
    intros st st' cs H W HW. cbn [ieval] in H. apply xbind_ok' in H. destruct H as [s1 [c1 [c2 [Hx1 [Hy1 ->]]]]].
    cbn [psat]. rewrite (Hx st s1 c1 Hx1 W (incl_app_l _ _ _ HW)). apply (Hy s1 st' c2 Hy1), (incl_app_r _ _ _ HW).
  Qed.

  Lemma p_and_b x y : polB x -> polB y -> polB (MAndB x y).
  Proof.
    intros Hx Hy st st' cs H. cbn [ieval] in H. apply xbind_ok' in H. destruct H as [s1 [c1 [c2 [Hx1 [Hf ->]]]]].
    destruct (Hx st s1 c1 Hx1) as [x0 [r1 [-> [Hbx Hpx]]]].
    apply xpop_ok' in Hf. destruct Hf as [[r [E Hf]]|[r [E Hf]]]; inversion E; subst; clear E;
      apply xbind_ok' in Hf; destruct Hf as [s2 [cy [c3 [Hy1 [Hf ->]]]]];
      destruct (Hy r s2 cy Hy1) as [y0 [r2 [-> [Hby Hpy]]]]; inversion Hf; subst.
    - exists (if is_sat y0 then ESat else EDis), r2. repeat split.
      + destruct Hby as [-> | ->]; [left | right]; reflexivity.
      + intros E W HW. cbn [psat]. rewrite (Hpx eq_refl W (incl_app_l _ _ _ HW)).
        destruct Hby as [-> | ->]; [|discriminate].
        apply Hpy; [reflexivity|]. exact (incl_app_l _ _ _ (incl_app_r _ _ _ HW)).
    - exists EDis, r2. repeat split; [right; reflexivity | discriminate].
  Qed.

  Lemma p_or_b x y : polB x -> polB y -> polB (MOrB x y).
  Proof.
    intros Hx Hy st st' cs H. cbn [ieval] in H. apply xbind_ok' in H. destruct H as [s1 [c1 [c2 [Hx1 [Hf ->]]]]].
    destruct (Hx st s1 c1 Hx1) as [x0 [r1 [-> [Hbx Hpx]]]].
    apply xpop_ok' in Hf. destruct Hf as [[r [E Hf]]|[r [E Hf]]]; inversion E; subst; clear E;
      apply xbind_ok' in Hf; destruct Hf as [s2 [cy [c3 [Hy1 [Hf ->]]]]];
      destruct (Hy r s2 cy Hy1) as [y0 [r2 [-> [Hby Hpy]]]]; inversion Hf; subst.
    - exists ESat, r2. repeat split; [left; reflexivity|]. intros _ W HW. cbn [psat].
      rewrite (Hpx eq_refl W (incl_app_l _ _ _ HW)). reflexivity.
    - exists (if is_dis y0 then EDis else ESat), r2. repeat split.
      + destruct Hby as [-> | ->]; [left | right]; reflexivity.
      + intros E W HW. cbn [psat]. destruct Hby as [-> | ->]; [|discriminate].
        rewrite (Hpy eq_refl W (incl_app_l _ _ _ (incl_app_r _ _ _ HW))). apply orb_true_r.
  Qed.

  Lemma p_or_c x y : polB x -> polV y -> polV (MOrC x y).
  Proof.
    intros Hx Hy st st' cs H W HW. cbn [ieval] in H. apply xbind_ok' in H. destruct H as [s1 [c1 [c2 [Hx1 [Hf ->]]]]].
    destruct (Hx st s1 c1 Hx1) as [x0 [r1 [-> [Hbx Hpx]]]]. cbn [psat].
    apply xpop_ok' in Hf. destruct Hf as [[r [E Hf]]|[r [E Hf]]]; inversion E; subst; clear E.
    - rewrite (Hpx eq_refl W (incl_app_l _ _ _ HW)). reflexivity.
    - rewrite (Hy r st' c2 Hf W (incl_app_r _ _ _ HW)). apply orb_true_r.
  Qed.

  Lemma p_or_d x y : polB x -> polB y -> polB (MOrD x y).
  Proof.
    intros Hx Hy st st' cs H. cbn [ieval] in H. apply xbind_ok' in H. destruct H as [s1 [c1 [c2 [Hx1 [Hf ->]]]]].
    destruct (Hx st s1 c1 Hx1) as [x0 [r1 [-> [Hbx Hpx]]]].
    apply xpop_ok' in Hf. destruct Hf as [[r [E Hf]]|[r [E Hf]]]; inversion E; subst; clear E.
    - inversion Hf; subst. exists ESat, r. repeat split; [left; reflexivity|]. intros _ W HW. cbn [psat].
      rewrite (Hpx eq_refl W (incl_app_l _ _ _ HW)). reflexivity.
    - destruct (Hy r st' c2 Hf) as [y0 [r2 [-> [Hby Hpy]]]]. exists y0, r2. repeat split; [exact Hby|].
      intros E W HW. cbn [psat]. rewrite (Hpy E W (incl_app_r _ _ _ HW)). apply orb_true_r.
  Qed.

  Lemma p_or_i x y b : pol b x -> pol b y -> pol b (MOrI x y).
  Proof.
    intros Hx Hy. destruct b; cbn [pol] in *.
    1,2,4: (intros st st' cs H; cbn [ieval] in H; apply xpop_ok' in H; destruct H as [[r0 [-> H]]|[r0 [-> H]]];
            [ destruct (Hx r0 st' cs H) as [x0 [r [-> [Hb Hp]]]]; exists x0, r; repeat split; [exact Hb|];
              intros E W HW; cbn [psat]; rewrite (Hp E W HW); reflexivity
            | destruct (Hy r0 st' cs H) as [x0 [r [-> [Hb Hp]]]]; exists x0, r; repeat split; [exact Hb|];
              intros E W HW; cbn [psat]; rewrite (Hp E W HW); apply orb_true_r ]).
    intros st st' cs H W HW. cbn [ieval] in H. apply xpop_ok' in H. destruct H as [[r0 [-> H]]|[r0 [-> H]]]; cbn [psat].
    - rewrite (Hx r0 st' cs H W HW). reflexivity.
    - rewrite (Hy r0 st' cs H W HW). apply orb_true_r.
  Qed.

  Lemma p_andor a b c bb : polB a -> pol bb b -> pol bb c -> pol bb (MAndOr a b c).
  Proof.
    intros Ha Hb Hc. destruct bb; cbn [pol] in *.
    1,2,4: (intros st st' cs H; cbn [ieval] in H; apply xbind_ok' in H; destruct H as [s1 [c1 [c2 [Ha1 [Hf ->]]]]];
            destruct (Ha st s1 c1 Ha1) as [x0 [r1 [-> [Hbx Hpx]]]];
            apply xpop_ok' in Hf; destruct Hf as [[r [E Hf]]|[r [E Hf]]]; inversion E; subst; clear E;
            [ destruct (Hb r st' c2 Hf) as [y0 [r2 [-> [Hby Hpy]]]]; exists y0, r2; repeat split; [exact Hby|];
              intros E W HW; cbn [psat]; rewrite (Hpx eq_refl W (incl_app_l _ _ _ HW)), (Hpy E W (incl_app_r _ _ _ HW)); reflexivity
            | destruct (Hc r st' c2 Hf) as [y0 [r2 [-> [Hby Hpy]]]]; exists y0, r2; repeat split; [exact Hby|];
              intros E W HW; cbn [psat]; rewrite (Hpy E W (incl_app_r _ _ _ HW)); apply orb_true_r ]).
    intros st st' cs H W HW. cbn [ieval] in H. apply xbind_ok' in H. destruct H as [s1 [c1 [c2 [Ha1 [Hf ->]]]]].
    destruct (Ha st s1 c1 Ha1) as [x0 [r1 [-> [Hbx Hpx]]]]. cbn [psat].
    apply xpop_ok' in Hf. destruct Hf as [[r [E Hf]]|[r [E Hf]]]; inversion E; subst; clear E.
    - rewrite (Hpx eq_refl W (incl_app_l _ _ _ HW)), (Hb r st' c2 Hf W (incl_app_r _ _ _ HW)). reflexivity.
    - rewrite (Hc r st' c2 Hf W (incl_app_r _ _ _ HW)). apply orb_true_r.
  Qed.


  (* ---------------------------------------------------------------- thresh *)
  Definition pcount (W : list constr) : list ms -> N :=
    fix go (l : list ms) : N := match l with [] => 0 | x :: r => (if psat ke W x then 1 else 0) + go r end.
  Lemma psat_thresh W k xs : psat ke W (MThresh k xs) = (k <=? pcount W xs).
  Proof. reflexivity. Qed.

  Definition topsat (s : astack) : N := match s with ESat :: _ => 1 | _ => 0 end.

  Lemma p_tloop k l : Forall polB l ->
    forall ns s st' cs c0, tloop e ke kp k l ns s = XOk st' cs -> ns + topsat s <= c0 ->
      exists x r, st' = x :: r /\ isbool x /\ (x = ESat -> forall W, incl cs W -> k <= c0 + pcount W l).
  Proof.
    induction 1 as [|x l' Hx Hl IH]; intros ns s st' cs c0 H Hc.
    - cbn [tloop] in H. destruct s as [|[| |b] r]; try discriminate.
      + destruct (k =? 0) eqn:Ek; [discriminate|]. inversion H; subst. cbn [topsat] in Hc.
        eexists _, r. split; [reflexivity|]. split; [destruct (ns =? k - 1); [left | right]; reflexivity|].
        intros E W _. destruct (N.eqb_spec ns (k - 1)); [|discriminate]. apply N.eqb_neq in Ek. cbn [pcount]. lia.
      + inversion H; subst. cbn [topsat] in Hc.
        eexists _, r. split; [reflexivity|]. split; [destruct (ns =? k); [left | right]; reflexivity|].
        intros E W _. destruct (N.eqb_spec ns k); [|discriminate]. cbn [pcount]. lia.
    - cbn [tloop] in H. apply xpop_ok' in H. destruct H as [[r [-> H]]|[r [-> H]]]; cbn [topsat] in Hc;
        apply xbind_ok' in H; destruct H as [s1 [c1 [c2 [Hx1 [Hf ->]]]]];
        destruct (Hx r s1 c1 Hx1) as [x1 [r1 [-> [Hb1 Hp1]]]].
      + destruct (IH (ns + 1) (x1 :: r1) st' c2 (c0 + topsat (x1 :: r1)) Hf ltac:(lia)) as [x2 [r2 [-> [Hb2 Hp2]]]].
        exists x2, r2. split; [reflexivity|]. split; [exact Hb2|]. intros E W HW.
        specialize (Hp2 E W (incl_app_r _ _ _ HW)). cbn [pcount].
        destruct Hb1 as [-> | ->]; cbn [topsat] in Hp2.
        * rewrite (Hp1 eq_refl W (incl_app_l _ _ _ HW)). lia.
        * destruct (psat ke W x); lia.
      + destruct (IH ns (x1 :: r1) st' c2 (c0 + topsat (x1 :: r1)) Hf ltac:(lia)) as [x2 [r2 [-> [Hb2 Hp2]]]].
        exists x2, r2. split; [reflexivity|]. split; [exact Hb2|]. intros E W HW.
        specialize (Hp2 E W (incl_app_r _ _ _ HW)). cbn [pcount].
        destruct Hb1 as [-> | ->]; cbn [topsat] in Hp2.
        * rewrite (Hp1 eq_refl W (incl_app_l _ _ _ HW)). lia.
        * destruct (psat ke W x); lia.
  Qed.

  Lemma p_thresh k xs : Forall polB xs -> polB (MThresh k xs).
  Proof.
    intros Hall st st' cs H. destruct xs as [|x0 rest]; [discriminate|].
    rewrite ev_thresh in H. inversion Hall as [|? ? Hx0 Hrest]; subst.
    apply xbind_ok' in H. destruct H as [s1 [c1 [c2 [Hx1 [Hf ->]]]]].
    destruct (Hx0 st s1 c1 Hx1) as [x1 [r1 [-> [Hb1 Hp1]]]].
    destruct (p_tloop k rest Hrest 0 (x1 :: r1) st' c2 (topsat (x1 :: r1)) Hf ltac:(lia)) as [x2 [r2 [-> [Hb2 Hp2]]]].
    exists x2, r2. split; [reflexivity|]. split; [exact Hb2|]. intros E W HW.
    specialize (Hp2 E W (incl_app_r _ _ _ HW)). rewrite psat_thresh. apply N.leb_le. cbn [pcount].
    destruct Hb1 as [-> | ->]; cbn [topsat] in Hp2.
    - rewrite (Hp1 eq_refl W (incl_app_l _ _ _ HW)). lia.
    - destruct (psat ke W x0); lia.
  Qed.

  (* ---------------------------------------------------------------- multi_a / multi *)
  Notation kcount W l := (count_true (fun key => has_key W (kb ke key)) l).

  Lemma count_true_app {A} (f : A -> bool) a b : count_true f (a ++ b) = count_true f a + count_true f b.
  Proof. unfold count_true. induction a as [|x r IH]; cbn [app fold_right]; [reflexivity|]. rewrite IH. lia. Qed.
  Lemma count_true_rev {A} (f : A -> bool) l : count_true f (rev l) = count_true f l.
  Proof. induction l as [|x r IH]; [reflexivity|]. cbn [rev]. rewrite count_true_app, IH. unfold count_true. cbn [fold_right]. lia. Qed.

  Lemma ev_pk_constr k st st' c : evaluate_pk e k st = EvOk st' c -> exists s, c = CsPk k s.
  Proof.
    unfold evaluate_pk. destruct st as [|[| |s] r]; try discriminate.
    destruct (e_sigok e k s); [|discriminate]. intros H. inversion H. eauto.
  Qed.
  Lemma ev_multi_constr k st st' c : evaluate_multi e k st = EvOk st' c -> exists s, c = CsPk k s.
  Proof.
    unfold evaluate_multi. destruct st as [|[| |s] r]; try discriminate.
    destruct (e_sigok e k s); [|discriminate]. intros H. inversion H. eauto.
  Qed.

  Lemma p_multi_a_loop k l : forall ns st st' cs c0, multi_a_loop e ke k l ns st = XOk st' cs -> ns <= c0 ->
    exists x r, st' = x :: r /\ isbool x /\ (x = ESat -> forall W, incl cs W -> k <= c0 + kcount W l).
  Proof.
    induction l as [|key l' IH]; intros ns st st' cs c0 H Hc.
    - cbn [multi_a_loop] in H. inversion H; subst. eexists _, st. split; [reflexivity|].
      split; [destruct (ns =? k); [left | right]; reflexivity|].
      intros E W _. destruct (N.eqb_spec ns k); [|discriminate]. cbn. lia.
    - cbn [multi_a_loop] in H. destruct (evaluate_pk e (kb ke key) st) as [s1|s1 c|er] eqn:Ev; try discriminate.
      + destruct s1 as [|a r]; [discriminate|].
        destruct (IH ns r st' cs c0 H Hc) as [x [r' [-> [Hb Hp]]]]. exists x, r'. split; [reflexivity|]. split; [exact Hb|].
        intros E W HW. specialize (Hp E W HW). unfold count_true in *; cbn [fold_right]. destruct (has_key W (kb ke key)); lia.
      + destruct s1 as [|a r]; [discriminate|]. apply xbind_ok' in H. destruct H as [s2 [c1 [c2 [H1 [Hf ->]]]]].
        inversion H1; subst. destruct (IH (ns + 1) s2 st' c2 (c0 + 1) Hf ltac:(lia)) as [x [r' [-> [Hb Hp]]]].
        exists x, r'. split; [reflexivity|]. split; [exact Hb|]. intros E W HW.
        specialize (Hp E W (incl_app_r _ _ _ HW)). destruct (ev_pk_constr _ _ _ _ Ev) as [sg ->].
        unfold count_true in *; cbn [fold_right]. rewrite (has_key_in W (kb ke key) sg) by (apply HW; left; reflexivity). lia.
  Qed.

  Lemma p_multi_a_gen (m : ms) k ks : (forall st, ev m st = multi_a_loop e ke k ks 0 st) ->
    (forall W, psat ke W m = (k <=? kcount W ks)) -> polB m.
  Proof.
    intros Hev Hps st st' cs H. rewrite Hev in H.
    destruct (p_multi_a_loop k ks 0 st st' cs 0 H ltac:(lia)) as [x [r [-> [Hb Hp]]]].
    exists x, r. split; [reflexivity|]. split; [exact Hb|]. intros E W HW. rewrite Hps. apply N.leb_le.
    specialize (Hp E W HW). lia.
  Qed.

  Lemma p_multi_loop k l : forall ns st st' cs c0, multi_loop e ke k l ns st = XOk st' cs -> ns <= c0 ->
    exists x r, st' = x :: r /\ isbool x /\ (x = ESat -> forall W, incl cs W -> k <= c0 + kcount W l).
  Proof.
    induction l as [|key l' IH]; intros ns st st' cs c0 H Hc.
    - cbn [multi_loop] in H. destruct (N.eqb_spec ns k); [|discriminate].
      destruct st as [|[| |b] r]; try discriminate. inversion H; subst.
      exists ESat, r. split; [reflexivity|]. split; [left; reflexivity|]. intros _ W _. cbn. lia.
    - cbn [multi_loop] in H. destruct (N.eqb_spec ns k).
      + destruct st as [|[| |b] r]; try discriminate. inversion H; subst.
        exists ESat, r. split; [reflexivity|]. split; [left; reflexivity|]. intros _ W _. lia.
      + destruct (evaluate_multi e (kb ke key) st) as [s1|s1 c|er] eqn:Ev; try discriminate.
        * destruct (IH ns s1 st' cs c0 H Hc) as [x [r' [-> [Hb Hp]]]]. exists x, r'. split; [reflexivity|]. split; [exact Hb|].
          intros E W HW. specialize (Hp E W HW). unfold count_true in *; cbn [fold_right]. destruct (has_key W (kb ke key)); lia.
        * apply xbind_ok' in H. destruct H as [s2 [c1 [c2 [H1 [Hf ->]]]]]. inversion H1; subst.
          destruct (IH (ns + 1) s2 st' c2 (c0 + 1) Hf ltac:(lia)) as [x [r' [-> [Hb Hp]]]].
          exists x, r'. split; [reflexivity|]. split; [exact Hb|]. intros E W HW.
          specialize (Hp E W (incl_app_r _ _ _ HW)). destruct (ev_multi_constr _ _ _ _ Ev) as [sg ->].
          unfold count_true in *; cbn [fold_right]. rewrite (has_key_in W (kb ke key) sg) by (apply HW; left; reflexivity). lia.
  Qed.

  Lemma p_multi_gen (m : ms) k ks : (forall st, ev m st = multi_eval e ke k ks st) ->
    (forall W, psat ke W m = (k <=? kcount W ks)) -> polB m.
  Proof.
    intros Hev Hps st st' cs H. rewrite Hev in H. unfold multi_eval in H.
    destruct (N.of_nat (length st) <? k + 1); [discriminate|].
    assert (Hfin : forall x r, st' = x :: r -> isbool x ->
              (x = ESat -> forall W, incl cs W -> k <= kcount W (rev ks)) ->
              exists x r, st' = x :: r /\ isbool x /\ (x = ESat -> forall W, incl cs W -> psat ke W m = true)).
    { intros x r -> Hb Hp. exists x, r. split; [reflexivity|]. split; [exact Hb|]. intros E W HW.
      rewrite Hps. apply N.leb_le. rewrite <- count_true_rev. apply Hp; assumption. }
    destruct st as [|a st0]; [discriminate|].
    destruct a.
    - destruct (rev ks) as [|key l'] eqn:Er; [discriminate|]. discriminate.
    - destruct (forallb is_dis _); [|discriminate]. inversion H; subst.
      eapply Hfin; [reflexivity | right; reflexivity | discriminate].
    - destruct (rev ks) as [|key l'] eqn:Er; [discriminate|].
      destruct (evaluate_multi e (kb ke key) (EPush b :: st0)) as [s1|s1 c|er] eqn:Ev; try discriminate.
      + destruct (p_multi_loop k l' 0 s1 st' cs 0 H ltac:(lia)) as [x [r' [-> [Hb Hp]]]].
        eapply Hfin; [reflexivity | exact Hb|]. intros E W HW. specialize (Hp E W HW).
        unfold count_true in *; cbn [fold_right]. destruct (has_key W (kb ke key)); lia.
      + apply xbind_ok' in H. destruct H as [s2 [c1 [c2 [H1 [Hf ->]]]]]. inversion H1; subst.
        destruct (p_multi_loop k l' 1 s2 st' c2 1 Hf ltac:(lia)) as [x [r' [-> [Hb Hp]]]].
        eapply Hfin; [reflexivity | exact Hb|]. intros E W HW. specialize (Hp E W (incl_app_r _ _ _ HW)).
        destruct (ev_multi_constr _ _ _ _ Ev) as [sg ->].
        unfold count_true in *; cbn [fold_right]. rewrite (has_key_in W (kb ke key) sg) by (apply HW; left; reflexivity). lia.
  Qed.

  (* ---------------------------------------------------------------- typing dispatch *)
  Definition pstmt (m : ms) : Prop := forall t, type_of m = ROk t -> pol (c_base (t_corr t)) m.

  Ltac unf H := unfold t_cast_alt, t_cast_swap, t_cast_check, t_cast_dupif, t_cast_verify, t_cast_nonzero,
    t_cast_zeronotequal, t_and_v, t_and_b, t_or_b, t_or_c, t_or_d, t_or_i, t_and_or, lift1, lift2,
    c_cast_alt, c_cast_swap, c_cast_check, c_cast_dupif, c_cast_verify, c_cast_nonzero, c_cast_zeronotequal,
    c_and_v, c_and_b, c_or_b, c_or_c, c_or_d, c_or_i, c_and_or in H; cbn [t_corr t_mall c_base c_input c_dissat c_unit] in H.

  Ltac one_child IH Ht tx Hs :=
    cbn [type_of] in Ht; apply rbind_ok in Ht; destruct Ht as [tx [?Hx Ht]];
    pose proof (IH tx Hx) as Hs; destruct tx as [[?bx ?ix ?dx ?ux] ?mx]; unf Ht; cbn [t_corr c_base] in *.
  Ltac two_children IHx IHy Ht Hsx Hsy :=
    cbn [type_of] in Ht; apply rbind_ok in Ht; destruct Ht as [?tx [?Hx Ht]];
    apply rbind_ok in Ht; destruct Ht as [?ty [?Hy Ht]];
    pose proof (IHx _ Hx) as Hsx; pose proof (IHy _ Hy) as Hsy;
    destruct tx as [[?bx ?ix ?dx ?ux] ?mx]; destruct ty as [[?b2 ?i2 ?d2 ?u2] ?m2]; unf Ht; cbn [t_corr c_base] in *.

  Lemma polB_of b m : b <> BV -> pol b m -> polB m.
  Proof. destruct b; cbn; intros Hb H; try exact H. contradiction. Qed.

  Theorem ieval_policy : forall m, pstmt m.
  Proof.
    induction m using ms_ind'; intros ty0 Ht.
    - inversion Ht; subst. intros st st' cs H. inversion H; subst. exists ESat, st. repeat split. left; reflexivity.
    - inversion Ht; subst. intros st st' cs H. inversion H; subst. exists EDis, st.
      repeat split; [right; reflexivity | discriminate].
    - inversion Ht; subst. apply (p_pk_gen (MPkK k) (kb ke k)); reflexivity.
    - inversion Ht; subst. apply (p_pkh_gen (MPkH k) (kh ke k)); reflexivity.
    - inversion Ht; subst. apply (p_pkh_gen (MRawPkH h) h); reflexivity.
    - inversion Ht; subst. apply p_after.
    - inversion Ht; subst. apply p_older.
    - inversion Ht; subst. apply (p_hash_gen (MSha256 h) KSha256 h); reflexivity.
    - inversion Ht; subst. apply (p_hash_gen (MHash256 h) KHash256 h); reflexivity.
    - inversion Ht; subst. apply (p_hash_gen (MRipemd160 h) KRipemd160 h); reflexivity.
    - inversion Ht; subst. apply (p_hash_gen (MHash160 h) KHash160 h); reflexivity.
    - one_child IHm Ht tx Hs. destruct bx; try discriminate. inversion Ht; subst. cbn. apply (p_same m); auto.
    - one_child IHm Ht tx Hs. destruct bx; try discriminate; destruct ix; try discriminate; inversion Ht; subst; cbn; apply (p_same m); auto.
    - one_child IHm Ht tx Hs. destruct bx; try discriminate. inversion Ht; subst. cbn. apply (p_same m); auto.
    - one_child IHm Ht tx Hs. destruct bx; try discriminate; destruct ix; try discriminate. inversion Ht; subst. cbn. apply p_dupif, Hs.
    - one_child IHm Ht tx Hs. destruct bx; try discriminate. inversion Ht; subst. cbn. apply p_verify, Hs.
    - one_child IHm Ht tx Hs. destruct ix; cbn in Ht; try discriminate; destruct bx; try discriminate; inversion Ht; subst; cbn; apply p_nonzero, Hs.
    - one_child IHm Ht tx Hs. destruct bx; try discriminate. inversion Ht; subst. cbn. apply p_zne, Hs.
    - two_children IHm1 IHm2 Ht Hsx Hsy.
      destruct bx, b2; try discriminate; inversion Ht; subst; cbn [t_corr c_base].
      + apply (p_and_v m1 m2 BB); assumption.
      + apply (p_and_v m1 m2 BK); assumption.
      + apply (p_and_v m1 m2 BV); assumption.
    - two_children IHm1 IHm2 Ht Hsx Hsy.
      destruct bx, b2; try discriminate; inversion Ht; subst; cbn. apply p_and_b; assumption.
    - cbn [type_of] in Ht. apply rbind_ok in Ht. destruct Ht as [ta [Ha Ht]].
      apply rbind_ok in Ht. destruct Ht as [tb [Hb Ht]]. apply rbind_ok in Ht. destruct Ht as [tc [Hc Ht]].
      pose proof (IHm1 ta Ha) as Hsa. pose proof (IHm2 tb Hb) as Hsb. pose proof (IHm3 tc Hc) as Hsc.
      destruct ta as [[ba ia da ua] ma], tb as [[bb ib db ub] mb], tc as [[bc ic dc uc] mc]. unf Ht. cbn [t_corr c_base] in *.
      destruct da; cbn [negb] in Ht; try discriminate. destruct ua; cbn [negb] in Ht; try discriminate.
      destruct ba, bb, bc; try discriminate; inversion Ht; subst; cbn [t_corr c_base].
      + apply (p_andor m1 m2 m3 BB); assumption.
      + apply (p_andor m1 m2 m3 BK); assumption.
      + apply (p_andor m1 m2 m3 BV); assumption.
    - two_children IHm1 IHm2 Ht Hsx Hsy.
      destruct dx; cbn [negb] in Ht; try discriminate. destruct d2; cbn [negb] in Ht; try discriminate.
      destruct bx, b2; try discriminate; inversion Ht; subst; cbn. apply p_or_b; assumption.
    - two_children IHm1 IHm2 Ht Hsx Hsy.
      destruct dx; cbn [negb] in Ht; try discriminate. destruct ux; cbn [negb] in Ht; try discriminate.
      destruct bx, b2; try discriminate; inversion Ht; subst; cbn. apply p_or_d; assumption.
    - two_children IHm1 IHm2 Ht Hsx Hsy.
      destruct dx; cbn [negb] in Ht; try discriminate. destruct ux; cbn [negb] in Ht; try discriminate.
      destruct bx, b2; try discriminate; inversion Ht; subst; cbn. apply p_or_c; assumption.
    - two_children IHm1 IHm2 Ht Hsx Hsy.
      destruct bx, b2; try discriminate; inversion Ht; subst; cbn [t_corr c_base].
      + apply (p_or_i m1 m2 BB); assumption.
      + apply (p_or_i m1 m2 BK); assumption.
      + apply (p_or_i m1 m2 BV); assumption.
    - (* thresh: every child is B or W, hence polB *)
      cbn [type_of] in Ht. fold (tys_of xs) in Ht. apply rbind_ok in Ht. destruct Ht as [ts [Hts Ht]].
      apply tys_of_ok in Hts. unfold t_threshold in Ht.
      destruct (c_threshold k (map t_corr ts)) as [c|] eqn:Ec; [|discriminate]. inversion Ht; subst; clear Ht.
      unfold c_threshold in Ec. destruct (c_thresh_loop 0 0 (map t_corr ts)) as [n|] eqn:El; [|discriminate].
      inversion Ec; subst. cbn [t_corr c_base pol].
      apply p_thresh.
      assert (Hb : forall i na subs n', c_thresh_loop i na subs = ROk n' -> Forall (fun c => c_base c <> BV) subs).
      { intros i na subs. revert i na. induction subs as [|s r IHs]; intros i na n' Hl; [constructor|].
        cbn [c_thresh_loop] in Hl.
        destruct (N.eqb i 0 && negb (base_eqb (c_base s) BB)) eqn:E1; [discriminate|].
        destruct (negb (N.eqb i 0) && negb (base_eqb (c_base s) BW)) eqn:E2; [discriminate|].
        destruct (negb (c_unit s)); [discriminate|]. destruct (negb (c_dissat s)); [discriminate|].
        constructor; [|eapply IHs; exact Hl].
        destruct (c_base s); try discriminate. destruct (N.eqb i 0); cbn in E1, E2; discriminate. }
      specialize (Hb _ _ _ _ El). clear El.
      revert ts Hts Hb. induction H as [|x r Hx Hr IHr]; intros ts Hts Hb; [constructor|].
      inversion Hts as [|? t0 ? ts0 Hxt Hrt]; subst. cbn [map] in Hb. inversion Hb as [|? ? Hb0 Hbr]; subst.
      constructor; [|apply (IHr ts0); assumption].
      apply (polB_of (c_base (t_corr t0))); [exact Hb0 | apply Hx, Hxt].
    - inversion Ht; subst. apply (p_multi_gen (MMulti k ks) k ks); reflexivity.
    - inversion Ht; subst. apply (p_multi_gen (MSortedMulti k ks) k ks); reflexivity.
    - inversion Ht; subst. apply (p_multi_a_gen (MMultiA k ks) k ks); reflexivity.
    - inversion Ht; subst. apply (p_multi_a_gen (MSortedMultiA k ks) k ks); reflexivity.
  Qed.

  (* the faithful interpreter accepting: the reported constraints satisfy the policy *)
  Theorem interp_policy_holds m t st cs :
    type_of m = ROk t -> c_base (t_corr t) = BB ->
    interp e ke kp m st = IAccept cs -> psat ke cs m = true.
  Proof.
    intros Ht Hb H. rewrite interp_eq_rec in H. unfold interp_rec in H.
    destruct (ev m st) as [st' cs'|er cs'|n] eqn:Ev; try discriminate.
    pose proof (ieval_policy m t Ht) as Hp. rewrite Hb in Hp. cbn [pol] in Hp.
    destruct (Hp st st' cs' Ev) as [x [r [-> [_ Hx]]]].
    unfold final_rule in H. destruct x; try discriminate. destruct r; [|discriminate]. inversion H; subst.
    apply Hx; [reflexivity | apply incl_refl].
  Qed.

End Policy.
