(* C19 — descriptor level: the derived / hand-written Eq and Ord of descriptors are exactly as good as the
   miniscript-level ones they are built from. *)
From Verif Require Import EqOrdModel EqOrdDescModel EqOrdProofs EqOrdCmpProofs.

Section DescEq.
  Variable meq : ms -> ms -> bool.
  Hypothesis meq_spec : forall a b, meq a b = true <-> a = b.

  Lemma leaves_eq_spec : forall l l', leaves_eq meq l l' = true <-> l = l'.
  Proof.
    induction l as [|[d m] r IH]; destruct l' as [|[d' m'] s]; cbn; split; intro H; try discriminate; try reflexivity.
    - apply andb_true_iff in H. destruct H as [H H3]. apply andb_true_iff in H. destruct H as [H1 H2].
      apply N.eqb_eq in H1. apply meq_spec in H2. apply IH in H3. congruence.
    - injection H as -> -> ->. rewrite N.eqb_refl. cbn. apply andb_true_iff. split; [apply meq_spec | apply IH]; reflexivity.
  Qed.

  (* if Miniscript's == is structural then so is Descriptor's (Tr included: key and tree, nothing else) *)
  Theorem desc_eq_structural a b : desc_eq meq a b = true <-> a = b.
  Proof.
    destruct a, b; cbn; split; intro H; try discriminate H; try reflexivity;
      try (apply meq_spec in H; congruence);
      try (injection H as ->; apply meq_spec; reflexivity);
      try (apply N.eqb_eq in H; congruence);
      try (injection H as ->; apply N.eqb_refl).
    - apply andb_true_iff in H. destruct H as [H1 H2]. apply N.eqb_eq in H1. apply leaves_eq_spec in H2. congruence.
    - injection H as -> ->. rewrite N.eqb_refl. cbn. apply leaves_eq_spec. reflexivity.
  Qed.
End DescEq.

Theorem desc_eq_iter_structural a b : desc_eq eq_iter a b = true <-> a = b.
Proof. apply desc_eq_structural. exact eq_structural. Qed.

Local Open Scope N_scope.

(* ------------------------------------------------------------------ the descriptor order is a total order
   (variant order, then field-wise lexicographic comparison; Tr: internal key, then the (depth, leaf) list),
   assembled from the generic lemmas: products, lists and pull-backs of total orders are total orders *)
Local Opaque cmp_iter spec_cmp.
Section DescCmp.
  Variables kf kx : key -> key -> comparison.
  Hypothesis to_kf : total_order kf.
  Hypothesis to_kx : total_order kx.

  Lemma to_spec k : total_order k -> total_order (spec_cmp k).
  Proof. intro T. split; [apply spec_cmp_eq | apply spec_cmp_antisym | apply spec_cmp_trans]; exact T. Qed.

  Definition leaf_cmp : N * ms -> N * ms -> comparison := prod_cmp N.compare (spec_cmp kx).
  Definition dtuple := ((N * N) * (ms * (key * (key * list (N * ms)))))%type.
  Definition dtuple_cmp : dtuple -> dtuple -> comparison :=
    prod_cmp (prod_cmp N.compare N.compare) (prod_cmp (spec_cmp kf) (prod_cmp kf (prod_cmp kx (list_lex leaf_cmp)))).

  Definition denc (d : desc) : dtuple :=
    match d with
    | DBare m => (variant_rank d, (m, (0, (0, []))))
    | DShWsh m | DSh m | DWsh m => (variant_rank d, (m, (0, (0, []))))
    | DPkh k | DWpkh k | DShWpkh k => (variant_rank d, (MFalse, (k, (0, []))))
    | DTr ik ls => (variant_rank d, (MFalse, (0, (ik, ls))))
    end%N.

  Definition desc_spec_cmp (a b : desc) : comparison := dtuple_cmp (denc a) (denc b).

  Lemma to_dtuple : total_order dtuple_cmp.
  Proof.
    unfold dtuple_cmp, leaf_cmp. repeat (apply to_prod || apply to_list); auto using to_N, to_spec.
  Qed.

  Lemma denc_inj a b : denc a = denc b -> a = b.
  Proof. destruct a, b; cbn; intro H; try discriminate H; injection H; intros; subst; reflexivity. Qed.

  Lemma to_desc_spec : total_order desc_spec_cmp.
  Proof. apply (to_pullback desc_spec_cmp dtuple_cmp denc denc_inj); [reflexivity | apply to_dtuple]. Qed.

  Lemma leaves_cmp_lex : forall l l', leaves_cmp cmp_iter kx l l' = EqOrdModel.Ok (list_lex leaf_cmp l l').
  Proof.
    induction l as [|[d m] r IH]; destruct l' as [|[d' m'] s]; cbn [leaves_cmp list_lex]; try reflexivity.
    rewrite (cmp_iter_spec kx to_kx m m'), IH.
    change (leaf_cmp (d, m) (d', m')) with (lexc (d ?= d')%N (spec_cmp kx m m')).
    destruct (d ?= d')%N; cbn [lexc]; try reflexivity. destruct (spec_cmp kx m m'); reflexivity.
  Qed.

  (* the code's comparison never panics and is the specification order *)
  Theorem desc_cmp_is_spec a b : desc_cmp cmp_iter kf kx a b = EqOrdModel.Ok (desc_spec_cmp a b).
  Proof.
    pose proof (to_refl _ (to_spec kf to_kf) MFalse) as R1.
    pose proof (to_refl kf to_kf 0%N) as R2. pose proof (to_refl kx to_kx 0%N) as R3.
    unfold desc_spec_cmp, dtuple_cmp, prod_cmp.
    destruct a, b; cbn; rewrite ?leaves_cmp_lex, ?(cmp_iter_spec kf to_kf), ?R1, ?R2, ?R3; cbn; try reflexivity;
      repeat match goal with
             | |- context [spec_cmp kf ?x ?y] => destruct (spec_cmp kf x y)
             | |- context [kf ?x ?y] => destruct (kf x y)
             | |- context [kx ?x ?y] => destruct (kx x y)
             | |- context [list_lex leaf_cmp ?x ?y] => destruct (list_lex leaf_cmp x y)
             end; reflexivity.
  Qed.

  Theorem desc_cmp_total_order :
    (forall a b, exists c, desc_cmp cmp_iter kf kx a b = EqOrdModel.Ok c) /\
    (forall a b, desc_cmp cmp_iter kf kx a b = EqOrdModel.Ok Eq <-> a = b) /\
    (forall a b c, desc_cmp cmp_iter kf kx a b = EqOrdModel.Ok c -> desc_cmp cmp_iter kf kx b a = EqOrdModel.Ok (CompOpp c)) /\
    (forall a b c, desc_cmp cmp_iter kf kx a b = EqOrdModel.Ok Lt -> desc_cmp cmp_iter kf kx b c = EqOrdModel.Ok Lt ->
                   desc_cmp cmp_iter kf kx a c = EqOrdModel.Ok Lt).
  Proof.
    pose proof to_desc_spec as T. repeat split.
    - intros a b. eexists. apply desc_cmp_is_spec.
    - rewrite desc_cmp_is_spec. intro H. injection H as H. apply (to_eq _ T). exact H.
    - intros ->. rewrite desc_cmp_is_spec. f_equal. apply (to_refl _ T).
    - intros a b c. rewrite !desc_cmp_is_spec. intro H. injection H as <-. f_equal. apply (to_antisym _ T).
    - intros a b c. rewrite !desc_cmp_is_spec. intros H1 H2. injection H1 as H1. injection H2 as H2. f_equal.
      apply (to_trans _ T _ _ _ H1 H2).
  Qed.

  (* Ord's Equal coincides with == *)
  Theorem desc_cmp_eq_iff_eq a b : desc_cmp cmp_iter kf kx a b = EqOrdModel.Ok Eq <-> desc_eq eq_iter a b = true.
  Proof. rewrite desc_eq_iter_structural. apply desc_cmp_total_order. Qed.
End DescCmp.

Local Open Scope N_scope.
Example desc_cmp_examples :
  desc_cmp cmp_iter N.compare N.compare (DWsh (w_pk 0)) (DTr 0 []) = EqOrdModel.Ok Lt /\
  desc_cmp cmp_iter N.compare N.compare (DShWsh (w_pk 0)) (DSh (w_pk 0)) = EqOrdModel.Ok Lt /\
  desc_cmp cmp_iter N.compare N.compare (DTr 0 [(1, w_pk 0); (1, w_pk 1)]) (DTr 0 [(1, w_pk 1); (1, w_pk 0)]) = EqOrdModel.Ok Lt /\
  desc_cmp cmp_iter N.compare N.compare (DTr 0 [(1, w_pk 0); (1, w_pk 1)]) (DTr 0 []) = EqOrdModel.Ok Gt.
Proof. vm_compute. repeat split. Qed.
Local Close Scope N_scope.

(* ------------------------------------------------------------------ the cache is not an input of == / cmp *)
Theorem cdesc_eq_history_independent meq a b c c' :
  cdesc_eq meq (mkCD a c) (mkCD b c') = desc_eq meq a b.
Proof. reflexivity. Qed.

Theorem cdesc_cmp_history_independent mcmp kf kx a b c c' :
  cdesc_cmp mcmp kf kx (mkCD a c) (mkCD b c') = desc_cmp mcmp kf kx a b.
Proof. reflexivity. Qed.

(* == of descriptor values, whatever their histories (fresh, warmed, cloned), is equality of the structures *)
Theorem cdesc_eq_structural x y : cdesc_eq eq_iter x y = true <-> cd_desc x = cd_desc y.
Proof. unfold cdesc_eq. apply desc_eq_iter_structural. Qed.

Theorem cdesc_warm_clone_eq spend x :
  cdesc_eq eq_iter (cd_clone (cd_warm spend x)) x = true /\ cdesc_eq eq_iter (cd_warm spend x) (cd_fresh (cd_desc x)) = true.
Proof. split; apply cdesc_eq_structural; reflexivity. Qed.

(* the same laws for values with arbitrary cache histories: the order is on the structures *)
Theorem cdesc_cmp_total_order kf kx : total_order kf -> total_order kx ->
  (forall x y, exists c, cdesc_cmp cmp_iter kf kx x y = EqOrdModel.Ok c) /\
  (forall x y, cdesc_cmp cmp_iter kf kx x y = EqOrdModel.Ok Eq <-> cd_desc x = cd_desc y) /\
  (forall x y c, cdesc_cmp cmp_iter kf kx x y = EqOrdModel.Ok c -> cdesc_cmp cmp_iter kf kx y x = EqOrdModel.Ok (CompOpp c)) /\
  (forall x y z, cdesc_cmp cmp_iter kf kx x y = EqOrdModel.Ok Lt -> cdesc_cmp cmp_iter kf kx y z = EqOrdModel.Ok Lt ->
                 cdesc_cmp cmp_iter kf kx x z = EqOrdModel.Ok Lt) /\
  (forall x y, cdesc_cmp cmp_iter kf kx x y = EqOrdModel.Ok Eq <-> cdesc_eq eq_iter x y = true).
Proof.
  intros Tf Tx. destruct (desc_cmp_total_order kf kx Tf Tx) as [A [B [C D]]].
  assert (E : forall x y, cdesc_cmp cmp_iter kf kx x y = desc_cmp cmp_iter kf kx (cd_desc x) (cd_desc y)) by reflexivity.
  assert (E2 : forall x y, cdesc_eq eq_iter x y = desc_eq eq_iter (cd_desc x) (cd_desc y)) by reflexivity.
  split; [intros x y; rewrite E; apply A|]. split; [intros x y; rewrite E; apply B|].
  split; [intros x y c; rewrite !E; apply C|].
  split; [intros x y z; rewrite !E; apply D | intros x y; rewrite E, E2; apply desc_cmp_eq_iff_eq; assumption].
Qed.
