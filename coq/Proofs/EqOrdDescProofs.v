(* C19 — descriptor level: the derived / hand-written Eq and Ord of descriptors are exactly as good as the
   miniscript-level ones they are built from. *)
From Verif Require Import EqOrdModel EqOrdDescModel EqOrdProofs EqOrdCmpProofs.

Section DescEq.
  Variable meq : ms -> ms -> bool.
  Hypothesis meq_spec : forall a b, meq a b = true <-> a = b.

  Lemma leaves_eq_spec : forall l l', leaves_eq meq l l' = true <-> l = l'.
  Proof.
    induction l as [|[d m] r IH]; destruct l' as [|[d' m'] s]; cbn; split; intro H; try discriminate; try reflexivity.
    - apply andb_true_iff in H. destruct H as [H H3]. apply andb_true_iff in H. destruct H as [H1 H2].
      apply N.eqb_eq in H1. apply meq_spec in H2. apply IH in H3. congruence.
    - injection H as -> -> ->. rewrite N.eqb_refl. cbn. apply andb_true_iff. split; [apply meq_spec | apply IH]; reflexivity.
  Qed.

  (* if Miniscript's == is structural then so is Descriptor's (Tr included: key and tree, nothing else) *)
  Theorem desc_eq_structural a b : desc_eq meq a b = true <-> a = b.
  Proof.
    destruct a, b; cbn; split; intro H; try discriminate H; try reflexivity;
      try (apply meq_spec in H; congruence);
      try (injection H as ->; apply meq_spec; reflexivity);
      try (apply N.eqb_eq in H; congruence);
      try (injection H as ->; apply N.eqb_refl).
    - apply andb_true_iff in H. destruct H as [H1 H2]. apply N.eqb_eq in H1. apply leaves_eq_spec in H2. congruence.
    - injection H as -> ->. rewrite N.eqb_refl. cbn. apply leaves_eq_spec. reflexivity.
  Qed.
End DescEq.

Theorem desc_eq_iter_structural a b : desc_eq eq_iter a b = true <-> a = b.
Proof. apply desc_eq_structural. exact eq_structural. Qed.

Local Open Scope N_scope.

(* the descriptor order never panics and its Equal is structural equality *)
Section DescCmp.
  Variables kf kx : key -> key -> comparison.
  Hypothesis to_kf : total_order kf.
  Hypothesis to_kx : total_order kx.

  Lemma leaves_cmp_spec : forall l l', exists c, leaves_cmp cmp_iter kx l l' = EqOrdModel.Ok c /\ (c = Eq <-> l = l').
  Proof.
    induction l as [|[d m] r IH]; destruct l' as [|[d' m'] s]; cbn.
    - exists Eq. split; [reflexivity | split; reflexivity].
    - exists Lt. split; [reflexivity | split; discriminate].
    - exists Gt. split; [reflexivity | split; discriminate].
    - destruct (d ?= d') eqn:E.
      + apply N.compare_eq_iff in E. subst d'. rewrite (cmp_iter_spec kx to_kx m m').
        destruct (spec_cmp kx m m') eqn:E2.
        * apply (spec_cmp_eq kx to_kx) in E2. subst m'. destruct (IH s) as [c [Hc Hi]]. exists c. split; [exact Hc|].
          rewrite Hi. split; [congruence | intro H; injection H; auto].
        * exists Lt. split; [reflexivity|]. split; [discriminate|]. intro H. injection H as <- _.
          rewrite (proj2 (spec_cmp_eq kx to_kx m m) eq_refl) in E2. discriminate.
        * exists Gt. split; [reflexivity|]. split; [discriminate|]. intro H. injection H as <- _.
          rewrite (proj2 (spec_cmp_eq kx to_kx m m) eq_refl) in E2. discriminate.
      + exists Lt. split; [reflexivity|]. split; [discriminate|]. intro H. injection H as <- _ _. rewrite N.compare_refl in E. discriminate.
      + exists Gt. split; [reflexivity|]. split; [discriminate|]. intro H. injection H as <- _ _. rewrite N.compare_refl in E. discriminate.
  Qed.

  Theorem desc_cmp_spec a b : exists c, desc_cmp cmp_iter kf kx a b = EqOrdModel.Ok c /\ (c = Eq <-> a = b).
  Proof.
    assert (M : forall x y, exists c, cmp_iter kf x y = EqOrdModel.Ok c /\ (c = Eq <-> x = y)).
    { intros x y. exists (spec_cmp kf x y). split; [apply cmp_iter_spec; exact to_kf | apply spec_cmp_eq; exact to_kf]. }
    assert (K : forall x y : key, exists c, EqOrdModel.Ok (kf x y) = EqOrdModel.Ok c /\ (c = Eq <-> x = y)).
    { intros x y. exists (kf x y). split; [reflexivity | apply (to_eq _ to_kf)]. }
    destruct a, b; cbn;
      try (eexists; split; [reflexivity | split; discriminate]);
      try (destruct (M m m0) as [c [-> Hi]]; exists c; split; [reflexivity | rewrite Hi; split; [congruence | intro H; injection H; auto]]);
      try (destruct (K k k0) as [c [Hc Hi]]; exists c; split; [exact Hc | rewrite Hi; split; [congruence | intro H; injection H; auto]]).
    destruct (kx ik ik0) eqn:E.
    - apply (to_eq _ to_kx) in E. subst ik0. destruct (leaves_cmp_spec leaves leaves0) as [c [-> Hi]]. exists c.
      split; [reflexivity | rewrite Hi; split; [congruence | intro H; injection H; auto]].
    - exists Lt. split; [reflexivity|]. split; [discriminate|]. intro H. injection H as <- _. rewrite (to_refl _ to_kx) in E. discriminate.
    - exists Gt. split; [reflexivity|]. split; [discriminate|]. intro H. injection H as <- _. rewrite (to_refl _ to_kx) in E. discriminate.
  Qed.
End DescCmp.

(* ------------------------------------------------------------------ the cache is not an input of == / cmp *)
Theorem cdesc_eq_history_independent meq a b c c' :
  cdesc_eq meq (mkCD a c) (mkCD b c') = desc_eq meq a b.
Proof. reflexivity. Qed.

Theorem cdesc_cmp_history_independent mcmp kf kx a b c c' :
  cdesc_cmp mcmp kf kx (mkCD a c) (mkCD b c') = desc_cmp mcmp kf kx a b.
Proof. reflexivity. Qed.

(* == of descriptor values, whatever their histories (fresh, warmed, cloned), is equality of the structures *)
Theorem cdesc_eq_structural x y : cdesc_eq eq_iter x y = true <-> cd_desc x = cd_desc y.
Proof. unfold cdesc_eq. apply desc_eq_iter_structural. Qed.

Theorem cdesc_warm_clone_eq spend x :
  cdesc_eq eq_iter (cd_clone (cd_warm spend x)) x = true /\ cdesc_eq eq_iter (cd_warm spend x) (cd_fresh (cd_desc x)) = true.
Proof. split; apply cdesc_eq_structural; reflexivity. Qed.
