(* Theorem B : the denotational relation is COMPLETE for the script semantics -- EVERY successful
   execution of a well-typed fragment's script, from ANY stack and alt stack, is explained by the
   relation: the stack splits into a witness [w] and an untouched rest, and [R m s w v] holds, where
   [v] is the value left and [s] says whether it is true (satisfaction) or false (dissatisfaction).
   Built on the frame invariant (FrameSound.frame_inv), which supplies the consumption counts
   (z / o / n) and the unit property (u) where the relation needs them (s:, d:, j:, thresh). *)
From Verif Require Import Exec Ser Ast Types TypeCheck SatSpec ExecLemmas Spec TypesSpec ScriptNumProofs TheoremA.
From Verif Require Import FrameBase FrameLeaves FrameWrap FrameComb FrameSound SignedLemmas DenotSpec DenotLemmas.
From Coq Require Import Lia.

Section Sound.
  Variable e : env.
  Variable ke : keyenv.
  Notation RR := (Rg e ke false).
  Notation sc m := (enc ke m).

  Definition sB (m : ms) : Prop :=
    forall st al r, exec e (sc m) (mkSt st al) = Ok r ->
    exists w rest v, st = w ++ rest /\ r = mkSt (v :: rest) al /\ RR m (truthy v) w v.
  Definition sV (m : ms) : Prop :=
    forall st al r, exec e (sc m) (mkSt st al) = Ok r ->
    exists w rest, st = w ++ rest /\ r = mkSt rest al /\ RR m true w [].
  (* K: whatever signature lies under the key: if the CHECKSIG to come judges it [s], the relation holds *)
  Definition sK (m : ms) : Prop :=
    forall st al r, exec e (sc m) (mkSt st al) = Ok r ->
    exists c rest key, st = c ++ rest /\ r = mkSt (key :: rest) al /\
      forall s sg, ksig e s key sg -> RR m s (c ++ [sg]) key.
  Definition sW (m : ms) : Prop :=
    forall st al r, exec e (sc m) (mkSt st al) = Ok r ->
    exists c0 w rest v sw, st = c0 :: w ++ rest /\ r = mkSt (wout sw v c0 ++ rest) al /\ RR m (truthy v) w v.
  Definition snd_ (m : ms) (t : ty) : Prop :=
    match c_base (t_corr t) with BB => sB m | BV => sV m | BK => sK m | BW => sW m end.
  Definition sstmt (m : ms) : Prop := forall t, type_of m = ROk t -> wf e ke m -> snd_ m t.

  Ltac stepH H := cbn [app exec exec_instr exec_op bind stk alt] in H.

  (* ---------- the relation's split is the frame invariant's split ---------- *)
  Lemma sB_inv m i u : sB m -> invB e (sc m) i u ->
    forall st al r, exec e (sc m) (mkSt st al) = Ok r ->
    exists w rest v, st = w ++ rest /\ r = mkSt (v :: rest) al /\ RR m (truthy v) w v /\
      cnt i (length w) /\ uval u v.
  Proof.
    intros Hs Hi st al r H. destruct (Hs _ _ _ H) as [w [rest [v [-> [-> HR]]]]].
    destruct (Hi _ _ _ H) as [c [rest' [v' [Hst [Hr [_ [Hc [Hu _]]]]]]]].
    inversion Hr; subst v' rest'. apply app_inv_tail in Hst. subst c.
    exists w, rest, v. auto.
  Qed.
  Lemma sV_inv m i : sV m -> invV e (sc m) i ->
    forall st al r, exec e (sc m) (mkSt st al) = Ok r ->
    exists w rest, st = w ++ rest /\ r = mkSt rest al /\ RR m true w [] /\ cnt i (length w).
  Proof.
    intros Hs Hi st al r H. destruct (Hs _ _ _ H) as [w [rest [-> [-> HR]]]].
    destruct (Hi _ _ _ H) as [c [rest' [Hst [Hr [_ [Hc _]]]]]].
    inversion Hr; subst rest'. apply app_inv_tail in Hst. subst c. exists w, rest. auto.
  Qed.
  Lemma wout_inj sw sw' v v' c0 rest rest' : wout sw v c0 ++ rest = wout sw' v' c0 ++ rest' -> v = v'.
  Proof. destruct sw, sw'; cbn [wout app]; intros H; inversion H; subst; reflexivity. Qed.
  Lemma sW_inv m i u : sW m -> invW e (sc m) i u ->
    forall st al r, exec e (sc m) (mkSt st al) = Ok r ->
    exists c0 w rest v sw, st = c0 :: w ++ rest /\ r = mkSt (wout sw v c0 ++ rest) al /\
      RR m (truthy v) w v /\ uval u v.
  Proof.
    intros Hs [_ Hi] st al r H. destruct (Hs _ _ _ H) as [c0 [w [rest [v [sw [-> [-> HR]]]]]]].
    destruct (Hi _ _ _ H) as [c0' [w' [rest' [v' [sw' [Hst [Hr [_ Hu]]]]]]]].
    inversion Hst; subst c0'. inversion Hr as [Hr']. apply wout_inj in Hr'. subst v'.
    exists c0, w, rest, v, sw. auto.
  Qed.

  (* ---------- leaves ---------- *)
  Lemma b_true : sB MTrue.
  Proof.
    intros st al r H. cbn [enc] in H. stepH H. inversion H; subst; clear H. exists [], st, [1%N].
    split; [reflexivity|]. split; [reflexivity|]. cbn. auto.
  Qed.
  Lemma b_false : sB MFalse.
  Proof.
    intros st al r H. cbn [enc] in H. stepH H. inversion H; subst; clear H. exists [], st, [].
    split; [reflexivity|]. split; [reflexivity|]. cbn. auto.
  Qed.
  Lemma b_pk_k k : sK (MPkK k).
  Proof.
    intros st al r H. cbn [enc] in H. stepH H. inversion H; subst; clear H. exists [], st, (kb ke k).
    split; [reflexivity|]. split; [reflexivity|]. intros s sg Hk. cbn [Rg app]. exists sg. auto.
  Qed.
  Lemma b_pkh_run h st al r :
    exec e [IOp OP_DUP; IOp OP_HASH160; IPush h; IOp OP_EQUALVERIFY] (mkSt st al) = Ok r ->
    exists x rest, st = x :: rest /\ r = mkSt (x :: rest) al /\ e_hash160 e x = h.
  Proof.
    intros H. destruct st as [|x rest]; [stepH H; discriminate|]. stepH H.
    destruct (bytes_eqb h (e_hash160 e x)) eqn:E; [|discriminate]. inversion H; subst; clear H.
    exists x, rest. split; [reflexivity|]. split; [reflexivity|]. symmetry. apply bytes_eqb_eq, E.
  Qed.
  Lemma b_pk_h k : sK (MPkH k).
  Proof.
    intros st al r H. cbn [enc] in H. destruct (b_pkh_run _ _ _ _ H) as [x [rest [-> [-> Hh]]]].
    exists [x], rest, x. split; [reflexivity|]. split; [reflexivity|].
    intros s sg Hk. cbn [Rg app]. exists sg. repeat split; auto; try apply Hk. discriminate.
  Qed.
  Lemma b_raw h : sK (MRawPkH h).
  Proof.
    intros st al r H. cbn [enc] in H. destruct (b_pkh_run _ _ _ _ H) as [x [rest [-> [-> Hh]]]].
    exists [x], rest, x. split; [reflexivity|]. split; [reflexivity|].
    intros s sg Hk. cbn [Rg app]. split; [reflexivity|]. exists sg. auto.
  Qed.

  Lemma b_after t : (0 < t < 2147483648)%N -> sB (MAfter t).
  Proof.
    intros Ht st al r H. cbn [enc] in H. rewrite exec_cons, exec_push_int in H. cbn [bind stk alt] in H.
    rewrite exec_single in H. cbn [exec_instr exec_op stk alt] in H. rewrite num_roundtrip in H by lia.
    destruct (check_locktime e (Z.of_N t)) eqn:Ec; [|discriminate]. inversion H; subst; clear H.
    exists [], st, (num_encode (Z.of_N t)). split; [reflexivity|]. split; [reflexivity|].
    rewrite num_truthy by lia. cbn [Rg]. auto.
  Qed.
  Lemma b_older t : (0 < t < 2147483648)%N -> sB (MOlder t).
  Proof.
    intros Ht st al r H. cbn [enc] in H. rewrite exec_cons, exec_push_int in H. cbn [bind stk alt] in H.
    rewrite exec_single in H. cbn [exec_instr exec_op stk alt] in H. rewrite num_roundtrip in H by lia.
    destruct (check_sequence e (Z.of_N t)) eqn:Ec; [|discriminate]. inversion H; subst; clear H.
    exists [], st, (num_encode (Z.of_N t)). split; [reflexivity|]. split; [reflexivity|].
    rewrite num_truthy by lia. cbn [Rg]. auto.
  Qed.

  Lemma b_hash_gen (o : opcode) (hf : bytes -> bytes) h :
    (forall x r al, exec_op e o (mkSt (x :: r) al) = Ok (mkSt (hf x :: r) al)) ->
    forall st al r, exec e (hash_frag o h) (mkSt st al) = Ok r ->
    exists w rest v, st = w ++ rest /\ r = mkSt (v :: rest) al /\ Rhash false hf h (truthy v) w v.
  Proof.
    intros Hop st al r H. unfold hash_frag in H. destruct st as [|x rest]; [stepH H; discriminate|].
    rewrite exec_op_cons in H. cbn [exec_op stk alt bind] in H.
    rewrite exec_cons, exec_push_int in H. cbn [bind stk alt] in H.
    rewrite exec_op_cons in H. cbn [exec_op stk alt] in H.
    destruct (bytes_eqb (num_encode 32) (num_encode (Z.of_N (blen x)))) eqn:E; [|discriminate]. cbn [bind] in H.
    rewrite exec_op_cons, Hop in H. cbn [bind] in H. rewrite exec_push, exec_op_cons in H.
    cbn [exec_op stk alt bind exec] in H. inversion H; subst; clear H.
    exists [x], rest, (bool_bytes (bytes_eqb h (hf x))). split; [reflexivity|]. split; [reflexivity|].
    rewrite truthy_bool. exists x. split; [reflexivity|]. split; [apply size32, E|]. split; [reflexivity|].
    split; [|discriminate]. destruct (bytes_eqb h (hf x)) eqn:Eh.
    - symmetry. apply bytes_eqb_eq, Eh.
    - intros Hx. subst h. rewrite bytes_eqb_refl in Eh. discriminate.
  Qed.

  (* ---------- wrappers ---------- *)
  Lemma b_alt x : sB x -> sW (MAlt x).
  Proof.
    intros IH st al r H. cbn [enc app] in H. rewrite exec_op_cons in H. cbn [exec_op stk alt] in H.
    destruct st as [|c0 st1]; [discriminate|]. cbn [bind] in H.
    apply exec_app_inv in H. destruct H as [r1 [H1 H2]].
    destruct (IH _ _ _ H1) as [w [rest [v [-> [-> HR]]]]].
    rewrite exec_single in H2. cbn [exec_instr exec_op stk alt] in H2. inversion H2; subst; clear H2.
    exists c0, w, rest, v, false. split; [reflexivity|]. split; [reflexivity|]. cbn [Rg]. exact HR.
  Qed.

  Lemma b_swap x i u : sB x -> invB e (sc x) i u -> i = IOne \/ i = IOneNonZero -> sW (MSwap x).
  Proof.
    intros IH Hinv Hi st al r H. cbn [enc app] in H. rewrite exec_op_cons in H. cbn [exec_op stk alt] in H.
    destruct st as [|a [|b st2]]; try discriminate. cbn [bind] in H.
    destruct (sB_inv x i u IH Hinv _ _ _ H) as [w [rest [v [Hst [-> [HR [Hc _]]]]]]].
    assert (Hl : length w = 1%nat) by (destruct Hi; subst i; exact Hc).
    destruct w as [|y [|z w']]; try discriminate. cbn [app] in Hst. inversion Hst; subst; clear Hst.
    exists a, [y], st2, v, true. split; [reflexivity|]. split; [reflexivity|]. cbn [Rg]. exact HR.
  Qed.

  Lemma b_check x : sK x -> sB (MCheck x).
  Proof.
    intros IH st al r H. cbn [enc] in H. apply exec_app_inv in H. destruct H as [r1 [H1 H2]].
    destruct (IH _ _ _ H1) as [c [rest [key [-> [-> HR]]]]].
    rewrite exec_single in H2. cbn [exec_instr exec_op stk alt] in H2.
    destruct rest as [|sg rest2]; [discriminate|].
    destruct (e_keyok e key) eqn:Ek; cbn [negb] in H2; [|discriminate].
    assert (Hb : exists b, ksig e b key sg /\ r = mkSt (bool_bytes b :: rest2) al).
    { destruct sg as [|b0 sg'].
      - exists false. split; [split; [exact Ek | reflexivity] | inversion H2; reflexivity].
      - destruct (e_sigok e key (b0 :: sg')) eqn:Eo; [|discriminate]. exists true.
        split; [split; [exact Ek | split; [discriminate | exact Eo]] | inversion H2; reflexivity]. }
    destruct Hb as [b [Hk ->]]. exists (c ++ [sg]), rest2, (bool_bytes b).
    split; [rewrite <- app_assoc; reflexivity|]. split; [reflexivity|].
    rewrite truthy_bool. cbn [Rg]. split; [reflexivity|]. exists key. apply HR, Hk.
  Qed.

  Lemma b_dupif x : sV x -> invV e (sc x) IZero -> sB (MDupIf x).
  Proof.
    intros IH Hinv st al r H. cbn [enc] in H. rewrite exec_op_cons in H. cbn [exec_op stk alt] in H.
    destruct st as [|v rest0]; [discriminate|]. cbn [bind] in H. rewrite exec_single in H.
    apply exec_if_inv in H. destruct H as [v' [rs [cnd [Hst [Hc H]]]]]. cbn [stk alt] in *.
    inversion Hst; subst v' rs; clear Hst. pose proof (if_cond_truthy e v cnd Hc) as Ht.
    destruct cnd; cbn [xorb] in H.
    - destruct (sV_inv x _ IH Hinv _ _ _ H) as [w [rest [Hs [-> [HR Hcn]]]]]. cbn in Hcn.
      destruct w; [|discriminate]. cbn [app] in Hs. subst rest.
      exists [v], rest0, v. split; [reflexivity|]. split; [reflexivity|]. rewrite Ht. cbn [Rg].
      split; [reflexivity|]. split; [exact Hc|]. split; [intros _; exact HR | discriminate].
    - inversion H; subst; clear H. exists [v], rest0, v. split; [reflexivity|]. split; [reflexivity|].
      rewrite Ht. cbn [Rg]. split; [reflexivity|]. split; [exact Hc|]. split; discriminate.
  Qed.

  Lemma b_verify x : sB x -> sV (MVerify x).
  Proof.
    intros IH st al r H. cbn [enc] in H. rewrite push_verify_exec in H. apply bind_ok_inv in H. destruct H as [r1 [H1 H2]].
    destruct (IH _ _ _ H1) as [w [rest [v [-> [-> HR]]]]].
    cbn [exec_op stk alt] in H2. destruct (truthy v) eqn:Ht; [|discriminate]. inversion H2; subst; clear H2.
    exists w, rest. split; [reflexivity|]. split; [reflexivity|]. cbn [Rg]. split; [reflexivity|]. split; [reflexivity|].
    exists v. exact HR.
  Qed.

  Lemma b_nonzero x i u : sB x -> invB e (sc x) i u -> isn i = true -> sB (MNonZero x).
  Proof.
    intros IH Hinv Hi st al r H. cbn [enc] in H. rewrite exec_op_cons in H. cbn [exec_op stk alt] in H.
    destruct st as [|a rest0]; [discriminate|]. cbn [bind] in H.
    rewrite exec_op_cons in H. cbn [exec_op stk alt] in H.
    destruct (num_operand 4 (num_encode (Z.of_N (blen a)))) as [n|] eqn:En; [|discriminate]. cbn [bind] in H.
    rewrite exec_single in H. apply exec_if_inv in H. destruct H as [v' [rs [cnd [Hst [Hc H]]]]]. cbn [stk alt] in *.
    inversion Hst; subst v' rs; clear Hst. rewrite if_cond_bool in Hc. inversion Hc; subst cnd; clear Hc.
    assert (H0a : (0 <= Z.of_N (blen a))%Z) by lia.
    pose proof (num_operand4_encode _ _ H0a En) as Hn. pose proof (num_operand4_bound _ _ H0a En) as Hb.
    destruct (negb (n =? 0)%Z) eqn:Eb; cbn [xorb] in H.
    - destruct (sB_inv x i u IH Hinv _ _ _ H) as [w [rest [v [Hs [-> [HR [Hcn _]]]]]]].
      assert (Hw : exists w', w = a :: w').
      { destruct w as [|y w']; [exfalso; destruct i; cbn in Hi, Hcn; try discriminate; lia|].
        cbn [app] in Hs. inversion Hs. eauto. }
      destruct Hw as [w' ->]. cbn [app] in Hs. inversion Hs; subst rest0.
      exists (a :: w'), rest, v. split; [reflexivity|]. split; [reflexivity|]. cbn [Rg]. right.
      exists a, w'. split; [reflexivity|]. apply Bool.negb_true_iff, Z.eqb_neq in Eb.
      split; [intros ->; apply Eb; subst n; reflexivity|]. split; [unfold size_ok; lia|]. split; [exact HR | discriminate].
    - inversion H; subst r; clear H.
      assert (Ha : a = []).
      { apply size_zero_empty. rewrite En. f_equal. apply Bool.negb_false_iff, Z.eqb_eq in Eb. exact Eb. }
      subst a. exists [[]], rest0, []. split; [reflexivity|]. split; [reflexivity|]. cbn [Rg truthy]. left. auto.
  Qed.

  Lemma b_zne x : sB x -> sB (MZeroNotEqual x).
  Proof.
    intros IH st al r H. cbn [enc] in H. apply exec_app_inv in H. destruct H as [r1 [H1 H2]].
    destruct (IH _ _ _ H1) as [w [rest [v [-> [-> HR]]]]].
    rewrite exec_single in H2. cbn [exec_instr exec_op stk alt] in H2.
    destruct (num_operand 4 v) as [n|] eqn:En; [|discriminate]. inversion H2; subst; clear H2.
    exists w, rest, (bool_bytes (negb (n =? 0)%Z)). split; [reflexivity|]. split; [reflexivity|].
    rewrite truthy_bool. cbn [Rg]. split; [reflexivity|]. exists v. rewrite <- (num_truthy_iff 4 v n En).
    split; [exact HR | exists n; exact En].
  Qed.

  (* ---------- and_v ---------- *)
  Lemma b_andv_B x y : sV x -> sB y -> sB (MAndV x y).
  Proof.
    intros IHx IHy st al r H. cbn [enc] in H. apply exec_app_inv in H. destruct H as [r1 [H1 H2]].
    destruct (IHx _ _ _ H1) as [wx [rest1 [-> [-> Hx]]]].
    destruct (IHy _ _ _ H2) as [wy [rest [v [-> [-> Hy]]]]].
    exists (wx ++ wy), rest, v. split; [apply app_assoc|]. split; [reflexivity|]. cbn [Rg]. exists wx, wy. auto.
  Qed.
  Lemma b_andv_V x y : sV x -> sV y -> sV (MAndV x y).
  Proof.
    intros IHx IHy st al r H. cbn [enc] in H. apply exec_app_inv in H. destruct H as [r1 [H1 H2]].
    destruct (IHx _ _ _ H1) as [wx [rest1 [-> [-> Hx]]]].
    destruct (IHy _ _ _ H2) as [wy [rest [-> [-> Hy]]]].
    exists (wx ++ wy), rest. split; [apply app_assoc|]. split; [reflexivity|]. cbn [Rg]. exists wx, wy. auto.
  Qed.
  Lemma b_andv_K x y : sV x -> sK y -> sK (MAndV x y).
  Proof.
    intros IHx IHy st al r H. cbn [enc] in H. apply exec_app_inv in H. destruct H as [r1 [H1 H2]].
    destruct (IHx _ _ _ H1) as [wx [rest1 [-> [-> Hx]]]].
    destruct (IHy _ _ _ H2) as [c [rest [key [-> [-> Hy]]]]].
    exists (wx ++ c), rest, key. split; [apply app_assoc|]. split; [reflexivity|].
    intros s sg Hk. cbn [Rg]. exists wx, (c ++ [sg]). split; [symmetry; apply app_assoc|]. auto.
  Qed.

  (* ---------- and_b / or_b ---------- *)
  Lemma bool_op_inv (o : opcode) (f : bool -> bool -> bool) sw vx vy X al r :
    (forall a b, f a b = f b a) ->
    (forall x y r0 al0, exec_op e o (mkSt (x :: y :: r0) al0) =
       match num_operand 4 x, num_operand 4 y with
       | Some n1, Some n2 => Ok (mkSt (bool_bytes (f (negb (n1 =? 0)%Z) (negb (n2 =? 0)%Z)) :: r0) al0)
       | _, _ => Fail end) ->
    exec_op e o (mkSt (wout sw vy vx ++ X) al) = Ok r ->
    num4 vx /\ num4 vy /\ r = mkSt (bool_bytes (f (truthy vx) (truthy vy)) :: X) al.
  Proof.
    intros Hcomm Hop H.
    assert (H' : match num_operand 4 vx, num_operand 4 vy with
                 | Some n1, Some n2 => Ok (mkSt (bool_bytes (f (negb (n1 =? 0)%Z) (negb (n2 =? 0)%Z)) :: X) al)
                 | _, _ => Fail end = Ok r).
    { destruct sw; cbn [wout app] in H; rewrite Hop in H.
      - destruct (num_operand 4 vy), (num_operand 4 vx); try discriminate. rewrite Hcomm. exact H.
      - exact H. }
    destruct (num_operand 4 vx) as [n1|] eqn:E1; [|discriminate]. destruct (num_operand 4 vy) as [n2|] eqn:E2; [|discriminate].
    split; [exists n1; exact E1|]. split; [exists n2; exact E2|].
    rewrite (num_truthy_iff 4 vx n1 E1), (num_truthy_iff 4 vy n2 E2). inversion H'. reflexivity.
  Qed.
  Lemma booland_spec x y r0 al0 : exec_op e OP_BOOLAND (mkSt (x :: y :: r0) al0) =
    match num_operand 4 x, num_operand 4 y with
    | Some n1, Some n2 => Ok (mkSt (bool_bytes (negb (n1 =? 0)%Z && negb (n2 =? 0)%Z) :: r0) al0)
    | _, _ => Fail end.
  Proof. reflexivity. Qed.
  Lemma boolor_spec x y r0 al0 : exec_op e OP_BOOLOR (mkSt (x :: y :: r0) al0) =
    match num_operand 4 x, num_operand 4 y with
    | Some n1, Some n2 => Ok (mkSt (bool_bytes (negb (n1 =? 0)%Z || negb (n2 =? 0)%Z) :: r0) al0)
    | _, _ => Fail end.
  Proof. reflexivity. Qed.

  Lemma b_andb x y : sB x -> sW y -> sB (MAndB x y).
  Proof.
    intros IHx IHy st al r H. cbn [enc] in H.
    apply exec_app_inv in H. destruct H as [r1 [H1 H]]. apply exec_app_inv in H. destruct H as [r2 [H2 H3]].
    destruct (IHx _ _ _ H1) as [wx [rest1 [vx [-> [-> Hx]]]]].
    destruct (IHy _ _ _ H2) as [c0 [wy [rest [vy [sw [Hs [-> Hy]]]]]]]. inversion Hs; subst c0 rest1; clear Hs.
    rewrite exec_single in H3. cbn [exec_instr] in H3.
    destruct (bool_op_inv OP_BOOLAND andb sw vx vy rest al r andb_comm booland_spec H3) as [Nx [Ny ->]].
    exists (wx ++ wy), rest, (bool_bytes (truthy vx && truthy vy)). split; [apply app_assoc|]. split; [reflexivity|].
    rewrite truthy_bool. cbn [Rg]. exists wx, wy, vx, vy, (truthy vx), (truthy vy). repeat split; auto. discriminate.
  Qed.
  Lemma b_orb x y : sB x -> sW y -> sB (MOrB x y).
  Proof.
    intros IHx IHy st al r H. cbn [enc] in H.
    apply exec_app_inv in H. destruct H as [r1 [H1 H]]. apply exec_app_inv in H. destruct H as [r2 [H2 H3]].
    destruct (IHx _ _ _ H1) as [wx [rest1 [vx [-> [-> Hx]]]]].
    destruct (IHy _ _ _ H2) as [c0 [wy [rest [vy [sw [Hs [-> Hy]]]]]]]. inversion Hs; subst c0 rest1; clear Hs.
    rewrite exec_single in H3. cbn [exec_instr] in H3.
    destruct (bool_op_inv OP_BOOLOR orb sw vx vy rest al r orb_comm boolor_spec H3) as [Nx [Ny ->]].
    exists (wx ++ wy), rest, (bool_bytes (truthy vx || truthy vy)). split; [apply app_assoc|]. split; [reflexivity|].
    rewrite truthy_bool. cbn [Rg]. exists wx, wy, vx, vy, (truthy vx), (truthy vy). repeat split; auto. discriminate.
  Qed.

  (* ---------- or_c / or_d ---------- *)
  Lemma b_orc x z : sB x -> sV z -> sV (MOrC x z).
  Proof.
    intros IHx IHz st al r H. cbn [enc] in H. apply exec_app_inv in H. destruct H as [r1 [H1 H2]].
    destruct (IHx _ _ _ H1) as [wx [rest1 [vx [-> [-> Hx]]]]].
    rewrite exec_single in H2. apply exec_if_inv in H2.
    destruct H2 as [v' [rs [cnd [Hst [Hc H2]]]]]; cbn [stk alt] in *; inversion Hst; subst v' rs; clear Hst.
    pose proof (if_cond_truthy e vx cnd Hc) as Ht. rewrite Ht in Hx. destruct cnd; cbn [xorb] in H2.
    - inversion H2; subst; clear H2. exists wx, rest1. split; [reflexivity|]. split; [reflexivity|].
      cbn [Rg]. split; [reflexivity|]. split; [reflexivity|]. left. exists vx. auto.
    - destruct (IHz _ _ _ H2) as [wz [rest [-> [-> Hz]]]].
      exists (wx ++ wz), rest. split; [apply app_assoc|]. split; [reflexivity|].
      cbn [Rg]. split; [reflexivity|]. split; [reflexivity|]. right. exists wx, wz, vx. auto.
  Qed.
  Lemma b_ord x z : sB x -> sB z -> sB (MOrD x z).
  Proof.
    intros IHx IHz st al r H. cbn [enc] in H. apply exec_app_inv in H. destruct H as [r1 [H1 H2]].
    destruct (IHx _ _ _ H1) as [wx [rest1 [vx [-> [-> Hx]]]]].
    rewrite exec_op_cons in H2. cbn [exec_op stk alt] in H2.
    destruct (truthy vx) eqn:Ht; cbn [bind] in H2; rewrite exec_single in H2; apply exec_if_inv in H2;
      destruct H2 as [v' [rs [cnd [Hst [Hc H2]]]]]; cbn [stk alt] in *; inversion Hst; subst v' rs; clear Hst.
    - destruct cnd; [|apply if_cond_false_falsy in Hc; congruence]. cbn [xorb] in H2. inversion H2; subst; clear H2.
      exists wx, rest1, vx. split; [reflexivity|]. split; [reflexivity|]. rewrite Ht. cbn [Rg]. left. auto.
    - destruct cnd; [apply if_cond_true_truthy in Hc; congruence|]. cbn [xorb] in H2.
      destruct (IHz _ _ _ H2) as [wz [rest [vz [-> [-> Hz]]]]].
      exists (wx ++ wz), rest, vz. split; [apply app_assoc|]. split; [reflexivity|].
      cbn [Rg]. right. exists wx, wz, vx. auto.
  Qed.

  (* ---------- or_i ---------- *)
  Lemma b_ori_B x z : sB x -> sB z -> sB (MOrI x z).
  Proof.
    intros IHx IHz st al r H. cbn [enc] in H. destruct (ori_run e _ _ _ _ _ H) as [sel [st1 [cnd [-> [Hc [H1 _]]]]]].
    destruct cnd.
    - destruct (IHx _ _ _ H1) as [w [rest [v [-> [-> HR]]]]]. exists (sel :: w), rest, v.
      split; [reflexivity|]. split; [reflexivity|]. cbn [Rg]. exists sel, w, true. repeat split; auto. discriminate.
    - destruct (IHz _ _ _ H1) as [w [rest [v [-> [-> HR]]]]]. exists (sel :: w), rest, v.
      split; [reflexivity|]. split; [reflexivity|]. cbn [Rg]. exists sel, w, false. repeat split; auto. discriminate.
  Qed.
  Lemma b_ori_V x z : sV x -> sV z -> sV (MOrI x z).
  Proof.
    intros IHx IHz st al r H. cbn [enc] in H. destruct (ori_run e _ _ _ _ _ H) as [sel [st1 [cnd [-> [Hc [H1 _]]]]]].
    destruct cnd.
    - destruct (IHx _ _ _ H1) as [w [rest [-> [-> HR]]]]. exists (sel :: w), rest.
      split; [reflexivity|]. split; [reflexivity|]. cbn [Rg]. exists sel, w, true. repeat split; auto. discriminate.
    - destruct (IHz _ _ _ H1) as [w [rest [-> [-> HR]]]]. exists (sel :: w), rest.
      split; [reflexivity|]. split; [reflexivity|]. cbn [Rg]. exists sel, w, false. repeat split; auto. discriminate.
  Qed.
  Lemma b_ori_K x z : sK x -> sK z -> sK (MOrI x z).
  Proof.
    intros IHx IHz st al r H. cbn [enc] in H. destruct (ori_run e _ _ _ _ _ H) as [sel [st1 [cnd [-> [Hc [H1 _]]]]]].
    destruct cnd.
    - destruct (IHx _ _ _ H1) as [c [rest [key [-> [-> HR]]]]]. exists (sel :: c), rest, key.
      split; [reflexivity|]. split; [reflexivity|]. intros s sg Hk. cbn [Rg app]. exists sel, (c ++ [sg]), true.
      repeat split; auto. discriminate.
    - destruct (IHz _ _ _ H1) as [c [rest [key [-> [-> HR]]]]]. exists (sel :: c), rest, key.
      split; [reflexivity|]. split; [reflexivity|]. intros s sg Hk. cbn [Rg app]. exists sel, (c ++ [sg]), false.
      repeat split; auto. discriminate.
  Qed.

  (* ---------- andor ---------- *)
  Lemma b_andor_run a b c st al r : sB a ->
    exec e (sc (MAndOr a b c)) (mkSt st al) = Ok r ->
    exists wa rest1 va (cnd : bool), st = wa ++ rest1 /\ RR a cnd wa va /\ if_cond e va = Some cnd /\
      exec e (if cnd then sc b else sc c) (mkSt rest1 al) = Ok r.
  Proof.
    intros IHa H. cbn [enc] in H. apply exec_app_inv in H. destruct H as [r1 [H1 H2]].
    destruct (IHa _ _ _ H1) as [wa [rest1 [va [-> [-> Ha]]]]].
    rewrite exec_single in H2. apply exec_if_inv in H2.
    destruct H2 as [v' [rs [cnd [Hst [Hc H2]]]]]; cbn [stk alt] in *; inversion Hst; subst v' rs; clear Hst.
    rewrite (if_cond_truthy e va cnd Hc) in Ha.
    exists wa, rest1, va, cnd. split; [reflexivity|]. split; [exact Ha|]. split; [exact Hc|]. destruct cnd; exact H2.
  Qed.
  Lemma b_andor_B a b c : sB a -> sB b -> sB c -> sB (MAndOr a b c).
  Proof.
    intros IHa IHb IHc st al r H. destruct (b_andor_run a b c _ _ _ IHa H) as [wa [rest1 [va [cnd [-> [Ha [Hc H1]]]]]]].
    destruct cnd.
    - destruct (IHb _ _ _ H1) as [w [rest [v [-> [-> HR]]]]]. exists (wa ++ w), rest, v.
      split; [apply app_assoc|]. split; [reflexivity|]. cbn [Rg]. exists wa, w, va. split; [reflexivity|]. left.
      repeat split; auto. discriminate.
    - destruct (IHc _ _ _ H1) as [w [rest [v [-> [-> HR]]]]]. exists (wa ++ w), rest, v.
      split; [apply app_assoc|]. split; [reflexivity|]. cbn [Rg]. exists wa, w, va. split; [reflexivity|]. right. auto.
  Qed.
  Lemma b_andor_V a b c : sB a -> sV b -> sV c -> sV (MAndOr a b c).
  Proof.
    intros IHa IHb IHc st al r H. destruct (b_andor_run a b c _ _ _ IHa H) as [wa [rest1 [va [cnd [-> [Ha [Hc H1]]]]]]].
    destruct cnd.
    - destruct (IHb _ _ _ H1) as [w [rest [-> [-> HR]]]]. exists (wa ++ w), rest.
      split; [apply app_assoc|]. split; [reflexivity|]. cbn [Rg]. exists wa, w, va. split; [reflexivity|]. left.
      repeat split; auto.
    - destruct (IHc _ _ _ H1) as [w [rest [-> [-> HR]]]]. exists (wa ++ w), rest.
      split; [apply app_assoc|]. split; [reflexivity|]. cbn [Rg]. exists wa, w, va. split; [reflexivity|]. right. auto.
  Qed.
  Lemma b_andor_K a b c : sB a -> sK b -> sK c -> sK (MAndOr a b c).
  Proof.
    intros IHa IHb IHc st al r H. destruct (b_andor_run a b c _ _ _ IHa H) as [wa [rest1 [va [cnd [-> [Ha [Hc H1]]]]]]].
    destruct cnd.
    - destruct (IHb _ _ _ H1) as [c0 [rest [key [-> [-> HR]]]]]. exists (wa ++ c0), rest, key.
      split; [apply app_assoc|]. split; [reflexivity|]. intros s sg Hk. cbn [Rg].
      exists wa, (c0 ++ [sg]), va. split; [symmetry; apply app_assoc|]. left. repeat split; auto. discriminate.
    - destruct (IHc _ _ _ H1) as [c0 [rest [key [-> [-> HR]]]]]. exists (wa ++ c0), rest, key.
      split; [apply app_assoc|]. split; [reflexivity|]. intros s sg Hk. cbn [Rg].
      exists wa, (c0 ++ [sg]), va. split; [symmetry; apply app_assoc|]. right. auto.
  Qed.

  (* ---------- thresh ---------- *)
  Definition wgood (x : ms) : Prop := sW x /\ exists i, invW e (sc x) i true.

  Lemma add_inv sw v (a : Z) X al r : (0 <= a < 2147483648)%Z -> uval true v ->
    exec_op e OP_ADD (mkSt (wout sw v (num_encode a) ++ X) al) = Ok r ->
    (truthy v = true /\ v = [1%N] /\ r = mkSt (num_encode (a + 1) :: X) al) \/
    (truthy v = false /\ v = [] /\ r = mkSt (num_encode a :: X) al).
  Proof.
    intros Ha Hu H.
    assert (H' : exists zv, num_operand 4 v = Some zv /\ r = mkSt (num_encode (a + zv) :: X) al).
    { destruct sw; cbn [wout app exec_op stk alt] in H; rewrite (num_roundtrip 4 a) in H by lia;
        destruct (num_operand 4 v) as [zv|]; try discriminate; exists zv; split; try reflexivity;
        inversion H; try reflexivity. rewrite Z.add_comm. reflexivity. }
    destruct H' as [zv [Hz ->]]. destruct (truthy v) eqn:Ht.
    - left. pose proof (Hu eq_refl Ht) as ->. rewrite num_operand_one in Hz by lia. inversion Hz. auto.
    - right. pose proof (num_falsy v zv Hz Ht) as ->. apply num_operand_zero in Hz. subst v. rewrite Z.add_0_r. auto.
  Qed.

  Lemma thr_fwd r : Forall wgood r ->
    forall a st al res s', exec e (enc_tail ke r ++ s') (mkSt (num_encode a :: st) al) = Ok res ->
      (0 <= a)%Z -> (a + Z.of_nat (length r) < 2147483648)%Z ->
      exists w rest j, st = w ++ rest /\ Rthr (fun x => RR x) r w j /\
        exec e s' (mkSt (num_encode (a + Z.of_nat j) :: rest) al) = Ok res.
  Proof.
    induction 1 as [|x r [Hx [i Hi]] _ IH]; intros a st al res s' H Ha Hb.
    - exists [], st, 0%nat. split; [reflexivity|]. split; [split; reflexivity|]. rewrite Z.add_0_r. exact H.
    - cbn [length] in Hb. cbn [enc_tail] in H. rewrite <- !app_assoc in H. apply exec_app_inv in H. destruct H as [r1 [H1 H2]].
      destruct (sW_inv x i true Hx Hi _ _ _ H1) as [c0 [w [rest1 [v [sw [Hs [-> [HR Hu]]]]]]]].
      inversion Hs; subst c0 st; clear Hs.
      cbn [app] in H2. rewrite exec_op_cons in H2. apply bind_ok_inv in H2. destruct H2 as [r2 [H2 H3]].
      destruct (add_inv sw v a _ _ _ ltac:(lia) Hu H2) as [[Ht [-> ->]]|[Ht [-> ->]]].
      + destruct (IH _ _ _ _ _ H3 ltac:(lia) ltac:(lia)) as [w' [rest [j [-> [HT Hs']]]]].
        exists (w ++ w'), rest, (S j). split; [apply app_assoc|]. split.
        * apply Rthr_cons. exists w, w'. split; [reflexivity|]. left. exists j. rewrite Ht in HR. auto.
        * replace (a + Z.of_nat (S j))%Z with (a + 1 + Z.of_nat j)%Z by lia. exact Hs'.
      + destruct (IH _ _ _ _ _ H3 ltac:(lia) ltac:(lia)) as [w' [rest [j [-> [HT Hs']]]]].
        exists (w ++ w'), rest, j. split; [apply app_assoc|]. split; [|exact Hs'].
        apply Rthr_cons. exists w, w'. split; [reflexivity|]. right. rewrite Ht in HR. auto.
  Qed.

  (* the first child is B: with a single child no ADD constrains its false value (EQUAL compares
     bytes), so "a u-typed fragment leaves [] when dissatisfied" ([Hd0], from R_u_dsat) is needed *)
  Lemma b_thresh k x0 r i0 : sB x0 -> invB e (sc x0) i0 true -> (forall w v, RR x0 false w v -> v = []) ->
    Forall wgood r ->
    (1 <= k <= N.of_nat (S (length r)))%N -> (S (length r) < 1000)%nat -> sB (MThresh k (x0 :: r)).
  Proof.
    intros IH0 Hi0 Hd0 IHr Hk Hn st al res H. rewrite enc_thresh in H. apply exec_app_inv in H. destruct H as [r1 [H1 H2]].
    destruct (sB_inv x0 i0 true IH0 Hi0 _ _ _ H1) as [w0 [rest1 [v0 [-> [-> [HR0 [_ Hu0]]]]]]].
    assert (H0 : exists (b0 : bool), RR x0 b0 w0 (if b0 then [1%N] else []) /\ v0 = num_encode (if b0 then 1 else 0)).
    { destruct (truthy v0) eqn:Ht.
      - exists true. pose proof (Hu0 eq_refl Ht) as Hv. subst v0. split; [exact HR0 | reflexivity].
      - exists false. pose proof (Hd0 _ _ HR0) as Hv. subst v0. split; [exact HR0 | reflexivity]. }
    destruct H0 as [b0 [HR0' ->]]. clear HR0 Hu0.
    destruct (thr_fwd r IHr _ _ _ _ _ H2) as [w [rest [j [-> [HT Hs]]]]]; [destruct b0; lia | destruct b0; lia |].
    pose proof (Rthr_le _ _ _ _ HT) as Hj.
    rewrite exec_cons, exec_push_int in Hs. cbn [bind stk alt] in Hs. rewrite exec_single in Hs.
    cbn [exec_instr exec_op stk alt] in Hs. inversion Hs; subst; clear Hs.
    rewrite num_eqb_encode by (destruct b0; lia).
    set (tot := ((if b0 then 1 else 0) + Z.of_nat j)%Z).
    exists (w0 ++ w), rest, (bool_bytes (Z.of_N k =? tot)%Z). split; [apply app_assoc|]. split; [reflexivity|].
    rewrite truthy_bool. cbn [Rg]. split; [reflexivity|].
    exists (if b0 then S j else j). split.
    - apply Rthr_cons. exists w0, w. split; [reflexivity|]. destruct b0; [left; exists j; auto | right; auto].
    - split; [|discriminate]. subst tot.
      destruct b0; match goal with |- (?a =? ?b)%Z = (?c =? ?d)%N => destruct (Z.eqb_spec a b), (N.eqb_spec c d) end;
        try reflexivity; lia.
  Qed.

  (* ---------- multi ---------- *)
  Lemma b_cms k keys : (1 <= k <= N.of_nat (length keys))%N -> (length keys <= 20)%nat ->
    forall st al r,
      exec e ([push_int (Z.of_N k)] ++ map IPush keys ++ [push_int (Z.of_nat (length keys)); IOp OP_CHECKMULTISIG]) (mkSt st al) = Ok r ->
      exists w rest v, st = w ++ rest /\ r = mkSt (v :: rest) al /\ Rcms e k keys (truthy v) w v.
  Proof.
    intros Hk Hn st al r H. cbn [app] in H. rewrite exec_cons, exec_push_int in H. cbn [bind stk alt] in H.
    rewrite exec_pushes in H. cbn [stk alt] in H. rewrite exec_cons, exec_push_int in H. cbn [bind stk alt] in H.
    rewrite exec_single in H. cbn [exec_instr] in H. rewrite cms_step in H by assumption.
    assert (H' : cms_result e (rev keys) k st al = Ok r) by (destruct (e_sv e); try discriminate; exact H). clear H.
    unfold cms_result in H'. destruct (take_n (N.to_nat k) st) as [[sigs r4]|] eqn:Et; [|discriminate].
    destruct r4 as [|dm r5]; [discriminate|]. destruct dm; [|discriminate].
    destruct (take_n_spec _ _ _ _ Et) as [-> Hl].
    destruct (forallb (e_keyok e) (rev keys)) eqn:Ekk; cbn [negb] in H'; [|discriminate].
    assert (Hkeys : forall key, In key keys -> e_keyok e key = true).
    { intros key Hin. rewrite forallb_forall in Ekk. apply Ekk. apply -> in_rev. exact Hin. }
    destruct (multisig_match e (rev keys) sigs) eqn:Emm.
    - inversion H'; subst; clear H'. exists (sigs ++ [[]]), r5, [1%N].
      split; [rewrite <- app_assoc; reflexivity|]. split; [reflexivity|].
      split; [reflexivity|]. exists sigs. cbn [truthy N.eqb negb andb]. repeat split; auto.
    - match type of H' with (if ?c then _ else _) = _ => destruct c eqn:Ee end; [|discriminate].
      inversion H'; subst; clear H'. exists (sigs ++ [[]]), r5, [].
      split; [rewrite <- app_assoc; reflexivity|]. split; [reflexivity|].
      split; [reflexivity|]. exists sigs. cbn [truthy]. repeat split; auto.
      rewrite <- Hl. apply forallb_nil_repeat. exact Ee.
  Qed.

  (* ---------- multi_a ---------- *)
  Lemma csa_fwd_R ks : forall a st al r s',
    exec e (csa_tail ke ks ++ s') (mkSt (num_encode a :: st) al) = Ok r ->
    (0 <= a)%Z -> (a + Z.of_nat (length ks) < 2147483648)%Z ->
    exists w rest j, st = w ++ rest /\ Rcsa e ke ks w j /\
      exec e s' (mkSt (num_encode (a + Z.of_nat j) :: rest) al) = Ok r.
  Proof.
    induction ks as [|key ks IH]; intros a st al r s' H Ha Hb.
    - exists [], st, 0%nat. split; [reflexivity|]. split; [split; reflexivity|]. rewrite Z.add_0_r. exact H.
    - cbn [length] in Hb. cbn [csa_tail flat_map app] in H. fold (csa_tail ke ks) in H.
      rewrite exec_push, exec_op_cons in H. cbn [stk alt exec_op] in H.
      destruct (e_sv e) eqn:Esv; try discriminate.
      destruct st as [|sg st']; [discriminate|].
      destruct (e_keyok e (kb ke key)) eqn:Ek; cbn [negb] in H; [|discriminate].
      rewrite num_roundtrip in H by lia.
      destruct sg as [|b0 sg'].
      + cbn [bind] in H. destruct (IH _ _ _ _ _ H ltac:(lia) ltac:(lia)) as [w [rest [j [-> [HR Hs]]]]].
        exists ([] :: w), rest, j. split; [reflexivity|]. split; [|exact Hs].
        cbn [Rcsa]. exists [], w. split; [reflexivity|]. split; [exact Ek|]. left. auto.
      + destruct (e_sigok e (kb ke key) (b0 :: sg')) eqn:Eo; [|discriminate]. cbn [bind] in H.
        destruct (IH _ _ _ _ _ H ltac:(lia) ltac:(lia)) as [w [rest [j [-> [HR Hs]]]]].
        exists ((b0 :: sg') :: w), rest, (S j). split; [reflexivity|]. split.
        * cbn [Rcsa]. exists (b0 :: sg'), w. split; [reflexivity|]. split; [exact Ek|]. right.
          split; [discriminate|]. split; [exact Eo|]. exists j. auto.
        * replace (a + Z.of_nat (S j))%Z with (a + 1 + Z.of_nat j)%Z by lia. exact Hs.
  Qed.

  Lemma b_multi_a_gen k ks' : (1 <= k <= N.of_nat (length ks'))%N -> (length ks' < 1000)%nat ->
    forall st al r,
      exec e ((match ks' with
               | [] => []
               | k0 :: rest => [IPush (kb ke k0); IOp OP_CHECKSIG] ++ csa_tail ke rest
               end) ++ [push_int (Z.of_N k); IOp OP_NUMEQUAL]) (mkSt st al) = Ok r ->
      exists w rest v, st = w ++ rest /\ r = mkSt (v :: rest) al /\
        (v = bool_bytes (truthy v) /\ exists j, Rcsa e ke ks' w j /\ truthy v = N.eqb (N.of_nat j) k /\
           (false = true -> truthy v = false -> j = 0%nat)).
  Proof.
    intros Hk Hn st al r H. destruct ks' as [|k0 ks]; [cbn in Hk; lia|]. cbn [length] in *.
    rewrite <- app_assoc in H. cbn [app] in H. rewrite exec_push, exec_op_cons in H. cbn [stk alt exec_op] in H.
    destruct st as [|sg st']; [discriminate|].
    destruct (e_keyok e (kb ke k0)) eqn:Ek; cbn [negb] in H; [|discriminate].
    assert (Hb : exists (b : bool), (if b then sg <> [] /\ e_sigok e (kb ke k0) sg = true else sg = []) /\
       exec e (csa_tail ke ks ++ [push_int (Z.of_N k); IOp OP_NUMEQUAL]) (mkSt (num_encode (if b then 1 else 0) :: st') al) = Ok r).
    { destruct sg as [|b0 sg'].
      - exists false. split; [reflexivity | exact H].
      - destruct (e_sigok e (kb ke k0) (b0 :: sg')) eqn:Eo; [|discriminate]. exists true.
        split; [split; [discriminate | reflexivity] | exact H]. }
    clear H. destruct Hb as [b [Hsg H]].
    destruct (csa_fwd_R ks _ _ _ _ _ H) as [w [rest [j [-> [HR Hs]]]]]; [destruct b; lia | destruct b; lia |].
    pose proof (Rcsa_le _ _ _ _ _ HR) as [Hj _].
    rewrite exec_cons, exec_push_int in Hs. cbn [bind stk alt] in Hs. rewrite exec_single in Hs.
    cbn [exec_instr exec_op stk alt] in Hs. rewrite !num_roundtrip in Hs by (destruct b; lia).
    inversion Hs; subst; clear Hs.
    set (tot := ((if b then 1 else 0) + Z.of_nat j)%Z).
    exists (sg :: w), rest, (bool_bytes (Z.of_N k =? tot)%Z). split; [reflexivity|]. split; [reflexivity|].
    rewrite truthy_bool. split; [reflexivity|]. exists (if b then S j else j). split.
    - cbn [Rcsa]. exists sg, w. split; [reflexivity|]. split; [exact Ek|].
      destruct b; [right | left]; [destruct Hsg; split; [assumption|]; split; [assumption|]; exists j; auto | auto].
    - split; [|discriminate]. subst tot.
      destruct b; match goal with |- (?a =? ?b)%Z = (?c =? ?d)%N => destruct (Z.eqb_spec a b), (N.eqb_spec c d) end;
        try reflexivity; lia.
  Qed.

  (* ---------- typing inversion tactics (as in FrameSound.v) ---------- *)
  Ltac unf H := unfold t_cast_alt, t_cast_swap, t_cast_check, t_cast_dupif, t_cast_verify, t_cast_nonzero,
    t_cast_zeronotequal, t_and_v, t_and_b, t_or_b, t_or_c, t_or_d, t_or_i, t_and_or, lift1, lift2,
    c_cast_alt, c_cast_swap, c_cast_check, c_cast_dupif, c_cast_verify, c_cast_nonzero, c_cast_zeronotequal,
    c_and_v, c_and_b, c_or_b, c_or_c, c_or_d, c_or_i, c_and_or in H; cbn [t_corr t_mall c_base c_input c_dissat c_unit] in H.

  (* ---------- a u-typed B / W fragment leaves the EMPTY vector when dissatisfied ---------- *)
  Definition ud (m : ms) : Prop :=
    forall t, type_of m = ROk t -> c_unit (t_corr t) = true ->
    (c_base (t_corr t) = BB \/ c_base (t_corr t) = BW) -> forall w v, RR m false w v -> v = [].

  Ltac ud_bool := intros t _ _ _ w v HR; cbn [Rg] in HR; destruct HR as [-> _]; reflexivity.
  Ltac ud_bin := intros t _ _ _ w v HR; cbn [Rg] in HR;
    destruct HR as [wx [wy [vx [vy [sx [sy [_ [_ [_ [_ [_ [_ [-> _]]]]]]]]]]]]]; reflexivity.
  Ltac ud_hash := intros t _ _ _ w v HR; cbn [Rg] in HR; destruct HR as [x [_ [_ [-> _]]]]; reflexivity.
  Ltac ud_notB := intros t Ht Hu Hb; inversion Ht; subst; cbn in Hb; destruct Hb; discriminate.
  Ltac ud_child Ht tx bx ix dx ux mx Hx :=
    apply rbind_ok in Ht; destruct Ht as [tx [Hx Ht]]; destruct tx as [[bx ix dx ux] mx].

  Theorem R_u_dsat : forall m, ud m.
  Proof.
    induction m using ms_ind'.
    - intros t _ _ _ w v [Hs _]. discriminate.
    - intros t _ _ _ w v [_ [_ ->]]. reflexivity.
    - ud_notB.
    - ud_notB.
    - ud_notB.
    - intros t0 Ht Hu _. inversion Ht; subst. discriminate.
    - intros t0 Ht Hu _. inversion Ht; subst. discriminate.
    - ud_hash.
    - ud_hash.
    - ud_hash.
    - ud_hash.
    - (* a: *) intros t Ht Hu Hb w v HR. cbn [type_of] in Ht. ud_child Ht tx bx ix dx ux mx Hx. unf Ht.
      destruct bx; try discriminate. inversion Ht; subst; clear Ht. cbn [Rg] in HR.
      exact (IHm _ Hx Hu (or_introl eq_refl) w v HR).
    - (* s: *) intros t Ht Hu Hb w v HR. cbn [type_of] in Ht. ud_child Ht tx bx ix dx ux mx Hx. unf Ht.
      destruct bx; try discriminate; destruct ix; try discriminate; inversion Ht; subst; clear Ht; cbn [Rg] in HR;
        exact (IHm _ Hx Hu (or_introl eq_refl) w v HR).
    - ud_bool.
    - (* d: is never u *) intros t Ht Hu Hb w v HR. cbn [type_of] in Ht. ud_child Ht tx bx ix dx ux mx Hx. unf Ht.
      destruct bx; try discriminate; destruct ix; try discriminate. inversion Ht; subst; clear Ht. discriminate.
    - (* v: *) intros t Ht Hu Hb w v HR. cbn [Rg] in HR. destruct HR as [Hs _]. discriminate.
    - (* j: *) intros t Ht Hu Hb w v HR. cbn [type_of] in Ht. ud_child Ht tx bx ix dx ux mx Hx. unf Ht.
      cbn [Rg] in HR. destruct HR as [[_ [_ ->]]|[a [r [_ [_ [_ [HR _]]]]]]]; [reflexivity|].
      destruct ix; cbn in Ht; try discriminate; destruct bx; try discriminate; inversion Ht; subst; clear Ht;
        exact (IHm _ Hx Hu (or_introl eq_refl) w v HR).
    - ud_bool.
    - (* and_v *) intros t Ht Hu Hb w v HR. cbn [type_of] in Ht. ud_child Ht t1 bx ix dx ux mx Hx.
      ud_child Ht t2 b2 i2 d2 u2 q2 Hy. unf Ht. cbn [Rg] in HR. destruct HR as [wx [wy [_ [_ HR]]]].
      destruct bx, b2; try discriminate; inversion Ht; subst; clear Ht; cbn in Hb; try (destruct Hb; discriminate).
      exact (IHm2 _ Hy Hu (or_introl eq_refl) wy v HR).
    - ud_bin.
    - (* andor *) intros t Ht Hu Hb w v HR. cbn [type_of] in Ht. ud_child Ht ta ba ia da ua ma Ha.
      ud_child Ht dn_tb bb ib db ub mb Hb'. ud_child Ht tc bc ic dc uc mc Hc. unf Ht.
      destruct da; cbn [negb] in Ht; try discriminate. destruct ua; cbn [negb] in Ht; try discriminate.
      destruct ba, bb, bc; try discriminate; inversion Ht; subst; clear Ht; cbn in Hb; try (destruct Hb; discriminate).
      cbn in Hu. apply andb_prop in Hu. destruct Hu as [Hub Huc].
      cbn [Rg] in HR. destruct HR as [wa [w' [va [_ [[_ [_ [HR _]]]|[_ [_ HR]]]]]]].
      + exact (IHm2 _ Hb' Hub (or_introl eq_refl) w' v HR).
      + exact (IHm3 _ Hc Huc (or_introl eq_refl) w' v HR).
    - ud_bin.
    - (* or_d *) intros t Ht Hu Hb w v HR. cbn [type_of] in Ht. ud_child Ht t1 bx ix dx ux mx Hx.
      ud_child Ht t2 b2 i2 d2 u2 q2 Hy. unf Ht.
      destruct dx; cbn [negb] in Ht; try discriminate. destruct ux; cbn [negb] in Ht; try discriminate.
      destruct bx, b2; try discriminate; inversion Ht; subst; clear Ht.
      cbn [Rg] in HR. destruct HR as [[Hs _]|[wx [wy [vx [_ [_ [_ HR]]]]]]]; [discriminate|].
      exact (IHm2 _ Hy Hu (or_introl eq_refl) wy v HR).
    - (* or_c *) intros t Ht Hu Hb w v HR. cbn [Rg] in HR. destruct HR as [Hs _]. discriminate.
    - (* or_i *) intros t Ht Hu Hb w v HR. cbn [type_of] in Ht. ud_child Ht t1 bx ix dx ux mx Hx.
      ud_child Ht t2 b2 i2 d2 u2 q2 Hy. unf Ht.
      destruct bx, b2; try discriminate; inversion Ht; subst; clear Ht; cbn in Hb; try (destruct Hb; discriminate).
      cbn in Hu. apply andb_prop in Hu. destruct Hu as [Hu1 Hu2].
      cbn [Rg] in HR. destruct HR as [sel [w' [b [_ [_ [HR _]]]]]]. destruct b.
      + exact (IHm1 _ Hx Hu1 (or_introl eq_refl) w' v HR).
      + exact (IHm2 _ Hy Hu2 (or_introl eq_refl) w' v HR).
    - ud_bool.
    - ud_bool.
    - ud_bool.
    - ud_bool.
    - ud_bool.
  Qed.

  (* ---------- assembly along the typing rules ---------- *)
  Ltac red_s := unfold snd_ in *; cbn [t_corr c_base c_input c_unit c_dissat] in *.
  Ltac one_child IH Ht Hwf tx Hg Hi bx ix dx ux mx :=
    cbn [type_of] in Ht; apply rbind_ok in Ht; destruct Ht as [tx [Hx Ht]];
    cbn [wf] in Hwf; pose proof (IH tx Hx Hwf) as Hg; pose proof (frame_inv e ke _ tx Hx Hwf) as Hi;
    destruct tx as [[bx ix dx ux] mx]; unf Ht; unfold inv in Hi; cbn [t_corr c_base c_input c_unit] in Hi.

  Lemma bt_alt x : sstmt x -> sstmt (MAlt x).
  Proof.
    intros IH t Ht Hwf. one_child IH Ht Hwf tx Hg Hi bx ix dx ux mx.
    destruct bx; try discriminate. inversion Ht; subst; clear Ht. red_s. exact (b_alt x Hg).
  Qed.
  Lemma bt_swap x : sstmt x -> sstmt (MSwap x).
  Proof.
    intros IH t Ht Hwf. one_child IH Ht Hwf tx Hg Hi bx ix dx ux mx.
    destruct bx; try discriminate; destruct ix; try discriminate; inversion Ht; subst; clear Ht; red_s.
    - exact (b_swap x _ _ Hg Hi (or_introl eq_refl)).
    - exact (b_swap x _ _ Hg Hi (or_intror eq_refl)).
  Qed.
  Lemma bt_check x : sstmt x -> sstmt (MCheck x).
  Proof.
    intros IH t Ht Hwf. one_child IH Ht Hwf tx Hg Hi bx ix dx ux mx.
    destruct bx; try discriminate. inversion Ht; subst; clear Ht. red_s. exact (b_check x Hg).
  Qed.
  Lemma bt_dupif x : sstmt x -> sstmt (MDupIf x).
  Proof.
    intros IH t Ht Hwf. one_child IH Ht Hwf tx Hg Hi bx ix dx ux mx.
    destruct bx; try discriminate; destruct ix; try discriminate. inversion Ht; subst; clear Ht. red_s.
    exact (b_dupif x Hg Hi).
  Qed.
  Lemma bt_verify x : sstmt x -> sstmt (MVerify x).
  Proof.
    intros IH t Ht Hwf. one_child IH Ht Hwf tx Hg Hi bx ix dx ux mx.
    destruct bx; try discriminate. inversion Ht; subst; clear Ht. red_s. exact (b_verify x Hg).
  Qed.
  Lemma bt_nonzero x : sstmt x -> sstmt (MNonZero x).
  Proof.
    intros IH t Ht Hwf. one_child IH Ht Hwf tx Hg Hi bx ix dx ux mx.
    destruct ix; cbn in Ht; try discriminate; destruct bx; try discriminate; inversion Ht; subst; clear Ht; red_s;
      exact (b_nonzero x _ _ Hg Hi eq_refl).
  Qed.
  Lemma bt_zne x : sstmt x -> sstmt (MZeroNotEqual x).
  Proof.
    intros IH t Ht Hwf. one_child IH Ht Hwf tx Hg Hi bx ix dx ux mx.
    destruct bx; try discriminate. inversion Ht; subst; clear Ht. red_s. exact (b_zne x Hg).
  Qed.

  Ltac two_children IHx IHy Ht Hwf tx ty Hgx Hgy :=
    cbn [type_of] in Ht; apply rbind_ok in Ht; destruct Ht as [tx [Hx Ht]];
    apply rbind_ok in Ht; destruct Ht as [ty [Hy Ht]];
    cbn [wf] in Hwf; destruct Hwf as [Hwx Hwy];
    pose proof (IHx tx Hx Hwx) as Hgx; pose proof (IHy ty Hy Hwy) as Hgy;
    destruct tx as [[bx ix dx ux] mx]; destruct ty as [[b2 i2 d2 u2] m2]; unf Ht.

  Lemma bt_and_v x y : sstmt x -> sstmt y -> sstmt (MAndV x y).
  Proof.
    intros IHx IHy t Ht Hwf. two_children IHx IHy Ht Hwf t1 t2 Hgx Hgy.
    destruct bx, b2; try discriminate; inversion Ht; subst; clear Ht; red_s.
    - exact (b_andv_B x y Hgx Hgy).
    - exact (b_andv_K x y Hgx Hgy).
    - exact (b_andv_V x y Hgx Hgy).
  Qed.
  Lemma bt_and_b x y : sstmt x -> sstmt y -> sstmt (MAndB x y).
  Proof.
    intros IHx IHy t Ht Hwf. two_children IHx IHy Ht Hwf t1 t2 Hgx Hgy.
    destruct bx, b2; try discriminate; inversion Ht; subst; clear Ht; red_s. exact (b_andb x y Hgx Hgy).
  Qed.
  Lemma bt_or_b x y : sstmt x -> sstmt y -> sstmt (MOrB x y).
  Proof.
    intros IHx IHy t Ht Hwf. two_children IHx IHy Ht Hwf t1 t2 Hgx Hgy.
    destruct dx; cbn [negb] in Ht; try discriminate. destruct d2; cbn [negb] in Ht; try discriminate.
    destruct bx, b2; try discriminate; inversion Ht; subst; clear Ht; red_s. exact (b_orb x y Hgx Hgy).
  Qed.
  Lemma bt_or_c x y : sstmt x -> sstmt y -> sstmt (MOrC x y).
  Proof.
    intros IHx IHy t Ht Hwf. two_children IHx IHy Ht Hwf t1 t2 Hgx Hgy.
    destruct dx; cbn [negb] in Ht; try discriminate. destruct ux; cbn [negb] in Ht; try discriminate.
    destruct bx, b2; try discriminate; inversion Ht; subst; clear Ht; red_s. exact (b_orc x y Hgx Hgy).
  Qed.
  Lemma bt_or_d x y : sstmt x -> sstmt y -> sstmt (MOrD x y).
  Proof.
    intros IHx IHy t Ht Hwf. two_children IHx IHy Ht Hwf t1 t2 Hgx Hgy.
    destruct dx; cbn [negb] in Ht; try discriminate. destruct ux; cbn [negb] in Ht; try discriminate.
    destruct bx, b2; try discriminate; inversion Ht; subst; clear Ht; red_s. exact (b_ord x y Hgx Hgy).
  Qed.
  Lemma bt_or_i x y : sstmt x -> sstmt y -> sstmt (MOrI x y).
  Proof.
    intros IHx IHy t Ht Hwf. two_children IHx IHy Ht Hwf t1 t2 Hgx Hgy.
    destruct bx, b2; try discriminate; inversion Ht; subst; clear Ht; red_s.
    - exact (b_ori_B x y Hgx Hgy).
    - exact (b_ori_K x y Hgx Hgy).
    - exact (b_ori_V x y Hgx Hgy).
  Qed.
  Lemma bt_andor a b c : sstmt a -> sstmt b -> sstmt c -> sstmt (MAndOr a b c).
  Proof.
    intros IHa IHb IHc t Ht Hwf.
    cbn [type_of] in Ht. apply rbind_ok in Ht. destruct Ht as [ta [Ha Ht]].
    apply rbind_ok in Ht. destruct Ht as [dn_tb [Hb Ht]]. apply rbind_ok in Ht. destruct Ht as [tc [Hc Ht]].
    cbn [wf] in Hwf. destruct Hwf as [Hwa [Hwb Hwc]].
    pose proof (IHa ta Ha Hwa) as Hga. pose proof (IHb dn_tb Hb Hwb) as Hgb. pose proof (IHc tc Hc Hwc) as Hgc.
    destruct ta as [[ba ia da ua] ma], dn_tb as [[bb ib db ub] mb], tc as [[bc ic dc uc] mc]. unf Ht.
    destruct da; cbn [negb] in Ht; try discriminate. destruct ua; cbn [negb] in Ht; try discriminate.
    destruct ba, bb, bc; try discriminate; inversion Ht; subst; clear Ht; red_s.
    - exact (b_andor_B a b c Hga Hgb Hgc).
    - exact (b_andor_K a b c Hga Hgb Hgc).
    - exact (b_andor_V a b c Hga Hgb Hgc).
  Qed.

  Lemma bt_thresh k xs : Forall sstmt xs -> sstmt (MThresh k xs).
  Proof.
    intros IH t Ht Hwf. cbn [type_of] in Ht. fold (tys_of xs) in Ht.
    apply rbind_ok in Ht. destruct Ht as [ts [Hts Ht]]. apply tys_of_ok in Hts.
    cbn [wf] in Hwf. destruct Hwf as [Hk [Hn Hwf]].
    assert (Hall : Forall2 (fun x t => type_of x = ROk t /\ snd_ x t /\ inv e (sc x) t) xs ts).
    { clear Ht Hk Hn. revert ts Hts Hwf. induction IH as [|x r Hx Hr IHr]; intros ts Hts Hwf.
      - inversion Hts. constructor.
      - inversion Hts as [|x' t' r' ts' Hxt Hrt]; subst. destruct Hwf as [Hw1 Hw2].
        constructor; [|apply IHr; assumption].
        split; [exact Hxt|]. split; [apply Hx; assumption | apply frame_inv; assumption]. }
    unfold t_threshold in Ht. destruct (c_threshold k (map t_corr ts)) as [c|] eqn:Ec; [|discriminate].
    inversion Ht; subst; clear Ht.
    destruct xs as [|x0 r]; [cbn in Hk; lia|]. inversion Hall as [|x0' t0 r' ts0 [Ht0 [Hg0 Hi0]] Hrest]; subst.
    unfold c_threshold in Ec. cbn [map] in Ec. destruct (loop_first (t_corr t0) (map t_corr ts0)) as [Lt Lf].
    destruct (child_ok true (t_corr t0) && forallb (child_ok false) (map t_corr ts0)) eqn:Eok.
    2:{ destruct (Lf eq_refl) as [err He]. rewrite He in Ec. discriminate. }
    rewrite (Lt eq_refl) in Ec. inversion Ec; subst; clear Ec.
    apply andb_prop in Eok. destruct Eok as [Ok0 Okr].
    unfold child_ok in Ok0. destruct t0 as [[b0 i0 d0 u0] m0]. cbn [t_corr c_base c_unit c_dissat] in Ok0.
    destruct b0, u0, d0; try discriminate. unfold snd_ in Hg0. unfold inv in Hi0. cbn [t_corr c_base c_input c_unit] in Hg0, Hi0.
    assert (HW : Forall wgood r).
    { clear -Hrest Okr. induction Hrest as [|x t r ts [_ [Hg Hi]] Hr IHr]; [constructor|].
      cbn [map forallb] in Okr. apply andb_prop in Okr. destruct Okr as [O1 O2].
      constructor; [|apply IHr, O2]. unfold child_ok in O1. destruct t as [[b i d u] m].
      cbn [t_corr c_base c_unit c_dissat] in O1. destruct b, u, d; try discriminate.
      unfold snd_ in Hg. unfold inv in Hi. cbn [t_corr c_base c_input c_unit] in Hg, Hi. split; [exact Hg | exists i; exact Hi]. }
    unfold snd_. cbn [t_corr c_base]. apply (b_thresh k x0 r i0 Hg0 Hi0); auto; try (cbn [length] in *; lia).
    exact (R_u_dsat x0 _ Ht0 eq_refl (or_introl eq_refl)).
  Qed.

  Theorem denot_sound_inv : forall m, sstmt m.
  Proof.
    induction m using ms_ind'.
    - intros t Ht _. inversion Ht; subst. exact b_true.
    - intros t Ht _. inversion Ht; subst. exact b_false.
    - intros t Ht _. inversion Ht; subst. exact (b_pk_k k).
    - intros t Ht _. inversion Ht; subst. exact (b_pk_h k).
    - intros t Ht _. inversion Ht; subst. exact (b_raw h).
    - intros t0 Ht Hwf. inversion Ht; subst. exact (b_after t Hwf).
    - intros t0 Ht Hwf. inversion Ht; subst. exact (b_older t Hwf).
    - intros t Ht _. inversion Ht; subst. exact (b_hash_gen OP_SHA256 (e_sha256 e) h (fun x r al => eq_refl)).
    - intros t Ht _. inversion Ht; subst. exact (b_hash_gen OP_HASH256 (e_hash256 e) h (fun x r al => eq_refl)).
    - intros t Ht _. inversion Ht; subst. exact (b_hash_gen OP_RIPEMD160 (e_ripemd160 e) h (fun x r al => eq_refl)).
    - intros t Ht _. inversion Ht; subst. exact (b_hash_gen OP_HASH160 (e_hash160 e) h (fun x r al => eq_refl)).
    - apply bt_alt; assumption.
    - apply bt_swap; assumption.
    - apply bt_check; assumption.
    - apply bt_dupif; assumption.
    - apply bt_verify; assumption.
    - apply bt_nonzero; assumption.
    - apply bt_zne; assumption.
    - apply bt_and_v; assumption.
    - apply bt_and_b; assumption.
    - apply bt_andor; assumption.
    - apply bt_or_b; assumption.
    - apply bt_or_d; assumption.
    - apply bt_or_c; assumption.
    - apply bt_or_i; assumption.
    - apply bt_thresh; assumption.
    - (* multi *) intros t Ht Hwf. inversion Ht; subst. cbn [wf] in Hwf. destruct Hwf as [Hk [Hn _]].
      intros st al r H. cbn [enc] in H. rewrite <- (map_map (kb ke) IPush ks), <- (map_length (kb ke) ks) in H.
      cbn [Rg]. refine (b_cms k (map (kb ke) ks) _ _ st al r H); rewrite map_length; assumption.
    - (* sortedmulti *) intros t Ht Hwf. inversion Ht; subst. cbn [wf] in Hwf. destruct Hwf as [Hk [Hn [_ Hlen]]].
      intros st al r H. cbn [enc] in H.
      rewrite <- (map_map (kb ke) IPush (ksort ke ks)), <- Hlen, <- (map_length (kb ke) (ksort ke ks)) in H.
      cbn [Rg]. refine (b_cms k (map (kb ke) (ksort ke ks)) _ _ st al r H); rewrite map_length, Hlen; assumption.
    - (* multi_a *) intros t Ht Hwf. inversion Ht; subst. cbn [wf] in Hwf. destruct Hwf as [Hk [Hn _]].
      intros st al r H. cbn [enc] in H. exact (b_multi_a_gen k ks Hk Hn st al r H).
    - (* sortedmulti_a *) intros t Ht Hwf. inversion Ht; subst. cbn [wf] in Hwf. destruct Hwf as [Hk [Hn [_ Hlen]]].
      intros st al r H. cbn [enc] in H.
      exact (b_multi_a_gen k (ksort ke ks) ltac:(rewrite Hlen; exact Hk) ltac:(rewrite Hlen; exact Hn) st al r H).
  Qed.
End Sound.
