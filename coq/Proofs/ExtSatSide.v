(* C09: the satisfier side of the threshold case — flatten_rev, swap_in, the chosen index set. *)
From Coq Require Import Lia Permutation.
From Verif Require Import TypeCheck ExtModel ExtProofs ExtLemmas ExtThresh.
Local Open Scope N_scope.

Arguments N.add : simpl never. Arguments N.mul : simpl never. Arguments N.sub : simpl never.
Arguments N.max : simpl never. Arguments N.of_nat : simpl never. Arguments N.leb : simpl never.
Arguments N.ltb : simpl never. Arguments N.eqb : simpl never.

(* ---- the index order is a permutation of 0..n-1 *)
Lemma insert_by_perm {K} (le : K -> K -> bool) (x : nat * K) l : Permutation (insert_by le x l) (x :: l).
Proof.
  induction l as [|y r IH]; cbn [insert_by]; [apply Permutation_refl|].
  destruct (le (snd y) (snd x)); [|apply Permutation_refl].
  eapply Permutation_trans; [apply perm_skip, IH|]. apply perm_swap.
Qed.
Lemma sort_by_perm {K} (le : K -> K -> bool) (l : list (nat * K)) : Permutation (sort_by le l) l.
Proof.
  unfold sort_by.
  assert (H : forall acc, Permutation (fold_left (fun a x => insert_by le x a) l acc) (l ++ acc)).
  { induction l as [|x r IH]; intros acc; cbn [fold_left app]; [apply Permutation_refl|].
    eapply Permutation_trans; [apply IH|].
    eapply Permutation_trans; [apply Permutation_app_head, insert_by_perm|].
    apply Permutation_sym, Permutation_middle. }
  specialize (H []). rewrite app_nil_r in H. exact H.
Qed.
Lemma order_perm {K} (le : K -> K -> bool) (f : nat -> K) n :
  Permutation (map fst (sort_by le (map (fun i => (i, f i)) (seq 0 n)))) (seq 0 n).
Proof.
  eapply Permutation_trans; [apply Permutation_map, sort_by_perm|].
  rewrite map_map. cbn [fst]. rewrite map_id. apply Permutation_refl.
Qed.

Lemma NoDup_firstn {A} k (l : list A) : NoDup l -> NoDup (firstn k l).
Proof.
  revert l. induction k as [|k IH]; intros l H; cbn [firstn]; [constructor|].
  destruct l as [|x r]; [constructor|]. inversion H; subst. constructor; [|apply IH; assumption].
  intros Hin. apply H2. clear -Hin. revert r Hin. induction k as [|k IH]; intros r Hin; [destruct Hin|].
  destruct r as [|y r]; [destruct Hin|]. destruct Hin as [->|Hin]; [left; reflexivity|right; apply IH, Hin].
Qed.
Lemma firstn_incl {A} k (l : list A) : incl (firstn k l) l.
Proof.
  revert l. induction k as [|k IH]; intros l x Hin; [destruct Hin|].
  destruct l as [|y r]; [destruct Hin|]. destruct Hin as [->|Hin]; [left; reflexivity|right; apply IH, Hin].
Qed.

Definition memb (ch : list nat) (i : nat) : bool := existsb (Nat.eqb i) ch.
Lemma memb_In ch i : memb ch i = true <-> In i ch.
Proof.
  unfold memb. rewrite existsb_exists. split.
  - intros (x & Hx & E). apply Nat.eqb_eq in E. subst. exact Hx.
  - intros H. exists i. split; [exact H|apply Nat.eqb_refl].
Qed.
Lemma NoDup_filter_local {A} (f : A -> bool) l : NoDup l -> NoDup (filter f l).
Proof.
  induction 1 as [|x l Hx Hl IH]; cbn [filter]; [constructor|].
  destruct (f x); [constructor; [|exact IH]|exact IH].
  intros Hin. apply filter_In in Hin. apply Hx, Hin.
Qed.
Lemma count_chosen (l ch : list nat) :
  NoDup l -> NoDup ch -> incl ch l -> length (filter (memb ch) l) = length ch.
Proof.
  intros Hl Hc Hi. apply Permutation_length, NoDup_Permutation; [apply NoDup_filter_local, Hl|exact Hc|].
  intros x. rewrite filter_In, memb_In. split; [tauto|]. intros H. split; [apply Hi, H|exact H].
Qed.

(* the set chosen by thresh_mall / thresh_nonmall: the first k indices of a permutation of 0..n-1 *)
Lemma chosen_count {K} (le : K -> K -> bool) (f : nat -> K) (n k : nat) :
  (k <= n)%nat ->
  let order := map fst (sort_by le (map (fun i => (i, f i)) (seq 0 n))) in
  length (filter (memb (firstn k order)) (seq 0 n)) = k.
Proof.
  intros Hk order. pose proof (order_perm le f n) as HP. fold order in HP.
  assert (Hnd : NoDup order) by (eapply Permutation_NoDup; [apply Permutation_sym, HP|apply seq_NoDup]).
  rewrite count_chosen.
  - rewrite firstn_length, (Permutation_length HP), seq_length. lia.
  - apply seq_NoDup.
  - apply NoDup_firstn, Hnd.
  - intros x Hx. apply firstn_incl in Hx. eapply Permutation_in; [exact HP|exact Hx].
Qed.

(* ---- picks: the vector handed to flatten_rev, as a function of the choice flags *)
Definition pick (f : bool) (ds : satn * satn) : satn := if f then snd ds else fst ds.
Fixpoint picks (flags : list bool) (ds : list (satn * satn)) : list satn :=
  match flags, ds with
  | f :: fr, d :: dr => pick f d :: picks fr dr
  | _, _ => []
  end.

Lemma swap_in_picks_gen chosen (ds : list (satn * satn)) : forall (pre : list satn),
  map (fun p => if memb chosen (fst p) then nth_sat (pre ++ map snd ds) (fst p) else snd p)
      (combine (seq (length pre) (length ds)) (map fst ds))
  = picks (map (memb chosen) (seq (length pre) (length ds))) ds.
Proof.
  induction ds as [|[d s] r IH]; intros pre; [reflexivity|].
  cbn [length seq map combine picks fst snd].
  f_equal.
  - unfold pick, nth_sat. cbn [fst snd]. destruct (memb chosen (length pre)); [|reflexivity].
    rewrite app_nth2 by lia. rewrite Nat.sub_diag. reflexivity.
  - specialize (IH (pre ++ [s])). rewrite app_length in IH. cbn [length] in IH.
    replace (length pre + 1)%nat with (S (length pre)) in IH by lia.
    rewrite <- app_assoc in IH. cbn [app] in IH. exact IH.
Qed.
Lemma swap_in_picks chosen (ds : list (satn * satn)) :
  swap_in chosen (map fst ds) (map snd ds) = picks (map (memb chosen) (seq 0 (length ds))) ds.
Proof.
  unfold swap_in. rewrite map_length. pose proof (swap_in_picks_gen chosen ds []) as H.
  cbn [length app] in H. exact H.
Qed.
Lemma picks_all_true (ds : list (satn * satn)) : map snd ds = picks (repeat true (length ds)) ds.
Proof. induction ds as [|d r IH]; [reflexivity|]. cbn [map length repeat picks pick]. rewrite IH at 1. reflexivity. Qed.
Lemma picks_all_false (ds : list (satn * satn)) : map fst ds = picks (repeat false (length ds)) ds.
Proof. induction ds as [|d r IH]; [reflexivity|]. cbn [map length repeat picks pick]. rewrite IH at 1. reflexivity. Qed.

(* ---- flatten_rev *)
Lemma fold_cr_stack_acc l : forall a L,
  s_stack (fold_left concatenate_rev l a) = WStack L -> exists La, s_stack a = WStack La.
Proof.
  induction l as [|x r IH]; intros a L H; cbn [fold_left] in H; [eauto|].
  apply IH in H. destruct H as [Lb Hb]. apply concatenate_rev_stack in Hb.
  destruct Hb as (la & lb & Ea & _ & _). eauto.
Qed.

(* what one child contributes, given its figures and the flag *)
Definition child_ok (se : senv) (e : ext) (ds : satn * satn) : Prop :=
  bounded se (sat_data e) (snd ds) /\ bounded se (dissat_data e) (fst ds) /\ dtracked e = true.
Definition pair_of (e : ext) : sdpair := (sat_data e, dissat_data e).

Lemma flatten_picks_bound se : forall (es : list ext) (ds : list (satn * satn)) (flags : list bool),
  Forall2 (child_ok se) es ds -> length flags = length ds ->
  forall acc La L, s_stack acc = WStack La ->
    s_stack (fold_left concatenate_rev (picks flags ds) acc) = WStack L ->
    let T0 := combine (map pair_of es) flags in
    Forall okT T0
    /\ N.of_nat (length L) <= N.of_nat (length La) + V sd_wcount T0
    /\ ph_sum se L <= ph_sum se La + V sd_wsize T0
    /\ (se_tap se = false -> ssig_sum se L <= ssig_sum se La + V sd_ssig T0).
Proof.
  intros es ds flags HF. revert flags. induction HF as [|e d es ds Hc HF IH]; intros flags Hlen acc La L Ha HL.
  - destruct flags; [|discriminate]. cbn [picks fold_left] in HL. rewrite Ha in HL. inversion HL; subst.
    cbn [map combine]. split; [constructor|]. change (V sd_wcount []) with 0. change (V sd_wsize []) with 0.
    change (V sd_ssig []) with 0. split; [lia|]. split; [lia|]. intros _. lia.
  - destruct flags as [|f fr]; [discriminate|]. cbn [length] in Hlen.
    cbn [picks fold_left] in HL.
    destruct (fold_cr_stack_acc _ _ _ HL) as [Lb Hb].
    pose proof Hb as Hb'. apply concatenate_rev_stack in Hb'. destruct Hb' as (la & lx & Ea & Ex & ->).
    rewrite Ha in Ea. inversion Ea; subst la. clear Ea.
    destruct (IH fr ltac:(lia) _ _ _ Hb HL) as (Hok & Hcnt & Hsz & Hsg).
    destruct Hc as (Hs & Hd & Ht). apply dtracked_inv in Ht. destruct Ht as [dd Hdd].
    cbn [map combine]. rewrite !V_cons.
    assert (Hp : exists dx, (if f then sat_data e else dissat_data e) = Some dx /\ within se dx lx).
    { destruct f; unfold pick in Ex.
      - unfold bounded in Hs. rewrite Ex in Hs. exact Hs.
      - unfold bounded in Hd. rewrite Ex in Hd. exact Hd. }
    destruct Hp as (dx & Edx & (Wc & Ws & Wg)).
    assert (Hpv : forall proj, pickv proj (pair_of e, f) = proj dx).
    { intros proj. unfold pickv, pair_of.
      destruct f, (sat_data e), (dissat_data e); try discriminate; inversion Edx; reflexivity. }
    rewrite !Hpv. rewrite len_app_N, ph_sum_app, ssig_sum_app in *.
    split.
    + constructor; [|exact Hok]. split; cbn [fst snd pair_of]; [eauto|]. intros ->. eauto.
    + repeat split; try lia. intros Htap. specialize (Hsg Htap). specialize (Wg Htap). lia.
Qed.

Lemma nflags_combine_map {A} (f : A -> bool) (ps : list sdpair) (l : list A) :
  length ps = length l -> nflags (combine ps (map f l)) = length (filter f l).
Proof.
  revert l. induction ps as [|p r IH]; intros l H; destruct l as [|a l]; try discriminate; [reflexivity|].
  cbn [map combine filter]. unfold nflags in *. cbn [filter snd]. destruct (f a); cbn [length]; rewrite IH by (cbn in H; lia); reflexivity.
Qed.
Lemma nflags_combine_repeat (b : bool) (ps : list sdpair) :
  nflags (combine ps (repeat b (length ps))) = if b then length ps else O.
Proof.
  induction ps as [|p r IH]; [destruct b; reflexivity|]. cbn [length repeat combine]. unfold nflags in *. cbn [filter snd].
  destruct b; cbn [length]; rewrite IH; reflexivity.
Qed.
