(* C04 x C12: closed examples for decode_with (vm_compute on the witness environment of
   Proofs/DecodeRefute.v: Tap, two x-only keys A = 0, B = 1). *)
From Coq Require Import Lia.
From Verif Require Import DecodeModel CodecSpec SerProofs DecodeSound DecodeNf DecodeRefute.
From Verif Require Import ValidateModel DecodeParamsModel.
Local Open Scope N_scope.

(* and_v(v:pk(A),pk(B)): sane *)
Definition dp_ms_sane : ms := MAndV (MVerify (MCheck (MPkK 0))) (MCheck (MPkK 1)).
(* c:pk_h(A): sane as an AST, but its script decodes to c:expr_raw_pkh(hash160 A) *)
Definition dp_ms_pkh : ms := MCheck (MPkH 0).

(* non-vacuity of decode_with_canonical / decode_sane_meaning / monotonicity *)
Lemma dp_sane_accepts :
  decode_sane wit_env (encode wit_ke dp_ms_sane) = DpOk dp_ms_sane /\
  decode_consensus wit_env (encode wit_ke dp_ms_sane) = DpOk dp_ms_sane /\
  decode_with wit_env VP_MAX (encode wit_ke dp_ms_sane) = DpOk dp_ms_sane.
Proof. repeat split; vm_compute; reflexivity. Qed.

(* the order of stages and of validate's checks: and_v(v:multi_a(1,A,B),pk(A)) repeats A *)
Lemma dp_dup_keys :
  decode_consensus wit_env (encode wit_ke wit_ms) = DpOk wit_ms /\
  decode_sane wit_env (encode wit_ke wit_ms) = DpInvalid EDuplicateKeys /\
  decode_with wit_env VP_MAX wit_bytes = DpErr (DeLex LeNonMinimalVerify) /\
  decode_sane wit_env wit_bytes = DpErr (DeLex LeNonMinimalVerify).
Proof. repeat split; vm_compute; reflexivity. Qed.

(* completeness w.r.t. encode fails for SANE at pk_h: the AST validates, every hypothesis of C04's
   decode_enc holds, yet Miniscript::decode refuses the encoding (decode_consensus returns the
   normal form, whose script is identical) *)
Lemma dp_enc_refuted :
  ms_wf Tap wit_ke dp_ms_pkh /\ ksort_ok wit_ke /\
  (exists t, type_of dp_ms_pkh = ROk t /\ c_base (t_corr t) = BB) /\
  lim_ok wit_env (nf wit_ke dp_ms_pkh) /\ gv Tap wit_ke (nf wit_ke dp_ms_pkh) = None /\
  validate (ctx_sane CTap) (facts_of Tap wit_ke dp_ms_pkh) = VOk /\
  decode_sane wit_env (encode wit_ke dp_ms_pkh) = DpInvalid EIllegalRawPkh /\
  decode_consensus wit_env (encode wit_ke dp_ms_pkh) = DpOk (nf wit_ke dp_ms_pkh) /\
  enc wit_ke (nf wit_ke dp_ms_pkh) = enc wit_ke dp_ms_pkh.
Proof.
  split; [|split; [exact (proj2 wit_wf)|]].
  - cbn. unfold key_ok. cbn. repeat split; try lia; try reflexivity.
  - split; [eexists; split; vm_compute; reflexivity|].
    split; [|repeat split; vm_compute; reflexivity].
    vm_compute. repeat split; try reflexivity; try discriminate.
Qed.
