(* C12: what "validate accepts" means, and monotonicity in the parameters. *)
From Coq Require Import List Bool NArith Lia.
Import ListNotations.
From Verif Require Import ValidateModel ValidateSpec ValidateProofs.
Local Open Scope N_scope.

Lemma validate_pk_ok p k : validate_pk p k = VOk <->
  (allow_compressed_keys p = true \/ allow_x_only_keys p = true \/ k_uncompressed k = true \/ k_xonly k = true) /\
  (allow_uncompressed_keys p = true \/ k_uncompressed k = false) /\
  (allow_x_only_keys p = true \/ k_xonly k = false).
Proof.
  unfold validate_pk.
  destruct (allow_compressed_keys p), (allow_x_only_keys p), (allow_uncompressed_keys p),
    (k_uncompressed k), (k_xonly k); simpl; intuition congruence.
Qed.

Lemma validate_pk_mono p q k : vp_le p q -> validate_pk p k = VOk -> validate_pk q k = VOk.
Proof. intros L. rewrite !validate_pk_ok. destruct L; unfold ble in *. intuition. Qed.

Definition inv_mp (q : vparams) (sp sq : option N) : Prop :=
  allow_inconsistent_multipath_keys q = true \/ sp = sq.

Lemma multipath_mono p q sp sq k sp' : vp_le p q -> inv_mp q sp sq ->
  multipath_check p sp k = (sp', VOk) ->
  exists sq', multipath_check q sq k = (sq', VOk) /\ inv_mp q sp' sq'.
Proof.
  intros L I. unfold multipath_check, inv_mp in *.
  destruct (allow_inconsistent_multipath_keys q) eqn:Q.
  - intros _. exists sq. auto.
  - destruct I as [I|I]; [discriminate|subst sq].
    destruct (allow_inconsistent_multipath_keys p) eqn:P.
    + apply (le_multipath _ _ L) in P. congruence.
    + intros H. exists sp'. split; auto.
Qed.

Lemma check_keys_mono p q ks : vp_le p q -> forall sp sq sp', inv_mp q sp sq ->
  check_keys p sp ks = (sp', VOk) ->
  exists sq', check_keys q sq ks = (sq', VOk) /\ inv_mp q sp' sq'.
Proof.
  intros L. induction ks as [|k r IH]; intros sp sq sp' I; simpl.
  - intros [= <-]. exists sq; auto.
  - destruct (validate_pk p k) eqn:V; [|intros [= _ ?]; discriminate].
    rewrite (validate_pk_mono _ _ _ L V).
    destruct (multipath_check p sp k) as [s1 r1] eqn:M.
    destruct r1; [|intros [= _ ?]; discriminate].
    destruct (multipath_mono _ _ _ _ _ _ L I M) as [s2 [M2 I2]]. rewrite M2.
    intros H. exact (IH _ _ _ I2 H).
Qed.

Definition kind_allowed (p : vparams) (k : nkind) : bool :=
  match k with
  | KDupIf => allow_dup_if p
  | KMulti | KSortedMulti => allow_multi p
  | KMultiA | KSortedMultiA => allow_multi_a p
  | KOrI => allow_or_i p
  | KRawPkH => allow_raw_pkh p
  | _ => true
  end.
Definition kind_err (k : nkind) : verr :=
  match k with
  | KDupIf => EIllegalDupIf | KMulti | KSortedMulti => EIllegalMulti
  | KMultiA | KSortedMultiA => EIllegalMultiA | KOrI => EIllegalOrI | _ => EIllegalRawPkh
  end.

Lemma kind_allowed_mono p q k : vp_le p q -> kind_allowed p k = true -> kind_allowed q k = true.
Proof. intros []; destruct k; simpl; auto. Qed.

(* check_node = kind gate, then the keys of key-bearing kinds *)
Lemma check_node_eq p st n :
  check_node p st n =
  if kind_allowed p (n_kind n) then check_keys p st (vkeys n) else (st, VErr (kind_err (n_kind n))).
Proof.
  unfold check_node, kind_allowed, vkeys, kind_err.
  destruct (n_kind n); simpl;
    try destruct (allow_dup_if p); try destruct (allow_multi p); try destruct (allow_multi_a p);
    try destruct (allow_or_i p); try destruct (allow_raw_pkh p); reflexivity.
Qed.

Lemma check_nodes_mono p q ns : vp_le p q -> forall sp sq, inv_mp q sp sq ->
  check_nodes p sp ns = VOk -> check_nodes q sq ns = VOk.
Proof.
  intros L. induction ns as [|n r IH]; intros sp sq I; simpl; auto.
  rewrite !check_node_eq.
  destruct (kind_allowed p (n_kind n)) eqn:K; [|discriminate].
  rewrite (kind_allowed_mono _ _ _ L K).
  destruct (check_keys p sp (vkeys n)) as [s1 r1] eqn:C.
  destruct r1; [|discriminate].
  destruct (check_keys_mono _ _ _ L _ _ _ I C) as [s2 [C2 I2]]. rewrite C2.
  apply IH; auto.
Qed.

Lemma check_keys_ok_all p ks : forall st st', check_keys p st ks = (st', VOk) ->
  forall k, In k ks -> validate_pk p k = VOk.
Proof.
  induction ks as [|k0 r IH]; intros st st'; simpl; [tauto|].
  destruct (validate_pk p k0) eqn:V; [|intros [= _ ?]; discriminate].
  destruct (multipath_check p st k0) as [s1 r1]. destruct r1; [|intros [= _ ?]; discriminate].
  intros H k [<-|Hin]; auto. eapply IH; eauto.
Qed.

Lemma check_nodes_ok_all p ns : forall st, check_nodes p st ns = VOk ->
  (forall n, In n ns -> kind_allowed p (n_kind n) = true) /\
  (forall k, In k (all_keys ns) -> validate_pk p k = VOk).
Proof.
  induction ns as [|n r IH]; intros st; simpl; [tauto|].
  rewrite check_node_eq.
  destruct (kind_allowed p (n_kind n)) eqn:K; [|discriminate].
  destruct (check_keys p st (vkeys n)) as [s1 r1] eqn:C. destruct r1; [|discriminate].
  intros H. destruct (IH _ H) as [A B]. split.
  - intros m [<-|Hin]; auto.
  - intros k Hin. unfold all_keys in Hin. simpl in Hin. apply in_app_or in Hin.
    destruct Hin as [Hin|Hin]; [eapply check_keys_ok_all; eauto | apply B; exact Hin].
Qed.

(* declarative reading of "validate accepts" *)
Record accept (p : vparams) (s : summary) : Prop := mkAccept {
  a_depth : s_tree_height s <= max_recursive_depth p;
  a_dup : allow_duplicate_keys p = true \/ has_repeated_keys s = false;
  a_mixed : allow_mixed_time_locks p = true \/ s_mixed_locks s = false;
  a_nodes : check_nodes p None (s_nodes s) = VOk;
  a_size : max_script_size p < USIZE_MAX -> s_script_size s <= max_script_size p;
  a_sat : forall d, s_sat s = Some d ->
          sf_wit_count d + 1 <= max_witness_items p /\ sf_op_count d <= max_opcode_count p /\
          sf_wit_count d + sf_exec_stack d <= max_exec_stack_size p;
  a_mall : allow_malleability p = true \/ s_nonmall s = true;
  a_base : allow_non_b p = true \/ s_base s = BB;
  a_sig : allow_sigless_branch p = true \/ s_signed s = true;
  a_unsat : allow_unsatisfiable p = true \/ s_sat s <> None }.

Lemma is_B_true b : is_B b = true <-> b = BB.
Proof. destruct b; simpl; intuition congruence. Qed.

Lemma if_ok (c : bool) e r : (if c then VErr e else r) = VOk <-> c = false /\ r = VOk.
Proof. destruct c; intuition discriminate. Qed.
Lemma bind_ok r k : match r with VOk => k | VErr e => VErr e end = VOk <-> r = VOk /\ k = VOk.
Proof. destruct r; intuition discriminate. Qed.
Lemma sat_ok (o : option satfig) f :
  match o with None => VOk | Some d => f d end = VOk <-> forall d, o = Some d -> f d = VOk.
Proof.
  destruct o; split; intros H; auto.
  - intros d [= <-]; auto.
  - discriminate.
Qed.
Lemma nb_and_false a b : negb a && b = false <-> a = true \/ b = false.
Proof. destruct a, b; simpl; intuition discriminate. Qed.
Lemma nb_nb_false a b : negb a && negb b = false <-> a = true \/ b = true.
Proof. destruct a, b; simpl; intuition discriminate. Qed.
Lemma gate_false m sz : (m <? USIZE_MAX) && (m <? sz) = false <-> (m < USIZE_MAX -> sz <= m).
Proof.
  destruct (N.ltb_spec m USIZE_MAX), (N.ltb_spec m sz); simpl; split; intros; try lia; auto; discriminate.
Qed.
Lemma is_some_true {A} (o : option A) : is_some o = true <-> o <> None.
Proof. destruct o; simpl; intuition congruence. Qed.

Theorem validate_ok_iff p s : validate p s = VOk <-> accept p s.
Proof.
  unfold validate, validate_non_top_level.
  rewrite bind_ok, !if_ok, bind_ok, if_ok, sat_ok.
  rewrite N.ltb_ge, !nb_nb_false, !nb_and_false, gate_false, is_B_true, is_some_true.
  split.
  - intros [[Hd [Hdup [Hmix [Hn [Hsz Hsat]]]]] [Hm [Hb [Hs [Hu _]]]]].
    constructor; auto.
    intros d Hd'. specialize (Hsat d Hd'). rewrite !if_ok, !N.ltb_ge in Hsat.
    destruct Hsat as [? [? [? _]]]. auto.
  - intros []. repeat split; auto.
    intros d Hd'. rewrite !if_ok, !N.ltb_ge. destruct (a_sat0 d Hd') as [? [? ?]]. auto.
Qed.

(* tightening the parameters never admits more scripts *)
Theorem validate_monotone p q s : vp_le p q -> validate p s = VOk -> validate q s = VOk.
Proof.
  intros L. rewrite !validate_ok_iff. intros A.
  pose proof (le_dup _ _ L) as L1. pose proof (le_mixed _ _ L) as L2.
  pose proof (le_mall _ _ L) as L3. pose proof (le_non_b _ _ L) as L4.
  pose proof (le_sigless _ _ L) as L5. pose proof (le_unsat _ _ L) as L6.
  pose proof (le_ops _ _ L) as L7. pose proof (le_size _ _ L) as L8.
  pose proof (le_wit _ _ L) as L9. pose proof (le_stack _ _ L) as L10.
  pose proof (le_depth _ _ L) as L11.
  unfold ble in *. destruct A as [A1 A2 A3 A4 A5 A6 A7 A8 A9 A10].
  constructor.
  - lia.
  - tauto.
  - tauto.
  - eapply check_nodes_mono; eauto. right; reflexivity.
  - intros Hq. assert (H : max_script_size p < USIZE_MAX) by lia. specialize (A5 H). lia.
  - intros d Hd. destruct (A6 d Hd) as [? [? ?]]. repeat split; lia.
  - tauto.
  - tauto.
  - tauto.
  - tauto.
Qed.
