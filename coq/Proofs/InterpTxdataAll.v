(* C13: the model of `from_txdata` against Script/Spend.v for every script-bearing output type
   (wsh, sh-wsh, sh, bare, tr script path), and the composition with the evaluator's soundness
   theorem (InterpMain.interp_sound_env) in instantiated form. *)
From Verif Require Import InterpTxdataModel InterpTxdataProofs.
From Verif Require Import Exec ExecTrace Ser Ast Types TypeCheck InterpModel InterpSound InterpMain.
From Coq Require Import Lia.
Local Open Scope N_scope.

(* ------------------------------------------------------------------ inversion of the model *)
Ltac ftx_inv :=
  repeat (match goal with
          | H : context [match ?x with _ => _ end] |- _ => destruct x eqn:?
          | H : context [if ?x then _ else _] |- _ => destruct x eqn:?
          end; cbv beta iota in *; try discriminate; try subst).

Ltac ftx_close :=
  repeat match goal with
         | H : FOk _ _ _ = FOk _ _ _ |- _ => injection H as <- <- <-
         | H : Some (FOk _ _ _) = Some (FOk _ _ _) |- _ => injection H as <- <- <-
         | H : negb _ = false |- _ => apply negb_false_iff in H
         end.

Lemma ftx_inv_wsh : forall e fe spk ssig wit sb st code,
    from_txdata e fe spk ssig wit = FOk (InScript sb StWsh) st code ->
    exists el, ssig_stack_of ssig = Some [] /\ rev (map elem_of wit) = el :: st /\ sb = conc el /\ code = Some sb.
Proof.
  intros. unfold from_txdata in H. ftx_inv. ftx_close. eexists. repeat split; eassumption.
Qed.

Lemma ftx_inv_shwsh : forall e fe spk ssig wit sb st code,
    from_txdata e fe spk ssig wit = FOk (InScript sb StShWsh) st code ->
    exists h rb prog el,
      spk_is_p2wsh spk = None /\ spk_is_p2wpkh spk = None /\ spk_is_p2sh spk = Some h /\
      ssig_stack_of ssig = Some [EPush rb] /\ bytes_eqb spk (p2sh_bytes (e_hash160 e rb)) = true /\
      spk_is_p2wsh rb = Some prog /\ rev (map elem_of wit) = el :: st /\ sb = conc el /\ code = Some sb /\
      bytes_eqb rb (p2wsh_bytes (e_sha256 e sb)) = true.
Proof.
  intros. unfold from_txdata in H. ftx_inv. ftx_close. do 4 eexists. repeat split; eassumption.
Qed.

Lemma ftx_inv_sh : forall e fe spk ssig wit sb st code,
    from_txdata e fe spk ssig wit = FOk (InScript sb StSh) st code ->
    exists h el,
      spk_is_p2wsh spk = None /\ spk_is_p2wpkh spk = None /\ spk_is_p2sh spk = Some h /\
      ssig_stack_of ssig = Some (el :: st) /\ sb = conc el /\ code = Some sb /\
      spk_is_p2wsh sb = None /\ spk_is_p2wpkh sb = None /\ rev (map elem_of wit) = [] /\
      bytes_eqb spk (p2sh_bytes (e_hash160 e sb)) = true.
Proof.
  intros. unfold from_txdata in H. ftx_inv; ftx_close; do 2 eexists; repeat split; try eassumption; reflexivity.
Qed.

Lemma ftx_inv_bare : forall e fe spk ssig wit sb st code,
    from_txdata e fe spk ssig wit = FOk (InScript sb StBare) st code ->
    spk_is_p2wsh spk = None /\ spk_is_p2wpkh spk = None /\ spk_is_p2sh spk = None /\ spk_is_p2tr spk = None /\
    ssig_stack_of ssig = Some st /\ sb = spk /\ code = Some spk /\ rev (map elem_of wit) = [].
Proof.
  intros. unfold from_txdata in H. ftx_inv. ftx_close. repeat split; eassumption.
Qed.

Lemma ftx_inv_tr : forall e fe spk ssig wit sb st code,
    from_txdata e fe spk ssig wit = FOk (InScript sb StTr) st code ->
    exists k c cr el,
      spk_is_p2wsh spk = None /\ spk_is_p2wpkh spk = None /\ spk_is_p2tr spk = Some k /\
      ssig_stack_of ssig = Some [] /\ rev (map elem_of wit) = EPush (c :: cr) :: el :: st /\
      N.eqb c 80 = false /\ sb = conc el /\ code = Some sb /\ f_commit fe sb (c :: cr) = true.
Proof.
  intros. unfold from_txdata in H. ftx_inv. ftx_close. do 4 eexists. repeat split; try eassumption.
  match goal with H : _ && _ = false |- _ =>
    apply andb_false_iff in H; destruct H as [H|H]; [exact H|cbn [length] in H; apply N.leb_gt in H; lia] end.
Qed.

(* ------------------------------------------------------------------ scriptSig: model's lexing vs Spend.v's *)
Definition instr_of_tok (t : tok) : instr :=
  match t with TPush d => IPush d | TNum n => INum n | TByte c => IOp (byte_opcode c) end.

Lemma elems_parse : forall ts acc st,
    elems_of_toks ts acc = Some st ->
    forall fuel, (length ts < fuel)%nat -> parse_seq fuel ts = Some (map instr_of_tok ts, AtEnd, []).
Proof.
  induction ts as [|t ts IH]; intros acc st H fuel Hf; (destruct fuel; [lia|]); cbn; [reflexivity|].
  cbn in H. cbn in Hf.
  destruct t as [d|z|c]; cbn in H.
  - rewrite (IH _ _ H fuel ltac:(lia)). reflexivity.
  - destruct (match z with 1%Z => Some ESat | _ => None end) eqn:E; [|discriminate].
    rewrite (IH _ _ H fuel ltac:(lia)). reflexivity.
  - discriminate.
Qed.

Lemma elems_pushonly : forall ts acc st,
    elems_of_toks ts acc = Some st ->
    pushonly_stack (map instr_of_tok ts) (map conc acc) = Some (map conc st).
Proof.
  induction ts as [|t ts IH]; intros acc st H; cbn in *.
  - injection H as <-. reflexivity.
  - destruct t as [d|z|c]; cbn in H.
    + apply IH in H. cbn [map] in H. rewrite conc_elem_of in H. exact H.
    + destruct z as [|p|p]; try discriminate. destruct p; try discriminate.
      apply IH in H. exact H.
    + discriminate.
Qed.

Lemma ssig_bridge : forall ssig st,
    ssig_stack_of ssig = Some st ->
    exists ss, parse_script ssig = Some ss /\ pushonly_stack ss [] = Some (map conc st).
Proof.
  unfold ssig_stack_of, parse_script. intros ssig st H.
  destruct (lex_bytes (S (length ssig)) ssig) as [ts|]; [|discriminate].
  rewrite (elems_parse _ _ _ H (S (S (length ts))) ltac:(lia)).
  eexists. split; [reflexivity|]. exact (elems_pushonly _ _ _ H).
Qed.

(* ------------------------------------------------------------------ shapes of the scriptPubKey *)
Lemma p2wsh_shape : forall spk prog,
    spk_is_p2wsh spk = Some prog -> spk = 0 :: 32 :: prog /\ N.eqb (blen prog) 32 = true.
Proof.
  intros spk prog W. unfold spk_is_p2wsh in W.
  destruct spk as [|a [|b0 p]]; [discriminate|destruct a; discriminate|].
  destruct a; [|discriminate]. destruct b0 as [|q]; [discriminate|].
  do 6 (destruct q as [q|q|]; try discriminate).
  destruct (N.eqb (blen p) 32) eqn:LP; [|discriminate]. injection W as <-. split; [reflexivity|exact LP].
Qed.

Lemma p2sh_hash : forall hh h, spk_is_p2sh (p2sh_bytes hh) = Some h -> h = hh.
Proof.
  intros hh h H. unfold p2sh_bytes, spk_is_p2sh in H. rewrite rev_app_distr in H. cbn [rev app] in H.
  destruct (N.eqb (blen (rev hh)) 20); [|discriminate]. injection H as <-. apply rev_involutive.
Qed.

Lemma not_annex : forall (X : Type) c (r : bytes) (x y : X),
    N.eqb c 80 = false -> match c :: r with 80 :: _ => x | _ => y end = y.
Proof.
  intros X c r x y H. destruct c as [|p]; [reflexivity|].
  do 7 (destruct p as [p|p|]; try reflexivity). cbn in H. discriminate.
Qed.

Lemma wit_nil : forall wit, rev (map elem_of wit) = [] -> wit = [].
Proof.
  intros wit H. destruct wit as [|a w]; [reflexivity|]. cbn in H. destruct (rev (map elem_of w)); discriminate.
Qed.

Lemma wit_split : forall wit el st, rev (map elem_of wit) = el :: st -> rev wit = conc el :: map conc st.
Proof. intros wit el st H. rewrite <- conc_wit_stack, H. reflexivity. Qed.

(* ------------------------------------------------------------------ (a) soundness, every script kind *)
Definition sh_body (e : env) (sb : bytes) (stk : list bytes) : bool :=
  N.leb (blen sb) 520 &&
  match parse_script sb with
  | None => false
  | Some s => N.leb (count_nonpush_ops s) 201 && final_ok (exec (with_sv e SvBase) s (mkSt stk []))
  end.
Definition bare_body (e : env) (ssig sb : bytes) (stk : list bytes) : bool :=
  match parse_script sb with
  | None => false
  | Some s => N.leb (blen ssig) 1650 && N.leb (blen sb) 10000 && N.leb (count_nonpush_ops s) 201 &&
              final_ok (exec (with_sv e SvBase) s (mkSt stk []))
  end.
Definition tr_body (e : env) (sb : bytes) (stk : list bytes) : bool :=
  forallb (fun it => N.leb (blen it) 520) stk && N.leb (N.of_nat (length stk)) 1000 &&
  match parse_script sb with
  | None => false
  | Some s => final_ok (exec (with_sv e SvTapscript) s (mkSt stk []))
  end.

(* what the specification's dispatch reduces to, by output kind; [cbok] = the specification's commitment
   check on the control block of this spend (taproot only) *)
Definition spec_body (e : env) (t : sctype) (ssig sb : bytes) (stk : list bytes) (cbok : bool) : bool :=
  match t with
  | StWsh => wsh_body e sb stk
  | StShWsh => N.leb (blen ssig) 1650 && wsh_body e sb stk
  | StSh => N.leb (blen ssig) 1650 && sh_body e sb stk
  | StBare => bare_body e ssig sb stk
  | StTr => cbok && tr_body e sb stk
  end.

Lemma from_txdata_sound_shwsh : forall e fe co spk ssig wit sb st code,
    from_txdata e fe spk ssig wit = FOk (InScript sb StShWsh) st code ->
    verify_spend e co spk ssig wit = (N.leb (blen ssig) 1650 && wsh_body e sb (map conc st)).
Proof.
  intros e fe co spk ssig wit sb st code H.
  destruct (ftx_inv_shwsh _ _ _ _ _ _ _ _ H) as (h & rb & prog & el & W & WP & SH & SS & HB & RW & WS & -> & _ & HW).
  unfold verify_spend. rewrite W, WP, SH. unfold verify_sh.
  destruct (ssig_bridge _ _ SS) as (ss & -> & ->). cbn [map conc].
  apply ftx_bytes_eqb_eq in HB. subst spk. apply p2sh_hash in SH. subst h. rewrite ftx_bytes_eqb_refl.
  rewrite RW. destruct (p2wsh_shape _ _ RW) as [-> LP].
  apply ftx_bytes_eqb_eq in HW. unfold p2wsh_bytes in HW. injection HW as ->.
  assert (N.leb (blen (0 :: 32 :: e_sha256 e (conc el))) 520 = true) as ->.
  { apply N.eqb_eq in LP. apply N.leb_le. unfold blen in *. cbn [length]. lia. }
  unfold verify_wsh. rewrite (wit_split _ _ _ WS). rewrite ftx_bytes_eqb_refl. unfold wsh_body. reflexivity.
Qed.

Lemma from_txdata_sound_sh : forall e fe co spk ssig wit sb st code,
    from_txdata e fe spk ssig wit = FOk (InScript sb StSh) st code ->
    verify_spend e co spk ssig wit = (N.leb (blen ssig) 1650 && sh_body e sb (map conc st)).
Proof.
  intros e fe co spk ssig wit sb st code H.
  destruct (ftx_inv_sh _ _ _ _ _ _ _ _ H) as (h & el & W & WP & SH & SS & -> & _ & RW & RWP & WN & HB).
  unfold verify_spend. rewrite W, WP, SH. unfold verify_sh.
  destruct (ssig_bridge _ _ SS) as (ss & -> & ->). cbn [map].
  apply ftx_bytes_eqb_eq in HB. subst spk. apply p2sh_hash in SH. subst h. rewrite ftx_bytes_eqb_refl.
  rewrite RW, RWP. rewrite (wit_nil _ WN). unfold sh_body. reflexivity.
Qed.

Lemma from_txdata_sound_bare : forall e fe co spk ssig wit sb st code,
    from_txdata e fe spk ssig wit = FOk (InScript sb StBare) st code ->
    verify_spend e co spk ssig wit = bare_body e ssig sb (map conc st).
Proof.
  intros e fe co spk ssig wit sb st code H.
  destruct (ftx_inv_bare _ _ _ _ _ _ _ _ H) as (W & WP & SH & TR & SS & -> & _ & WN).
  unfold verify_spend. rewrite W, WP, SH, TR. unfold verify_bare. rewrite (wit_nil _ WN).
  destruct (ssig_bridge _ _ SS) as (ss & -> & ->). unfold bare_body. reflexivity.
Qed.

(* taproot script path.  OBSERVATION: from_txdata asks rust-bitcoin for the commitment only; it never tests
   that the control block's leaf version is 0xc0 (the commitment covers the version byte, so this only matters
   for outputs built with another leaf version, which consensus leaves unencumbered).  The specification's
   [co] includes "leaf version = 0xc0"; the equation below therefore keeps [co sb cb] as a factor, and the
   composition theorem assumes [f_commit .. = true -> co .. = true] for the spend's control block. *)
Lemma from_txdata_sound_tr : forall e fe co spk ssig wit sb st code,
    from_txdata e fe spk ssig wit = FOk (InScript sb StTr) st code ->
    exists cb, rev wit = cb :: sb :: map conc st /\ f_commit fe sb cb = true /\
               verify_spend e co spk ssig wit = (co sb cb && tr_body e sb (map conc st)).
Proof.
  intros e fe co spk ssig wit sb st code H.
  destruct (ftx_inv_tr _ _ _ _ _ _ _ _ H) as (k & c & cr & el & W & WP & TR & SS & WS & NA & -> & _ & FC).
  exists (c :: cr). pose proof (wit_split _ _ _ WS) as RW. cbn [map conc] in RW.
  split; [exact RW|]. split; [exact FC|].
  assert (SH : spk_is_p2sh spk = None).
  { clear - TR. unfold spk_is_p2tr in TR. destruct spk as [|a [|b0 p]]; [discriminate|exfalso; destruct a as [|q]; [discriminate|]; do 7 (destruct q as [q|q|]; try discriminate)|].
    destruct a as [|q]; [discriminate|]. do 7 (destruct q as [q|q|]; try discriminate). reflexivity. }
  unfold verify_spend. rewrite W, WP, SH, TR. unfold verify_tr.
  apply ssig_stack_nil in SS. subst ssig. rewrite RW. rewrite (not_annex _ c cr _ _ NA).
  unfold tr_body. rewrite !andb_assoc. reflexivity.
Qed.

(* all script kinds in one statement *)
Lemma from_txdata_sound_all : forall e fe co spk ssig wit sb t st code,
    from_txdata e fe spk ssig wit = FOk (InScript sb t) st code ->
    code = Some sb /\
    exists cbok, (t = StTr -> exists cb, hd_error (rev wit) = Some cb /\ f_commit fe sb cb = true /\ cbok = co sb cb) /\
                 verify_spend e co spk ssig wit = spec_body e t ssig sb (map conc st) cbok.
Proof.
  intros e fe co spk ssig wit sb t st code H. destruct t.
  - destruct (ftx_inv_bare _ _ _ _ _ _ _ _ H) as (_ & _ & _ & _ & _ & -> & -> & _). split; [reflexivity|].
    exists true. split; [discriminate|]. exact (from_txdata_sound_bare _ _ co _ _ _ _ _ _ H).
  - destruct (ftx_inv_sh _ _ _ _ _ _ _ _ H) as (? & ? & _ & _ & _ & _ & _ & -> & _). split; [reflexivity|].
    exists true. split; [discriminate|]. exact (from_txdata_sound_sh _ _ co _ _ _ _ _ _ H).
  - destruct (from_txdata_sound_wsh _ _ co _ _ _ _ _ _ H) as [-> E]. split; [reflexivity|].
    exists true. split; [discriminate|]. exact E.
  - destruct (ftx_inv_shwsh _ _ _ _ _ _ _ _ H) as (? & ? & ? & ? & _ & _ & _ & _ & _ & _ & _ & _ & -> & _). split; [reflexivity|].
    exists true. split; [discriminate|]. exact (from_txdata_sound_shwsh _ _ co _ _ _ _ _ _ H).
  - destruct (ftx_inv_tr _ _ _ _ _ _ _ _ H) as (? & ? & ? & ? & _ & _ & _ & _ & _ & _ & _ & -> & _). split; [reflexivity|].
    destruct (from_txdata_sound_tr _ _ co _ _ _ _ _ _ H) as (cb & RW & FC & E).
    exists (co sb cb). split; [|exact E]. intros _. exists cb. rewrite RW. repeat split. exact FC.
Qed.

(* ------------------------------------------------------------------ the stack is made of abstracted items *)
Definition normal (x : elem) : Prop := elem_of (conc x) = x.

Lemma normal_elem_of : forall b, normal (elem_of b).
Proof. intros b. unfold normal. rewrite conc_elem_of. reflexivity. Qed.

Lemma wit_stack_normal : forall w, Forall normal (rev (map elem_of w)).
Proof.
  intros w. apply Forall_rev. induction w; cbn; constructor; [apply normal_elem_of|assumption].
Qed.

Lemma elems_normal : forall ts acc st, elems_of_toks ts acc = Some st -> Forall normal acc -> Forall normal st.
Proof.
  induction ts as [|t ts IH]; cbn; intros acc st H F.
  - injection H as <-. exact F.
  - destruct (elem_of_tok t) as [x|] eqn:E; [|discriminate]. apply (IH _ _ H). constructor; [|exact F].
    destruct t as [d|z|c]; cbn in E; try discriminate.
    + injection E as <-. apply normal_elem_of.
    + destruct z as [|p|p]; try discriminate. destruct p; try discriminate. injection E as <-. reflexivity.
Qed.

Lemma ssig_stack_normal : forall ssig st, ssig_stack_of ssig = Some st -> Forall normal st.
Proof.
  unfold ssig_stack_of. intros ssig st H. destruct (lex_bytes _ _); [|discriminate].
  exact (elems_normal _ _ _ H (Forall_nil _)).
Qed.

Lemma ftx_stack_normal : forall e fe spk ssig wit sb t st code,
    from_txdata e fe spk ssig wit = FOk (InScript sb t) st code -> Forall normal st.
Proof.
  intros e fe spk ssig wit sb t st code H. destruct t.
  - destruct (ftx_inv_bare _ _ _ _ _ _ _ _ H) as (_ & _ & _ & _ & SS & _). exact (ssig_stack_normal _ _ SS).
  - destruct (ftx_inv_sh _ _ _ _ _ _ _ _ H) as (? & ? & _ & _ & _ & SS & _).
    apply ssig_stack_normal in SS. inversion SS. assumption.
  - destruct (ftx_inv_wsh _ _ _ _ _ _ _ _ H) as (? & _ & WS & _).
    pose proof (wit_stack_normal wit) as F. rewrite WS in F. inversion F. assumption.
  - destruct (ftx_inv_shwsh _ _ _ _ _ _ _ _ H) as (? & ? & ? & ? & _ & _ & _ & _ & _ & _ & WS & _).
    pose proof (wit_stack_normal wit) as F. rewrite WS in F. inversion F. assumption.
  - destruct (ftx_inv_tr _ _ _ _ _ _ _ _ H) as (? & ? & ? & ? & _ & _ & _ & _ & WS & _).
    pose proof (wit_stack_normal wit) as F. rewrite WS in F. inversion F as [|? ? _ F2]. inversion F2. assumption.
Qed.

Lemma normal_stack_items : forall st, Forall normal st -> astack_of_items (rev (map conc st)) = st.
Proof.
  intros st F. unfold astack_of_items. rewrite map_rev, rev_involutive.
  induction F as [|x l Hx _ IH]; cbn; [reflexivity|]. rewrite Hx, IH. reflexivity.
Qed.

(* ------------------------------------------------------------------ (c) composition, instantiated with
   the evaluator's soundness theorem interp_sound_env (= Properties/C13.v interp_sound_partial) *)
Lemma evaluator_accepts_script :
  forall (e : env) (ke : keyenv) (kp : bytes -> bool) (m : ms) (t : ty) (st : astack) (cs : list constr),
    keys_ok e ke kp -> type_of m = ROk t -> c_base (t_corr t) = BB -> iwf e m -> icover m ->
    Forall normal st -> items_small (map conc st) ->
    interp e ke kp m st = IAccept cs ->
    accepts e (enc ke m) (map conc st) = true.
Proof.
  intros e ke kp m t st cs K T B W C F S I.
  rewrite <- (normal_stack_items _ F) in I.
  pose proof (interp_sound_env e ke kp K m t (rev (map conc st)) cs T B W C) as Hs.
  rewrite rev_involutive in Hs. apply Hs; [|exact I].
  unfold items_small in *. apply Forall_rev. exact S.
Qed.

Lemma accepts_final_ok : forall e s stk, accepts e s stk = true -> final_ok (exec e s (mkSt stk [])) = true.
Proof. intros e s stk H. unfold accepts in H. unfold final_ok. destruct (exec e s _); exact H. Qed.

(* the standardness / resource bounds Spend.v adds to the execution, by output kind *)
Definition std_bounds (t : sctype) (ssig sb : bytes) (s : script) (stk : list bytes) : bool :=
  match t with
  | StWsh => N.leb (blen sb) 3600 && N.leb (N.of_nat (length stk)) 100 && forallb (fun it => N.leb (blen it) 80) stk &&
             N.leb (count_nonpush_ops s) 201
  | StShWsh => N.leb (blen ssig) 1650 && N.leb (blen sb) 3600 && N.leb (N.of_nat (length stk)) 100 &&
               forallb (fun it => N.leb (blen it) 80) stk && N.leb (count_nonpush_ops s) 201
  | StSh => N.leb (blen ssig) 1650 && N.leb (blen sb) 520 && N.leb (count_nonpush_ops s) 201
  | StBare => N.leb (blen ssig) 1650 && N.leb (blen sb) 10000 && N.leb (count_nonpush_ops s) 201
  | StTr => forallb (fun it => N.leb (blen it) 520) stk && N.leb (N.of_nat (length stk)) 1000
  end.

Lemma spec_body_accepts : forall e t ssig sb s stk,
    parse_script sb = Some s -> std_bounds t ssig sb s stk = true ->
    accepts (with_sv e (sv_of t)) s stk = true ->
    spec_body e t ssig sb stk true = true.
Proof.
  intros e t ssig sb s stk P B A. apply accepts_final_ok in A.
  destruct t; cbn [spec_body std_bounds sv_of] in *; unfold bare_body, sh_body, wsh_body, tr_body; rewrite P;
    repeat (apply andb_true_iff in B; destruct B as [B ?]);
    repeat match goal with H : _ = true |- _ => rewrite H end; cbn [andb]; try reflexivity.
  - assert (N.leb (blen sb) 10000 = true) as ->; [|reflexivity].
    apply N.leb_le. apply N.leb_le in B. lia.
  - assert (N.leb (blen sb) 10000 = true) as ->; [|reflexivity].
    match goal with H : N.leb (blen sb) 3600 = true |- _ => apply N.leb_le in H end. apply N.leb_le. lia.
Qed.

Lemma from_txdata_interp_sound_all :
  forall e fe co ke kp spk ssig wit sb t st code (m : ms) (ty0 : ty) (cs : list constr),
    from_txdata e fe spk ssig wit = FOk (InScript sb t) st code ->
    parse_script sb = Some (enc ke m) ->                       (* the chosen script is the encoding of m *)
    keys_ok (with_sv e (sv_of t)) ke kp ->
    type_of m = ROk ty0 -> c_base (t_corr ty0) = BB -> iwf (with_sv e (sv_of t)) m -> icover m ->
    items_small (map conc st) ->
    interp (with_sv e (sv_of t)) ke kp m st = IAccept cs ->    (* the evaluator accepts on the stack handed over *)
    std_bounds t ssig sb (enc ke m) (map conc st) = true ->
    (forall cb, f_commit fe sb cb = true -> co sb cb = true) -> (* taproot: see from_txdata_sound_tr *)
    verify_spend e co spk ssig wit = true.
Proof.
  intros e fe co ke kp spk ssig wit sb t st code m ty0 cs H P K T B W C S I Bd CO.
  pose proof (ftx_stack_normal _ _ _ _ _ _ _ _ _ H) as F.
  pose proof (evaluator_accepts_script _ _ _ _ _ _ _ K T B W C F S I) as A.
  destruct (from_txdata_sound_all _ _ co _ _ _ _ _ _ _ H) as (_ & cbok & Hcb & ->).
  assert (cbok = true \/ t <> StTr) as [->|NT].
  { destruct t; try (right; discriminate). left. destruct (Hcb eq_refl) as (cb & _ & FC & ->). exact (CO _ FC). }
  - exact (spec_body_accepts _ _ _ _ _ _ P Bd A).
  - pose proof (spec_body_accepts e t ssig sb _ _ P Bd A) as E. destruct t; try exact E. contradiction.
Qed.

(* ------------------------------------------------------------------ (b) completeness, script kinds *)
Lemma p2sh_others : forall spk h,
    spk_is_p2sh spk = Some h ->
    spk_is_p2pk spk = None /\ spk_is_p2pkh spk = None /\ spk_is_p2wpkh spk = None /\ spk_is_p2wsh spk = None /\
    spk_is_p2tr spk = None /\ spk = p2sh_bytes h.
Proof.
  intros spk h H. unfold spk_is_p2sh in H.
  destruct spk as [|a [|b0 rest]]; [discriminate| |].
  { exfalso. destruct a as [|q]; [discriminate|]. do 8 (destruct q as [q|q|]; try discriminate). }
  destruct a as [|q]; [discriminate|]. do 8 (destruct q as [q|q|]; try discriminate).
  destruct b0 as [|q]; [discriminate|]. do 5 (destruct q as [q|q|]; try discriminate).
  repeat (split; [reflexivity|]).
  destruct (rev rest) as [|x hr] eqn:R; [discriminate|].
  destruct x as [|q]; [discriminate|]. do 8 (destruct q as [q|q|]; try discriminate).
  destruct (N.eqb (blen hr) 20); [|discriminate]. injection H as <-.
  unfold p2sh_bytes. f_equal. f_equal. rewrite <- (rev_involutive rest), R. reflexivity.
Qed.

Lemma p2wsh_not_wpkh : forall rb prog, spk_is_p2wsh rb = Some prog -> spk_is_p2wpkh rb = None.
Proof. intros rb prog H. destruct (p2wsh_shape _ _ H) as [-> _]. reflexivity. Qed.

Lemma wit_stack_of_rev : forall wit sb items,
    rev wit = sb :: items -> rev (map elem_of wit) = elem_of sb :: rev (map elem_of (rev items)).
Proof.
  intros wit sb items RW. rewrite <- (rev_involutive wit), RW. cbn [rev]. rewrite map_app, rev_app_distr. reflexivity.
Qed.

(* sh-wsh: the scriptSig lexes into pushes / OP_1 and its top element is a witness-v0 script-hash program *)
Lemma from_txdata_complete_shwsh :
  forall e fe co spk ssig wit h el r prog,
    spk_is_p2sh spk = Some h ->
    ssig_stack_of ssig = Some (el :: r) -> spk_is_p2wsh (conc el) = Some prog ->
    verify_spend e co spk ssig wit = true ->
    (forall sb, hd_error (rev wit) = Some sb -> f_dec fe DSegv0 sb = true) ->
    exists sb st, from_txdata e fe spk ssig wit = FOk (InScript sb StShWsh) st (Some sb) /\ rev wit = sb :: map conc st.
Proof.
  intros e fe co spk ssig wit h el r prog SH SS RW V D.
  destruct (p2sh_others _ _ SH) as (PK & PKH & WP & W & TR & SPK).
  unfold verify_spend in V. rewrite W, WP, SH in V. unfold verify_sh in V.
  destruct (ssig_bridge _ _ SS) as (ss & P & PO). rewrite P, PO in V. cbn [map] in V.
  rewrite RW in V.
  apply andb_true_iff in V. destruct V as [_ V].
  apply andb_true_iff in V. destruct V as [V V2]. apply andb_true_iff in V. destruct V as [HB _].
  destruct r; [|discriminate]. cbn [map] in V2. unfold verify_wsh in V2.
  destruct (rev wit) as [|sb items] eqn:RWT; [discriminate|].
  repeat (apply andb_true_iff in V2; destruct V2 as [V2 ?]).
  destruct el as [| |rb]; try discriminate. cbn [conc] in *.
  exists sb, (rev (map elem_of (rev items))). split.
  - unfold from_txdata. rewrite SS, PK, PKH, WP, W, TR, SH. cbv beta iota zeta.
    apply ftx_bytes_eqb_eq in HB. rewrite SPK, HB, ftx_bytes_eqb_refl. cbn [negb].
    rewrite (p2wsh_not_wpkh _ _ RW), RW. rewrite (wit_stack_of_rev _ _ _ RWT). rewrite conc_elem_of.
    rewrite (D sb eq_refl). cbn [negb].
    destruct (p2wsh_shape _ _ RW) as [-> _]. apply ftx_bytes_eqb_eq in V2. rewrite V2.
    unfold p2wsh_bytes. rewrite ftx_bytes_eqb_refl. reflexivity.
  - rewrite conc_wit_stack, rev_involutive. reflexivity.
Qed.

(* sh (legacy script): the top element is neither witness program; the redeem script decodes in Legacy *)
Lemma from_txdata_complete_sh :
  forall e fe co spk ssig wit h el r,
    spk_is_p2sh spk = Some h ->
    ssig_stack_of ssig = Some (el :: r) -> spk_is_p2wsh (conc el) = None -> spk_is_p2wpkh (conc el) = None ->
    verify_spend e co spk ssig wit = true ->
    f_dec fe DLegacy (conc el) = true ->
    from_txdata e fe spk ssig wit = FOk (InScript (conc el) StSh) r (Some (conc el)).
Proof.
  intros e fe co spk ssig wit h el r SH SS RW RWP V D.
  destruct (p2sh_others _ _ SH) as (PK & PKH & WP & W & TR & SPK).
  unfold verify_spend in V. rewrite W, WP, SH in V. unfold verify_sh in V.
  destruct (ssig_bridge _ _ SS) as (ss & P & PO). rewrite P, PO in V. cbn [map] in V.
  rewrite RW, RWP in V.
  apply andb_true_iff in V. destruct V as [_ V].
  apply andb_true_iff in V. destruct V as [V V2]. apply andb_true_iff in V. destruct V as [HB _].
  destruct wit; [|discriminate].
  apply ftx_bytes_eqb_eq in HB.
  unfold from_txdata. rewrite SS, PK, PKH, WP, W, TR, SH. cbn [map rev]. cbv beta iota zeta.
  destruct el as [| |rb]; cbn [conc] in *.
  - rewrite D. cbn [negb]. rewrite SPK, HB, ftx_bytes_eqb_refl. reflexivity.
  - rewrite D. cbn [negb]. rewrite SPK, HB, ftx_bytes_eqb_refl. reflexivity.
  - rewrite SPK at 1. rewrite HB, ftx_bytes_eqb_refl. cbn [negb]. rewrite RWP, RW. rewrite D. cbn [negb].
    rewrite SPK, ftx_bytes_eqb_refl. reflexivity.
Qed.

(* bare: the scriptPubKey is none of the standard templates and decodes in BareCtx *)
Lemma from_txdata_complete_bare :
  forall e fe co spk ssig wit st,
    spk_is_p2pk spk = None -> spk_is_p2pkh spk = None -> spk_is_p2wpkh spk = None -> spk_is_p2wsh spk = None ->
    spk_is_p2tr spk = None -> spk_is_p2sh spk = None ->
    ssig_stack_of ssig = Some st ->
    verify_spend e co spk ssig wit = true ->
    f_dec fe DBare spk = true ->
    from_txdata e fe spk ssig wit = FOk (InScript spk StBare) st (Some spk).
Proof.
  intros e fe co spk ssig wit st PK PKH WP W TR SH SS V D.
  unfold verify_spend in V. rewrite W, WP, SH, TR in V. unfold verify_bare in V.
  destruct wit; [|discriminate].
  unfold from_txdata. rewrite SS, PK, PKH, WP, W, TR, SH. cbn [map rev]. cbv beta iota zeta. rewrite D. reflexivity.
Qed.

Lemma p2tr_others : forall spk k,
    spk_is_p2tr spk = Some k ->
    spk_is_p2pk spk = None /\ spk_is_p2pkh spk = None /\ spk_is_p2wpkh spk = None /\ spk_is_p2wsh spk = None /\
    spk_is_p2sh spk = None.
Proof.
  intros spk k H. unfold spk_is_p2tr in H.
  destruct spk as [|a [|b0 rest]]; [discriminate| |].
  { exfalso. destruct a as [|q]; [discriminate|]. do 7 (destruct q as [q|q|]; try discriminate). }
  destruct a as [|q]; [discriminate|]. do 7 (destruct q as [q|q|]; try discriminate).
  repeat split; reflexivity.
Qed.

(* tr script path (at least two witness items, the last one is the control block): the output key and the
   control block parse, the leaf decodes in Tap, and the implementation's commitment check agrees with the
   specification's on this control block *)
Lemma from_txdata_complete_tr :
  forall e fe co spk ssig wit k cb sb items,
    spk_is_p2tr spk = Some k -> rev wit = cb :: sb :: items ->
    verify_spend e co spk ssig wit = true ->
    f_xonly fe k = true -> cb_decode_ok fe cb = true -> f_dec fe DTap sb = true ->
    (co sb cb = true -> f_commit fe sb cb = true) ->
    exists st, from_txdata e fe spk ssig wit = FOk (InScript sb StTr) st (Some sb) /\ items = map conc st.
Proof.
  intros e fe co spk ssig wit k cb sb items TR RW V X CB D CO.
  destruct (p2tr_others _ _ TR) as (PK & PKH & WP & W & SH).
  unfold verify_spend in V. rewrite W, WP, SH, TR in V. unfold verify_tr in V.
  destruct ssig; [|discriminate]. rewrite RW in V.
  destruct cb as [|c [|c2 cr]]; [discriminate CB|cbn in CB; discriminate CB|].
  destruct (N.eqb c 80) eqn:NA.
  { apply N.eqb_eq in NA. subst c. discriminate V. }
  rewrite (not_annex _ c (c2 :: cr) _ _ NA) in V.
  apply andb_true_iff in V. destruct V as [V _]. apply andb_true_iff in V. destruct V as [V _].
  apply andb_true_iff in V. destruct V as [V _]. apply CO in V.
  exists (rev (map elem_of (rev items))). split.
  - unfold from_txdata. cbn [ssig_stack_of length lex_bytes elems_of_toks]. rewrite PK, PKH, WP, W, TR.
    cbv beta iota zeta. rewrite X. cbn [negb].
    assert (WS : rev (map elem_of wit) = EPush (c :: c2 :: cr) :: elem_of sb :: rev (map elem_of (rev items))).
    { rewrite <- (rev_involutive wit), RW. cbn [rev]. rewrite !map_app, !rev_app_distr. reflexivity. }
    rewrite WS. cbv beta iota zeta. rewrite NA. cbn [andb]. rewrite CB. cbn [negb].
    rewrite conc_elem_of, D, V. reflexivity.
  - rewrite conc_wit_stack, rev_involutive. reflexivity.
Qed.
