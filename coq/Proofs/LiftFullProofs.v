(* C07 — the full two-directional statement at SCRIPT level, from Theorem A and Theorem B.

   World = a finite list [W] of stack elements (the material the spender holds: signatures,
   preimages, and the public constants).  What the world can do is read off the material with
   the transaction environment [e] (DenotSpec.assets_of):
     "W can sign for k"      : some non-empty element of W verifies under key k  (e_sigok)
     "W knows a preimage of h": some 32-byte element of W hashes to h
     after(t) / older(t)      : the transaction's nLockTime / nSequence meet t     (check_locktime / check_sequence)
   The lifted policy is evaluated by the truth table in that world: [leval (assets_of e ke W) p].

   lift_hides_no_path    : a stack over W that the Script semantics accepts  =>  policy true in W
                           (Theorem B: accepts <-> exact relation; CompleteScript.sat_ne: an exact
                           satisfaction from covered material has a table entry; lift_table)
   lift_invents_no_path  : policy true in W  =>  a stack over W is accepted
                           (lift_table; every table entry is built from W's material and the
                           public constants [table_material]; Theorem A)
   lift_spending_condition : the equivalence. *)
From Verif Require Import Exec Ser Ast Types TypeCheck SatSpec Sat LiftModel LiftLimits TheoremA SatProofs FrameDissat
  CompleteProofs CompleteThresh CompleteNonMall CompleteScript DenotSpec DenotMain DenotTable LiftProofs LiftNormProofs LiftMainProofs.
From Coq Require Import Lia Permutation.

Section Full.
  Variable e : env.
  Variable ke : keyenv.
  Hypothesis Hsort : forall ks, Permutation (ksort ke ks) ks.
  Hypothesis Hse : forall kbs, e_sigok e kbs [] = false.

  (* pk_h commits to a key hash: among the world's material only the key itself has that hash *)
  Definition kh_binds (W : wit) : Prop :=
    forall k key, In key W -> e_hash160 e key = kh ke k -> key = kb ke k.

  (* the public constants a witness may contain besides signatures and preimages *)
  Definition pub_in (m : ms) (W : wit) : Prop :=
    In [] W /\ In [1%N] W /\ In zeros32 W /\ forall k, In k (dn_keys m) -> In (kb ke k) W.

  Notation AW W := (assets_of e ke W).

  (* ---------- (<=) ---------- *)
  Lemma wfind_sig_ne W k sg : In sg W -> sg <> [] -> e_sigok e (kb ke k) sg = true -> wfind_sig e ke W k <> None.
  Proof.
    intros Hin Hne Hok Hf. unfold wfind_sig in Hf. apply (find_none _ _ Hf) in Hin.
    rewrite Hok in Hin. destruct sg; [congruence | discriminate].
  Qed.
  Lemma wfind_pre_ne hf W h x : In x W -> blen x = 32%N -> hf x = h -> wfind_pre hf W h <> None.
  Proof.
    intros Hin Hl Hh Hf. unfold wfind_pre in Hf. apply (find_none _ _ Hf) in Hin.
    rewrite Hl, Hh, bytes_eqb_refl in Hin. discriminate.
  Qed.

  Lemma covers_assets_of W w : incl w W -> kh_binds W -> CompleteScript.covers e ke (AW W) w.
  Proof.
    intros Hin Hb. constructor; cbn [assets_of a_sig].
    - intros k sg Hs Hne Hok. apply (wfind_sig_ne W k sg); auto.
    - intros k key sg Hk Hs Hh Hne Hok. rewrite (Hb k key (Hin key Hk) Hh) in Hok.
      apply (wfind_sig_ne W k sg); auto.
  Qed.

  Lemma mok_assets_of W w : incl w W -> forall m, no_multi m -> mok e (AW W) (opened_known e (AW W) w) m.
  Proof.
    intros Hin. induction m using ms_ind'; intros Hn; cbn [mok no_multi] in *; try exact I; try tauto;
      try (intros [x [Hx [Hl Hh]]]; cbn [look assets_of a_sha256 a_hash256 a_ripemd160 a_hash160];
           eapply wfind_pre_ne; [apply Hin, Hx | exact Hl | exact Hh]).
    induction H as [|x r Hx Hr IH]; [exact I|]. destruct Hn as [N1 N2]. split; [apply Hx, N1 | apply IH, N2].
  Qed.

  Theorem lift_hides_no_path (W : wit) rl m t p :
    kh_binds W ->
    type_of m = ROk t -> c_base (t_corr t) = BB -> wf e ke m -> lift rl m = Some p ->
    forall w, incl w W -> accepts e (enc ke m) w = true -> leval (AW W) p = true.
  Proof.
    intros Hb Ht Hbb Hwf Hl w Hin Hacc.
    rewrite (lift_table ke Hsort (AW W) rl m t p Ht (wf_thresh_ok e ke m Hwf) Hl).
    assert (Hne : all_sat ke (AW W) m <> []).
    { apply (script_table_entry e ke (AW W) Hse m t Ht Hbb Hwf w); [|exact Hacc]. split.
      - apply covers_assets_of; assumption.
      - apply mok_assets_of; [exact Hin | exact (lift_no_raw rl m p Hl)]. }
    destruct (all_sat ke (AW W) m); [congruence | reflexivity].
  Qed.

  (* ---------- (=>): table entries are built from the world's material ---------- *)
  Section Material.
    Variable W : wit.
    Variable A : assets.
    Hypothesis Hsig : forall k s, a_sig A k = Some s -> In s W.
    Hypothesis Hp1 : forall h x, a_sha256 A h = Some x -> In x W.
    Hypothesis Hp2 : forall h x, a_hash256 A h = Some x -> In x W.
    Hypothesis Hp3 : forall h x, a_ripemd160 A h = Some x -> In x W.
    Hypothesis Hp4 : forall h x, a_hash160 A h = Some x -> In x W.
    Hypothesis H0 : In [] W.
    Hypothesis H1 : In [1%N] W.
    Hypothesis Hz : In zeros32 W.

    Definition allin (l : list wit) : Prop := forall w, In w l -> incl w W.

    Lemma allin_nil : allin []. Proof. intros w []. Qed.
    Lemma allin_one w : incl w W -> allin [w]. Proof. intros H x [<-|[]]. exact H. Qed.
    Lemma allin_app a b : allin a -> allin b -> allin (a ++ b).
    Proof. intros Ha Hb w Hw. apply in_app_or in Hw. destruct Hw; auto. Qed.
    Lemma allin_cross a b : allin a -> allin b -> allin (cross a b).
    Proof.
      intros Ha Hb w Hw. apply in_cross in Hw. destruct Hw as [x [y [Hx [Hy ->]]]].
      apply incl_app; auto.
    Qed.
    Lemma allin_cons x l : In x W -> allin l -> allin (map (cons x) l).
    Proof.
      intros Hx Hl w Hw. apply in_map_iff in Hw. destruct Hw as [y [<- Hy]].
      intros z [<-|Hz']; [exact Hx | exact (Hl y Hy z Hz')].
    Qed.
    Lemma incl_repeat0 n : incl (repeat ([] : bytes) n) W.
    Proof. intros x Hx. apply repeat_spec in Hx. subst. exact H0. Qed.

    Lemma allin_comb cs : Forall (fun c => allin (fst c) /\ allin (snd c)) cs -> forall k, allin (thresh_comb k cs).
    Proof.
      induction 1 as [|[s d] r [Hs Hd] Hr IH]; intros k.
      - destruct k; [apply allin_one; intros x [] | apply allin_nil].
      - cbn [thresh_comb]. cbn [fst snd] in *. apply allin_app.
        + destruct k; [apply allin_nil | apply allin_cross; auto].
        + apply allin_cross; auto.
    Qed.

    Lemma allin_pick ks : forall k sigs, In sigs (pick_sigs A k ks) -> incl sigs W.
    Proof.
      induction ks as [|key r IH]; intros k sigs Hin; cbn [pick_sigs] in Hin.
      - destruct k; [destruct Hin as [<-|[]]; intros x [] | destruct Hin].
      - apply in_app_or in Hin. destruct Hin as [Hin|Hin]; [|eapply IH; exact Hin].
        destruct k as [|k']; [destruct Hin|]. destruct (a_sig A key) as [sg|] eqn:Es; [|destruct Hin].
        apply in_map_iff in Hin. destruct Hin as [y [<- Hy]].
        intros z [<-|Hz']; [exact (Hsig key sg Es) | exact (IH k' y Hy z Hz')].
    Qed.
    Lemma allin_pick_a ks : forall k, allin (pick_sigs_a A k ks).
    Proof.
      induction ks as [|key r IH]; intros k; cbn [pick_sigs_a].
      - destruct k; [apply allin_one; intros x [] | apply allin_nil].
      - apply allin_app; [|apply allin_cons; [exact H0 | apply IH]].
        destruct k as [|k']; [apply allin_nil|]. destruct (a_sig A key) as [sg|] eqn:Es; [|apply allin_nil].
        apply allin_cons; [exact (Hsig key sg Es) | apply IH].
    Qed.
    Lemma allin_multi k ks : allin (map (fun sigs => rev sigs ++ [[]]) (pick_sigs A k ks)).
    Proof.
      intros w Hw. apply in_map_iff in Hw. destruct Hw as [sigs [<- Hs]]. apply incl_app.
      - intros x Hx. apply in_rev in Hx. exact (allin_pick ks k sigs Hs x Hx).
      - intros x [<-|[]]. exact H0.
    Qed.
    Lemma allin_hash look h : (forall x, look h = Some x -> In x W) ->
      allin (fst (hash_sd look h)) /\ allin (snd (hash_sd look h)).
    Proof.
      intros Hl. unfold hash_sd. cbn [fst snd]. split.
      - destruct (look h) as [x|] eqn:E; cbn [opt_list map]; [|apply allin_nil].
        apply allin_one. intros y [<-|[]]. apply Hl. reflexivity.
      - apply allin_one. intros y [<-|[]]. exact Hz.
    Qed.

    Definition mat (m : ms) : Prop :=
      (forall k, In k (dn_keys m) -> In (kb ke k) W) -> allin (all_sat ke A m) /\ allin (all_dsat ke A m).

    Lemma incl1 x : In x W -> incl [x] W. Proof. intros H y [<-|[]]. exact H. Qed.
    Lemma incl2 x y : In x W -> In y W -> incl [x; y] W.
    Proof. intros Hx Hy z [<-|[<-|[]]]; assumption. Qed.

    Theorem table_material : forall m, mat m.
    Proof.
      induction m using ms_ind'; intros HK; cbn [dn_keys] in HK.
      - split; [apply allin_one; intros x [] | apply allin_nil].
      - split; [apply allin_nil | apply allin_one; intros x []].
      - unfold all_sat, all_dsat. cbn [sd fst snd]. split.
        + destruct (a_sig A k) as [s|] eqn:Es; cbn [opt_list map]; [|apply allin_nil].
          apply allin_one, incl1, (Hsig k s Es).
        + apply allin_one, incl1, H0.
      - unfold all_sat, all_dsat. cbn [sd fst snd].
        assert (Hk : In (kb ke k) W) by (apply HK; left; reflexivity). split.
        + destruct (a_sig A k) as [s|] eqn:Es; cbn [opt_list map]; [|apply allin_nil].
          apply allin_one, incl2; [exact Hk | exact (Hsig k s Es)].
        + apply allin_one, incl2; [exact Hk | exact H0].
      - split; apply allin_nil.
      - unfold all_sat, all_dsat. cbn [sd fst snd]. split; [|apply allin_nil].
        destruct (a_after A t); [apply allin_one; intros x [] | apply allin_nil].
      - unfold all_sat, all_dsat. cbn [sd fst snd]. split; [|apply allin_nil].
        destruct (a_older A t); [apply allin_one; intros x [] | apply allin_nil].
      - apply (allin_hash (a_sha256 A) h (Hp1 h)).
      - apply (allin_hash (a_hash256 A) h (Hp2 h)).
      - apply (allin_hash (a_ripemd160 A) h (Hp3 h)).
      - apply (allin_hash (a_hash160 A) h (Hp4 h)).
      - exact (IHm HK).
      - exact (IHm HK).
      - exact (IHm HK).
      - destruct (IHm HK) as [Is Id]. unfold all_sat, all_dsat. cbn [sd fst snd]. split.
        + apply allin_cons; [exact H1 | exact Is].
        + apply allin_one, incl1, H0.
      - destruct (IHm HK) as [Is Id]. unfold all_sat, all_dsat. cbn [sd fst snd]. split; [exact Is | apply allin_nil].
      - destruct (IHm HK) as [Is Id]. unfold all_sat, all_dsat. cbn [sd fst snd]. split; [exact Is | apply allin_one, incl1, H0].
      - exact (IHm HK).
      - (* and_v *)
        destruct (IHm1 (fun k Hk => HK k (in_or_app _ _ k (or_introl Hk)))) as [I1 I2].
        destruct (IHm2 (fun k Hk => HK k (in_or_app _ _ k (or_intror Hk)))) as [I3 I4].
        unfold all_sat, all_dsat in *. cbn [sd]. destruct (sd ke A m1) as [sx dx], (sd ke A m2) as [sy dy]. cbn [fst snd] in *.
        split; apply allin_cross; assumption.
      - (* and_b *)
        destruct (IHm1 (fun k Hk => HK k (in_or_app _ _ k (or_introl Hk)))) as [I1 I2].
        destruct (IHm2 (fun k Hk => HK k (in_or_app _ _ k (or_intror Hk)))) as [I3 I4].
        unfold all_sat, all_dsat in *. cbn [sd]. destruct (sd ke A m1) as [sx dx], (sd ke A m2) as [sy dy]. cbn [fst snd] in *.
        split; apply allin_cross; assumption.
      - (* andor *)
        destruct (IHm1 (fun k Hk => HK k (in_or_app _ _ k (or_introl Hk)))) as [I1 I2].
        destruct (IHm2 (fun k Hk => HK k (in_or_app _ _ k (or_intror (in_or_app _ _ k (or_introl Hk)))))) as [I3 I4].
        destruct (IHm3 (fun k Hk => HK k (in_or_app _ _ k (or_intror (in_or_app _ _ k (or_intror Hk)))))) as [I5 I6].
        unfold all_sat, all_dsat in *. cbn [sd].
        destruct (sd ke A m1) as [sa da], (sd ke A m2) as [sb db], (sd ke A m3) as [sc dc]. cbn [fst snd] in *.
        split; [apply allin_app|]; apply allin_cross; assumption.
      - (* or_b *)
        destruct (IHm1 (fun k Hk => HK k (in_or_app _ _ k (or_introl Hk)))) as [I1 I2].
        destruct (IHm2 (fun k Hk => HK k (in_or_app _ _ k (or_intror Hk)))) as [I3 I4].
        unfold all_sat, all_dsat in *. cbn [sd]. destruct (sd ke A m1) as [sx dx], (sd ke A m2) as [sy dy]. cbn [fst snd] in *.
        split; [apply allin_app|]; apply allin_cross; assumption.
      - (* or_d *)
        destruct (IHm1 (fun k Hk => HK k (in_or_app _ _ k (or_introl Hk)))) as [I1 I2].
        destruct (IHm2 (fun k Hk => HK k (in_or_app _ _ k (or_intror Hk)))) as [I3 I4].
        unfold all_sat, all_dsat in *. cbn [sd]. destruct (sd ke A m1) as [sx dx], (sd ke A m2) as [sy dy]. cbn [fst snd] in *.
        split; [apply allin_app; [assumption|]|]; apply allin_cross; assumption.
      - (* or_c *)
        destruct (IHm1 (fun k Hk => HK k (in_or_app _ _ k (or_introl Hk)))) as [I1 I2].
        destruct (IHm2 (fun k Hk => HK k (in_or_app _ _ k (or_intror Hk)))) as [I3 I4].
        unfold all_sat, all_dsat in *. cbn [sd]. destruct (sd ke A m1) as [sx dx], (sd ke A m2) as [sy dy]. cbn [fst snd] in *.
        split; [apply allin_app; [assumption | apply allin_cross; assumption] | apply allin_nil].
      - (* or_i *)
        destruct (IHm1 (fun k Hk => HK k (in_or_app _ _ k (or_introl Hk)))) as [I1 I2].
        destruct (IHm2 (fun k Hk => HK k (in_or_app _ _ k (or_intror Hk)))) as [I3 I4].
        unfold all_sat, all_dsat in *. cbn [sd]. destruct (sd ke A m1) as [sx dx], (sd ke A m2) as [sy dy]. cbn [fst snd] in *.
        split; apply allin_app; apply allin_cons; assumption.
      - (* thresh *)
        unfold all_sat, all_dsat. rewrite t_sd_thresh. cbn [fst snd].
        assert (HF : Forall (fun c => allin (fst c) /\ allin (snd c)) (map (sd ke A) xs)).
        { induction H as [|x r Hx Hr IH]; [constructor|]. cbn [map flat_map] in *. constructor.
          - apply Hx. intros q Hq. apply HK, in_or_app. left. exact Hq.
          - apply IH. intros q Hq. apply HK, in_or_app. right. exact Hq. }
        split; apply allin_comb; exact HF.
      - unfold all_sat, all_dsat. cbn [sd fst snd]. split; [apply allin_multi | apply allin_one, incl_repeat0].
      - unfold all_sat, all_dsat. cbn [sd fst snd]. split; [apply allin_multi | apply allin_one, incl_repeat0].
      - unfold all_sat, all_dsat. cbn [sd fst snd]. split; [apply allin_pick_a | apply allin_one, incl_repeat0].
      - unfold all_sat, all_dsat. cbn [sd fst snd]. split; [apply allin_pick_a | apply allin_one, incl_repeat0].
    Qed.
  End Material.

  Lemma find_in {X} (f : X -> bool) l x : find f l = Some x -> In x l.
  Proof. intros H. apply find_some in H. tauto. Qed.

  Theorem lift_invents_no_path (W : wit) rl m t p :
    keys_ok e ke -> (forall x, In x W -> (blen x < 2147483648)%N) -> pub_in m W ->
    type_of m = ROk t -> c_base (t_corr t) = BB -> wf e ke m -> lift rl m = Some p ->
    leval (AW W) p = true -> exists w, incl w W /\ accepts e (enc ke m) w = true.
  Proof.
    intros HK Hlen [P0 [P1 [Pz Pk]]] Ht Hbb Hwf Hl Hev.
    pose proof (assets_of_ok e ke W HK Hlen) as HA.
    destruct (lift_script_direction ke Hsort e (AW W) HA Hse rl m t p Ht Hbb Hwf Hl Hev) as [w [Hin Hacc]].
    exists w. split; [|exact Hacc].
    refine (proj1 (table_material W (AW W) _ _ _ _ _ P0 P1 Pz m Pk) w Hin);
      cbn [assets_of a_sig a_sha256 a_hash256 a_ripemd160 a_hash160]; intros ? ? Hf; exact (find_in _ _ _ Hf).
  Qed.

  Theorem lift_spending_condition (W : wit) rl m t p :
    keys_ok e ke -> (forall x, In x W -> (blen x < 2147483648)%N) -> pub_in m W -> kh_binds W ->
    type_of m = ROk t -> c_base (t_corr t) = BB -> wf e ke m -> lift rl m = Some p ->
    (leval (AW W) p = true <-> exists w, incl w W /\ accepts e (enc ke m) w = true).
  Proof.
    intros HK Hlen Hpub Hb Ht Hbb Hwf Hl. split.
    - apply (lift_invents_no_path W rl m t p); assumption.
    - intros [w [Hin Hacc]]. apply (lift_hides_no_path W rl m t p Hb Ht Hbb Hwf Hl w Hin Hacc).
  Qed.
End Full.

(* ---------- the policy and the MODEL of the library's malleable satisfier: equivalence ---------- *)
Theorem lift_policy_iff_satisfier (ke : keyenv) (A : assets) (se : senv) (f : fill) :
  (forall ks, Permutation (ksort ke ks) ks) ->
  linked ke A se f -> locks_compatible se ->
  forall (rhs rl : bool) m t p, type_of m = ROk t -> ms_thresh_ok m -> thresh_fit ke se rhs m ->
  lift rl m = Some p ->
  (leval A p = true <-> exists bs, satisfy ke se f true rhs m = Some bs).
Proof.
  intros Hsort HL HC rhs rl m t p Ht Hok Hfit Hl. split.
  - intros Hev. apply (mall_satisfy_complete ke A se f HL HC rhs m Hfit).
    rewrite (lift_table ke Hsort A rl m t p Ht Hok Hl) in Hev. destruct (all_sat ke A m); discriminate.
  - intros [bs Hs]. exact (lift_satisfier_implies_policy ke Hsort A se f HL true rhs rl m t p bs Ht Hok Hl Hs).
Qed.

(* ---------- descriptors: the script part of every output type ---------- *)
(* what makes a world usable for a script under an environment *)
Definition world_ok (e : env) (ke : keyenv) (m : ms) (W : wit) : Prop :=
  keys_ok e ke /\ (forall kbs, e_sigok e kbs [] = false) /\ (forall x, In x W -> (blen x < 2147483648)%N) /\
  pub_in ke m W /\ kh_binds e ke W.
Definition ms_okB (e : env) (ke : keyenv) (m : ms) : Prop :=
  (exists t, type_of m = ROk t /\ c_base (t_corr t) = BB) /\ wf e ke m.
Definition cansign (e : env) (ke : keyenv) (W : wit) (k : key) : bool := is_some (wfind_sig e ke W k).

(* script-level spendability: the inner script accepts a stack over W (witness script / redeem
   script / tap leaf, each leaf under its own environment: signatures commit to the leaf);
   key outputs and the taproot key path: W holds a signature under the key.  The output-type
   wrapping itself (script hash, witness program, control block, key tweak) is C15 / C16. *)
Definition desc_script_spendable (e : env) (eleaf : nat -> env) (ke : keyenv) (W : wit) (d : ldesc) : Prop :=
  match d with
  | DBare _ m | DSh _ m | DWsh _ m | DShWsh _ m => exists w, incl w W /\ accepts e (enc ke m) w = true
  | DPkh k | DWpkh k | DShWpkh k => cansign e ke W k = true
  | DTr ik leaves =>
    cansign e ke W ik = true \/
    exists i rl m, nth_error leaves i = Some (rl, m) /\ exists w, incl w W /\ accepts (eleaf i) (enc ke m) w = true
  end.
Definition desc_full_ok (e : env) (eleaf : nat -> env) (ke : keyenv) (W : wit) (d : ldesc) : Prop :=
  match d with
  | DBare _ m | DSh _ m | DWsh _ m | DShWsh _ m => ms_okB e ke m /\ world_ok e ke m W
  | DTr _ leaves =>
    forall i rl m, nth_error leaves i = Some (rl, m) ->
      ms_okB (eleaf i) ke m /\ world_ok (eleaf i) ke m W /\
      same_avail (assets_of e ke W) (assets_of (eleaf i) ke W)       (* a key signs for every leaf or for none *)
  | _ => True
  end.

Section DescFull.
  Variable ke : keyenv.
  Hypothesis Hsort : forall ks, Permutation (ksort ke ks) ks.

  Lemma lift_iter_some rl m p : lift_iter rl m = LOk p -> lift rl m = Some p.
  Proof. intros H. rewrite lift_iter_refines in H. unfold lift. rewrite H. reflexivity. Qed.

  Lemma ms_full (e : env) (W : wit) rl m p : ms_okB e ke m -> world_ok e ke m W -> lift_iter rl m = LOk p ->
    (leval (assets_of e ke W) p = true <-> exists w, incl w W /\ accepts e (enc ke m) w = true) /\ lwf p.
  Proof.
    intros [[t [Ht Hb]] Hwf] [HK [Hse [Hlen [Hpub Hkh]]]] Hl. apply lift_iter_some in Hl. split.
    - exact (lift_spending_condition e ke Hsort Hse W rl m t p HK Hlen Hpub Hkh Ht Hb Hwf Hl).
    - exact (lift_lwf rl m p (wf_thresh_ok e ke m Hwf) Hl).
  Qed.

  Lemma leaves_full (e : env) (W : wit) : forall leaves ps (eleaf : nat -> env),
    lift_leaves leaves = inr ps ->
    (forall i rl m, nth_error leaves i = Some (rl, m) ->
       ms_okB (eleaf i) ke m /\ world_ok (eleaf i) ke m W /\ same_avail (assets_of e ke W) (assets_of (eleaf i) ke W)) ->
    (existsb (leval (assets_of e ke W)) ps = true <->
     exists i rl m, nth_error leaves i = Some (rl, m) /\ exists w, incl w W /\ accepts (eleaf i) (enc ke m) w = true)
    /\ Forall lwf ps /\ length ps = length leaves.
  Proof.
    induction leaves as [|[rl m] r IH]; intros ps eleaf Hl Hok.
    - inversion Hl; subst. split; [|split; [constructor | reflexivity]]. cbn [existsb]. split; [discriminate|].
      intros [i [rl [m [Hn _]]]]. destruct i; discriminate.
    - cbn [lift_leaves] in Hl. destruct (lift_iter rl m) as [p| |] eqn:Ep; try discriminate.
      destruct (lift_leaves r) as [err|ps'] eqn:Er; [discriminate|]. inversion Hl; subst.
      destruct (Hok O rl m eq_refl) as [Hm [Hw Hav]].
      destruct (ms_full (eleaf O) W rl m p Hm Hw Ep) as [Hiff Hlwf].
      destruct (IH ps' (fun i => eleaf (S i)) eq_refl (fun i rl' m' Hn => Hok (S i) rl' m' Hn)) as [I1 [I2 I3]].
      split; [|split; [constructor; assumption | cbn [length]; congruence]].
      cbn [existsb]. rewrite (leval_same_avail _ _ Hav p). split.
      + intros H. apply orb_prop in H. destruct H as [H|H].
        * apply Hiff in H. exists O, rl, m. split; [reflexivity | exact H].
        * apply I1 in H. destruct H as [i [rl' [m' [Hn Hx]]]]. exists (S i), rl', m'. split; assumption.
      + intros [i [rl' [m' [Hn Hx]]]]. destruct i as [|i].
        * cbn in Hn. inversion Hn; subst. apply (proj2 Hiff) in Hx. rewrite Hx. reflexivity.
        * cbn [nth_error] in Hn. rewrite (proj2 I1 (ex_intro _ i (ex_intro _ rl' (ex_intro _ m' (conj Hn Hx))))).
          apply orb_true_r.
  Qed.

  Theorem lift_desc_spending_condition (e : env) (eleaf : nat -> env) (W : wit) (d : ldesc) (p : lpolicy) :
    desc_full_ok e eleaf ke W d -> lift_desc d = LOk p ->
    (leval (assets_of e ke W) p = true <-> desc_script_spendable e eleaf ke W d).
  Proof.
    intros Hok Hl. destruct d as [rl m|rl m|rl m|rl m|k|k|k|ik leaves]; cbn [lift_desc desc_script_spendable desc_full_ok] in *;
      try (destruct Hok as [Hm Hw]; exact (proj1 (ms_full e W rl m p Hm Hw Hl)));
      try (inversion Hl; subst; reflexivity).
    destruct leaves as [|lf r].
    - inversion Hl; subst. cbn [leval]. unfold cansign. split; [auto|]. intros [H|[i [rl [m [Hn _]]]]]; [exact H | destruct i; discriminate].
    - destruct (lift_leaves (lf :: r)) as [err|ps] eqn:El; [exfalso; exact (lift_leaves_err _ _ El p Hl)|].
      inversion Hl; subst; clear Hl.
      destruct (leaves_full e W (lf :: r) ps eleaf El Hok) as [I1 [I2 I3]].
      rewrite leval_or2. change (norm_node 1 (map normalized ps)) with (normalized (LThresh 1 ps)).
      rewrite normalized_leval by (apply lwf_thresh; split; [change (N.to_nat 1) with 1%nat; rewrite I3; cbn [length]; lia | exact I2]).
      rewrite ev_thresh. change (N.to_nat 1) with 1%nat. rewrite leb_one_existsb. cbn [leval assets_of a_sig]. unfold cansign. split.
      + intros H. apply orb_prop in H. destruct H as [H|H]; [left; exact H | right; apply I1, H].
      + intros [H|H]; [rewrite H; reflexivity | rewrite (proj2 I1 H); apply orb_true_r].
  Qed.
End DescFull.

(* ---------- the same for Miniscript::lift with the within_resource_limits verdict COMPUTED from
   the fragment and its context (LiftLimits.lift_ctx), the function the tie compares ---------- *)
Theorem lift_ctx_spending_condition (e : env) (ke : keyenv) :
  (forall ks, Permutation (ksort ke ks) ks) -> (forall kbs, e_sigok e kbs [] = false) ->
  forall (c : ctx) (unc : key -> bool) (W : wit) (m : ms) (t : ty) (p : lpolicy),
    keys_ok e ke -> (forall x, In x W -> (blen x < 2147483648)%N) -> pub_in ke m W -> kh_binds e ke W ->
    type_of m = ROk t -> c_base (t_corr t) = BB -> wf e ke m -> lift_ctx c unc m = LOk p ->
    (leval (assets_of e ke W) p = true <-> exists w, incl w W /\ accepts e (enc ke m) w = true).
Proof.
  intros Hsort Hse c unc W m t p HK Hlen Hpub Hkh Ht Hb Hwf Hl. unfold lift_ctx in Hl.
  apply lift_iter_some in Hl.
  exact (lift_spending_condition e ke Hsort Hse W _ m t p HK Hlen Hpub Hkh Ht Hb Hwf Hl).
Qed.
(* lift refuses exactly when the computed verdict, the time-lock test or a raw_pk_h says so *)
Lemma lift_ctx_refuses (c : ctx) (unc : key -> bool) (m : ms) :
  within_resource_limits c unc m = false -> lift_ctx c unc m = LErr EBranchExceedResourceLimits.
Proof. intros H. unfold lift_ctx, lift_iter. rewrite H. reflexivity. Qed.

(* ---------- non-vacuity: a concrete environment, key table, world and script ---------- *)
Definition fx_e : env :=
  mkEnv SvWitnessV0 0 5 2 (fun _ s => match s with [9%N] => true | _ => false end) (fun _ => true)
        (fun b => b) (fun b => b) (fun b => b) (fun b => b).
Definition fx_ke : keyenv := mkKeyEnv (fun _ => [2%N]) (fun _ => [2%N]) (fun ks => ks).
Definition fx_W : wit := [[]; [1%N]; zeros32; [2%N]; [9%N]].      (* public constants, the key, one signature *)
Definition fx_W0 : wit := [[]; [1%N]; zeros32; [2%N]].            (* the same world without the signature *)
Definition fx_m : ms := MAndV (MVerify (MCheck (MPkK 0%N))) (MOlder 5%N).

Lemma fx_hyps W : (W = fx_W \/ W = fx_W0) ->
  keys_ok fx_e fx_ke /\ (forall kbs, e_sigok fx_e kbs [] = false) /\ (forall ks, Permutation (ksort fx_ke ks) ks) /\
  (forall x, In x W -> (blen x < 2147483648)%N) /\ pub_in fx_ke fx_m W /\ kh_binds fx_e fx_ke W /\
  exists t, type_of fx_m = ROk t /\ c_base (t_corr t) = BB /\ wf fx_e fx_ke fx_m.
Proof.
  intros HW. split; [|split; [|split; [|split; [|split; [|split]]]]].
  - constructor; intros k; cbn; [reflexivity | lia | reflexivity].
  - reflexivity.
  - intros ks. apply Permutation_refl.
  - intros x Hx. destruct HW as [-> | ->]; cbn in Hx;
      repeat (destruct Hx as [<-|Hx]; [vm_compute; reflexivity|]); destruct Hx.
  - destruct HW as [-> | ->]; (split; [left; reflexivity|]; split; [right; left; reflexivity|];
      split; [right; right; left; reflexivity|]; intros k _; right; right; right; left; reflexivity).
  - intros k key _ Hh. cbn in Hh. exact Hh.
  - eexists. repeat split; reflexivity.
Qed.

Lemma fx_true : exists p, lift true fx_m = Some p /\ leval (assets_of fx_e fx_ke fx_W) p = true.
Proof. eexists. split; reflexivity. Qed.
Lemma fx_false : exists p, lift true fx_m = Some p /\ leval (assets_of fx_e fx_ke fx_W0) p = false.
Proof. eexists. split; reflexivity. Qed.
